#!/bin/sh
# run every registered quick (or given tier) check sequentially; print one summary line each
tier=${1:-quick}
cd /verif
for id in $(python3 -c "import json;print(' '.join(c['property_id'] for c in json.load(open('/verif/MANIFEST.json'))['checks']))"); do
  s=$(date +%s)
  out=$(./check $id --tier $tier 2>&1); rc=$?
  e=$(date +%s)
  echo "$id rc=$rc wall=$((e-s))s $(echo "$out" | grep -E "^$id tier=" | tail -1)"
  echo "$out" | grep -E "^(VIOLATION|KNOWN-FINDING)" | head -5
done
