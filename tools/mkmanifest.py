#!/usr/bin/env python3
"""Regenerates /verif/MANIFEST.json from tools/manifest_data.py (single source of truth)."""
import json, os, sys
sys.path.insert(0, os.path.dirname(os.path.abspath(__file__)))
from manifest_data import CHECKS, NOT_APPLICABLE, HOOK_COMMITS
ALL = ["C%02d" % i for i in range(1, 30)]
checks = []
for pid in ALL:
    if pid not in CHECKS:
        continue
    c = CHECKS[pid]
    checks.append({
        "property_id": pid,
        "quick_cmd": f"./check {pid} --tier quick",
        "thorough_cmd": f"./check {pid} --tier thorough",
        "evidence_file": f"/verif/evidence/{pid}.json",
        "replay_cmd_template": f"./check {pid} --replay {{path}}",
        "engine": "lean4-proof+correspondence",
        "level_claimed": {"category": "proof", "text": c["text"], "design_ref": c.get("ref", "DESIGN.md §4 " + pid)},
        "level_note": c["note"],
        "technique": c["technique"],
    })
na = [{"property_id": p, "reason": NOT_APPLICABLE.get(p, "not yet claimed: model/theorems for this property are still being built (see DESIGN.md §7 order of work); no check is registered until it is green on the unchanged tree")}
      for p in ALL if p not in CHECKS]
m = {
    "version": 1,
    "setup_cmd": "./setup.sh",
    "hooks": {
        "guard": "winterfell_verif",
        "enable": "none needed so far: the harness reaches everything through public APIs and the translator reads source text; reserved guard is RUSTFLAGS='--cfg winterfell_verif'",
        "baseline_off_cmd": "cd /repo && cargo test --workspace --no-fail-fast --offline",
        "source_commits": HOOK_COMMITS,
        "add_only": True,
    },
    "engines": [{
        "name": "lean4-proof+correspondence",
        "path": "/verif/check",
        "serves_properties": [c["property_id"] for c in checks],
        "kind_free_text": "Lean 4 theorems about an executable model (lean/Wf/Props/Cxx.lean) re-checked by `lake build` + #print axioms audit; the model is tied to /repo by a differential correspondence check (harness/ runs the real crates, lean/Driver.lean runs the model on the same request lines) and, for integer kernels, by regenerating lean/Wf/Gen from the Rust source (tools/rs2lean.py)",
    }],
    "checks": checks,
    "not_applicable": na,
    "notes": "See DESIGN.md. known_findings.txt lists recorded defects and fixed: entries; replays/ is written on violation.",
}
json.dump(m, open(os.path.join(os.path.dirname(os.path.dirname(os.path.abspath(__file__))), "MANIFEST.json"), "w"), indent=1)
print("checks:", len(checks), "not_applicable:", len(na))
