HOOK_COMMITS = []
NOT_APPLICABLE = {}
CHECKS = {
    "C26": {
        "text": "Theorems for ALL values: vint64 length = documented length, write/read round trip with exact consumption for size values, fixed-width integers, bool, Option, tuples, arrays, Vec, String (valid UTF-8), BTreeSet/BTreeMap; every decoder built from these combinators returns ok/err (never panic, pre-allocation bounded) on EVERY byte string; invalid bool / UTF-8 / oversized size values are errors. The model is tied to the code by correspondence on >10^4 generated encodings, truncations, corruptions and random inputs per run.",
        "note": "Trusted: Lean kernel; hand-written model lean/Wf/Model/Serde.lean validated against winter-utils by the correspondence stream c26 (all vint64 boundaries 2^k±2, all first bytes, nested types); 64-bit usize; allocation-abort threshold is a modelling constant; truncation of composite encodings is correspondence-only.",
        "technique": "Lean 4 proof (induction/omega over the codec model) + differential correspondence with winter-utils",
    },
    "C27": {
        "text": "Refinement theorem for ALL contents, ALL chunk schedules (any positive read sizes) and ALL operation sequences: the ReadAdapter state machine returns exactly the SliceReader's values and end-of-input errors on the concatenated content (simulation via abs = local buffer ++ BufReader buffer ++ future reads), never panics, and check_eor fails only if the data is really missing. Proved by induction over the op list with invariants (chunks non-empty, guaranteed_eof only after exhaustion). Model tied to the code by correspondence on random histories plus exhaustive small-scope enumeration, with the real SliceReader as the property's oracle.",
        "note": "Trusted: Lean kernel; hand-written model lean/Wf/Model/Adapter.lean; BufReader contract (fill_buf/consume) modelled, not verified; sticky EOF and no I/O errors assumed. Three genuine defects found by attempting this proof were repaired in /repo (see known_findings.txt: fixed entries).",
        "technique": "Lean 4 refinement proof (simulation + induction over operation histories) + differential correspondence with winter-utils",
    },
    "C10": {
        "text": "f64: theorems about the Lean code REGENERATED from f64/mod.rs on every run: for every reduced stored word add/sub/mul/neg/double/new return reduced words whose canonical values are the sum/difference/product/... modulo p=2^64-2^32+1 (Montgomery reduction proved for all 2^128 inputs with high limb < p), as_int is canonical for every word, == is value equality; extension formulas (quadratic x^2-x+2, cubic x^3-x-1: mul, square, mul_base) equal multiplication modulo the documented polynomial over any commutative ring; the inversion chain is x^(p-2). f62/f128 and the extension wrappers/exponentiation loops: value-level spec model + correspondence against an independent modular-arithmetic oracle (partial: no limb-level theorem yet).",
        "note": "Trusted: Lean kernel + bv_decide axioms (listed in evidence); translator tools/rs2lean.py and the BitVec reading of Rust integer operators; correspondence stream c10 covers all three fields, five extensions, representation-level f64 words at the proofs' case-split boundaries, operation chains producing non-canonical intermediates, and termination (3 s watchdog). Three genuine defects found and fixed (f64 double, f64 mul_small, f62 inv hang).",
        "technique": "Lean 4 proof over source-translated kernels (bv_decide + omega + ring) + differential correspondence with winter-math",
    },
    "C11": {
        "text": "Theorems about constants regenerated from source on every run: the three moduli are prime (Lucas certificates, kernel-evaluated verified powMod), have the documented two-adicity and bit length; GENERATOR has order p-1; TWO_ADIC_ROOT_OF_UNITY^(2^(s-n)) has exact order 2^n for EVERY n <= s (one lemma over orderOf, not a table); Montgomery constants R2/R3/U; the Frobenius formulas map the basis to its p-th powers in the specification ring. Encodings: for any field whose modulus fits its width, every value < M round-trips with exact consumption, every value >= M is rejected by read/TryFrom/from_random_bytes, truncation is EOF, no panic.",
        "note": "Trusted: Lean kernel, Mathlib (lucas_primality, orderOf lemmas); translator for the literals; value-level codec model tied by correspondence (stream c11, exhaustive over root orders). Gap: irreducibility of the five extension polynomials and linear extension of the Frobenius statement are not mechanised.",
        "technique": "Lean 4 proof (Lucas primality certificates, orderOf lemmas, kernel evaluation) + differential correspondence with winter-math",
    },
}
