HOOK_COMMITS = []
NOT_APPLICABLE = {}
CHECKS = {
    "C26": {
        "text": "Theorems for ALL values: vint64 length = documented length, write/read round trip with exact consumption for size values, fixed-width integers, bool, Option, tuples, arrays, Vec, String (valid UTF-8), BTreeSet/BTreeMap; every decoder built from these combinators returns ok/err (never panic, pre-allocation bounded) on EVERY byte string; invalid bool / UTF-8 / oversized size values are errors. The model is tied to the code by correspondence on >10^4 generated encodings, truncations, corruptions and random inputs per run.",
        "note": "Trusted: Lean kernel; hand-written model lean/Wf/Model/Serde.lean validated against winter-utils by the correspondence stream c26 (all vint64 boundaries 2^k±2, all first bytes, nested types); 64-bit usize; allocation-abort threshold is a modelling constant; truncation of composite encodings is correspondence-only.",
        "technique": "Lean 4 proof (induction/omega over the codec model) + differential correspondence with winter-utils",
    },
    "C27": {
        "text": "Refinement theorem for ALL contents, ALL chunk schedules (any positive read sizes) and ALL operation sequences: the ReadAdapter state machine returns exactly the SliceReader's values and end-of-input errors on the concatenated content (simulation via abs = local buffer ++ BufReader buffer ++ future reads), never panics, and check_eor fails only if the data is really missing. Proved by induction over the op list with invariants (chunks non-empty, guaranteed_eof only after exhaustion). Model tied to the code by correspondence on random histories plus exhaustive small-scope enumeration, with the real SliceReader as the property's oracle.",
        "note": "Trusted: Lean kernel; hand-written model lean/Wf/Model/Adapter.lean; BufReader contract (fill_buf/consume) modelled, not verified; sticky EOF and no I/O errors assumed. Three genuine defects found by attempting this proof were repaired in /repo (see known_findings.txt: fixed entries).",
        "technique": "Lean 4 refinement proof (simulation + induction over operation histories) + differential correspondence with winter-utils",
    },
}
