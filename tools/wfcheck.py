#!/usr/bin/env python3
"""Check driver for the winterfell Lean-4 verification (see /verif/DESIGN.md §2.4).

  ./check <Cxx> [--tier quick|thorough] [--replay FILE]

For one property it
  1. rebuilds the Rust harness against /repo's working tree, regenerates Wf/Gen (translator tie),
  2. rebuilds the property's Lean theorems (`lake build Wf.Props.Cxx`) and audits their axioms,
  3. runs the correspondence streams: the real crates and the Lean model driver answer the same
     request lines; every answer is also compared with the property's own oracle,
  4. decides (proof ok & correspondence ok -> exit 0; otherwise failing-input search / VIOLATION),
  5. writes evidence/<Cxx>.json from counts measured in this run.
"""
import fcntl
import json
import os
import re
import subprocess
import sys
import time

VERIF = os.path.dirname(os.path.dirname(os.path.abspath(__file__)))
REPO = os.environ.get("WF_REPO", "/repo")
CACHE = os.path.join(VERIF, ".cache")
LEAN = os.path.join(VERIF, "lean")
HARNESS = os.path.join(VERIF, "harness")
TARGET = os.path.join(CACHE, "target")
ALLOWED_AXIOMS = {"propext", "Classical.choice", "Quot.sound"}

sys.path.insert(0, os.path.join(VERIF, "tools"))
from props import PROPS  # noqa: E402


def sh(cmd, cwd=None, timeout=None, env=None, stdin=None):
    e = dict(os.environ)
    e["CARGO_NET_OFFLINE"] = "true"
    if env:
        e.update(env)
    try:
        p = subprocess.run(cmd, cwd=cwd, shell=isinstance(cmd, str), stdout=subprocess.PIPE,
                           stderr=subprocess.STDOUT, timeout=timeout, env=e, stdin=stdin)
    except subprocess.TimeoutExpired as ex:
        out = (ex.stdout or b"").decode("utf-8", "replace")
        return 124, out + f"\n[wfcheck] command timed out after {timeout}s: {cmd if isinstance(cmd, str) else ' '.join(cmd)}"
    out = p.stdout.decode("utf-8", "replace")
    out = "\n".join(l for l in out.splitlines() if "auto_activate_base" not in l)
    return p.returncode, out


class Lock:
    def __init__(self, name):
        os.makedirs(CACHE, exist_ok=True)
        self.path = os.path.join(CACHE, name + ".lock")

    def __enter__(self):
        self.f = open(self.path, "w")
        fcntl.flock(self.f, fcntl.LOCK_EX)

    def __exit__(self, *a):
        fcntl.flock(self.f, fcntl.LOCK_UN)
        self.f.close()


def build_harness(features=(), profile="release"):
    """cargo build of the harness against /repo's current working tree (path dependencies)."""
    with Lock("cargo"):
        lock_src = os.path.join(REPO, "Cargo.lock")
        lock_dst = os.path.join(HARNESS, "Cargo.lock")
        if not os.path.exists(lock_dst):
            subprocess.run(["cp", lock_src, lock_dst])
        cmd = ["cargo", "build", "--offline"] + (["--release"] if profile == "release" else ["--profile", profile])
        tdir = TARGET
        if features:
            cmd += ["--features", ",".join(features)]
            tdir = TARGET + "-" + "-".join(features)
        if profile != "release":
            tdir = tdir + "-" + profile
        cmd += ["--target-dir", tdir]
        rc, out = sh(cmd, cwd=HARNESS, timeout=14400)
        return rc, out, os.path.join(tdir, profile, "wfh")


def run_gen(gen_steps):
    """translator tie: regenerate Wf/Gen/*.lean from the current sources."""
    results = []
    for step in gen_steps:
        rc, out = sh([sys.executable, os.path.join(VERIF, "tools", "rs2lean.py")] + step, cwd=VERIF, timeout=600)
        results.append((step, rc, out))
    return results


def lake_build(targets):
    with Lock("lake"):
        rc, out = sh(["lake", "build"] + targets, cwd=LEAN, timeout=7200)
    return rc, out


def prop_modules(pid):
    """the property's theorem files: Props/<pid>.lean plus the optional continuation files listed
    under "extra_props" (same rules: theorems only, audited the same way)"""
    return [pid] + list(PROPS.get(pid, {}).get("extra_props", []))


def theorem_names(pid):
    names, srcs = [], []
    for mod in prop_modules(pid):
        path = os.path.join(LEAN, "Wf", "Props", mod + ".lean")
        src = open(path).read()
        # strip comments
        src = re.sub(r"/-.*?-/", "", src, flags=re.S)
        src = re.sub(r"--.*", "", src)
        names += [(mod, n) for n in re.findall(r"^theorem\s+([A-Za-z0-9_'.]+)", src, flags=re.M)]
        srcs.append(src)
    return names, "\n".join(srcs)


def audit(pid):
    """#print axioms for every theorem of Props/<pid>.lean; returns {name: [axioms]} or error."""
    names, src = theorem_names(pid)
    bad_words = [w for w in ("sorry", "admit", "native_decide", "implemented_by", "unsafe ", "maxHeartbeats 0")
                 if re.search(r"\b" + re.escape(w.strip()) + r"\b", src)]
    if re.search(r"^\s*axiom\s", src, flags=re.M):
        bad_words.append("axiom")
    os.makedirs(os.path.join(CACHE, "audit"), exist_ok=True)
    f = os.path.join(CACHE, "audit", pid + ".lean")
    with open(f, "w") as fh:
        for mod in prop_modules(pid):
            fh.write(f"import Wf.Props.{mod}\n")
        for mod, n in names:
            fh.write(f"#print axioms Wf.Props.{mod}.{n}\n")
    with Lock("lake"):
        rc, out = sh(["lake", "env", "lean", f], cwd=LEAN, timeout=7200)
    axioms = {}
    for m in re.finditer(r"'Wf\.Props\.([A-Za-z0-9_]+)\.([^']+)' (does not depend on any axioms|depends on axioms: \[([^\]]*)\])", out, flags=re.S):
        if m.group(1) not in prop_modules(pid):
            continue
        name = m.group(2)
        axs = [] if m.group(4) is None else [a.strip() for a in m.group(4).replace("\n", " ").split(",") if a.strip()]
        axioms[name] = axs
    return rc, out, [n for _, n in names], axioms, bad_words


RUNDIRS = set()


def keep_rundirs():
    import shutil
    for d in RUNDIRS:
        stable = d.rsplit(".", 1)[0]
        try:
            if os.path.isdir(stable):
                shutil.rmtree(stable, ignore_errors=True)
            os.rename(d, stable)
        except OSError:
            shutil.rmtree(d, ignore_errors=True)


def run_stream(wfh, fam, seed, n, pid, oracle_only=False, env=None, tag=""):
    """run harness family, then the model driver on the same requests; return list of cases."""
    # private to this process (two checks of the same property may run at the same time); kept under
    # the stable name .cache/run/<pid><tag> after the run for inspection
    rundir = os.path.join(CACHE, "run", f"{pid}{tag}.{os.getpid()}")
    os.makedirs(rundir, exist_ok=True)
    RUNDIRS.add(rundir)
    qa = os.path.join(rundir, fam + ".qa")
    for p in (qa, os.path.join(rundir, fam + ".stats.json")):
        if os.path.exists(p):
            os.remove(p)
    t0 = time.time()
    # address-space limit so that absurd allocations fail (and abort) instead of being overcommitted
    rc, out = sh(f"ulimit -v 8388608; exec {wfh} {fam} {seed} {n} {rundir}", timeout=7200, env=env)
    t_impl = time.time() - t0
    reqs, impl, oracle = [], [], []
    died = None
    if os.path.exists(qa):
        pending = None
        for line in open(qa, encoding="utf-8", errors="replace"):
            line = line.rstrip("\n")
            if line.startswith("Q\t"):
                pending = line[2:]
            elif line.startswith("A\t") and pending is not None:
                parts = line.split("\t")
                reqs.append(pending)
                impl.append(parts[1] if len(parts) > 1 else "")
                oracle.append(parts[2] if len(parts) > 2 else "-")
                pending = None
        if rc != 0:
            died = pending if pending is not None else "(harness exited with status %d: %s)" % (rc, out[-300:])
    elif rc != 0:
        died = "(harness failed to start: %s)" % out[-300:]
    stats = {}
    sp = os.path.join(rundir, fam + ".stats.json")
    if os.path.exists(sp):
        try:
            stats = json.load(open(sp))
        except Exception:
            stats = {}
    if oracle_only:
        # no executable Lean model answers these requests: only the property's oracle is compared
        return {"fam": fam, "reqs": reqs, "impl": impl, "oracle": oracle, "model": None, "died": died,
                "stats": stats, "t_impl": t_impl, "t_model": 0.0, "driver_rc": 0, "driver_err": ""}
    # model side
    t0 = time.time()
    reqfile = os.path.join(rundir, fam + ".req")
    with open(reqfile, "w") as fh:
        for r in reqs:
            fh.write(r + "\n")
    drv = os.path.join(LEAN, ".lake", "build", "bin", "wfdriver")
    with open(reqfile) as fin:
        p = subprocess.run([drv], stdin=fin, stdout=subprocess.PIPE, stderr=subprocess.PIPE, timeout=7200)
    model = p.stdout.decode("utf-8", "replace").splitlines()
    t_model = time.time() - t0
    return {"fam": fam, "reqs": reqs, "impl": impl, "oracle": oracle, "model": model, "died": died,
            "stats": stats, "t_impl": t_impl, "t_model": t_model, "driver_rc": p.returncode,
            "driver_err": p.stderr.decode("utf-8", "replace")[-500:]}


def oracle_ok(got, exp):
    if exp == "-":
        return True
    if exp.startswith("~"):
        return re.search(exp[1:], got) is not None
    return got == exp


def load_findings():
    path = os.path.join(VERIF, "known_findings.txt")
    out = []
    if os.path.exists(path):
        for line in open(path):
            line = line.strip()
            if line.startswith("finding:"):
                m = re.match(r"finding:\s+property=(\S+)\s+key=(\S+)\s+(.*)", line)
                if m:
                    out.append({"property": m.group(1), "key": m.group(2), "what": m.group(3)})
    return out


def main():
    args = sys.argv[1:]
    if not args:
        print(__doc__)
        return 2
    pid = args[0]
    tier = os.environ.get("VERIF_TIER", "quick")
    replay_in = None
    i = 1
    while i < len(args):
        if args[i] == "--tier":
            tier = args[i + 1]
            i += 2
        elif args[i] == "--replay":
            replay_in = args[i + 1]
            i += 2
        else:
            i += 1
    if tier not in ("quick", "thorough"):
        tier = "quick"
    seed = int(os.environ.get("VERIF_SEED", "20260921")) & 0xFFFFFFFFFFFF
    cfg = PROPS[pid]
    t_start = time.time()
    problems = []      # list of dicts: kind, key, detail
    notes = []

    # --- 1. harness + translator -----------------------------------------------------------
    rc, out, wfh = build_harness()
    if rc != 0:
        # the repo no longer compiles with the harness: nothing can be shown
        problems.append({"kind": "harness-build", "key": "harness-build", "detail": out[-2000:]})
    gen_results = run_gen(cfg.get("gen", []))
    translator_fallback = []
    for step, grc, gout in gen_results:
        if grc != 0:
            # The translator could not process the current source (a construct outside its Rust
            # subset).  It leaves the last generated model in place, so the theorems are then about
            # THAT model and the tie to the current source is the second mechanism only: the
            # correspondence streams, run at the thorough size whatever the tier.  A disagreement is a
            # concrete failing input; full agreement keeps the property shown (evidence says how).
            translator_fallback.append({"step": " ".join(step), "detail": gout[-1500:]})
    if translator_fallback:
        print(f"NOTE property={pid}: rs2lean could not translate the current source ({translator_fallback[0]['detail'].strip().splitlines()[-1][:160] if translator_fallback[0]['detail'].strip() else 'no message'}); "
              "the theorems are checked on the last generated model and that model is tied to the current source by the correspondence streams at thorough size")

    # --- 2. proofs ---------------------------------------------------------------------------
    rc_lake, out_lake = lake_build(["Wf.Props." + m for m in prop_modules(pid)] + ["wfdriver"])
    proof_ok = rc_lake == 0
    failing_decl = None
    if not proof_ok:
        m = re.search(r"error: ([^\n]*\.lean:\d+:\d+)[^\n]*", out_lake)
        failing_decl = m.group(0)[:300] if m else out_lake[-600:]
        problems.append({"kind": "proof", "key": "proof:" + pid, "detail": out_lake[-3000:], "where": failing_decl})
        # the driver may still be buildable even if a theorem broke
        lake_build(["wfdriver"])
    names, axioms, bad_words = [], {}, []
    if proof_ok:
        rc_a, out_a, names, axioms, bad_words = audit(pid)
        if rc_a != 0:
            problems.append({"kind": "proof", "key": "audit:" + pid, "detail": out_a[-2000:], "where": "axiom audit"})
        for wname in bad_words:
            problems.append({"kind": "proof", "key": "forbidden:" + wname, "detail": f"{wname} occurs in Props/{pid}.lean", "where": wname})
        for n in names:
            if n not in axioms:
                problems.append({"kind": "proof", "key": "audit-missing:" + n, "detail": "no #print axioms output for " + n, "where": n})
    else:
        try:
            names = [n for _, n in theorem_names(pid)[0]]
        except Exception:
            names = []
    native_axioms = sorted({a for axs in axioms.values() for a in axs if a not in ALLOWED_AXIOMS})
    for a in native_axioms:
        if not re.search(r"\._native\.bv_decide\.ax_", a):
            problems.append({"kind": "proof", "key": "axiom:" + a, "detail": "unexpected axiom " + a, "where": a})

    # --- 3. correspondence streams -----------------------------------------------------------
    streams = []
    oracle_only_cases = 0
    variant_cases = 0
    variant_skipped = 0
    nonce_differs = 0
    total_cases = 0
    agree = 0
    distinct = set()
    samples = []
    hist = {}
    if os.path.exists(wfh) and not any(p["kind"] == "harness-build" for p in problems):
        for entry in cfg.get("streams", []):
            fam, nq, nt = entry[0], entry[1], entry[2]
            sopts = entry[3] if len(entry) > 3 else {}
            n = nq if (tier == "quick" and not translator_fallback) else nt
            s = run_stream(wfh, fam, seed, n, pid, oracle_only=sopts.get("oracle_only", False))
            streams.append(s)
            # cross-build / cross-thread variants: the same stream must give identical answers
            for vi, var in enumerate(sopts.get("variants", [])):
                if tier not in var.get("tiers", ("quick", "thorough")):
                    continue
                vrc, vout, vbin = build_harness(tuple(var.get("features", ())), var.get("profile", "release"))
                if vrc != 0:
                    problems.append({"kind": "harness-build", "key": "harness-build:" + ",".join(var.get("features", ())), "detail": vout[-1500:]})
                    continue
                vs = run_stream(vbin, fam, seed, n, pid, oracle_only=True, env=var.get("env"), tag=f"-v{vi}")
                variant_cases += len(vs["reqs"])
                if vs["died"] is not None:
                    problems.append({"kind": "impl-crash", "key": vs["died"], "fam": fam, "detail": f"variant {var} died"})
                for j, req in enumerate(s["reqs"]):
                    vi_ans = vs["impl"][j] if j < len(vs["impl"]) else "(missing)"
                    base_ans = s["impl"][j]
                    if vi_ans.startswith("all@nonce=") and base_ans.startswith("all@nonce="):
                        # whole-proof digests are comparable only when the same proof-of-work nonce
                        # was found (a parallel search may return any valid nonce)
                        if vi_ans.split(":")[0] != base_ans.split(":")[0]:
                            nonce_differs += 1
                            continue
                    if vi_ans != base_ans and var.get("skip") and re.search(var["skip"], req):
                        # request classes outside the property's domain for this variant (documented
                        # where the variant is registered); counted, not judged
                        variant_skipped += 1
                        continue
                    if vi_ans != base_ans:
                        problems.append({"kind": "impl-vs-oracle", "key": req, "fam": fam, "impl": vi_ans, "expected": s["impl"][j], "model": "",
                                         "detail": f"answer under variant {var} differs from the default serial build"})
            for k, v in s["stats"].get("hist", {}).items():
                hist[fam + ":" + k] = v
            if s["died"] is not None:
                problems.append({"kind": "impl-crash", "key": s["died"], "fam": fam,
                                 "detail": "the harness process died (abort/stack overflow/timeout) while the implementation executed this request"})
            if s["model"] is None:
                oracle_only_cases += len(s["reqs"])
                for j, req in enumerate(s["reqs"]):
                    total_cases += 1
                    distinct.add(req)
                    im, orc = s["impl"][j], s["oracle"][j]
                    if not oracle_ok(im, orc):
                        problems.append({"kind": "impl-vs-oracle", "key": req, "fam": fam, "impl": im, "expected": orc, "model": "",
                                         "detail": "implementation answer differs from the property's oracle"})
                    if len(samples) < 6 and j % max(1, len(s["reqs"]) // 3) == 1:
                        samples.append({"request": req[:300], "impl": im[:200], "oracle": orc[:200]})
                continue
            if len(s["model"]) != len(s["reqs"]):
                problems.append({"kind": "driver", "key": "driver:" + fam, "fam": fam,
                                 "detail": f"model driver answered {len(s['model'])} of {len(s['reqs'])} requests; rc={s['driver_rc']} {s['driver_err']}"})
            for j, req in enumerate(s["reqs"]):
                total_cases += 1
                im, orc = s["impl"][j], s["oracle"][j]
                mo = s["model"][j] if j < len(s["model"]) else "(none)"
                distinct.add(req)
                if not oracle_ok(im, orc):
                    problems.append({"kind": "impl-vs-oracle", "key": req, "fam": fam, "impl": im, "expected": orc, "model": mo,
                                     "detail": "implementation answer differs from the property's oracle"})
                if mo != im:
                    problems.append({"kind": "model-vs-impl", "key": req, "fam": fam, "impl": im, "model": mo, "expected": orc,
                                     "detail": "model and implementation disagree"})
                else:
                    agree += 1
                if len(samples) < 6 and j % max(1, len(s["reqs"]) // 3) == 1:
                    samples.append({"request": req[:300], "impl": im[:200], "model": mo[:200], "oracle": orc[:200]})

    # --- 4. decide ------------------------------------------------------------------------------
    findings = [f for f in load_findings() if f["property"] == pid]
    known_hit = []
    unlisted = []
    for p in problems:
        hit = None
        for f in findings:
            pk = p["key"].replace(" ", "_")   # keys in known_findings.txt contain no spaces
            if f["key"].startswith("impl~"):
                # site-keyed finding: the implementation's answer names the failing site
                if f["key"][5:] in (p.get("impl") or "").replace(" ", "_"):
                    hit = f
            elif f["key"] == pk or (f["key"].endswith("*") and pk.startswith(f["key"][:-1])):
                hit = f
        if hit:
            known_hit.append((hit, p))
        else:
            unlisted.append(p)
    seen_findings = set()
    for f, p in known_hit:
        if f["key"] in seen_findings:
            continue
        seen_findings.add(f["key"])
        n_same = len([1 for g, _ in known_hit if g["key"] == f["key"]])
        print(f"KNOWN-FINDING: property={pid} {f['what']} [{n_same} case(s) this run, e.g. {p['key'][:160]}]")
    violations = 0
    replay_path = None
    if unlisted:
        violations = 1
        os.makedirs(os.path.join(VERIF, "replays"), exist_ok=True)
        replay_path = os.path.join(VERIF, "replays", f"{pid}-{int(time.time())}.json")
        concrete = [p for p in unlisted if p["kind"] in ("impl-vs-oracle", "impl-crash")]
        disagree = [p for p in unlisted if p["kind"] == "model-vs-impl"]
        broken = [p for p in unlisted if p["kind"] in ("proof", "translator", "driver", "harness-build")]
        doc = {
            "property": pid, "tier": tier, "seed": seed,
            "failing_inputs_against_implementation": concrete[:20],
            "model_vs_implementation_disagreements": disagree[:20],
            "broken_obligations": broken[:10],
            "searched": {"cases": total_cases, "streams": [s["fam"] for s in streams]},
            "how_to_replay": f"cd /verif && VERIF_SEED={seed} ./check {pid} --tier {tier}",
        }
        suffix = ""
        if not concrete:
            suffix = " no-failing-input-found"
            doc["no_failing_input_found"] = True
            doc["what_no_longer_checks"] = [
                (p.get("where") or p["key"]) for p in broken] + [
                f"correspondence stream {p['fam']} on request: {p['key']}" for p in disagree[:5]]
        with open(replay_path, "w") as fh:
            json.dump(doc, fh, indent=1)
        print(f"VIOLATION property={pid} replay={replay_path}{suffix}")
        for p in (concrete + disagree + broken)[:5]:
            print("  ", p["kind"], "|", p["key"][:200], "|", (p.get("impl") or "")[:80], "|", (p.get("model") or p.get("where") or "")[:80])

    # --- 5. evidence ----------------------------------------------------------------------------
    obligations = len(names)
    discharged = len([n for n in names if n in axioms]) if proof_ok else 0
    nontrivial_rule = cfg.get("rule", "distinct request lines sent to both the implementation and the model")
    ev = {
        "property_id": pid,
        "tier": tier,
        "seed": seed,
        "level": "proof",
        "coverage": {
            "obligations": max(obligations, 1),
            "discharged": discharged if obligations else 0,
            "checker_cmd": f"cd /verif/lean && lake build {' '.join('Wf.Props.' + m for m in prop_modules(pid))} && lake env lean /verif/.cache/audit/{pid}.lean  # kernel re-check + #print axioms",
            "trusted_base": [
                "Lean 4.33.0 kernel; Mathlib v4.33.0 as shipped",
                "axioms used by the theorems of this property: " + (", ".join(sorted({a for axs in axioms.values() for a in axs})) or "none"),
            ] + cfg.get("trusted", []),
            "theorems": names,
            "axioms_per_theorem": axioms,
            "evaluations": total_cases,
            "distinct_nontrivial": len(distinct),
            "rule": nontrivial_rule,
            "samples": samples or [{"note": "no correspondence stream for this property"}],
            "traces_validated_against_impl": agree,
            "input_distribution": hist,
            "translator_fallback": translator_fallback,
            "variant_answers_outside_property_domain": variant_skipped,
            "translator_steps": [" ".join(s) + (" ok" if r == 0 else " FAILED") for s, r, _ in gen_results],
            "oracle_only_cases": oracle_only_cases,
            "variant_cases": variant_cases,
            "variant_cases_with_different_nonce": nonce_differs,
            "model_vs_impl_disagreements": len([p for p in problems if p["kind"] == "model-vs-impl"]),
            "impl_vs_oracle_failures": len([p for p in problems if p["kind"] == "impl-vs-oracle"]),
            "known_findings_hit": [f["key"] for f, _ in known_hit],
            "stream_times_s": {s["fam"]: [round(s["t_impl"], 2), round(s["t_model"], 2)] for s in streams},
        },
        "assumptions": cfg.get("assumptions", []),
        "wall_s": round(time.time() - t_start, 2),
        "violations": violations,
    }
    os.makedirs(os.path.join(VERIF, "evidence"), exist_ok=True)
    with open(os.path.join(VERIF, "evidence", pid + ".json"), "w") as fh:
        json.dump(ev, fh, indent=1)
    print(f"{pid} tier={tier} theorems={discharged}/{obligations} cases={total_cases} agree={agree} "
          f"violations={violations} wall={ev['wall_s']}s")
    return 1 if violations else 0


if __name__ == "__main__":
    try:
        rc = main()
    finally:
        keep_rundirs()
    sys.exit(rc)
