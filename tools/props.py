"""Per-property configuration of the check driver.

streams: (harness family, n for quick, n for thorough)
gen:     translator invocations (arguments of tools/rs2lean.py) that regenerate Wf/Gen files
"""

TIE_C = ("correspondence check: harness/src/*.rs runs the real crates in-process on generated inputs and "
         "tools/wfcheck.py diffs the answers with the Lean model driver (lean/Driver.lean) line by line")

PROPS = {
    "C26": {
        "streams": [("c26", 200, 4000)],
        "trusted": [TIE_C,
                    "model of SliceReader/ByteWriter in lean/Wf/Model/Serde.lean (hand-written; Rust `String` = valid UTF-8 byte vector; BTreeMap/BTreeSet = sorted entry list with Nat keys)",
                    "allocation abort threshold `allocLimit` = 2^31 bytes is a modelling constant"],
        "assumptions": ["64-bit platform (usize = u64)"],
        "rule": "request lines (enc/dec/len/utf8/tz8 with type descriptor and value or bytes); non-trivial = every distinct line (each is a different value, type, truncation or corruption)",
    },
    "C27": {
        "streams": [("c27", 3000, 100000), ("c27x", 2, 4)],
        "trusted": [TIE_C,
                    "model of ReadAdapter in lean/Wf/Model/Adapter.lean (hand-written from byte_reader.rs after the fix: commits; BufReader modelled from its documented contract: fill_buf refills only when empty, by one read of at most 256 bytes; Vec growth policy modelled but unobservable)",
                    "composite operations (read_u16..u128, read_usize, read_bool) are the trait's provided methods; the driver runs the same code over both readers, the theorem covers the six required methods"],
        "assumptions": ["the underlying Read returns >= 1 byte per call until the content is exhausted, then 0 forever (sticky EOF); I/O errors other than EOF are not modelled"],
        "rule": "histories = (content, chunk schedule, operation list); c27x enumerates ALL op lists up to the depth over a 9-op alphabet x ALL chunk compositions of a 6-byte content; non-trivial = distinct request line",
    },
    "C10": {
        "gen": [["f64", "f62", "f128"]],
        "streams": [("c10", 60, 3000)],
        "trusted": [TIE_C,
                    "translator tie: tools/rs2lean.py regenerates lean/Wf/Gen/F64.lean from math/src/field/f64/mod.rs on every run (kernels new/add/sub/mul/neg/double/mul_small/mont_red_cst/mont_to_int/equals as BitVec code with release semantics; exp7, the inversion chain and the quadratic/cubic extension formulas as polymorphic FieldOps code); the theorems are stated about those generated definitions",
                    "bit-level lemmas in lean/Wf/Lemmas/F64Bv.lean are closed by bv_decide (SAT + LRAT certificate checked by ofReduceBool: one `._native.bv_decide.ax_*` axiom each, listed above)",
                    "f62 / f128 limb kernels (add/sub/mul/normalize/new/as_int; f128 mul with its 192-bit helper functions) and extension formulas ARE regenerated from source and executed by the driver, but have no theorems yet; their binary-GCD inv is replaced by Fermat inversion in the model; the generic extension wrappers (QuadExtension/CubeExtension add/sub/neg/inv/conjugate) and the exponentiation loops are hand-modelled (value-level spec model lean/Wf/Model/PrimeSpec.lean, lean/Wf/Model/Fields.lean) and tied by correspondence only"],
        "assumptions": ["Rust release semantics (wrapping) for the f64 kernels; `from_mont` is used within its documented precondition (value < M)"],
        "rule": "requests = (field, op, operands); operands biased to 0, 1, p-1, (p-1)/2, 2^32 and 2^63 bands and, for f64, to raw Montgomery words around every case split of the proofs; non-trivial = distinct request line",
    },
    "C11": {
        "gen": [["fieldconsts", "f64", "f62", "f128"]],
        "streams": [("c11", 150, 5000)],
        "trusted": [TIE_C,
                    "translator tie: lean/Wf/Gen/FieldConsts.lean (moduli, generators, two-adicities, roots of unity, Montgomery constants) and the Frobenius formulas in Wf/Gen/F6x.lean are regenerated from math/src/field/*/mod.rs on every run",
                    "modular powers are evaluated by the Lean kernel (`decide +kernel`) through a verified binary powMod (lean/Wf/Lemmas/PowMod.lean); primality via Mathlib's lucas_primality",
                    "encodings are modelled at value level (lean/Wf/Model/FieldCodec.lean); the stored-word/value relation is C10's"],
        "assumptions": ["irreducibility of the extension polynomials is NOT proved (gap, see DESIGN.md); Frobenius constants are certified on the basis vectors in the specification ring (linearity argued, not mechanised)"],
        "rule": "requests = decoder/encoder/conversion calls on values at and around the modulus (M-2..M+2, 2M, 2^k, type maxima), all truncations, EVERY root-of-unity order 1..two-adicity for the three fields (exhaustive) with an order check by repeated squaring on the implementation",
    },
    "C21": {
        "streams": [("c21", 32, 128)],
        "trusted": [TIE_C,
                    "model of Assertion (constructors, overlaps_with, validate_trace_width/length, apply, get_num_steps, Ord) and of prepare_assertions in lean/Wf/Model/Assertions.lean (hand-written branch by branch; field elements are opaque canonical values; BTreeSet = sorted list under the model of Ord; usize overflow not modelled)",
                    "usize::is_power_of_two is modelled as 2^log2 n = n (lemma isPow2_iff: <-> exists k, n = 2^k); next_power_of_two (only an error payload) is compared by correspondence, not specified",
                    "prepare_assertions is private: the stream reaches it through BoundaryConstraints::new and observes accept / panic kind / resulting constraint order"],
        "assumptions": ["64-bit usize without overflow (first_step + stride*i and #values*stride far below 2^64)"],
        "rule": "requests = constructor calls (ALL small argument combinations incl. every invalid class), (assertion, trace length) validations and step sets for EVERY valid assertion with stride/length <= 2*max and ~50 lengths each, and ALL unordered pairs (both call directions) of assertions valid for the same trace length n, n = 1,2,4..max (max = 32 quick / 128 thorough; column in {0,1}; single, periodic, sequence; every first step, stride, value count), plus ALL ordered pairs and random lists through the real prepare_assertions; oracle for overlap = same column and intersection of explicitly enumerated step sets; non-trivial = distinct request line",
    },
    "C07": {
        "streams": [("obj", 150, 4000)],
        "trusted": [TIE_C,
                    "hand-written models of the wire formats in lean/Wf/Model/ProofObjects.lean (each decode mirrors read_from check by check, after the fix: commits); byte containers (Commitments, Queries, OodFrame, FriProofLayer, FriProof) are modelled as their byte payloads",
                    "round trips of whole proofs and equal verdicts after decode(encode(proof)) are exercised by the protocol-level streams (C01/C08), not by this check"],
        "assumptions": ["64-bit platform"],
        "rule": "requests = encode/decode of generated constructor-valid values at the boundaries (width 1/254/255, aux 0/1/room, 0..255 random elements, 0/1/7/8/65535 metadata bytes, every options field at both ends, every enum tag, lengths 2^3..2^62) plus truncated/edited/extended encodings and random bytes; non-trivial = distinct request line",
    },
    "C24": {
        "streams": [("objseed", 300, 6000), ("obj", 60, 1000)],
        "trusted": [TIE_C,
                    "model of TraceInfo/ProofOptions/Context::to_elements in lean/Wf/Model/ProofObjects.lean (canonical values of the produced elements; all packed words are < 2^32 < every modulus)"],
        "assumptions": ["both contexts are over the same base field (equal modulus byte length)"],
        "rule": "pairs of valid contexts differing in exactly one listed parameter (14 mutation kinds incl. metadata length / trailing zeros / one byte); the oracle says `distinct` whenever the contexts differ",
    },
}
