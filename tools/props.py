"""Per-property configuration of the check driver.

streams: (harness family, n for quick, n for thorough)
gen:     translator invocations (arguments of tools/rs2lean.py) that regenerate Wf/Gen files
"""

TIE_C = ("correspondence check: harness/src/*.rs runs the real crates in-process on generated inputs and "
         "tools/wfcheck.py diffs the answers with the Lean model driver (lean/Driver.lean) line by line")

PROPS = {
    "C26": {
        "streams": [("c26", 200, 4000)],
        "trusted": [TIE_C,
                    "model of SliceReader/ByteWriter in lean/Wf/Model/Serde.lean (hand-written; Rust `String` = valid UTF-8 byte vector; BTreeMap/BTreeSet = sorted entry list with Nat keys)",
                    "allocation abort threshold `allocLimit` = 2^31 bytes is a modelling constant"],
        "assumptions": ["64-bit platform (usize = u64)"],
        "rule": "request lines (enc/dec/len/utf8/tz8 with type descriptor and value or bytes); non-trivial = every distinct line (each is a different value, type, truncation or corruption)",
    },
}
