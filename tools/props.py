"""Per-property configuration of the check driver.

streams: (harness family, n for quick, n for thorough)
gen:     translator invocations (arguments of tools/rs2lean.py) that regenerate Wf/Gen files
"""

TIE_C = ("correspondence check: harness/src/*.rs runs the real crates in-process on generated inputs and "
         "tools/wfcheck.py diffs the answers with the Lean model driver (lean/Driver.lean) line by line")

PROPS = {
    "C26": {
        "streams": [("c26", 200, 4000)],
        "trusted": [TIE_C,
                    "model of SliceReader/ByteWriter in lean/Wf/Model/Serde.lean (hand-written; Rust `String` = valid UTF-8 byte vector; BTreeMap/BTreeSet = sorted entry list with Nat keys)",
                    "allocation abort threshold `allocLimit` = 2^31 bytes is a modelling constant"],
        "assumptions": ["64-bit platform (usize = u64)"],
        "rule": "request lines (enc/dec/len/utf8/tz8 with type descriptor and value or bytes); non-trivial = every distinct line (each is a different value, type, truncation or corruption)",
    },
    "C27": {
        "streams": [("c27", 3000, 100000), ("c27x", 2, 4)],
        "trusted": [TIE_C,
                    "model of ReadAdapter in lean/Wf/Model/Adapter.lean (hand-written from byte_reader.rs after the fix: commits; BufReader modelled from its documented contract: fill_buf refills only when empty, by one read of at most 256 bytes; Vec growth policy modelled but unobservable)",
                    "composite operations (read_u16..u128, read_usize, read_bool) are the trait's provided methods; the driver runs the same code over both readers, the theorem covers the six required methods"],
        "assumptions": ["the underlying Read returns >= 1 byte per call until the content is exhausted, then 0 forever (sticky EOF); I/O errors other than EOF are not modelled"],
        "rule": "histories = (content, chunk schedule, operation list); c27x enumerates ALL op lists up to the depth over a 9-op alphabet x ALL chunk compositions of a 6-byte content; non-trivial = distinct request line",
    },
    "C10": {
        "gen": [["f64", "f62", "f128"]],
        "extra_props": ["C10F62", "C10F128"],
        "streams": [("c10", 60, 3000)],
        "trusted": [TIE_C,
                    "translator tie: tools/rs2lean.py regenerates lean/Wf/Gen/F64.lean from math/src/field/f64/mod.rs on every run (kernels new/add/sub/mul/neg/double/mul_small/mont_red_cst/mont_to_int/equals as BitVec code with release semantics; exp7, the inversion chain and the quadratic/cubic extension formulas as polymorphic FieldOps code); the theorems are stated about those generated definitions",
                    "bit-level lemmas in lean/Wf/Lemmas/F64Bv.lean are closed by bv_decide (SAT + LRAT certificate checked by ofReduceBool: one `._native.bv_decide.ax_*` axiom each, listed above)",
                    "f62 (lean/Wf/Props/C10F62.lean, lean/Wf/Lemmas/F62{,Bv}.lean): add/sub/mul/normalize/new/double/as_int/neg/eq/inv are regenerated into lean/Wf/Gen/F62.lean (`impl Neg`, `impl PartialEq` and `inv` included; every `while` of inv is bounded by 256 iterations, Wf.whileFuel in lean/Wf/Model/While.lean) and the theorems are about those definitions for every stored word in [0, 2p); add/sub/neg/double/normalize bit-level facts by bv_decide, Montgomery multiplication at Nat level (omega + core lemmas, no SAT); inv (binary extended Euclid) is proved correct by a loop invariant over ZMod p (lean/Wf/Lemmas/F62Inv.lean: Mathlib + the primality certificate of lean/Wf/Lemmas/Primes.lean; variants show the 256-iteration bound of the translation is never reached), hence Div; the driver runs the generated neg/eq/inv for the base field f62, the f62 extensions use the hand-written F62.baseOps (neg = sub 0, Fermat inversion)",
                    "f128 (lean/Wf/Props/C10F128.lean, lean/Wf/Lemmas/F128{,Bv}.lean): add/sub/mul/new/neg/as_int and the seven 64-bit limb helpers of mul (add64_with_carry, add_192x192, sub_192x192, sub_modulus, mul_by_modulus, mul_reduce, mul_128x64) are regenerated into lean/Wf/Gen/F128.lean and the theorems are about those definitions: add/sub/neg for every pair of reduced words, new for every u128, each helper's exact integer meaning for ALL limb inputs, and mul = a*b mod p composed from the helpers for every reduced a and every u128 b; add/sub/new, the 192-bit borrow chain, sub_modulus and the final limb-wise comparison are bit-level facts closed by bv_decide (six axioms, no multiplier inside), the 64x64 products and the whole composition are at Nat level (omega + core lemmas); the tuple patterns of the generated mul are turned into projections by propositional rewriting so that the kernel never evaluates the body; the f128 binary-GCD inv is NOT translated (rs2lean.py rejects its untyped `(0, 0, 0)` initialiser) and is replaced by Fermat inversion in the model (correspondence only); the f62 / f128 extension formulas ARE regenerated from source and executed by the driver (f128 quadratic formula = multiplication modulo x^2 - x - 1 over any commutative ring); the generic extension wrappers (QuadExtension/CubeExtension add/sub/neg/inv/conjugate) and the exponentiation loops are hand-modelled (value-level spec model lean/Wf/Model/PrimeSpec.lean, lean/Wf/Model/Fields.lean) and tied by correspondence only"],
        "assumptions": ["Rust release semantics (wrapping) for the f64 / f62 kernels (the f62 theorems show that no operation on words in [0, 2p) wraps); `from_mont` is used within its documented precondition (value < M)"],
        "rule": "requests = (field, op, operands); operands biased to 0, 1, p-1, (p-1)/2, 2^32 and 2^63 bands and, for f64, to raw Montgomery words around every case split of the proofs; `rep` requests (all three fields and five extensions): operands written as operation chains (both f62 words of zero via x + (-x) and new(p-1) + ONE, -ZERO, -(x + (-x)), x - x, ZERO - ZERO, (-x) + x, (x + y) - y, double(x) - (x + x), ...), exhaustively over all pairs of zero forms and randomly, each result compared with the oracle through as_int, through the library's own == against new(expected) and through to_bytes() against the canonical little-endian bytes; non-trivial = distinct request line",
    },
    "C11": {
        "gen": [["fieldconsts", "f64", "f62", "f128"]],
        "streams": [("c11", 150, 5000)],
        "trusted": [TIE_C,
                    "translator tie: lean/Wf/Gen/FieldConsts.lean (moduli, generators, two-adicities, roots of unity, Montgomery constants) and the Frobenius formulas in Wf/Gen/F6x.lean are regenerated from math/src/field/*/mod.rs on every run",
                    "modular powers are evaluated by the Lean kernel (`decide +kernel`) through a verified binary powMod (lean/Wf/Lemmas/PowMod.lean); primality via Mathlib's lucas_primality",
                    "encodings are modelled at value level (lean/Wf/Model/FieldCodec.lean); the stored-word/value relation is C10's"],
        "assumptions": ["irreducibility of the extension polynomials is NOT proved (gap, see DESIGN.md); Frobenius constants are certified on the basis vectors in the specification ring (linearity argued, not mechanised)"],
        "rule": "requests = decoder/encoder/conversion calls on values at and around the modulus (M-2..M+2, 2M, 2^k, type maxima), all truncations, EVERY root-of-unity order 1..two-adicity for the three fields (exhaustive) with an order check by repeated squaring on the implementation",
    },
    "C21": {
        "streams": [("c21", 32, 128)],
        "trusted": [TIE_C,
                    "model of Assertion (constructors, overlaps_with, validate_trace_width/length, apply, get_num_steps, Ord) and of prepare_assertions in lean/Wf/Model/Assertions.lean (hand-written branch by branch; field elements are opaque canonical values; BTreeSet = sorted list under the model of Ord; usize overflow not modelled)",
                    "usize::is_power_of_two is modelled as 2^log2 n = n (lemma isPow2_iff: <-> exists k, n = 2^k); next_power_of_two (only an error payload) is compared by correspondence, not specified",
                    "prepare_assertions is private: the stream reaches it through BoundaryConstraints::new and observes accept / panic kind / resulting constraint order"],
        "assumptions": ["64-bit usize without overflow (first_step + stride*i and #values*stride far below 2^64)"],
        "rule": "requests = constructor calls (ALL small argument combinations incl. every invalid class), (assertion, trace length) validations and step sets for EVERY valid assertion with stride/length <= 2*max and ~50 lengths each, and ALL unordered pairs (both call directions) of assertions valid for the same trace length n, n = 1,2,4..max (max = 32 quick / 128 thorough; column in {0,1}; single, periodic, sequence; every first step, stride, value count), plus ALL ordered pairs and random lists through the real prepare_assertions; oracle for overlap = same column and intersection of explicitly enumerated step sets; non-trivial = distinct request line",
    },
    "C07": {
        "streams": [("obj", 150, 4000)],
        "trusted": [TIE_C,
                    "hand-written models of the wire formats in lean/Wf/Model/ProofObjects.lean (each decode mirrors read_from check by check, after the fix: commits); byte containers (Commitments, Queries, OodFrame, FriProofLayer, FriProof) are modelled as their byte payloads",
                    "round trips of whole proofs and equal verdicts after decode(encode(proof)) are exercised by the protocol-level streams (C01/C08), not by this check"],
        "assumptions": ["64-bit platform"],
        "rule": "requests = encode/decode of generated constructor-valid values at the boundaries (width 1/254/255, aux 0/1/room, 0..255 random elements, 0/1/7/8/65535 metadata bytes, every options field at both ends, every enum tag, lengths 2^3..2^62) plus truncated/edited/extended encodings and random bytes; non-trivial = distinct request line",
    },
    "C24": {
        "streams": [("objseed", 300, 6000), ("obj", 60, 1000)],
        "trusted": [TIE_C,
                    "model of TraceInfo/ProofOptions/Context::to_elements in lean/Wf/Model/ProofObjects.lean (canonical values of the produced elements; all packed words are < 2^32 < every modulus)"],
        "assumptions": ["both contexts are over the same base field (equal modulus byte length)"],
        "rule": "pairs of valid contexts differing in exactly one listed parameter (14 mutation kinds incl. metadata length / trailing zeros / one byte); the oracle says `distinct` whenever the contexts differ",
    },
    "C14": {
        "streams": [("c14", 1, 6, {"variants": [
            {"features": ["concurrent"], "env": {"RAYON_NUM_THREADS": "3"}},
            {"features": ["concurrent"], "env": {"RAYON_NUM_THREADS": "8"}},
            {"features": ["concurrent"], "env": {"RAYON_NUM_THREADS": "1"}, "tiers": ["thorough"]},
            {"features": ["concurrent"], "env": {"RAYON_NUM_THREADS": "5"}, "tiers": ["thorough"]},
            {"features": ["concurrent"], "env": {"RAYON_NUM_THREADS": "16"}, "tiers": ["thorough"]}]})],
        "trusted": [TIE_C,
                    "model of math/src/utils/mod.rs (after the fix: commit 766a8d5), the batch_iter_mut! macro and group/flatten/transpose_slice in lean/Wf/Model/BatchUtils.lean (hand-written; `&mut` slices that are only written become returned lists; a panic is `none`); uninit_vector is modelled as 'content = what the closures write'",
                    "the theorems are stated over any Mathlib Field / CommRing through the ringOps bridge (lean/Wf/Lemmas/RingOps.lean); that f64/f62/f128 and their extensions ARE such fields is C10/C11's business (the driver runs the model over the limb-level instances)",
                    "thread independence: the chunk-partition and offset-homomorphism theorems cover every thread count; rayon's scheduling / data-race freedom of par_chunks_mut is trusted (disjoint &mut chunks by construction); the default check builds the serial harness (threads = 1), the stream is also valid for a `--features concurrent` build (it sends the live thread count to the model)"],
        "assumptions": ["field inversion inverts every non-zero element (C10); exp is a power (C10)"],
        "rule": "requests = (field, op, operands): batch_inversion on every length 0..40 x {no zero, all zero, random zeros, one zero at every position, one non-zero at every position} and lengths 1024k-1, 1024k, 1024k+1 (k up to 16) with zeros at the batch boundaries; power series for every n in 0..40 and around 1024k with bases 0, 1, p-1, random; add_in_place / mul_acc incl. mismatching lengths; group/flatten/transpose for N in {1,2,3,4,8,16} incl. non-divisible lengths; batch_iter_mut! chunk plans; non-trivial = distinct request line",
    },
    "C25": {
        "streams": [("c25", 1, 12)],
        "trusted": [TIE_C,
                    "model of air/src/proof/security.rs, Proof::conjectured_security / proven_security, Context::num_modulus_bits and AcceptableOptions::validate in lean/Wf/Model/Security.lean (HAND-WRITTEN operation by operation; ConjecturedSecurity::compute takes a &ProofOptions and uses ilog2 / cmp::min, which is outside the translator's subset, so the tie is the correspondence stream - which enumerates conjectured security over the ENTIRE constructor-valid (field, blowup, grinding, extension, queries) space - not rs2lean)",
                    "u32 arithmetic is modelled per operation with an explicit build mode (checked = panic on leaving the range, release = wrap); the harness is a release build, so the stream ties the release mode; the checked mode was confirmed once by running the same stream against a debug build (only the zero-modulus cases panicked, before fix c8b170c made the decoder reject them)",
                    "ProvenSecurity is modelled with Lean `Float` (IEEE binary64; log2/sqrt/pow/ceil are the platform libm's, as for Rust std): NOTHING is proved about Float or f64 - this part is validated by correspondence only, on the integer bit levels the API returns (udr_bits/ldr_bits), never on raw floats; saturating `as u64`, f64::min's NaN rule and max_by_key's last-maximum rule are mirrored by hand",
                    "the real-valued specification (lean/Wf/Lemmas/SecurityReal.lean: Real.logb / Real.sqrt / Real.rpow) is NOT tied to IEEE rounding nor to the float model: the float<->real gap is trusted, not proved (theorems with suffix _partial)",
                    "collision-resistance levels other than 96/124/128 are exercised through stand-in Hasher implementations defined in the harness (the trait admits any constant); field sizes other than 62/64/128 bits through contexts decoded from bytes"],
        "assumptions": ["options are constructor-valid (ProofOptions::new / with_partitions), the base field has 1..2040 modulus bits (any non-zero modulus of at most 255 bytes), collision resistance is any u32",
                        "64-bit usize; trace length x blowup <= u32::MAX as Context::new enforces"],
        "rule": "requests = (op, collision resistance, context): q-axis tables with all 255 values for EVERY (field in f64/f62/f128, real hash level 96/124/128, blowup 2..128, grinding 0..32, extension 1..3) = the whole constructor-valid space of conjectured security, g-/e-axis tables around every grinding-floor crossing (thorough: every query count), the full extension x grinding x queries grid (bounds at every point, all three neighbours of every point) for 30 collision-resistance levels x 3 fields x 7 blowups; proven + conjectured levels at every trace length 2^3..2^30, at the repo's own test configurations (pinned to the values its unit tests assert) and at random boundary-biased valid contexts (all folding factors, remainder degrees, batching methods, widths, constraint counts 1..u32::MAX); proven q-/g-/e-axis tables with monotonicity checked between all neighbours; AcceptableOptions::validate for all three variants with minima at level-1/level/level+1/cr/u32::MAX and option sets that are empty / exact / one field apart in each of the ten fields; contexts decoded with other moduli (1 bit .. 2032 bits); serialised contexts with an all-zero modulus of 1..255 bytes, which the decoder must reject; quick tier thins the explicit-value tables (the grids still visit every point), thorough tier is exhaustive; non-trivial = distinct request line",
    },
    "C18": {
        "streams": [("c18", 10, 13, {"variants": [
            {"features": ["concurrent"], "env": {"RAYON_NUM_THREADS": "3"}},
            {"features": ["concurrent"], "env": {"RAYON_NUM_THREADS": "8"}},
            {"features": ["concurrent"], "env": {"RAYON_NUM_THREADS": "1"}, "tiers": ["thorough"]},
            {"features": ["concurrent"], "env": {"RAYON_NUM_THREADS": "5"}, "tiers": ["thorough"]},
            {"features": ["concurrent"], "env": {"RAYON_NUM_THREADS": "16"}, "tiers": ["thorough"]}]})],
        "trusted": [TIE_C,
                    "hand-written model of crypto/src/merkle/{mod,proofs}.rs in lean/Wf/Model/Merkle.lean (build_merkle_nodes as the descending write loop over the flat nodes vector, prove, verify, map_indexes, normalize_indexes, prove_batch, get_root, into_openings, from_single_proofs loop by loop; BTreeMap/BTreeSet = strictly ascending association list / list; every bounds-checked index is an explicit abort; release-build usize semantics); get_root and into_openings share the model of their two (textually duplicated) loops; the consumption check of get_root added by fix f1ad895 (InvalidProof unless proof_pointers[i] == nodes[i].len() for every i, after the level loops and before the root is taken; pointers indexed by position in the current level) is modelled as unusedNodes, in get_root only; the leaf-count check added by fix af69a4d (InvalidProof unless indexes.len() == leaves.len(), right after the emptiness check and before map_indexes) is modelled at the same place - prove_batch returns one leaf per index, so the completeness theorem batch_opening_reconstructs_root still holds for ALL trees and index lists because the coupled simulation now carries 'pointers = lengths of the prover's vectors' to the end of the walk (honest_batch_proof_is_consumed_exactly)",
                    "the hash function is a parameter of the model and of every theorem; the streams run the REAL MerkleTree<H>/BatchMerkleProof<H> with (1) a fully specified TEST hasher defined in harness/src/c18.rs (FNV-style fold over eight u64 words, re-implemented as Wf.Merkle.toyMerge) so that roots, openings and batch proofs are compared digest by digest, and (2) Blake3_256, where only verdicts are compared (root = independent recursive hash, verify ok, proof equalities)",
                    "the concurrent build (crypto/src/merkle/concurrent.rs, rayon subtree schedule, used above 1024 leaves with the `concurrent` feature) is not modelled; the default check builds and exercises the serial crate (the stream is also valid for a `--features concurrent` harness build, where it compares the concurrent builder with the sequential model)"],
        "assumptions": ["64-bit usize; the leaves fit the address space (fewer than 2^64 leaves)"],
        "rule": "requests = (hasher, seeded leaves, op, indexes): trees of 2^1..2^10 (quick) / 2^13 (thorough, across the 1024-leaf concurrent threshold) leaves, rejected leaf counts, the raw builder on odd counts; single openings for all indexes (<= 64 leaves) or boundary + random indexes, out-of-range indexes; batch openings for ALL non-empty subsets of trees up to 8 leaves (all orders up to 4 leaves, random order otherwise) and for single / sibling pairs / halves / all leaves sorted, shuffled, reversed / evens / odds / all but one / runs / random subsets / clustered query patterns in random ORDER on larger trees, with get_root, verify_batch, from_single_proofs = prove_batch and into_openings = map prove (index lists up to 256 entries) evaluated on the result; empty, duplicate and out-of-range index lists; oracle = ok/true for every honest opening, the documented error otherwise; non-trivial = distinct request line",
    },
    "C19": {
        "streams": [("c19", 10, 13)],
        "trusted": [TIE_C,
                    "model lean/Wf/Model/Merkle.lean as for C18 (release-build integer semantics: 2usize.pow wraps, 1 << depth masks the shift; a build with overflow checks additionally panics for depth >= 64 and for index + (1 << depth) overflow - outside the model)",
                    "rejection theorems assume MergeInjective merge (= Function.Injective2 merge, stated explicitly) and, for batches, that the proof's depth byte is the tree's depth (verify_batch does not bind it; the callers in air/fri compare 1 << depth with the domain size); the hypothesis L.length < 2^64 (64-bit address space) makes 2usize.pow(depth) exact",
                    "fix f1ad895 (/repo: BatchMerkleProof::get_root returns InvalidProof unless every supplied node of every node vector has been consumed) is mirrored in the model (unusedNodes, after the level loops, before the root is taken); the consumption theorems get_root_rejects_appended_nodes / get_root_rejects_proper_extensions / get_root_accepts_one_length_variant need no tree and no hypothesis on merge; into_openings has no such check in /repo and none in the model (it is not a verification function)",
                    "fix af69a4d (/repo: get_root returns InvalidProof unless there is exactly one leaf per index; surplus leaves were ignored before) is mirrored in the model right after the emptiness check, so it wins over the out-of-range / duplicate errors (batch_bad_indexes_are_errors states the order); theorems get_root_rejects_leaf_count_mismatch / get_root_accepts_only_one_leaf_per_index hold for any proof and any merge",
                    "the wire format of BatchMerkleProof is modelled with the C26 serde model (BatchProof.decode) for the mutated-bytes requests"],
        "assumptions": ["64-bit usize, release build (no overflow checks)"],
        "rule": "requests = single verify after one substitution (leaf, every path node, every other in-range index; all indexes of trees up to 16 leaves, sampled up to 2^10 / 2^13), out-of-range index aliases, random and empty single proofs; batch verification after one mutation of prove_batch's output (every leaf, every proof node substituted or dropped, every index position -> other in-range / duplicate / out-of-range index, swapped leaves; an unconsumed digest appended to EVERY node-vector position of small proofs (first / second / middle / last / random otherwise, incl. empty vectors), 2-4 and #vectors digests appended, nothing appended, the last digest of one vector dropped while one is appended to another (total count unchanged) - all of which get_root and verify_batch must refuse as InvalidProof since fix f1ad895; leaf count != index count (one / several / as-many-again surplus leaves, first / middle / last leaf dropped, an index appended or dropped alone), which all three entry points must refuse as InvalidProof since fix af69a4d, an index appended TOGETHER with a leaf (duplicate / out-of-range: the documented index errors); vector appended or dropped, depth byte 0..255) on all index subsets of trees up to 4 leaves, sampled subsets up to 2^10 / 2^13; 4000+ random (depth, node vectors, indexes, leaves) tuples (one third with a leaf count different from the index count: oracle InvalidProof) incl. depth 0 and >= 64 and indexes around 2^depth and 2^64; near-valid proofs with one field randomised (incl. random digests appended to / moved between node vectors); well-formed encodings of proofs padded with an unconsumed digest (decoded by the real read_from, then refused by get_root); encodings of real proofs with bit flips / truncation / extension / edited depth and count bytes / random bytes decoded by the real read_from and then used; from_single_proofs on consistent input and on every documented panic; oracle = err-* for every substitution, ok|err (never abort) for arbitrary input; non-trivial = distinct request line",
    },
    "C13": {
        "streams": [("c13", 1, 5)],
        "trusted": [TIE_C,
                    "model of math/src/polynom/mod.rs (after the fix: commits f3bdbb5, e6444d6) in lean/Wf/Model/Polynom.lean (hand-written, every Rust index access is an explicit `[i]?`, in-place loops are recursions returning the new list, release semantics: debug_assert! absent); batch_inversion inside interpolate(_batch) is C14's model",
                    "theorems are identities in Mathlib's R[X] / K[X] through `ofCoeffs` (coefficient k of ofCoeffs l is l[k]) and the ringOps bridge; that f64/f62/f128 and the extensions are fields with a correct inv is C10/C11's business (the driver runs the model over the limb-level instances)",
                    "the oracle of the stream is an independent schoolbook implementation in harness/src/c13.rs (power-sum evaluation, convolution, long division on stripped vectors, Lagrange's formula self-checked at the nodes)"],
        "assumptions": ["field inversion inverts every non-zero element (C10)"],
        "rule": "requests = (field, op, operands) over 8 field instances: eval/eval_many (also base-field coefficients at extension points), add/sub/mul on all length pairs 0..6 and random lengths up to 40 with zero / leading-zero-padded / sparse coefficient vectors, div with divisor degree 0..6 (padded, exact and with remainder, zero dividend, empty dividend, the three documented panics), syn_div(_in_place) for a in {1,2,3,4,7,8,16} and b in {1, p-1, random}, syn_div_roots with duplicate and zero roots, degree_of/remove_leading_zeros, poly_from_roots up to 40 roots with duplicates, interpolate for every n up to 40 (12 for extensions) incl. a zero node and low-degree data, interpolate_batch for N in {1,2,4,8}; non-trivial = distinct request line",
    },
    "C23": {
        "streams": [("c23", 4, 40)],
        "trusted": [TIE_C,
                    "model of ConstraintDivisor (from_transition, from_assertion, degree, evaluate_at incl. the `as u32` cast), TransitionConstraintDegree (new, with_cycles, get_evaluation_degree, min_blowup_factor), the degree bookkeeping of AirContext (ce_blowup_factor, num_constraint_composition_columns after commit adf2d5f, set_num_transition_exemptions) and get_periodic_column_polys / polynom::eval in lean/Wf/Model/AirDivisor.lean (hand-written branch by branch; usize overflow not modelled)",
                    "fft::interpolate_poly is NOT modelled operationally: the driver runs its specification idft (inverse DFT as a double sum) and the stream compares the coefficient lists with the real ones; the periodic-column theorems quantify over any coefficient list passing through the cycle values and are also proved for idft itself (lean/Wf/Lemmas/Idft.lean); that the FFT code computes idft is C12/C13",
                    "the theorems are over any Mathlib Field through the ringOps bridge and any primitive n-th root g; that f64/f62/f128 are fields, that exp is a power and that get_root_of_unity(log2 n) is a primitive n-th root is C10/C11's business (the driver runs the model over the limb-level instances with the C11 model of get_root_of_unity)",
                    "objects are obtained through a configurable `GenAir: Air` defined in harness/src/c23.rs (AirContext::new, set_num_transition_exemptions, Air::get_transition_constraints, Air::get_periodic_column_polys); single-segment traces only"],
        "assumptions": ["trace length < 2^32 (evaluate_at casts the degree to u32: theorem evaluate_at_u32_cast_degenerate shows what happens at 2^32)", "64-bit usize without overflow"],
        "rule": "requests = tdiv: from_transition for n = 8..64 with EVERY exemption count 0..n (n <= 16) / boundary counts, evaluated at EVERY trace-domain point and at out-of-domain points (coset, 2n-th root, random), sampled points for n up to 2^16, three base fields; deg: every (base 0..9, cycle set incl. invalid ones, n); ctx: AirContext for base 1..8 x cycle sets x exemptions 0..base+2 and n/2..n/2+2 x blowups, multi-degree lists, random mixtures (outcome incl. the assertion that fires, ce blowup, column count, divisor degree); per: periodic columns of every cycle length 2..n at EVERY step for n <= 64, rejected lengths, sampled steps for n up to 2^12; oracles from definitions in independent u128 arithmetic (product over non-exempt domain points; least column count holding deg+1 coefficients; values[s mod len]); non-trivial = distinct request line",
    },
    "C22": {
        "streams": [("c22", 4, 24),
                    # the prover-side boundary evaluator (sequences of >= 64 values take a separate code path):
                    # honest end-to-end proofs with long sequence assertions, every first-step/stride shape,
                    # LDE blowup above the constraint-evaluation blowup (answered by the ideal verdict model)
                    ("c22p", 12, 120)],
        "trusted": [TIE_C,
                    "model of BoundaryConstraint::new / evaluate_at, BoundaryConstraintGroup and BoundaryConstraints::new / group_constraints (BTreeMap = key-sorted entry list) in lean/Wf/Model/Boundary.lean, on top of the C21 model of Assertion / prepare_assertions and the C23 model of ConstraintDivisor::from_assertion; main trace segment only (auxiliary assertions use the same generic code with F = E)",
                    "fft::interpolate_poly is NOT modelled operationally: the driver runs its specification idft and the stream compares value polynomials coefficient by coefficient; the sequence-assertion theorems are stated relative to the hypothesis that the interpolated list has the same length and passes through the values on the subgroup generated by g^stride, and proved unconditionally for idft (lean/Wf/Lemmas/Idft.lean); that the FFT code computes idft is C12/C13; get_root_of_unity(log2 len) = g^stride is the C11 root coherence (not re-proved: the driver takes both roots from the C11 model of get_root_of_unity)",
                    "the theorems are over any Mathlib Field / primitive n-th root through the ringOps bridge (C10/C11 for the concrete fields)",
                    "objects are obtained through Air::get_boundary_constraints of the configurable GenAir (harness/src/c23.rs) with composition coefficients 1, 2, 3, ..; equality of PROOF BYTES under permuted assertion lists is a consequence checked at protocol level (C01 streams), here the rendered BoundaryConstraints object is compared"],
        "assumptions": ["trace length < 2^32", "64-bit usize without overflow"],
        "rule": "requests = eval: EVERY valid assertion shape (single at every step, periodic and sequence with every stride and first step) for n = 8, 16 (32 thorough) with the asserted value, value + 1 and a random value at EVERY asserted step, plus sequences of 64..256 values with zero and non-zero first step; gdiv: the group divisor of each of these at EVERY trace-domain point and two out-of-domain points (oracle: product over explicitly enumerated asserted steps); new: random non-overlapping assertion sets (1..3 columns, n = 8..64) and a hand-made multi-column set, each in the original, reversed and shuffled order (oracle: structure / coefficient order from the sorted keys; permuted lists must render identically); three base fields; non-trivial = distinct request line",
    },
    "C29": {
        "streams": [("c29", 150, 5000), ("c29t", 60, 1000)],
        "trusted": [TIE_C,
                    "model of Trace::validate in lean/Wf/Model/TraceTable.lean (hand-written in the order of prover/src/trace/mod.rs: assertions in get_assertions() order and Assertion::apply step order, then steps 0..n-exemptions-1 with all main transition constraints in index order, next row wrapping; returns the site of the first failure = where the Rust code panics) over the AirDesc semantics of lean/Wf/Model/AirDesc.lean (canonical integers mod p); the stream compares verdict AND panic site",
                    "periodic values: Rust evaluates the periodic column polynomials at x^(n/len), the model indexes values[step mod len]; their agreement is C23's periodic-column theorem (hypothesis here) and is exercised by the stream on every generated periodic column and step",
                    "column-major TraceTable model (updateRow/fill/TraceTableFragment::fill/fragments/init) in the same file; uninit_vector content = arbitrary initial table (theorems hold for every content); rayon scheduling of the `concurrent` feature is trusted to be equivalent to SOME sequential order of the disjoint fragments (theorem fragments_eq_fill covers every order, with repetitions)",
                    "the model driver additionally runs consistentB (proved sound: consistentB d = true -> Consistent d) on every c29 instance and answers `inconsistent-desc` otherwise: the hypothesis of the C01/C02 generator-family theorems is checked on the whole stream",
                    "auxiliary segment: not part of the description semantics; the stream validates instances with an honestly built aux trace (GenProver::build_aux_trace with fixed random elements), aux-cell corruptions are not exercised"],
        "assumptions": ["64-bit usize without overflow; exemptions <= n (AirContext enforces <= n/2+1)"],
        "rule": "c29: every generated instance (three base fields, n = 8..256, 1..9 columns, 0..2 periodic columns, 1..4 exemptions with scrambled exempt rows, single/periodic/sequence assertions, optional aux segment) is validated by the real Trace::validate six times: honest, one cell corrupted at the first step / an interior step / the last non-exempt row / an exempt row, and one claimed assertion value perturbed; oracle = independent Rust checker genair::satisfies (ok / reject); the model must reproduce the exact panic site. c29t: per instance the real TraceTable is built by new+fill, init(columns from independent integer arithmetic), with_meta+set, update_row (reverse order) and fragments(len).fill for EVERY power-of-two len 2..n, all cells compared through get/read_row_into/get_column; checksum recomputed by the model's column-major fill/fragments/init and by the oracle; non-trivial = distinct request line",
    },
    "C12": {
        "streams": [("c12", 11, 14, {"variants": [
            {"features": ["concurrent"], "env": {"RAYON_NUM_THREADS": "3"}},
            {"features": ["concurrent"], "env": {"RAYON_NUM_THREADS": "8"}},
            {"features": ["concurrent"], "env": {"RAYON_NUM_THREADS": "1"}, "tiers": ["thorough"]},
            {"features": ["concurrent"], "env": {"RAYON_NUM_THREADS": "5"}, "tiers": ["thorough"]},
            {"features": ["concurrent"], "env": {"RAYON_NUM_THREADS": "16"}, "tiers": ["thorough"]}]})],
        "trusted": [TIE_C,
                    "model of math/src/fft/{mod,serial,fft_inputs}.rs in lean/Wf/Model/Fft.lean (hand-written: fft_in_place with the MAX_LOOP switch and both butterfly loops as written, permute's swap loop, get_twiddles / get_inv_twiddles incl. the `as u32 - 1` exponent with release (wrapping) semantics, evaluate/interpolate (with offset), infer_degree, degree_of; a failed assert! is `none`; recursion depth is a fuel argument = vector length); usize::reverse_bits + wrapping_shr is modelled as reversal of the log2(size) low bits; get_power_series is modelled by its element-wise meaning (C14's subject); indexing inside the model uses getD/setIfInBounds (the public asserts keep every index in range)",
                    "the theorems are stated over ANY two commutative rings B (twiddles, offsets) and E (coefficients) connected by a ring homomorphism (E::from; mul_base = multiplication by the image), with root/inv as arbitrary functions and the single hypothesis w^(N/2) = -1 (true for every primitive N-th root in a ring without zero divisors: theorem root_half_of_primitive); that f64/f62/f128, their extensions and get_root_of_unity satisfy this is C10/C11's business (the driver runs the model over the limb-level instances and the generated root constants)",
                    "NOT modelled: concurrent.rs (split-radix FFT, transpositions, parallel permute, used only with the `concurrent` feature for sizes >= 1024) and real_u64.rs; the default check builds the serial harness"],
        "assumptions": ["64-bit usize; release build (wrapping `domain_size as u32 - 1`); domain sizes < 2^32 for interpolation (asserted by the code)"],
        "rule": "requests = (field in {f64, f62, f128, QuadExtension<f64>, CubeExtension<f64>}, op, vector spec, twiddle size, offset, blowup): EVERY size 2^1..2^11 (quick) / ..2^14 (thorough; crossing the 512 switch and the 1024 concurrency threshold), blowups 1,2,4,8,16, offsets 1 / GENERATOR / random, dense, sparse and boundary-valued (0, 1, p-1, (p-1)/2) coefficient vectors, EVERY degree 0..n-1 and the zero polynomial for n <= 32 (boundary degrees above), random (count, stride, offset) call shapes of fft_in_place_raw, all documented panics; large vectors travel as an LCG seed and are answered as length + FNV digest + first/last element; oracle = naive O(n^2) Horner evaluation / inverse DFT in independent modular arithmetic for domains <= 2^9, round trip = identity and Horner spot checks above; non-trivial = distinct request line",
    },
    "C15": {
        "streams": [("c15", 8, 96)],
        "trusted": [TIE_C,
                    "BLAKE3 and SHA3 are parameters of the model (lean/Wf/Model/Hashers.lean is the byte layout per entry point + digest length); the primitives themselves are the `blake3` / `sha3` crates, which the harness (harness/src/c15.rs) applies to the layout bytes it computes independently from the documentation and compares with the hashers' outputs; the same bytes are compared with the Lean model's preimage (`c15 h ..` lines)",
                    "representation independence of hash_elements: general theorem over any representation with a canonical-value function, and for f64 on stored Montgomery words through C10's as_int theorem; f62 / f128 stored words are covered by correspondence only (every element list is fed through 8 operation chains with equal value, e.g. x + (y + (-y)), (x + y) - y, -(-x), and must give the preimage of the canonical values)"],
        "assumptions": ["little-endian platform (elements_as_bytes of f128 reads raw memory)"],
        "rule": "requests = (hasher, entry point, input): hash on every length 0..70, primitive block boundaries (127..137, 1023..1025, 2048/2049) and random lengths; merge / merge_many of 0..11 digests (zero, 0xff, random); merge_with_int on 0, 1, 2^32, 2^63, 2^64-1, both 64-bit moduli +-1; hash_elements over all 8 field types x lengths 0..5 and random x 8 representation routes, plus `cls` lines asserting equal digests for merge / merge_many of two / hash of the concatenation, merge_with_int vs hash, all routes vs the plain byte string; non-trivial = distinct request line",
    },
    "C17": {
        "streams": [("c17", 4, 48)],
        "trusted": [TIE_C,
                    "model of the Rescue absorption layout (capacity words + sequence of rate blocks, Jive's overwrite padding as its own block kind) in lean/Wf/Model/Hashers.lean, hand-written from the code's DOCUMENTED behaviour (7-byte chunks, terminator byte on the last chunk, length / flag in the capacity); the permutation is a parameter (C16). Tie: (a) `c15 l ..` lines: layout + the hasher's own public apply_permutation = the real digest (Rp64_256, RpJive64_256; Rp62_248's permutation is private), (b) `c15 cls ..` lines: equal / different layouts predicted by the model = equal / different real digests, including the coincidences hash = hash_elements(chunks), merge_many = hash_elements(flattened), merge = hash_elements(a ++ b), merge_with_int = hash_elements(seed ++ split) for all three hashers",
                    "digest distinctness from layout distinctness is relative to collision-freeness of the primitive / permutation: explicit hypothesis of the *_partial theorems, not provable"],
        "assumptions": ["digests have their fixed size (4 elements / 32 or 24 bytes); integers are u64"],
        "rule": "families per hasher (6 hashers), each one `cls` request whose oracle is `all distinct`: every length 0..64 of constant strings 0x00/0x01/0xff/0x80; lengths 7k (k<=34) and 28k+-1; zero-extensions (0..16 zero bytes) and 0x01-extensions of random strings at lengths 0,1,6,7,8,13..15,27..29,55..57,63 and random; all prefixes; element lists: prefixes, 1..17 trailing zeros, trailing one + zeros at lengths around 0..3 rates; digest lists: prefixes, trailing zero digests, the same digests merged in differently split groups; merge_with_int on x, x+p, x+2p.. for both moduli; non-trivial = distinct request line",
    },
    "C20": {
        "streams": [("c20", 6, 60)],
        "trusted": [TIE_C,
                    "model of DefaultRandomCoin in lean/Wf/Model/RandomCoin.lean over an abstract hasher record (hand-written branch by branch; counter is a Nat instead of u64); the theorems hold for every hasher",
                    "the correspondence runs the REAL generic coin code over a test hasher `Toy<B, MODE>` defined in harness/src/c20.rs and re-implemented in lean/Wf/Drv/RandomCoin.lean (three modes: mixing, all-0xff digests = every draw rejected, all-zero digests), comparing complete outputs of whole histories; for BLAKE3-256 the model answers with the output shape and the harness checks two independent instances, ranges/counts, check_leading_zeros against an independently tracked seed, and reseed sensitivity (one flipped bit)"],
        "assumptions": ["fewer than 2^64 draws between reseeds (counter overflow not modelled)", "64-bit usize"],
        "rule": "histories = (hasher, field f64/f62/f128, seed elements incl. empty / p-1, operation list of reseed / draw (degree 1..3) / draw_integers / check_leading_zeros); special histories for every precondition and limit of draw_integers (domain 0, 1, 3, 6, n = domain, n = 1000, 1001, 1500, domain 2^63, equal and different nonces) + random histories of 3..14 operations; oracle = exactly n values below the domain size, abort / error where documented; non-trivial = distinct request line",
    },
    "C08": {
        "streams": [("c08", 6, 120)],
        "trusted": [TIE_C,
                    "model of fri/src/{options,utils,folding/mod,prover/mod,verifier/mod}.rs in lean/Wf/Model/Fri.lean (hand-written statement by statement for the FRI logic: num_fri_layers, fold_positions, map_positions_to_indexes, transpose, layer/remainder construction, build_proof, FriVerifier::new degree check, verify_generic with get_query_values, degree bookkeeping, remainder checks; a panic is an explicit outcome; usize overflow not modelled)",
                    "numerics modelled by VALUE, not by instruction sequence (exact arithmetic, so values coincide; FFT and polynom internals are C12/C13): the size-N serial_fft of apply_drp and interpolate_poly_with_offset of set_remainder are inverse-DFT sums with the same offset scaling; polynom::eval(interpolate_batch(..)) is the Lagrange form; exp_vartime is square-and-multiply",
                    "hashing, Merkle openings and the random coin are INPUTS of the verifier model (C15-C20): opened rows with the verdict of verify_many, the drawn alphas, the verdict of `last commitment == hash_elements(remainder)`; the theorems take `merkleOk`/`remainderOk` as given",
                    "the algebraic theorems are over any Mathlib Field through the ringOps bridge; that f64/f62/f128 and extensions are such fields with the stated roots of unity is C10/C11's business (the driver runs the model over the limb-level instances)",
                    "request lines with op `e2e` / `e2e_incompat` are ORACLE-ONLY (`e2e_incompat` = the same runs on parameter tuples on which the domain cannot be folded in whole steps down to the remainder size: recorded finding c08_e2e_incompat*, the honest prover panics, oracle still `accept`): the real FriProver/DefaultProverChannel/FriVerifier/DefaultVerifierChannel run on data the model does not see and the driver answers the ideal verdict from the parameters alone (abort if the honest prover is undefined on them, accept iff degree <= declared bound and the degree bookkeeping divides evenly); all other ops (foldpos, mapidx, nlayers, drp, vfold, rem, verify) are recomputed by the model; `verify` lines carry the whole transcript extracted from the real proof (positions, queried evaluations, replayed alphas, opened rows, remainder) and the model re-runs the verifier algebra on it"],
        "assumptions": ["collision resistance / binding of the vector commitment is outside this property (merkleOk, remainderOk are inputs)", "64-bit usize without overflow"],
        "rule": "requests = fold_positions / map_positions_to_indexes on random multisets incl. folding factor 0, target size 0, partitions 0/1/3/2^k; num_fri_layers for every (blowup, folding, remainder degree) x every power-of-two domain up to 2^20 and boundary sizes; apply_drp (prover path) and coset interpolation (verifier path) of the same random vectors for N in {2,4,8,16} x 1..8 rows x 8 fields against a coefficient-form oracle; remainder polynomials for lengths 2..32 x blowups; end-to-end honest runs over f64/f62/f128, quadratic and cubic extensions, Blake3/SHA3/Rp64_256, every folding factor x every remainder degree 0..255, blowup 2..16, domains 2^3..2^12 (2^14 thorough), polynomials of degree = bound, bound-1, half, random, linear, constant, zero (dense/monomial/sparse), positions drawn from the channel or explicit multisets (repeats of one position, whole cosets, boundaries, all positions, heavy duplicates, and collision-rich sets: pairs sharing a row at folding depth 0 / 1 / 2 and duplicated positions in random order, systematically for every folding factor), proof verified before and after to_bytes/read_from; small cases additionally as full transcripts; non-trivial = distinct request line",
    },
    "C09": {
        "streams": [("c09", 4, 40)],
        "trusted": [TIE_C,
                    "same model and modelling conventions as C08 (lean/Wf/Model/Fri.lean): hashing/Merkle/coin are inputs; numerics by value",
                    "request lines with op `e2e` are ORACLE-ONLY (the driver answers `reject` for every tampered transcript class `x..` and the ideal verdict from degree/bound otherwise); `verify` lines carry the transcript of the REAL proof (after tampering) with the harness' own knowledge of which layer was altered (merkleOk=0) / whether the remainder still is the committed one (remainderOk=0), and the model must reproduce the real verifier's exact error kind",
                    "for the adaptive attack a second `verify` line with remainderOk forced to 1 is sent: the model answers `ok` (the substituted remainder is consistent with every queried point), the implementation column of that line is `ok` iff the real verifier's only complaint was RemainderCommitmentMismatch (which it raises after all layer checks passed)",
                    "tampered proofs are built by editing FriProof::to_bytes at computed offsets (the constructors are crate-private) and re-reading them"],
        "assumptions": ["rejection of a far-from-low-degree vector is probabilistic over the drawn positions; the stream uses 24..40 queries drawn by the real channel coin", "collision resistance of the hash (a changed row / remainder changes its digest)"],
        "rule": "requests = honest prover on evaluations of degree bound+1, 2*bound, domain-1 polynomials and random functions; declared bound below the true degree (by 1..9: DegreeTruncation / RemainderDegreeMismatch; 3/4 and 1/2 of the true bound; verifier channel built for the true or the claimed domain); honest transcript with one queried layer value altered, one remainder coefficient altered, the remainder replaced by h + t*prod(x - x_p) over the folded last-layer positions (adaptive, needs fewer positions than remainder coefficients), the last proof layer dropped (xdrop) or repeated (xextra: rejected by the channel constructor, no panic); ONE caller-supplied query evaluation altered (xeval: first / last / random index, and - on position sets with a deliberate collision - the later-listed or the earlier-listed partner) and the opened layer value of ONE partner of a colliding pair altered in the layer where the two share a row (xlayerc), on position multisets containing p and p + k*(domain/folding) for several k, pairs that meet only after one or two folds, the same position twice or three times, partners in both orders, for every folding factor 2/4/8/16 in turn; all over the 13 field/hasher combinations, every folding factor, remainder degrees 0..255; oracle = reject (never accept, never panic); non-trivial = distinct request line",
    },
    "C01": {
        "streams": [("c01", 160, 1500)],
        "trusted": [TIE_C,
                    "END-TO-END ACCEPTANCE IS CORRESPONDENCE, NOT A LEAN THEOREM: stream c01 runs the real winter-prover + winter-verifier in-process (prove, serialise, deserialise, verify) on generated satisfiable AIR instances (harness/src/genair.rs: a real winterfell Air interpreting a textual description; harness/src/protocol.rs) and requires implementation verdict = Lean ideal verdict (idealVerdict of lean/Wf/Model/AirDesc.lean, executed by the driver) = independent Rust checker genair::satisfies on every instance",
                    "description semantics lean/Wf/Model/AirDesc.lean (hand-written: expression trees over canonical integers mod p, generated trace, assertions, exemptions); the hypothesis `Consistent` of the theorems (constraint i = next i - gen i, gen i uses next cells below i) is what genair.rs::gen_instance emits by construction and is CHECKED by the model driver (consistentB, proved sound) on every instance of stream c29 (same generator)",
                    "the bridge theorem assumes trace/periodic column polynomials interpolating the trace over the domain {g^s}, g^n = 1 (existence of interpolants: C13; periodic columns: C23); Mathlib polynomials over ZMod p / any commutative domain"],
        "assumptions": ["not proved: Fiat-Shamir transcript agreement, DEEP composition, FRI completeness (C08), Merkle openings (C18), codecs (C07) as one assembled completeness theorem; auxiliary segments and boundary quotients are not bridged to the description semantics"],
        "rule": "each request = one generated satisfiable instance (random transition functions of degree 1..4, 1..9 columns, 0..2 periodic columns, optional auxiliary segment with 1..3 random elements, 1..4 exemptions with scrambled exempt rows, single/periodic/sequence assertions, n = 8..256) x field (f64/f62/f128) x hasher (Blake3-256/192, SHA3, Rp64_256, RpJive64_256, Rp62_248) x extension degree 1..3 x batching methods x partitions x folding factor 2..16 x remainder degree 0..255 x blowup x queries 1..255 x grinding; oracle = `ok`; non-trivial = distinct request line",
    },
    "C02": {
        "streams": [("c02", 200, 2000)],
        "trusted": [TIE_C,
                    "REJECTION BY THE REAL PROVER/VERIFIER IS CORRESPONDENCE, NOT A LEAN THEOREM, AND SOUNDNESS IS PROBABILISTIC: stream c02 corrupts generated satisfying instances (single cell at the first / an interior / the last non-exempt / an exempt row, whole row, random column cells, perturbed claimed value), classifies them with the independent Rust checker genair::satisfies, runs the real release-profile prover and verifier and requires implementation verdict (prover failed or verifier rejected = reject) = Lean ideal verdict = checker verdict on every instance",
                    "description semantics lean/Wf/Model/AirDesc.lean (hand-written); `Consistent` hypothesis of single_cell_corruption_rejected = what the generator emits (checked by the driver on every c29 instance, consistentB proved sound)",
                    "counting theorems over Mathlib polynomials (Polynomial.card_roots via card_le_degree_of_subset_roots); the bridge assumes interpolating column polynomials (C13/C23)"],
        "assumptions": ["not proved (cryptographic / probabilistic): low-degreeness of committed columns (FRI soundness, C09), binding of Merkle commitments (C03/C18), unpredictability of the out-of-domain point and of the composition coefficients (random-oracle model of the coin, C20), extension-field lifting, union bound over the random linear combination, grinding"],
        "rule": "each request = one corrupted instance (8 corruption kinds over the C01 generator family, three fields, six hashers, extension degrees 1..3, folding 2/4/8); oracle = ok iff the independent checker still classifies the corrupted instance as satisfying (e.g. a changed cell in an exempt row), reject otherwise; non-trivial = distinct request line",
    },
    "C03": {
        "streams": [("c03t", 12, 300), ("c03", 10, 300, {"oracle_only": True}),
                    # the FRI remainder / layer-value clauses of C03 at the FRI level: adaptive remainder
                    # substitution through the queried points, altered layer values (shared with C09)
                    ("c09", 2, 12),
                    # the whole-verifier model (lean/Wf/Model/Verifier.lean) against the real verify():
                    # substituted revealed data / commitments in honest proofs over the test hasher
                    ("vfy3", 20, 150)],
        "trusted": [TIE_C,
                    "whole-verifier model lean/Wf/Model/Verifier.lean (verify, perform_verification, VerifierChannel::new and readers, evaluate_constraints, DeepComposer, grinding, query positions, FRI, with the AIR-as-data interpreter of harness/src/genair.rs): stream vfy3 runs the REAL prover and verifier over the fully specified test hasher VH (harness/src/vmodel.rs, mirrored in lean/Wf/Drv/Verifier.lean), so the model recomputes every digest, challenge and query position; one queried trace / constraint value, one Merkle node, one FRI layer value, one remainder coefficient, one OOD element or one commitment byte is changed and the real verifier must answer with the SAME VerifierError variant as the model (oracle: an error)",
                    "transcript model lean/Wf/Model/Transcript.lean, compared event by event with the REAL verifier through a logging RandomCoin (harness/src/tamper.rs::LogCoin) that labels every reseed digest by the commitment it equals",
                    "stream c03 is oracle-only (no Lean answer): one byte of every revealed component (trace queries, constraint queries, OOD frame, FRI layers and remainder) or of the commitments is changed in honest proofs of generated AIRs; the oracle demands rejection"],
        "assumptions": ["rejection of substituted rows rests on collision resistance of the hash (C19 states it as injectivity of merge); C09 covers the FRI-level adaptive remainder substitution"],
        "rule": "c03t: one request per honest proof (aux/no aux, LDE size, FRI parameters, queries) -> full event sequence of the verifier; c03: distinct (component, byte offset) substitutions",
    },
    "C04": {
        "streams": [("c04", 8, 200, {"oracle_only": True}),
                    # whole-verifier model against the real verify(): the twelve byte-level classes and
                    # the structured single-field edits; oracle = accepted only if the mutated bytes
                    # parse to the SAME proof
                    ("vfy4", 20, 150)],
        "trusted": [TIE_C,
                    "whole-verifier model lean/Wf/Model/Verifier.lean tied to the real verify() by stream vfy4 (harness/src/vmodel.rs: real prover + verifier over the test hasher VH, f64 with extension degrees 1..3, no auxiliary segment): ~45 mutations per honest proof, the implementation's verdict (ok / VerifierError variant / panic site) must be IDENTICAL to the model's; theorem Wf.Props.C05V.verify_deterministic_in_parsed_proof: the model's verdict is a function of the parsed proof",
                    "stream c04 is oracle-only: byte-level (flip/substitute/insert/delete/truncate/append/length-field/huge-vint/swap) and field-level (nonce, unique-query count, trace metadata) mutations of honest proofs of generated AIRs; the real Proof::from_bytes + verify must reject, or accept only if the parsed Proof == the original (PartialEq on all components)",
                    "proof encoding model lean/Wf/Model/ProofObjects.lean (tied by the obj stream of C07)"],
        "assumptions": ["that accepted-but-different proofs do not exist is a binding (cryptographic) statement; only the decode-side facts are theorems"],
        "rule": "distinct mutated encodings; the histogram records mutation kinds and how many stayed acceptable (appended bytes)",
    },
    "C05": {
        "streams": [("obj", 80, 2000), ("c05", 6, 200, {"oracle_only": True}),
                    # whole-verifier model against the real verify(): honest proofs and ~50 mutations
                    # each; oracle = never a panic / hang
                    ("vfy", 20, 150)],
        "extra_props": ["C05V"],
        "trusted": [TIE_C,
                    "whole-verifier model lean/Wf/Model/Verifier.lean (Proof::from_bytes + verify for the AIR-as-data interpreter GenAir, DefaultRandomCoin, MerkleTree, any 32-byte hasher, f64 and its extensions) tied to the real verify() by stream vfy (harness/src/vmodel.rs: real prover + verifier over the test hasher VH mirrored in lean/Wf/Drv/Verifier.lean): the answer ok / err <VerifierError variant> / PANIC <source file> must be IDENTICAL; the theorems of Wf/Props/C05V.lean are about this model",
                    "decoder models lean/Wf/Model/ProofObjects.lean / Serde.lean / FieldCodec.lean (abort = panic or allocation abort)",
                    "stream c05 is oracle-only: structure-aware and random mutations of honest proofs go through the real Proof::from_bytes and verify under catch_unwind, a 3 s watchdog and an 8 GiB address-space limit; any panic/abort/hang is a violation"],
        "assumptions": ["verify() itself is not modelled in Lean (partial): its panic-freedom is explored, not proved"],
        "rule": "distinct mutated encodings x 4 field/hasher configurations; obj: decoders of every component on mutated and random bytes",
    },
    "C06": {
        "streams": [("c06", 14, 84, {"oracle_only": True, "variants": [
            {"features": ["concurrent"], "env": {"RAYON_NUM_THREADS": "2"}},
            {"features": ["concurrent"], "env": {"RAYON_NUM_THREADS": "3"}},
            {"features": ["concurrent"], "env": {"RAYON_NUM_THREADS": "5"}},
            {"features": ["concurrent"], "env": {"RAYON_NUM_THREADS": "16"}},
            {"features": ["concurrent"], "env": {"RAYON_NUM_THREADS": "1"}, "tiers": ["thorough"]},
            {"features": ["concurrent"], "env": {"RAYON_NUM_THREADS": "6"}, "tiers": ["thorough"]},
            {"features": ["concurrent"], "env": {"RAYON_NUM_THREADS": "7"}, "tiers": ["thorough"]},
            {"features": ["concurrent"], "env": {"RAYON_NUM_THREADS": "12"}, "tiers": ["thorough"]}]}),
                    # index bookkeeping of the parallel code: request lines carry the thread count; the
                    # serial build answers (documented plan / real serial run) are compared with the Lean
                    # model lean/Wf/Model/ParBook.lean, the concurrent build runs the REAL macro / evaluator
                    # inside rayon pools of exactly that size (1,2,3,5,6,7,8,12,16 and random 1..24,
                    # whatever RAYON_NUM_THREADS says) and must give the same answers
                    ("c06b", 1, 2, {"variants": [
                        {"features": ["concurrent"], "env": {"RAYON_NUM_THREADS": "4", "MALLOC_ARENA_MAX": "4"}}]}),
                    # composition-polynomial trace of the real evaluate() (after combine()/acc_column) on
                    # the same probes: digest under every pool size = digest of the serial build
                    ("c06c", 1, 2, {"oracle_only": True, "variants": [
                        {"features": ["concurrent"], "env": {"RAYON_NUM_THREADS": "4"}}]})],
        "trusted": ["cross-build comparison: the same seeded instances (exact trace lengths 2^5..2^13, every second one with periodic cycles up to the trace length) are proved by the serial harness build and by the `concurrent` build under RAYON_NUM_THREADS = 2, 3, 5, 16 (thorough: also 1, 6, 7, 12); digests of context, commitments, OOD frame, the nonce and the whole proof must coincide (grinding is 0, so whole proofs must be byte-identical)",
                    TIE_C + " (stream c06b)",
                    "bookkeeping model lean/Wf/Model/ParBook.lean (hand-written from utils/core/src/iterators.rs batch_iter_mut! both arms, prover/src/constraints/evaluation_table.rs fragments / make_fragments / acc_column / get_inv_evaluation, prover/src/constraints/evaluator/default.rs evaluate / evaluate_fragment_main, periodic_table.rs get_row, domain.rs get_ce_x_power_at; indexes only: the arithmetic done with the looked-up values is a parameter function; a panic is `none`); batchIterMut3 is definitionally C14's chunkPlan",
                    "tie of the model (stream c06b): (a) `plan`/`plan2` lines: the public macro batch_iter_mut! is expanded in the harness and run inside rayon::ThreadPoolBuilder pools of 1,2,3,5,6,7,8,12,16 (and random 1..24) threads; the (offset, length) of every batch the closure saw = the model's plan; (b) `eval` lines: ConstraintEvaluationTable, PeriodicValueTable and acc_column are PRIVATE to winter-prover, so the public DefaultConstraintEvaluator::evaluate is run inside such pools on a probing TraceLde (records the LDE step of every frame read; a fresh zero-initialised frame buffer marks a fragment start) and a probing Air (records the periodic value each row receives, mapped back to a table row through an independent polynom::eval of the column polynomial): fragments (offset, rows), the sequence of LDE steps and the sequence of periodic table rows in global order = the model's; the serial harness build has no rayon: for thread count 1 it runs the real serial code, for the other counts it answers the plan / fragment part with the documented plan (harness/src/c06b.rs documented_plan / documented_frags) while the digests are always real; model = serial answers and serial answers = concurrent answers are both checked, hence real concurrent plan = model plan",
                    "acc_column's batch-local divisor index and combine() are observed only through their result: stream c06c (oracle-only) compares the digest of the composition-polynomial trace returned by the real evaluate() under every pool size with the serial build's",
                    "side conditions of acc_column_thread_independent / acc_column_prover_instance are read off the source, not proved about it: result.len() = ce_domain_size = trace_length * ce_blowup (AirContext), both powers of two; z.len() = ce_domain_size / numerator degree = ce_blowup for the transition divisor (ConstraintDivisor::from_transition, get_inv_evaluation); ce_blowup <= blowup_factor <= 128 (AirContext::new, ProofOptions::new asserts) = the literal minimum batch size 128 in acc_column",
                    "the async prover variant (maybe_async) is NOT covered; rayon itself (par_chunks_mut, par_iter_mut hand out disjoint chunks, every chunk exactly once) is trusted"],
        "assumptions": ["scheduler behaviour is explored at 4 (thorough: 8) thread counts incl. non-powers of two for whole proofs and at 9 + random pool sizes for the bookkeeping, not proved; the bookkeeping theorems cover every length / thread count / minimum batch size on the model",
                        "fewer than 2^64 elements (usize arithmetic without overflow); rayon pools have >= 1 thread"],
        "rule": "c06: instances with trace lengths up to 2^13 (both sides of the 1024-row / 8192-evaluation thresholds), several fields/hashers; c06b: batch plans for 9 thread counts x both macro arms x minimum batch sizes 1/7/128/1024 x lengths 0..17, 2^5..2^15, around every min*threads and min*next_pow2(threads) boundary, 10^5, 2^20+3, plus seeded random (length, minimum, threads 1..24); evaluator probes for constraint evaluation domains 32..32768 (below / at / above MIN_CONCURRENT_DOMAIN_SIZE), ce blowup 2..128, LDE blowup above the ce blowup, periodic tables from 4 rows to the whole domain and none, x 9 thread counts, plus one thread count (600) beyond the fragment-size assertion; c06c: the same probes, composition trace digest; non-trivial = distinct request line",
    },
    "C28": {
        "streams": [("c28", 10, 13, {"variants": [
            {"features": ["concurrent"], "env": {"RAYON_NUM_THREADS": "3"}},
            {"features": ["concurrent"], "env": {"RAYON_NUM_THREADS": "8"}},
            {"features": ["concurrent"], "env": {"RAYON_NUM_THREADS": "1"}, "tiers": ["thorough"]},
            {"features": ["concurrent"], "env": {"RAYON_NUM_THREADS": "5"}, "tiers": ["thorough"]},
            {"features": ["concurrent"], "env": {"RAYON_NUM_THREADS": "16"}, "tiers": ["thorough"]}]})],
        "trusted": [TIE_C,
                    "model of prover/src/matrix/{row_matrix,segments,col_matrix}.rs, verifier/src/channel.rs hash_row and air/src/options.rs PartitionOptions::{partition_size,num_partitions} in lean/Wf/Model/Lde.lean (hand-written statement by statement: get_evaluation_offsets, build_segments incl. the partial last segment, Segment::new with its asserts, copy_polys(_partial) and zero padding, the FFT of `impl FftInputs for [[B; N]]` = C12's generic fft_in_place instantiated with point-wise operations on Vector B N, permute, transpose (serial path, single-segment shortcut), flatten_vector_elements, row/get = consecutive groups of EXTENSION_DEGREE base elements (the meaning of the slice_from_base_elements pointer cast); commit_to_rows digest with the default-initialised buffer and zip; hash_row; a failed assert / chunks(0) / division by zero is `none`)",
                    "everything is RELATIVE to C12: lean/Wf/Props/C28.lean imports Wf.Props.C12 and uses evaluate_poly_with_offset_eq_coset_evaluations and C12's interpolation formula / orthogonality lemmas; ring hypotheses as in C12 (any commutative rings B -> E, w^(N/2) = -1); the extension is seen through `ViewOk`: degree coordinates that are additive and commute with mul_base, reassembly inverse (holds for the base field, theorem viewOk_base; for Quad/Cube extensions it is the documented coordinate layout, exercised by the f64x2 stream)",
                    "the hasher is a parameter record (hash_elements, merge_many, Digest::default); the digest-equality theorem holds for every such record; Merkle tree construction over the row digests is C18's model",
                    "NOT modelled: the `concurrent` feature (split-radix segment FFT, batched transposition, batch_iter_mut! scheduling, uninitialised buffers); the default check builds the serial harness",
                    "request lines `c28 e2e ..` are ORACLE-ONLY (driver answers the ideal verdict `ok`): honest proofs generated with each partition setting must verify on the real prover/verifier"],
        "assumptions": ["EXTENSION_DEGREE >= 1; 64-bit usize without overflow; ColMatrix invariant (>= 1 column, power-of-two number of rows > 1, equal column lengths) as asserted by ColMatrix::new"],
        "rule": "requests = (field in {f64, f128, QuadExtension<f64>}, op, segment width N in {1,2,3,4,8,16}, column kind dense/sparse incl. zero polynomial/boundary values, columns 1..20 and 31..34, polynomial size 2^3..2^10 (quick) / 2^13 (thorough), blowup 2..16, offset GENERATOR / 1 / random, PartitionOptions from 12 (num_partitions, hash_rate) pairs, seed): evaluate_polys, evaluate_polys_over + ColMatrix::evaluate_columns_over on a custom StarkDomain, interpolate_columns, interpolate-then-LDE over the un-shifted domain, commit_to_rows with a test hasher (root + leaves recomputed by the model and by the verifier's rule in the harness), commit_to_rows with Blake3_256 / Rp64_256 (prover commitment = Merkle root over digests recomputed by the verifier's rule; partition layout compared with the model), partition_size / num_partitions over np x rate x degree x 0..34 columns incl. constructor panics, all asserts of evaluate_polys (blowup 0/1/3/6, empty and one-row matrices, N = 0), 12 end-to-end proofs; oracle = naive Horner evaluation at offset*g^r in independent modular arithmetic (every row for small domains, 4-6 sampled rows otherwise), the trace itself for the round trip, plain integer arithmetic for partitions; matrices are answered as dimensions + row width + sampled rows + FNV digest of all entries; non-trivial = distinct request line",
    },
    "C16": {
        "gen": [["rescueconsts", "rescuechains", "mds12", "mds8", "f64", "f62", "fieldconsts"]],
        "streams": [("c16", 8, 120)],
        "trusted": [TIE_C,
                    "translator tie: tools/rs2lean.py regenerates on every run (a) lean/Wf/Gen/RescueConsts.lean: MDS, INV_MDS, ARK1, ARK2 (every `BaseElement::new(literal)` of the 2-D tables, shape checked against the declared dimensions), ALPHA, INV_ALPHA, STATE_WIDTH, NUM_ROUNDS, the RATE/CAPACITY/DIGEST/INPUT ranges of rp64_256, rp64_256_jive, rp62_248; (b) lean/Wf/Gen/RescueChains.lean: exp_acc and the three apply_inv_sbox addition chains + rp62's apply_sbox as FieldOps formulas - ONE lane of the pointwise array code (`lanes` mode: the iterator idioms `a.iter_mut().for_each(|t| *t = f(t))`, `.zip(b).for_each(|(r, t)| *r *= t)`, `for (i, s) in a.iter_mut().enumerate()` are rewritten at source level, anything else is a translation failure); (c) lean/Wf/Gen/RescueMds12.lean / RescueMds8.lean: fft2_real, ifft2_real_unreduced, fft4_real, ifft4_real_unreduced (math/src/fft/real_u64.rs), block1..3, MDS_FREQ_BLOCK_*, mds_multiply_freq and mds_multiply (limb split, two frequency-domain products, u128 recombination, `(s_hi << 32) - s_hi` fold, overflowing_add, carry correction; the `for r in 0..N` loops are unrolled) as BitVec code with release semantics. The theorems are stated about these generated definitions",
                    "hand-modelled in lean/Wf/Model/Rescue.lean and tied by correspondence only: the round structure (apply_round / apply_permutation), add_constants, lane-wise application of the s-boxes (Rp64/Jive apply_sbox = 12/8 explicit exp7 calls), list <-> fixed-size-array conversion, Rp62_248::apply_mds (closure code `r += m * s` = plain matrix product), the Jive summation; the absorption layouts are the colleague model lean/Wf/Model/Hashers.lean (C15/C17) with the permutation plugged in",
                    "bit-level lemmas (mdsFold_bv, foldQ_le, add_any_bv in lean/Wf/Lemmas/RescueMds.lean, and C10's F64Bv lemmas) are closed by bv_decide (one `._native.bv_decide.ax_*` axiom each, listed above); the linear identity of mds_multiply_freq is proved by `ring` in the commutative ring BitVec 64; table facts (INV_MDS*MDS = I, circulant, constants' stored words <= M - 2^32 + 1, checksums) by kernel evaluation `decide +kernel`",
                    "Rp62_248: its permutation is private and its f62 limb kernels have no theorems (C10): the code-vs-reference theorem holds over every commutative ring and over integers mod p; the instantiation with the translated f62 kernels is executed by the driver (`code` mode) and compared with the real crate through hash_elements of one full rate block (correspondence only); `rp62InvMds` is a pinned certificate (the crate has no INV_MDS outside its tests), checked by inv_mds_rp62",
                    "oracle of the stream = schoolbook Rescue-Prime over u128 arithmetic in harness/src/c16.rs (square-and-multiply powers, plain matrix product, documented sponge/Jive rules) with the tables read from the crate's public constants (Rp64_256, RpJive64_256) resp. parsed from rp62_248/mod.rs; exponents are the published literals"],
        "assumptions": ["Rust release semantics (wrapping) for the i64/u64 kernels of mds_multiply (under wrapping arithmetic the result is exact modulo 2^64 whether or not an intermediate overflows; debug-profile overflow checks are not analysed)",
                        "states handed to the public apply_permutation / apply_round consist of reduced words (`from_mont` within its documented precondition)",
                        "`published constants` cannot be fetched offline: the tables are PINNED as they are in the tree (tables_pinned_* checksum theorems fail if an entry changes)"],
        "rule": "requests = (hasher, op, input), each value-level case sent to the model twice (reference round function / translated code): apply_permutation on states biased to 0, 1, p-1, 2^32 bands, 2^(32+k)+-1, >= p and random (Rp62_248 through hash_elements of one rate block); apply_permutation and apply_round(r) on stored Montgomery words biased to the limb split (high limb 2^32-1, low limb 0 / 2^32-1) and on ENGINEERED states whose first mds_multiply emits a non-canonical word (sum m_j*hi_j = 2^32-1, 0 < sum m_j*lo_j < 2^32; inner words compared exactly); hash on EVERY length 0..120 (all residues mod 7 and mod 7*rate, incl. 57, 63, 64, 100, 112 of fix af8c1d8) + 167..169, 224, 225 + random <= 420; hash_elements on every length 0..3*rate+1 + random; merge / merge_many of 0..8 digests (zero, p-1, biased); merge_with_int on 0, 1, 2^32+-1, 2^63, p-1, p, p+1, 2p+-1 (f62), 2^64-1 and pairs x, x+p; non-trivial = distinct request line",
    },
}

# ---------------------------------------------------------------------------------------------------
# cross-build variant with arithmetic overflow checks (profile `relcheck` of the harness crate =
# release + overflow-checks, i.e. what `cargo test` / debug builds enforce): the same stream must give
# the same answers; a difference is an overflow that is reachable from the stream's inputs
# ---------------------------------------------------------------------------------------------------
_RELCHECK = {"features": [], "profile": "relcheck"}
for _pid in ("C03", "C04", "C05", "C07", "C08", "C09", "C13", "C14", "C18", "C19", "C20", "C21", "C22", "C23",
             "C24", "C25", "C26", "C27", "C29"):
    _new = []
    for _e in PROPS[_pid]["streams"]:
        _opts = dict(_e[3]) if len(_e) > 3 else {}
        _v = dict(_RELCHECK)
        if _pid in ("C18", "C19"):
            # single-opening `MerkleTree::verify` is specified for IN-RANGE indexes and proofs of the
            # tree's depth only (C19); with an index near usize::MAX or >= 64 proof nodes its
            # `index + 2^len` overflows, which release builds wrap (theorem
            # verify_ignores_high_index_bits) and overflow-checked builds turn into a panic
            _v["skip"] = r"^c18 xverify "
        _opts["variants"] = list(_opts.get("variants", [])) + [_v]
        _new.append((_e[0], _e[1], _e[2], _opts))
    PROPS[_pid]["streams"] = _new

# C14: the `plan` op prints the batching schedule of batch_iter_mut! (offsets and batch lengths), which
# by design depends on the build and on the thread count; only RESULTS must coincide across builds
for _e in PROPS["C14"]["streams"]:
    for _v in _e[3].get("variants", []):
        if "concurrent" in _v.get("features", []):
            _v["skip"] = r"^c14 plan "
