#!/bin/sh
# tools/seeddemo.sh <seed-name> <tests-dir relative to repo root, e.g. examples/tests> [extra cargo args]
# Re-runs a seeded change's own demonstration against the CURRENT /repo HEAD + the patch (to see
# whether the change still breaks the property after later fixes).  Scratch worktree under /tmp.
n=$1; dir=$2; shift 2
w=/tmp/seeddemo/$n
rm -rf $w; git -C /repo worktree prune; git -C /repo worktree add --detach $w HEAD >/dev/null 2>&1 || exit 2
git -C $w apply /verif/seeded/$n/patch.diff || { echo "patch does not apply"; exit 2; }
mkdir -p $w/$dir; cp /verif/seeded/$n/demo.rs $w/$dir/seed_demo.rs
crate=$(dirname $dir)
(cd $w/$crate && CARGO_NET_OFFLINE=true cargo test --offline --release --test seed_demo "$@" 2>&1 | tail -25)
git -C /repo worktree remove --force $w
