#!/bin/sh
# copy finished seeded changes from the sub-agents' scratch output into /verif/seeded/<name>/
for p in "$@"; do
  for d in /tmp/seed/out/$p/$p-*; do
    [ -f "$d/patch.diff" ] || continue
    n=$(basename $d)
    mkdir -p /verif/seeded/$n
    cp -r $d/. /verif/seeded/$n/
    find /verif/seeded/$n -size +300k -delete
    (cd /repo && git apply --check /verif/seeded/$n/patch.diff) && echo "$n applies" || echo "$n DOES NOT APPLY"
  done
done
