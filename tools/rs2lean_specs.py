"""Which Rust functions are regenerated into lean/Wf/Gen (translator tie)."""

F64 = "math/src/field/f64/mod.rs"
F62 = "math/src/field/f62/mod.rs"
F128 = "math/src/field/f128/mod.rs"

SPECS = {
    "f64": {
        "file": F64, "out": "F64.lean", "namespace": "Wf.Gen.F64", "elem": "u64", "zero_one_via_new": True,
        "consts": ["M", "R2"],
        "fns": [
            {"name": "mont_red_cst", "mode": "kernel"},
            {"name": "mont_to_int", "mode": "kernel"},
            {"name": "equals", "mode": "kernel"},
            {"name": "new", "anchor": "impl BaseElement", "mode": "kernel"},
            {"name": "mul_small", "anchor": "impl BaseElement", "mode": "kernel"},
            {"name": "add", "anchor": "impl Add for BaseElement", "mode": "kernel"},
            {"name": "sub", "anchor": "impl Sub for BaseElement", "mode": "kernel"},
            {"name": "mul", "anchor": "impl Mul for BaseElement", "mode": "kernel"},
            {"name": "neg", "anchor": "impl Neg for BaseElement", "mode": "kernel"},
            {"name": "double", "anchor": "impl FieldElement for BaseElement", "mode": "kernel"},
            {"name": "exp_acc", "mode": "formula"},
            {"name": "exp7", "anchor": "impl BaseElement", "mode": "formula"},
            {"name": "inv", "anchor": "impl FieldElement for BaseElement", "mode": "formula", "lean": "invChain", "key": "inv_chain"},
            {"name": "mul", "anchor": "impl ExtensibleField<2> for BaseElement", "mode": "formula", "lean": "ext2Mul", "key": "ext2_mul"},
            {"name": "square", "anchor": "impl ExtensibleField<2> for BaseElement", "mode": "formula", "lean": "ext2Square", "key": "ext2_square"},
            {"name": "mul_base", "anchor": "impl ExtensibleField<2> for BaseElement", "mode": "formula", "lean": "ext2MulBase", "key": "ext2_mul_base"},
            {"name": "frobenius", "anchor": "impl ExtensibleField<2> for BaseElement", "mode": "formula", "lean": "ext2Frobenius", "key": "ext2_frobenius"},
            {"name": "mul", "anchor": "impl ExtensibleField<3> for BaseElement", "mode": "formula", "lean": "ext3Mul", "key": "ext3_mul"},
            {"name": "square", "anchor": "impl ExtensibleField<3> for BaseElement", "mode": "formula", "lean": "ext3Square", "key": "ext3_square"},
            {"name": "mul_base", "anchor": "impl ExtensibleField<3> for BaseElement", "mode": "formula", "lean": "ext3MulBase", "key": "ext3_mul_base"},
            {"name": "frobenius", "anchor": "impl ExtensibleField<3> for BaseElement", "mode": "formula", "lean": "ext3Frobenius", "key": "ext3_frobenius"},
        ],
    },
    "f62": {
        "file": F62, "out": "F62.lean", "namespace": "Wf.Gen.F62", "elem": "u64",
        "consts": ["M", "R2", "R3", "U"],
        "fns": [
            {"name": "add", "anchor": "impl Deserializable for BaseElement", "mode": "kernel"},
            {"name": "sub", "anchor": "impl Deserializable for BaseElement", "mode": "kernel"},
            {"name": "mul", "anchor": "impl Deserializable for BaseElement", "mode": "kernel"},
            {"name": "normalize", "anchor": "impl Deserializable for BaseElement", "mode": "kernel"},
            {"name": "new", "anchor": "impl BaseElement", "mode": "kernel"},
            {"name": "double", "anchor": "impl FieldElement for BaseElement", "mode": "kernel"},
            {"name": "as_int", "anchor": "impl StarkField for BaseElement", "mode": "kernel"},
            {"name": "mul", "anchor": "impl ExtensibleField<2> for BaseElement", "mode": "formula", "lean": "ext2Mul", "key": "ext2_mul"},
            {"name": "mul_base", "anchor": "impl ExtensibleField<2> for BaseElement", "mode": "formula", "lean": "ext2MulBase", "key": "ext2_mul_base"},
            {"name": "frobenius", "anchor": "impl ExtensibleField<2> for BaseElement", "mode": "formula", "lean": "ext2Frobenius", "key": "ext2_frobenius"},
            {"name": "mul", "anchor": "impl ExtensibleField<3> for BaseElement", "mode": "formula", "lean": "ext3Mul", "key": "ext3_mul"},
            {"name": "mul_base", "anchor": "impl ExtensibleField<3> for BaseElement", "mode": "formula", "lean": "ext3MulBase", "key": "ext3_mul_base"},
            {"name": "frobenius", "anchor": "impl ExtensibleField<3> for BaseElement", "mode": "formula", "lean": "ext3Frobenius", "key": "ext3_frobenius"},
        ],
    },
    "f128": {
        "file": F128, "out": "F128.lean", "namespace": "Wf.Gen.F128", "elem": "u128",
        "consts": ["M"],
        "fns": [
            {"name": "add64_with_carry", "mode": "kernel"},
            {"name": "add_192x192", "mode": "kernel"},
            {"name": "sub_192x192", "mode": "kernel"},
            {"name": "sub_modulus", "mode": "kernel"},
            {"name": "mul_by_modulus", "mode": "kernel"},
            {"name": "mul_reduce", "mode": "kernel"},
            {"name": "mul_128x64", "mode": "kernel"},
            {"name": "add", "anchor": "impl Deserializable for BaseElement", "mode": "kernel"},
            {"name": "sub", "anchor": "impl Deserializable for BaseElement", "mode": "kernel"},
            {"name": "mul", "anchor": "impl Deserializable for BaseElement", "mode": "kernel"},
            {"name": "new", "anchor": "impl BaseElement", "mode": "kernel"},
            {"name": "mul", "anchor": "impl ExtensibleField<2> for BaseElement", "mode": "formula", "lean": "ext2Mul", "key": "ext2_mul"},
            {"name": "mul_base", "anchor": "impl ExtensibleField<2> for BaseElement", "mode": "formula", "lean": "ext2MulBase", "key": "ext2_mul_base"},
            {"name": "frobenius", "anchor": "impl ExtensibleField<2> for BaseElement", "mode": "formula", "lean": "ext2Frobenius", "key": "ext2_frobenius"},
        ],
    },
    "fieldconsts": {
        "kind": "natconsts", "out": "FieldConsts.lean", "namespace": "Wf.Gen.FieldConsts",
        "groups": [
            {"file": F64, "ns": "F64", "consts": ["M", "R2", "GENERATOR", "TWO_ADICITY", "TWO_ADIC_ROOT_OF_UNITY", "MODULUS_BITS"]},
            {"file": F62, "ns": "F62", "consts": ["M", "R2", "R3", "U", "G", "GENERATOR", "TWO_ADICITY", "TWO_ADIC_ROOT_OF_UNITY", "MODULUS_BITS"]},
            {"file": F128, "ns": "F128", "consts": ["M", "G", "GENERATOR", "TWO_ADICITY", "TWO_ADIC_ROOT_OF_UNITY", "MODULUS_BITS"]},
        ],
    },
}
