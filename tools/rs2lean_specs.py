"""Which Rust functions are regenerated into lean/Wf/Gen (translator tie)."""

F64 = "math/src/field/f64/mod.rs"
F62 = "math/src/field/f62/mod.rs"
F128 = "math/src/field/f128/mod.rs"
REAL_FFT = "math/src/fft/real_u64.rs"
MDS12 = "crypto/src/hash/mds/mds_f64_12x12.rs"
MDS8 = "crypto/src/hash/mds/mds_f64_8x8.rs"
RESCUE = "crypto/src/hash/rescue/mod.rs"
RP64 = "crypto/src/hash/rescue/rp64_256/mod.rs"
RPJIVE = "crypto/src/hash/rescue/rp64_256_jive/mod.rs"
RP62 = "crypto/src/hash/rescue/rp62_248/mod.rs"


def _mds_spec(path, out, ns):
    """frequency-domain MDS multiplication (C16): real-FFT kernels + blocks + the limb split / fold of
    `mds_multiply`, all as BitVec code; `BaseElement::ZERO` is f64's own translated `new(0)`."""
    return {
        "file": path, "out": out, "namespace": ns, "elem": "u64", "zero_one_via_new": True,
        "imports": ["Wf.Gen.F64"],
        "extern": {"new": ("Wf.Gen.F64.new", ["u64"], "E", [], "kernel", [])},
        "consts": ["MDS_FREQ_BLOCK_ONE", "MDS_FREQ_BLOCK_TWO", "MDS_FREQ_BLOCK_THREE"],
        "fns": [
            {"name": "fft2_real", "file": REAL_FFT, "mode": "kernel"},
            {"name": "ifft2_real_unreduced", "file": REAL_FFT, "mode": "kernel"},
            {"name": "fft4_real", "file": REAL_FFT, "mode": "kernel"},
            {"name": "ifft4_real_unreduced", "file": REAL_FFT, "mode": "kernel"},
            {"name": "block1", "mode": "kernel"},
            {"name": "block2", "mode": "kernel"},
            {"name": "block3", "mode": "kernel"},
            {"name": "mds_multiply_freq", "mode": "kernel"},
            {"name": "mds_multiply", "mode": "kernel"},
        ],
    }


SPECS = {
    "f64": {
        "file": F64, "out": "F64.lean", "namespace": "Wf.Gen.F64", "elem": "u64", "zero_one_via_new": True,
        "consts": ["M", "R2"],
        "fns": [
            {"name": "mont_red_cst", "mode": "kernel"},
            {"name": "mont_to_int", "mode": "kernel"},
            {"name": "equals", "mode": "kernel"},
            {"name": "new", "anchor": "impl BaseElement", "mode": "kernel"},
            {"name": "mul_small", "anchor": "impl BaseElement", "mode": "kernel"},
            {"name": "add", "anchor": "impl Add for BaseElement", "mode": "kernel"},
            {"name": "sub", "anchor": "impl Sub for BaseElement", "mode": "kernel"},
            {"name": "mul", "anchor": "impl Mul for BaseElement", "mode": "kernel"},
            {"name": "neg", "anchor": "impl Neg for BaseElement", "mode": "kernel"},
            {"name": "double", "anchor": "impl FieldElement for BaseElement", "mode": "kernel"},
            {"name": "exp_acc", "mode": "formula"},
            {"name": "exp7", "anchor": "impl BaseElement", "mode": "formula"},
            {"name": "inv", "anchor": "impl FieldElement for BaseElement", "mode": "formula", "lean": "invChain", "key": "inv_chain"},
            {"name": "mul", "anchor": "impl ExtensibleField<2> for BaseElement", "mode": "formula", "lean": "ext2Mul", "key": "ext2_mul"},
            {"name": "square", "anchor": "impl ExtensibleField<2> for BaseElement", "mode": "formula", "lean": "ext2Square", "key": "ext2_square"},
            {"name": "mul_base", "anchor": "impl ExtensibleField<2> for BaseElement", "mode": "formula", "lean": "ext2MulBase", "key": "ext2_mul_base"},
            {"name": "frobenius", "anchor": "impl ExtensibleField<2> for BaseElement", "mode": "formula", "lean": "ext2Frobenius", "key": "ext2_frobenius"},
            {"name": "mul", "anchor": "impl ExtensibleField<3> for BaseElement", "mode": "formula", "lean": "ext3Mul", "key": "ext3_mul"},
            {"name": "square", "anchor": "impl ExtensibleField<3> for BaseElement", "mode": "formula", "lean": "ext3Square", "key": "ext3_square"},
            {"name": "mul_base", "anchor": "impl ExtensibleField<3> for BaseElement", "mode": "formula", "lean": "ext3MulBase", "key": "ext3_mul_base"},
            {"name": "frobenius", "anchor": "impl ExtensibleField<3> for BaseElement", "mode": "formula", "lean": "ext3Frobenius", "key": "ext3_frobenius"},
        ],
    },
    "f62": {
        "file": F62, "out": "F62.lean", "namespace": "Wf.Gen.F62", "elem": "u64",
        "imports": ["Wf.Model.While"],
        "consts": ["M", "R2", "R3", "U"],
        "fns": [
            {"name": "add", "anchor": "impl Deserializable for BaseElement", "mode": "kernel"},
            {"name": "sub", "anchor": "impl Deserializable for BaseElement", "mode": "kernel"},
            {"name": "mul", "anchor": "impl Deserializable for BaseElement", "mode": "kernel"},
            {"name": "normalize", "anchor": "impl Deserializable for BaseElement", "mode": "kernel"},
            {"name": "new", "anchor": "impl BaseElement", "mode": "kernel"},
            {"name": "double", "anchor": "impl FieldElement for BaseElement", "mode": "kernel"},
            {"name": "as_int", "anchor": "impl StarkField for BaseElement", "mode": "kernel"},
            {"name": "neg", "anchor": "impl Neg for BaseElement", "mode": "kernel"},
            {"name": "eq", "anchor": "impl PartialEq for BaseElement", "mode": "kernel"},
            # binary extended Euclid: nested `while` loops, each bounded by 256 iterations in the translation
            {"name": "inv", "anchor": "impl Deserializable for BaseElement", "mode": "kernel", "fuel": 256},
            {"name": "mul", "anchor": "impl ExtensibleField<2> for BaseElement", "mode": "formula", "lean": "ext2Mul", "key": "ext2_mul"},
            {"name": "mul_base", "anchor": "impl ExtensibleField<2> for BaseElement", "mode": "formula", "lean": "ext2MulBase", "key": "ext2_mul_base"},
            {"name": "frobenius", "anchor": "impl ExtensibleField<2> for BaseElement", "mode": "formula", "lean": "ext2Frobenius", "key": "ext2_frobenius"},
            {"name": "mul", "anchor": "impl ExtensibleField<3> for BaseElement", "mode": "formula", "lean": "ext3Mul", "key": "ext3_mul"},
            {"name": "mul_base", "anchor": "impl ExtensibleField<3> for BaseElement", "mode": "formula", "lean": "ext3MulBase", "key": "ext3_mul_base"},
            {"name": "frobenius", "anchor": "impl ExtensibleField<3> for BaseElement", "mode": "formula", "lean": "ext3Frobenius", "key": "ext3_frobenius"},
        ],
    },
    "f128": {
        "file": F128, "out": "F128.lean", "namespace": "Wf.Gen.F128", "elem": "u128",
        "consts": ["M"],
        "fns": [
            {"name": "add64_with_carry", "mode": "kernel"},
            {"name": "add_192x192", "mode": "kernel"},
            {"name": "sub_192x192", "mode": "kernel"},
            {"name": "sub_modulus", "mode": "kernel"},
            {"name": "mul_by_modulus", "mode": "kernel"},
            {"name": "mul_reduce", "mode": "kernel"},
            {"name": "mul_128x64", "mode": "kernel"},
            {"name": "add", "anchor": "impl Deserializable for BaseElement", "mode": "kernel"},
            {"name": "sub", "anchor": "impl Deserializable for BaseElement", "mode": "kernel"},
            {"name": "mul", "anchor": "impl Deserializable for BaseElement", "mode": "kernel"},
            {"name": "new", "anchor": "impl BaseElement", "mode": "kernel"},
            {"name": "neg", "anchor": "impl Neg for BaseElement", "mode": "kernel"},
            {"name": "as_int", "anchor": "impl StarkField for BaseElement", "mode": "kernel"},
            {"name": "mul", "anchor": "impl ExtensibleField<2> for BaseElement", "mode": "formula", "lean": "ext2Mul", "key": "ext2_mul"},
            {"name": "mul_base", "anchor": "impl ExtensibleField<2> for BaseElement", "mode": "formula", "lean": "ext2MulBase", "key": "ext2_mul_base"},
            {"name": "frobenius", "anchor": "impl ExtensibleField<2> for BaseElement", "mode": "formula", "lean": "ext2Frobenius", "key": "ext2_frobenius"},
        ],
    },
    # C16 ---------------------------------------------------------------------------------------
    "mds12": _mds_spec(MDS12, "RescueMds12.lean", "Wf.Gen.RescueMds12"),
    "mds8": _mds_spec(MDS8, "RescueMds8.lean", "Wf.Gen.RescueMds8"),
    "rescuechains": {
        # S-boxes: ONE lane of the pointwise array code, polymorphic over FieldOps
        "file": RESCUE, "out": "RescueChains.lean", "namespace": "Wf.Gen.RescueChains",
        "fns": [
            {"name": "exp_acc", "file": RESCUE, "mode": "formula", "lanes": True, "drop_consts": ["N"]},
            {"name": "apply_inv_sbox", "file": RP64, "mode": "formula", "lanes": True, "lean": "rp64InvSbox", "key": "rp64_inv_sbox"},
            {"name": "apply_inv_sbox", "file": RPJIVE, "mode": "formula", "lanes": True, "lean": "jiveInvSbox", "key": "jive_inv_sbox"},
            {"name": "apply_inv_sbox", "file": RP62, "mode": "formula", "lanes": True, "lean": "rp62InvSbox", "key": "rp62_inv_sbox"},
            {"name": "apply_sbox", "file": RP62, "mode": "formula", "lanes": True, "lean": "rp62Sbox", "key": "rp62_sbox"},
        ],
    },
    "rescueconsts": {
        "kind": "natconsts", "out": "RescueConsts.lean", "namespace": "Wf.Gen.RescueConsts",
        "groups": [
            {"file": RP64, "ns": "Rp64", "consts": ["STATE_WIDTH", "NUM_ROUNDS", "ALPHA", "INV_ALPHA"],
             "ranges": ["RATE_RANGE", "INPUT1_RANGE", "INPUT2_RANGE", "CAPACITY_RANGE", "DIGEST_RANGE"],
             "derived": ["RATE_WIDTH", "DIGEST_SIZE"], "tables": ["MDS", "INV_MDS", "ARK1", "ARK2"]},
            {"file": RPJIVE, "ns": "Jive", "consts": ["STATE_WIDTH", "NUM_ROUNDS", "ALPHA", "INV_ALPHA"],
             "ranges": ["RATE_RANGE", "INPUT1_RANGE", "INPUT2_RANGE", "CAPACITY_RANGE", "DIGEST_RANGE"],
             "derived": ["RATE_WIDTH", "DIGEST_SIZE"], "tables": ["MDS", "INV_MDS", "ARK1", "ARK2"]},
            {"file": RP62, "ns": "Rp62", "consts": ["STATE_WIDTH", "RATE_WIDTH", "DIGEST_SIZE", "NUM_ROUNDS", "ALPHA", "INV_ALPHA"],
             "tables": ["MDS", "ARK1", "ARK2"]},
        ],
    },
    "fieldconsts": {
        "kind": "natconsts", "out": "FieldConsts.lean", "namespace": "Wf.Gen.FieldConsts",
        "groups": [
            {"file": F64, "ns": "F64", "consts": ["M", "R2", "GENERATOR", "TWO_ADICITY", "TWO_ADIC_ROOT_OF_UNITY", "MODULUS_BITS"]},
            {"file": F62, "ns": "F62", "consts": ["M", "R2", "R3", "U", "G", "GENERATOR", "TWO_ADICITY", "TWO_ADIC_ROOT_OF_UNITY", "MODULUS_BITS"]},
            {"file": F128, "ns": "F128", "consts": ["M", "G", "GENERATOR", "TWO_ADICITY", "TWO_ADIC_ROOT_OF_UNITY", "MODULUS_BITS"]},
        ],
    },
}
