"""Which Rust functions are regenerated into lean/Wf/Gen (translator tie)."""

F64 = "math/src/field/f64/mod.rs"
F62 = "math/src/field/f62/mod.rs"
F128 = "math/src/field/f128/mod.rs"

SPECS = {
    "f64": {
        "file": F64, "out": "F64.lean", "namespace": "Wf.Gen.F64", "elem": "u64", "zero_one_via_new": True,
        "consts": ["M", "R2"],
        "fns": [
            {"name": "mont_red_cst", "mode": "kernel"},
            {"name": "mont_to_int", "mode": "kernel"},
            {"name": "equals", "mode": "kernel"},
            {"name": "new", "anchor": "impl BaseElement", "mode": "kernel"},
            {"name": "mul_small", "anchor": "impl BaseElement", "mode": "kernel"},
            {"name": "add", "anchor": "impl Add for BaseElement", "mode": "kernel"},
            {"name": "sub", "anchor": "impl Sub for BaseElement", "mode": "kernel"},
            {"name": "mul", "anchor": "impl Mul for BaseElement", "mode": "kernel"},
            {"name": "neg", "anchor": "impl Neg for BaseElement", "mode": "kernel"},
            {"name": "double", "anchor": "impl FieldElement for BaseElement", "mode": "kernel"},
            {"name": "exp_acc", "mode": "formula"},
            {"name": "exp7", "anchor": "impl BaseElement", "mode": "formula"},
            {"name": "inv", "anchor": "impl FieldElement for BaseElement", "mode": "formula", "lean": "invChain", "key": "inv_chain"},
            {"name": "mul", "anchor": "impl ExtensibleField<2> for BaseElement", "mode": "formula", "lean": "ext2Mul", "key": "ext2_mul"},
            {"name": "square", "anchor": "impl ExtensibleField<2> for BaseElement", "mode": "formula", "lean": "ext2Square", "key": "ext2_square"},
            {"name": "mul_base", "anchor": "impl ExtensibleField<2> for BaseElement", "mode": "formula", "lean": "ext2MulBase", "key": "ext2_mul_base"},
            {"name": "frobenius", "anchor": "impl ExtensibleField<2> for BaseElement", "mode": "formula", "lean": "ext2Frobenius", "key": "ext2_frobenius"},
            {"name": "mul", "anchor": "impl ExtensibleField<3> for BaseElement", "mode": "formula", "lean": "ext3Mul", "key": "ext3_mul"},
            {"name": "square", "anchor": "impl ExtensibleField<3> for BaseElement", "mode": "formula", "lean": "ext3Square", "key": "ext3_square"},
            {"name": "mul_base", "anchor": "impl ExtensibleField<3> for BaseElement", "mode": "formula", "lean": "ext3MulBase", "key": "ext3_mul_base"},
            {"name": "frobenius", "anchor": "impl ExtensibleField<3> for BaseElement", "mode": "formula", "lean": "ext3Frobenius", "key": "ext3_frobenius"},
        ],
    },
}
