#!/usr/bin/env python3
"""Run checks against seeded changes (/verif/seeded/<name>/patch.diff) in isolation.

  tools/seedrun.py [-j N] [--tier quick|thorough|both] [--checks C01,C02 | --all-checks] NAME...

For every seeded change a private copy of /verif and a private worktree of /repo (with the patch
applied, `git apply`) are bind-mounted over /verif and /repo inside a fresh mount namespace
(`unshare -m`), so that the check runs exactly the registered command (`/verif/check Cxx`) against
exactly the paths it uses in production, while /repo itself and the live /verif stay untouched and
several seeds can run in parallel.  Results go to /verif/seeded/<name>/result.json.

This is a development tool, not a registered check; it needs root (mount namespaces).
"""
import argparse
import json
import os
import shutil
import subprocess
import sys
import time
from concurrent.futures import ThreadPoolExecutor

VERIF = "/verif"
SEEDED = os.path.join(VERIF, "seeded")
ROOT = "/tmp/seedrun"


def sh(cmd, **kw):
    p = subprocess.run(cmd, shell=True, stdout=subprocess.PIPE, stderr=subprocess.STDOUT, **kw)
    return p.returncode, p.stdout.decode("utf-8", "replace")


def run_seed(name, checks, tiers):
    sdir = os.path.join(SEEDED, name)
    if not os.path.exists(os.path.join(sdir, "meta.json")) or not os.path.exists(os.path.join(sdir, "patch.diff")):
        return {"name": name, "error": "meta.json or patch.diff missing"}
    meta = json.load(open(os.path.join(sdir, "meta.json")))
    prop = meta["property"]
    if not checks:
        extra = os.path.join(sdir, "also_check")
        checks = [prop] + (open(extra).read().split() if os.path.exists(extra) else [])
    work = os.path.join(ROOT, name)
    shutil.rmtree(work, ignore_errors=True)
    os.makedirs(work)
    vcopy = os.path.join(work, "verif")
    rcopy = os.path.join(work, "repo")
    # tracked files come from the last COMMIT of /verif (a consistent state even while the live tree
    # is being edited); build caches are copied from the live tree to save rebuild time
    os.makedirs(vcopy)
    sh(f"git -C {VERIF} archive HEAD | tar -x -C {vcopy}")
    sh(f"mkdir -p {vcopy}/.cache {vcopy}/lean && rsync -a {VERIF}/.cache/target {VERIF}/.cache/target-concurrent {vcopy}/.cache/ ; "
       f"rsync -a {VERIF}/lean/.lake {vcopy}/lean/ ; cp {VERIF}/harness/Cargo.lock {vcopy}/harness/ 2>/dev/null")
    rc, out = sh(f"git -C /repo worktree add --detach {rcopy} HEAD")
    if rc != 0:
        return {"name": name, "error": "worktree: " + out}
    res = {"name": name, "property": prop, "runs": []}
    try:
        # make the untouched sources look older than the copied build caches, so that cargo rebuilds
        # only what the patch touches (the caches were built from the same /repo HEAD)
        sh(f"find {rcopy} -type f -not -path '*/.git/*' -exec touch -d '2021-01-01' {{}} +")
        rc, out = sh(f"git -C {rcopy} apply {sdir}/patch.diff")
        if rc != 0:
            res["error"] = "patch does not apply: " + out
            return res
        for c in checks:
            for tier in tiers:
                t0 = time.time()
                inner = (f"mount --bind {rcopy} /repo && mount --bind {vcopy} /verif && cd /verif && "
                         f"./check {c} --tier {tier}")
                rc, out = sh(f"unshare -m sh -c '{inner}'", timeout=4 * 3600)
                viol = [l for l in out.splitlines() if l.startswith("VIOLATION")]
                summ = [l for l in out.splitlines() if l.startswith(c + " tier=")]
                run = {"check": c, "tier": tier, "exit": rc, "violation_lines": viol[:5],
                       "summary": summ[-1] if summ else out[-400:], "wall_s": round(time.time() - t0, 1)}
                # keep the replay the check wrote (inside the private copy)
                for v in viol[:1]:
                    for tok in v.split():
                        if tok.startswith("replay="):
                            rp = tok[len("replay="):].replace("/verif/", vcopy + "/", 1)
                            if os.path.exists(rp):
                                txt = open(rp, errors="replace").read()
                                run["replay_head"] = txt[:1500]
                res["runs"].append(run)
                if rc != 0 and c == prop:
                    break  # detected at this tier; no need for the deeper one
        res["detected"] = any(r["exit"] != 0 and r["violation_lines"] for r in res["runs"])
        res["detected_by"] = [f'{r["check"]}:{r["tier"]}' for r in res["runs"]
                              if r["exit"] != 0 and r["violation_lines"]]
        return res
    finally:
        sh(f"git -C /repo worktree remove --force {rcopy}")
        shutil.rmtree(work, ignore_errors=True)
        json.dump(res, open(os.path.join(sdir, "result.json"), "w"), indent=1)


def main():
    ap = argparse.ArgumentParser()
    ap.add_argument("-j", type=int, default=4)
    ap.add_argument("--tier", default="both")
    ap.add_argument("--checks", default="")
    ap.add_argument("names", nargs="*")
    a = ap.parse_args()
    names = a.names or sorted(d for d in os.listdir(SEEDED) if os.path.exists(os.path.join(SEEDED, d, "patch.diff")))
    tiers = ["quick", "thorough"] if a.tier == "both" else [a.tier]
    checks = [c for c in a.checks.split(",") if c]
    os.makedirs(ROOT, exist_ok=True)
    with ThreadPoolExecutor(a.j) as ex:
        for r in ex.map(lambda n: run_seed(n, checks, tiers), names):
            print(json.dumps({k: r.get(k) for k in ("name", "detected", "detected_by", "error")}), flush=True)
            for run in r.get("runs", []):
                print("   ", run["check"], run["tier"], "exit", run["exit"], run["summary"][:200], flush=True)


if __name__ == "__main__":
    main()
