#!/usr/bin/env python3
"""rs2lean: regenerate Lean definitions from the CURRENT Rust source (translator tie, DESIGN §2.3-T).

    rs2lean.py <spec-name>        # spec tables are in tools/rs2lean_specs.py

Supported Rust subset (anything else is a translation failure, reported as such):
  fn items with typed params; `let [mut] pat[: ty] = e;`, tuple patterns, assignment and `op=`,
  statement `if c { .. } [else { .. }]` that (re)assigns outer variables, `for _ in 0..N { v = e; }`
  with a const/literal bound, tail expression; expressions: literals (dec/hex/_/suffix), paths,
  `.0`, `.inner()`, indexing by literal, calls, method calls from a fixed table, turbofish consts,
  `as` casts, unary `- !`, binary `* / % + - << >> & ^ | == != < <= > >= && ||`, parens, tuples,
  arrays, `[e; N]`, `if c { a } else { b }`, `Self(e)`; array patterns `let [a, (b, c)] = e;`,
  `for r in 0..N { .. }` with a literal bound whose index is used (unrolled; `a[r]` / `a[r] = e` on
  fixed-size arrays), a `&mut` parameter without return type (the function returns its final value);
  `while c { .. }` that updates outer variables (kernel mode, only for functions whose spec entry gives
  `"fuel": N`: translated to `Wf.whileFuel N`, i.e. the loop stops after N iterations at the latest; condition and body
  of loop #k become the top-level definitions `<fn>_while<k>_cond` / `_body`, parametrised by the variables
  they read from the enclosing scopes) and
  the guard `if c { return e; }` as a statement of the function body (`if c then e else <rest>`).

Two modes per function:
  kernel  : machine integers -> `BitVec w` with Rust *release* (wrapping) semantics; the element
            newtype is transparent (`Self(x)`, `x.0`, `from_mont`, `inner()` are identities).
  formula : field-element formulas -> polymorphic Lean code over `Wf.FieldOps F`
            (`+ - *`, `double`, `square`, `cube`, `neg`, `Self::new(c)`, `ZERO`, `ONE`, arrays as tuples).
  A formula function may be marked `"lanes": True`: every array of field elements in it is processed
  pointwise (`a.iter_mut().for_each(|t| *t = f(t))`, `a.iter_mut().zip(b).for_each(|(r, t)| *r *= t)`,
  `for (i, s) in a.iter_mut().enumerate() { .. b[i] .. *s .. }`), and ONE lane is translated: the
  arrays become single elements (see `lanes_rewrite`).
"""
import os
import re
import sys

VERIF = os.path.dirname(os.path.dirname(os.path.abspath(__file__)))
REPO = os.environ.get("WF_REPO", "/repo")


class TError(Exception):
    pass


# ---------------------------------------------------------------------------------------------
# tokenizer
# ---------------------------------------------------------------------------------------------
TOK_RE = re.compile(r"""
    (?P<ws>\s+)
  | (?P<num>0x[0-9a-fA-F_]+(?:u8|u16|u32|u64|u128|usize|i64|i128)?|[0-9][0-9_]*(?:u8|u16|u32|u64|u128|usize|i64|i128)?)
  | (?P<id>[A-Za-z_][A-Za-z0-9_]*)
  | (?P<op>::|->|=>|<<=|>>=|<<|>>|<=|>=|==|!=|&&|\|\||\+=|-=|\*=|\|=|&=|\^=|\.\.|[-+*/%&|^!<>=.,;:()\[\]{}#'])
""", re.X)


def strip_comments(src):
    src = re.sub(r"//[^\n]*", "", src)
    src = re.sub(r"/\*.*?\*/", "", src, flags=re.S)
    return src


def tokenize(src):
    toks = []
    i = 0
    while i < len(src):
        m = TOK_RE.match(src, i)
        if not m:
            raise TError(f"cannot tokenize at: {src[i:i+30]!r}")
        i = m.end()
        if m.lastgroup == "ws":
            continue
        toks.append((m.lastgroup, m.group(m.lastgroup)))
    return toks


# ---------------------------------------------------------------------------------------------
# locating a function in a source file
# ---------------------------------------------------------------------------------------------
def find_fn(src, anchor, name):
    """return (signature_text, body_text) of the first `fn name` after `anchor` (a substring)."""
    start = 0
    if anchor:
        start = src.find(anchor)
        if start < 0:
            raise TError(f"anchor not found: {anchor!r}")
    m = re.compile(r"\bfn\s+" + re.escape(name) + r"\s*(<[^>]*>)?\s*\(").search(src, start)
    if not m:
        raise TError(f"fn {name} not found after {anchor!r}")
    # signature up to the opening brace of the body
    i = m.start()
    depth = 0
    j = m.end() - 1
    # skip the parameter list
    while True:
        if src[j] == "(":
            depth += 1
        elif src[j] == ")":
            depth -= 1
            if depth == 0:
                break
        j += 1
    k = src.index("{", j)
    sig = src[i:k]
    depth = 0
    e = k
    while True:
        if src[e] == "{":
            depth += 1
        elif src[e] == "}":
            depth -= 1
            if depth == 0:
                break
        e += 1
    return sig, src[k + 1:e]


def find_const(src, name):
    m = re.search(r"\bconst\s+" + re.escape(name) + r"\s*:\s*([A-Za-z0-9_]+)\s*=\s*([^;]+);", src)
    if m:
        return m.group(1), m.group(2).strip()
    # array / tuple typed constant: `const NAME: [(i64, i64); 3] = [..];`
    m = re.search(r"\bconst\s+" + re.escape(name) + r"\s*:", src)
    if not m:
        raise TError(f"const {name} not found")
    # the type may itself contain `;` (array length): take the `=` that follows the balanced type
    depth, i = 0, m.end()
    while not (src[i] == "=" and depth == 0):
        depth += (src[i] in "[(") - (src[i] in "])")
        i += 1
    depth, j = 0, i + 1
    while not (src[j] == ";" and depth == 0):
        depth += (src[j] in "[(") - (src[j] in "])")
        j += 1
    ty = Parser(tokenize(src[m.end():i])).parse_type()
    return ty, src[i + 1:j].strip()


# ---------------------------------------------------------------------------------------------
# parser (statements + expressions) -> AST tuples
# ---------------------------------------------------------------------------------------------
class Parser:
    def __init__(self, toks):
        self.t = toks
        self.i = 0

    def peek(self, k=0):
        return self.t[self.i + k] if self.i + k < len(self.t) else ("eof", "")

    def next(self):
        tok = self.peek()
        self.i += 1
        return tok

    def accept(self, val):
        if self.peek()[1] == val:
            self.i += 1
            return True
        return False

    def expect(self, val):
        if not self.accept(val):
            raise TError(f"expected {val!r}, found {self.peek()[1]!r} at token {self.i}")

    # --- types ---
    def parse_type(self):
        if self.accept("("):
            ts = []
            while not self.accept(")"):
                ts.append(self.parse_type())
                self.accept(",")
            return ("tuple", tuple(ts))
        if self.accept("["):
            t = self.parse_type()
            self.expect(";")
            n = self.next()[1]
            self.expect("]")
            return ("arr", int(n) if n.isdigit() else n, t)
        if self.accept("&"):
            self.accept("mut")
            return self.parse_type()
        name = self.next()[1]
        while self.accept("::"):
            name = name + "::" + self.next()[1]
        return name

    # --- statements ---
    def parse_block(self):
        """statements until the matching `}` or eof; returns (stmts, tail_expr or None)"""
        stmts = []
        tail = None
        while self.peek()[0] != "eof" and self.peek()[1] != "}":
            if self.accept(";"):
                continue
            if self.peek()[1] == "#":   # attribute
                self.next()
                self.expect("[")
                d = 1
                while d:
                    v = self.next()[1]
                    d += (v == "[") - (v == "]")
                continue
            if self.peek()[1] == "let":
                self.next()
                pat = self.parse_pat()
                ty = None
                if self.accept(":"):
                    ty = self.parse_type()
                self.expect("=")
                e = self.parse_expr()
                self.expect(";")
                stmts.append(("let", pat, ty, e))
                continue
            if self.peek()[1] == "for":
                self.next()
                var = self.next()[1]
                self.expect("in")
                lo = self.parse_expr(no_struct=True)
                stmts.append(self.finish_for(var, lo))
                continue
            if self.peek()[1] == "return":
                self.next()
                e = self.parse_expr()
                self.accept(";")
                stmts.append(("return", e))
                continue
            if self.peek()[1] == "if":
                e = self.parse_expr()
                if self.peek()[1] == "}" or self.peek()[0] == "eof":
                    tail = e
                else:
                    self.accept(";")
                    stmts.append(("ifstmt", e))
                continue
            if self.peek()[1] == "while":
                self.next()
                c = self.parse_expr(no_struct=True)
                self.expect("{")
                body, wtail = self.parse_block()
                self.expect("}")
                if wtail is not None:
                    raise TError("while body with tail expression")
                stmts.append(("while", c, body))
                continue
            if self.peek()[1] in ("loop", "match"):
                raise TError(f"unsupported statement `{self.peek()[1]}`")
            e = self.parse_expr()
            if self.peek()[1] in ("=", "+=", "-=", "*=", "|=", "&=", "^=", "<<=", ">>="):
                op = self.next()[1]
                rhs = self.parse_expr()
                self.expect(";")
                if op != "=":
                    rhs = ("bin", op[:-1], e, rhs)
                stmts.append(("assign", e, rhs))
                continue
            if self.accept(";"):
                stmts.append(("expr", e))
                continue
            tail = e
        return stmts, tail

    def finish_for(self, var, rng):
        if rng[0] != "range":
            raise TError("for loop must iterate over a range")
        self.expect("{")
        body, tail = self.parse_block()
        self.expect("}")
        if tail is not None:
            raise TError("for body with tail expression")
        return ("for", var, rng[1], rng[2], body)

    def parse_pat(self):
        if self.accept("("):
            ps = []
            while not self.accept(")"):
                ps.append(self.parse_pat())
                self.accept(",")
            return ("ptuple", ps)
        if self.accept("["):
            ps = []
            while not self.accept("]"):
                ps.append(self.parse_pat())
                self.accept(",")
            return ("ptuple", ps)
        self.accept("mut")
        return ("pvar", self.next()[1])

    # --- expressions (precedence climbing) ---
    BIN = [("||",), ("&&",), ("==", "!=", "<", "<=", ">", ">="), ("|",), ("^",), ("&",), ("<<", ">>"),
           ("+", "-"), ("*", "/", "%")]

    def parse_expr(self, no_struct=False):
        e = self.parse_bin(0)
        if self.peek()[1] == "..":
            self.next()
            hi = self.parse_bin(0)
            return ("range", e, hi)
        return e

    def parse_bin(self, lvl):
        if lvl == len(self.BIN):
            return self.parse_cast()
        e = self.parse_bin(lvl + 1)
        while self.peek()[1] in self.BIN[lvl] and self.peek()[0] == "op":
            # do not treat `<` of a turbofish/generic as comparison: not needed in our subset
            op = self.next()[1]
            r = self.parse_bin(lvl + 1)
            e = ("bin", op, e, r)
        return e

    def parse_cast(self):
        e = self.parse_unary()
        while self.peek()[1] == "as":
            self.next()
            e = ("cast", e, self.parse_type())
        return e

    def parse_unary(self):
        if self.peek()[0] == "op" and self.peek()[1] in ("-", "!", "*", "&"):
            op = self.next()[1]
            e = self.parse_unary()
            if op in ("*", "&"):
                return e
            return ("un", op, e)
        return self.parse_postfix()

    def parse_postfix(self):
        e = self.parse_atom()
        while True:
            if self.peek()[1] == "." and self.peek(1)[0] == "num":
                self.next()
                e = ("field", e, int(self.next()[1]))
            elif self.peek()[1] == ".":
                self.next()
                name = self.next()[1]
                targs = []
                if self.peek()[1] == "::":
                    self.next()
                    self.expect("<")
                    while not self.accept(">"):
                        targs.append(self.parse_type())
                        self.accept(",")
                if self.accept("("):
                    args = self.parse_args(")")
                    e = ("mcall", e, name, args)
                else:
                    e = ("field", e, name)
            elif self.peek()[1] == "[":
                self.next()
                idx = self.parse_expr()
                self.expect("]")
                e = ("index", e, idx)
            elif self.peek()[1] == "(" and e[0] == "path":
                self.next()
                args = self.parse_args(")")
                e = ("call", e, args)
            else:
                return e

    def parse_args(self, close):
        args = []
        while not self.accept(close):
            args.append(self.parse_expr())
            self.accept(",")
        return args

    def parse_atom(self):
        kind, val = self.peek()
        if kind == "num":
            self.next()
            m = re.match(r"(0x[0-9a-fA-F_]+|[0-9][0-9_]*?)(u8|u16|u32|u64|u128|usize|i64|i128)?$", val)
            return ("lit", int(m.group(1).replace("_", ""), 0), m.group(2))
        if val == "(":
            self.next()
            if self.accept(")"):
                return ("tuple", [])
            e = self.parse_expr()
            if self.accept(","):
                es = [e] + self.parse_args(")")
                return ("tuple", es)
            self.expect(")")
            return ("paren", e)
        if val == "[":
            self.next()
            if self.accept("]"):
                return ("array", [])
            first = self.parse_expr()
            if self.accept(";"):
                n = self.parse_expr()
                self.expect("]")
                return ("repeat", first, n)
            self.accept(",")
            return ("array", [first] + self.parse_args("]"))
        if val == "if":
            self.next()
            c = self.parse_expr(no_struct=True)
            self.expect("{")
            a = self.parse_block()
            self.expect("}")
            b = None
            if self.accept("else"):
                if self.peek()[1] == "if":
                    b = ([], self.parse_atom())
                else:
                    self.expect("{")
                    b = self.parse_block()
                    self.expect("}")
            return ("if", c, a, b)
        if val == "{":
            self.next()
            b = self.parse_block()
            self.expect("}")
            return ("block", b)
        if kind == "id":
            self.next()
            segs = [val]
            consts = []
            while self.peek()[1] == "::":
                self.next()
                if self.accept("<"):
                    while not self.accept(">"):
                        consts.append(self.parse_type())
                        self.accept(",")
                else:
                    segs.append(self.next()[1])
            return ("path", segs, consts)
        raise TError(f"unexpected token {val!r}")


# ---------------------------------------------------------------------------------------------
# code generation
# ---------------------------------------------------------------------------------------------
INT_W = {"u8": 8, "u16": 16, "u32": 32, "u64": 64, "u128": 128, "usize": 64, "i64": 64, "i128": 128}
SIGNED = {"i64", "i128"}


def lean_ty(t, elem):
    if t in INT_W:
        return f"BitVec {INT_W[t]}"
    if t == "bool":
        return "Bool"
    if t == "E":
        return "F" if elem is None else lean_ty(elem, None)
    if isinstance(t, tuple) and t[0] == "tuple":
        return "(" + " × ".join(lean_ty(x, elem) for x in t[1]) + ")" if t[1] else "Unit"
    if isinstance(t, tuple) and t[0] == "arr":
        return "(" + " × ".join([lean_ty(t[2], elem)] * t[1]) + ")"
    raise TError(f"no Lean type for {t!r}")


class Gen:
    """translates one function; `elem` = inner integer type of the element newtype in kernel mode,
    None in formula mode (elements are the abstract `F`)."""

    def __init__(self, spec, fn, consts, fnsigs):
        self.spec = spec
        self.mode = fn["mode"]
        self.elem = spec.get("elem") if self.mode == "kernel" else None
        self.consts = consts          # name -> (type, lean_name)
        self.fnsigs = fnsigs          # rust name -> (lean name, [param types], ret type, const params, mode, generics)
        self.lanes = bool(fn.get("lanes"))
        self.fuel = fn.get("fuel")
        self.lname = fn.get("lean", fn.get("name"))
        self.nwhile = 0
        self.aux = []                 # top-level helper definitions (loop conditions / bodies), in dependency order
        self.fresh = 0

    def norm_ty(self, t):
        if t in ("Self", "BaseElement", "Self::BaseField"):
            return "E"
        if self.lanes and t == "B":
            return "E"
        if self.lanes and isinstance(t, tuple) and t[0] == "arr" and self.norm_ty(t[2]) == "E":
            return "E"          # one lane of an array that is processed pointwise
        if t == "Self::PositiveInteger":
            return self.spec["elem"]
        if isinstance(t, tuple) and t[0] == "tuple":
            return ("tuple", tuple(self.norm_ty(x) for x in t[1]))
        if isinstance(t, tuple) and t[0] == "arr":
            return ("arr", t[1], self.norm_ty(t[2]))
        return t

    def ity(self, t):
        """integer view of a type in kernel mode"""
        if t == "E" and self.elem:
            return self.elem
        return t

    # ---- expressions: returns (lean, type) ----
    def lit(self, v, ty):
        ty = self.ity(ty)
        if ty in INT_W:
            return f"{v}#{INT_W[ty]}", ty
        if ty == "nat":
            return str(v), "nat"
        raise TError(f"literal {v} of unknown type {ty!r}")

    def expr(self, e, env, want=None):
        k = e[0]
        if k == "paren":
            l, t = self.expr(e[1], env, want)
            return f"({l})", t
        if k == "lit":
            ty = e[2] or want
            if ty is None:
                raise TError(f"cannot type literal {e[1]}")
            if ty == "E" and self.elem is None:
                raise TError("integer literal used as field element")
            return self.lit(e[1], ty)
        if k == "path":
            segs = e[1]
            name = segs[-1]
            if len(segs) == 1 and name in env:
                return env[name]
            if name in ("ZERO", "ONE") and segs[0] in ("Self", "BaseElement"):
                if self.mode == "formula":
                    return (f"ops.{name.lower()}", "E")
                if "new" in self.fnsigs and self.spec.get("zero_one_via_new"):
                    w = INT_W[self.elem]
                    return (f"({self.fnsigs['new'][0]} {0 if name == 'ZERO' else 1}#{w})", "E")
                raise TError("Self::ZERO/ONE in kernel mode: translate the constant explicitly")
            if len(segs) == 1 and name in self.consts:
                t, ln = self.consts[name]
                return ln, t
            if name == "true":
                return "true", "bool"
            if name == "false":
                return "false", "bool"
            raise TError(f"unknown name {'::'.join(segs)}")
        if k == "field":
            l, t = self.expr(e[1], env)
            if e[2] == 0 and t == "E":
                if self.elem is None:
                    raise TError("`.0` on a field element in formula mode")
                return l, self.elem
            if isinstance(e[2], int) and isinstance(t, tuple) and t[0] == "tuple":
                return self.proj(l, e[2], len(t[1])), t[1][e[2]]
            raise TError(f"unsupported field access .{e[2]} on {t!r}")
        if k == "index":
            l, t = self.expr(e[1], env)
            i = self.const_index(e[2], env)
            if isinstance(t, tuple) and t[0] == "arr":
                if not 0 <= i < t[1]:
                    raise TError(f"index {i} out of bounds for {t!r}")
                return self.proj(l, i, t[1]), t[2]
            raise TError(f"indexing into {t!r}")
        if k == "repeat":
            n = self.const_index(e[2], env)
            l, t = self.expr(e[1], env, (want[2] if isinstance(want, tuple) and want[0] == "arr" else None))
            return "(" + ", ".join([l] * n) + ")", ("arr", n, t)
        if k == "tuple":
            parts = [self.expr(x, env, (want[1][i] if isinstance(want, tuple) and want[0] == "tuple" else None))
                     for i, x in enumerate(e[1])]
            return "(" + ", ".join(p[0] for p in parts) + ")", ("tuple", tuple(p[1] for p in parts))
        if k == "array":
            parts = [self.expr(x, env, (want[2] if isinstance(want, tuple) and want[0] == "arr" else None)) for x in e[1]]
            return "(" + ", ".join(p[0] for p in parts) + ")", ("arr", len(parts), parts[0][1])
        if k == "cast":
            return self.cast(e, env)
        if k == "un":
            if e[1] == "-":
                l, t = self.expr(e[2], env, want)
                if t == "E" and self.elem is None:
                    return f"(ops.neg {l})", "E"
                if self.ity(t) in INT_W:
                    return f"(-{l})", t
                raise TError("unary minus on non-integer")
            l, t = self.expr(e[2], env, want)
            if t == "bool":
                return f"(!{l})", t
            return f"(~~~{l})", t
        if k == "bin":
            return self.binop(e, env, want)
        if k == "if":
            c, ct = self.expr(e[1], env, "bool")
            if ct != "bool":
                raise TError("if condition is not bool")
            if e[3] is None:
                raise TError("if expression without else")
            try:
                a, at = self.block(e[2], env, want)
                b, bt = self.block(e[3], env, at if want is None else want)
            except TError:
                # an untyped literal in the first branch: take the type from the second one
                b, bt = self.block(e[3], env, want)
                a, at = self.block(e[2], env, bt)
            return f"(if {c} then {a} else {b})", at
        if k == "block":
            return self.block(e[1], env, want)
        if k == "call":
            return self.call(e, env, want)
        if k == "mcall":
            return self.mcall(e, env, want)
        raise TError(f"unsupported expression {k}")

    def const_index(self, e, env):
        """an index that is known at translation time: a literal or the variable of an unrolled loop"""
        while e[0] == "paren":
            e = e[1]
        if e[0] == "lit":
            return e[1]
        if e[0] == "path" and len(e[1]) == 1 and e[1][0] in env and isinstance(env[e[1][0]][1], tuple) \
                and env[e[1][0]][1][0] == "idx":
            return env[e[1][0]][1][1]
        raise TError("index must be a literal or the index of an unrolled loop")

    def proj(self, l, i, n):
        # right-nested Lean tuples
        s = l
        for _ in range(i):
            s = f"{s}.2"
        return f"{s}.1" if i < n - 1 else s

    def cast(self, e, env):
        target = self.norm_ty(e[2])
        tt = self.ity(target)
        inner = e[1]
        # literal cast: `0 as u64`
        l, t = self.expr(inner, env, None if inner[0] != "lit" or inner[2] else tt)
        st = self.ity(t)
        if st == "bool" and tt in INT_W:
            return f"((BitVec.ofBool {l}).setWidth {INT_W[tt]})", target
        if st in INT_W and tt in INT_W:
            if INT_W[st] == INT_W[tt]:
                return l, target
            if st in SIGNED and INT_W[tt] > INT_W[st]:
                return f"(BitVec.signExtend {INT_W[tt]} {l})", target
            return f"(BitVec.setWidth {INT_W[tt]} {l})", target
        raise TError(f"unsupported cast {t!r} as {target!r}")

    def binop(self, e, env, want):
        op = e[1]
        if op in ("&&", "||"):
            a, _ = self.expr(e[2], env, "bool")
            b, _ = self.expr(e[3], env, "bool")
            return f"({a} {op} {b})", "bool"
        if op in ("<<", ">>"):
            a, t = self.expr(e[2], env, want)
            if e[3][0] == "lit":
                n = str(e[3][1])
            else:
                b, bt = self.expr(e[3], env, "u32")
                n = f"{b}.toNat"
            it = self.ity(t)
            if op == "<<":
                return f"({a} <<< {n})", t
            if it in SIGNED:
                return f"(BitVec.sshiftRight {a} {n})", t
            return f"({a} >>> {n})", t
        cmp_ops = ("==", "!=", "<", "<=", ">", ">=")
        # type the side that is not a bare literal first
        lhs, rhs = e[2], e[3]

        def bare(x):
            while x[0] == "paren":
                x = x[1]
            return x[0] == "lit" and x[2] is None
        if bare(lhs) and not bare(rhs):
            b, t = self.expr(rhs, env, None if op in cmp_ops else want)
            a, _ = self.expr(lhs, env, t)
        else:
            a, t = self.expr(lhs, env, None if op in cmp_ops else want)
            b, tb = self.expr(rhs, env, t)
            if self.ity(tb) != self.ity(t):
                raise TError(f"operand types differ in `{op}`: {t!r} vs {tb!r}")
        it = self.ity(t)
        if op in cmp_ops:
            if it not in INT_W and it != "bool":
                raise TError(f"comparison on {t!r}")
            if op == "==":
                return f"({a} == {b})", "bool"
            if op == "!=":
                return f"({a} != {b})", "bool"
            if it in SIGNED:
                raise TError("signed comparison not supported")
            f = {"<": f"(BitVec.ult {a} {b})", "<=": f"(BitVec.ule {a} {b})",
                 ">": f"(BitVec.ult {b} {a})", ">=": f"(BitVec.ule {b} {a})"}[op]
            return f, "bool"
        if t == "E" and self.elem is None:
            f = {"+": "add", "-": "sub", "*": "mul"}.get(op)
            if not f:
                raise TError(f"operator {op} on field elements")
            return f"(ops.{f} {a} {b})", "E"
        if t == "E":
            # kernel mode: operators on the element newtype are the field's own kernels
            f = {"+": "add", "-": "sub", "*": "mul"}.get(op)
            if not f or f not in self.fnsigs:
                raise TError(f"operator {op} on field elements before `{f}` is translated")
            return f"({self.fnsigs[f][0]} {a} {b})", "E"
        if it in INT_W:
            f = {"+": "+", "-": "-", "*": "*", "&": "&&&", "|": "|||", "^": "^^^", "/": "/", "%": "%"}[op]
            return f"({a} {f} {b})", t
        if it == "bool" and op in ("&", "|", "^"):
            f = {"&": "&&", "|": "||", "^": "^^"}[op]
            return f"({a} {f} {b})", t
        raise TError(f"operator {op} on {t!r}")

    def call(self, e, env, want):
        segs, consts = e[1][1], e[1][2]
        name = segs[-1]
        args = e[2]
        if name in ("Self", "BaseElement") and len(segs) == 1:      # tuple-struct constructor
            if self.elem is None:
                raise TError("Self(..) in formula mode")
            l, t = self.expr(args[0], env, self.elem)
            return l, "E"
        if name in ("from_mont",):
            l, t = self.expr(args[0], env, self.elem)
            return l, "E"
        if name == "new" and segs[0] in ("Self", "BaseElement"):
            if self.mode == "formula":
                if args[0][0] != "lit":
                    raise TError("Self::new(non-literal) in formula mode")
                return f"(ops.ofNat {args[0][1]})", "E"
            if "new" in self.fnsigs:
                ln, ptys, rty = self.fnsigs["new"][:3]
                l, t = self.expr(args[0], env, ptys[0])
                return f"({ln} {l})", rty
            raise TError("Self::new not translated")
        if name in self.fnsigs:
            ln, ptys, rty, cps = self.fnsigs[name][:4]
            gps = self.fnsigs[name][5] if len(self.fnsigs[name]) > 5 else None
            ls = []
            if gps is not None and len(consts) == len(gps) and len(gps) != len(cps):
                # full turbofish `f::<T, N, 3>`: keep the arguments of the const parameters that were translated
                consts = [c for c, (gname, _) in zip(consts, gps) if gname in cps]
            if len(consts) != len(cps):
                raise TError(f"call of {name}: {len(consts)} const arguments for {len(cps)} const parameters")
            for c in consts:
                ls.append(str(c))
            for a, pt in zip(args, ptys):
                l, t = self.expr(a, env, pt)
                ls.append(l)
            pre = "ops " if self.fnsigs[name][4] == "formula" else ""
            return f"({ln} {pre}{' '.join(ls)})", rty
        raise TError(f"call to unknown function {'::'.join(segs)}")

    def mcall(self, e, env, want):
        recv, name, args = e[1], e[2], e[3]
        l, t = self.expr(recv, env, want if name.startswith(("wrapping_", "overflowing_")) else None)
        it = self.ity(t)
        if name == "inner" and t == "E" and self.elem:
            return l, self.elem
        if t == "E" and self.elem is None:
            if name in ("double", "square", "neg", "inv", "conjugate"):
                return f"(ops.{name} {l})", "E"
            if name == "cube":      # FieldElement::cube: self * self * self
                return f"(ops.mul (ops.mul {l} {l}) {l})", "E"
            raise TError(f"method {name} on field element")
        if t == "E" and self.elem and name in self.fnsigs:   # kernel-mode method implemented by a translated fn
            ln = self.fnsigs[name][0]
            ls = [l] + [self.expr(a, env, pt)[0] for a, pt in zip(args, self.fnsigs[name][1][1:])]
            return f"({ln} {' '.join(ls)})", self.fnsigs[name][2]
        if it in INT_W:
            w = INT_W[it]
            if name in ("wrapping_add", "wrapping_sub", "wrapping_mul"):
                b, _ = self.expr(args[0], env, t)
                op = {"wrapping_add": "+", "wrapping_sub": "-", "wrapping_mul": "*"}[name]
                return f"({l} {op} {b})", t
            if name == "wrapping_neg":
                return f"(-{l})", t
            if name == "overflowing_add":
                b, _ = self.expr(args[0], env, t)
                return f"(({l} + {b}), (BitVec.ult ({l} + {b}) {l}))", ("tuple", (t, "bool"))
            if name == "overflowing_sub":
                b, _ = self.expr(args[0], env, t)
                return f"(({l} - {b}), (BitVec.ult {l} {b}))", ("tuple", (t, "bool"))
            if name == "into":
                return l, want or t
        raise TError(f"unsupported method .{name}() on {t!r}")

    # ---- blocks / statements ----
    @staticmethod
    def is_guard(s):
        """`if c { return e; }` (no else) as a statement"""
        return (s[0] == "ifstmt" and s[1][3] is None and s[1][2][1] is None and len(s[1][2][0]) == 1
                and s[1][2][0][0][0] == "return")

    def block(self, blk, env, want=None, fn_body=False):
        stmts, tail = blk
        env = dict(env)
        lines = []
        if fn_body:
            for i, st in enumerate(stmts):
                if self.is_guard(st):
                    # early exit of the function: `if c then e else <rest of the body>`
                    self.stmts(stmts[:i], env, lines)
                    c, ct = self.expr(st[1][1], env, "bool")
                    if ct != "bool":
                        raise TError("guard condition is not bool")
                    r, rt = self.expr(st[1][2][0][0][1], env, want)
                    rest, t = self.block((stmts[i + 1:], tail), env, want, fn_body=True)
                    if self.ity(rt) != self.ity(t):
                        raise TError(f"early return of {rt!r} in a function returning {t!r}")
                    l = f"(if {c} then {r} else {rest})"
                    if not lines:
                        return l, t
                    return "(" + "\n".join(lines) + "\n" + l + ")", t
        self.stmts(stmts, env, lines)
        if tail is None:
            raise TError("block without tail expression")
        l, t = self.expr(tail, env, want)
        if not lines:
            return l, t
        return "(" + "\n".join(lines) + "\n" + l + ")", t

    def pat(self, p, t):
        if p[0] == "pvar":
            return p[1] if p[1] != "_" else "_", {p[1]: t} if p[1] != "_" else {}
        if isinstance(t, tuple) and t[0] == "arr" and t[1] == len(p[1]):
            t = ("tuple", (t[2],) * t[1])
        if not (isinstance(t, tuple) and t[0] == "tuple") or len(t[1]) != len(p[1]):
            raise TError(f"tuple pattern against {t!r}")
        names, binds = [], {}
        for q, qt in zip(p[1], t[1]):
            n, b = self.pat(q, qt)
            names.append(n)
            binds.update(b)
        return "(" + ", ".join(names) + ")", binds

    def assigned(self, stmts):
        out = []
        for s in stmts:
            if s[0] == "assign":
                tgt = s[1]
                while tgt[0] in ("field", "index"):
                    tgt = tgt[1]
                if tgt[0] != "path":
                    raise TError("assignment to a non-variable")
                if tgt[1][0] not in out:
                    out.append(tgt[1][0])
            elif s[0] == "ifstmt":
                for blk in (s[1][2], s[1][3]):
                    if blk:
                        for n in self.assigned(blk[0]):
                            if n not in out:
                                out.append(n)
            elif s[0] == "for":
                for n in self.assigned(s[4]):
                    if n not in out:
                        out.append(n)
            elif s[0] == "while":
                for n in self.assigned(s[2]):
                    if n not in out:
                        out.append(n)
        return out

    def free_names(self, node, acc=None):
        """single-segment names mentioned anywhere in an AST fragment, in order of first appearance"""
        acc = [] if acc is None else acc
        if isinstance(node, tuple) and len(node) >= 2 and node[0] == "path" and isinstance(node[1], list):
            if len(node[1]) == 1 and node[1][0] not in acc:
                acc.append(node[1][0])
            return acc
        if isinstance(node, (tuple, list)):
            for x in node:
                self.free_names(x, acc)
        return acc

    def stmts(self, stmts, env, lines):
        for s in stmts:
            if s[0] == "let":
                want = self.norm_ty(s[2]) if s[2] else None
                l, t = self.expr(s[3], env, want)
                pn, binds = self.pat(s[1], t)
                lines.append(f"let {pn} := {l}")
                for n, bt in binds.items():
                    env[n] = (n, bt)
            elif s[0] == "assign":
                tgt = s[1]
                if tgt[0] == "field" and tgt[2] == 0:
                    tgt = tgt[1]
                if tgt[0] == "index" and tgt[1][0] == "path" and tgt[1][1][0] in env:
                    # `a[i] = e` on a fixed-size array with a translation-time index: rebuild the tuple
                    n = tgt[1][1][0]
                    an, at = env[n]
                    if not (isinstance(at, tuple) and at[0] == "arr"):
                        raise TError(f"element assignment into {at!r}")
                    i = self.const_index(tgt[2], env)
                    if not 0 <= i < at[1]:
                        raise TError(f"index {i} out of bounds for {at!r}")
                    l, t = self.expr(s[2], env, at[2])
                    if self.ity(t) != self.ity(at[2]):
                        raise TError(f"element assignment of {t!r} into {at!r}")
                    parts = [l if j == i else self.proj(an, j, at[1]) for j in range(at[1])]
                    lines.append(f"let {n} := (" + ", ".join(parts) + ")")
                    env[n] = (n, at)
                    continue
                if tgt[0] != "path" or tgt[1][0] not in env:
                    raise TError("assignment to unknown variable")
                n = tgt[1][0]
                l, t = self.expr(s[2], env, env[n][1])
                lines.append(f"let {n} := {l}")
                env[n] = (n, env[n][1])
            elif s[0] == "ifstmt":
                c, a, b = s[1][1], s[1][2], s[1][3]
                if a[1] is not None or (b and b[1] is not None):
                    raise TError("statement-if with a value")
                outer = [n for n in self.assigned([s]) if n in env]
                if not outer:
                    raise TError("statement-if that assigns nothing")
                cl, _ = self.expr(c, env, "bool")
                tup = "(" + ", ".join(outer) + ")" if len(outer) > 1 else outer[0]

                def branch(blk):
                    if blk is None:
                        return tup
                    e2 = dict(env)
                    ls = []
                    self.stmts(blk[0], e2, ls)
                    return "(" + "\n".join(ls + [tup]) + ")"
                lines.append(f"let {tup} := if {cl} then {branch(a)} else {branch(b)}")
            elif s[0] == "for":
                var, lo, hi, body = s[1], s[2], s[3], s[4]
                if lo != ("lit", 0, None):
                    raise TError("for loop must start at 0")
                if hi[0] == "lit":
                    n = str(hi[1])
                elif hi[0] == "path" and hi[1][0] in env and env[hi[1][0]][1] == "nat":
                    n = hi[1][0]
                else:
                    raise TError("for loop bound must be a literal or const generic")
                if var != "_":
                    # the index is used: unroll (literal bound only)
                    if hi[0] != "lit":
                        raise TError("an indexed for loop needs a literal bound")
                    def pat_names(q):
                        return [q[1]] if q[0] == "pvar" else [n for r in q[1] for n in pat_names(r)]
                    for b in body:
                        if b[0] == "let":
                            for x in pat_names(b[1]):
                                if x in env:
                                    raise TError(f"loop-local `{x}` would shadow an outer variable after unrolling")
                    for k in range(hi[1]):
                        e2 = dict(env)
                        e2[var] = (str(k), ("idx", k))
                        self.stmts(body, e2, lines)
                        for x in self.assigned(body):
                            if x in env:
                                env[x] = e2[x]
                    continue
                outer = [x for x in self.assigned(body) if x in env]
                if len(outer) != 1:
                    raise TError("for loop must update exactly one variable and ignore the index")
                v = outer[0]
                e2 = dict(env)
                ls = []
                self.stmts(body, e2, ls)
                lines.append(f"let {v} := Nat.repeat (fun {v} => (" + "\n".join(ls + [v]) + f")) {n} {v}")
            elif s[0] == "while":
                if self.mode != "kernel" or not self.fuel:
                    raise TError("`while` needs kernel mode and a \"fuel\" bound in the spec entry")
                outer = [x for x in self.assigned(s[2]) if x in env]
                if not outer:
                    raise TError("while loop that updates no outer variable")
                tup = "(" + ", ".join(outer) + ")" if len(outer) > 1 else outer[0]
                sty = lean_ty(("tuple", tuple(env[x][1] for x in outer)), self.elem) if len(outer) > 1 \
                    else lean_ty(env[outer[0]][1], self.elem)
                # variables of the enclosing scopes that the loop reads but does not update: parameters of
                # the loop's two top-level definitions
                caps = [x for x in self.free_names((s[1], s[2])) if x in env and x not in outer]
                for x in caps:
                    if not (env[x][1] in INT_W or env[x][1] in ("E", "bool")):
                        raise TError(f"while loop captures `{x}` of unsupported type {env[x][1]!r}")
                e2 = dict(env)
                for x in outer:
                    e2[x] = (x, env[x][1])
                cl, ct = self.expr(s[1], e2, "bool")
                if ct != "bool":
                    raise TError("while condition is not bool")
                ls = []
                self.stmts(s[2], e2, ls)
                self.nwhile += 1
                base = f"{self.lname}_while{self.nwhile}"
                cbind = "".join(f" ({env[x][0]} : {lean_ty(env[x][1], self.elem)})" for x in caps)
                cargs = "".join(f" {env[x][0]}" for x in caps)
                self.aux.append(f"/-- condition of `while` loop #{self.nwhile} of `{self.lname}` (state: {', '.join(outer)}) -/\n"
                                f"def {base}_cond{cbind} : {sty} → Bool :=\n  fun {tup} => {cl}\n")
                self.aux.append(f"/-- body of `while` loop #{self.nwhile} of `{self.lname}` -/\n"
                                f"def {base}_body{cbind} : {sty} → {sty} :=\n  fun {tup} => ("
                                + "\n".join(ls + [tup]).replace("\n", "\n  ") + ")\n")
                lines.append(f"let {tup} := (Wf.whileFuel {int(self.fuel)} ({base}_cond{cargs}) ({base}_body{cargs}) {tup})")
            elif s[0] == "return":
                raise TError("early return not supported (only the guard `if c { return e; }` in a function body)")
            else:
                raise TError(f"unsupported statement {s[0]}")


def parse_sig(sig):
    """-> name, const generic params, params, return type, all generic params [(name, is_const)],
    names of the `&mut` parameters"""
    toks = tokenize(strip_comments(sig))
    p = Parser(toks)
    while p.peek()[1] != "fn":
        p.next()
    p.next()
    name = p.next()[1]
    cps = []
    gps = []
    if p.accept("<"):
        start = True
        while not p.accept(">"):
            if p.accept("const"):
                cps.append(p.next()[1])
                gps.append((cps[-1], True))
                p.expect(":")
                p.parse_type()
                start = False
            elif p.accept(","):
                start = True
            else:
                tok = p.next()[1]
                if start:
                    gps.append((tok, False))
                start = False
    p.expect("(")
    params = []
    mutrefs = []
    while not p.accept(")"):
        p.accept("&")
        p.accept("mut")
        n = p.next()[1]
        if n == "self":
            params.append(("self_", "Self"))
        else:
            p.expect(":")
            if p.peek()[1] == "&" and p.peek(1)[1] == "mut":
                mutrefs.append(n)
            params.append((n, p.parse_type()))
        p.accept(",")
    ret = None
    if p.accept("->"):
        ret = p.parse_type()
    return name, cps, params, ret, gps, mutrefs


# ---------------------------------------------------------------------------------------------
# "lanes": arrays of field elements that are processed pointwise -> one lane
# ---------------------------------------------------------------------------------------------
def _matching(src, i, op="(", cl=")"):
    """index of the bracket matching the one at src[i]"""
    d = 0
    while True:
        d += (src[i] == op) - (src[i] == cl)
        if d == 0:
            return i
        i += 1


def lanes_rewrite(body):
    """source-level rewriting of the pointwise idioms (every array of the function is one lane):
         A.iter_mut().for_each(|t| *t = EXPR)                  =>  A = EXPR[t := A];
         A.iter_mut().zip(B).for_each(|(r, t)| *r OP= t)        =>  A OP= B;
         for (i, s) in A.iter_mut().enumerate() { BODY }        =>  BODY[X[i] := X, *s := A]
       anything else that mentions iterators/closures is rejected."""
    out = body
    while True:
        m = re.search(r"\b(\w+)\s*\.iter_mut\(\)\s*\.for_each\(", out)
        if not m:
            break
        e = _matching(out, m.end() - 1)
        inner = out[m.end():e]
        c = re.match(r"\s*\|(\w+)\|\s*\*\s*(\w+)\s*=\s*(.*)$", inner, flags=re.S)
        if not c or c.group(1) != c.group(2):
            raise TError(f"lanes: unsupported closure {inner!r}")
        expr = re.sub(r"\b" + re.escape(c.group(1)) + r"\b", m.group(1), c.group(3).strip())
        rest = out[e + 1:]
        rest = rest[1:] if rest.startswith(";") else rest
        out = out[:m.start()] + f"{m.group(1)} = {expr};" + rest
    while True:
        m = re.search(r"\b(\w+)\s*\.iter_mut\(\)\s*\.zip\((\w+)\)\s*\.for_each\(", out)
        if not m:
            break
        e = _matching(out, m.end() - 1)
        inner = out[m.end():e]
        c = re.match(r"\s*\|\((\w+),\s*(\w+)\)\|\s*\*\s*(\w+)\s*(\*=|\+=|-=)\s*(\w+)\s*$", inner, flags=re.S)
        if not c or c.group(1) != c.group(3) or c.group(2) != c.group(5):
            raise TError(f"lanes: unsupported closure {inner!r}")
        rest = out[e + 1:]
        rest = rest[1:] if rest.startswith(";") else rest
        out = out[:m.start()] + f"{m.group(1)} {c.group(4)} {m.group(2)};" + rest
    while True:
        m = re.search(r"\bfor\s*\((\w+),\s*(\w+)\)\s*in\s*(\w+)\s*\.iter_mut\(\)\s*\.enumerate\(\)\s*\{", out)
        if not m:
            break
        e = _matching(out, m.end() - 1, "{", "}")
        inner = out[m.end():e]
        i, sv, arr = m.group(1), m.group(2), m.group(3)
        inner = re.sub(r"\[\s*" + re.escape(i) + r"\s*\]", "", inner)
        inner = re.sub(r"\*\s*" + re.escape(sv) + r"\b", arr, inner)
        if re.search(r"\b(" + re.escape(i) + "|" + re.escape(sv) + r")\b", inner):
            raise TError("lanes: loop variable used outside `x[i]` / `*s`")
        out = out[:m.start()] + inner + out[e + 1:]
    if re.search(r"iter|\|", out):
        raise TError("lanes: an iterator/closure idiom was not recognised")
    return out


def translate(spec):
    srcs = {}

    def source(path):
        if path not in srcs:
            srcs[path] = strip_comments(open(os.path.join(REPO, path)).read())
        return srcs[path]
    files = []
    for fn in spec["fns"]:
        f = fn.get("file", spec.get("file"))
        if f not in files:
            files.append(f)
    out = [f"/- GENERATED by tools/rs2lean.py from {', '.join(files)} — do not edit; regenerated on every check run. -/",
           "import Wf.Model.FieldOps"] + [f"import {m}" for m in spec.get("imports", [])] + [f"namespace {spec['namespace']}", ""]
    consts = {}
    for c in spec.get("consts", []):
        cname, cfile = (c, spec.get("file")) if isinstance(c, str) else c
        ty, val = find_const(source(cfile), cname)
        toks = tokenize(val)
        e = Parser(toks).parse_expr()
        g = Gen(spec, {"mode": "kernel"}, consts, {})
        l, t = g.expr(e, {}, ty)
        out.append(f"def {cname} : {lean_ty(ty, None)} := {l}")
        consts[cname] = (ty, cname)
    out.append("")
    fnsigs = {}
    for k, v in spec.get("extern", {}).items():      # functions translated by another spec (see "imports")
        fnsigs[k] = tuple(v)
    for fn in spec["fns"]:
        fpath = fn.get("file", spec.get("file"))
        sig, body = find_fn(source(fpath), fn.get("anchor"), fn["name"])
        name, cps, params, ret, gps, mutrefs = parse_sig(sig)
        cps = [c for c in cps if c not in fn.get("drop_consts", [])]
        if fn.get("lanes"):
            body = lanes_rewrite(body)
        g = Gen(spec, fn, consts, fnsigs)
        env = {}
        binders = []
        if fn["mode"] == "formula":
            binders.append("{F : Type} (ops : Wf.FieldOps F)")
        for cp in cps:
            env[cp] = (cp, "nat")
            binders.append(f"({cp} : Nat)")
        ptys = []
        for n, t in params:
            nt = g.norm_ty(t)
            ptys.append(nt)
            env[n if n != "self_" else "self"] = (n, nt)
            binders.append(f"({n} : {lean_ty(nt, g.elem)})")
        toks = tokenize(body)
        blk = Parser(toks).parse_block()
        if ret is None and len(mutrefs) == 1 and blk[1] is None:
            # `fn f(state: &mut T, ..)`: the function returns the final value of `state`
            rty = env[mutrefs[0]][1]
            blk = (blk[0], ("path", [mutrefs[0]], []))
        elif ret is None and len(mutrefs) == 1 and fn.get("lanes"):
            # the body is a single pointwise statement written as the tail expression
            rty = env[mutrefs[0]][1]
            blk = (blk[0] + [("expr", blk[1])], ("path", [mutrefs[0]], []))
        else:
            rty = g.norm_ty(ret)
        l, t = g.block(blk, env, rty, fn_body=True)
        if g.ity(t) != g.ity(rty) and t != rty:
            raise TError(f"{fn['name']}: body has type {t!r}, signature says {rty!r}")
        lname = fn.get("lean", fn["name"])
        out.extend(g.aux)
        out.append(f"/-- `{fpath}` :: `{fn.get('anchor') or 'fn'}` :: `{fn['name']}` -/" if "file" in fn
                   else f"/-- `{fn.get('anchor') or 'fn'}` :: `{fn['name']}` -/")
        out.append(f"def {lname} {' '.join(binders)} : {lean_ty(rty, g.elem)} :=")
        out.append("  " + l.replace("\n", "\n  "))
        out.append("")
        fnsigs[fn.get("key", fn["name"])] = (lname, ptys, rty, cps, fn["mode"], gps)
    out.append(f"end {spec['namespace']}")
    return "\n".join(out) + "\n"


def eval_nat_const(src, name, env, anchor=None):
    start = src.find(anchor) if anchor else 0
    if start < 0:
        raise TError(f"anchor not found: {anchor!r}")
    m = re.compile(r"\bconst\s+" + re.escape(name) + r"\s*:\s*[A-Za-z0-9_:<>]+\s*=\s*([^;]+);").search(src, start)
    if not m:
        raise TError(f"const {name} not found")
    e = m.group(1).strip()
    while True:
        m2 = re.match(r"^(?:Self|BaseElement)(?:::new)?\s*\((.*)\)$", e, flags=re.S)
        if not m2:
            break
        e = m2.group(1).strip()
    e = re.sub(r"(u8|u16|u32|u64|u128|usize)$", "", e.replace("_", "")) if re.match(r"^[0-9]", e) else e
    if re.match(r"^(0x[0-9a-fA-F]+|[0-9]+)$", e):
        return int(e, 0)
    if e in env:
        return env[e]
    # simple arithmetic over earlier constants and range ends: `RATE_RANGE.end - RATE_RANGE.start`
    def sub(m):
        key = m.group(0).replace(".", "_")
        if key not in env:
            raise TError(f"const {name}: unknown name {m.group(0)!r}")
        return str(env[key])
    e2 = re.sub(r"[A-Za-z_][A-Za-z0-9_]*(?:\.(?:start|end))?", sub, e)
    if re.match(r"^[0-9+\-* ()]+$", e2):
        return int(eval(e2, {"__builtins__": {}}))
    raise TError(f"const {name}: cannot evaluate {e!r}")


def find_range(src, name):
    m = re.search(r"\bconst\s+" + re.escape(name) + r"\s*:\s*Range<usize>\s*=\s*([0-9_]+)\s*\.\.\s*([0-9_]+)\s*;", src)
    if not m:
        raise TError(f"range const {name} not found")
    return int(m.group(1).replace("_", "")), int(m.group(2).replace("_", ""))


def find_table(src, name):
    """`const NAME: [[BaseElement; W]; H] = [[BaseElement::new(lit), ..], ..];` -> list of rows"""
    m = re.search(r"\bconst\s+" + re.escape(name) + r"\s*:\s*\[\s*\[\s*BaseElement\s*;\s*(\w+)\s*\]\s*;\s*(\w+)\s*\]\s*=\s*\[", src)
    if not m:
        raise TError(f"table {name} not found")
    e = _matching(src, m.end() - 1, "[", "]")
    body = src[m.end():e]
    rows = []
    i = 0
    while True:
        j = body.find("[", i)
        if j < 0:
            break
        if body[i:j].strip(" \n\t,") != "":
            raise TError(f"table {name}: unexpected text {body[i:j]!r}")
        k = _matching(body, j, "[", "]")
        row = body[j + 1:k]
        vals = re.findall(r"BaseElement::new\(\s*([0-9][0-9_]*|0x[0-9a-fA-F_]+)\s*\)", row)
        if re.sub(r"BaseElement::new\(\s*(?:[0-9][0-9_]*|0x[0-9a-fA-F_]+)\s*\)", "", row).strip(" \n\t,") != "":
            raise TError(f"table {name}: row is not a list of BaseElement::new(literal)")
        rows.append([int(v.replace("_", ""), 0) for v in vals])
        i = k + 1
    if body[i:].strip(" \n\t,") != "":
        raise TError(f"table {name}: unexpected trailing text")
    return m.group(1), m.group(2), rows


def translate_natconsts(spec):
    """numeric constants (moduli, generators, roots of unity, two-adicity) as Lean `Nat` literals"""
    out = ["/- GENERATED by tools/rs2lean.py — do not edit; regenerated on every check run. -/",
           f"namespace {spec['namespace']}", ""]
    for grp in spec["groups"]:
        src = strip_comments(open(os.path.join(REPO, grp["file"])).read())
        env = {}
        out.append(f"namespace {grp['ns']}   -- {grp['file']}")
        for c in grp["consts"]:
            name, anchor = (c, None) if isinstance(c, str) else c
            v = eval_nat_const(src, name, env, anchor)
            env[name] = v
            out.append(f"def {name} : Nat := {v}")
        for r in grp.get("ranges", []):
            lo, hi = find_range(src, r)
            env[r + "_start"], env[r + "_end"] = lo, hi
            out.append(f"def {r}_start : Nat := {lo}")
            out.append(f"def {r}_end : Nat := {hi}")
        for c in grp.get("derived", []):
            v = eval_nat_const(src, c, env)
            env[c] = v
            out.append(f"def {c} : Nat := {v}")
        for t in grp.get("tables", []):
            w, h, rows = find_table(src, t)
            for dim, n in ((w, None), (h, len(rows))):
                if dim not in env and not dim.isdigit():
                    raise TError(f"table {t}: dimension {dim} is not a translated constant")
            wv = env[w] if w in env else int(w)
            hv = env[h] if h in env else int(h)
            if len(rows) != hv or any(len(r) != wv for r in rows):
                raise TError(f"table {t}: shape differs from the declared [[_; {w}]; {h}]")
            out.append(f"/-- `{t}`: {hv} rows of {wv} `BaseElement::new(literal)` -/")
            out.append(f"def {t} : List (List Nat) := [")
            out.append(",\n".join("  [" + ", ".join(str(v) for v in r) + "]" for r in rows) + "]")
        out.append(f"end {grp['ns']}")
        out.append("")
    out.append(f"end {spec['namespace']}")
    return "\n".join(out) + "\n"


def main():
    sys.path.insert(0, os.path.join(VERIF, "tools"))
    from rs2lean_specs import SPECS
    names = sys.argv[1:] or list(SPECS)
    rc = 0
    for n in names:
        spec = SPECS[n]
        dst = os.path.join(VERIF, "lean", "Wf", "Gen", spec["out"])
        try:
            text = translate_natconsts(spec) if spec.get("kind") == "natconsts" else translate(spec)
        except TError as ex:
            print(f"rs2lean: {n}: TRANSLATION FAILED: {ex}")
            rc = 1
            continue
        old = open(dst).read() if os.path.exists(dst) else None
        if old != text:
            with open(dst, "w") as fh:
                fh.write(text)
            print(f"rs2lean: {n}: regenerated {dst}")
        else:
            print(f"rs2lean: {n}: unchanged")
    return rc


if __name__ == "__main__":
    sys.exit(main())
