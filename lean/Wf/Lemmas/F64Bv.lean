/-
Bit-level facts about the generated f64 kernels (`Wf.Gen.F64`), each closed by `bv_decide`
(SAT + LRAT certificate; adds one `._native.bv_decide.ax_*` axiom per lemma, listed in the evidence).
All are quantifier-free statements over ALL 64/128-bit inputs.
-/
import Wf.Gen.F64
import Std.Tactic.BVDecide
namespace Wf.F64
open Wf.Gen.F64

/-- widen to 65 / 192 bits so that sums cannot wrap -/
abbrev z65 (x : BitVec 64) : BitVec 65 := x.setWidth 65
abbrev z192 (x : BitVec 64) : BitVec 192 := x.setWidth 192

theorem add_bv (a b : BitVec 64) (ha : a < M) (hb : b < M) :
    add a b < M ∧ (z65 (add a b) = z65 a + z65 b ∨ z65 (add a b) + z65 M = z65 a + z65 b) := by
  unfold add M z65 at *
  bv_decide

theorem sub_bv (a b : BitVec 64) (ha : a < M) (hb : b < M) :
    sub a b < M ∧ (z65 (sub a b) + z65 b = z65 a ∨ z65 (sub a b) + z65 b = z65 a + z65 M) := by
  unfold sub M z65 at *
  bv_decide

/-- the Montgomery quotient digit and the borrow flag used by `mont_red_cst` -/
def montA (x : BitVec 128) : BitVec 64 := x.setWidth 64 + (x.setWidth 64 <<< 32)
def montB (x : BitVec 128) : BitVec 64 :=
  (montA x - (montA x >>> 32)) - (BitVec.ofBool (BitVec.ult (montA x) (x.setWidth 64))).setWidth 64
def montC (x : BitVec 128) : Bool := BitVec.ult ((x >>> 64).setWidth 64) (montB x)

/-- `mont_red_cst` is a field subtraction of the Montgomery correction from the high limb -/
theorem mont_red_eq_sub (x : BitVec 128) :
    mont_red_cst x = sub ((x >>> 64).setWidth 64) (montB x) := by
  unfold mont_red_cst sub montB montA
  bv_decide

theorem montB_lt (x : BitVec 128) : montB x < M := by
  unfold montB montA M
  bv_decide

/-- exact integer identity behind Montgomery reduction: b·2^64 + xl = a·M,
    with a·M written with shifts (a·2^64 − a·2^32 + a); 192-bit words so that no term wraps. -/
theorem mont_identity_bv (x : BitVec 128) :
    (z192 (montB x) <<< 64) + z192 (x.setWidth 64) + (z192 (montA x) <<< 32)
      = (z192 (montA x) <<< 64) + z192 (montA x) := by
  unfold montB montA z192
  bv_decide

theorem mont_to_int_bv (x : BitVec 64) : mont_to_int x = mont_red_cst (x.setWidth 128) := by
  unfold mont_to_int mont_red_cst
  bv_decide

theorem equals_bv (a b : BitVec 64) : (equals a b = 0xffffffffffffffff#64) ↔ a = b := by
  unfold equals
  bv_decide

/-- the tail of `mul_small`: folding a 96-bit product -/
def smallFold (s : BitVec 128) : BitVec 64 :=
  let s_hi := (s >>> 64).setWidth 64
  let s_lo := s.setWidth 64
  let z := (s_hi <<< 32) - s_hi
  let res := s_lo + z
  let over := BitVec.ult (s_lo + z) s_lo
  let res := res + BitVec.setWidth 64 (0#32 - (BitVec.ofBool over).setWidth 32)
  if BitVec.ult res M then res else res - M

/-- for s < 2^96: result < M and result + k·M = s_lo + s_hi·(2^32−1) for some k ∈ {0,1,2} -/
theorem smallFold_bv (s : BitVec 128) (hs : s < 0x1000000000000000000000000#128) :
    smallFold s < M ∧
    (let t := z192 (s.setWidth 64) + (z192 ((s >>> 64).setWidth 64) <<< 32) - z192 ((s >>> 64).setWidth 64)
     z192 (smallFold s) = t ∨ z192 (smallFold s) + z192 M = t ∨ z192 (smallFold s) + z192 M + z192 M = t) := by
  unfold smallFold M z192 at *
  bv_decide

end Wf.F64
