/-
C16 helper lemmas: the reference permutation is a bijection on states over `ZMod p`.
  * (x^a)^b = x in `ZMod p` when a·b ≡ 1 (mod p − 1)   (Fermat)
  * matVec A (matVec B v) = matVec (A·B) v, with the product evaluated on the generated tables
    over the integers mod p (`decide`) and transported to `ZMod p`
  * hence every half round has a two-sided inverse.
-/
import Wf.Lemmas.RescueWord
import Mathlib.FieldTheory.Finite.Basic
namespace Wf.Rescue
open Wf.Gen

/-! ## row-wise matrix product, generic in the field operations -/

def smulRow {F} (ops : FieldOps F) (a : F) (b : List F) : List F := b.map (ops.mul a)

/-- Σ_k a_k · B_k (a row vector times a matrix given by its rows); `n` = number of columns -/
def vecMat {F} (ops : FieldOps F) (n : Nat) : List F → List (List F) → List F
  | a :: as, b :: bs => addVec ops (smulRow ops a b) (vecMat ops n as bs)
  | [], _ => List.replicate n ops.zero
  | _ :: _, [] => List.replicate n ops.zero

/-- A·B, row by row -/
def matMul {F} (ops : FieldOps F) (n : Nat) (A B : List (List F)) : List (List F) := A.map (fun a => vecMat ops n a B)

def idMat {F} (ops : FieldOps F) (n : Nat) : List (List F) :=
  (List.range n).map (fun i => (List.range n).map (fun j => if i = j then ops.one else ops.zero))

section rel
variable {F G : Type} {o1 : FieldOps F} {o2 : FieldOps G} {R : F → G → Prop}

theorem replicate_rel {a : F} {x : G} (h : R a x) : ∀ n, List.Forall₂ R (List.replicate n a) (List.replicate n x)
  | 0 => .nil
  | n + 1 => .cons h (replicate_rel h n)

theorem vecMat_rel (h : OpsRel o1 o2 R) (n : Nat) : ∀ {a a' B B'}, List.Forall₂ R a a' →
    List.Forall₂ (List.Forall₂ R) B B' → List.Forall₂ R (vecMat o1 n a B) (vecMat o2 n a' B')
  | _, _, _, _, .nil, _ => by simp only [vecMat]; exact replicate_rel h.zero n
  | _, _, _, _, .cons _ _, .nil => by simp only [vecMat]; exact replicate_rel h.zero n
  | _, _, _, _, .cons ha has, .cons hb hbs => by
    simp only [vecMat]
    exact addVec_rel h (map_rel (fun hx => h.mul ha hx) hb) (vecMat_rel h n has hbs)

theorem matMul_rel (h : OpsRel o1 o2 R) (n : Nat) {B B'} (hB : List.Forall₂ (List.Forall₂ R) B B') :
    ∀ {A A'}, List.Forall₂ (List.Forall₂ R) A A' → List.Forall₂ (List.Forall₂ R) (matMul o1 n A B) (matMul o2 n A' B')
  | _, _, .nil => .nil
  | _, _, .cons ha has => .cons (vecMat_rel h n ha hB) (matMul_rel h n hB has)

theorem tableOf_rel (h : OpsRel o1 o2 R) : ∀ (t : List (List Nat)), tableOk t →
    List.Forall₂ (List.Forall₂ R) (tableOf o1 t) (tableOf o2 t)
  | [], _ => .nil
  | r :: t, ht => .cons (ofNat_row_rel h r (ht r (by simp))) (tableOf_rel h t (fun r' hr' => ht r' (by simp [hr'])))

theorem idMat_rel (h : OpsRel o1 o2 R) (n : Nat) : List.Forall₂ (List.Forall₂ R) (idMat o1 n) (idMat o2 n) := by
  unfold idMat
  apply forall2_map_same
  intro i _
  apply forall2_map_same
  intro j _
  split
  · exact h.one
  · exact h.zero

end rel

/-- transport of a computed product from the integers mod p to `ZMod p` -/
theorem matMul_transfer (p : Nat) [NeZero p] (n : Nat) (A B : List (List Nat)) (hA : tableOk A) (hB : tableOk B)
    (h : matMul (natOps p) n (tableOf (natOps p) A) (tableOf (natOps p) B) = idMat (natOps p) n) :
    matMul (zops p) n (tableOf (zops p) A) (tableOf (zops p) B) = idMat (zops p) n := by
  have h1 := matMul_rel (natRel p) n (tableOf_rel (natRel p) B hB) (tableOf_rel (natRel p) A hA)
  have h2 := idMat_rel (natRel p) n
  rw [h] at h1
  generalize matMul (zops p) n (tableOf (zops p) A) (tableOf (zops p) B) = X at h1
  generalize idMat (zops p) n = Y at h2
  generalize idMat (natOps p) n = N at h1 h2
  have row : ∀ {ns : List Nat} {x y : List (ZMod p)}, List.Forall₂ (NR p) ns x → List.Forall₂ (NR p) ns y → x = y := by
    intro ns x y hx
    induction hx generalizing y with
    | nil => intro hy; cases hy; rfl
    | cons h1 _ ih =>
      intro hy
      cases hy with
      | cons h2 t2 => rw [ih t2, ← h1.2, ← h2.2]
  induction h1 generalizing Y with
  | nil => cases h2; rfl
  | cons hr _ ih =>
    cases h2 with
    | cons hr2 t2 => rw [ih _ t2, row hr hr2]

/-! ## the algebra of `dot` / `matVec` in a commutative ring -/

section ring
variable {K : Type} [CommRing K] [DecidableEq K] (inv : K → K)

theorem foldl_add_sum (xs : List K) (a : K) : xs.foldl (· + ·) a = a + xs.sum := by
  induction xs generalizing a with
  | nil => simp
  | cons x xs ih => simp only [List.foldl_cons, List.sum_cons]; rw [ih]; ring

theorem dot_sum (row v : List K) : dot (ringOps K inv) row v = (List.zipWith (· * ·) row v).sum := by
  simp only [dot, ringOps]
  rw [foldl_add_sum]; ring

theorem dot_cons (a : K) (x : List K) (c : K) (v : List K) :
    dot (ringOps K inv) (a :: x) (c :: v) = a * c + dot (ringOps K inv) x v := by
  simp only [dot_sum, List.zipWith_cons_cons, List.sum_cons]

theorem dot_nil_left (v : List K) : dot (ringOps K inv) [] v = 0 := by simp [dot_sum]
theorem dot_nil_right (x : List K) : dot (ringOps K inv) x [] = 0 := by simp [dot_sum]

theorem dot_smul (a : K) : ∀ (b v : List K), dot (ringOps K inv) (smulRow (ringOps K inv) a b) v = a * dot (ringOps K inv) b v
  | [], v => by simp [smulRow, dot_nil_left]
  | _ :: _, [] => by simp [dot_nil_right]
  | b0 :: b, c :: v => by
    have ih := dot_smul a b v
    simp only [smulRow, List.map_cons] at ih ⊢
    rw [dot_cons, dot_cons, ih]
    simp only [ringOps]; ring

theorem dot_add : ∀ (x y v : List K), x.length = y.length →
    dot (ringOps K inv) (addVec (ringOps K inv) x y) v = dot (ringOps K inv) x v + dot (ringOps K inv) y v
  | [], [], v, _ => by simp [addVec, dot_nil_left]
  | _ :: _, _ :: _, [], _ => by simp [dot_nil_right]
  | a :: x, b :: y, c :: v, h => by
    have ih := dot_add x y v (by simpa using h)
    simp only [addVec, List.zipWith_cons_cons] at ih ⊢
    rw [dot_cons, dot_cons, dot_cons, ih]
    simp only [ringOps]; ring

theorem dot_zero (n : Nat) (v : List K) : dot (ringOps K inv) (List.replicate n (ringOps K inv).zero) v = 0 := by
  induction n generalizing v with
  | zero => simp [dot_nil_left]
  | succ n ih =>
    cases v with
    | nil => simp [dot_nil_right]
    | cons c v => rw [List.replicate_succ, dot_cons, ih]; simp [ringOps]

theorem vecMat_length (n : Nat) : ∀ (a : List K) (B : List (List K)), (∀ b ∈ B, b.length = n) →
    (vecMat (ringOps K inv) n a B).length = n
  | [], _, _ => by simp [vecMat]
  | _ :: _, [], _ => by simp [vecMat]
  | a :: as, b :: bs, h => by
    simp only [vecMat, addVec, List.length_zipWith, smulRow, List.length_map]
    rw [vecMat_length n as bs (fun b' hb' => h b' (by simp [hb'])), h b (by simp)]
    simp

/-- a · (B v) = (a B) · v -/
theorem dot_matVec (n : Nat) (v : List K) : ∀ (a : List K) (B : List (List K)), (∀ b ∈ B, b.length = n) →
    dot (ringOps K inv) a (matVec (ringOps K inv) B v) = dot (ringOps K inv) (vecMat (ringOps K inv) n a B) v
  | [], _, _ => by simp [vecMat, dot_nil_left, dot_zero]
  | _ :: _, [], _ => by simp [vecMat, matVec, dot_nil_right, dot_zero]
  | a :: as, b :: bs, h => by
    have ih := dot_matVec n v as bs (fun b' hb' => h b' (by simp [hb']))
    simp only [matVec, List.map_cons] at ih ⊢
    simp only [vecMat]
    rw [dot_cons, ih, dot_add, dot_smul]
    simp only [smulRow, List.length_map]
    rw [vecMat_length inv n as bs (fun b' hb' => h b' (by simp [hb'])), h b (by simp)]

theorem matVec_matVec (n : Nat) (A B : List (List K)) (v : List K) (hB : ∀ b ∈ B, b.length = n) :
    matVec (ringOps K inv) A (matVec (ringOps K inv) B v) = matVec (ringOps K inv) (matMul (ringOps K inv) n A B) v := by
  simp only [matVec, matMul, List.map_map]
  apply List.map_congr_left
  intro a _
  exact dot_matVec inv n v a B hB

theorem matVec_id12 (v : List K) (h : v.length = 12) : matVec (ringOps K inv) (idMat (ringOps K inv) 12) v = v := by
  match v, h with
  | [v0, v1, v2, v3, v4, v5, v6, v7, v8, v9, v10, v11], _ =>
    simp only [matVec, dot_sum]
    simp [idMat, List.range, List.range.loop, ringOps]

theorem matVec_id8 (v : List K) (h : v.length = 8) : matVec (ringOps K inv) (idMat (ringOps K inv) 8) v = v := by
  match v, h with
  | [v0, v1, v2, v3, v4, v5, v6, v7], _ =>
    simp only [matVec, dot_sum]
    simp [idMat, List.range, List.range.loop, ringOps]

theorem sub_add_vec : ∀ (x k : List K), x.length ≤ k.length →
    List.zipWith (ringOps K inv).sub (addVec (ringOps K inv) x k) k = x
  | [], _, _ => by simp [addVec]
  | _ :: _, [], h => by simp at h
  | a :: x, b :: k, h => by
    have ih := sub_add_vec x k (by simpa using h)
    simp only [addVec, List.zipWith_cons_cons] at ih ⊢
    rw [ih]; simp [ringOps]

theorem add_sub_vec : ∀ (x k : List K), x.length ≤ k.length →
    addVec (ringOps K inv) (List.zipWith (ringOps K inv).sub x k) k = x
  | [], _, _ => by simp [addVec]
  | _ :: _, [], h => by simp at h
  | a :: x, b :: k, h => by
    have ih := add_sub_vec x k (by simpa using h)
    simp only [addVec, List.zipWith_cons_cons] at ih ⊢
    rw [ih]; simp [ringOps]

end ring

/-! ## power maps in `ZMod p` -/

theorem pow_pow_inv (p : Nat) [Fact p.Prime] (a b : Nat) (h : a * b % (p - 1) = 1) (x : ZMod p) : (x ^ a) ^ b = x := by
  rw [← pow_mul]
  by_cases hx : x = 0
  · subst hx
    have : a * b ≠ 0 := by
      intro h0; rw [h0] at h; simp at h
    exact zero_pow this
  · have hk : a * b = (p - 1) * (a * b / (p - 1)) + 1 := by
      have := Nat.div_add_mod (a * b) (p - 1); omega
    rw [hk, pow_succ, pow_mul, ZMod.pow_card_sub_one_eq_one hx, one_pow, one_mul]

/-! ## inverse rounds -/

/-- everything that the bijection proof needs of the tables (all decidable facts) -/
structure InvOk (p : Nat) [NeZero p] (P : Params) (invMds : List (List Nat)) (n : Nat) : Prop where
  left : matMul (zops p) n (tableOf (zops p) invMds) (tableOf (zops p) P.mds) = idMat (zops p) n
  right : matMul (zops p) n (tableOf (zops p) P.mds) (tableOf (zops p) invMds) = idMat (zops p) n
  rowsM : ∀ r ∈ P.mds, r.length = n
  rowsI : ∀ r ∈ invMds, r.length = n
  lenM : P.mds.length = n
  lenI : invMds.length = n
  exps : P.alpha * P.invAlpha % (p - 1) = 1
  alphaLt : P.alpha < 2 ^ 64
  invAlphaLt : P.invAlpha < 2 ^ 64
  ark1 : ∀ r ∈ P.ark1, r.length = n
  ark2 : ∀ r ∈ P.ark2, r.length = n
  len1 : P.ark1.length = P.rounds
  len2 : P.ark2.length = P.rounds
  idv : ∀ v : List (ZMod p), v.length = n → matVec (zops p) (idMat (zops p) n) v = v

section inv
variable {p : Nat} [Fact p.Prime] [NeZero p] {P : Params} {invMds : List (List Nat)} {n : Nat}

theorem z_sub_add_vec (x k : List (ZMod p)) (h : x.length ≤ k.length) :
    List.zipWith (zops p).sub (addVec (zops p) x k) k = x := sub_add_vec _ x k h
theorem z_add_sub_vec (x k : List (ZMod p)) (h : x.length ≤ k.length) :
    addVec (zops p) (List.zipWith (zops p).sub x k) k = x := add_sub_vec _ x k h
theorem z_matVec_matVec (n : Nat) (A B : List (List (ZMod p))) (v : List (ZMod p)) (hB : ∀ b ∈ B, b.length = n) :
    matVec (zops p) A (matVec (zops p) B v) = matVec (zops p) (matMul (zops p) n A B) v := matVec_matVec _ n A B v hB
theorem z_pow (x : ZMod p) (a : Nat) (ha : a < 2 ^ 64) : pow (zops p) x a = x ^ a := pow_ring _ x a ha

theorem table_rows (t : List (List Nat)) (h : ∀ r ∈ t, r.length = n) : ∀ b ∈ tableOf (zops p) t, b.length = n := by
  intro b hb
  simp only [tableOf, List.mem_map] at hb
  obtain ⟨r, hr, rfl⟩ := hb
  simp [h r hr]

theorem map_pow_pow (a b : Nat) (ha : a < 2 ^ 64) (hb : b < 2 ^ 64) (h : a * b % (p - 1) = 1) (st : List (ZMod p)) :
    (st.map (fun x => pow (zops p) x a)).map (fun x => pow (zops p) x b) = st := by
  rw [List.map_map]
  conv => rhs; rw [← List.map_id st]
  apply List.map_congr_left
  intro x _
  simp only [Function.comp, z_pow _ _ ha, z_pow _ _ hb, id]
  exact pow_pow_inv p a b h x

theorem half_length (mds : List (List Nat)) (e : Nat) (ark st : List (ZMod p)) (hm : mds.length = n) (hk : ark.length = n) :
    (refHalf (zops p) mds e ark st).length = n := by
  simp [refHalf, addVec, matVec, tableOf, hm, hk]

theorem halfInv_length (im : List (List Nat)) (e : Nat) (ark st : List (ZMod p)) (hm : im.length = n) :
    (refHalfInv (zops p) im e ark st).length = n := by
  simp [refHalfInv, matVec, tableOf, hm]

/-- undo a half round -/
theorem halfInv_half (h : InvOk p P invMds n) (e e' : Nat) (he : e < 2 ^ 64) (he' : e' < 2 ^ 64)
    (hee : e * e' % (p - 1) = 1) (ark st : List (ZMod p)) (hk : ark.length = n) (hs : st.length = n) :
    refHalfInv (zops p) invMds e' ark (refHalf (zops p) P.mds e ark st) = st := by
  unfold refHalfInv refHalf
  have hl : (matVec (zops p) (tableOf (zops p) P.mds) (st.map (fun x => pow (zops p) x e))).length ≤ ark.length := by
    simp [matVec, tableOf, h.lenM, hk]
  rw [z_sub_add_vec _ _ hl, z_matVec_matVec n _ _ _ (table_rows (p := p) _ h.rowsM), h.left,
    h.idv (st.map (fun x => pow (zops p) x e)) (by simp [hs])]
  exact map_pow_pow e e' he he' hee st

/-- redo a half round -/
theorem half_halfInv (h : InvOk p P invMds n) (e e' : Nat) (he : e < 2 ^ 64) (he' : e' < 2 ^ 64)
    (hee : e' * e % (p - 1) = 1) (ark st : List (ZMod p)) (hk : ark.length = n) (hs : st.length = n) :
    refHalf (zops p) P.mds e ark (refHalfInv (zops p) invMds e' ark st) = st := by
  unfold refHalfInv refHalf
  rw [map_pow_pow e' e he' he hee]
  have hl : (List.zipWith (zops p).sub st ark).length = n := by simp [hs, hk]
  rw [z_matVec_matVec n _ _ _ (table_rows (p := p) _ h.rowsI), h.right, h.idv _ hl]
  exact z_add_sub_vec _ _ (by omega)

theorem rowOf_length (t : List (List Nat)) (ht : ∀ r ∈ t, r.length = n) {i : Nat} (hi : i < t.length) :
    (rowOf (zops p) t i).length = n := by
  simp only [rowOf, List.length_map]
  rw [List.getD_eq_getElem?_getD, List.getElem?_eq_getElem hi]
  exact ht _ (List.getElem_mem hi)

theorem roundInv_round (h : InvOk p P invMds n) (st : List (ZMod p)) (hs : st.length = n) (i : Nat) (hi : i < P.rounds) :
    refRoundInv (zops p) P invMds (refRound (zops p) P st i) i = st ∧ (refRound (zops p) P st i).length = n := by
  have k1 := rowOf_length (p := p) P.ark1 h.ark1 (h.len1 ▸ hi)
  have k2 := rowOf_length (p := p) P.ark2 h.ark2 (h.len2 ▸ hi)
  unfold refRoundInv refRound
  have l1 := half_length P.mds P.alpha (rowOf (zops p) P.ark1 i) st h.lenM k1
  refine ⟨?_, half_length _ _ _ _ h.lenM k2⟩
  rw [halfInv_half h P.invAlpha P.alpha h.invAlphaLt h.alphaLt (by rw [Nat.mul_comm]; exact h.exps) _ _ k2 l1,
    halfInv_half h P.alpha P.invAlpha h.alphaLt h.invAlphaLt h.exps _ _ k1 hs]

theorem round_roundInv (h : InvOk p P invMds n) (st : List (ZMod p)) (hs : st.length = n) (i : Nat) (hi : i < P.rounds) :
    refRound (zops p) P (refRoundInv (zops p) P invMds st i) i = st ∧ (refRoundInv (zops p) P invMds st i).length = n := by
  have k1 := rowOf_length (p := p) P.ark1 h.ark1 (h.len1 ▸ hi)
  have k2 := rowOf_length (p := p) P.ark2 h.ark2 (h.len2 ▸ hi)
  unfold refRoundInv refRound
  have l1 := halfInv_length invMds P.alpha (rowOf (zops p) P.ark2 i) st h.lenI
  refine ⟨?_, halfInv_length _ _ _ _ h.lenI⟩
  rw [half_halfInv h P.alpha P.invAlpha h.alphaLt h.invAlphaLt (by rw [Nat.mul_comm]; exact h.exps) _ _ k1 l1,
    half_halfInv h P.invAlpha P.alpha h.invAlphaLt h.alphaLt h.exps _ _ k2 hs]

theorem foldl_undo {α σ : Type} (f g : σ → α → σ) (I : σ → Prop) (ok : α → Prop)
    (hfg : ∀ s i, I s → ok i → g (f s i) i = s ∧ I (f s i)) :
    ∀ (is : List α), (∀ i ∈ is, ok i) → ∀ s, I s → is.reverse.foldl g (is.foldl f s) = s
  | [], _, _, _ => rfl
  | i :: is, hok, s, hs => by
    simp only [List.foldl_cons, List.reverse_cons, List.foldl_append, List.foldl_nil]
    have h1 := hfg s i hs (hok i (by simp))
    rw [foldl_undo f g I ok hfg is (fun j hj => hok j (by simp [hj])) _ h1.2, h1.1]

theorem foldl_redo {α σ : Type} (f g : σ → α → σ) (I : σ → Prop) (ok : α → Prop)
    (hfg : ∀ s i, I s → ok i → f (g s i) i = s ∧ I (g s i)) :
    ∀ (is : List α), (∀ i ∈ is, ok i) → ∀ s, I s → is.foldl f (is.reverse.foldl g s) = s := by
  intro is
  induction is using List.reverseRecOn with
  | nil => intro _ _ _; rfl
  | append_singleton is i ih =>
    intro hok s hs
    simp only [List.reverse_append, List.reverse_singleton, List.singleton_append, List.foldl_cons, List.foldl_append,
      List.foldl_nil]
    have h1 := hfg s i hs (hok i (by simp))
    rw [ih (fun j hj => hok j (by simp [hj])) _ h1.2, h1.1]

/-- the inverse permutation undoes the reference permutation -/
theorem permInv_perm (h : InvOk p P invMds n) (st : List (ZMod p)) (hs : st.length = n) :
    refPermInv (zops p) P invMds (refPerm (zops p) P st) = st :=
  foldl_undo (refRound (zops p) P) (refRoundInv (zops p) P invMds) (fun s => s.length = n) (fun i => i < P.rounds)
    (fun s i hs hi => roundInv_round h s hs i hi) _ (fun i hi => List.mem_range.mp hi) st hs

theorem perm_permInv (h : InvOk p P invMds n) (st : List (ZMod p)) (hs : st.length = n) :
    refPerm (zops p) P (refPermInv (zops p) P invMds st) = st :=
  foldl_redo (refRound (zops p) P) (refRoundInv (zops p) P invMds) (fun s => s.length = n) (fun i => i < P.rounds)
    (fun s i hs hi => round_roundInv h s hs i hi) _ (fun i hi => List.mem_range.mp hi) st hs

end inv

/-- the circulant matrix with the given first row (row i = first row rotated right by i) -/
def circulant (row : List Nat) : List (List Nat) := (List.range row.length).map (fun i => row.rotateRight i)

/-- Σ (k+i)·entry_i -/
def weightedSum : Nat → List Nat → Nat
  | _, [] => 0
  | k, c :: cs => k * c + weightedSum (k + 1) cs

/-- position-weighted checksum Σ (i+1)·entry_i mod p over all tables of a hasher (pins the tables) -/
def tableChecksum (P : Params) (extra : List (List Nat)) : Nat :=
  weightedSum 1 (P.mds ++ extra ++ P.ark1 ++ P.ark2).flatten % P.p

/-! ## certificate: an inverse of Rp62_248's MDS matrix (the crate has none outside its tests);
computed offline, CHECKED by `Props.C16.inv_mds_rp62` -/
def rp62InvMds : List (List Nat) := [
  [2543214393608729353, 3762795846116643991, 4438849810642161459, 4298755612766639084, 4455010435134145486, 2362995963082075917, 3356376909291513628, 1630917871591059121, 3316515321334287269, 859593051542731802, 2975654946305759059, 2892319802840624528],
  [368283692631198345, 3821882031952991751, 3476552368135263448, 3958068798704093740, 1731451906094024936, 2847153232177801147, 2360599011628745871, 2987743978482994531, 2271224717401259993, 3539409508046580597, 477345364064277180, 4441660359405092821],
  [1568827540912063778, 4332207950420739467, 2481345451872945893, 4528287854509273618, 3920212211782097284, 3362607288243330639, 207288330759570062, 3733211422055142166, 1813990736143733218, 1016194247100592142, 1587761984087005855, 3729439950837830238],
  [2179848979073563646, 3120561316127378957, 3039050561496358752, 3576726000456613630, 3049129121130371719, 2412055299550347430, 3391029755605512982, 2076718207625898861, 723330253485555993, 4000022283803792044, 3825069463936394724, 887833726432535622],
  [2645560821312685574, 3260907069637758879, 4040435960770752447, 3462761707136273209, 80171325581462721, 3690681005689464516, 4406904204047112988, 2941786071004520786, 4465566812605546108, 1967903017320603492, 3827361284742779322, 2102960684407410655],
  [4418033832635420588, 1291509756869726286, 3393254948165828982, 3316225222140730771, 4596469248279018466, 2454404485473448867, 1637164548295097982, 903064565693201532, 3078633957790980167, 1063516675463167514, 3412634315134424247, 2716463412783278958],
  [4201664907110604111, 3529633094566816640, 243490173087670280, 374789816579644645, 3962883653017491306, 4299307123555753314, 878656984409763268, 4598779593735204381, 1940529055632632894, 3078755472919790983, 3869756673046568445, 1303128421062384093],
  [1295953197752500080, 1288773479846847920, 4238674408135814741, 1889423190079563019, 58438490826028, 1511069147316731888, 2595105675107098734, 2404032603520979119, 3123416769302320770, 823368413649637234, 1208862803941411730, 2679386850516500423],
  [413708217679758237, 197977288508044591, 2279669398710741663, 1827297735317476774, 3897472199280225832, 383481040474515038, 4285717414671885350, 1973784002452403107, 913435258711991714, 2609606920111745223, 2118128668281370612, 2157846833460073545],
  [426245806230104999, 488965953463523718, 3113611670630349332, 3041900213294428044, 583656723991564315, 2103714546455644827, 1960107369203103768, 3559289207403463951, 2477370050738085501, 1824777902859277717, 81964335816202060, 3396521197574483454],
  [619521384948335066, 2319306944618760804, 4377674142265065366, 2126458600008345713, 1690948185577240853, 3139952138857830261, 4350475476230085736, 2327157655730232015, 744916420647648974, 2791122571205405764, 2169008220204157453, 1013208232899170018],
  [4163288835884674935, 1408052361744926933, 3617341455374615327, 695710763989007220, 3430294246476878354, 4417692377407060358, 1909496136494135061, 3829184888236287376, 3141823874307132285, 2829082284041162764, 2257617713504303731, 581790031264140016]]

end Wf.Rescue
