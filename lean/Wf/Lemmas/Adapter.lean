/- Helper lemmas for the C27 refinement (core Lean only). -/
import Wf.Model.Adapter
namespace Wf
namespace Adapter

/-- every scheduled read returns at least one byte (an empty read is end-of-stream) -/
def NonEmptyChunks (s : Adapter) : Prop := ∀ c ∈ s.src, c ≠ []

/-- `guaranteed_eof` is only ever set once the stream is exhausted -/
def EofInv (s : Adapter) : Prop := s.eof = true → s.rbuf = [] ∧ s.src = []

theorem flatten_eq_nil_of_nonempty (L : List Bytes) (h : ∀ c ∈ L, c ≠ []) (hf : L.flatten = []) :
    L = [] := by
  cases L with
  | nil => rfl
  | cons c cs =>
    simp only [List.flatten_cons, List.append_eq_nil_iff] at hf
    exact absurd hf.1 (h c (by simp))

/-! ### fill -/

theorem fill_buffer (s : Adapter) : s.fill.buffer = s.buffer := by
  unfold fill buffer; split
  · split <;> rfl
  · rfl

theorem fill_abs (s : Adapter) : s.fill.abs = s.abs := by
  unfold fill
  split
  · rename_i h
    split
    · rfl
    · rename_i c cs hsrc
      have hr : s.rbuf = [] := by simpa using h
      simp [abs, buffer, hsrc, hr]
  · rfl

theorem fill_eof (s : Adapter) : s.fill.eof = s.eof := by
  unfold fill; split
  · split <;> rfl
  · rfl

theorem fill_pos (s : Adapter) : s.fill.pos = s.pos := by
  unfold fill; split
  · split <;> rfl
  · rfl

theorem fill_buf (s : Adapter) : s.fill.buf = s.buf := by
  unfold fill; split
  · split <;> rfl
  · rfl

theorem fill_cap (s : Adapter) : s.fill.cap = s.cap := by
  unfold fill; split
  · split <;> rfl
  · rfl

theorem fill_nonEmpty (s : Adapter) (h : NonEmptyChunks s) : NonEmptyChunks s.fill := by
  unfold fill; split
  · split
    · exact h
    · rename_i c cs hsrc
      intro x hx
      exact h x (by rw [hsrc]; simp [hx])
  · exact h

theorem fill_rbuf_nil (s : Adapter) (h : NonEmptyChunks s) (he : s.fill.rbuf = []) :
    s.rbuf = [] ∧ s.src = [] ∧ s.fill = s := by
  unfold fill at he ⊢
  split at he
  · rename_i hr
    have hr' : s.rbuf = [] := by simpa using hr
    split at he
    · rename_i hsrc
      simp [hr', hsrc, hr]
    · rename_i c cs hsrc
      simp only at he
      exact absurd he (h c (by rw [hsrc]; simp))
  · rename_i hr
    simp [he] at hr

theorem abs_of_drained (s : Adapter) (hr : s.rbuf = []) (hs : s.src = []) : s.abs = s.buffer := by
  simp [abs, hr, hs]

/-! ### absorb -/

theorem absorb_buffer (s : Adapter) : s.absorb.buffer = s.buffer ++ s.rbuf := by
  unfold absorb buffer
  by_cases h : s.pos > s.buf.length
  · simp only [h, if_true, List.drop_zero, List.nil_append]
    rw [List.drop_eq_nil_of_le (by omega)]; rfl
  · simp only [h, if_false]
    rw [List.drop_append_of_le_length (by omega)]

theorem absorb_rbuf (s : Adapter) : s.absorb.rbuf = [] := by
  unfold absorb; rfl

theorem absorb_src (s : Adapter) : s.absorb.src = s.src := by
  unfold absorb; split <;> rfl

theorem absorb_eof (s : Adapter) : s.absorb.eof = s.eof := by
  unfold absorb; split <;> rfl

/-! ### buffer_at_least -/

structure BalSpec (count : Nat) (b0 : Bytes) (e0 : Bool) (L : List Bytes) (r : Adapter × Bool) : Prop where
  rbuf : r.1.rbuf = []
  data : r.1.buffer ++ r.1.src.flatten = b0 ++ L.flatten
  ok : r.2 = true → r.1.buffer.length ≥ count
  fail : r.2 = false → r.1.src = [] ∧ r.1.buffer.length < count
  chunks : NonEmptyChunks r.1
  eof : r.1.eof = true → (e0 = true ∨ r.1.src = [])
  drained : L = [] → r.1.src = []

theorem balSrc_spec (count : Nat) (L : List Bytes) (hL : ∀ c ∈ L, c ≠ []) (s : Adapter)
    (hr : s.rbuf = []) : BalSpec count s.buffer s.eof L (balSrc count s L) := by
  induction L generalizing s with
  | nil =>
    unfold balSrc
    split
    · rename_i h
      exact ⟨hr, by simp [buffer], fun _ => h, fun h' => (by cases h'), (by intro c hc; cases hc),
        fun _ => Or.inr rfl, fun _ => rfl⟩
    · rename_i h
      exact ⟨hr, by simp [buffer], fun h' => (by cases h'), fun _ => ⟨rfl, by simpa [buffer] using h⟩,
        (by intro c hc; cases hc), fun _ => Or.inr rfl, fun _ => rfl⟩
  | cons c cs ih =>
    have hc : c ≠ [] := hL c (by simp)
    have hcs : ∀ x ∈ cs, x ≠ [] := fun x hx => hL x (by simp [hx])
    unfold balSrc
    split
    · rename_i h
      exact ⟨hr, by simp [buffer], fun _ => h, fun h' => (by cases h'), (by
        intro x hx; exact hL x hx), fun he => Or.inl he, fun h' => (by cases h')⟩
    · have hce : c.isEmpty = false := by
        cases c with
        | nil => exact absurd rfl hc
        | cons _ _ => rfl
      simp only [hce, Bool.false_eq_true, if_false]
      have hs' := ih hcs (absorb { s with rbuf := c, src := cs }) (absorb_rbuf _)
      rw [absorb_buffer, absorb_eof] at hs'
      refine ⟨hs'.rbuf, ?_, hs'.ok, hs'.fail, hs'.chunks, hs'.eof, fun h' => (by cases h')⟩
      rw [hs'.data]
      simp [buffer]

theorem bufferAtLeast_spec (count : Nat) (s : Adapter) (h : NonEmptyChunks s) :
    let r := bufferAtLeast count s
    r.1.abs = s.abs ∧ (r.2 = true → r.1.buffer.length ≥ count) ∧
    (r.2 = false → s.abs.length < count ∧ r.1.rbuf = [] ∧ r.1.src = []) ∧ NonEmptyChunks r.1 ∧
    (EofInv s → EofInv r.1) := by
  unfold bufferAtLeast
  split
  · rename_i hge
    exact ⟨rfl, fun _ => hge, fun h' => (by cases h'), h, fun x => x⟩
  · split
    · rename_i hr
      have hr' : s.rbuf = [] := by simpa using hr
      have sp := balSrc_spec count s.src h s hr'
      refine ⟨?_, sp.ok, ?_, sp.chunks, ?_⟩
      rotate_left 2
      · intro hinv he
        refine ⟨sp.rbuf, ?_⟩
        rcases sp.eof he with h0 | h0
        · exact sp.drained (hinv h0).2
        · exact h0
      · simp only [abs, sp.rbuf, hr', List.append_nil]; exact sp.data
      · intro hf
        have ⟨h1, h2⟩ := sp.fail hf
        refine ⟨?_, sp.rbuf, h1⟩
        have := sp.data
        rw [h1] at this
        simp only [abs, hr', List.append_nil]
        rw [← this]; simpa using h2
    · have sp := balSrc_spec count s.absorb.src (by rw [absorb_src]; exact h) s.absorb (absorb_rbuf s)
      have hd := sp.data
      have e : s.absorb.src.flatten = s.src.flatten := by rw [absorb_src]
      rw [absorb_buffer, e] at hd
      refine ⟨?_, sp.ok, ?_, sp.chunks, ?_⟩
      rotate_left 2
      · intro hinv he
        refine ⟨sp.rbuf, ?_⟩
        rcases sp.eof he with h0 | h0
        · rw [absorb_eof] at h0
          exact sp.drained (by rw [absorb_src]; exact (hinv h0).2)
        · exact h0
      · simp only [abs, sp.rbuf, List.append_nil]; exact hd
      · intro hf
        have ⟨h1, h2⟩ := sp.fail hf
        refine ⟨?_, sp.rbuf, h1⟩
        rw [h1] at hd
        simp only [abs]
        rw [← hd]; simpa using h2

/-! ### small facts about positions -/

theorem buffer_advance (s : Adapter) (n : Nat) :
    ({ s with pos := s.pos + n } : Adapter).buffer = s.buffer.drop n := by
  simp [buffer, List.drop_drop, Nat.add_comm]

theorem buffer_advance_rbuf (s : Adapter) (n : Nat) (r : Bytes) :
    ({ s with pos := s.pos + n, rbuf := r } : Adapter).buffer = s.buffer.drop n := by
  simp [buffer, List.drop_drop, Nat.add_comm]

theorem buffer_set_rbuf (s : Adapter) (r : Bytes) :
    ({ s with rbuf := r } : Adapter).buffer = s.buffer := rfl

theorem resetIfDrained_abs (s : Adapter) : s.resetIfDrained.abs = s.abs := by
  unfold resetIfDrained
  split
  · rename_i h
    have hb : s.buffer = [] := by
      have : s.buffer.isEmpty = true := by
        simp only [Bool.and_eq_true] at h; exact h.1
      simpa using this
    simp only [abs, buffer] at hb ⊢
    rw [hb]; simp
  · rfl

theorem resetIfDrained_src (s : Adapter) : s.resetIfDrained.src = s.src := by
  unfold resetIfDrained; split <;> rfl

end Adapter
end Wf
