/-
Helper lemmas for C13 (polynomial helpers), part 1: the reading `ofCoeffs` of a coefficient list as
a Mathlib polynomial, evaluation (Horner), coefficient-wise operations, schoolbook multiplication.
-/
import Wf.Model.Polynom
import Wf.Lemmas.BatchUtils
import Mathlib.Algebra.Polynomial.Eval.Defs
import Mathlib.Algebra.Polynomial.Eval.Coeff
import Mathlib.Algebra.Polynomial.Degree.Defs
import Mathlib.Algebra.Polynomial.Degree.Lemmas
import Mathlib.Algebra.Polynomial.Coeff
set_option linter.unusedSectionVars false
set_option linter.unusedSimpArgs false
namespace Wf.Polynom
open Polynomial Wf Wf.BatchUtils

section ring
variable {R : Type} [CommRing R]

/-- coefficient list (lowest degree first) → polynomial -/
noncomputable def ofCoeffs : List R → R[X]
  | [] => 0
  | c :: cs => C c + X * ofCoeffs cs

@[simp] theorem ofCoeffs_nil : ofCoeffs ([] : List R) = 0 := rfl
@[simp] theorem ofCoeffs_cons (c : R) (cs : List R) : ofCoeffs (c :: cs) = C c + X * ofCoeffs cs := rfl

theorem ofCoeffs_append (a b : List R) :
    ofCoeffs (a ++ b) = ofCoeffs a + X ^ a.length * ofCoeffs b := by
  induction a with
  | nil => simp
  | cons c cs ih => simp [ih, pow_succ]; ring

theorem coeff_ofCoeffs (l : List R) (k : Nat) : (ofCoeffs l).coeff k = l.getD k 0 := by
  induction l generalizing k with
  | nil => simp
  | cons c cs ih =>
    cases k with
    | zero => simp
    | succ k => simp [ih, coeff_C_succ]

theorem ofCoeffs_replicate_zero (n : Nat) : ofCoeffs (List.replicate n (0 : R)) = 0 := by
  induction n with
  | zero => rfl
  | succ n ih => simp [List.replicate_succ, ih]

theorem ofCoeffs_take_add_drop (l : List R) (k : Nat) :
    ofCoeffs l = ofCoeffs (l.take k) + X ^ (min k l.length) * ofCoeffs (l.drop k) := by
  conv => lhs; rw [← List.take_append_drop k l]
  rw [ofCoeffs_append, List.length_take]

theorem ofCoeffs_set (l : List R) (k : Nat) (v : R) (h : k < l.length) :
    ofCoeffs (l.set k v) = ofCoeffs l + C (v - l[k]) * X ^ k := by
  induction l generalizing k with
  | nil => simp at h
  | cons c cs ih =>
    cases k with
    | zero => simp; ring
    | succ k =>
      simp only [List.set_cons_succ, ofCoeffs_cons, List.getElem_cons_succ]
      rw [ih k (by simpa using h)]
      ring

theorem degree_ofCoeffs_lt (l : List R) : (ofCoeffs l).degree < l.length := by
  rw [degree_lt_iff_coeff_zero]
  intro m hm
  rw [coeff_ofCoeffs]
  simp [List.getElem?_eq_none hm]

variable [DecidableEq R] (inv : R → R)

theorem eval_eq (p : List R) (x : R) : eval (ringOps R inv) p x = (ofCoeffs p).eval x := by
  unfold Polynom.eval
  rw [List.foldl_reverse]
  induction p with
  | nil => simp
  | cons c cs ih =>
    simp only [List.foldr_cons]
    rw [ih]
    simp only [ringOps_add, ringOps_mul, ofCoeffs_cons, eval_add, eval_C, eval_mul, eval_X]
    ring

theorem evalMany_eq (p xs : List R) :
    evalMany (ringOps R inv) p xs = xs.map (fun x => (ofCoeffs p).eval x) := by
  unfold evalMany
  simp only [eval_eq]

theorem coeffOr_eq (a : List R) (i : Nat) : coeffOr (ringOps R inv) a i = a.getD i 0 := by
  unfold coeffOr
  cases h : a[i]? <;> simp [h]

theorem ofCoeffs_add (a b : List R) :
    ofCoeffs (add (ringOps R inv) a b) = ofCoeffs a + ofCoeffs b := by
  ext k
  rw [coeff_add, coeff_ofCoeffs, coeff_ofCoeffs, coeff_ofCoeffs]
  unfold Polynom.add
  simp only [coeffOr_eq, ringOps_add]
  by_cases hk : k < max a.length b.length
  · simp [hk]
  · have h1 : a.length ≤ k := by omega
    have h2 : b.length ≤ k := by omega
    simp [hk, h1, h2]

theorem ofCoeffs_sub (a b : List R) :
    ofCoeffs (sub (ringOps R inv) a b) = ofCoeffs a - ofCoeffs b := by
  ext k
  rw [coeff_sub, coeff_ofCoeffs, coeff_ofCoeffs, coeff_ofCoeffs]
  unfold Polynom.sub
  simp only [coeffOr_eq, ringOps_sub]
  by_cases hk : k < max a.length b.length
  · simp [hk]
  · have h1 : a.length ≤ k := by omega
    have h2 : b.length ≤ k := by omega
    simp [hk, h1, h2]

theorem ofCoeffs_mulByScalar (p : List R) (k : R) :
    ofCoeffs (mulByScalar (ringOps R inv) p k) = ofCoeffs p * C k := by
  unfold mulByScalar
  induction p with
  | nil => simp
  | cons c cs ih =>
    rw [List.map_cons, ofCoeffs_cons, ih, ringOps_mul, C_mul, ofCoeffs_cons]
    ring

/-! ### mul -/

theorem addAt_spec (r : List R) (k : Nat) (s : R) (h : k < r.length) :
    ∃ r', addAt (ringOps R inv) r k s = some r' ∧ r'.length = r.length ∧
      ofCoeffs r' = ofCoeffs r + C s * X ^ k := by
  refine ⟨r.set k (r[k] + s), ?_, by simp, ?_⟩
  · unfold addAt
    simp [h]
  · rw [ofCoeffs_set _ _ _ h]
    simp

theorem mulRow_spec (ai : R) (bs : List R) (k : Nat) (r : List R) (h : k + bs.length ≤ r.length) :
    ∃ r', mulRow (ringOps R inv) ai bs k r = some r' ∧ r'.length = r.length ∧
      ofCoeffs r' = ofCoeffs r + C ai * X ^ k * ofCoeffs bs := by
  induction bs generalizing k r with
  | nil => exact ⟨r, rfl, rfl, by simp⟩
  | cons bj bs ih =>
    simp only [List.length_cons] at h
    obtain ⟨r1, h1, l1, e1⟩ := addAt_spec inv r k (ai * bj) (by omega)
    obtain ⟨r2, h2, l2, e2⟩ := ih (k + 1) r1 (by omega)
    refine ⟨r2, ?_, by omega, ?_⟩
    · simp only [mulRow, ringOps_mul, h1, h2]
    · rw [e2, e1, ofCoeffs_cons, C_mul, pow_succ]
      ring

theorem mulRows_spec (b : List R) (as : List R) (i : Nat) (r : List R)
    (h : as = [] ∨ i + as.length + b.length ≤ r.length + 1) :
    ∃ r', mulRows (ringOps R inv) b as i r = some r' ∧ r'.length = r.length ∧
      ofCoeffs r' = ofCoeffs r + X ^ i * ofCoeffs as * ofCoeffs b := by
  induction as generalizing i r with
  | nil => exact ⟨r, rfl, rfl, by simp⟩
  | cons ai as ih =>
    have h' : i + (as.length + 1) + b.length ≤ r.length + 1 := by
      rcases h with h | h
      · cases h
      · simpa using h
    obtain ⟨r1, h1, l1, e1⟩ := mulRow_spec inv ai b i r (by omega)
    obtain ⟨r2, h2, l2, e2⟩ := ih (i + 1) r1 (by
      cases as with
      | nil => exact Or.inl rfl
      | cons a' as' => right; simp only [List.length_cons] at h' ⊢; omega)
    refine ⟨r2, ?_, by omega, ?_⟩
    · simp only [mulRows, h1, h2]
    · rw [e2, e1, ofCoeffs_cons, pow_succ]
      ring

theorem mul_spec (a b : List R) :
    ∃ r, mul (ringOps R inv) a b = some r ∧
      r.length = (if a = [] ∨ b = [] then 0 else a.length + b.length - 1) ∧
      ofCoeffs r = ofCoeffs a * ofCoeffs b := by
  by_cases h : a = [] ∨ b = []
  · refine ⟨[], ?_, by rw [if_pos h]; rfl, ?_⟩
    · unfold mul
      rcases h with h | h <;> simp [h]
    · rcases h with h | h <;> simp [h]
  · have ha : a ≠ [] := fun e => h (Or.inl e)
    have hb : b ≠ [] := fun e => h (Or.inr e)
    obtain ⟨r, h1, l1, e1⟩ := mulRows_spec inv b a 0 (List.replicate (a.length + b.length - 1) 0) (by
      cases a with
      | nil => exact Or.inl rfl
      | cons x xs => right; simp only [List.length_cons, List.length_replicate]; omega)
    refine ⟨r, ?_, by rw [if_neg h]; simpa using l1, ?_⟩
    · unfold mul
      rw [if_neg (by simp [ha, hb])]
      exact h1
    · rw [e1, ofCoeffs_replicate_zero]
      simp

end ring
end Wf.Polynom
