/-
f128 (p = 2^128 − 45·2^40 + 1, canonical u128 storage): the generated kernels compute arithmetic
modulo p. Lifts the bit-level lemmas of `F128Bv` to Nat-level statements, proves the exact integer
meaning of every 64-bit limb helper and composes them into the correctness of `mul`.
Core Lean + Std only.
-/
import Wf.Lemmas.F128Bv
namespace Wf.F128
open Wf.Gen.F128

/-- the documented modulus -/
def p : Nat := 340282366920938463463374557953744961537
/-- 2^128 − p = 45·2^40 − 1 -/
def c : Nat := 49478023249919

theorem p_eq : p = 2 ^ 128 - 45 * 2 ^ 40 + 1 := by decide
theorem c_eq : c = 45 * 2 ^ 40 - 1 := by decide
theorem p_add_c : p + c = 2 ^ 128 := by decide
theorem M_toNat : M.toNat = p := by decide
theorem M129_toNat : (z129 M).toNat = p := by decide
theorem negM_toNat : (0#128 - M).toNat = c := by decide

/-- representation invariant: the stored word is the canonical value, below the modulus -/
def Rep (x : BitVec 128) : Prop := x < M

theorem rep_iff (x : BitVec 128) : Rep x ↔ x.toNat < p := by
  unfold Rep; rw [BitVec.lt_def, M_toNat]

/-- value of a little-endian pair / triple of 64-bit limbs -/
def v2 (q : BitVec 64 × BitVec 64) : Nat := q.1.toNat + 2 ^ 64 * q.2.toNat
def v3 (q : BitVec 64 × BitVec 64 × BitVec 64) : Nat :=
  q.1.toNat + 2 ^ 64 * q.2.1.toNat + 2 ^ 128 * q.2.2.toNat

theorem v2_lt (q : BitVec 64 × BitVec 64) : v2 q < 2 ^ 128 := by
  unfold v2; have := q.1.isLt; have := q.2.isLt; omega
theorem v3_lt (q : BitVec 64 × BitVec 64 × BitVec 64) : v3 q < 2 ^ 192 := by
  unfold v3; have := q.1.isLt; have := q.2.1.isLt; have := q.2.2.isLt; omega

theorem w2_toNat (a0 a1 : BitVec 64) : (w2 a0 a1).toNat = v2 (a0, a1) := by
  unfold w2 v2
  simp only [BitVec.toNat_add, BitVec.toNat_setWidth, BitVec.toNat_shiftLeft, Nat.shiftLeft_eq]
  have := a0.isLt; have := a1.isLt; omega

theorem w3_toNat (a0 a1 a2 : BitVec 64) : (w3 a0 a1 a2).toNat = v3 (a0, a1, a2) := by
  unfold w3 v3 z192
  simp only [BitVec.toNat_add, BitVec.toNat_setWidth, BitVec.toNat_shiftLeft, Nat.shiftLeft_eq]
  have := a0.isLt; have := a1.isLt; have := a2.isLt; omega

/-- r < p and r + k·p = n  ⇒  r = n mod p -/
theorem eq_mod_of (r k n : Nat) (hr : r < p) (h : r + k * p = n) : r = n % p := by
  rw [← h, Nat.add_mul_mod_self_right, Nat.mod_eq_of_lt hr]

/-! ## add / sub / neg / new / as_int -/

theorem add_spec (a b : BitVec 128) (ha : Rep a) (hb : Rep b) :
    Rep (add a b) ∧ (add a b).toNat = (a.toNat + b.toNat) % p := by
  obtain ⟨h1, h2⟩ := add_bv a b ha hb
  refine ⟨h1, ?_⟩
  have hr := (rep_iff _).mp h1
  have hp : p = 340282366920938463463374557953744961537 := rfl
  rcases h2 with h | h
  · have := congrArg BitVec.toNat h
    simp only [z129, BitVec.toNat_add, BitVec.toNat_setWidth] at this
    have e : (add a b).toNat + 0 * p = a.toNat + b.toNat := by
      have := (add a b).isLt; have := a.isLt; have := b.isLt; omega
    exact eq_mod_of _ _ _ hr e
  · have := congrArg BitVec.toNat h
    rw [BitVec.toNat_add, BitVec.toNat_add, M129_toNat] at this
    simp only [z129, BitVec.toNat_setWidth] at this
    have e : (add a b).toNat + 1 * p = a.toNat + b.toNat := by
      have := (add a b).isLt; have := a.isLt; have := b.isLt; omega
    exact eq_mod_of _ _ _ hr e

theorem sub_spec (a b : BitVec 128) (ha : Rep a) (hb : Rep b) :
    Rep (sub a b) ∧ (sub a b).toNat = (a.toNat + (p - b.toNat)) % p := by
  obtain ⟨h1, h2⟩ := sub_bv a b ha hb
  refine ⟨h1, ?_⟩
  have hr := (rep_iff _).mp h1
  have hb' := (rep_iff _).mp hb
  have hp : p = 340282366920938463463374557953744961537 := rfl
  rcases h2 with h | h
  · have := congrArg BitVec.toNat h
    simp only [z129, BitVec.toNat_add, BitVec.toNat_setWidth] at this
    have e : (sub a b).toNat + 1 * p = a.toNat + (p - b.toNat) := by
      have := (sub a b).isLt; have := a.isLt; have := b.isLt; omega
    exact eq_mod_of _ _ _ hr e
  · have := congrArg BitVec.toNat h
    rw [BitVec.toNat_add, BitVec.toNat_add, M129_toNat] at this
    simp only [z129, BitVec.toNat_setWidth] at this
    have e : (sub a b).toNat + 0 * p = a.toNat + (p - b.toNat) := by
      have := (sub a b).isLt; have := a.isLt; have := b.isLt; omega
    exact eq_mod_of _ _ _ hr e

theorem zero_rep : Rep 0#128 := by unfold Rep; decide

theorem neg_spec (a : BitVec 128) (ha : Rep a) :
    Rep (neg a) ∧ (neg a).toNat = (p - a.toNat) % p := by
  unfold neg
  obtain ⟨h1, h2⟩ := sub_spec 0#128 a zero_rep ha
  refine ⟨h1, ?_⟩
  rw [h2]; simp

/-- `new` silently reduces EVERY 128-bit integer -/
theorem new_spec (v : BitVec 128) : Rep (new v) ∧ (new v).toNat = v.toNat % p := by
  obtain ⟨h1, h2⟩ := new_bv v
  refine ⟨h1, ?_⟩
  have hr := (rep_iff _).mp h1
  have hp : p = 340282366920938463463374557953744961537 := rfl
  rcases h2 with h | h
  · have := congrArg BitVec.toNat h
    simp only [z129, BitVec.toNat_setWidth] at this
    have e : (new v).toNat + 0 * p = v.toNat := by
      have := (new v).isLt; have := v.isLt; omega
    exact eq_mod_of _ _ _ hr e
  · have := congrArg BitVec.toNat h
    rw [BitVec.toNat_add, M129_toNat] at this
    simp only [z129, BitVec.toNat_setWidth] at this
    have e : (new v).toNat + 1 * p = v.toNat := by
      have := (new v).isLt; have := v.isLt; omega
    exact eq_mod_of _ _ _ hr e

theorem new_of_rep (v : BitVec 128) (hv : Rep v) : new v = v := by
  apply BitVec.eq_of_toNat_eq
  rw [(new_spec v).2, Nat.mod_eq_of_lt ((rep_iff v).mp hv)]

/-! ## limb helpers -/

theorem add64_with_carry_spec (a b cy : BitVec 64) :
    v2 (add64_with_carry a b cy) = a.toNat + b.toNat + cy.toNat := by
  unfold add64_with_carry v2
  simp only [BitVec.toNat_add, BitVec.toNat_setWidth, BitVec.toNat_ushiftRight, Nat.shiftRight_eq_div_pow]
  have := a.isLt; have := b.isLt; have := cy.isLt
  omega

theorem add_192x192_spec (a0 a1 a2 b0 b1 b2 : BitVec 64) :
    v3 (add_192x192 a0 a1 a2 b0 b1 b2) = (v3 (a0, a1, a2) + v3 (b0, b1, b2)) % 2 ^ 192 := by
  unfold add_192x192 v3
  simp only [BitVec.toNat_add, BitVec.toNat_setWidth, BitVec.toNat_ushiftRight, Nat.shiftRight_eq_div_pow]
  have := a0.isLt; have := b0.isLt; have := a1.isLt; have := b1.isLt; have := a2.isLt; have := b2.isLt
  omega

theorem sub_192x192_spec (a0 a1 a2 b0 b1 b2 : BitVec 64) :
    v3 (sub_192x192 a0 a1 a2 b0 b1 b2) = (v3 (a0, a1, a2) + (2 ^ 192 - v3 (b0, b1, b2))) % 2 ^ 192 := by
  have h := congrArg BitVec.toNat (sub192_bv a0 a1 a2 b0 b1 b2)
  rw [BitVec.toNat_sub, w3_toNat, w3_toNat, w3_toNat] at h
  rw [show ((sub_192x192 a0 a1 a2 b0 b1 b2).1, (sub_192x192 a0 a1 a2 b0 b1 b2).2.1,
      (sub_192x192 a0 a1 a2 b0 b1 b2).2.2) = sub_192x192 a0 a1 a2 b0 b1 b2 from rfl] at h
  rw [h, Nat.add_comm]

/-- exact difference when nothing is borrowed out of the top limb -/
theorem sub_192x192_exact (a0 a1 a2 b0 b1 b2 : BitVec 64) (h : v3 (b0, b1, b2) ≤ v3 (a0, a1, a2)) :
    v3 (sub_192x192 a0 a1 a2 b0 b1 b2) + v3 (b0, b1, b2) = v3 (a0, a1, a2) := by
  rw [sub_192x192_spec]
  have := v3_lt (a0, a1, a2); have := v3_lt (b0, b1, b2)
  omega

theorem sub_modulus_spec (lo hi : BitVec 64) :
    v2 (sub_modulus lo hi) = (v2 (lo, hi) + c) % 2 ^ 128 := by
  have h := congrArg BitVec.toNat (sub_modulus_bv lo hi)
  rw [BitVec.toNat_sub, w2_toNat, w2_toNat, M_toNat] at h
  rw [show ((sub_modulus lo hi).1, (sub_modulus lo hi).2) = sub_modulus lo hi from rfl] at h
  rw [h]
  have := v2_lt (lo, hi)
  have hp : p = 340282366920938463463374557953744961537 := rfl
  have hc : c = 49478023249919 := rfl
  omega

theorem prod_toNat (a b : BitVec 64) :
    (BitVec.setWidth 128 a * BitVec.setWidth 128 b).toNat = a.toNat * b.toNat := by
  rw [BitVec.toNat_mul, BitVec.toNat_setWidth, BitVec.toNat_setWidth,
    Nat.mod_eq_of_lt (Nat.lt_trans a.isLt (by decide)), Nat.mod_eq_of_lt (Nat.lt_trans b.isLt (by decide))]
  apply Nat.mod_eq_of_lt
  have := Nat.mul_lt_mul'' a.isLt b.isLt
  calc a.toNat * b.toNat < 2 ^ 64 * 2 ^ 64 := this
    _ = 2 ^ 128 := by decide

theorem mul_le_sq (x y : Nat) (hx : x < 2 ^ 64) (hy : y < 2 ^ 64) :
    x * y ≤ 340282366920938463426481119284349108225 := by
  have : x * y ≤ (2 ^ 64 - 1) * (2 ^ 64 - 1) := Nat.mul_le_mul (by omega) (by omega)
  have e : (2 ^ 64 - 1) * (2 ^ 64 - 1) = 340282366920938463426481119284349108225 := by decide
  omega

/-- 128 × 64 → 192-bit schoolbook product, exact for ALL inputs -/
theorem mul_128x64_spec (a : BitVec 128) (b : BitVec 64) :
    v3 (mul_128x64 a b) = a.toNat * b.toNat := by
  unfold mul_128x64 v3
  simp only [BitVec.toNat_add, BitVec.toNat_mul, BitVec.toNat_setWidth, BitVec.toNat_ushiftRight,
    Nat.shiftRight_eq_div_pow]
  have hb := b.isLt; have ha := a.isLt
  have h1 := mul_le_sq (a.toNat % 2 ^ 64) b.toNat (by omega) hb
  have h2 := mul_le_sq (a.toNat / 2 ^ 64) b.toNat (by omega) hb
  have e : a.toNat * b.toNat = a.toNat % 2 ^ 64 * b.toNat + 2 ^ 64 * (a.toNat / 2 ^ 64 * b.toNat) := by
    rw [← Nat.mul_assoc, ← Nat.add_mul, Nat.mod_add_div]
  rw [e]
  have hm1 : a.toNat % 2 ^ 64 % 2 ^ 128 = a.toNat % 2 ^ 64 := by omega
  have hm2 : b.toNat % 2 ^ 128 = b.toNat := by omega
  rw [hm1, hm2]
  generalize a.toNat % 2 ^ 64 * b.toNat = P at *
  generalize a.toNat / 2 ^ 64 * b.toNat = Q at *
  omega

/-- low 128 bits and high limb of a·p for 1 ≤ a < 2^64, with a·p = X and a·c = Y abstract -/
theorem mbm_core (a X Y L : Nat) (ha : a < 2 ^ 64) (h1 : 1 ≤ a) (hY : 0 < Y) (hY2 : Y < 2 ^ 110)
    (e : X + Y = a * 2 ^ 128) (hL : L = X % 2 ^ 128) :
    L % 2 ^ 64 + 2 ^ 64 * (L / 2 ^ 64 % 2 ^ 64) + 2 ^ 128 * ((2 ^ 64 - 1 + a) % 2 ^ 64) = X := by
  have key : X = (2 ^ 128 - Y) + (a - 1) * 2 ^ 128 := by omega
  have hlt : 2 ^ 128 - Y < 2 ^ 128 := by omega
  have hL' : L = 2 ^ 128 - Y := by
    rw [hL, key, Nat.add_mul_mod_self_right, Nat.mod_eq_of_lt hlt]
  have e2 : (2 ^ 64 - 1 + a) % 2 ^ 64 = a - 1 := by omega
  rw [e2]
  omega

theorem mbm_nat (a : Nat) (ha : a < 2 ^ 64) (h1 : 1 ≤ a) :
    (a % 2 ^ 128 * p) % 2 ^ 128 % 2 ^ 64 + 2 ^ 64 * ((a % 2 ^ 128 * p) % 2 ^ 128 / 2 ^ 64 % 2 ^ 64)
      + 2 ^ 128 * ((2 ^ 64 - 1 % 2 ^ 64 + a) % 2 ^ 64) = a * p := by
  have hac : a * c < 2 ^ 110 := by
    have : a * c ≤ 2 ^ 64 * c := Nat.mul_le_mul_right _ (by omega)
    simp only [c] at this ⊢; omega
  have hY : 0 < a * c := Nat.mul_pos (by omega) (by unfold c; omega)
  have e : a * p + a * c = a * 2 ^ 128 := by rw [← Nat.mul_add, p_add_c]
  have hm : a % 2 ^ 128 = a := Nat.mod_eq_of_lt (by omega)
  have hL : (a % 2 ^ 128 * p) % 2 ^ 128 = (a * p) % 2 ^ 128 := by rw [hm]
  have h1' : 2 ^ 64 - 1 % 2 ^ 64 = 2 ^ 64 - 1 := by decide
  have := mbm_core a (a * p) (a * c) _ ha h1 hY hac e hL
  rw [h1']
  exact this

theorem mbm_lo (a : BitVec 64) : (BitVec.setWidth 128 a * M).toNat = (a.toNat % 2 ^ 128 * p) % 2 ^ 128 := by
  rw [BitVec.toNat_mul, BitVec.toNat_setWidth, M_toNat]

/-- `mul_by_modulus a` is the 192-bit integer a·p, exact for every 64-bit a -/
theorem mul_by_modulus_spec (a : BitVec 64) : v3 (mul_by_modulus a) = a.toNat * p := by
  have hL := mbm_lo a
  unfold mul_by_modulus v3
  generalize BitVec.setWidth 128 a * M = L at hL ⊢
  by_cases h0 : a = 0#64
  · subst h0
    have hz : L.toNat = 0 := by rw [hL]; simp
    simp only [BitVec.toNat_setWidth, BitVec.toNat_ushiftRight, Nat.shiftRight_eq_div_pow, hz]
    simp
  · have hne : a.toNat ≠ 0 := fun h => h0 (BitVec.eq_of_toNat_eq h)
    have hbeq : (a == 0#64) = false := by simp [h0]
    simp only [hbeq, Bool.false_eq_true, if_false]
    simp only [BitVec.toNat_sub, BitVec.toNat_setWidth, BitVec.toNat_ushiftRight,
      Nat.shiftRight_eq_div_pow, BitVec.toNat_ofNat, hL]
    exact mbm_nat a.toNat a.isLt (by omega)

theorem p_lt : p < 2 ^ 128 := by unfold p; omega

/-- `mul_reduce` subtracts z2·p: the value drops by exactly z2·p (never below zero) -/
theorem mul_reduce_spec (z0 z1 z2 : BitVec 64) :
    v3 (mul_reduce z0 z1 z2) + z2.toNat * p = v3 (z0, z1, z2) := by
  unfold mul_reduce
  have hq := mul_by_modulus_spec z2
  generalize mul_by_modulus z2 = q at hq ⊢
  obtain ⟨q0, q1, q2⟩ := q
  simp only []
  have hle : v3 (q0, q1, q2) ≤ v3 (z0, z1, z2) := by
    rw [hq]
    have : z2.toNat * p ≤ z2.toNat * 2 ^ 128 := Nat.mul_le_mul_left _ (Nat.le_of_lt p_lt)
    unfold v3; simp only []; omega
  have hs := sub_192x192_exact z0 z1 z2 q0 q1 q2 hle
  generalize sub_192x192 z0 z1 z2 q0 q1 q2 = s at hs ⊢
  obtain ⟨s0, s1, s2⟩ := s
  simp only []
  rw [← hq]
  exact hs

/-- the same, as the value of the result: low 128 bits + z2·(2^128 − p) -/
theorem mul_reduce_val (z0 z1 z2 : BitVec 64) :
    v3 (mul_reduce z0 z1 z2) = z0.toNat + 2 ^ 64 * z1.toNat + z2.toNat * c := by
  have h := mul_reduce_spec z0 z1 z2
  have e : z2.toNat * p + z2.toNat * c = z2.toNat * 2 ^ 128 := by rw [← Nat.mul_add, p_add_c]
  unfold v3 at h ⊢; simp only [] at h ⊢
  generalize z2.toNat * p = X at *
  generalize z2.toNat * c = Y at *
  omega
end Wf.F128
