/-
f128 (p = 2^128 − 45·2^40 + 1, canonical u128 storage): the generated kernels compute arithmetic
modulo p. Lifts the bit-level lemmas of `F128Bv` to Nat-level statements, proves the exact integer
meaning of every 64-bit limb helper and composes them into the correctness of `mul`.
Core Lean + Std only.
-/
import Wf.Lemmas.F128Bv
namespace Wf.F128
open Wf.Gen.F128

/-- the documented modulus -/
def p : Nat := 340282366920938463463374557953744961537
/-- 2^128 − p = 45·2^40 − 1 -/
def c : Nat := 49478023249919

theorem p_eq : p = 2 ^ 128 - 45 * 2 ^ 40 + 1 := by decide
theorem c_eq : c = 45 * 2 ^ 40 - 1 := by decide
theorem p_add_c : p + c = 2 ^ 128 := by decide
theorem M_toNat : M.toNat = p := by decide
theorem M129_toNat : (z129 M).toNat = p := by decide
theorem negM_toNat : (0#128 - M).toNat = c := by decide

/-- representation invariant: the stored word is the canonical value, below the modulus -/
def Rep (x : BitVec 128) : Prop := x < M

theorem rep_iff (x : BitVec 128) : Rep x ↔ x.toNat < p := by
  unfold Rep; rw [BitVec.lt_def, M_toNat]

/-- value of a little-endian pair / triple of 64-bit limbs -/
def v2 (q : BitVec 64 × BitVec 64) : Nat := q.1.toNat + 2 ^ 64 * q.2.toNat
def v3 (q : BitVec 64 × BitVec 64 × BitVec 64) : Nat :=
  q.1.toNat + 2 ^ 64 * q.2.1.toNat + 2 ^ 128 * q.2.2.toNat

theorem v2_lt (q : BitVec 64 × BitVec 64) : v2 q < 2 ^ 128 := by
  unfold v2; have := q.1.isLt; have := q.2.isLt; omega
theorem v3_lt (q : BitVec 64 × BitVec 64 × BitVec 64) : v3 q < 2 ^ 192 := by
  unfold v3; have := q.1.isLt; have := q.2.1.isLt; have := q.2.2.isLt; omega

theorem w2_toNat (a0 a1 : BitVec 64) : (w2 a0 a1).toNat = v2 (a0, a1) := by
  unfold w2 v2
  simp only [BitVec.toNat_add, BitVec.toNat_setWidth, BitVec.toNat_shiftLeft, Nat.shiftLeft_eq]
  have := a0.isLt; have := a1.isLt; omega

theorem w3_toNat (a0 a1 a2 : BitVec 64) : (w3 a0 a1 a2).toNat = v3 (a0, a1, a2) := by
  unfold w3 v3 z192
  simp only [BitVec.toNat_add, BitVec.toNat_setWidth, BitVec.toNat_shiftLeft, Nat.shiftLeft_eq]
  have := a0.isLt; have := a1.isLt; have := a2.isLt; omega

/-- r < p and r + k·p = n  ⇒  r = n mod p -/
theorem eq_mod_of (r k n : Nat) (hr : r < p) (h : r + k * p = n) : r = n % p := by
  rw [← h, Nat.add_mul_mod_self_right, Nat.mod_eq_of_lt hr]

/-! ## add / sub / neg / new / as_int -/

theorem add_spec (a b : BitVec 128) (ha : Rep a) (hb : Rep b) :
    Rep (add a b) ∧ (add a b).toNat = (a.toNat + b.toNat) % p := by
  obtain ⟨h1, h2⟩ := add_bv a b ha hb
  refine ⟨h1, ?_⟩
  have hr := (rep_iff _).mp h1
  have hp : p = 340282366920938463463374557953744961537 := rfl
  rcases h2 with h | h
  · have := congrArg BitVec.toNat h
    simp only [z129, BitVec.toNat_add, BitVec.toNat_setWidth] at this
    have e : (add a b).toNat + 0 * p = a.toNat + b.toNat := by
      have := (add a b).isLt; have := a.isLt; have := b.isLt; omega
    exact eq_mod_of _ _ _ hr e
  · have := congrArg BitVec.toNat h
    rw [BitVec.toNat_add, BitVec.toNat_add, M129_toNat] at this
    simp only [z129, BitVec.toNat_setWidth] at this
    have e : (add a b).toNat + 1 * p = a.toNat + b.toNat := by
      have := (add a b).isLt; have := a.isLt; have := b.isLt; omega
    exact eq_mod_of _ _ _ hr e

theorem sub_spec (a b : BitVec 128) (ha : Rep a) (hb : Rep b) :
    Rep (sub a b) ∧ (sub a b).toNat = (a.toNat + (p - b.toNat)) % p := by
  obtain ⟨h1, h2⟩ := sub_bv a b ha hb
  refine ⟨h1, ?_⟩
  have hr := (rep_iff _).mp h1
  have hb' := (rep_iff _).mp hb
  have hp : p = 340282366920938463463374557953744961537 := rfl
  rcases h2 with h | h
  · have := congrArg BitVec.toNat h
    simp only [z129, BitVec.toNat_add, BitVec.toNat_setWidth] at this
    have e : (sub a b).toNat + 1 * p = a.toNat + (p - b.toNat) := by
      have := (sub a b).isLt; have := a.isLt; have := b.isLt; omega
    exact eq_mod_of _ _ _ hr e
  · have := congrArg BitVec.toNat h
    rw [BitVec.toNat_add, BitVec.toNat_add, M129_toNat] at this
    simp only [z129, BitVec.toNat_setWidth] at this
    have e : (sub a b).toNat + 0 * p = a.toNat + (p - b.toNat) := by
      have := (sub a b).isLt; have := a.isLt; have := b.isLt; omega
    exact eq_mod_of _ _ _ hr e

theorem zero_rep : Rep 0#128 := by unfold Rep; decide

theorem neg_spec (a : BitVec 128) (ha : Rep a) :
    Rep (neg a) ∧ (neg a).toNat = (p - a.toNat) % p := by
  unfold neg
  obtain ⟨h1, h2⟩ := sub_spec 0#128 a zero_rep ha
  refine ⟨h1, ?_⟩
  rw [h2]; simp

/-- `new` silently reduces EVERY 128-bit integer -/
theorem new_spec (v : BitVec 128) : Rep (new v) ∧ (new v).toNat = v.toNat % p := by
  obtain ⟨h1, h2⟩ := new_bv v
  refine ⟨h1, ?_⟩
  have hr := (rep_iff _).mp h1
  have hp : p = 340282366920938463463374557953744961537 := rfl
  rcases h2 with h | h
  · have := congrArg BitVec.toNat h
    simp only [z129, BitVec.toNat_setWidth] at this
    have e : (new v).toNat + 0 * p = v.toNat := by
      have := (new v).isLt; have := v.isLt; omega
    exact eq_mod_of _ _ _ hr e
  · have := congrArg BitVec.toNat h
    rw [BitVec.toNat_add, M129_toNat] at this
    simp only [z129, BitVec.toNat_setWidth] at this
    have e : (new v).toNat + 1 * p = v.toNat := by
      have := (new v).isLt; have := v.isLt; omega
    exact eq_mod_of _ _ _ hr e

theorem new_of_rep (v : BitVec 128) (hv : Rep v) : new v = v := by
  apply BitVec.eq_of_toNat_eq
  rw [(new_spec v).2, Nat.mod_eq_of_lt ((rep_iff v).mp hv)]

/-! ## limb helpers -/

theorem add64_with_carry_spec (a b cy : BitVec 64) :
    v2 (add64_with_carry a b cy) = a.toNat + b.toNat + cy.toNat := by
  unfold add64_with_carry v2
  simp only [BitVec.toNat_add, BitVec.toNat_setWidth, BitVec.toNat_ushiftRight, Nat.shiftRight_eq_div_pow]
  have := a.isLt; have := b.isLt; have := cy.isLt
  omega

theorem add_192x192_spec (a0 a1 a2 b0 b1 b2 : BitVec 64) :
    v3 (add_192x192 a0 a1 a2 b0 b1 b2) = (v3 (a0, a1, a2) + v3 (b0, b1, b2)) % 2 ^ 192 := by
  unfold add_192x192 v3
  simp only [BitVec.toNat_add, BitVec.toNat_setWidth, BitVec.toNat_ushiftRight, Nat.shiftRight_eq_div_pow]
  have := a0.isLt; have := b0.isLt; have := a1.isLt; have := b1.isLt; have := a2.isLt; have := b2.isLt
  omega

theorem sub_192x192_spec (a0 a1 a2 b0 b1 b2 : BitVec 64) :
    v3 (sub_192x192 a0 a1 a2 b0 b1 b2) = (v3 (a0, a1, a2) + (2 ^ 192 - v3 (b0, b1, b2))) % 2 ^ 192 := by
  have h := congrArg BitVec.toNat (sub192_bv a0 a1 a2 b0 b1 b2)
  rw [BitVec.toNat_sub, w3_toNat, w3_toNat, w3_toNat] at h
  rw [show ((sub_192x192 a0 a1 a2 b0 b1 b2).1, (sub_192x192 a0 a1 a2 b0 b1 b2).2.1,
      (sub_192x192 a0 a1 a2 b0 b1 b2).2.2) = sub_192x192 a0 a1 a2 b0 b1 b2 from rfl] at h
  rw [h, Nat.add_comm]

/-- exact difference when nothing is borrowed out of the top limb -/
theorem sub_192x192_exact (a0 a1 a2 b0 b1 b2 : BitVec 64) (h : v3 (b0, b1, b2) ≤ v3 (a0, a1, a2)) :
    v3 (sub_192x192 a0 a1 a2 b0 b1 b2) + v3 (b0, b1, b2) = v3 (a0, a1, a2) := by
  rw [sub_192x192_spec]
  have := v3_lt (a0, a1, a2); have := v3_lt (b0, b1, b2)
  omega

theorem sub_modulus_spec (lo hi : BitVec 64) :
    v2 (sub_modulus lo hi) = (v2 (lo, hi) + c) % 2 ^ 128 := by
  have h := congrArg BitVec.toNat (sub_modulus_bv lo hi)
  rw [BitVec.toNat_sub, w2_toNat, w2_toNat, M_toNat] at h
  rw [show ((sub_modulus lo hi).1, (sub_modulus lo hi).2) = sub_modulus lo hi from rfl] at h
  rw [h]
  have := v2_lt (lo, hi)
  have hp : p = 340282366920938463463374557953744961537 := rfl
  have hc : c = 49478023249919 := rfl
  omega

theorem prod_toNat (a b : BitVec 64) :
    (BitVec.setWidth 128 a * BitVec.setWidth 128 b).toNat = a.toNat * b.toNat := by
  rw [BitVec.toNat_mul, BitVec.toNat_setWidth, BitVec.toNat_setWidth,
    Nat.mod_eq_of_lt (Nat.lt_trans a.isLt (by decide)), Nat.mod_eq_of_lt (Nat.lt_trans b.isLt (by decide))]
  apply Nat.mod_eq_of_lt
  have := Nat.mul_lt_mul'' a.isLt b.isLt
  calc a.toNat * b.toNat < 2 ^ 64 * 2 ^ 64 := this
    _ = 2 ^ 128 := by decide

theorem mul_le_sq (x y : Nat) (hx : x < 2 ^ 64) (hy : y < 2 ^ 64) :
    x * y ≤ 340282366920938463426481119284349108225 := by
  have : x * y ≤ (2 ^ 64 - 1) * (2 ^ 64 - 1) := Nat.mul_le_mul (by omega) (by omega)
  have e : (2 ^ 64 - 1) * (2 ^ 64 - 1) = 340282366920938463426481119284349108225 := by decide
  omega

/-- 128 × 64 → 192-bit schoolbook product, exact for ALL inputs -/
theorem mul_128x64_spec (a : BitVec 128) (b : BitVec 64) :
    v3 (mul_128x64 a b) = a.toNat * b.toNat := by
  unfold mul_128x64 v3
  simp only [BitVec.toNat_add, BitVec.toNat_mul, BitVec.toNat_setWidth, BitVec.toNat_ushiftRight,
    Nat.shiftRight_eq_div_pow]
  have hb := b.isLt; have ha := a.isLt
  have h1 := mul_le_sq (a.toNat % 2 ^ 64) b.toNat (by omega) hb
  have h2 := mul_le_sq (a.toNat / 2 ^ 64) b.toNat (by omega) hb
  have e : a.toNat * b.toNat = a.toNat % 2 ^ 64 * b.toNat + 2 ^ 64 * (a.toNat / 2 ^ 64 * b.toNat) := by
    rw [← Nat.mul_assoc, ← Nat.add_mul, Nat.mod_add_div]
  rw [e]
  have hm1 : a.toNat % 2 ^ 64 % 2 ^ 128 = a.toNat % 2 ^ 64 := by omega
  have hm2 : b.toNat % 2 ^ 128 = b.toNat := by omega
  rw [hm1, hm2]
  generalize a.toNat % 2 ^ 64 * b.toNat = P at *
  generalize a.toNat / 2 ^ 64 * b.toNat = Q at *
  omega

/-- low 128 bits and high limb of a·p for 1 ≤ a < 2^64, with a·p = X and a·c = Y abstract -/
theorem mbm_core (a X Y L : Nat) (ha : a < 2 ^ 64) (h1 : 1 ≤ a) (hY : 0 < Y) (hY2 : Y < 2 ^ 110)
    (e : X + Y = a * 2 ^ 128) (hL : L = X % 2 ^ 128) :
    L % 2 ^ 64 + 2 ^ 64 * (L / 2 ^ 64 % 2 ^ 64) + 2 ^ 128 * ((2 ^ 64 - 1 + a) % 2 ^ 64) = X := by
  have key : X = (2 ^ 128 - Y) + (a - 1) * 2 ^ 128 := by omega
  have hlt : 2 ^ 128 - Y < 2 ^ 128 := by omega
  have hL' : L = 2 ^ 128 - Y := by
    rw [hL, key, Nat.add_mul_mod_self_right, Nat.mod_eq_of_lt hlt]
  have e2 : (2 ^ 64 - 1 + a) % 2 ^ 64 = a - 1 := by omega
  rw [e2]
  omega

theorem mbm_nat (a : Nat) (ha : a < 2 ^ 64) (h1 : 1 ≤ a) :
    (a % 2 ^ 128 * p) % 2 ^ 128 % 2 ^ 64 + 2 ^ 64 * ((a % 2 ^ 128 * p) % 2 ^ 128 / 2 ^ 64 % 2 ^ 64)
      + 2 ^ 128 * ((2 ^ 64 - 1 % 2 ^ 64 + a) % 2 ^ 64) = a * p := by
  have hac : a * c < 2 ^ 110 := by
    have : a * c ≤ 2 ^ 64 * c := Nat.mul_le_mul_right _ (by omega)
    simp only [c] at this ⊢; omega
  have hY : 0 < a * c := Nat.mul_pos (by omega) (by unfold c; omega)
  have e : a * p + a * c = a * 2 ^ 128 := by rw [← Nat.mul_add, p_add_c]
  have hm : a % 2 ^ 128 = a := Nat.mod_eq_of_lt (by omega)
  have hL : (a % 2 ^ 128 * p) % 2 ^ 128 = (a * p) % 2 ^ 128 := by rw [hm]
  have h1' : 2 ^ 64 - 1 % 2 ^ 64 = 2 ^ 64 - 1 := by decide
  have := mbm_core a (a * p) (a * c) _ ha h1 hY hac e hL
  rw [h1']
  exact this

theorem mbm_lo (a : BitVec 64) : (BitVec.setWidth 128 a * M).toNat = (a.toNat % 2 ^ 128 * p) % 2 ^ 128 := by
  rw [BitVec.toNat_mul, BitVec.toNat_setWidth, M_toNat]

/-- `mul_by_modulus a` is the 192-bit integer a·p, exact for every 64-bit a -/
theorem mul_by_modulus_spec (a : BitVec 64) : v3 (mul_by_modulus a) = a.toNat * p := by
  have hL := mbm_lo a
  unfold mul_by_modulus v3
  generalize BitVec.setWidth 128 a * M = L at hL ⊢
  by_cases h0 : a = 0#64
  · subst h0
    have hz : L.toNat = 0 := by rw [hL]; simp
    simp only [BitVec.toNat_setWidth, BitVec.toNat_ushiftRight, Nat.shiftRight_eq_div_pow, hz]
    simp
  · have hne : a.toNat ≠ 0 := fun h => h0 (BitVec.eq_of_toNat_eq h)
    have hbeq : (a == 0#64) = false := by simp [h0]
    simp only [hbeq, Bool.false_eq_true, if_false]
    simp only [BitVec.toNat_sub, BitVec.toNat_setWidth, BitVec.toNat_ushiftRight,
      Nat.shiftRight_eq_div_pow, BitVec.toNat_ofNat, hL]
    exact mbm_nat a.toNat a.isLt (by omega)

theorem p_lt : p < 2 ^ 128 := by unfold p; omega

/-- `mul_reduce` subtracts z2·p: the value drops by exactly z2·p (never below zero) -/
theorem mul_reduce_spec (z0 z1 z2 : BitVec 64) :
    v3 (mul_reduce z0 z1 z2) + z2.toNat * p = v3 (z0, z1, z2) := by
  unfold mul_reduce
  have hq := mul_by_modulus_spec z2
  generalize mul_by_modulus z2 = q at hq ⊢
  obtain ⟨q0, q1, q2⟩ := q
  simp only []
  have hle : v3 (q0, q1, q2) ≤ v3 (z0, z1, z2) := by
    rw [hq]
    have : z2.toNat * p ≤ z2.toNat * 2 ^ 128 := Nat.mul_le_mul_left _ (Nat.le_of_lt p_lt)
    unfold v3; simp only []; omega
  have hs := sub_192x192_exact z0 z1 z2 q0 q1 q2 hle
  generalize sub_192x192 z0 z1 z2 q0 q1 q2 = s at hs ⊢
  obtain ⟨s0, s1, s2⟩ := s
  simp only []
  rw [← hq]
  exact hs

/-- the same, as the value of the result: low 128 bits + z2·(2^128 − p) -/
theorem mul_reduce_val (z0 z1 z2 : BitVec 64) :
    v3 (mul_reduce z0 z1 z2) = z0.toNat + 2 ^ 64 * z1.toNat + z2.toNat * c := by
  have h := mul_reduce_spec z0 z1 z2
  have e : z2.toNat * p + z2.toNat * c = z2.toNat * 2 ^ 128 := by rw [← Nat.mul_add, p_add_c]
  unfold v3 at h ⊢; simp only [] at h ⊢
  generalize z2.toNat * p = X at *
  generalize z2.toNat * c = Y at *
  omega

/-! ## composition: `mul` -/

theorem beq_one_iff (x : BitVec 64) : ((x == 1#64) = true) ↔ x.toNat = 1 := by
  rw [beq_iff_eq]
  constructor
  · intro h; rw [h]; rfl
  · intro h; exact BitVec.eq_of_toNat_eq (by rw [h]; rfl)

/-- first conditional subtraction in `mul`: a value below 2^128 + 2^64·c is brought below 2^128 -/
theorem condsub_hi (u : BitVec 64 × BitVec 64 × BitVec 64) (t w : BitVec 64 × BitVec 64)
    (ht : sub_modulus u.1 u.2.1 = t)
    (hw : (if (u.2.2 == 1#64) = true then (t.1, t.2) else (u.1, u.2.1)) = w)
    (hb : v3 u < 2 ^ 128 + 2 ^ 64 * c) :
    v2 w + u.2.2.toNat * p = v3 u := by
  have hs := sub_modulus_spec u.1 u.2.1
  rw [ht] at hs
  have h0 := u.1.isLt; have h1 := u.2.1.isLt; have h2 := u.2.2.isLt
  unfold v3 at hb ⊢
  unfold v2 at hs ⊢
  simp only [c, p] at *
  by_cases hc : (u.2.2 == 1#64) = true
  · rw [if_pos hc] at hw
    have e := (beq_one_iff _).mp hc
    rw [← hw]; simp only []
    omega
  · rw [if_neg hc] at hw
    have e : u.2.2.toNat ≠ 1 := fun h => hc ((beq_one_iff _).mpr h)
    rw [← hw]; simp only []
    omega
/-- second conditional subtraction in `mul` (after y + (x << 64)): overflow beyond 192 bits is
    removed by subtracting p·2^64; needs the 192-bit addend y ≤ (p−1)(2^64−1), i.e. a < p -/
theorem condsub_mid (y : BitVec 64 × BitVec 64 × BitVec 64) (w s1 s2 tt y' : BitVec 64 × BitVec 64)
    (hs1 : v2 s1 = y.2.1.toNat + w.1.toNat + (0#64).toNat)
    (hs2 : v2 s2 = y.2.2.toNat + w.2.toNat + s1.2.toNat)
    (htt : sub_modulus s1.1 s2.1 = tt)
    (hy' : (if (s2.2 == 1#64) = true then (tt.1, tt.2) else (s1.1, s2.1)) = y')
    (hb : v3 y ≤ (p - 1) * (2 ^ 64 - 1)) :
    y.1.toNat + 2 ^ 64 * v2 y' + s2.2.toNat * (2 ^ 64 * p) = v3 y + 2 ^ 64 * v2 w := by
  have hs := sub_modulus_spec s1.1 s2.1
  rw [htt] at hs
  have h0 := y.1.isLt; have h1 := y.2.1.isLt; have h2 := y.2.2.isLt
  have h3 := w.1.isLt; have h4 := w.2.isLt
  have h5 := s1.1.isLt; have h6 := s1.2.isLt; have h7 := s2.1.isLt; have h8 := s2.2.isLt
  have hz : (0#64).toNat = 0 := rfl
  rw [hz] at hs1
  unfold v3 at hb ⊢
  unfold v2 at hs hs1 hs2 ⊢
  simp only [c, p] at *
  by_cases hc : (s2.2 == 1#64) = true
  · rw [if_pos hc] at hy'
    have e := (beq_one_iff _).mp hc
    rw [← hy']; simp only []
    omega
  · rw [if_neg hc] at hy'
    have e : s2.2.toNat ≠ 1 := fun h => hc ((beq_one_iff _).mpr h)
    rw [← hy']; simp only []
    omega
/-- the final conditional subtraction: any value below 2^128 + 2^64·c ends up canonical -/
theorem condsub_final (z : BitVec 64 × BitVec 64 × BitVec 64) (t z' : BitVec 64 × BitVec 64)
    (ht : sub_modulus z.1 z.2.1 = t)
    (hz' : (if (z.2.2 == 1#64 || z.2.1 == BitVec.setWidth 64 (M >>> 64) &&
        (BitVec.setWidth 64 M).ule z.1) = true then (t.1, t.2) else (z.1, z.2.1)) = z')
    (hb : v3 z < 2 ^ 128 + 2 ^ 64 * c) :
    v2 z' < p ∧ ∃ k, v2 z' + k * p = v3 z := by
  have hs := sub_modulus_spec z.1 z.2.1
  rw [ht] at hs
  rw [final_cond_bv] at hz'
  have hule : (BitVec.ule M (w2 z.1 z.2.1) = true) ↔ p ≤ v2 (z.1, z.2.1) := by
    rw [BitVec.ule_eq_decide, decide_eq_true_iff, M_toNat, w2_toNat]
  have h0 := z.1.isLt; have h1 := z.2.1.isLt; have h2 := z.2.2.isLt
  unfold v3 at hb ⊢
  unfold v2 at hs hule ⊢
  simp only [c, p] at *
  by_cases hc1 : (z.2.2 == 1#64) = true
  · have e := (beq_one_iff _).mp hc1
    rw [hc1, Bool.true_or, if_pos rfl] at hz'
    rw [← hz']; simp only []
    exact ⟨by omega, 1, by omega⟩
  · have e : z.2.2.toNat ≠ 1 := fun h => hc1 ((beq_one_iff _).mpr h)
    have hf : (z.2.2 == 1#64) = false := by simpa using hc1
    rw [hf, Bool.false_or] at hz'
    by_cases hc2 : BitVec.ule M (w2 z.1 z.2.1) = true
    · have e2 := hule.mp hc2
      rw [if_pos hc2] at hz'
      rw [← hz']; simp only []
      exact ⟨by omega, 1, by omega⟩
    · have e2 : ¬ _ := fun h => hc2 (hule.mpr h)
      rw [if_neg hc2] at hz'
      rw [← hz']; simp only []
      exact ⟨by omega, 0, by omega⟩

/-- the tuple matchers of the generated code, as projections (propositional, proved on constructors) -/
theorem match3' {α : Sort u} (e : BitVec 64 × BitVec 64 × BitVec 64)
    (alt : BitVec 64 → BitVec 64 → BitVec 64 → α) :
    mul_reduce.match_1 (fun _ => α) e alt = alt e.1 e.2.1 e.2.2 := by
  obtain ⟨x, y, z⟩ := e; rfl
theorem match2' {α : Sort u} (e : BitVec 64 × BitVec 64) (alt : BitVec 64 → BitVec 64 → α) :
    mul.match_1 (fun _ => α) e alt = alt e.1 e.2 := by
  obtain ⟨x, y⟩ := e; rfl

theorem split_hi_lo (b : BitVec 128) :
    b.toNat = (BitVec.setWidth 64 b).toNat + 2 ^ 64 * (BitVec.setWidth 64 (b >>> 64)).toNat := by
  simp only [BitVec.toNat_setWidth, BitVec.toNat_ushiftRight, Nat.shiftRight_eq_div_pow]
  have := b.isLt; omega

/-- final arithmetic of `mul`: chaining the six value equations -/
theorem mul_chain (R k P1 P2 AB x2 u2 y0 y'1 y'2 s22 vx vu vw vy vy' vz q : Nat)
    (hx : vx = P1) (hu' : vu + x2 * q = vx) (hw : vw + u2 * q = vu) (hy : vy = P2)
    (hmid : y0 + 2 ^ 64 * vy' + s22 * (2 ^ 64 * q) = vy + 2 ^ 64 * vw)
    (hy' : vy' = y'1 + 2 ^ 64 * y'2)
    (hz' : vz + y'2 * q = y0 + 2 ^ 64 * y'1 + 2 ^ 128 * y'2)
    (hk : R + k * q = vz) (hAB : AB = P2 + 2 ^ 64 * P1) :
    R + (k + y'2 + s22 * 2 ^ 64 + 2 ^ 64 * (u2 + x2)) * q = AB := by
  have e : (k + y'2 + s22 * 2 ^ 64 + 2 ^ 64 * (u2 + x2)) * q
      = k * q + y'2 * q + 2 ^ 64 * (s22 * q) + (2 ^ 64 * (u2 * q) + 2 ^ 64 * (x2 * q)) := by
    rw [Nat.add_mul, Nat.add_mul, Nat.add_mul, Nat.mul_assoc (2 ^ 64), Nat.add_mul, Nat.mul_add,
      Nat.mul_right_comm s22, Nat.mul_comm (s22 * q)]
  have e2 : s22 * (2 ^ 64 * q) = 2 ^ 64 * (s22 * q) := Nat.mul_left_comm _ _ _
  rw [e]; rw [e2] at hmid
  generalize k * q = kq at *
  generalize y'2 * q = yq at *
  generalize s22 * q = sq at *
  generalize u2 * q = uq at *
  generalize x2 * q = xq at *
  omega


theorem mul_reduce_spec' (z0 z1 z2 : BitVec 64) :
    v3 (mul_reduce z0 z1 z2) + z2.toNat * p
      = z0.toNat + 2 ^ 64 * z1.toNat + 2 ^ 128 * z2.toNat := by
  have h := mul_reduce_spec z0 z1 z2
  generalize v3 (mul_reduce z0 z1 z2) = r at h ⊢
  unfold v3 at h; simp only [] at h
  exact h

/-- `mul` with every intermediate result named: the value reasoning (all variables universally
    quantified, so the kernel checks it on variables only) -/
theorem mul_core (a b : BitVec 128) (ha : Rep a)
    (x u : BitVec 64 × BitVec 64 × BitVec 64) (t w : BitVec 64 × BitVec 64)
    (y : BitVec 64 × BitVec 64 × BitVec 64) (s1 s2 tt y' : BitVec 64 × BitVec 64)
    (z : BitVec 64 × BitVec 64 × BitVec 64) (t3 z' : BitVec 64 × BitVec 64)
    (hxe : mul_128x64 a (BitVec.setWidth 64 (b >>> 64)) = x)
    (hue : mul_reduce x.1 x.2.1 x.2.2 = u)
    (hte : sub_modulus u.1 u.2.1 = t)
    (hwe : (if (u.2.2 == 1#64) = true then (t.1, t.2) else (u.1, u.2.1)) = w)
    (hye : mul_128x64 a (BitVec.setWidth 64 b) = y)
    (hs1e : add64_with_carry y.2.1 w.1 0#64 = s1)
    (hs2e : add64_with_carry y.2.2 w.2 s1.2 = s2)
    (htte : sub_modulus s1.1 s2.1 = tt)
    (hy'e : (if (s2.2 == 1#64) = true then (tt.1, tt.2) else (s1.1, s2.1)) = y')
    (hze : mul_reduce y.1 y'.1 y'.2 = z)
    (ht3e : sub_modulus z.1 z.2.1 = t3)
    (hz'e : (if (z.2.2 == 1#64 || z.2.1 == BitVec.setWidth 64 (M >>> 64) &&
        (BitVec.setWidth 64 M).ule z.1) = true then (t3.1, t3.2) else (z.1, z.2.1)) = z') :
    Rep (BitVec.setWidth 128 z'.2 <<< 64 + BitVec.setWidth 128 z'.1) ∧
      (BitVec.setWidth 128 z'.2 <<< 64 + BitVec.setWidth 128 z'.1).toNat = a.toNat * b.toNat % p := by
  -- values
  have hx := mul_128x64_spec a (BitVec.setWidth 64 (b >>> 64)); rw [hxe] at hx
  unfold v3 at hx
  have hu := mul_reduce_val x.1 x.2.1 x.2.2; rw [hue] at hu
  have hu' := mul_reduce_spec' x.1 x.2.1 x.2.2; rw [hue] at hu'
  have hub : v3 u < 2 ^ 128 + 2 ^ 64 * c := by
    rw [hu]
    have := x.1.isLt; have := x.2.1.isLt; have := x.2.2.isLt
    simp only [c]; omega
  have hw := condsub_hi u t w hte hwe hub
  have hy := mul_128x64_spec a (BitVec.setWidth 64 b); rw [hye] at hy
  have hyb : v3 y ≤ (p - 1) * (2 ^ 64 - 1) := by
    rw [hy]
    have h1 := (rep_iff a).mp ha
    have h2 := (BitVec.setWidth 64 b).isLt
    exact Nat.mul_le_mul (by omega) (by omega)
  have hs1 := add64_with_carry_spec y.2.1 w.1 0#64; rw [hs1e] at hs1
  have hs2 := add64_with_carry_spec y.2.2 w.2 s1.2; rw [hs2e] at hs2
  have hmid := condsub_mid y w s1 s2 tt y' hs1 hs2 htte hy'e hyb
  have hz := mul_reduce_val y.1 y'.1 y'.2; rw [hze] at hz
  have hz' := mul_reduce_spec' y.1 y'.1 y'.2; rw [hze] at hz'
  have hzb : v3 z < 2 ^ 128 + 2 ^ 64 * c := by
    rw [hz]
    have := y.1.isLt; have := y'.1.isLt; have := y'.2.isLt
    simp only [c]; omega
  obtain ⟨hR, k, hk⟩ := condsub_final z t3 z' ht3e hz'e hzb
  rw [glue_bv, rep_iff, w2_toNat]
  have hAB : a.toNat * b.toNat = a.toNat * (BitVec.setWidth 64 b).toNat
      + 2 ^ 64 * (a.toNat * (BitVec.setWidth 64 (b >>> 64)).toNat) := by
    rw [Nat.mul_left_comm, ← Nat.mul_add, ← split_hi_lo]
  have hfin := mul_chain (v2 z') k _ _ _ x.2.2.toNat u.2.2.toNat y.1.toNat y'.1.toNat y'.2.toNat
    s2.2.toNat _ (v3 u) (v2 w) (v3 y) (v2 y') (v3 z) p hx hu' hw hy hmid rfl hz' hk hAB
  exact ⟨hR, eq_mod_of _ _ _ hR hfin⟩

/-- multiplication: for a reduced first operand and ANY 128-bit second operand the result is
    reduced and equals a·b mod p -/
theorem mul_spec_gen (a b : BitVec 128) (ha : Rep a) :
    Rep (mul a b) ∧ (mul a b).toNat = a.toNat * b.toNat % p := by
  have h : mul = mul := rfl
  conv at h => rhs; delta mul
  have h2 := congrFun (congrFun h a) b
  simp -iota -proj only [match3', match2'] at h2
  rw [h2]
  exact mul_core a b ha _ _ _ _ _ _ _ _ _ _ _ _ rfl rfl rfl rfl rfl rfl rfl rfl rfl rfl rfl rfl

theorem mul_spec (a b : BitVec 128) (ha : Rep a) (_hb : Rep b) :
    Rep (mul a b) ∧ (mul a b).toNat = a.toNat * b.toNat % p := mul_spec_gen a b ha

/-! ## corollaries used by the property file -/

theorem c_def : c = 2 ^ 128 - p := by decide

theorem sub_modulus_ge (lo hi : BitVec 64) (h : p ≤ v2 (lo, hi)) :
    v2 (sub_modulus lo hi) + p = v2 (lo, hi) := by
  rw [sub_modulus_spec]
  have := v2_lt (lo, hi)
  have hp : p = 340282366920938463463374557953744961537 := rfl
  have hc : c = 49478023249919 := rfl
  omega

theorem mul_reduce_lt (z0 z1 z2 : BitVec 64) :
    v3 (mul_reduce z0 z1 z2) < 2 ^ 128 + 2 ^ 64 * c := by
  rw [mul_reduce_val]
  have := z0.isLt; have := z1.isLt; have := z2.isLt
  simp only [c]; omega

theorem final_cond_iff (z0 z1 : BitVec 64) :
    ((z1 == (BitVec.setWidth 64 (M >>> 64))) && (BitVec.ule (BitVec.setWidth 64 M) z0)) = true
      ↔ p ≤ v2 (z0, z1) := by
  rw [final_cond_bv, BitVec.ule_eq_decide, decide_eq_true_iff, M_toNat, w2_toNat]

end Wf.F128
