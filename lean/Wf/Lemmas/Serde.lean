/- Helper lemmas for the C26 theorems (core Lean only). -/
import Wf.Model.Serde
namespace Wf

theorem leBytes_length (n v : Nat) : (leBytes n v).length = n := by
  induction n generalizing v with
  | zero => rfl
  | succ n ih => simp [leBytes, ih]

theorem fromLe_leBytes (n v : Nat) (h : v < 256 ^ n) : fromLe (leBytes n v) = v := by
  induction n generalizing v with
  | zero => simp at h; simp [leBytes, fromLe, h]
  | succ n ih =>
    have h' : v / 256 < 256 ^ n := by
      rw [Nat.pow_succ] at h
      exact Nat.div_lt_of_lt_mul (by rw [Nat.mul_comm]; exact h)
    simp only [leBytes, fromLe, ih _ h']
    have : (UInt8.ofNat (v % 256)).toNat = v % 256 := by
      simp [UInt8.toNat_ofNat']
    rw [this]; omega

theorem take_leBytes (m n x : Nat) (h : m ≤ n) : (leBytes n x).take m = leBytes m x := by
  induction m generalizing n x with
  | zero => simp [leBytes]
  | succ m ih =>
    cases n with
    | zero => omega
    | succ n => simp [leBytes, ih n (x / 256) (by omega)]

theorem fromLe_lt (bs : Bytes) : fromLe bs < 256 ^ bs.length := by
  induction bs with
  | nil => simp [fromLe]
  | cons b bs ih =>
    simp only [fromLe, List.length_cons, Nat.pow_succ]
    have := b.toNat_lt
    omega

theorem leBytes_fromLe (bs : Bytes) : leBytes bs.length (fromLe bs) = bs := by
  induction bs with
  | nil => rfl
  | cons b bs ih =>
    simp only [List.length_cons, leBytes, fromLe]
    have hb := b.toNat_lt
    have h1 : (b.toNat + 256 * fromLe bs) % 256 = b.toNat := by omega
    have h2 : (b.toNat + 256 * fromLe bs) / 256 = fromLe bs := by omega
    rw [h1, h2, ih]
    simp

theorem take_length_lt (bs : Bytes) (n : Nat) : (bs.take n).length < n ↔ bs.length < n := by
  simp only [List.length_take]; omega

theorem readLe_append (n v : Nat) (r : Bytes) (h : v < 256 ^ n) :
    readLe n (leBytes n v ++ r) = .ok v r := by
  unfold readLe
  have hl := leBytes_length n v
  have h1 : ¬ ((leBytes n v ++ r).take n).length < n := by
    rw [take_length_lt]; simp [hl]
  rw [if_neg h1]
  have h2 : (leBytes n v ++ r).take n = leBytes n v := by
    have := List.take_left (l₁ := leBytes n v) (l₂ := r)
    rwa [hl] at this
  have h3 : (leBytes n v ++ r).drop n = r := by
    have := List.drop_left (l₁ := leBytes n v) (l₂ := r)
    rwa [hl] at this
  rw [h2, h3, fromLe_leBytes n v h]

theorem readLe_short (n : Nat) (bs : Bytes) (h : bs.length < n) : readLe n bs = .err .eof := by
  unfold readLe; rw [if_pos ((take_length_lt bs n).mpr h)]

theorem readSlice_append (a r : Bytes) : readSlice a.length (a ++ r) = .ok a r := by
  unfold readSlice
  have h1 : ¬ ((a ++ r).take a.length).length < a.length := by
    rw [take_length_lt]; simp
  rw [if_neg h1]
  simp

end Wf
