/-
Helper lemmas for `Wf/Props/C05V.lean`, part 5: what an ACCEPTING run of the whole-verifier model has
established (the deterministic cores of C02 / C03).
-/
import Wf.Lemmas.VerifierTop
namespace Wf.Verifier
open Wf Wf.AirDesc Wf.AirDivisor

variable {F : Type}

/-- the steps of an accepting run of `verifyIn`, with the values that flow between them: the coin
`c3` from which the query positions are drawn is obtained by absorbing — in this order — the trace
commitment, the constraint commitment, the digest of the out-of-domain frame and every FRI
commitment (the last one commits to the remainder) -/
structure AcceptingRun (H : HashParams) (fp : FieldParams) (ef : EF F) (d : Desc) (pub : PubInputs)
    (p : ProofM) (ctx : Ctx) (seed : List Nat) (ch : Channel F) (tc0 : Nat) (coeffs : List F) (z : F)
    (c2 : CoinS) (deep alphas : List F) (c3 : CoinS) (positions : List Nat) : Prop where
  channel : channelNew fp ef ctx p = .ok ch
  commitment : ch.traceCommitments.head? = some tc0
  challenges : drawChallenges H fp ef p.context.options.batchC
      (d.trans.length + d.auxTrans.length + d.asserts.length) tc0 ch.constraintCommitment
      (Coin.new H.coin seed) = .ok ((coeffs, z), c2)
  ood : oodCheck fp ef d pub p.context.info ch coeffs z = .ok ()
  fri : friCommit H fp ef p.context.options
      (p.context.info.main + p.context.info.aux + ctx.numConstraintCompositionColumns)
      p.context.info.length ch (Coin.reseed H.coin c2 (oodDigest H ef ch)) = .ok ((deep, alphas), c3)
  queries : queryPositions H p.context.options (p.context.info.length * p.context.options.blowup)
      ch.nonce c3 = .ok positions
  openings : checkOpenings H ef ch tc0 positions = .ok ()
  lowDegree : lowDegreeCheck H fp ef p.context.info p.context.options ch z deep alphas positions = .ok ()

theorem verifyIn_ok (H : HashParams) (fp : FieldParams) (ef : EF F) (d : Desc) (pub : PubInputs)
    (p : ProofM) (ctx : Ctx) (seed : List Nat) (h : verifyIn H fp ef d pub p ctx seed = .ok ()) :
    ∃ ch tc0 coeffs z c2 deep alphas c3 positions,
      AcceptingRun H fp ef d pub p ctx seed ch tc0 coeffs z c2 deep alphas c3 positions := by
  unfold verifyIn at h
  split at h
  · cases h
  · rename_i ch hch
    unfold performVerification at h
    split at h
    · cases h
    · rename_i tc0 tl htc
      split at h
      · cases h
      · rename_i coeffs z c2 hdraw
        split at h
        · cases h
        · rename_i hood
          split at h
          · cases h
          · rename_i deep alphas c3 hfri
            split at h
            · cases h
            · rename_i positions hq
              split at h
              · cases h
              · rename_i hopen
                exact ⟨ch, tc0, coeffs, z, c2, deep, alphas, c3, positions,
                  { channel := hch, commitment := by rw [htc]; rfl, challenges := hdraw,
                    ood := hood,
                    fri := hfri, queries := hq,
                    openings := hopen,
                    lowDegree := h }⟩

/-- the out-of-domain equation checked by an accepting run -/
theorem oodCheck_ok (fp : FieldParams) (ef : EF F) (d : Desc) (pub : PubInputs) (info : TraceInfo)
    (ch : Channel F) (coeffs : List F) (z : F) (h : oodCheck fp ef d pub info ch coeffs z = .ok ()) :
    ∃ ev, evaluateConstraints fp ef d pub info (coeffs.take (d.trans.length + d.auxTrans.length))
        (coeffs.drop (d.trans.length + d.auxTrans.length)) ch.oodTraceCur ch.oodTraceNext z = .ok ev ∧
      ef.ops.beq ev (oodQuotientValue ef.ops z info.length ch.oodQuotCur) = true := by
  unfold oodCheck at h
  split at h
  · cases h
  · rename_i ev hev
    split at h
    · cases h
    · rename_i hb
      exact ⟨ev, hev, by simpa using hb⟩

/-- both batch openings verified -/
theorem checkOpenings_ok (H : HashParams) (ef : EF F) (ch : Channel F) (tc0 : Nat) (positions : List Nat)
    (h : checkOpenings H ef ch tc0 positions = .ok ()) :
    Merkle.verifyBatch H.merge tc0 positions (mainLeaves H ch) ch.mainProof = .ok () ∧
    Merkle.verifyBatch H.merge ch.constraintCommitment positions (constraintLeaves H ef ch)
      ch.constraintProof = .ok () := by
  unfold checkOpenings at h
  split at h
  · cases h
  · cases h
  · rename_i u1 h1
    split at h
    · cases h
    · cases h
    · rename_i u2 h2
      cases u1; cases u2
      exact ⟨h1, h2⟩

theorem friRes_ok {α} (r : Fri.Res α) (a : α) (h : friRes r = .ok a) : r = .ok a := by
  cases r with
  | ok b => simp only [friRes] at h; injection h with h; rw [h]
  | err e => simp [friRes] at h
  | abort => simp [friRes] at h

/-- the FRI phase of an accepting run: the remainder hashes to the last FRI commitment, and every
layer opening passed its Merkle batch verification against the layer commitment at the folded
(partition-mapped) positions; `Fri.verify` itself accepted (C08/C09 say what that means) -/
theorem lowDegreeCheck_ok (H : HashParams) (fp : FieldParams) (ef : EF F) (info : TraceInfo) (o : ProofOptions)
    (ch : Channel F) (z : F) (deep alphas : List F) (positions : List Nat)
    (h : lowDegreeCheck H fp ef info o ch z deep alphas positions = .ok ()) :
    remainderCommitted H ef ch = true ∧
    (∀ op ∈ (layerOpenings H ef o.folding ch.friNumPartitions positions
        (Fri.nextPow2 (info.length - 1 + 1) * o.blowup) ch.friCommitments ch.friLayers).take
        ((friOptions o).numFriLayers (Fri.nextPow2 (info.length - 1 + 1) * o.blowup)), op.merkleOk = true) ∧
    ∃ gLde gTrace gFri, Fri.verify ef.ops (friVerifier ef fp o info.length ch.friNumPartitions gFri alphas)
      (deepEvaluations ef fp (info.main + info.aux) ch z deep positions gLde gTrace) positions
      (layerOpenings H ef o.folding ch.friNumPartitions positions
        (Fri.nextPow2 (info.length - 1 + 1) * o.blowup) ch.friCommitments ch.friLayers)
      ch.friRemainder (remainderCommitted H ef ch) = .ok () := by
  unfold lowDegreeCheck at h
  split at h
  · rename_i gLde gTrace gFri _ _ _
    have hv := friRes_ok _ _ h
    refine ⟨?_, ?_, gLde, gTrace, gFri, hv⟩
    · obtain ⟨_, _, st, _, hrem⟩ := Fri.verify_ok _ _ _ _ _ _ _ hv
      exact (Fri.verifyRemainder_ok _ _ _ _ _ hrem).1
    · unfold Fri.verify at hv
      split at hv
      · cases hv
      · split at hv
        · cases hv
        · split at hv
          · rename_i st hst
            exact Fri.verifyLoop_merkle_fail _ _ _ _ _ _ _ hst
          · cases hv
          · cases hv
  · cases h

/-! ### from `verifyParsed` / `verifyModel` down to the run -/

/-- "in the evaluation field selected by the proof's extension byte" -/
def InField (fs : FieldSet) (ext : Nat) (P : (F : Type) → EF F → Prop) : Prop :=
  (ext = 1 ∧ P Nat fs.e1) ∨ (ext = 2 ∧ ∃ ef, fs.e2 = some ef ∧ P fs.F2 ef) ∨
  (ext ≠ 1 ∧ ext ≠ 2 ∧ ∃ ef, fs.e3 = some ef ∧ P fs.F3 ef)

theorem InField.imp {fs : FieldSet} {ext : Nat} {P Q : (F : Type) → EF F → Prop}
    (hpq : ∀ F ef, P F ef → Q F ef) (h : InField fs ext P) : InField fs ext Q := by
  rcases h with ⟨h1, h2⟩ | ⟨h1, ef, h2, h3⟩ | ⟨h1, h1', ef, h2, h3⟩
  · exact Or.inl ⟨h1, hpq _ _ h2⟩
  · exact Or.inr (Or.inl ⟨h1, ef, h2, hpq _ _ h3⟩)
  · exact Or.inr (Or.inr ⟨h1, h1', ef, h2, hpq _ _ h3⟩)

theorem verifyParsed_ok (H : HashParams) (fs : FieldSet) (d : Desc) (pub : PubInputs)
    (acc : Security.Acceptable) (p : ProofM) (h : verifyParsed H fs d pub acc p = .ok ()) :
    ∃ ctx ctxEls, validateOptions H acc p.context = .ok () ∧
      p.context.modulus = leBytes fs.fp.bytes fs.fp.m ∧
      contextElements fs.fp p.context = some ctxEls ∧
      p.context.options.queries < p.context.info.length * p.context.options.blowup ∧
      airNew d p.context.info p.context.options = some ctx ∧
      InField fs p.context.options.ext (fun _ ef =>
        verifyIn H fs.fp ef d pub p ctx (ctxEls ++ pubElements fs.fp d pub) = .ok ()) := by
  unfold verifyParsed at h
  split at h
  · cases h
  · rename_i u hval
    split at h
    · cases h
    · rename_i hmod
      split at h
      · cases h
      · rename_i ctxEls hels
        split at h
        · cases h
        · split at h
          · cases h
          · rename_i hq
            split at h
            · cases h
            · split at h
              · cases h
              · rename_i ctx hctx
                refine ⟨ctx, ctxEls, hval, by simpa using hmod, hels, by omega, hctx, ?_⟩
                split at h
                · rename_i h1; exact Or.inl ⟨h1, h⟩
                · rename_i h1
                  split at h
                  · rename_i h2
                    split at h
                    · cases h
                    · rename_i ef hef
                      exact Or.inr (Or.inl ⟨h2, ef, hef, h⟩)
                  · rename_i h2
                    split at h
                    · cases h
                    · rename_i ef hef
                      exact Or.inr (Or.inr ⟨h1, h2, ef, hef, h⟩)

theorem verifyModel_ok (H : HashParams) (fs : FieldSet) (d : Desc) (pub : PubInputs)
    (acc : Security.Acceptable) (bytes : Bytes) (h : verifyModel H fs d pub acc bytes = .ok ()) :
    ∃ p r, proofDec bytes = .ok p r ∧ verifyParsed H fs d pub acc p = .ok () := by
  unfold verifyModel at h
  split at h
  · rename_i p r hp; exact ⟨p, r, hp, h⟩
  · cases h
  · cases h

end Wf.Verifier
