/-
Helper lemmas for C13, part 2: degree_of / remove_leading_zeros, poly_from_roots, synthetic division
by a linear factor, by a product of linear factors and by `x^a - b`.
-/
import Wf.Lemmas.Polynom
set_option linter.unusedSectionVars false
set_option linter.unusedSimpArgs false
namespace Wf.Polynom
open Polynomial Wf Wf.BatchUtils

section ring2
variable {R : Type} [CommRing R] [DecidableEq R] (inv : R → R)

theorem ofCoeffs_eq_zero_of_forall (l : List R) (h : ∀ c ∈ l, c = 0) : ofCoeffs l = 0 := by
  induction l with
  | nil => rfl
  | cons c cs ih =>
    rw [ofCoeffs_cons, h c (List.mem_cons_self ..), ih (fun d hd => h d (List.mem_cons_of_mem _ hd))]
    simp

theorem lastNonzero_none (l : List R) (h : lastNonzero (ringOps R inv) l = none) : ∀ c ∈ l, c = 0 := by
  induction l with
  | nil => intro c hc; cases hc
  | cons c cs ih =>
    simp only [lastNonzero, ringOps_beq, ringOps_zero] at h
    by_cases hc : c = 0
    · simp only [hc, decide_true, if_true] at h
      intro d hd
      rcases List.mem_cons.mp hd with rfl | hd
      · exact hc
      · exact ih h d hd
    · simp [hc] at h

theorem lastNonzero_some (l : List R) (i : Nat) (h : lastNonzero (ringOps R inv) l = some i) :
    ∃ pre c rest, l = pre ++ c :: rest ∧ (∀ z ∈ pre, z = 0) ∧ c ≠ 0 ∧ i = rest.length := by
  induction l with
  | nil => cases h
  | cons c cs ih =>
    simp only [lastNonzero, ringOps_beq, ringOps_zero] at h
    by_cases hc : c = 0
    · simp only [hc, decide_true, if_true] at h
      obtain ⟨pre, d, rest, e, hz, hd, hi⟩ := ih h
      refine ⟨c :: pre, d, rest, by rw [e]; rfl, ?_, hd, hi⟩
      intro z hz'
      rcases List.mem_cons.mp hz' with rfl | hz'
      · exact hc
      · exact hz z hz'
    · simp only [hc, decide_false] at h
      refine ⟨[], c, cs, rfl, by simp, hc, ?_⟩
      simpa using h.symm

/-- shape of a coefficient list seen from its last non-zero coefficient -/
theorem lastNonzero_reverse_some (p : List R) (i : Nat)
    (h : lastNonzero (ringOps R inv) p.reverse = some i) :
    ∃ low c zs, p = low ++ c :: zs ∧ (∀ z ∈ zs, z = 0) ∧ c ≠ 0 ∧ i = low.length := by
  obtain ⟨pre, c, rest, e, hz, hc, hi⟩ := lastNonzero_some inv _ _ h
  refine ⟨rest.reverse, c, pre.reverse, ?_, ?_, hc, by simpa using hi⟩
  · have := congrArg List.reverse e
    simpa using this
  · intro z hz'
    exact hz z (List.mem_reverse.mp hz')

theorem natDegree_low_append (low : List R) (c : R) (hc : c ≠ 0) :
    (ofCoeffs (low ++ [c])).natDegree = low.length := by
  rw [ofCoeffs_append]
  simp only [ofCoeffs_cons, ofCoeffs_nil, mul_zero, add_zero]
  rw [mul_comm, natDegree_add_eq_right_of_degree_lt, natDegree_C_mul_X_pow _ _ hc]
  rw [degree_C_mul_X_pow _ hc]
  exact degree_ofCoeffs_lt low

theorem degreeOf_eq (p : List R) : degreeOf (ringOps R inv) p = (ofCoeffs p).natDegree := by
  unfold degreeOf
  cases h : lastNonzero (ringOps R inv) p.reverse with
  | none =>
    have := lastNonzero_none inv _ h
    rw [ofCoeffs_eq_zero_of_forall p (fun c hc => this c (List.mem_reverse.mpr hc))]
    simp
  | some i =>
    obtain ⟨low, c, zs, e, hz, hc, hi⟩ := lastNonzero_reverse_some inv p i h
    subst e hi
    have : low ++ c :: zs = (low ++ [c]) ++ zs := by simp
    rw [this, ofCoeffs_append, ofCoeffs_eq_zero_of_forall zs hz]
    simp only [mul_zero, add_zero]
    exact (natDegree_low_append low c hc).symm

theorem removeLeadingZeros_spec (p : List R) :
    ofCoeffs (removeLeadingZeros (ringOps R inv) p) = ofCoeffs p ∧
    (∃ zs, p = removeLeadingZeros (ringOps R inv) p ++ zs ∧ ∀ z ∈ zs, z = 0) ∧
    (∀ h : removeLeadingZeros (ringOps R inv) p ≠ [],
      (removeLeadingZeros (ringOps R inv) p).getLast h ≠ 0) ∧
    (removeLeadingZeros (ringOps R inv) p).length
      = if ofCoeffs p = 0 then 0 else (ofCoeffs p).natDegree + 1 := by
  unfold removeLeadingZeros
  cases h : lastNonzero (ringOps R inv) p.reverse with
  | none =>
    have hz := lastNonzero_none inv _ h
    have hz' : ∀ c ∈ p, c = 0 := fun c hc => hz c (List.mem_reverse.mpr hc)
    have h0 := ofCoeffs_eq_zero_of_forall p hz'
    refine ⟨by simp [h0], ⟨p, by simp, hz'⟩, fun h => absurd rfl h, by simp [h0]⟩
  | some i =>
    obtain ⟨low, c, zs, e, hz, hc, hi⟩ := lastNonzero_reverse_some inv p i h
    subst e hi
    have e1 : low ++ c :: zs = (low ++ [c]) ++ zs := by simp
    have e2 : (low ++ c :: zs).take (low.length + 1) = low ++ [c] := by
      rw [e1, List.take_left' (by simp)]
    have e3 : ofCoeffs (low ++ c :: zs) = ofCoeffs (low ++ [c]) := by
      rw [e1, ofCoeffs_append, ofCoeffs_eq_zero_of_forall zs hz]; simp
    have hne : ofCoeffs (low ++ [c]) ≠ 0 := by
      intro h0
      have := congrArg (fun q => q.coeff low.length) h0
      simp only [coeff_ofCoeffs, coeff_zero] at this
      simp at this
      exact hc this
    simp only [e2]
    refine ⟨e3.symm, ⟨zs, e1, hz⟩, fun _ => by simpa using hc, ?_⟩
    rw [e3, if_neg hne, natDegree_low_append low c hc]
    simp

end ring2

section ring3
variable {R : Type} [CommRing R] [DecidableEq R] (inv : R → R)

/-! ### poly_from_roots -/

theorem stepRoot_spec (x : R) (l : List R) :
    (stepRoot (ringOps R inv) x l).length = l.length ∧
    ofCoeffs (stepRoot (ringOps R inv) x l) = ofCoeffs l - C x * ofCoeffs l.tail := by
  induction l with
  | nil => simp [stepRoot]
  | cons c rest ih =>
    cases rest with
    | nil => simp [stepRoot]
    | cons d rest =>
      obtain ⟨ih1, ih2⟩ := ih
      constructor
      · simp only [stepRoot, List.length_cons] at ih1 ⊢
        omega
      · simp only [stepRoot, ofCoeffs_cons, ringOps_sub, ringOps_mul, List.tail_cons] at ih2 ⊢
        rw [ih2, C_sub, C_mul]
        ring

theorem stepRoot_zero_cons (x : R) (cur : List R) :
    (stepRoot (ringOps R inv) x (0 :: cur)).length = cur.length + 1 ∧
    ofCoeffs (stepRoot (ringOps R inv) x (0 :: cur)) = (X - C x) * ofCoeffs cur := by
  obtain ⟨h1, h2⟩ := stepRoot_spec inv x (0 :: cur)
  refine ⟨by simpa using h1, ?_⟩
  rw [h2]
  simp only [ofCoeffs_cons, List.tail_cons, map_zero]
  ring

theorem foldl_stepRoot_spec (xs : List R) (init : List R) :
    (xs.foldl (fun cur x => stepRoot (ringOps R inv) x (0 :: cur)) init).length
      = init.length + xs.length ∧
    ofCoeffs (xs.foldl (fun cur x => stepRoot (ringOps R inv) x (0 :: cur)) init)
      = ofCoeffs init * (xs.map (fun r => X - C r)).prod := by
  induction xs generalizing init with
  | nil => simp
  | cons x xs ih =>
    obtain ⟨h1, h2⟩ := stepRoot_zero_cons inv x init
    obtain ⟨i1, i2⟩ := ih (stepRoot (ringOps R inv) x (0 :: init))
    simp only [List.foldl_cons, List.length_cons, List.map_cons, List.prod_cons]
    constructor
    · rw [i1, h1]; omega
    · rw [i2, h2]; ring

theorem polyFromRoots_spec (xs : List R) :
    (polyFromRoots (ringOps R inv) xs).length = xs.length + 1 ∧
    ofCoeffs (polyFromRoots (ringOps R inv) xs) = (xs.map (fun r => X - C r)).prod := by
  obtain ⟨h1, h2⟩ := foldl_stepRoot_spec inv xs [1]
  unfold polyFromRoots fillZeroRoots
  simp only [ringOps_one, ringOps_zero]
  refine ⟨by simpa [Nat.add_comm] using h1, ?_⟩
  rw [h2]
  simp

/-! ### synthetic division by a linear factor -/

theorem synDiv1_cons (ops : FieldOps R) (b x : R) (xs : List R) :
    synDiv1 ops b (x :: xs) =
      ((synDiv1 ops b xs).2 :: (synDiv1 ops b xs).1, ops.add x (ops.mul b (synDiv1 ops b xs).2)) := rfl

theorem synDiv1_spec (b : R) (p : List R) :
    (synDiv1 (ringOps R inv) b p).1.length = p.length ∧
    ofCoeffs p = ofCoeffs (synDiv1 (ringOps R inv) b p).1 * (X - C b)
      + C (synDiv1 (ringOps R inv) b p).2 := by
  induction p with
  | nil => simp [synDiv1]
  | cons x xs ih =>
    obtain ⟨h1, h2⟩ := ih
    rw [synDiv1_cons]
    refine ⟨by simp [h1], ?_⟩
    simp only [ofCoeffs_cons, ringOps_add, ringOps_mul, C_add, C_mul]
    rw [h2]
    ring

/-- the top coefficient of the in-place quotient is zero -/
theorem synDiv1_top (b : R) (p : List R) (hp : p ≠ []) :
    ∃ q, (synDiv1 (ringOps R inv) b p).1 = q ++ [0] := by
  induction p with
  | nil => exact absurd rfl hp
  | cons x xs ih =>
    rw [synDiv1_cons]
    cases xs with
    | nil => exact ⟨[], by simp [synDiv1]⟩
    | cons y ys =>
      obtain ⟨q, hq⟩ := ih (by simp)
      exact ⟨(synDiv1 (ringOps R inv) b (y :: ys)).2 :: q, by simp [hq]⟩

/-- the dropped remainder of the linear pass is the value at `b` -/
theorem synDiv1_remainder (b : R) (p : List R) :
    (synDiv1 (ringOps R inv) b p).2 = (ofCoeffs p).eval b := by
  have := congrArg (Polynomial.eval b) (synDiv1_spec inv b p).2
  simp only [eval_add, eval_mul, eval_sub, eval_X, eval_C, sub_self, mul_zero, zero_add] at this
  exact this.symm

/-- successive linear passes: quotient by the product, remainder of length `roots.length` -/
theorem foldl_synDiv1_spec (roots : List R) (p : List R) :
    (roots.foldl (fun p r => (synDiv1 (ringOps R inv) r p).1) p).length = p.length ∧
    ∃ rl : List R, rl.length = roots.length ∧
      ofCoeffs p = ofCoeffs (roots.foldl (fun p r => (synDiv1 (ringOps R inv) r p).1) p)
        * (roots.map (fun r => X - C r)).prod + ofCoeffs rl := by
  induction roots generalizing p with
  | nil => exact ⟨rfl, [], rfl, by simp⟩
  | cons r rs ih =>
    obtain ⟨l1, e1⟩ := synDiv1_spec inv r p
    obtain ⟨l2, rl', hl, e2⟩ := ih (synDiv1 (ringOps R inv) r p).1
    simp only [List.foldl_cons, List.map_cons, List.prod_cons, List.length_cons]
    refine ⟨by rw [l2, l1], ?_⟩
    obtain ⟨s1, s2⟩ := stepRoot_zero_cons inv r rl'
    -- remainder: rl' * (X - r) + c, as a list
    cases hs : stepRoot (ringOps R inv) r (0 :: rl') with
    | nil => rw [hs] at s1; simp at s1
    | cons h t =>
      rw [hs] at s1 s2
      refine ⟨(h + (synDiv1 (ringOps R inv) r p).2) :: t, by simp at s1 ⊢; omega, ?_⟩
      rw [e1]
      conv => lhs; rw [e2]
      have : ofCoeffs ((h + (synDiv1 (ringOps R inv) r p).2) :: t)
          = ofCoeffs (h :: t) + C (synDiv1 (ringOps R inv) r p).2 := by
        simp only [ofCoeffs_cons, C_add]; ring
      rw [this, s2]
      ring

end ring3

section ring4
variable {R : Type} [CommRing R] [DecidableEq R] (inv : R → R)

theorem synDivLoop_succ (ops : FieldOps R) (a : Nat) (b : R) (i : Nat) (p : List R) :
    synDivLoop ops a b (i + 1) p =
      match p[i]?, p[i + a]? with
      | some x, some y =>
        synDivLoop ops a b i (p.set i (ops.add x (if ops.beq b ops.one then y else ops.mul y b)))
      | _, _ => none := rfl

omit [DecidableEq R] in
theorem getD_set_ne (l : List R) (i k : Nat) (v : R) (h : k ≠ i) :
    (l.set i v).getD k 0 = l.getD k 0 := by
  simp only [List.getD_eq_getElem?_getD, List.getElem?_set]
  rw [if_neg (Ne.symm h)]

omit [DecidableEq R] in
theorem getD_set_eq (l : List R) (i : Nat) (v : R) (h : i < l.length) :
    (l.set i v).getD i 0 = v := by
  simp [List.getD_eq_getElem?_getD, h]

omit [DecidableEq R] in
theorem getD_of_lt (l : List R) (i : Nat) (h : i < l.length) : l.getD i 0 = l[i] := by
  simp [List.getD_eq_getElem?_getD, h]

theorem synDivLoop_spec (a : Nat) (ha : 0 < a) (b : R) (i : Nat) (p : List R) (h : i + a ≤ p.length) :
    ∃ p', synDivLoop (ringOps R inv) a b i p = some p' ∧ p'.length = p.length ∧
      ∀ k, p'.getD k 0 = if k < i then p.getD k 0 + p'.getD (k + a) 0 * b else p.getD k 0 := by
  induction i generalizing p with
  | zero => exact ⟨p, rfl, rfl, fun k => by simp⟩
  | succ i ih =>
    have hi : i < p.length := by omega
    have hia : i + a < p.length := by omega
    have hb : (if (ringOps R inv).beq b (ringOps R inv).one then p[i + a] else (ringOps R inv).mul p[i + a] b)
        = p[i + a] * b := by
      simp only [ringOps_beq, ringOps_one, ringOps_mul]
      by_cases h1 : b = 1 <;> simp [h1]
    obtain ⟨p', h1, l1, e1⟩ := ih (p.set i (p[i] + p[i + a] * b)) (by simp; omega)
    refine ⟨p', ?_, by simpa using l1, ?_⟩
    · rw [synDivLoop_succ]
      simp only [List.getElem?_eq_getElem hi, List.getElem?_eq_getElem hia, hb, ringOps_add]
      exact h1
    · intro k
      rw [e1 k]
      have eia : p'.getD (i + a) 0 = p[i + a] := by
        rw [e1 (i + a)]
        have : ¬ (i + a < i) := by omega
        simp only [this, if_false]
        rw [getD_set_ne _ _ _ _ (by omega), getD_of_lt _ _ hia]
      by_cases hk : k < i
      · have : k < i + 1 := by omega
        simp only [hk, this, if_true]
        rw [getD_set_ne _ _ _ _ (by omega)]
      · by_cases hk2 : k = i
        · subst hk2
          simp only [lt_irrefl, if_false, Nat.lt_succ_self, if_true, eia]
          rw [getD_set_eq _ _ _ hi, getD_of_lt _ _ hi]
        · have : ¬ (k < i + 1) := by omega
          simp only [hk, this, if_false]
          rw [getD_set_ne _ _ _ _ hk2]

omit [DecidableEq R] in
theorem getD_drop (l : List R) (a m : Nat) : (l.drop a).getD m 0 = l.getD (m + a) 0 := by
  simp [List.getD_eq_getElem?_getD, Nat.add_comm]

omit [DecidableEq R] in
theorem getD_take (l : List R) (a n : Nat) :
    (l.take a).getD n 0 = if n < a then l.getD n 0 else 0 := by
  by_cases h : n < a
  · simp [List.getD_eq_getElem?_getD, List.getElem?_take, h]
  · simp [List.getD_eq_getElem?_getD, List.getElem?_take, h]

omit [DecidableEq R] in
theorem getD_of_le (l : List R) (i : Nat) (h : l.length ≤ i) : l.getD i 0 = 0 := by
  simp [List.getD_eq_getElem?_getD, List.getElem?_eq_none h]

omit [DecidableEq R] in
/-- the recurrence left by the `a > 1` loop is the division identity by `x^a - b` -/
theorem synDiv_identity (a : Nat) (b : R) (p p' : List R) (hl : p'.length = p.length)
    (hle : a ≤ p.length)
    (e : ∀ k, p'.getD k 0 = if k < p.length - a then p.getD k 0 + p'.getD (k + a) 0 * b else p.getD k 0) :
    ofCoeffs p = ofCoeffs (p'.drop a) * (X ^ a - C b) + ofCoeffs (p'.take a) := by
  ext n
  rw [mul_sub, coeff_add, coeff_sub, coeff_mul_X_pow', coeff_mul_C]
  simp only [coeff_ofCoeffs, getD_drop, getD_take]
  have en := e n
  by_cases h1 : n < p.length - a
  · rw [if_pos h1] at en
    by_cases h2 : a ≤ n
    · have h3 : ¬ n < a := by omega
      rw [if_pos h2, if_neg h3, Nat.sub_add_cancel h2, en]
      ring
    · have h3 : n < a := by omega
      rw [if_neg h2, if_pos h3, en]
      ring
  · rw [if_neg h1] at en
    have h4 : p'.getD (n + a) 0 = 0 := getD_of_le _ _ (by omega)
    by_cases h2 : a ≤ n
    · have h3 : ¬ n < a := by omega
      rw [if_pos h2, if_neg h3, Nat.sub_add_cancel h2, en, h4]
      ring
    · have h3 : n < a := by omega
      rw [if_neg h2, if_pos h3, en, h4]
      ring

theorem synDivInPlace_spec (p : List R) (a : Nat) (b : R) (ha : 0 < a) (hb : b ≠ 0)
    (hp : a < p.length) :
    ∃ q0 rl, synDivInPlace (ringOps R inv) p a b = some (q0 ++ List.replicate a 0) ∧
      q0.length = p.length - a ∧ rl.length = a ∧
      ofCoeffs p = ofCoeffs q0 * (X ^ a - C b) + ofCoeffs rl := by
  unfold synDivInPlace
  rw [if_neg (by omega)]
  simp only [ringOps_beq, ringOps_zero, hb, decide_false, Bool.false_eq_true, if_false]
  rw [if_neg (by omega)]
  by_cases h1 : a = 1
  · subst h1
    rw [if_pos rfl]
    obtain ⟨l1, e1⟩ := synDiv1_spec inv b p
    obtain ⟨q0, hq⟩ := synDiv1_top inv b p (by intro h; rw [h] at hp; simp at hp)
    refine ⟨q0, [(synDiv1 (ringOps R inv) b p).2], by rw [hq]; rfl, ?_, rfl, ?_⟩
    · have := congrArg List.length hq
      rw [l1] at this
      simp at this
      omega
    · rw [e1, hq, ofCoeffs_append]
      simp
  · rw [if_neg h1]
    obtain ⟨p', h2, l2, e2⟩ := synDivLoop_spec inv a ha b (p.length - a) p (by omega)
    rw [h2]
    refine ⟨p'.drop a, p'.take a, rfl, by simp [l2], by simp [l2]; omega, ?_⟩
    exact synDiv_identity a b p p' l2 (by omega) e2

theorem synDivInPlace_none_iff (p : List R) (a : Nat) (b : R) :
    synDivInPlace (ringOps R inv) p a b = none ↔ a = 0 ∨ b = 0 ∨ p.length ≤ a := by
  constructor
  · intro h
    by_cases h1 : a = 0
    · exact Or.inl h1
    · by_cases h2 : b = 0
      · exact Or.inr (Or.inl h2)
      · by_cases h3 : p.length ≤ a
        · exact Or.inr (Or.inr h3)
        · obtain ⟨q0, rl, e, _⟩ := synDivInPlace_spec inv p a b (by omega) h2 (by omega)
          rw [e] at h; cases h
  · intro h
    unfold synDivInPlace
    rcases h with h | h | h
    · rw [if_pos h]
    · by_cases h1 : a = 0
      · rw [if_pos h1]
      · rw [if_neg h1]; simp [h]
    · by_cases h1 : a = 0
      · rw [if_pos h1]
      · rw [if_neg h1]
        by_cases h2 : b = 0
        · simp [h2]
        · simp [h2, h]

end ring4

end Wf.Polynom
