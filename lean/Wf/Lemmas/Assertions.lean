/-
Helper lemmas for C21: powers of two, membership in the progression `f + m·i (i < n/m)`, and the
step sets of valid assertions.  Core Lean only.
-/
import Wf.Model.Assertions
namespace Wf
open Assertion

theorem isPow2_iff (n : Nat) : isPow2 n = true ↔ Pow2 n := by
  unfold isPow2 Pow2
  rw [beq_iff_eq]
  constructor
  · intro h; exact ⟨_, h.symm⟩
  · rintro ⟨k, rfl⟩; rw [Nat.log2_two_pow]

theorem isPow2_false_iff (n : Nat) : isPow2 n = false ↔ ¬ Pow2 n := by
  rw [← isPow2_iff]; cases isPow2 n <;> simp

namespace Assertion

theorem Pow2.pos {a : Nat} (h : Pow2 a) : 0 < a := by
  obtain ⟨k, rfl⟩ := h; exact Nat.pow_pos (by omega)

theorem Pow2.dvd_of_le {a b : Nat} (ha : Pow2 a) (hb : Pow2 b) (h : a ≤ b) : a ∣ b := by
  obtain ⟨k, rfl⟩ := ha; obtain ⟨j, rfl⟩ := hb
  exact Nat.pow_dvd_pow 2 ((Nat.pow_le_pow_iff_right (by omega)).1 h)

/-- membership in a full progression modulo `m` below `n` -/
theorem mem_progression {m n f s : Nat} (hd : m ∣ n) (hf : f < m) :
    s ∈ (List.range (n / m)).map (fun i => f + m * i) ↔ s < n ∧ s % m = f := by
  simp only [List.mem_map, List.mem_range]
  constructor
  · rintro ⟨i, hi, rfl⟩
    constructor
    · have h1 : m * (i + 1) ≤ m * (n / m) := Nat.mul_le_mul_left m hi
      have h2 : m * (n / m) = n := Nat.mul_div_cancel' hd
      rw [Nat.mul_add] at h1; omega
    · rw [Nat.add_mul_mod_self_left]; exact Nat.mod_eq_of_lt hf
  · rintro ⟨hs, rfl⟩
    refine ⟨s / m, ?_, ?_⟩
    · apply Nat.div_lt_of_lt_mul; rw [Nat.mul_div_cancel' hd]; exact hs
    · have := Nat.div_add_mod s m; omega

/-- `(g − f)` is a multiple of `m` iff `g ≡ f (mod m)`, for a reduced `f ≤ g` -/
theorem sub_mod_iff {f g m : Nat} (hf : f < m) (hle : f ≤ g) : (g - f) % m = 0 ↔ g % m = f := by
  constructor
  · intro h
    obtain ⟨q, hq⟩ := Nat.dvd_of_mod_eq_zero h
    have : g = f + m * q := by omega
    rw [this, Nat.add_mul_mod_self_left]; exact Nat.mod_eq_of_lt hf
  · intro h
    have h1 := Nat.div_add_mod g m
    have : g - f = m * (g / m) := by omega
    rw [this]; exact Nat.mul_mod_right _ _

variable {a b : Assertion} {n s : Nat}

theorem isSingle_iff : a.isSingle = true ↔ a.stride = 0 := by
  simp [isSingle, NO_STRIDE]

theorem mem_steps_single (hs : a.stride = 0) : s ∈ a.steps n ↔ s = a.firstStep := by
  simp [steps, numSteps, isSingle, NO_STRIDE, hs]

theorem Valid.stride_dvd (hv : Valid a n) (hs : a.stride ≠ 0) : a.stride ∣ n := by
  obtain ⟨⟨_, _, hw⟩, hn, _, hp, hq⟩ := hv
  by_cases h1 : a.values.length = 1
  · exact Pow2.dvd_of_le (hw hs).1 hn (hp hs h1)
  · exact ⟨a.values.length, by rw [← hq hs h1, Nat.mul_comm]⟩

theorem Valid.numSteps_nonsingle (hv : Valid a n) (hs : a.stride ≠ 0) :
    a.numSteps n = n / a.stride := by
  obtain ⟨⟨_, _, hw⟩, hn, _, hp, hq⟩ := hv
  by_cases h1 : a.values.length = 1
  · simp [numSteps, isSingle, isPeriodic, NO_STRIDE, hs, h1]
  · have h : a.numSteps n = a.values.length := by
      simp [numSteps, isSingle, isPeriodic, NO_STRIDE, hs, h1]
    rw [h, ← hq hs h1, Nat.mul_div_cancel _ (by omega)]

/-- the step set of a valid non-single assertion is a full residue class below `n` -/
theorem Valid.mem_steps (hv : Valid a n) (hs : a.stride ≠ 0) :
    s ∈ a.steps n ↔ s < n ∧ s % a.stride = a.firstStep := by
  unfold steps
  rw [hv.numSteps_nonsingle hs]
  exact mem_progression (hv.stride_dvd hs) (hv.1.2.2 hs).2.2

theorem Valid.first_lt (hv : Valid a n) : a.firstStep < n := by
  by_cases hs : a.stride = 0
  · exact hv.2.2.1 hs
  · have h1 := (hv.1.2.2 hs).2.2
    have h2 := Nat.le_of_dvd hv.2.1.pos (hv.stride_dvd hs)
    omega

theorem Valid.first_mem (hv : Valid a n) : a.firstStep ∈ a.steps n := by
  by_cases hs : a.stride = 0
  · exact (mem_steps_single hs).2 rfl
  · exact (hv.mem_steps hs).2 ⟨hv.first_lt, Nat.mod_eq_of_lt (hv.1.2.2 hs).2.2⟩

theorem Valid.ge_first (hv : Valid a n) (h : s ∈ a.steps n) : a.firstStep ≤ s := by
  by_cases hs : a.stride = 0
  · rw [(mem_steps_single hs).1 h]; exact Nat.le_refl _
  · have := ((hv.mem_steps hs).1 h).2
    rw [← this]; exact Nat.mod_le _ _

/-- One half of the case analysis of `overlaps_with` (`a` starts strictly before `b`). -/
theorem overlap_half (ha : Valid a n) (hb : Valid b n) (hlt : a.firstStep < b.firstStep)
    (hne : a.stride ≠ b.stride) :
    (if a.isSingle then false
     else if b.isSingle || decide (a.stride < b.stride) then
       isMultipleOf (b.firstStep - a.firstStep) a.stride
     else false) = true ↔ ∃ s, s ∈ a.steps n ∧ s ∈ b.steps n := by
  by_cases hsa : a.stride = 0
  · -- `a` is a single cell before every step of `b`
    simp only [isSingle_iff.2 hsa, if_true, Bool.false_eq_true, false_iff]
    rintro ⟨s, h1, h2⟩
    have := (mem_steps_single hsa).1 h1
    have := hb.ge_first h2
    omega
  · have hfa := (ha.1.2.2 hsa).2.2
    have hsa' : a.isSingle = false := by simp [isSingle, NO_STRIDE, hsa]
    simp only [hsa', Bool.false_eq_true, if_false]
    by_cases hsb : b.stride = 0
    · -- `b` is a single cell: it is hit iff it lies in `a`'s residue class
      simp only [isSingle_iff.2 hsb, Bool.true_or, if_true, isMultipleOf, beq_iff_eq]
      rw [sub_mod_iff hfa (Nat.le_of_lt hlt)]
      constructor
      · intro h
        exact ⟨b.firstStep, (ha.mem_steps hsa).2 ⟨hb.first_lt, h⟩, hb.first_mem⟩
      · rintro ⟨s, h1, h2⟩
        rw [(mem_steps_single hsb).1 h2] at h1
        exact ((ha.mem_steps hsa).1 h1).2
    · have hsb' : b.isSingle = false := by simp [isSingle, NO_STRIDE, hsb]
      have hfb := (hb.1.2.2 hsb).2.2
      simp only [hsb', Bool.false_or, decide_eq_true_eq]
      by_cases hss : a.stride < b.stride
      · -- finer progression first: `b`'s class is inside one class of `a`
        have hdvd : a.stride ∣ b.stride :=
          Pow2.dvd_of_le (ha.1.2.2 hsa).1 (hb.1.2.2 hsb).1 (Nat.le_of_lt hss)
        simp only [hss, if_true, isMultipleOf, beq_iff_eq]
        rw [sub_mod_iff hfa (Nat.le_of_lt hlt)]
        constructor
        · intro h
          exact ⟨b.firstStep, (ha.mem_steps hsa).2 ⟨hb.first_lt, h⟩, hb.first_mem⟩
        · rintro ⟨s, h1, h2⟩
          have e1 := ((ha.mem_steps hsa).1 h1).2
          have e2 := ((hb.mem_steps hsb).1 h2).2
          rw [← e2, Nat.mod_mod_of_dvd _ hdvd]; exact e1
      · -- coarser progression first: residues modulo the finer stride differ
        have hgt : b.stride < a.stride := by omega
        have hdvd : b.stride ∣ a.stride :=
          Pow2.dvd_of_le (hb.1.2.2 hsb).1 (ha.1.2.2 hsa).1 (Nat.le_of_lt hgt)
        simp only [hss, if_false, Bool.false_eq_true, false_iff]
        rintro ⟨s, h1, h2⟩
        have e1 := ((ha.mem_steps hsa).1 h1).2
        have e2 := ((hb.mem_steps hsb).1 h2).2
        have e3 : s % a.stride % b.stride = s % b.stride := Nat.mod_mod_of_dvd _ hdvd
        rw [e1, e2, Nat.mod_eq_of_lt (by omega)] at e3
        omega

/-! ### `prepare_assertions` -/

/-- assertions comparing `Equal` under `Ord` (same stride, first step, column) are reported as
overlapping, so the `BTreeSet` never silently drops an accepted assertion -/
theorem cmp_eq_overlaps {x y : Assertion} (h : cmp x y = .eq) : y.overlapsWith x = true := by
  unfold cmp at h
  by_cases h1 : x.stride = y.stride
  · simp only [h1, beq_self_eq_true, if_true] at h
    by_cases h2 : x.firstStep = y.firstStep
    · simp only [h2, beq_self_eq_true, if_true] at h
      have h3 : x.column = y.column := Nat.compare_eq_eq.1 h
      simp [overlapsWith, h2, h3]
    · have h2' : (x.firstStep == y.firstStep) = false := by simp [h2]
      simp only [h2', Bool.false_eq_true, if_false] at h
      exact absurd (Nat.compare_eq_eq.1 h) h2
  · have h1' : (x.stride == y.stride) = false := by simp [h1]
    simp only [h1', Bool.false_eq_true, if_false] at h
    exact absurd (Nat.compare_eq_eq.1 h) h1

theorem mem_insertSorted {x z : Assertion} {acc : List Assertion}
    (h : ∀ y ∈ acc, cmp x y ≠ .eq) : z ∈ insertSorted x acc ↔ z = x ∨ z ∈ acc := by
  induction acc with
  | nil => simp [insertSorted]
  | cons y ys ih =>
    unfold insertSorted
    have hy := h y (List.mem_cons_self ..)
    have ih' := ih (fun y' hy' => h y' (List.mem_cons_of_mem _ hy'))
    cases hc : cmp x y with
    | lt => simp
    | eq => exact absurd hc hy
    | gt =>
      simp only [List.mem_cons, ih']
      constructor
      · rintro (h1 | h1 | h1)
        · exact Or.inr (Or.inl h1)
        · exact Or.inl h1
        · exact Or.inr (Or.inr h1)
      · rintro (h1 | h1 | h1)
        · exact Or.inr (Or.inl h1)
        · exact Or.inl h1
        · exact Or.inr (Or.inr h1)

/-- the overlap scan of `prepare_assertions` over the accepted assertions of the same column -/
theorem scan_false_iff {x : Assertion} {acc : List Assertion} :
    ((acc.filter fun a => a.column == x.column).any fun a => a.overlapsWith x) = false ↔
    ∀ y ∈ acc, y.column = x.column → y.overlapsWith x = false := by
  rw [Bool.eq_false_iff]
  simp only [ne_eq, List.any_eq_true, List.mem_filter, beq_iff_eq, not_exists, not_and, and_imp,
    Bool.not_eq_true]

/-- one iteration of the loop of `prepare_assertions` -/
theorem prepareLoop_cons_ok_iff {w n : Nat} {x : Assertion} {rest acc r : List Assertion} :
    prepareLoop w n (x :: rest) acc = .ok r ↔
    x.validateTraceWidth w = .ok () ∧ x.validateTraceLength n = .ok () ∧
    (∀ y ∈ acc, y.column = x.column → y.overlapsWith x = false) ∧
    prepareLoop w n rest (insertSorted x acc) = .ok r := by
  rw [← scan_false_iff]
  simp only [prepareLoop]
  cases h1 : x.validateTraceWidth w with
  | error e => simp
  | ok u =>
    cases u
    cases h2 : x.validateTraceLength n with
    | error e => simp
    | ok u =>
      cases u
      cases h3 : ((acc.filter fun a => a.column == x.column).any fun a => a.overlapsWith x) with
      | true => simp
      | false => simp

end Assertion
end Wf
