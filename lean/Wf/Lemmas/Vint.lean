/- vint64 arithmetic (`write_usize` / `read_usize` / `usize_encoded_len`). Core Lean only. -/
import Wf.Lemmas.Serde
namespace Wf

/-- The documented vint64 length: 7 payload bits per byte for 1..8 bytes, else the 9-byte form. -/
def docLen (v : Nat) : Nat :=
  if v < 2 ^ 7 then 1 else if v < 2 ^ 14 then 2 else if v < 2 ^ 21 then 3 else if v < 2 ^ 28 then 4
  else if v < 2 ^ 35 then 5 else if v < 2 ^ 42 then 6 else if v < 2 ^ 49 then 7
  else if v < 2 ^ 56 then 8 else 9

theorem usizeEncodedLen_eq_docLen (v : Nat) (hv : v < 2 ^ 64) : usizeEncodedLen v = docLen v := by
  unfold usizeEncodedLen leadingZeros64 docLen
  by_cases h0 : v = 0
  · subst h0; decide
  · simp only [h0, if_false]
    have l := fun k => Nat.log2_lt (n := v) (k := k) h0
    have l7 := l 7; have l14 := l 14; have l21 := l 21; have l28 := l 28; have l35 := l 35
    have l42 := l 42; have l49 := l 49; have l56 := l 56; have l64 := l 64
    have h64 : v.log2 < 64 := l64.mpr hv
    repeat' split
    all_goals omega

theorem docLen_range (v : Nat) : 1 ≤ docLen v ∧ docLen v ≤ 9 := by
  unfold docLen; repeat' split
  all_goals omega

theorem docLen_bound (v : Nat) (h : docLen v ≤ 8) : v < 2 ^ (7 * docLen v) := by
  unfold docLen at *; repeat' split at h
  all_goals (repeat' split) <;> simp_all <;> omega

theorem tz8_odd_shift (w k : Nat) (hk : k ≤ 7) : tz8 (((2 * w + 1) * 2 ^ k) % 256) = k := by
  have : k = 0 ∨ k = 1 ∨ k = 2 ∨ k = 3 ∨ k = 4 ∨ k = 5 ∨ k = 6 ∨ k = 7 := by omega
  rcases this with h | h | h | h | h | h | h | h
  · subst h
    unfold tz8
    have h0 : (2 * w + 1) * 1 % 256 % 2 = 1 := by omega
    simp [h0]
  · subst h
    unfold tz8
    have h0 : (2 * w + 1) * 2 % 256 % 2 = 0 := by omega
    have h1 : (2 * w + 1) * 2 % 256 % 4 = 2 := by omega
    simp [h0, h1]
  · subst h
    unfold tz8
    have h0 : (2 * w + 1) * 4 % 256 % 2 = 0 := by omega
    have h1 : (2 * w + 1) * 4 % 256 % 4 = 0 := by omega
    have h2 : (2 * w + 1) * 4 % 256 % 8 = 4 := by omega
    simp [h0, h1, h2]
  · subst h
    unfold tz8
    have h0 : (2 * w + 1) * 8 % 256 % 2 = 0 := by omega
    have h1 : (2 * w + 1) * 8 % 256 % 4 = 0 := by omega
    have h2 : (2 * w + 1) * 8 % 256 % 8 = 0 := by omega
    have h3 : (2 * w + 1) * 8 % 256 % 16 = 8 := by omega
    simp [h0, h1, h2, h3]
  · subst h
    unfold tz8
    have h0 : (2 * w + 1) * 16 % 256 % 2 = 0 := by omega
    have h1 : (2 * w + 1) * 16 % 256 % 4 = 0 := by omega
    have h2 : (2 * w + 1) * 16 % 256 % 8 = 0 := by omega
    have h3 : (2 * w + 1) * 16 % 256 % 16 = 0 := by omega
    have h4 : (2 * w + 1) * 16 % 256 % 32 = 16 := by omega
    simp [h0, h1, h2, h3, h4]
  · subst h
    unfold tz8
    have h0 : (2 * w + 1) * 32 % 256 % 2 = 0 := by omega
    have h1 : (2 * w + 1) * 32 % 256 % 4 = 0 := by omega
    have h2 : (2 * w + 1) * 32 % 256 % 8 = 0 := by omega
    have h3 : (2 * w + 1) * 32 % 256 % 16 = 0 := by omega
    have h4 : (2 * w + 1) * 32 % 256 % 32 = 0 := by omega
    have h5 : (2 * w + 1) * 32 % 256 % 64 = 32 := by omega
    simp [h0, h1, h2, h3, h4, h5]
  · subst h
    unfold tz8
    have h0 : (2 * w + 1) * 64 % 256 % 2 = 0 := by omega
    have h1 : (2 * w + 1) * 64 % 256 % 4 = 0 := by omega
    have h2 : (2 * w + 1) * 64 % 256 % 8 = 0 := by omega
    have h3 : (2 * w + 1) * 64 % 256 % 16 = 0 := by omega
    have h4 : (2 * w + 1) * 64 % 256 % 32 = 0 := by omega
    have h5 : (2 * w + 1) * 64 % 256 % 64 = 0 := by omega
    have h6 : (2 * w + 1) * 64 % 256 % 128 = 64 := by omega
    simp [h0, h1, h2, h3, h4, h5, h6]
  · subst h
    unfold tz8
    have h0 : (2 * w + 1) * 128 % 256 % 2 = 0 := by omega
    have h1 : (2 * w + 1) * 128 % 256 % 4 = 0 := by omega
    have h2 : (2 * w + 1) * 128 % 256 % 8 = 0 := by omega
    have h3 : (2 * w + 1) * 128 % 256 % 16 = 0 := by omega
    have h4 : (2 * w + 1) * 128 % 256 % 32 = 0 := by omega
    have h5 : (2 * w + 1) * 128 % 256 % 64 = 0 := by omega
    have h6 : (2 * w + 1) * 128 % 256 % 128 = 0 := by omega
    have h7 : (2 * w + 1) * 128 % 256 % 256 = 128 := by omega
    simp [h0, h1, h2, h3, h4, h5, h6, h7]

/-- reading back the short (1..8 byte) form -/
theorem readUsize_short (L v : Nat) (r : Bytes) (h1 : 1 ≤ L) (h8 : L ≤ 8) (hv : v < 2 ^ (7 * L)) :
    readUsize (leBytes L ((2 * v + 1) * 2 ^ (L - 1)) ++ r) = .ok v r := by
  obtain ⟨k, rfl⟩ : ∃ k, L = k + 1 := ⟨L - 1, by omega⟩
  have hk : k ≤ 7 := by omega
  simp only [Nat.add_sub_cancel]
  -- the encoded integer and its size
  have hx : (2 * v + 1) * 2 ^ k < 256 ^ (k + 1) := by
    have : k = 0 ∨ k = 1 ∨ k = 2 ∨ k = 3 ∨ k = 4 ∨ k = 5 ∨ k = 6 ∨ k = 7 := by omega
    rcases this with h | h | h | h | h | h | h | h <;> subst h <;> simp at hv ⊢ <;> omega
  have hdiv : (2 * v + 1) * 2 ^ k / 2 ^ (k + 1) = v := by
    rw [Nat.pow_succ, ← Nat.div_div_eq_div_mul, Nat.mul_div_cancel _ (Nat.two_pow_pos k)]
    omega
  have hsl := readSlice_append (leBytes (k + 1) ((2 * v + 1) * 2 ^ k)) r
  rw [leBytes_length] at hsl
  have hfirst : (leBytes (k + 1) ((2 * v + 1) * 2 ^ k) ++ r) =
      UInt8.ofNat ((2 * v + 1) * 2 ^ k % 256) :: (leBytes k ((2 * v + 1) * 2 ^ k / 256) ++ r) := by
    simp [leBytes]
  have htz : tz8 (UInt8.ofNat ((2 * v + 1) * 2 ^ k % 256)).toNat = k := by
    have : (UInt8.ofNat ((2 * v + 1) * 2 ^ k % 256)).toNat = (2 * v + 1) * 2 ^ k % 256 := by
      simp [UInt8.toNat_ofNat']
    rw [this]; exact tz8_odd_shift v k hk
  unfold readUsize
  rw [hfirst]
  simp only [htz]
  rw [← hfirst, hsl]
  have h9 : ¬ (k + 1 = 9) := by omega
  simp only [h9, if_false, fromLe_leBytes _ _ hx, hdiv]
  have hle : ¬ v > usizeMax := by
    have : v < 2 ^ 56 := Nat.lt_of_lt_of_le hv (Nat.pow_le_pow_right (by omega) (by omega))
    unfold usizeMax; omega
  simp [hle]

theorem writeUsize_short (v : Nat) (h : usizeEncodedLen v ≠ 9) (hl : 1 ≤ usizeEncodedLen v)
    (hv : v < 2 ^ (7 * usizeEncodedLen v)) :
    writeUsize v = leBytes (usizeEncodedLen v) ((2 * v + 1) * 2 ^ (usizeEncodedLen v - 1)) := by
  unfold writeUsize
  simp only [h, if_false]
  have h9 : usizeEncodedLen v ≤ 9 := Nat.sub_le 9 _
  generalize hL : usizeEncodedLen v = L at *
  have hL8 : L ≤ 8 := by omega
  rw [take_leBytes _ _ _ hL8]
  congr 1
  apply Nat.mod_eq_of_lt
  have : L = 1 ∨ L = 2 ∨ L = 3 ∨ L = 4 ∨ L = 5 ∨ L = 6 ∨ L = 7 ∨ L = 8 := by omega
  rcases this with h | h | h | h | h | h | h | h <;> subst h <;> simp at hv ⊢ <;> omega

theorem readUsize_writeUsize (v : Nat) (r : Bytes) (hv : v < 2 ^ 64) :
    readUsize (writeUsize v ++ r) = .ok v r := by
  have hlen := usizeEncodedLen_eq_docLen v hv
  have hr := docLen_range v
  by_cases h9 : docLen v = 9
  · -- 9-byte form
    have hw : writeUsize v = 0 :: leBytes 8 v := by
      unfold writeUsize; simp [hlen, h9]
    rw [hw]
    unfold readUsize
    simp only [List.cons_append]
    have : tz8 (0 : UInt8).toNat + 1 = 9 := by decide
    simp only [this, if_true]
    have hu8 : readU8 (0 :: (leBytes 8 v ++ r)) = .ok 0 (leBytes 8 v ++ r) := by
      unfold readU8 readLe; simp [fromLe]
    rw [hu8]
    simp only []
    rw [readLe_append 8 v r (by simpa using hv)]
    have : ¬ v > usizeMax := by unfold usizeMax; omega
    simp [this]
  · have h8 : docLen v ≤ 8 := by omega
    have hb := docLen_bound v h8
    rw [writeUsize_short v (by rw [hlen]; exact h9) (by rw [hlen]; exact hr.1) (by rw [hlen]; exact hb)]
    rw [hlen]
    exact readUsize_short (docLen v) v r hr.1 h8 hb

theorem writeUsize_length (v : Nat) (hv : v < 2 ^ 64) :
    (writeUsize v).length = usizeEncodedLen v := by
  have hlen := usizeEncodedLen_eq_docLen v hv
  have hr := docLen_range v
  unfold writeUsize
  by_cases h9 : usizeEncodedLen v = 9
  · simp [h9, leBytes_length]
  · simp only [h9, if_false, List.length_take, leBytes_length]
    omega

end Wf
