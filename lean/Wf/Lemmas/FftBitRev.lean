/-
Layer 1 of the C12 proof: bit reversal (`permute_index`) – range, concatenation formula,
involution, injectivity.
-/
import Wf.Model.Fft
import Mathlib.Tactic.Ring
import Mathlib.Tactic.Linarith
namespace Wf.Fft

theorem bitRev_lt (b i : Nat) : bitRev b i < 2 ^ b := by
  induction b generalizing i with
  | zero => simp [bitRev]
  | succ b ih =>
    have h1 := ih (i / 2)
    have h2 : i % 2 < 2 := Nat.mod_lt _ (by decide)
    simp only [bitRev, pow_succ]
    rcases Nat.lt_succ_iff.mp h2 with h3
    nlinarith

theorem bitRev_even (b j : Nat) : bitRev (b + 1) (2 * j) = bitRev b j := by
  simp [bitRev]

theorem bitRev_odd (b j : Nat) : bitRev (b + 1) (2 * j + 1) = 2 ^ b + bitRev b j := by
  have h1 : (2 * j + 1) % 2 = 1 := by omega
  have h2 : (2 * j + 1) / 2 = j := by omega
  simp [bitRev, h1, h2]

/-- reversing `a + b` bits of `i·2ᵃ + m` (`m < 2ᵃ`): the reversed low part moves to the top -/
theorem bitRev_concat (a b i m : Nat) (hm : m < 2 ^ a) :
    bitRev (a + b) (i * 2 ^ a + m) = bitRev a m * 2 ^ b + bitRev b i := by
  induction a generalizing m with
  | zero =>
    have : m = 0 := by simpa using hm
    subst this
    simp [bitRev]
  | succ a ih =>
    have e1 : a + 1 + b = (a + b) + 1 := by omega
    have e2 : i * 2 ^ (a + 1) = 2 * (i * 2 ^ a) := by ring
    have h1 : (i * 2 ^ (a + 1) + m) % 2 = m % 2 := by
      rw [e2]; omega
    have h2 : (i * 2 ^ (a + 1) + m) / 2 = i * 2 ^ a + m / 2 := by
      rw [e2]; omega
    have hm2 : m / 2 < 2 ^ a := by
      rw [pow_succ] at hm; omega
    rw [e1]
    simp only [bitRev]
    rw [h1, h2, ih _ hm2, pow_add]
    ring

theorem bitRev_scale (a b m : Nat) (hm : m < 2 ^ a) : bitRev (a + b) m = bitRev a m * 2 ^ b := by
  have h := bitRev_concat a b 0 m hm
  have hz : bitRev b 0 = 0 := by
    clear h
    induction b with
    | zero => rfl
    | succ b ih => simp [bitRev, ih]
  simpa [hz] using h

theorem bitRev_one (i : Nat) : bitRev 1 i = i % 2 := by simp [bitRev]

theorem bitRev_mod (b i : Nat) : bitRev b (i % 2 ^ b) = bitRev b i := by
  induction b generalizing i with
  | zero => rfl
  | succ b ih =>
    have h1 : i % 2 ^ (b + 1) % 2 = i % 2 :=
      Nat.mod_mod_of_dvd i (Dvd.intro_left (2 ^ b) (pow_succ 2 b).symm)
    have h2 : i % 2 ^ (b + 1) / 2 = (i / 2) % 2 ^ b := by
      rw [pow_succ]; exact Nat.mod_mul_left_div_self i 2 (2 ^ b)
    simp only [bitRev, h1, h2, ih]

/-- bit reversal is an involution on `[0, 2ᵇ)` -/
theorem bitRev_bitRev (b i : Nat) (hi : i < 2 ^ b) : bitRev b (bitRev b i) = i := by
  induction b generalizing i with
  | zero =>
    have : i = 0 := by simpa using hi
    subst this
    rfl
  | succ b ih =>
    have hi2 : i / 2 < 2 ^ b := by rw [pow_succ] at hi; omega
    have hlt := bitRev_lt b (i / 2)
    have h := bitRev_concat b 1 (i % 2) (bitRev b (i / 2)) hlt
    show bitRev (b + 1) ((i % 2) * 2 ^ b + bitRev b (i / 2)) = i
    rw [h, ih _ hi2, bitRev_one]
    omega

theorem bitRev_inj (b i j : Nat) (hi : i < 2 ^ b) (hj : j < 2 ^ b)
    (h : bitRev b i = bitRev b j) : i = j := by
  rw [← bitRev_bitRev b i hi, ← bitRev_bitRev b j hj, h]

theorem log2_two_pow (k : Nat) : (2 ^ k).log2 = k := Nat.log2_two_pow

theorem permuteIndex_pow (k i : Nat) : permuteIndex (2 ^ k) i = bitRev k i := by
  simp [permuteIndex, Nat.log2_two_pow]

end Wf.Fft
