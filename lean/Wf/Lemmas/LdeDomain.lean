/-
C28: `StarkDomain::new` — the accessors `evaluate_polys_over` / `evaluate_columns_over` read.  The
blowup they use is `trace_to_lde_blowup` (LDE domain size / trace length), which differs from
`trace_to_ce_blowup` whenever the constraint-evaluation blowup is smaller than the LDE blowup.
-/
import Wf.Lemmas.LdeSpec
set_option linter.unusedSectionVars false
namespace Wf.Lde
open Wf Wf.Fft

variable {B E : Type}

theorem two_pow_div (m n : Nat) (h : n ≤ m) : 2 ^ m / 2 ^ n = 2 ^ (m - n) :=
  Nat.pow_div h (by decide)

/-- `StarkDomain::new` for trace length `2^(K+1)`, constraint-evaluation blowup `2^a`, LDE blowup
`2^b`, `1 ≤ a ≤ b`: all accessors, and the `Domain` the evaluation functions see carries the LDE
blowup `2^b` (not `2^a`) -/
theorem starkDomainNew_spec (c : Ctx B E) (K a b : Nat) (ha : 1 ≤ a) (hab : a ≤ b)
    (hta : K + 1 + a ≤ c.twoAdicity) (off : B) (tws : Array B)
    (htw : getTwiddles (baseCtx c) (2 ^ (K + 1)) = some tws) :
    ∃ d, starkDomainNew c (2 ^ (K + 1)) (2 ^ a) (2 ^ b) off = some d ∧
      d.toDomain = ⟨tws, 2 ^ b, off⟩ ∧ d.traceLength = 2 ^ (K + 1) ∧
      d.ceDomainSize = 2 ^ (K + 1 + a) ∧ d.ldeDomainSize = 2 ^ (K + 1 + b) ∧
      d.traceToCeBlowup = 2 ^ a ∧ d.traceToLdeBlowup = 2 ^ b ∧ d.ceToLdeBlowup = 2 ^ (b - a) ∧
      d.offset = off := by
  have hsz : tws.size = 2 ^ K := by
    rw [getTwiddles_size _ _ _ htw, pow_succ]; omega
  have hce : 2 ^ (K + 1) * 2 ^ a = 2 ^ (K + 1 + a) := by rw [← pow_add]
  have hlde : 2 ^ (K + 1) * 2 ^ b = 2 ^ (K + 1 + b) := by rw [← pow_add]
  have hdiv : 2 ^ (K + 1 + b) / 2 ^ (K + 1 + a) = 2 ^ (b - a) := by
    rw [two_pow_div _ _ (by omega)]; congr 1; omega
  have hl : 2 ^ (K + 1 + a) * 2 ^ (b - a) = 2 ^ (K + 1 + b) := by
    rw [← pow_add]; congr 1; omega
  have htl : tws.size * 2 = 2 ^ (K + 1) := by rw [hsz, pow_succ]
  refine ⟨⟨tws, 2 ^ (K + 1 + a), 2 ^ (b - a), off⟩, ?_, ?_, htl, rfl, hl, ?_, ?_, rfl, rfl⟩
  · unfold starkDomainNew
    rw [htw]
    simp only [hce, hlde, hdiv, Nat.log2_two_pow]
    rw [if_neg (Nat.ne_of_gt (Nat.two_pow_pos _)), if_neg (by omega), if_neg (by omega)]
  · simp only [StarkDomain.toDomain, StarkDomain.traceToLdeBlowup, StarkDomain.ldeDomainSize,
      StarkDomain.traceLength, hl, htl]
    rw [two_pow_div _ _ (by omega)]
    congr 2; omega
  · simp only [StarkDomain.traceToCeBlowup, StarkDomain.traceLength, htl]
    rw [two_pow_div _ _ (by omega)]; congr 1; omega
  · simp only [StarkDomain.traceToLdeBlowup, StarkDomain.ldeDomainSize, StarkDomain.traceLength, hl,
      htl]
    rw [two_pow_div _ _ (by omega)]; congr 1; omega

end Wf.Lde
