/-
Bit-level facts about the generated f62 kernels (`Wf.Gen.F62`), each closed by `bv_decide`
(SAT + LRAT certificate; adds one `._native.bv_decide.ax_*` axiom per lemma, listed in the evidence).
All are quantifier-free statements over ALL 64-bit inputs; the range hypothesis is the documented
representation invariant "stored word in [0, 2M)".
-/
import Wf.Gen.F62
import Std.Tactic.BVDecide
namespace Wf.F62
open Wf.Gen.F62

/-- widen to 65 bits so that sums cannot wrap -/
abbrev z65 (x : BitVec 64) : BitVec 65 := x.setWidth 65

/-- 2·M, the exclusive upper bound of stored words -/
def M2 : BitVec 64 := 9223249991064092674#64

/-- add: result in [0, 2M) and result + k·M = a + b for some k ∈ {0,1,2,3} (as integers) -/
theorem add_bv (a b : BitVec 64) (ha : a < M2) (hb : b < M2) :
    add a b < M2 ∧
    (z65 (add a b) = z65 a + z65 b ∨ z65 (add a b) + z65 M = z65 a + z65 b ∨
     z65 (add a b) + z65 M + z65 M = z65 a + z65 b ∨
     z65 (add a b) + z65 M + z65 M + z65 M = z65 a + z65 b) := by
  unfold add M M2 z65 at *
  bv_decide (config := { timeout := 300 })

/-- sub: result in [0, 2M) and result + b = a or a + 2M (as integers) -/
theorem sub_bv (a b : BitVec 64) (ha : a < M2) (hb : b < M2) :
    sub a b < M2 ∧ (z65 (sub a b) + z65 b = z65 a ∨ z65 (sub a b) + z65 b = z65 a + z65 M2) := by
  unfold sub M M2 z65 at *
  bv_decide (config := { timeout := 300 })

/-- neg: result in [0, 2M) (in particular −0 is the word 0, not 2M) and result + a = 0 or 2M -/
theorem neg_bv (a : BitVec 64) (ha : a < M2) :
    neg a < M2 ∧ (z65 (neg a) + z65 a = 0#65 ∨ z65 (neg a) + z65 a = z65 M2) := by
  unfold neg sub M M2 z65 at *
  bv_decide (config := { timeout := 300 })

/-- `double` is `add a a`, for every word -/
theorem double_bv (a : BitVec 64) : double a = add a a := by
  unfold double add
  bv_decide (config := { timeout := 300 })

/-- normalize on words in [0, 2M): result in [0, M), equal to the word or the word − M -/
theorem normalize_bv (a : BitVec 64) (ha : a < M2) :
    normalize a < M ∧ (normalize a = a ∨ z65 (normalize a) + z65 M = z65 a) := by
  unfold normalize M M2 z65 at *
  bv_decide (config := { timeout := 300 })

end Wf.F62
