/- Lemmas for C18 (d): `get_root` of a `prove_batch` proof is the root (coupled simulation of the
   two level loops). -/
import Wf.Lemmas.MerkleBatch
namespace Wf.Merkle

variable {D : Type}

/-- next level's index list, as computed by all three batch algorithms -/
def nextIdx : List Nat → List Nat
  | [] => []
  | [x] => [x / 2]
  | x :: y :: rest => if y = x ^^^ 1 then x / 2 :: nextIdx rest else x / 2 :: nextIdx (y :: rest)

theorem nextIdx_mem : ∀ (l : List Nat) (w : Nat), w ∈ nextIdx l → ∃ y ∈ l, w = y / 2
  | [], w, h => by simp [nextIdx] at h
  | [x], w, h => by simp [nextIdx] at h; exact ⟨x, by simp, h⟩
  | x :: y :: rest, w, h => by
    unfold nextIdx at h
    split at h
    · simp only [List.mem_cons] at h
      rcases h with rfl | h
      · exact ⟨x, by simp, rfl⟩
      · obtain ⟨z, hz, e⟩ := nextIdx_mem rest w h
        exact ⟨z, by simp [hz], e⟩
    · simp only [List.mem_cons] at h
      rcases h with rfl | h
      · exact ⟨x, by simp, rfl⟩
      · obtain ⟨z, hz, e⟩ := nextIdx_mem (y :: rest) w h
        exact ⟨z, by simp only [List.mem_cons] at hz ⊢; exact Or.inr hz, e⟩

theorem nextIdx_length : ∀ (l : List Nat), (nextIdx l).length ≤ l.length
  | [] => by simp [nextIdx]
  | [x] => by simp [nextIdx]
  | x :: y :: rest => by
    unfold nextIdx
    split
    · have := nextIdx_length rest; simp only [List.length_cons]; omega
    · have := nextIdx_length (y :: rest); simp only [List.length_cons] at this ⊢; omega

theorem nextIdx_ne_nil : ∀ (l : List Nat), l ≠ [] → nextIdx l ≠ []
  | [], h => absurd rfl h
  | [x], _ => by simp [nextIdx]
  | x :: y :: rest, _ => by unfold nextIdx; split <;> simp

/-- every list of `b` extends the list of `a` at the same position -/
abbrev Ext (a b : List (List D)) : Prop :=
  ∀ (j : Nat) (x : List D), a[j]? = some x → ∃ y : List D, b[j]? = some y ∧ x <+: y

theorem Ext.refl (a : List (List D)) : Ext a a := fun _ x h => ⟨x, h, List.prefix_refl x⟩

theorem Ext.trans {a b c : List (List D)} (h1 : Ext a b) (h2 : Ext b c) : Ext a c := by
  intro j x hx
  obtain ⟨y, hy, p1⟩ := h1 j x hx
  obtain ⟨z, hz, p2⟩ := h2 j y hy
  exact ⟨z, hz, List.IsPrefix.trans p1 p2⟩

theorem Ext.modify (a : List (List D)) (i : Nat) (s : D) : Ext a (a.modify i (· ++ [s])) := by
  intro j x hx
  rw [List.getElem?_modify, hx]
  by_cases h : i = j
  · exact ⟨x ++ [s], by simp [h], List.prefix_append x [s]⟩
  · exact ⟨x, by simp [h], List.prefix_refl x⟩

theorem ptrs_modify (acc : List (List D)) (i : Nat) (s : D) (a : List D) (ha : acc[i]? = some a) :
    (acc.map List.length).set i (a.length + 1) = (acc.modify i (· ++ [s])).map List.length := by
  apply List.ext_getElem?
  intro j
  rw [List.getElem?_set, List.getElem?_map, List.getElem?_map, List.getElem?_modify]
  by_cases h : i = j
  · subst h
    obtain ⟨hl, rfl⟩ := List.getElem?_eq_some_iff.mp ha
    simp [hl]
  · simp [h]

theorem prefix_get_last (a b : List D) (s : D) (h : a ++ [s] <+: b) : b[a.length]? = some s := by
  obtain ⟨t, rfl⟩ := h
  simp

/-- keys of the partial-tree log -/
abbrev lkeys (l : List (Nat × D)) : List Nat := l.map Prod.fst

/-- every logged value is the tree's value at its key -/
abbrev Clean (h : Nat → D) (l : List (Nat × D)) : Prop := ∀ kv ∈ l, kv.2 = h kv.1

/-- log bookkeeping of one level (partial-tree writes of `into_openings`) -/
def LogStep (h : Nat → D) (idxs : List Nat) (l l' : List (Nat × D)) : Prop :=
  (∀ kv ∈ l, kv ∈ l') ∧ (Clean h l → Clean h l') ∧
  (∀ y' ∈ nextIdx idxs, y' ∈ lkeys l') ∧
  ((∀ y ∈ idxs, y ∈ lkeys l) → ∀ y ∈ idxs, (y ^^^ 1) ∈ lkeys l')

theorem lkeys_mono {l l' : List (Nat × D)} (hm : ∀ kv ∈ l, kv ∈ l') : ∀ z ∈ lkeys l, z ∈ lkeys l' := by
  intro z hz
  obtain ⟨kv, hkv, rfl⟩ := List.mem_map.mp hz
  exact List.mem_map.mpr ⟨kv, hm kv hkv, rfl⟩

theorem xor_one_xor_one (x : Nat) : (x ^^^ 1) ^^^ 1 = x := by
  rw [Nat.xor_assoc, Nat.xor_self, Nat.xor_zero]

theorem LogStep.nil (h : Nat → D) (l : List (Nat × D)) : LogStep h [] l l :=
  ⟨fun _ hk => hk, fun hc => hc, by simp [nextIdx], fun _ y hy => by simp at hy⟩

theorem LogStep.take (h : Nat → D) (x : Nat) (tl : List Nat) (l l' : List (Nat × D))
    (hn : nextIdx (x :: tl) = x / 2 :: nextIdx tl)
    (hs : LogStep h tl ((x / 2, h (x / 2)) :: (x ^^^ 1, h (x ^^^ 1)) :: l) l') :
    LogStep h (x :: tl) l l' := by
  obtain ⟨m, c, pr, sb⟩ := hs
  refine ⟨fun kv hk => m kv (by simp [hk]), ?_, ?_, ?_⟩
  · intro hc
    apply c
    intro kv hk
    simp only [List.mem_cons] at hk
    rcases hk with rfl | rfl | hk
    · rfl
    · rfl
    · exact hc kv hk
  · intro y' hy'
    rw [hn] at hy'
    simp only [List.mem_cons] at hy'
    rcases hy' with rfl | hy'
    · exact lkeys_mono m _ (by simp [lkeys])
    · exact pr y' hy'
  · intro hk y hy
    simp only [List.mem_cons] at hy
    rcases hy with rfl | hy
    · exact lkeys_mono m _ (by simp [lkeys])
    · exact sb (fun z hz => by
        have := hk z (by simp [hz])
        simp only [lkeys, List.map_cons, List.mem_cons]
        exact Or.inr (Or.inr this)) y hy

theorem LogStep.pair (h : Nat → D) (x y : Nat) (rest : List Nat) (l l' : List (Nat × D))
    (hy : y = x ^^^ 1)
    (hs : LogStep h rest ((x / 2, h (x / 2)) :: (x ^^^ 1, h (x ^^^ 1)) :: l) l') :
    LogStep h (x :: y :: rest) l l' := by
  obtain ⟨m, c, pr, sb⟩ := hs
  have hm : ∀ kv ∈ l, kv ∈ l' := fun kv hk => m kv (by simp [hk])
  refine ⟨hm, ?_, ?_, ?_⟩
  · intro hc
    apply c
    intro kv hk
    simp only [List.mem_cons] at hk
    rcases hk with rfl | rfl | hk
    · rfl
    · rfl
    · exact hc kv hk
  · intro y' hy'
    simp only [nextIdx, hy, if_true, List.mem_cons] at hy'
    rcases hy' with rfl | hy'
    · exact lkeys_mono m _ (by simp [lkeys])
    · exact pr y' hy'
  · intro hk z hz
    simp only [List.mem_cons] at hz
    rcases hz with rfl | rfl | hz
    · exact lkeys_mono m _ (by simp [lkeys])
    · rw [hy, xor_one_xor_one]
      exact lkeys_mono hm _ (hk x (by simp))
    · exact sb (fun w hw => by
        have := hk w (by simp [hw])
        simp only [lkeys, List.map_cons, List.mem_cons]
        exact Or.inr (Or.inr this)) z hz

section honest
variable {merge : D → D → D} {t : Tree D} {d : Nat} {h : Nat → D}

theorem get_insert_mono (v : AMap D) (z y : Nat) (hy : AMap.get v y = some (h y)) :
    AMap.get (AMap.insert z (h z) v) y = some (h y) := by
  rw [AMap.get_insert]
  by_cases e : y = z
  · simp [e]
  · simp [e, hy]

theorem xor_in_range (H : Heap merge t d h) (x : Nat) (h1 : 2 ≤ x) (h2 : x < 2 ^ d) :
    1 ≤ x ^^^ 1 ∧ x ^^^ 1 < 2 ^ d := by
  have := pow_even d H.dpos
  rw [xor_one_eq]; split <;> omega

theorem grNode_honest (H : Heap merge t d h) (v : AMap D) (log : List (Nat × D)) (x : Nat)
    (h1 : 2 ≤ x) (h2 : x < 2 ^ d) (hv : AMap.get v x = some (h x)) :
    grNode merge v log x (h (x ^^^ 1)) = .ok (AMap.insert (x / 2) (h (x / 2)) v,
      (x / 2, h (x / 2)) :: (x ^^^ 1, h (x ^^^ 1)) :: log) := by
  have hup := heap_step_up H x h1 (by rw [Nat.pow_succ]; omega)
  have e : (if x % 2 ≠ 0 then merge (h (x ^^^ 1)) (h x) else merge (h x) (h (x ^^^ 1))) = h (x / 2) := by
    rw [← hup]; by_cases hp : x % 2 = 0 <;> simp [hp]
  simp only [grNode, hv, e]

/-- one level: `prove_batch`'s loop succeeds, only extends the node vectors, and `get_root`'s loop
    run on ANY extension of the result reads back exactly the pushed siblings -/
theorem level_coupled (H : Heap merge t d h) :
    ∀ (idxs : List Nat) (i : Nat) (acc : List (List D)),
      i + idxs.length ≤ acc.length → (∀ y ∈ idxs, 2 ≤ y ∧ y < 2 ^ d) →
      ∃ acc', pbLevel t.nodes i idxs acc = some (acc', nextIdx idxs) ∧ acc'.length = acc.length ∧
        Ext acc acc' ∧
        ∀ (pn : List (List D)) (st : GSt D), Ext acc' pn → st.ptrs = acc.map List.length →
          (∀ y ∈ idxs, AMap.get st.v y = some (h y)) →
          ∃ st', grLevel merge pn i idxs st = .ok (st', nextIdx idxs) ∧
            st'.ptrs = acc'.map List.length ∧
            (∀ y, AMap.get st.v y = some (h y) → AMap.get st'.v y = some (h y)) ∧
            (∀ y ∈ nextIdx idxs, AMap.get st'.v y = some (h y)) ∧
            LogStep h idxs st.log st'.log
  | [], i, acc, _, _ => by
    refine ⟨acc, by simp [pbLevel, nextIdx], rfl, Ext.refl _, ?_⟩
    intro pn st _ hp _
    exact ⟨st, by simp [grLevel, nextIdx], hp, fun _ hy => hy, by simp [nextIdx], LogStep.nil h _⟩
  | [x], i, acc, hlen, hr => by
    simp only [List.length_cons, List.length_nil] at hlen
    obtain ⟨hx1, hx2⟩ := hr x (by simp)
    have hxr := xor_in_range H x hx1 hx2
    have hn := H.node (x ^^^ 1) hxr.1 hxr.2
    have hi : i < acc.length := by omega
    obtain ⟨a, ha⟩ : ∃ a, acc[i]? = some a := ⟨acc[i], by simp [hi]⟩
    refine ⟨acc.modify i (· ++ [h (x ^^^ 1)]), ?_, by simp, Ext.modify _ _ _, ?_⟩
    · simp [pbLevel, pbTake, hn, pushAt, hi, nextIdx, xor_one_div]
    · intro pn st hext hp hv
      obtain ⟨b, hb, hpre⟩ := hext i (a ++ [h (x ^^^ 1)]) (by rw [List.getElem?_modify, ha]; simp)
      have hread := prefix_get_last a b _ hpre
      have hptr : st.ptrs[i]? = some a.length := by rw [hp, List.getElem?_map, ha]; rfl
      have hnode := grNode_honest H st.v st.log x hx1 hx2 (hv x (by simp))
      refine ⟨⟨AMap.insert (x / 2) (h (x / 2)) st.v, st.ptrs.set i (a.length + 1),
        (x / 2, h (x / 2)) :: (x ^^^ 1, h (x ^^^ 1)) :: st.log⟩, ?_, ?_, ?_, ?_, ?_⟩
      · simp [grLevel, grSibling, hptr, hb, hread, hnode, nextIdx]
      · simp only []; rw [hp]; exact ptrs_modify acc i _ a ha
      · intro y hy; exact get_insert_mono _ _ _ hy
      · intro y hy
        simp only [nextIdx, List.mem_singleton] at hy
        subst hy; simp [AMap.get_insert]
      · exact LogStep.take h x [] _ _ (by simp [nextIdx]) (LogStep.nil h _)
  | x :: y :: rest, i, acc, hlen, hr => by
    simp only [List.length_cons] at hlen
    obtain ⟨hx1, hx2⟩ := hr x (by simp)
    have hxr := xor_in_range H x hx1 hx2
    by_cases hsib : y = x ^^^ 1
    · -- siblings: nothing is taken from the proof
      obtain ⟨acc', hpb, hl, hext, hgr⟩ := level_coupled H rest (i + 2) acc (by omega)
        (fun z hz => hr z (by simp [hz]))
      refine ⟨acc', ?_, hl, hext, ?_⟩
      · simp [pbLevel, hsib, hpb, nextIdx, xor_one_div]
      · intro pn st hepn hp hv
        have hvs : AMap.get st.v (x ^^^ 1) = some (h (x ^^^ 1)) := by
          rw [← hsib]; exact hv y (by simp)
        have hnode := grNode_honest H st.v st.log x hx1 hx2 (hv x (by simp))
        obtain ⟨st', hg, hp', hmono, hnx, hlog⟩ := hgr pn ⟨AMap.insert (x / 2) (h (x / 2)) st.v, st.ptrs,
          (x / 2, h (x / 2)) :: (x ^^^ 1, h (x ^^^ 1)) :: st.log⟩
          hepn hp (fun z hz => get_insert_mono _ _ _ (hv z (by simp [hz])))
        refine ⟨st', ?_, hp', ?_, ?_, LogStep.pair h x y rest _ _ hsib hlog⟩
        · simp [grLevel, hsib, hvs, hnode, hg, nextIdx]
        · intro z hz; exact hmono z (get_insert_mono _ _ _ hz)
        · intro z hz
          simp only [nextIdx, hsib, if_true, List.mem_cons] at hz
          rcases hz with rfl | hz
          · exact hmono _ (by simp [AMap.get_insert])
          · exact hnx z hz
    · -- the sibling comes from the proof
      have hn := H.node (x ^^^ 1) hxr.1 hxr.2
      have hi : i < acc.length := by omega
      obtain ⟨a, ha⟩ : ∃ a, acc[i]? = some a := ⟨acc[i], by simp [hi]⟩
      obtain ⟨acc', hpb, hl, hext, hgr⟩ := level_coupled H (y :: rest) (i + 1)
        (acc.modify i (· ++ [h (x ^^^ 1)])) (by simp only [List.length_cons, List.length_modify]; omega)
        (fun z hz => hr z (by simp only [List.mem_cons] at hz ⊢; exact Or.inr hz))
      refine ⟨acc', ?_, by simpa using hl, (Ext.modify _ _ _).trans hext, ?_⟩
      · simp [pbLevel, hsib, pbTake, hn, pushAt, hi, hpb, nextIdx, xor_one_div]
      · intro pn st hepn hp hv
        obtain ⟨b0, hb0, hpre0⟩ := hext i (a ++ [h (x ^^^ 1)]) (by rw [List.getElem?_modify, ha]; simp)
        obtain ⟨b, hb, hpre1⟩ := hepn i b0 hb0
        have hread := prefix_get_last a b _ (List.IsPrefix.trans hpre0 hpre1)
        have hptr : st.ptrs[i]? = some a.length := by rw [hp, List.getElem?_map, ha]; rfl
        have hnode := grNode_honest H st.v st.log x hx1 hx2 (hv x (by simp))
        obtain ⟨st', hg, hp', hmono, hnx, hlog⟩ := hgr pn
          ⟨AMap.insert (x / 2) (h (x / 2)) st.v, st.ptrs.set i (a.length + 1),
            (x / 2, h (x / 2)) :: (x ^^^ 1, h (x ^^^ 1)) :: st.log⟩ hepn
          (by simp only []; rw [hp]; exact ptrs_modify acc i _ a ha)
          (fun z hz => get_insert_mono _ _ _ (hv z (by simp only [List.mem_cons] at hz ⊢; exact Or.inr hz)))
        refine ⟨st', ?_, hp', ?_, ?_, LogStep.take h x (y :: rest) _ _ (by simp [nextIdx, hsib]) hlog⟩
        · simp [grLevel, hsib, grSibling, hptr, hb, hread, hnode, hg, nextIdx]
        · intro z hz; exact hmono z (get_insert_mono _ _ _ hz)
        · intro z hz
          simp only [nextIdx, hsib, if_false, List.mem_cons] at hz
          rcases hz with rfl | hz
          · exact hmono _ (by simp [AMap.get_insert])
          · exact hnx z hz

theorem half_mem_nextIdx : ∀ (l : List Nat) (y : Nat), y ∈ l → y / 2 ∈ nextIdx l
  | [], y, h => by simp at h
  | [x], y, h => by simp at h; subst h; simp [nextIdx]
  | x :: z :: rest, y, h => by
    unfold nextIdx
    split
    · rename_i hz
      simp only [List.mem_cons] at h ⊢
      rcases h with rfl | rfl | h
      · exact Or.inl rfl
      · left; rw [hz, xor_one_div]
      · exact Or.inr (half_mem_nextIdx rest y h)
    · simp only [List.mem_cons] at h ⊢
      rcases h with rfl | h
      · exact Or.inl rfl
      · exact Or.inr (half_mem_nextIdx (z :: rest) y (by simp only [List.mem_cons]; exact h))

/-- all upper levels -/
theorem levels_coupled (H : Heap merge t d h) :
    ∀ (k : Nat) (idxs : List Nat) (acc : List (List D)), idxs ≠ [] → idxs.length ≤ acc.length →
      (∀ y ∈ idxs, 2 ^ k ≤ y ∧ y < 2 ^ (k + 1)) → k < d →
      ∃ accF, pbLevels t.nodes k idxs acc = some accF ∧ accF.length = acc.length ∧ Ext acc accF ∧
        ∀ (st : GSt D), st.ptrs = acc.map List.length →
          (∀ y ∈ idxs, AMap.get st.v y = some (h y)) →
          ∃ st', grLevels merge accF k idxs st = .ok st' ∧ AMap.get st'.v 1 = some (h 1) ∧
            st'.ptrs = accF.map List.length ∧
            (∀ kv ∈ st.log, kv ∈ st'.log) ∧ (Clean h st.log → Clean h st'.log) ∧
            ((∀ y ∈ idxs, y ∈ lkeys st.log) →
              ∀ y ∈ idxs, ∀ m, m < k → ((y / 2 ^ m) ^^^ 1) ∈ lkeys st'.log)
  | 0, idxs, acc, hne, _, hr, _ => by
    refine ⟨acc, rfl, rfl, Ext.refl _, ?_⟩
    intro st hp0 hv
    refine ⟨st, rfl, ?_, hp0, fun _ hk => hk, fun hc => hc, fun _ _ _ m hm => by omega⟩
    obtain ⟨y, rest, rfl⟩ : ∃ y rest, idxs = y :: rest := by
      cases idxs with
      | nil => exact absurd rfl hne
      | cons y rest => exact ⟨y, rest, rfl⟩
    have := hr y (by simp)
    have e : y = 1 := by simp at this; omega
    subst e; exact hv 1 (by simp)
  | k + 1, idxs, acc, hne, hlen, hr, hk => by
    have hle : 2 ^ (k + 1 + 1) ≤ 2 ^ d := Nat.pow_le_pow_right (by omega) (by omega)
    have h2 : 2 ≤ 2 ^ (k + 1) := by
      have : 2 ^ 1 ≤ 2 ^ (k + 1) := Nat.pow_le_pow_right (by omega) (by omega)
      simpa using this
    obtain ⟨acc', hpb, hl, hext, hgr⟩ := level_coupled H idxs 0 acc (by omega)
      (fun y hy => by have := hr y hy; omega)
    have hr' : ∀ w ∈ nextIdx idxs, 2 ^ k ≤ w ∧ w < 2 ^ (k + 1) := by
      intro w hw
      obtain ⟨y, hy, rfl⟩ := nextIdx_mem idxs w hw
      have := hr y hy
      exact half_range y k this.1 this.2
    obtain ⟨accF, hpbs, hlF, hextF, hgrs⟩ := levels_coupled H k (nextIdx idxs) acc'
      (nextIdx_ne_nil idxs hne) (by have := nextIdx_length idxs; omega) hr' (by omega)
    refine ⟨accF, by simp [pbLevels, hpb, hpbs], by omega, hext.trans hextF, ?_⟩
    intro st hp hv
    obtain ⟨st1, hg1, hp1, _, hnx, hm1, hc1, hpar1, hsib1⟩ := hgr accF st hextF hp hv
    obtain ⟨st', hg2, hroot, hpF, hm2, hc2, hanc⟩ := hgrs st1 hp1 hnx
    refine ⟨st', by simp [grLevels, hg1, hg2], hroot, hpF, fun kv hk => hm2 kv (hm1 kv hk),
      fun hc => hc2 (hc1 hc), ?_⟩
    intro hkeys y hy m hm
    cases m with
    | zero =>
      simp only [Nat.pow_zero, Nat.div_one]
      exact lkeys_mono hm2 _ (hsib1 hkeys y hy)
    | succ m =>
      have := hanc hpar1 (y / 2) (half_mem_nextIdx idxs y hy) m (by omega)
      rwa [Nat.div_div_eq_div_mul, Nat.mul_comm, ← Nat.pow_succ] at this

/-! ### the leaf level -/

/-- the proof nodes `prove_batch` emits for leaf slot `x`: the leaf itself unless it is opened -/
def miss (h : Nat → D) (N : Nat) (idxs : List Nat) (x : Nat) : List D :=
  if x ∈ idxs then [] else [h (N + x)]

/-- leaves written so far are the right ones -/
def OutInv (h : Nat → D) (N : Nat) (idxs : List Nat) (out : List D) (P : Nat → Prop) : Prop :=
  out.length = idxs.length ∧
  ∀ (j x : Nat), idxs[j]? = some x → P x → out[j]? = some (h (N + x))

theorem pbSlot_spec (H : Heap merge t d h) (idxs : List Nat) (hnd : idxs.Nodup) (imap : AMap Nat)
    (G : ∀ x j, AMap.get imap x = some j ↔ idxs[j]? = some x)
    (x : Nat) (hx : x < 2 ^ d) (ms out : List D) (P : Nat → Prop)
    (I : OutInv h (2 ^ d) idxs out P) :
    ∃ out', pbSlot t.leaves imap x (ms, out) = some (ms ++ miss h (2 ^ d) idxs x, out') ∧
      OutInv h (2 ^ d) idxs out' (fun y => y = x ∨ P y) := by
  have hl := H.leaf x hx
  by_cases hm : x ∈ idxs
  · obtain ⟨j, hj⟩ := List.getElem?_of_mem hm
    have hg := (G x j).mpr hj
    have hjl : j < out.length := by rw [I.1]; exact (List.getElem?_eq_some_iff.mp hj).1
    refine ⟨out.set j (h (2 ^ d + x)), by simp [pbSlot, hl, hg, hjl, miss, hm], by simp [I.1], ?_⟩
    intro j' x' hj' hP
    rw [List.getElem?_set]
    by_cases e : j = j'
    · subst e
      have : x' = x := by rw [hj] at hj'; exact (Option.some.inj hj').symm
      simp [hjl, this]
    · simp only [e, if_false]
      rcases hP with rfl | hP
      · obtain ⟨l1, e1⟩ := List.getElem?_eq_some_iff.mp hj
        obtain ⟨l2, e2⟩ := List.getElem?_eq_some_iff.mp hj'
        exact absurd ((List.getElem_inj hnd).mp (e1.trans e2.symm)) e
      · exact I.2 j' x' hj' hP
  · have hg : AMap.get imap x = none := by
      cases hgx : AMap.get imap x with
      | none => rfl
      | some j => exact absurd (List.mem_of_getElem? ((G x j).mp hgx)) hm
    refine ⟨out, by simp [pbSlot, hl, hg, miss, hm], I.1, ?_⟩
    intro j' x' hj' hP
    rcases hP with rfl | hP
    · exact absurd (List.mem_of_getElem? hj') hm
    · exact I.2 j' x' hj' hP

theorem pbFirst_spec (H : Heap merge t d h) (idxs : List Nat) (hnd : idxs.Nodup) (imap : AMap Nat)
    (G : ∀ x j, AMap.get imap x = some j ↔ idxs[j]? = some x) (n : Nat) :
    ∀ (rest : List Nat) (out : List D) (P : Nat → Prop), (∀ e ∈ rest, e + 1 < 2 ^ d) →
      OutInv h (2 ^ d) idxs out P →
      ∃ out', pbFirst t.leaves imap n rest out =
          some (rest.map (fun e => miss h (2 ^ d) idxs e ++ miss h (2 ^ d) idxs (e + 1)),
                rest.map (fun e => (e + n) / 2), out') ∧
        OutInv h (2 ^ d) idxs out' (fun y => P y ∨ ∃ e ∈ rest, y = e ∨ y = e + 1)
  | [], out, P, _, I => ⟨out, rfl, I.1, fun j x hj hP => I.2 j x hj (by simpa using hP)⟩
  | e :: rest, out, P, hr, I => by
    have he := hr e (by simp)
    obtain ⟨o1, h1, I1⟩ := pbSlot_spec H idxs hnd imap G e (by omega) [] out P I
    rw [List.nil_append] at h1
    obtain ⟨o2, h2, I2⟩ := pbSlot_spec H idxs hnd imap G (e + 1) he (miss h (2 ^ d) idxs e) o1 _ I1
    obtain ⟨o3, h3, I3⟩ := pbFirst_spec H idxs hnd imap G n rest o2 _
      (fun x hx => hr x (by simp [hx])) I2
    refine ⟨o3, ?_, I3.1, ?_⟩
    · simp only [pbFirst, h1, h2, h3, List.nil_append, List.map_cons]
    · intro j x hj hP
      apply I3.2 j x hj
      rcases hP with hP | ⟨e', he', hx⟩
      · exact Or.inl (Or.inr (Or.inr hP))
      · simp only [List.mem_cons] at he'
        rcases he' with rfl | he'
        · rcases hx with rfl | rfl
          · exact Or.inl (Or.inr (Or.inl rfl))
          · exact Or.inl (Or.inl rfl)
        · exact Or.inr ⟨e', he', hx⟩

theorem grPair_honest (H : Heap merge t d h) (idxs : List Nat) (imap : AMap Nat)
    (G : ∀ x j, AMap.get imap x = some j ↔ idxs[j]? = some x) (pn : List (List D)) (i e : Nat)
    (hor : e ∈ idxs ∨ e + 1 ∈ idxs) (b : List D) (hb : pn[i]? = some b)
    (hpre : miss h (2 ^ d) idxs e ++ miss h (2 ^ d) idxs (e + 1) <+: b) :
    grPair imap (idxs.map (fun i => h (2 ^ d + i))) pn i e =
      .ok (h (2 ^ d + e), h (2 ^ d + (e + 1)),
        (miss h (2 ^ d) idxs e ++ miss h (2 ^ d) idxs (e + 1)).length) := by
  have lvget : ∀ (x j : Nat), idxs[j]? = some x →
      (idxs.map (fun i => h (2 ^ d + i)))[j]? = some (h (2 ^ d + x)) := by
    intro x j hj; rw [List.getElem?_map, hj]; rfl
  have gnone : ∀ x : Nat, x ∉ idxs → AMap.get imap x = none := by
    intro x hx
    cases hgx : AMap.get imap x with
    | none => rfl
    | some j => exact absurd (List.mem_of_getElem? ((G x j).mp hgx)) hx
  by_cases h0 : e ∈ idxs
  · obtain ⟨j0, hj0⟩ := List.getElem?_of_mem h0
    have g0 := (G e j0).mpr hj0
    by_cases h1 : e + 1 ∈ idxs
    · obtain ⟨j1, hj1⟩ := List.getElem?_of_mem h1
      have g1 := (G (e + 1) j1).mpr hj1
      simp [grPair, g0, g1, lvget _ _ hj0, lvget _ _ hj1, miss, h0, h1]
    · have g1 := gnone _ h1
      simp only [miss, h0, h1, if_true, if_false, List.nil_append] at hpre ⊢
      obtain ⟨tl, rfl⟩ := hpre
      simp [grPair, g0, g1, lvget _ _ hj0, hb]
  · have h1 : e + 1 ∈ idxs := by rcases hor with h | h; exact absurd h h0; exact h
    obtain ⟨j1, hj1⟩ := List.getElem?_of_mem h1
    have g1 := (G (e + 1) j1).mpr hj1
    have g0 := gnone _ h0
    simp only [miss, h0, h1, if_true, if_false, List.append_nil] at hpre ⊢
    obtain ⟨tl, rfl⟩ := hpre
    simp [grPair, g0, g1, lvget _ _ hj1, hb]

theorem grFirst_honest (H : Heap merge t d h) (idxs : List Nat) (imap : AMap Nat)
    (G : ∀ x j, AMap.get imap x = some j ↔ idxs[j]? = some x) (pn : List (List D)) :
    ∀ (rest : List Nat) (i : Nat) (v : AMap D) (log : List (Nat × D)),
      (∀ e ∈ rest, e % 2 = 0 ∧ e + 1 < 2 ^ d ∧ (e ∈ idxs ∨ e + 1 ∈ idxs)) →
      (∀ k e, rest[k]? = some e → ∃ b, pn[i + k]? = some b ∧
          miss h (2 ^ d) idxs e ++ miss h (2 ^ d) idxs (e + 1) <+: b) →
      ∃ r, grFirst merge imap (idxs.map (fun i => h (2 ^ d + i))) pn (2 ^ d) i rest v log = .ok r ∧
        r.2 = rest.map (fun e => (2 ^ d + e) / 2) ∧
        r.1.ptrs = rest.map (fun e =>
          (miss h (2 ^ d) idxs e ++ miss h (2 ^ d) idxs (e + 1)).length) ∧
        (∀ y, AMap.get v y = some (h y) → AMap.get r.1.v y = some (h y)) ∧
        (∀ y ∈ r.2, AMap.get r.1.v y = some (h y)) ∧
        (∀ kv ∈ log, kv ∈ r.1.log) ∧ (Clean h log → Clean h r.1.log) ∧
        (∀ e ∈ rest, (2 ^ d + e) ∈ lkeys r.1.log ∧ ((2 ^ d + e) ^^^ 1) ∈ lkeys r.1.log ∧
          (2 ^ d + e) / 2 ∈ lkeys r.1.log)
  | [], i, v, log, _, _ => ⟨(⟨v, [], log⟩, []), rfl, rfl, rfl, fun _ hy => hy, by simp,
      fun _ hk => hk, fun hc => hc, by simp⟩
  | e :: rest, i, v, log, hr, hpn => by
    obtain ⟨hev, hlt, hor⟩ := hr e (by simp)
    obtain ⟨b, hb, hpre⟩ := hpn 0 e (by simp)
    have hpair := grPair_honest H idxs imap G pn i e hor b (by simpa using hb) hpre
    have hpar : merge (h (2 ^ d + e)) (h (2 ^ d + (e + 1))) = h ((2 ^ d + e) / 2) := by
      have hev2 := pow_even d H.dpos
      have := H.step ((2 ^ d + e) / 2) (by have := Nat.two_pow_pos d; omega) (by omega)
      have e1 : 2 * ((2 ^ d + e) / 2) = 2 ^ d + e := by omega
      rw [this, e1, Nat.add_assoc]
    obtain ⟨r, hrec, hnx, hptr, hmono, hall, hlm, hlc, hlk⟩ := grFirst_honest H idxs imap G pn rest (i + 1)
      (AMap.insert ((2 ^ d + e) / 2) (h ((2 ^ d + e) / 2)) v)
      (((2 ^ d + e) / 2, h ((2 ^ d + e) / 2)) :: ((2 ^ d + e) ^^^ 1, h (2 ^ d + (e + 1))) ::
        (2 ^ d + e, h (2 ^ d + e)) :: log)
      (fun x hx => hr x (by simp [hx]))
      (fun k x hk => by
        have := hpn (k + 1) x (by simpa using hk)
        rwa [show i + (k + 1) = i + 1 + k by omega] at this)
    refine ⟨(⟨r.1.v, (miss h (2 ^ d) idxs e ++ miss h (2 ^ d) idxs (e + 1)).length :: r.1.ptrs, r.1.log⟩,
      (2 ^ d + e) / 2 :: r.2), ?_, ?_, ?_, ?_, ?_, ?_, ?_, ?_⟩
    · simp only [grFirst, hpair, hpar, hrec]
    · simp [hnx]
    · simp [hptr]
    · intro y hy; exact hmono y (get_insert_mono _ _ _ hy)
    · intro y hy
      simp only [List.mem_cons] at hy
      rcases hy with rfl | hy
      · exact hmono _ (by simp [AMap.get_insert])
      · exact hall y hy
    · intro kv hk; exact hlm kv (by simp [hk])
    · intro hc
      apply hlc
      have hx : (2 ^ d + e) ^^^ 1 = 2 ^ d + (e + 1) := by
        rw [add_xor_one _ _ (pow_even d H.dpos), xor_one_even e hev]
      intro kv hk
      simp only [List.mem_cons] at hk
      rcases hk with rfl | rfl | rfl | hk
      · rfl
      · simp only [hx]
      · rfl
      · exact hc kv hk
    · intro x hx
      simp only [List.mem_cons] at hx
      rcases hx with rfl | hx
      · refine ⟨lkeys_mono hlm _ (by simp [lkeys]), lkeys_mono hlm _ (by simp [lkeys]),
          lkeys_mono hlm _ (by simp [lkeys])⟩
      · exact hlk x hx

/-! ### the partial tree of `into_openings` -/

theorem foldr_insert_get (l : List (Nat × D)) (hc : Clean h l) (z : Nat) (hz : z ∈ lkeys l) :
    AMap.get (l.foldr (fun kv m => AMap.insert kv.1 kv.2 m) []) z = some (h z) := by
  induction l with
  | nil => simp [lkeys] at hz
  | cons kv l ih =>
    simp only [List.foldr_cons, AMap.get_insert]
    by_cases e : z = kv.1
    · simp only [e, if_true]; rw [hc kv (by simp)]
    · simp only [e, if_false]
      apply ih (fun kv' hk => hc kv' (by simp [hk]))
      simp only [lkeys, List.map_cons, List.mem_cons] at hz
      rcases hz with hz | hz
      · exact absurd hz e
      · exact hz

theorem gpUp_spec (pt : AMap D) : ∀ (k y : Nat), 2 ^ k ≤ y → y < 2 ^ (k + 1) →
    (∀ m, m < k → AMap.get pt ((y / 2 ^ m) ^^^ 1) = some (h ((y / 2 ^ m) ^^^ 1))) →
    gpUp pt y = some (sibs h k y)
  | 0, y, h1, h2, _ => by
    have : y = 1 := by simp at h1 h2; omega
    subst this; rw [gpUp]; simp [sibs]
  | k + 1, y, h1, h2, hall => by
    have hy : 1 < y := by
      have : 2 ^ 1 ≤ 2 ^ (k + 1) := Nat.pow_le_pow_right (by omega) (by omega)
      omega
    have hh := half_range y k h1 h2
    have h0 := hall 0 (by omega)
    simp only [Nat.pow_zero, Nat.div_one] at h0
    have ih := gpUp_spec pt k (y / 2) hh.1 hh.2 (fun m hm => by
      have := hall (m + 1) (by omega)
      rwa [Nat.pow_succ, Nat.mul_comm, ← Nat.div_div_eq_div_mul] at this)
    rw [gpUp]; simp [hy, h0, ih, sibs]

theorem mapRes_ok {α β} (f : α → Res β) (g : α → β) : ∀ (l : List α),
    (∀ a ∈ l, f a = .ok (g a)) → mapRes f l = .ok (l.map g)
  | [], _ => rfl
  | a :: as, hf => by
    simp only [mapRes, hf a (by simp), mapRes_ok f g as (fun x hx => hf x (by simp [hx])),
      List.map_cons]

theorem initLog_clean (hd : d < 64) : ∀ (idxs : List Nat), (∀ i ∈ idxs, i < 2 ^ d) →
    Clean h (initLog d idxs (idxs.map (fun i => h (2 ^ d + i))))
  | [], _ => by simp [initLog]
  | i :: is, hr => by
    have hi := hr i (by simp)
    have h63 : 2 ^ d * 2 ≤ 2 ^ 64 := by
      rw [← Nat.pow_succ]; exact Nat.pow_le_pow_right (by omega) (by omega)
    have e : (i + 2 ^ (d % 64)) % 2 ^ 64 = 2 ^ d + i := by
      rw [Nat.mod_eq_of_lt hd, Nat.mod_eq_of_lt (by omega)]; omega
    intro kv hk
    simp only [List.map_cons, initLog, List.mem_append, List.mem_singleton] at hk
    rcases hk with hk | rfl
    · exact initLog_clean hd is (fun x hx => hr x (by simp [hx])) kv hk
    · simp only [e]

/-- (d) for every non-empty duplicate-free in-range index list (any order): `prove_batch` succeeds,
    returns the opened leaves in request order, `get_root` of its proof is the root, and
    `into_openings` expands it into exactly the single openings -/
theorem proveBatch_getRoot [Inhabited D] (H : Heap merge t d h) (hd : d < 64) (idxs : List Nat)
    (hne : idxs ≠ []) (hnd : idxs.Nodup) (hr : ∀ i ∈ idxs, i < 2 ^ d) :
    ∃ p, t.proveBatch idxs = .ok (idxs.map (fun i => h (2 ^ d + i)), p) ∧ p.depth = d ∧
      p.nodes.length = (normalize idxs).length ∧
      p.getRoot merge idxs (idxs.map (fun i => h (2 ^ d + i))) = .ok (h 1) ∧
      p.intoOpenings merge (idxs.map (fun i => h (2 ^ d + i))) idxs =
        .ok (idxs.map (fun i => (h (2 ^ d + i), sibs h d (2 ^ d + i)))) ∧
      pbLevels t.nodes (d - 1) ((normalize idxs).map (fun e => (e + 2 ^ d) / 2))
        ((normalize idxs).map (fun e => miss h (2 ^ d) idxs e ++ miss h (2 ^ d) idxs (e + 1))) =
        some p.nodes := by
  obtain ⟨imap, hmap, hmlen, G⟩ := mapIndexes_ok idxs d hd hnd hr
  have hev := pow_even d H.dpos
  have hnorm : ∀ e ∈ normalize idxs, e % 2 = 0 ∧ e + 1 < 2 ^ d ∧ (e ∈ idxs ∨ e + 1 ∈ idxs) := by
    intro e he
    obtain ⟨i0, hi0, rfl⟩ := (mem_normalize idxs e).mp he
    have := hr i0 hi0
    refine ⟨by omega, by omega, ?_⟩
    by_cases hp : i0 % 2 = 0
    · left; rw [hp]; exact hi0
    · right
      have : i0 - i0 % 2 + 1 = i0 := by omega
      rw [this]; exact hi0
  have hnne : normalize idxs ≠ [] := by
    obtain ⟨i0, rest, rfl⟩ : ∃ i0 rest, idxs = i0 :: rest := by
      cases idxs with
      | nil => exact absurd rfl hne
      | cons a b => exact ⟨a, b, rfl⟩
    intro hnil
    have : i0 - i0 % 2 ∈ normalize (i0 :: rest) := (mem_normalize _ _).mpr ⟨i0, by simp, rfl⟩
    rw [hnil] at this; simp at this
  -- first loop of prove_batch
  have I0 : OutInv h (2 ^ d) idxs (List.replicate imap.length default) (fun _ => False) :=
    ⟨by simp [hmlen], fun _ _ _ hP => absurd hP id⟩
  obtain ⟨out, hpf, Iout⟩ := pbFirst_spec H idxs hnd imap G t.leaves.length (normalize idxs) _ _
    (fun e he => (hnorm e he).2.1) I0
  have hout : out = idxs.map (fun i => h (2 ^ d + i)) := by
    apply List.ext_getElem?
    intro j
    by_cases hj : j < idxs.length
    · obtain ⟨x, hx⟩ : ∃ x, idxs[j]? = some x := ⟨idxs[j], by simp [hj]⟩
      have hxm := List.mem_of_getElem? hx
      rw [List.getElem?_map, hx]
      apply Iout.2 j x hx
      right
      refine ⟨x - x % 2, (mem_normalize _ _).mpr ⟨x, hxm, rfl⟩, ?_⟩
      omega
    · have h1 : out.length ≤ j := by rw [Iout.1]; omega
      have h2 : (idxs.map (fun i => h (2 ^ d + i))).length ≤ j := by simp; omega
      rw [List.getElem?_eq_none h1, List.getElem?_eq_none h2]
  subst hout
  -- upper loops
  have hdep := heap_depth H
  have hrange : ∀ y ∈ (normalize idxs).map (fun e => (e + t.leaves.length) / 2),
      2 ^ (d - 1) ≤ y ∧ y < 2 ^ (d - 1 + 1) := by
    intro y hy
    obtain ⟨e, he, rfl⟩ := List.mem_map.mp hy
    have := hnorm e he
    obtain ⟨k, rfl⟩ : ∃ k, d = k + 1 := ⟨d - 1, by have := H.dpos; omega⟩
    rw [H.llen]
    simp only [Nat.add_sub_cancel]
    rw [Nat.pow_succ] at this ⊢
    omega
  obtain ⟨accF, hpbs, hlF, hextF, hgrs⟩ := levels_coupled H (d - 1)
    ((normalize idxs).map (fun e => (e + t.leaves.length) / 2))
    ((normalize idxs).map (fun e => miss h (2 ^ d) idxs e ++ miss h (2 ^ d) idxs (e + 1)))
    (by simpa using hnne) (by simp) hrange (by have := H.dpos; omega)
  have hd256 : d % 256 = d := by omega
  have hie : idxs.isEmpty = false := by cases idxs <;> simp_all
  -- the common run of get_root / into_openings on the produced proof
  have hpn : ∀ k e, (normalize idxs)[k]? = some e → ∃ b, accF[0 + k]? = some b ∧
      miss h (2 ^ d) idxs e ++ miss h (2 ^ d) idxs (e + 1) <+: b := by
    intro k e hk
    have := hextF k (miss h (2 ^ d) idxs e ++ miss h (2 ^ d) idxs (e + 1))
      (by rw [List.getElem?_map, hk]; rfl)
    simpa using this
  obtain ⟨r, hgf, hnx, hptr, _, hall, _, hclean0, hkeys0⟩ :=
    grFirst_honest H idxs imap G accF (normalize idxs) 0 [] [] hnorm hpn
  have hnx' : r.2 = (normalize idxs).map (fun e => (e + t.leaves.length) / 2) := by
    rw [hnx, H.llen]; apply List.map_congr_left; intro e _; rw [Nat.add_comm]
  obtain ⟨st', hgl, hroot, hpF, hm, hc, hanc⟩ := hgrs r.1 (by rw [hptr, List.map_map]; rfl)
    (by rw [← hnx']; exact hall)
  rw [← hnx'] at hgl
  have hlen : (normalize idxs).length = accF.length := by simpa using hlF.symm
  have hrun : grRun merge ⟨accF, d⟩ idxs (idxs.map (fun i => h (2 ^ d + i))) = .ok st' := by
    simp only [grRun, hmap, pow2usize_lt d hd, hlen, hgf]
    simpa using hgl
  refine ⟨⟨accF, d⟩, ?_, rfl, by simpa using hlF, ?_, ?_, by have := hpbs; rw [H.llen] at this; exact this⟩
  · simp only [Tree.proveBatch, hie, hdep, hmap, hpf, hpbs, hd256]
    simp
  · -- every vector of the honest proof is consumed exactly (fix f1ad895)
    have hused : unusedNodes st'.ptrs accF = false := by rw [hpF]; exact unusedNodes_map_length accF
    simp [BatchProof.getRoot, hie, hrun, hroot, hused]  -- one leaf per index: `length_map`
  · -- the partial tree holds the tree's value at every key, and every key a path needs
    have hcl : Clean h (st'.log ++ initLog d idxs (idxs.map (fun i => h (2 ^ d + i)))) := by
      intro kv hk
      rcases List.mem_append.mp hk with hk | hk
      · exact hc (hclean0 (by intro kv hk; simp at hk)) kv hk
      · exact initLog_clean hd idxs hr kv hk
    have hpar : ∀ y ∈ r.2, y ∈ lkeys r.1.log := by
      intro y hy
      rw [hnx] at hy
      obtain ⟨e, he, rfl⟩ := List.mem_map.mp hy
      exact (hkeys0 e he).2.2
    have hanc' := hanc (by rw [← hnx']; exact hpar)
    have hget : ∀ z, z ∈ lkeys st'.log →
        AMap.get ((st'.log ++ initLog d idxs (idxs.map (fun i => h (2 ^ d + i)))).foldr
          (fun kv m => AMap.insert kv.1 kv.2 m) []) z = some (h z) := by
      intro z hz
      apply foldr_insert_get _ hcl
      simp only [lkeys, List.map_append, List.mem_append]
      exact Or.inl hz
    have h63 : 2 ^ d * 2 ≤ 2 ^ 64 := by
      rw [← Nat.pow_succ]; exact Nat.pow_le_pow_right (by omega) (by omega)
    have hlast : idxs.length = (idxs.map (fun i => h (2 ^ d + i))).length := by simp
    have hl2 : (idxs.length ≠ (idxs.map (fun i => h (2 ^ d + i))).length) = False := by simp
    simp only [BatchProof.intoOpenings, hie, hrun, hl2, if_false, Bool.false_eq_true]
    apply mapRes_ok
    intro i hi
    have hi' := hr i hi
    have ekey : (i + 2 ^ (d % 64)) % 2 ^ 64 = 2 ^ d + i := by
      rw [Nat.mod_eq_of_lt hd, Nat.mod_eq_of_lt (by omega)]; omega
    have hemem : i - i % 2 ∈ normalize idxs := (mem_normalize _ _).mpr ⟨i, hi, rfl⟩
    obtain ⟨hk1, hk2, hk3⟩ := hkeys0 _ hemem
    have hne' := hnorm _ hemem
    have hxe : (2 ^ d + (i - i % 2)) ^^^ 1 = 2 ^ d + (i - i % 2) + 1 :=
      xor_one_even _ (by omega)
    -- the leaf and its sibling
    have hleaf : (2 ^ d + i) ∈ lkeys st'.log ∧ ((2 ^ d + i) ^^^ 1) ∈ lkeys st'.log := by
      by_cases hp : i % 2 = 0
      · have e : i - i % 2 = i := by omega
        rw [e] at hk1 hk2
        exact ⟨lkeys_mono hm _ hk1, lkeys_mono hm _ hk2⟩
      · have e1 : 2 ^ d + (i - i % 2) + 1 = 2 ^ d + i := by omega
        have e2 : (2 ^ d + i) ^^^ 1 = 2 ^ d + (i - i % 2) := by
          rw [xor_one_odd _ (by omega)]; omega
        rw [hxe, e1] at hk2
        rw [e2]
        exact ⟨lkeys_mono hm _ hk2, lkeys_mono hm _ hk1⟩
    have hhalf : (2 ^ d + i) / 2 = (2 ^ d + (i - i % 2)) / 2 := by omega
    have hy1 : (2 ^ d + i) / 2 ∈ r.2 := by
      rw [hnx, hhalf]; exact List.mem_map.mpr ⟨_, hemem, rfl⟩
    have hsibs : ∀ m, m < d → AMap.get
        ((st'.log ++ initLog d idxs (idxs.map (fun i => h (2 ^ d + i)))).foldr
          (fun kv m => AMap.insert kv.1 kv.2 m) []) (((2 ^ d + i) / 2 ^ m) ^^^ 1) =
        some (h (((2 ^ d + i) / 2 ^ m) ^^^ 1)) := by
      intro m hm'
      apply hget
      cases m with
      | zero => simpa using hleaf.2
      | succ m =>
        have := hanc' ((2 ^ d + i) / 2) (by rw [← hnx']; exact hy1) m (by omega)
        rwa [Nat.div_div_eq_div_mul, Nat.mul_comm, ← Nat.pow_succ] at this
    have hup := gpUp_spec (h := h) _ d (2 ^ d + i) (by omega) (by rw [Nat.pow_succ]; omega) hsibs
    simp only [getProof, ekey, hget _ hleaf.1, hup]

end honest
end Wf.Merkle
