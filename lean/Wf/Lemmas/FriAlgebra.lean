/-
Helper lemmas for C08 / C09, part 2: the algebra of `Wf/Model/Fri.lean` over an arbitrary field `K`
(through the `ringOps` bridge): powers, Horner evaluation, regrouping of a polynomial by residue
classes of exponents, orthogonality of roots of unity, the inverse-DFT (prover) and Lagrange
(verifier) forms of folding, transposition, one FRI layer, the remainder.
-/
import Wf.Model.Fri
import Wf.Lemmas.RingOps
import Wf.Lemmas.Fri
import Mathlib.Tactic.Ring
import Mathlib.Tactic.FieldSimp
import Mathlib.Algebra.Ring.GeomSum
import Mathlib.RingTheory.RootsOfUnity.PrimitiveRoots
import Mathlib.LinearAlgebra.Lagrange
namespace Wf.Fri
open Wf Finset

variable {K : Type} [Field K] [DecidableEq K]

/-- the field instance the theorems are stated for: every operation is the field operation,
`inv` is the field inverse (`0⁻¹ = 0`, as `FieldElement::inv`) -/
abbrev fieldOps (K : Type) [Field K] [DecidableEq K] : FieldOps K := ringOps K (fun x => x⁻¹)

section proj
@[simp] theorem fo_zero : (fieldOps K).zero = 0 := rfl
@[simp] theorem fo_one : (fieldOps K).one = 1 := rfl
@[simp] theorem fo_add (a b : K) : (fieldOps K).add a b = a + b := rfl
@[simp] theorem fo_sub (a b : K) : (fieldOps K).sub a b = a - b := rfl
@[simp] theorem fo_mul (a b : K) : (fieldOps K).mul a b = a * b := rfl
@[simp] theorem fo_inv (a : K) : (fieldOps K).inv a = a⁻¹ := rfl
@[simp] theorem fo_ofNat (n : Nat) : (fieldOps K).ofNat n = (n : K) := rfl
@[simp] theorem fo_beq (a b : K) : (fieldOps K).beq a b = decide (a = b) := rfl
end proj

/-! ### powers, sums, products -/

theorem powGo_eq (fuel : Nat) : ∀ (r b : K) (n : Nat), n < 2 ^ fuel →
    powGo (fieldOps K) fuel r b n = r * b ^ n := by
  induction fuel with
  | zero => intro r b n h; have : n = 0 := by omega
            subst this; simp [powGo]
  | succ f ih =>
    intro r b n h
    simp only [powGo]
    by_cases hn : n = 0
    · subst hn; simp
    · rw [if_neg hn, ih _ _ _ (by omega)]
      have h2 := Nat.div_add_mod n 2
      by_cases hodd : n % 2 = 1
      · rw [if_pos hodd]
        simp only [fo_mul]
        conv_rhs => rw [← h2, hodd, pow_add, pow_mul, pow_one]
        ring
      · rw [if_neg hodd]
        have : n % 2 = 0 := by omega
        simp only [fo_mul]
        conv_rhs => rw [← h2, this, Nat.add_zero, pow_mul]
        ring

@[simp] theorem pow_eq (x : K) (n : Nat) : pow (fieldOps K) x n = x ^ n := by
  unfold pow
  rw [powGo_eq n _ _ n Nat.lt_two_pow_self]
  simp

@[simp] theorem sumRange_eq (n : Nat) (f : Nat → K) : sumRange (fieldOps K) n f = ∑ k ∈ range n, f k := by
  unfold sumRange
  induction n with
  | zero => simp
  | succ n ih => rw [List.range_succ, List.foldl_append, ih, Finset.sum_range_succ]; simp

@[simp] theorem prodRange_eq (n : Nat) (f : Nat → K) : prodRange (fieldOps K) n f = ∏ k ∈ range n, f k := by
  unfold prodRange
  induction n with
  | zero => simp
  | succ n ih => rw [List.range_succ, List.foldl_append, ih, Finset.prod_range_succ]; simp

/-! ### Horner evaluation -/

/-- `Σ_{m<D} c m · y^m` -/
def polyEval (c : Nat → K) (D : Nat) (y : K) : K := ∑ m ∈ range D, c m * y ^ m

theorem evalHornerRev_append (l : List K) (c x : K) :
    evalHornerRev (fieldOps K) (l ++ [c]) x = evalHornerRev (fieldOps K) l x * x + c := by
  simp [evalHornerRev, List.foldl_append]

/-- `eval_horner_rev` on the REVERSED coefficient list is ordinary evaluation `Σ c_i x^i` -/
theorem evalHornerRev_reverse (cs : List K) (x : K) :
    evalHornerRev (fieldOps K) cs.reverse x = ∑ i ∈ range cs.length, cs.getD i 0 * x ^ i := by
  induction cs with
  | nil => simp [evalHornerRev]
  | cons c cs ih =>
    rw [List.reverse_cons, evalHornerRev_append, ih, List.length_cons, Finset.sum_range_succ']
    simp only [List.getD_cons_succ, List.getD_cons_zero, pow_zero, mul_one, pow_succ]
    rw [Finset.sum_mul]
    congr 1
    apply Finset.sum_congr rfl
    intro i _
    ring

theorem evalPoly_eq (cs : List K) (x : K) :
    evalPoly (fieldOps K) cs x = ∑ i ∈ range cs.length, cs.getD i 0 * x ^ i :=
  evalHornerRev_reverse cs x

theorem evalPoly_map_range (a : Nat → K) (n : Nat) (x : K) :
    evalPoly (fieldOps K) ((List.range n).map a) x = ∑ i ∈ range n, a i * x ^ i := by
  rw [evalPoly_eq]
  simp only [List.length_map, List.length_range]
  apply Finset.sum_congr rfl
  intro i hi
  have : i < n := Finset.mem_range.mp hi
  simp [List.getD_eq_getElem?_getD, this]

/-! ### regrouping by residue classes of the exponent -/

omit [DecidableEq K] in
theorem sum_range_mul_regroup (g : Nat → K) (N M : Nat) :
    ∑ m ∈ range (N * M), g m = ∑ i ∈ range N, ∑ k ∈ range M, g (i + N * k) := by
  induction M with
  | zero => simp
  | succ M ih =>
    rw [Nat.mul_succ, Finset.sum_range_add, ih]
    simp only [Finset.sum_range_succ]
    rw [Finset.sum_add_distrib]
    congr 1
    apply Finset.sum_congr rfl
    intro i _
    rw [Nat.add_comm]

omit [DecidableEq K] in
/-- `f(y) = Σ_i y^i · f_i(y^N)` where `f_i` collects the coefficients of index `≡ i (mod N)` -/
theorem polyEval_split (c : Nat → K) (N M : Nat) (y : K) :
    polyEval c (N * M) y = ∑ i ∈ range N, y ^ i * ∑ k ∈ range M, c (i + N * k) * (y ^ N) ^ k := by
  unfold polyEval
  rw [sum_range_mul_regroup]
  apply Finset.sum_congr rfl
  intro i _
  rw [Finset.mul_sum]
  apply Finset.sum_congr rfl
  intro k _
  rw [pow_add, pow_mul]
  ring

/-! ### roots of unity -/

omit [DecidableEq K] in
theorem pow_mod_of_root {ω : K} {N : Nat} (hω : ω ^ N = 1) (m : Nat) : ω ^ m = ω ^ (m % N) := by
  conv_lhs => rw [← Nat.div_add_mod m N, pow_add, pow_mul, hω, one_pow, one_mul]

omit [DecidableEq K] in
/-- orthogonality: `Σ_{j<N} ω^(j·m)·(ω⁻¹)^(j·k)` is `N` if `m ≡ k (mod N)` and `0` otherwise -/
theorem root_orthogonality {ω : K} {N : Nat} (hω : IsPrimitiveRoot ω N) (m k : Nat) (hk : k < N) :
    ∑ j ∈ range N, ω ^ (j * m) * (ω⁻¹) ^ (j * k) = if m % N = k then (N : K) else 0 := by
  have hN : 0 < N := by omega
  have hω0 : ω ≠ 0 := hω.ne_zero (by omega)
  have hterm : ∀ j, ω ^ (j * m) * (ω⁻¹) ^ (j * k) = (ω ^ (m % N) * (ω ^ k)⁻¹) ^ j := by
    intro j
    rw [Nat.mul_comm j m, Nat.mul_comm j k, pow_mul, pow_mul, inv_pow, ← mul_pow,
      pow_mod_of_root hω.pow_eq_one m]
  simp only [hterm]
  by_cases h : m % N = k
  · rw [if_pos h, h, mul_inv_cancel₀ (pow_ne_zero _ hω0)]
    simp
  · rw [if_neg h]
    have hne : ω ^ (m % N) * (ω ^ k)⁻¹ ≠ 1 := by
      intro h1
      apply h
      apply hω.pow_inj (Nat.mod_lt _ hN) hk
      have := congrArg (· * ω ^ k) h1
      simpa [mul_assoc, inv_mul_cancel₀ (pow_ne_zero k hω0)] using this
    have hpow : (ω ^ (m % N) * (ω ^ k)⁻¹) ^ N = 1 := by
      rw [mul_pow, inv_pow, ← pow_mul, ← pow_mul, Nat.mul_comm, pow_mul, hω.pow_eq_one, one_pow,
        Nat.mul_comm, pow_mul, hω.pow_eq_one, one_pow]
      simp
    have := mul_geom_sum (ω ^ (m % N) * (ω ^ k)⁻¹) N
    rw [hpow, sub_self] at this
    exact (mul_eq_zero.mp this).resolve_left (sub_ne_zero_of_ne hne)

/-! ### the prover's way: inverse DFT of the row, scaled by powers of `x⁻¹` -/

/-- coefficient `k` of the polynomial interpolated from the values of `f` on the coset `x·ω^j`
is `f_k(x^N) = Σ_{k'} c(k + N k')·(x^N)^k'`: the row polynomial of `apply_drp` IS
`Y ↦ Σ_k Y^k f_k(x^N)` -/
theorem idftCoeff_fold {ω x : K} {N : Nat} (hω : IsPrimitiveRoot ω N) (hx : x ≠ 0) (c : Nat → K)
    (M k : Nat) (hk : k < N) :
    idftCoeff (fieldOps K) ω⁻¹ x⁻¹ (N : K)⁻¹
        ((List.range N).map fun j => polyEval c (N * M) (x * ω ^ j)) k =
      ∑ k' ∈ range M, c (k + N * k') * (x ^ N) ^ k' := by
  have hN : 0 < N := by omega
  have : NeZero N := ⟨by omega⟩
  have hNK : (N : K) ≠ 0 := (hω.neZero').ne
  unfold idftCoeff
  simp only [sumRange_eq, fo_mul, fo_zero, pow_eq, List.length_map, List.length_range]
  have hget : ∀ j ∈ range N, ((List.range N).map fun j => polyEval c (N * M) (x * ω ^ j)).getD j 0 =
      polyEval c (N * M) (x * ω ^ j) := by
    intro j hj
    have : j < N := Finset.mem_range.mp hj
    simp [List.getD_eq_getElem?_getD, this]
  rw [Finset.sum_congr rfl (fun j hj => by rw [hget j hj])]
  -- swap the sums and apply orthogonality
  have hswap : ∑ j ∈ range N, polyEval c (N * M) (x * ω ^ j) * ω⁻¹ ^ (j * k) =
      ∑ m ∈ range (N * M), c m * x ^ m * (if m % N = k then (N : K) else 0) := by
    unfold polyEval
    simp only [Finset.sum_mul]
    rw [Finset.sum_comm]
    apply Finset.sum_congr rfl
    intro m _
    rw [← root_orthogonality hω m k hk, Finset.mul_sum]
    apply Finset.sum_congr rfl
    intro j _
    rw [mul_pow, ← pow_mul]
    ring
  rw [hswap, sum_range_mul_regroup, Finset.sum_eq_single k]
  · rw [Finset.sum_mul]
    apply Finset.sum_congr rfl
    intro k' _
    have hmod : (k + N * k') % N = k := by
      rw [Nat.add_mul_mod_self_left, Nat.mod_eq_of_lt hk]
    rw [if_pos hmod, pow_add, pow_mul, inv_pow]
    field_simp
  · intro i _ hik
    apply Finset.sum_eq_zero
    intro k' _
    have hi : i < N := by simpa using ‹i ∈ range N›
    have hmod : (i + N * k') % N = i := by
      rw [Nat.add_mul_mod_self_left, Nat.mod_eq_of_lt hi]
    rw [if_neg (by rw [hmod]; exact hik), mul_zero]
  · intro h; exact absurd (Finset.mem_range.mpr hk) h

/-! ### the verifier's way: Lagrange interpolation on the coset -/

/-- the model's `lagrangeEval` on nodes `v j`, values `r j` (`j < N`) is the value at `a` of
Mathlib's Lagrange interpolant -/
theorem lagrangeEval_eq_interpolate (v r : Nat → K) (N : Nat) (a : K) :
    lagrangeEval (fieldOps K) ((List.range N).map v) ((List.range N).map r) a =
      Polynomial.eval a (Lagrange.interpolate (range N) v r) := by
  unfold lagrangeEval
  simp only [sumRange_eq, prodRange_eq, fo_mul, fo_sub, fo_inv, fo_one, fo_zero, List.length_map,
    List.length_range]
  rw [Lagrange.interpolate_apply, Polynomial.eval_finsetSum]
  apply Finset.sum_congr rfl
  intro j hj
  have hjN : j < N := Finset.mem_range.mp hj
  have hgetv : ∀ k ∈ range N, ((List.range N).map v).getD k 0 = v k := by
    intro k hk
    have : k < N := Finset.mem_range.mp hk
    simp [List.getD_eq_getElem?_getD, this]
  have hgetr : ((List.range N).map r).getD j 0 = r j := by
    simp [List.getD_eq_getElem?_getD, hjN]
  have h1 : ∏ k ∈ range N, (if k = j then (1 : K) else a - ((List.range N).map v).getD k 0) =
      ∏ k ∈ (range N).erase j, (a - v k) := by
    rw [← Finset.prod_erase (range N) (a := j) (by simp)]
    apply Finset.prod_congr rfl
    intro k hk
    rw [if_neg (Finset.ne_of_mem_erase hk), hgetv k (Finset.mem_of_mem_erase hk)]
  have h2 : ∏ k ∈ range N, (if k = j then (1 : K) else
        ((List.range N).map v).getD j 0 - ((List.range N).map v).getD k 0) =
      ∏ k ∈ (range N).erase j, (v j - v k) := by
    rw [← Finset.prod_erase (range N) (a := j) (by simp)]
    apply Finset.prod_congr rfl
    intro k hk
    rw [if_neg (Finset.ne_of_mem_erase hk), hgetv k (Finset.mem_of_mem_erase hk), hgetv j hj]
  rw [h1, h2, hgetr, Polynomial.eval_mul, Polynomial.eval_C, Lagrange.basis, Polynomial.eval_prod]
  simp only [Lagrange.basisDivisor, Polynomial.eval_mul, Polynomial.eval_C, Polynomial.eval_sub,
    Polynomial.eval_X]
  rw [Finset.prod_mul_distrib, Finset.prod_inv_distrib]
  ring

omit [DecidableEq K] in
theorem coset_injOn {ω x : K} {N : Nat} (hω : IsPrimitiveRoot ω N) (hx : x ≠ 0) :
    Set.InjOn (fun j : Nat => x * ω ^ j) (range N : Finset Nat) := by
  intro i hi j hj h
  have hi' : i < N := by simpa using hi
  have hj' : j < N := by simpa using hj
  exact hω.pow_inj hi' hj' (mul_left_cancel₀ hx h)

/-- FOLDING IDENTITY, general `N`: interpolating the values of `f` on the coset `x·ω^j` (`j < N`)
and evaluating at `α` gives `Σ_i α^i f_i(x^N)` where `f(y) = Σ_i y^i f_i(y^N)` -/
theorem lagrangeEval_fold {ω x : K} {N : Nat} (hω : IsPrimitiveRoot ω N) (hN : 0 < N) (hx : x ≠ 0)
    (c : Nat → K) (M : Nat) (α : K) :
    lagrangeEval (fieldOps K) ((List.range N).map fun j => x * ω ^ j)
        ((List.range N).map fun j => polyEval c (N * M) (x * ω ^ j)) α =
      ∑ i ∈ range N, α ^ i * ∑ k ∈ range M, c (i + N * k) * (x ^ N) ^ k := by
  rw [lagrangeEval_eq_interpolate]
  -- the candidate: Q(Y) = Σ_i f_i(x^N) Y^i
  set a : Nat → K := fun i => ∑ k ∈ range M, c (i + N * k) * (x ^ N) ^ k with ha
  have hQ : (∑ i : Fin N, Polynomial.C (a i) * Polynomial.X ^ (i : Nat)) =
      Lagrange.interpolate (range N) (fun j : Nat => x * ω ^ j)
        (fun j => polyEval c (N * M) (x * ω ^ j)) := by
    apply Lagrange.eq_interpolate_of_eval_eq _ (coset_injOn hω hx)
    · rw [Finset.card_range]; exact Polynomial.degree_sum_fin_lt _
    · intro j _
      rw [Polynomial.eval_finsetSum, polyEval_split, ← Fin.sum_univ_eq_sum_range
        (fun i => (x * ω ^ j) ^ i * ∑ k ∈ range M, c (i + N * k) * ((x * ω ^ j) ^ N) ^ k)]
      apply Finset.sum_congr rfl
      intro i _
      have hpow : (x * ω ^ j) ^ N = x ^ N := by
        rw [mul_pow, ← pow_mul, Nat.mul_comm, pow_mul, hω.pow_eq_one, one_pow, mul_one]
      simp only [Polynomial.eval_mul, Polynomial.eval_C, Polynomial.eval_pow, Polynomial.eval_X, hpow, ha]
      ring
  rw [← hQ, Polynomial.eval_finsetSum, ← Fin.sum_univ_eq_sum_range (fun i => α ^ i * a i)]
  apply Finset.sum_congr rfl
  intro i _
  simp only [Polynomial.eval_mul, Polynomial.eval_C, Polynomial.eval_pow, Polynomial.eval_X]
  ring

/-! ### folding factor 2 in closed form -/

/-- prover side, `N = 2`: `(f(x)+f(−x))/2 + α·(f(x)−f(−x))/(2x)` -/
theorem drpRow_two (x α a b : K) (h2 : (2 : K) ≠ 0) (hx : x ≠ 0) :
    drpRow (fieldOps K) 2 (-1) x⁻¹ α [a, b] = (a + b) / 2 + α * ((a - b) / (2 * x)) := by
  unfold drpRow idftCoeffs idftCoeff
  simp [evalPoly, Finset.sum_range_succ, List.range_succ]
  field_simp
  ring

/-- verifier side, `N = 2`: the same value from the Lagrange form on the nodes `x`, `−x` -/
theorem lagrangeEval_two (x α a b : K) (h2 : (2 : K) ≠ 0) (hx : x ≠ 0) :
    lagrangeEval (fieldOps K) [x, -x] [a, b] α = (a + b) / 2 + α * ((a - b) / (2 * x)) := by
  unfold lagrangeEval
  simp [Finset.sum_range_succ, Finset.prod_range_succ]
  have e1 : x + x = 2 * x := by ring
  have e2 : -x - x = -(2 * x) := by ring
  rw [e1, e2, inv_neg]
  field_simp
  ring

/-! ### one FRI layer on honest data -/

theorem transposeRows_eq {α : Type} (e : Nat → α) (N L : Nat) (hN : 0 < N) (xs : List α)
    (hlen : xs.length = N * L) (hget : ∀ p < N * L, xs[p]? = some (e p)) :
    transposeRows N xs =
      some ((List.range L).map fun i => (List.range N).map fun j => e (i + j * L)) := by
  unfold transposeRows
  have hdiv : xs.length / N = L := by rw [hlen, Nat.mul_div_cancel_left _ hN]
  rw [if_neg (by omega), hdiv, if_neg (by rw [hlen, Nat.mul_comm]; simp)]
  apply mapM_some_of_forall
  intro i hi
  have hi' : i < L := by simpa using hi
  apply mapM_some_of_forall
  intro j hj
  have hj' : j < N := by simpa using hj
  apply hget
  calc i + j * L < L + j * L := by omega
    _ = (j + 1) * L := by rw [Nat.add_mul, Nat.one_mul, Nat.add_comm]
    _ ≤ N * L := Nat.mul_le_mul_right _ hj'

omit [DecidableEq K] in
theorem root_pow_pred_eq_inv {w : K} {N : Nat} (hN : 0 < N) (hw : w ^ N = 1) : w ^ (N - 1) = w⁻¹ := by
  apply eq_inv_of_mul_eq_one_left
  rw [← pow_succ, Nat.sub_add_cancel hN, hw]

omit [DecidableEq K] in
theorem coset_point (g offset : K) (i j L : Nat) :
    offset * g ^ (i + j * L) = (offset * g ^ i) * (g ^ L) ^ j := by
  rw [pow_add, Nat.mul_comm j L, pow_mul]; ring

/-- the value the folding of one row yields, written with the coefficients of the polynomial:
`Σ_k α^k · f_k(x^N)`; as a polynomial in `y = x^N` this is `f'(y) = Σ_{k'} (Σ_k α^k c(k+N k')) y^k'`,
of degree `< M` when `f` has degree `< N·M` -/
def foldedValue (c : Nat → K) (N M : Nat) (α y : K) : K :=
  ∑ k ∈ range N, α ^ k * ∑ k' ∈ range M, c (k + N * k') * y ^ k'

omit [DecidableEq K] in
/-- `foldedValue` is the evaluation of the folded coefficient vector -/
theorem foldedValue_eq_polyEval (c : Nat → K) (N M : Nat) (α y : K) :
    foldedValue c N M α y = polyEval (fun k' => ∑ k ∈ range N, α ^ k * c (k + N * k')) M y := by
  unfold foldedValue polyEval
  simp only [Finset.mul_sum, Finset.sum_mul]
  rw [Finset.sum_comm]
  apply Finset.sum_congr rfl
  intro k' _
  apply Finset.sum_congr rfl
  intro k _
  ring

/-- PROVER: `apply_drp` on the transposed evaluations of a polynomial with `N·M` coefficients over
`offset·<g>` (`|<g>| = N·L`) gives, at row `i`, the folded polynomial at `(offset·g^i)^N` -/
theorem applyDrp_fold {g offset : K} {N L : Nat} (hg : IsPrimitiveRoot g (N * L)) (hN : 0 < N)
    (hL : 0 < L) (hoff : offset ≠ 0) (c : Nat → K) (M : Nat) (α : K) :
    applyDrp (fieldOps K) N g offset α
        ((List.range L).map fun i => (List.range N).map fun j => polyEval c (N * M) (offset * g ^ (i + j * L))) =
      (List.range L).map fun i => foldedValue c N M α ((offset * g ^ i) ^ N) := by
  have hNL : 0 < N * L := Nat.mul_pos hN hL
  have hg0 : g ≠ 0 := hg.ne_zero (by omega)
  have hω : IsPrimitiveRoot (g ^ L) N := IsPrimitiveRoot.pow hNL hg (Nat.mul_comm N L)
  unfold applyDrp
  simp only [List.length_map, List.length_range]
  apply List.map_congr_left
  intro i hi
  have hi' : i < L := by simpa using hi
  have hrow : ((List.range L).map fun i => (List.range N).map fun j =>
      polyEval c (N * M) (offset * g ^ (i + j * L))).getD i [] =
      (List.range N).map fun j => polyEval c (N * M) ((offset * g ^ i) * (g ^ L) ^ j) := by
    simp only [List.getD_eq_getElem?_getD, List.getElem?_map, List.getElem?_range hi', Option.map_some,
      Option.getD_some]
    apply List.map_congr_left
    intro j _
    rw [coset_point]
  have hx : offset * g ^ i ≠ 0 := mul_ne_zero hoff (pow_ne_zero _ hg0)
  rw [hrow]
  unfold drpRow idftCoeffs
  simp only [List.length_map, List.length_range, pow_eq, fo_inv, fo_mul, fo_ofNat]
  rw [root_pow_pred_eq_inv hN hω.pow_eq_one]
  have hxinv : offset⁻¹ * g⁻¹ ^ i = (offset * g ^ i)⁻¹ := by rw [mul_inv, inv_pow]
  rw [hxinv]
  have hco : (List.range N).map (idftCoeff (fieldOps K) (g ^ L)⁻¹ (offset * g ^ i)⁻¹ (N : K)⁻¹
      ((List.range N).map fun j => polyEval c (N * M) ((offset * g ^ i) * (g ^ L) ^ j))) =
      (List.range N).map fun k => ∑ k' ∈ range M, c (k + N * k') * ((offset * g ^ i) ^ N) ^ k' := by
    apply List.map_congr_left
    intro k hk
    exact idftCoeff_fold hω hx c M k (by simpa using hk)
  rw [hco, evalPoly_map_range]
  unfold foldedValue
  apply Finset.sum_congr rfl
  intro k _
  ring

/-- VERIFIER: interpolating the opened rows over the cosets computed by `verify_generic` and
evaluating at `α` gives the same folded values.  `g0`, `D0` are the initial generator / domain
size the `folding_roots` are computed from; `hroot` says they generate the same `N`-th roots -/
theorem foldRows_fold {g g0 offset : K} {N L D0 : Nat} (hg : IsPrimitiveRoot g (N * L)) (hN : 0 < N)
    (hL : 0 < L) (hoff : offset ≠ 0) (hroot : g0 ^ (D0 / N) = g ^ L) (c : Nat → K) (M : Nat) (α : K) :
    ∀ (folded : List Nat),
    foldRows (fieldOps K) α
        (layerXs (fieldOps K) g offset (foldingRoots (fieldOps K) g0 D0 N) folded)
        (folded.map fun i => (List.range N).map fun j => polyEval c (N * M) (offset * g ^ (i + j * L))) =
      some (folded.map fun i => foldedValue c N M α ((offset * g ^ i) ^ N)) := by
  have hNL : 0 < N * L := Nat.mul_pos hN hL
  have hg0 : g ≠ 0 := hg.ne_zero (by omega)
  have hω : IsPrimitiveRoot (g ^ L) N := IsPrimitiveRoot.pow hNL hg (Nat.mul_comm N L)
  intro folded
  induction folded with
  | nil => simp [foldRows, layerXs]
  | cons i rest ih =>
    simp only [layerXs, List.map_cons] at ih ⊢
    simp only [foldRows, ih]
    congr 2
    have hx : offset * g ^ i ≠ 0 := mul_ne_zero hoff (pow_ne_zero _ hg0)
    have hxs : (foldingRoots (fieldOps K) g0 D0 N).map
        (fun r => (fieldOps K).mul ((fieldOps K).mul (pow (fieldOps K) g i) offset) r) =
        (List.range N).map fun j => (offset * g ^ i) * (g ^ L) ^ j := by
      unfold foldingRoots
      rw [List.map_map]
      apply List.map_congr_left
      intro j _
      simp only [Function.comp, fo_mul, pow_eq]
      rw [pow_mul, hroot]
      ring
    have hys : ((List.range N).map fun j => polyEval c (N * M) (offset * g ^ (i + j * L))) =
        (List.range N).map fun j => polyEval c (N * M) ((offset * g ^ i) * (g ^ L) ^ j) := by
      apply List.map_congr_left
      intro j _
      rw [coset_point]
    rw [hxs, hys, lagrangeEval_fold hω hN hx c M α]
    rfl

/-! ### the remainder -/

/-- `set_remainder` on the evaluations of a polynomial with `m` coefficients over `offset·<g>`
(`|<g>| = m`) returns its first `m / blowup` coefficients, highest degree first -/
theorem remainderPoly_eq {g offset : K} {m : Nat} (hg : IsPrimitiveRoot g m) (hm : 0 < m)
    (hoff : offset ≠ 0) (c : Nat → K) (blowup : Nat) :
    remainderPoly (fieldOps K) g offset blowup ((List.range m).map fun p => polyEval c m (offset * g ^ p)) =
      ((List.range (m / blowup)).map c).reverse := by
  unfold remainderPoly idftCoeffs
  simp only [List.length_map, List.length_range, pow_eq, fo_inv, fo_ofNat]
  rw [root_pow_pred_eq_inv hm hg.pow_eq_one]
  have hco : (List.range m).map (idftCoeff (fieldOps K) g⁻¹ offset⁻¹ (m : K)⁻¹
      ((List.range m).map fun p => polyEval c m (offset * g ^ p))) = (List.range m).map c := by
    apply List.map_congr_left
    intro k hk
    have := idftCoeff_fold hg hoff c 1 k (by simpa using hk)
    simp only [Nat.mul_one, Finset.sum_range_one, Nat.mul_zero, Nat.add_zero, pow_zero, mul_one] at this
    exact this
  rw [hco, ← List.map_take, List.take_range, Nat.min_eq_left (Nat.div_le_self _ _)]

/-- the verifier's remainder check evaluates the committed polynomial: with the remainder produced
by `set_remainder`, `eval_horner_rev` at `y` is `Σ_{k < m/blowup} c_k y^k` -/
theorem evalHornerRev_remainder (c : Nat → K) (r : Nat) (y : K) :
    evalHornerRev (fieldOps K) ((List.range r).map c).reverse y = polyEval c r y := by
  rw [evalHornerRev_reverse]
  unfold polyEval
  simp only [List.length_map, List.length_range]
  apply Finset.sum_congr rfl
  intro i hi
  have : i < r := Finset.mem_range.mp hi
  simp [List.getD_eq_getElem?_getD, this]

omit [DecidableEq K] in
theorem polyEval_of_degree_lt (c : Nat → K) (r m : Nat) (hrm : r ≤ m) (hc : ∀ k, r ≤ k → c k = 0) (y : K) :
    polyEval c m y = polyEval c r y := by
  unfold polyEval
  obtain ⟨d, rfl⟩ := Nat.exists_eq_add_of_le hrm
  rw [Finset.sum_range_add]
  have : ∑ x ∈ range d, c (r + x) * y ^ (r + x) = 0 := by
    apply Finset.sum_eq_zero
    intro x _
    rw [hc (r + x) (by omega), zero_mul]
  rw [this, add_zero]

/-! ### the verifier on honestly opened data -/

theorem listBeq_self : ∀ (l : List K), listBeq (fieldOps K) l l = true
  | [] => rfl
  | a :: l => by simp [listBeq, listBeq_self l]

/-- COMPLETENESS OF ONE VERIFIER ITERATION.  State: domain of `N·L` points `offset·g^p`, claimed
degree bound `N·M`, the current evaluations are those of the polynomial with coefficients `c` at
the current positions.  Opening: the rows of the transposed layer at the folded positions.  Then
the iteration accepts and the new state carries the folded polynomial's values
`Σ_k α^k f_k(x^N)` at the folded positions, over the domain of `L` points generated by `g^N`. -/
theorem verifyLayer_honest (v : Verifier K) (depth : Nat) (st : LoopState K) {N L M : Nat}
    (c : Nat → K) (α : K) (hfold : v.options.folding = N) (hN : 0 < N) (hL : 0 < L)
    (hdom : st.domainSize = N * L) (hg : IsPrimitiveRoot st.g (N * L)) (hoff : v.offset ≠ 0)
    (hroot : v.g ^ (v.domainSize / N) = st.g ^ L) (hparts : v.numPartitions = 1)
    (halpha : v.alphas[depth]? = some α) (hmdp : st.mdp1 = N * M)
    (hpos : ∀ p ∈ st.positions, p < N * L)
    (hev : st.evaluations = st.positions.map fun p => polyEval c (N * M) (v.offset * st.g ^ p)) :
    verifyLayer (fieldOps K) v depth st
        { rows := (foldPositionsGo L st.positions []).map fun i =>
            (List.range N).map fun j => polyEval c (N * M) (v.offset * st.g ^ (i + j * L))
          merkleOk := true } =
      .ok { g := st.g ^ N, domainSize := L, mdp1 := M
            positions := foldPositionsGo L st.positions []
            evaluations := (foldPositionsGo L st.positions []).map fun i =>
              foldedValue c N M α ((v.offset * st.g ^ i) ^ N) } := by
  have hdiv : N * L / N = L := Nat.mul_div_cancel_left _ hN
  have hle : N ≤ N * L := Nat.le_mul_of_pos_right _ hL
  unfold verifyLayer
  rw [hfold, hdom, foldPositions_some _ _ _ hN hle, hdiv]
  simp only [mapPositionsToIndexes, hparts, if_true, halpha, Bool.not_true, Bool.false_eq_true, if_false]
  rw [getQueryValues_eq (fun p => polyEval c (N * M) (v.offset * st.g ^ p)) N L hN hL st.positions hpos]
  simp only [hev, listBeq_self, Bool.not_true, Bool.false_eq_true, if_false]
  rw [foldRows_fold hg hN hL hoff hroot c M α]
  simp only [hmdp, Nat.mul_mod_right, ne_eq, not_true_eq_false, if_false, hdiv, pow_eq,
    Nat.mul_div_cancel_left _ hN]

theorem mem_zip_self {α : Type} : ∀ (l : List α) (p q : α), (p, q) ∈ l.zip l → q = p
  | [], _, _, h => by simp at h
  | a :: l, p, q, h => by
    simp only [List.zip_cons_cons, List.mem_cons, Prod.mk.injEq] at h
    rcases h with ⟨h1, h2⟩ | h
    · rw [h1, h2]
    · exact mem_zip_self l p q h

/-- COMPLETENESS OF THE REMAINDER CHECK: the last-layer evaluations are those of a polynomial with
fewer than `m / blowup` non-zero coefficients, the remainder is what `set_remainder` computes from
the full last layer and matches its commitment -/
theorem verifyRemainder_honest (v : Verifier K) (st : LoopState K) {m : Nat} (blowup : Nat)
    (c : Nat → K) (hg : IsPrimitiveRoot st.g m) (hm : 0 < m) (hoff : v.offset ≠ 0)
    (hc : ∀ k, m / blowup ≤ k → c k = 0) (hmdp : m / blowup ≤ st.mdp1)
    (hev : st.evaluations = st.positions.map fun p => polyEval c m (v.offset * st.g ^ p)) :
    verifyRemainder (fieldOps K) v st
      (remainderPoly (fieldOps K) st.g v.offset blowup
        ((List.range m).map fun p => polyEval c m (v.offset * st.g ^ p))) true = .ok () := by
  rw [remainderPoly_eq hg hm hoff]
  unfold verifyRemainder
  simp only [Bool.not_true, Bool.false_eq_true, if_false, List.length_reverse, List.length_map,
    List.length_range]
  rw [if_neg (by omega)]
  have hck : checkRemainder (fieldOps K) st.g v.offset ((List.range (m / blowup)).map c).reverse
      st.positions st.evaluations = true := by
    rw [checkRemainder_iff, hev]
    intro pe hpe
    rw [List.zip_map_right] at hpe
    obtain ⟨⟨p, q⟩, hpq, rfl⟩ := List.mem_map.mp hpe
    have hq : q = p := mem_zip_self _ _ _ hpq
    subst hq
    simp only [Prod.map_apply, id_eq, fo_beq, fo_mul, pow_eq, decide_eq_true_eq]
    rw [evalHornerRev_remainder, polyEval_of_degree_lt c (m / blowup) m (Nat.div_le_self _ _) hc]
  rw [if_pos hck]

/-! ### all layers: the honest transcript and the verifier loop -/

/-- coefficients of the folded polynomial in the variable of the NEXT layer's domain: prover and
verifier treat every layer as living on `offset·<g_layer>`, while the folded values sit at
`(offset·g^i)^N = offset^(N-1)·(offset·(g^N)^i)`; hence the factor `offset^((N-1)·k')` -/
def foldCoeffs (N : Nat) (offset α : K) (c : Nat → K) : Nat → K :=
  fun k' => (∑ k ∈ range N, α ^ k * c (k + N * k')) * offset ^ ((N - 1) * k')

omit [DecidableEq K] in
theorem foldedValue_next (c : Nat → K) (N M : Nat) (hN : 0 < N) (offset α g : K) (i : Nat) :
    foldedValue c N M α ((offset * g ^ i) ^ N) =
      polyEval (foldCoeffs N offset α c) M (offset * (g ^ N) ^ i) := by
  obtain ⟨n, rfl⟩ : ∃ n, N = n + 1 := ⟨N - 1, by omega⟩
  rw [foldedValue_eq_polyEval]
  unfold polyEval foldCoeffs
  apply Finset.sum_congr rfl
  intro k' _
  rw [Nat.add_sub_cancel]
  have : (offset * g ^ i) ^ (n + 1) = offset ^ n * (offset * (g ^ (n + 1)) ^ i) := by
    rw [mul_pow, pow_succ offset n, ← pow_mul, ← pow_mul, Nat.mul_comm i (n + 1)]; ring
  rw [this, mul_pow, ← pow_mul]
  ring

omit [DecidableEq K] in
theorem foldCoeffs_vanish (N : Nat) (offset α : K) (c : Nat → K) (M : Nat)
    (hc : ∀ j, N * M ≤ j → c j = 0) : ∀ j, M ≤ j → foldCoeffs N offset α c j = 0 := by
  intro j hj
  unfold foldCoeffs
  have : ∑ k ∈ range N, α ^ k * c (k + N * j) = 0 := by
    apply Finset.sum_eq_zero
    intro k _
    rw [hc (k + N * j) (le_trans (Nat.mul_le_mul_left N hj) (Nat.le_add_left _ _)), mul_zero]
  rw [this, zero_mul]

/-- coefficients after `k` foldings with the challenges `αs` -/
def foldCoeffsIter (N : Nat) (offset : K) : Nat → List K → (Nat → K) → (Nat → K)
  | 0, _, c => c
  | _ + 1, [], c => c
  | k + 1, α :: αs, c => foldCoeffsIter N offset k αs (foldCoeffs N offset α c)

/-- positions after `k` foldings of a domain of size `d` -/
def foldPositionsIter (N : Nat) : Nat → Nat → List Nat → List Nat
  | 0, _, ps => ps
  | k + 1, d, ps => foldPositionsIter N k (d / N) (foldPositionsGo (d / N) ps [])

/-- the openings an honest prover sends for the polynomial with coefficients `c`: at every layer
the rows of the transposed evaluation vector at the folded positions -/
def honestOpenings (N : Nat) (offset : K) :
    Nat → K → Nat → Nat → (Nat → K) → List K → List Nat → List (LayerOpening K)
  | 0, _, _, _, _, _, _ => []
  | _ + 1, _, _, _, _, [], _ => []
  | k + 1, g, d, D, c, α :: αs, ps =>
    { rows := (foldPositionsGo (d / N) ps []).map fun i =>
        (List.range N).map fun j => polyEval c D (offset * g ^ (i + j * (d / N)))
      merkleOk := true } ::
    honestOpenings N offset k (g ^ N) (d / N) (D / N) (foldCoeffs N offset α c) αs
      (foldPositionsGo (d / N) ps [])

/-- COMPLETENESS OF THE VERIFIER LOOP for any number of layers `k`: from a state holding the
evaluations (at the queried positions) of a polynomial with fewer than `N^k·r` coefficients over a
domain of `N^k·m` points, the loop accepts the honest openings and ends in the state holding the
evaluations of the `k`-fold folded polynomial (fewer than `r` coefficients) over `m` points -/
theorem verifyLoop_honest (v : Verifier K) {N : Nat} (hfold : v.options.folding = N) (hN : 0 < N)
    (hoff : v.offset ≠ 0) (hparts : v.numPartitions = 1) (m r : Nat) (hm : 0 < m) :
    ∀ (k depth : Nat) (st : LoopState K) (c : Nat → K) (αs : List K),
      st.domainSize = N ^ k * m → st.mdp1 = N ^ k * r → IsPrimitiveRoot st.g (N ^ k * m) →
      (0 < k → v.g ^ (v.domainSize / N) = st.g ^ (st.domainSize / N)) →
      v.alphas.drop depth = αs → k ≤ αs.length →
      (∀ p ∈ st.positions, p < N ^ k * m) →
      (∀ j, N ^ k * r ≤ j → c j = 0) →
      st.evaluations = st.positions.map (fun p => polyEval c (N ^ k * r) (v.offset * st.g ^ p)) →
      ∃ st', verifyLoop (fieldOps K) v k depth st
          (honestOpenings N v.offset k st.g st.domainSize st.mdp1 c αs st.positions) = .ok st' ∧
        st'.g = st.g ^ (N ^ k) ∧ st'.domainSize = m ∧ st'.mdp1 = r ∧
        st'.positions = foldPositionsIter N k st.domainSize st.positions ∧
        (∀ p ∈ st'.positions, p < m) ∧
        st'.evaluations = st'.positions.map
          (fun p => polyEval (foldCoeffsIter N v.offset k αs c) r (v.offset * st'.g ^ p)) := by
  intro k
  induction k with
  | zero =>
    intro depth st c αs hd hD _ _ _ _ hpos _ hev
    refine ⟨st, rfl, by simp, by simpa using hd, by simpa using hD, rfl, by simpa using hpos, ?_⟩
    simpa [foldCoeffsIter] using hev
  | succ k ih =>
    intro depth st c αs hd hD hg hroot hα hlen hpos hc hev
    obtain ⟨α, αs', rfl⟩ : ∃ α αs', αs = α :: αs' := by
      cases αs with
      | nil => simp at hlen
      | cons a l => exact ⟨a, l, rfl⟩
    have hpow : N ^ (k + 1) = N * N ^ k := by rw [pow_succ, Nat.mul_comm]
    have hdom : st.domainSize = N * (N ^ k * m) := by rw [hd, hpow, Nat.mul_assoc]
    have hmdp : st.mdp1 = N * (N ^ k * r) := by rw [hD, hpow, Nat.mul_assoc]
    have hL : st.domainSize / N = N ^ k * m := by rw [hdom, Nat.mul_div_cancel_left _ hN]
    have hM : st.mdp1 / N = N ^ k * r := by rw [hmdp, Nat.mul_div_cancel_left _ hN]
    have hLpos : 0 < N ^ k * m := Nat.mul_pos (Nat.pow_pos hN) hm
    have hg' : IsPrimitiveRoot st.g (N * (N ^ k * m)) := by rw [← Nat.mul_assoc, ← hpow]; exact hg
    have halpha : v.alphas[depth]? = some α := by
      have := congrArg (fun l => l[0]?) hα
      simpa [List.getElem?_drop] using this
    have hα' : v.alphas.drop (depth + 1) = αs' := by
      have := congrArg (fun l => l.drop 1) hα
      simpa [List.drop_drop, Nat.add_comm] using this
    have hroot1 : v.g ^ (v.domainSize / N) = st.g ^ (N ^ k * m) := by
      rw [hroot (by omega), hL]
    have hstep := verifyLayer_honest v depth st (N := N) (L := N ^ k * m) (M := N ^ k * r) c α hfold hN
      hLpos hdom hg' hoff hroot1 hparts halpha hmdp
      (by intro p hp; rw [← Nat.mul_assoc, ← hpow]; exact hpos p hp)
      (by rw [hev, hpow, Nat.mul_assoc])
    -- the state after the first layer
    set st1 : LoopState K :=
      { g := st.g ^ N, domainSize := N ^ k * m, mdp1 := N ^ k * r
        positions := foldPositionsGo (N ^ k * m) st.positions []
        evaluations := (foldPositionsGo (N ^ k * m) st.positions []).map fun i =>
          foldedValue c N (N ^ k * r) α ((v.offset * st.g ^ i) ^ N) } with hst1
    have hg1 : IsPrimitiveRoot (st.g ^ N) (N ^ k * m) :=
      IsPrimitiveRoot.pow (Nat.mul_pos hN hLpos) hg' rfl
    have hroot2 : 0 < k → v.g ^ (v.domainSize / N) = st1.g ^ (st1.domainSize / N) := by
      intro hk
      obtain ⟨k', rfl⟩ : ∃ k', k = k' + 1 := ⟨k - 1, by omega⟩
      have : N ^ (k' + 1) * m / N = N ^ k' * m := by
        rw [pow_succ, Nat.mul_comm (N ^ k') N, Nat.mul_assoc, Nat.mul_div_cancel_left _ hN]
      rw [hroot1]
      simp only [hst1, this, ← pow_mul]
      congr 1
      rw [pow_succ]; ring
    have hpos1 : ∀ p ∈ st1.positions, p < N ^ k * m := by
      intro q hq
      obtain ⟨p, _, rfl⟩ := (mem_foldPositionsGo _ _ _).mp hq
      exact Nat.mod_lt _ hLpos
    have hev1 : st1.evaluations = st1.positions.map
        (fun p => polyEval (foldCoeffs N v.offset α c) (N ^ k * r) (v.offset * st1.g ^ p)) := by
      simp only [hst1]
      apply List.map_congr_left
      intro i _
      exact foldedValue_next c N (N ^ k * r) hN v.offset α st.g i
    obtain ⟨st', hrun, h1, h2, h3, h4, h5, h6⟩ := ih (depth + 1) st1 (foldCoeffs N v.offset α c) αs'
      rfl rfl hg1 hroot2 hα' (by simpa using hlen) hpos1
      (foldCoeffs_vanish N v.offset α c (N ^ k * r) (by rw [← Nat.mul_assoc, ← hpow]; exact hc)) hev1
    refine ⟨st', ?_, ?_, h2, h3, ?_, h5, ?_⟩
    · simp only [honestOpenings, verifyLoop, hL, hM]
      rw [hmdp, hstep]
      exact hrun
    · rw [h1]; simp only [hst1, ← pow_mul, hpow]
    · rw [h4]; simp only [foldPositionsIter, hL, hst1]
    · rw [h6]; simp only [foldCoeffsIter]

/-! ### the prover model produces the honest transcript -/

/-- the layers (transposed evaluation vectors) an honest prover commits to -/
def honestLayers (N : Nat) (offset : K) :
    Nat → K → Nat → Nat → (Nat → K) → List K → List (List (List K))
  | 0, _, _, _, _, _ => []
  | _ + 1, _, _, _, _, [] => []
  | k + 1, g, d, D, c, α :: αs =>
    ((List.range (d / N)).map fun i =>
        (List.range N).map fun j => polyEval c D (offset * g ^ (i + j * (d / N)))) ::
    honestLayers N offset k (g ^ N) (d / N) (D / N) (foldCoeffs N offset α c) αs

theorem buildLayersGo_honest {N : Nat} (hN : 0 < N) {offset : K} (hoff : offset ≠ 0) (m r : Nat)
    (hm : 0 < m) :
    ∀ (k : Nat) (g : K) (c : Nat → K) (αs : List K), IsPrimitiveRoot g (N ^ k * m) → k ≤ αs.length →
      buildLayersGo (fieldOps K) N offset k g αs
          ((List.range (N ^ k * m)).map fun p => polyEval c (N ^ k * r) (offset * g ^ p)) =
        some (honestLayers N offset k g (N ^ k * m) (N ^ k * r) c αs,
          (List.range m).map fun p =>
            polyEval (foldCoeffsIter N offset k αs c) r (offset * (g ^ (N ^ k)) ^ p)) := by
  intro k
  induction k with
  | zero => intro g c αs _ _; simp [buildLayersGo, honestLayers, foldCoeffsIter]
  | succ k ih =>
    intro g c αs hg hlen
    obtain ⟨α, αs', rfl⟩ : ∃ α αs', αs = α :: αs' := by
      cases αs with
      | nil => simp at hlen
      | cons a l => exact ⟨a, l, rfl⟩
    have hpow : N ^ (k + 1) = N * N ^ k := by rw [pow_succ, Nat.mul_comm]
    have hLpos : 0 < N ^ k * m := Nat.mul_pos (Nat.pow_pos hN) hm
    have hd : N ^ (k + 1) * m = N * (N ^ k * m) := by rw [hpow, Nat.mul_assoc]
    have hD : N ^ (k + 1) * r = N * (N ^ k * r) := by rw [hpow, Nat.mul_assoc]
    have hg' : IsPrimitiveRoot g (N * (N ^ k * m)) := by rw [← hd]; exact hg
    have hg1 : IsPrimitiveRoot (g ^ N) (N ^ k * m) :=
      IsPrimitiveRoot.pow (Nat.mul_pos hN hLpos) hg' rfl
    have htr := transposeRows_eq (fun p => polyEval c (N * (N ^ k * r)) (offset * g ^ p)) N (N ^ k * m) hN
      ((List.range (N * (N ^ k * m))).map fun p => polyEval c (N * (N ^ k * r)) (offset * g ^ p))
      (by simp) (by intro p hp; simp [hp])
    simp only [buildLayersGo, hd, hD, htr]
    rw [applyDrp_fold hg' hN hLpos hoff c (N ^ k * r) α]
    have hnext : ((List.range (N ^ k * m)).map fun i =>
        foldedValue c N (N ^ k * r) α ((offset * g ^ i) ^ N)) =
        (List.range (N ^ k * m)).map fun p =>
          polyEval (foldCoeffs N offset α c) (N ^ k * r) (offset * (g ^ N) ^ p) := by
      apply List.map_congr_left
      intro i _
      exact foldedValue_next c N (N ^ k * r) hN offset α g i
    rw [hnext, pow_eq, ih (g ^ N) (foldCoeffs N offset α c) αs' hg1 (by simpa using hlen)]
    simp only [honestLayers, foldCoeffsIter, Nat.mul_div_cancel_left _ hN, ← pow_mul, hpow]

theorem buildProofLayers_honest {N : Nat} (hN : 0 < N) {offset : K} (m r : Nat) (hm : 0 < m) :
    ∀ (k : Nat) (g : K) (c : Nat → K) (αs : List K) (ps : List Nat), k ≤ αs.length →
      buildProofLayers N (honestLayers N offset k g (N ^ k * m) (N ^ k * r) c αs) ps (N ^ k * m) =
        some ((honestOpenings N offset k g (N ^ k * m) (N ^ k * r) c αs ps).map (·.rows)) := by
  intro k
  induction k with
  | zero => intro g c αs ps _; simp [buildProofLayers, honestLayers, honestOpenings]
  | succ k ih =>
    intro g c αs ps hlen
    obtain ⟨α, αs', rfl⟩ : ∃ α αs', αs = α :: αs' := by
      cases αs with
      | nil => simp at hlen
      | cons a l => exact ⟨a, l, rfl⟩
    have hpow : N ^ (k + 1) = N * N ^ k := by rw [pow_succ, Nat.mul_comm]
    have hLpos : 0 < N ^ k * m := Nat.mul_pos (Nat.pow_pos hN) hm
    have hd : N ^ (k + 1) * m = N * (N ^ k * m) := by rw [hpow, Nat.mul_assoc]
    have hD : N ^ (k + 1) * r = N * (N ^ k * r) := by rw [hpow, Nat.mul_assoc]
    have hle : N ≤ N * (N ^ k * m) := Nat.le_mul_of_pos_right _ hLpos
    simp only [honestLayers, honestOpenings, buildProofLayers, hd, hD, Nat.mul_div_cancel_left _ hN,
      foldPositions_some _ _ _ hN hle, List.map_cons]
    have hq : queryLayer ((List.range (N ^ k * m)).map fun i =>
          (List.range N).map fun j => polyEval c (N * (N ^ k * r)) (offset * g ^ (i + j * (N ^ k * m))))
        (foldPositionsGo (N ^ k * m) ps []) =
        some ((foldPositionsGo (N ^ k * m) ps []).map fun i =>
          (List.range N).map fun j => polyEval c (N * (N ^ k * r)) (offset * g ^ (i + j * (N ^ k * m)))) := by
      unfold queryLayer
      apply mapM_some_of_forall
      intro q hq
      obtain ⟨p, _, rfl⟩ := (mem_foldPositionsGo _ _ _).mp hq
      have : p % (N ^ k * m) < N ^ k * m := Nat.mod_lt _ hLpos
      simp [this]
    rw [hq, ih (g ^ N) (foldCoeffs N offset α c) αs' _ (by simpa using hlen)]

omit [DecidableEq K] in
theorem foldCoeffsIter_vanish (N : Nat) (offset : K) (r : Nat) :
    ∀ (k : Nat) (αs : List K) (c : Nat → K), k ≤ αs.length → (∀ j, N ^ k * r ≤ j → c j = 0) →
      ∀ j, r ≤ j → foldCoeffsIter N offset k αs c j = 0 := by
  intro k
  induction k with
  | zero => intro αs c _ hc j hj; simpa [foldCoeffsIter] using hc j (by simpa using hj)
  | succ k ih =>
    intro αs c hlen hc j hj
    cases αs with
    | nil => simp at hlen
    | cons a l =>
      simp only [foldCoeffsIter]
      apply ih l (foldCoeffs N offset a c) (by simpa using hlen) _ j hj
      apply foldCoeffs_vanish
      intro j hj
      apply hc
      rw [pow_succ, Nat.mul_comm (N ^ k) N, Nat.mul_assoc]; exact hj

theorem honestOpenings_length (N : Nat) (offset : K) :
    ∀ (k : Nat) (g : K) (d D : Nat) (c : Nat → K) (αs : List K) (ps : List Nat), k ≤ αs.length →
      (honestOpenings N offset k g d D c αs ps).length = k := by
  intro k
  induction k with
  | zero => intros; simp [honestOpenings]
  | succ k ih =>
    intro g d D c αs ps hlen
    cases αs with
    | nil => simp at hlen
    | cons a l =>
      simp only [honestOpenings, List.length_cons]
      rw [ih _ _ _ _ l _ (by simpa using hlen)]

/-- END TO END (model level): the verifier accepts what the prover model builds from the
evaluations of a polynomial within the bound.  Domain of `N^k·m` points with `m = r·blowup`,
`N^k·r` coefficients (declared degree bound `N^k·r − 1`), `k` = number of FRI layers. -/
theorem verify_buildProof (o : FriOptions) {N : Nat} (hfold : o.folding = N) (hsup : supportedFolding N = true)
    (m r k : Nat) (hr : 0 < r) (hmr : m = r * o.blowup) (hb : 0 < o.blowup)
    (hk : o.numFriLayers (N ^ k * m) = k) (g offset : K) (hg : IsPrimitiveRoot g (N ^ k * m))
    (hoff : offset ≠ 0) (c : Nat → K) (hc : ∀ j, N ^ k * r ≤ j → c j = 0) (alphas : List K)
    (hα : k ≤ alphas.length) (positions : List Nat) (hpos : ∀ p ∈ positions, p < N ^ k * m) :
    ∃ layers remainder opened,
      buildLayers (fieldOps K) o g offset alphas
        ((List.range (N ^ k * m)).map fun p => polyEval c (N ^ k * r) (offset * g ^ p)) =
          some (layers, remainder) ∧
      buildProofLayers N layers positions (N ^ k * m) = some opened ∧
      verify (fieldOps K)
        { maxPolyDegree := N ^ k * r - 1, domainSize := N ^ k * m, g := g, offset := offset,
          options := o, numPartitions := 1, alphas := alphas }
        (positions.map fun p => polyEval c (N ^ k * r) (offset * g ^ p)) positions
        (opened.map fun rows => { rows := rows, merkleOk := true }) remainder true = .ok () ∧
      opened.length = k := by
  have hN : 0 < N := by
    rcases Nat.eq_zero_or_pos N with h | h
    · subst h; simp [supportedFolding] at hsup
    · exact h
  have hm : 0 < m := by rw [hmr]; exact Nat.mul_pos hr hb
  have hDpos : 0 < N ^ k * r := Nat.mul_pos (Nat.pow_pos hN) hr
  have hmb : m / o.blowup = r := by rw [hmr, Nat.mul_div_cancel _ hb]
  have hrm : r ≤ m := by rw [hmr]; exact Nat.le_mul_of_pos_right _ hb
  have hcv : ∀ j, r ≤ j → foldCoeffsIter N offset k alphas c j = 0 :=
    foldCoeffsIter_vanish N offset r k alphas c hα hc
  have hlast : ((List.range m).map fun p =>
      polyEval (foldCoeffsIter N offset k alphas c) r (offset * (g ^ (N ^ k)) ^ p)) =
      (List.range m).map fun p =>
        polyEval (foldCoeffsIter N offset k alphas c) m (offset * (g ^ (N ^ k)) ^ p) := by
    apply List.map_congr_left
    intro p _
    rw [polyEval_of_degree_lt _ r m hrm hcv]
  refine ⟨honestLayers N offset k g (N ^ k * m) (N ^ k * r) c alphas,
    remainderPoly (fieldOps K) (g ^ (N ^ k)) offset o.blowup ((List.range m).map fun p =>
      polyEval (foldCoeffsIter N offset k alphas c) m (offset * (g ^ (N ^ k)) ^ p)),
    (honestOpenings N offset k g (N ^ k * m) (N ^ k * r) c alphas positions).map (·.rows), ?_,
    buildProofLayers_honest (offset := offset) hN m r hm k g c alphas positions hα, ?_,
    by rw [List.length_map, honestOpenings_length N offset k _ _ _ _ _ _ hα]⟩
  · unfold buildLayers
    simp only [List.length_map, List.length_range, hk, hfold,
      buildLayersGo_honest hN hoff m r hm k g c alphas hg hα, pow_eq, hlast]
  · set v : Verifier K :=
      { maxPolyDegree := N ^ k * r - 1, domainSize := N ^ k * m, g := g, offset := offset,
        options := o, numPartitions := 1, alphas := alphas } with hv
    have hmd : N ^ k * r - 1 + 1 = N ^ k * r := by omega
    obtain ⟨st', hrun, h1, h2, h3, h4, h5, h6⟩ := verifyLoop_honest v (N := N) hfold hN hoff rfl m r hm k 0
      { g := g, domainSize := N ^ k * m, mdp1 := N ^ k * r - 1 + 1, positions := positions,
        evaluations := positions.map fun p => polyEval c (N ^ k * r) (offset * g ^ p) }
      c alphas rfl hmd hg (fun _ => rfl) rfl hα hpos hc rfl
    have hmerk : ∀ (k : Nat) (g : K) (d D : Nat) (c : Nat → K) (αs : List K) (ps : List Nat),
        ∀ o ∈ honestOpenings N offset k g d D c αs ps, o.merkleOk = true := by
      intro k
      induction k with
      | zero => intro g d D c αs ps o ho; simp [honestOpenings] at ho
      | succ k ih =>
        intro g d D c αs ps o ho
        cases αs with
        | nil => simp [honestOpenings] at ho
        | cons a l =>
          simp only [honestOpenings, List.mem_cons] at ho
          rcases ho with rfl | ho
          · rfl
          · exact ih _ _ _ _ _ _ o ho
    have hopen : ((honestOpenings N offset k g (N ^ k * m) (N ^ k * r) c alphas positions).map (·.rows)).map
        (fun rows => ({ rows := rows, merkleOk := true } : LayerOpening K)) =
        honestOpenings N offset k g (N ^ k * m) (N ^ k * r) c alphas positions := by
      rw [List.map_map]
      conv_rhs => rw [← List.map_id (honestOpenings N offset k g (N ^ k * m) (N ^ k * r) c alphas positions)]
      apply List.map_congr_left
      intro o ho
      have := hmerk k g _ _ c alphas positions o ho
      cases o
      simp_all
    unfold verify
    simp only [List.length_map, ne_eq, not_true_eq_false, if_false, hfold, hsup, Bool.not_true,
      Bool.false_eq_true, hv, hk, hmd]
    rw [hopen]
    simp only [hv, hmd] at hrun
    rw [hrun]
    -- the remainder
    have hg' : IsPrimitiveRoot st'.g m := by
      rw [h1]
      exact IsPrimitiveRoot.pow (Nat.mul_pos (Nat.pow_pos hN) hm) hg rfl
    have hrem := verifyRemainder_honest v st' (m := m) o.blowup (foldCoeffsIter N offset k alphas c) hg' hm hoff
      (by rw [hmb]; exact hcv) (by rw [h3, hmb])
      (by
        rw [h6]
        apply List.map_congr_left
        intro p _
        simp only [hv]
        rw [polyEval_of_degree_lt _ r m hrm hcv])
    simp only [hv] at hrem
    rw [h1] at hrem
    exact hrem

/-- END TO END THROUGH `FriVerifier::new`: the verifier is built from the declared degree bound
alone (`domain_size = (max_poly_degree + 1).next_power_of_two() · blowup`, generator `gOf` of that
size), the number of commitments is `k + 1`, and the bound `N^k·r − 1` has `N^k·r` a power of two
(this includes the bound 1: `N^k·r = 2`) -/
theorem newAndVerify_buildProof (o : FriOptions) {N : Nat} (hfold : o.folding = N)
    (hsup : supportedFolding N = true) (m r k a : Nat) (hr : 0 < r) (hmr : m = r * o.blowup)
    (hb : 0 < o.blowup) (hpow2 : N ^ k * r = 2 ^ a) (hk : o.numFriLayers (N ^ k * m) = k)
    (gOf : Nat → K) (offset : K) (hg : IsPrimitiveRoot (gOf (N ^ k * m)) (N ^ k * m)) (hoff : offset ≠ 0)
    (c : Nat → K) (hc : ∀ j, N ^ k * r ≤ j → c j = 0) (alphas : List K) (hα : alphas.length = k + 1)
    (positions : List Nat) (hpos : ∀ p ∈ positions, p < N ^ k * m) :
    ∃ layers remainder opened,
      buildLayers (fieldOps K) o (gOf (N ^ k * m)) offset alphas
        ((List.range (N ^ k * m)).map fun p => polyEval c (N ^ k * r) (offset * gOf (N ^ k * m) ^ p)) =
          some (layers, remainder) ∧
      buildProofLayers N layers positions (N ^ k * m) = some opened ∧
      newAndVerify (fieldOps K) o (N ^ k * r - 1) 1 gOf offset alphas
        (positions.map fun p => polyEval c (N ^ k * r) (offset * gOf (N ^ k * m) ^ p)) positions
        (opened.map fun rows => { rows := rows, merkleOk := true }) remainder true = .ok () := by
  have hN : 0 < N := by
    rcases Nat.eq_zero_or_pos N with h | h
    · subst h; simp [supportedFolding] at hsup
    · exact h
  obtain ⟨layers, remainder, opened, h1, h2, h3, h4⟩ :=
    verify_buildProof o hfold hsup m r k hr hmr hb hk (gOf (N ^ k * m)) offset hg hoff c hc alphas
      (by omega) positions hpos
  refine ⟨layers, remainder, opened, h1, h2, ?_⟩
  have hDpos : 0 < N ^ k * r := Nat.mul_pos (Nat.pow_pos hN) hr
  have hmd : N ^ k * r - 1 + 1 = N ^ k * r := by omega
  have hdom : nextPow2 (N ^ k * r - 1 + 1) * o.blowup = N ^ k * m := by
    rw [hmd, hpow2, nextPow2_two_pow, ← hpow2, hmr, Nat.mul_assoc]
  unfold newAndVerify
  rw [if_neg (by simp [h4, hα]), hα, hfold, newCheck_honest N r k hN hr]
  simp only [hdom]
  exact h3

/-! ### every supplied evaluation is pinned down by the transcript -/

theorem listBeq_eq : ∀ (l1 l2 : List K), listBeq (fieldOps K) l1 l2 = true → l1 = l2
  | [], [], _ => rfl
  | [], _ :: _, h => by simp [listBeq] at h
  | _ :: _, [], h => by simp [listBeq] at h
  | a :: l1, b :: l2, h => by
    simp only [listBeq, fo_beq, Bool.and_eq_true, decide_eq_true_eq] at h
    rw [h.1, listBeq_eq l1 l2 h.2]

theorem checkRemainder_eq (g offset : K) (remainder : List K) :
    ∀ (ps : List Nat) (es : List K), es.length = ps.length →
      checkRemainder (fieldOps K) g offset remainder ps es = true →
      es = ps.map fun p => evalHornerRev (fieldOps K) remainder (offset * g ^ p)
  | [], [], _, _ => rfl
  | [], _ :: _, h, _ => by simp at h
  | _ :: _, [], h, _ => by simp at h
  | p :: ps, e :: es, hl, h => by
    simp only [checkRemainder, fo_beq, fo_mul, pow_eq, Bool.and_eq_true, decide_eq_true_eq] at h
    rw [List.map_cons, ← h.1, ← checkRemainder_eq g offset remainder ps es (by simpa using hl) h.2]

/-- The transcript (positions, opened layers, remainder) determines the query evaluations the
verifier accepts: two evaluation vectors accepted with the same transcript are EQUAL — entry by
entry, for every position list (duplicates and positions sharing a folding coset included; no
distinctness hypothesis). -/
theorem accepted_evaluations_unique (v : Verifier K) (ev ev' : List K) (positions : List Nat)
    (openings : List (LayerOpening K)) (remainder : List K) (remOk remOk' : Bool)
    (h : verify (fieldOps K) v ev positions openings remainder remOk = .ok ())
    (h' : verify (fieldOps K) v ev' positions openings remainder remOk' = .ok ()) : ev = ev' := by
  obtain ⟨hl, _, st, hrun, hrem⟩ := verify_ok _ v ev positions openings remainder remOk h
  obtain ⟨hl', _, st', hrun', hrem'⟩ := verify_ok _ v ev' positions openings remainder remOk' h'
  generalize v.options.numFriLayers v.domainSize = k at hrun hrun'
  cases hrun with
  | done =>
    cases hrun'
    obtain ⟨_, _, hc⟩ := verifyRemainder_ok _ v _ remainder remOk hrem
    obtain ⟨_, _, hc'⟩ := verifyRemainder_ok _ v _ remainder remOk' hrem'
    rw [checkRemainder_eq v.g v.offset remainder positions ev hl hc,
      checkRemainder_eq v.g v.offset remainder positions ev' hl' hc']
  | step hlayer _ =>
    cases hrun' with
    | step hlayer' _ =>
      obtain ⟨qv, hq, hb⟩ := hlayer.queryValues
      obtain ⟨qv', hq', hb'⟩ := hlayer'.queryValues
      have hf := hlayer.folded
      have hf' := hlayer'.folded
      simp only at hf hf' hq hq' hb hb'
      rw [hf] at hf'
      injection hf' with hf'
      rw [← hf', hq] at hq'
      injection hq' with hq'
      rw [listBeq_eq _ _ hb, listBeq_eq _ _ hb', hq']

end Wf.Fri
