/-
Primitive roots of unity of order 2^(K+1) in a commutative ring without zero divisors satisfy the
hypothesis `ω^(2^K) = −1` used by the C12 theorems.
-/
import Mathlib.RingTheory.RootsOfUnity.PrimitiveRoots
namespace Wf.Fft

theorem primitiveRoot_half {R : Type} [CommRing R] [NoZeroDivisors R] (ω : R) (K : ℕ)
    (h : IsPrimitiveRoot ω (2 ^ (K + 1))) : ω ^ 2 ^ K = -1 := by
  have hd : 2 ^ K ∣ 2 ^ (K + 1) := ⟨2, by rw [pow_succ]⟩
  have h2 := h.pow_of_dvd (Nat.pos_iff_ne_zero.mp (Nat.two_pow_pos K)) hd
  have e : 2 ^ (K + 1) / 2 ^ K = 2 := by
    rw [pow_succ, Nat.mul_div_cancel_left _ (Nat.two_pow_pos K)]
  rw [e] at h2
  exact h2.eq_neg_one_of_two_right

end Wf.Fft
