/-
Helper lemmas for `Wf/Props/C05V.lean`, part 1: what decoding guarantees about a proof, lengths of
drawn coefficient lists, query positions, small list facts.  Core Lean only.
-/
import Wf.Model.Verifier
import Wf.Lemmas.ProofObjects
import Wf.Lemmas.RandomCoin
import Wf.Lemmas.MerkleBatch
import Wf.Props.C20
namespace Wf.Verifier
open Wf

/-! ### decoding -/

/-- what decoding guarantees about a proof (the checks of the `read_from` implementations) -/
structure Decoded (p : ProofM) : Prop where
  opts : p.context.options.validB = true
  main : p.context.info.main + p.context.info.aux ≤ 255
  len : ∃ lg, 3 ≤ lg ∧ lg < 64 ∧ p.context.info.length = 2 ^ lg
  nq : p.numUniqueQueries < 256
  tq : p.traceQueries.length = numSegments p.context

theorem readLe_lt (n : Nat) (bs : Bytes) (v : Nat) (r : Bytes) (h : readLe n bs = .ok v r) : v < 256 ^ n := by
  unfold readLe at h
  split at h
  · cases h
  · injection h with h1 h2
    subst h1
    have : ∀ (l : Bytes), fromLe l < 256 ^ l.length := by
      intro l
      induction l with
      | nil => simp [fromLe]
      | cons b bs ih =>
        simp only [fromLe, List.length_cons, Nat.pow_succ]
        have := b.toNat_lt
        omega
    have h3 := this (bs.take n)
    have h4 : (bs.take n).length ≤ n := by simp [List.length_take]; omega
    calc fromLe (bs.take n) < 256 ^ (bs.take n).length := h3
      _ ≤ 256 ^ n := Nat.pow_le_pow_right (by omega) h4

theorem readManyLoop_length {α} (d : Dec α) : ∀ (n : Nat) (acc : List α) (bs : Bytes) (l : List α) (r : Bytes),
    readManyLoop d n acc bs = .ok l r → l.length = acc.length + n
  | 0, acc, bs, l, r, h => by
    simp only [readManyLoop] at h
    injection h with h1 h2
    subst h1; simp
  | n + 1, acc, bs, l, r, h => by
    simp only [readManyLoop] at h
    split at h
    · rename_i a rest h'
      have := readManyLoop_length d n (a :: acc) rest l r h
      simp at this; omega
    · cases h
    · cases h

theorem traceInfo_decode_facts (bs : Bytes) (t : TraceInfo) (r : Bytes) (h : TraceInfo.decode bs = .ok t r) :
    t.main + t.aux ≤ 255 ∧ ∃ lg, 3 ≤ lg ∧ lg < 64 ∧ t.length = 2 ^ lg := by
  unfold TraceInfo.decode at h
  repeat' (first | (cases h; done) | split at h)
  all_goals
    injection h with h1 h2
    subst h1
    simp only []
    refine ⟨by omega, ?_⟩
    exact ⟨_, by omega, by omega, rfl⟩

theorem dec_bind_ok {α β} (d : Dec α) (f : α → Dec β) (bs : Bytes) (b : β) (r : Bytes)
    (h : Dec.bind d f bs = .ok b r) : ∃ a r1, d bs = .ok a r1 ∧ f a r1 = .ok b r := by
  unfold Dec.bind at h
  split at h
  · rename_i a rest h'; exact ⟨a, rest, h', h⟩
  · cases h
  · cases h

theorem proofOptions_decode_valid (bs : Bytes) (o : ProofOptions) (r : Bytes)
    (h : ProofOptions.decode bs = .ok o r) : o.validB = true := by
  unfold ProofOptions.decode at h
  obtain ⟨_, _, _, h⟩ := dec_bind_ok _ _ _ _ _ h
  obtain ⟨_, _, _, h⟩ := dec_bind_ok _ _ _ _ _ h
  obtain ⟨_, _, _, h⟩ := dec_bind_ok _ _ _ _ _ h
  obtain ⟨_, _, _, h⟩ := dec_bind_ok _ _ _ _ _ h
  obtain ⟨_, _, _, h⟩ := dec_bind_ok _ _ _ _ _ h
  obtain ⟨_, _, _, h⟩ := dec_bind_ok _ _ _ _ _ h
  obtain ⟨_, _, _, h⟩ := dec_bind_ok _ _ _ _ _ h
  obtain ⟨_, _, _, h⟩ := dec_bind_ok _ _ _ _ _ h
  obtain ⟨_, _, _, h⟩ := dec_bind_ok _ _ _ _ _ h
  obtain ⟨_, _, _, h⟩ := dec_bind_ok _ _ _ _ _ h
  simp only [] at h
  split at h
  · rename_i hv
    simp only [Dec.pure] at h
    injection h with h1 h2
    subst h1; exact hv
  · simp [Dec.fail] at h

theorem context_decode_facts (bs : Bytes) (c : Context) (r : Bytes) (h : Context.decode bs = .ok c r) :
    c.options.validB = true ∧ c.info.main + c.info.aux ≤ 255 ∧
    ∃ lg, 3 ≤ lg ∧ lg < 64 ∧ c.info.length = 2 ^ lg := by
  unfold Context.decode at h
  repeat' (first | (cases h; done) | split at h)
  injection h with h1 h2
  subst h1
  exact ⟨proofOptions_decode_valid _ _ _ (by assumption), traceInfo_decode_facts _ _ _ (by assumption)⟩

theorem proofDec_decoded (bs : Bytes) (p : ProofM) (r : Bytes) (h : proofDec bs = .ok p r) : Decoded p := by
  unfold proofDec at h
  repeat' (first | (cases h; done) | split at h)
  injection h with h1 h2
  subst h1
  rename_i _ ctx _ hctx _ nq _ hnq _ cm _ hcm _ tq _ htq _ cq _ hcq _ ood _ hood _ fri _ hfri _ nonce _ hnonce
  obtain ⟨f1, f2, f3⟩ := context_decode_facts _ _ _ hctx
  exact ⟨f1, f2, f3, by have := readLe_lt 1 _ _ _ hnq; simpa using this,
    by have := readManyLoop_length _ _ _ _ _ _ htq; simpa using this⟩

/-- the option facts used below, extracted from `validB` -/
theorem validB_facts (o : ProofOptions) (h : o.validB = true) :
    0 < o.queries ∧ o.queries ≤ 255 ∧ pow2B o.blowup = true ∧ 2 ≤ o.blowup ∧ o.blowup ≤ 128 ∧
    pow2B o.folding = true ∧ 2 ≤ o.folding ∧ o.folding ≤ 16 ∧ 1 ≤ o.nparts ∧ 1 ≤ o.hashRate := by
  unfold ProofOptions.validB at h
  simp only [Bool.and_eq_true, decide_eq_true_eq] at h
  obtain ⟨⟨⟨⟨⟨⟨⟨⟨⟨⟨⟨⟨⟨h1, h2⟩, h3⟩, h4⟩, h5⟩, h6⟩, h7⟩, h8⟩, h9⟩, h10⟩, h11⟩, h12⟩, h13⟩, h14⟩ := h
  exact ⟨h1, h2, h3, h4, h5, h7, h8, h9, h12, h14⟩

/-! ### drawn coefficient lists, `FriVerifier::new` -/

variable {F : Type}

theorem drawMany_length (H : HashParams) (fp : FieldParams) (ef : EF F) :
    ∀ (n : Nat) (c : CoinS) (xs : List F) (c' : CoinS), drawMany H fp ef n c = some (xs, c') → xs.length = n
  | 0, c, xs, c', h => by
    simp only [drawMany, Option.some.injEq, Prod.mk.injEq] at h
    rw [← h.1]; rfl
  | n + 1, c, xs, c', h => by
    simp only [drawMany] at h
    split at h
    · cases h
    · split at h
      · cases h
      · rename_i _ x c1 hx _ ys c2 h2
        simp only [Option.some.injEq, Prod.mk.injEq] at h
        rw [← h.1]
        simp [drawMany_length H fp ef n c1 ys c2 h2]

theorem powerSeries_length (ops : FieldOps F) (b : F) : ∀ (n : Nat) (cur : F), (powerSeries ops b n cur).length = n
  | 0, _ => rfl
  | n + 1, cur => by simp [powerSeries, powerSeries_length ops b n]

theorem drawCoefficients_length (H : HashParams) (fp : FieldParams) (ef : EF F) (m n : Nat) (c : CoinS)
    (xs : List F) (c' : CoinS) (h : drawCoefficients H fp ef m n c = some (xs, c')) : xs.length = n := by
  unfold drawCoefficients at h
  split at h
  · exact drawMany_length H fp ef n c xs c' h
  · split at h
    · cases h
    · split at h
      · simp only [Option.some.injEq, Prod.mk.injEq] at h
        rw [← h.1]; exact powerSeries_length _ _ _ _
      · simp only [Option.some.injEq, Prod.mk.injEq] at h
        rw [← h.1]; simp [powerSeries_length]

theorem friNewLoop_noabort (H : HashParams) (fp : FieldParams) (ef : EF F) (f nc : Nat) :
    ∀ (cms : List Nat) (depth mdp1 : Nat) (c : CoinS) (s : AbortSite),
      friNewLoop H fp ef f nc cms depth mdp1 c ≠ .error (.abort s)
  | [], _, _, _, _ => by simp [friNewLoop]
  | cm :: cms, depth, mdp1, c, s => by
    intro h
    simp only [friNewLoop] at h
    split at h
    · cases h
    · split at h
      · cases h
      · split at h
        · cases h
        · rename_i e he
          injection h with h
          subst h
          exact friNewLoop_noabort H fp ef f nc cms _ _ _ s he

theorem friNewLoop_ok (H : HashParams) (fp : FieldParams) (ef : EF F) (f nc : Nat) :
    ∀ (cms : List Nat) (depth mdp1 : Nat) (c : CoinS) (alphas : List F) (c' : CoinS),
      friNewLoop H fp ef f nc cms depth mdp1 c = .ok (alphas, c') →
      alphas.length = cms.length ∧
      ∀ j, j < cms.length → depth + j ≠ nc - 1 → (mdp1 / f ^ j) % f = 0
  | [], _, _, _, alphas, c', h => by
    simp only [friNewLoop] at h
    injection h with h
    simp only [Prod.mk.injEq] at h
    rw [← h.1]; simp
  | cm :: cms, depth, mdp1, c, alphas, c', h => by
    simp only [friNewLoop] at h
    split at h
    · cases h
    · split at h
      · cases h
      · rename_i hcheck
        split at h
        · rename_i as c2 hrec
          injection h with h
          simp only [Prod.mk.injEq] at h
          obtain ⟨ih1, ih2⟩ := friNewLoop_ok H fp ef f nc cms _ _ _ as c2 hrec
          rw [← h.1]
          refine ⟨by simp [ih1], ?_⟩
          intro j hj hne
          cases j with
          | zero =>
            simp only [Nat.pow_zero, Nat.div_one]
            by_cases hmod : mdp1 % f = 0
            · exact hmod
            · exact absurd ⟨by simpa using hne, hmod⟩ hcheck
          | succ j =>
            have := ih2 j (by simpa using hj) (by omega)
            rw [Nat.pow_succ, Nat.mul_comm, ← Nat.div_div_eq_div_mul]
            exact this
        · cases h

theorem pow_dvd_of_steps (f n : Nat) : ∀ (k : Nat), (∀ j, j < k → (n / f ^ j) % f = 0) → f ^ k ∣ n
  | 0, _ => by simp
  | k + 1, h => by
    have ih := pow_dvd_of_steps f n k (fun j hj => h j (by omega))
    obtain ⟨q, hq⟩ := ih
    have hk := h k (by omega)
    by_cases hf : f = 0
    · subst hf
      simp at hk
      -- n / 0^k % 0 = n / 0^k = 0
      cases k with
      | zero => simp at hk; subst hk; simp
      | succ k => simp at hq; subst hq; simp
    · have hpos : 0 < f ^ k := Nat.pow_pos (by omega)
      rw [hq, Nat.mul_div_cancel_left _ hpos] at hk
      obtain ⟨q', hq'⟩ := Nat.dvd_of_mod_eq_zero hk
      exact ⟨q', by rw [hq, hq', Nat.pow_succ, Nat.mul_assoc]⟩

/-! ### query positions -/

theorem mem_sortDedup (xs : List Nat) (x : Nat) : x ∈ sortDedup xs ↔ x ∈ xs := by
  unfold sortDedup
  have : ∀ (l s : List Nat), x ∈ l.foldl (fun s x => Merkle.sinsert x s) s ↔ x ∈ s ∨ x ∈ l := by
    intro l
    induction l with
    | nil => intro s; simp
    | cons a l ih =>
      intro s
      simp only [List.foldl_cons, ih, Merkle.mem_sinsert, List.mem_cons]
      constructor
      · rintro ((h | h) | h)
        · exact Or.inr (Or.inl h)
        · exact Or.inl h
        · exact Or.inr (Or.inr h)
      · rintro (h | h | h)
        · exact Or.inl (Or.inr h)
        · exact Or.inl (Or.inl h)
        · exact Or.inr h
  simpa using this xs []

theorem queryPositions_cases (H : HashParams) (o : ProofOptions) (lde nonce : Nat) (coin : CoinS)
    (hpow : ∃ k, lde = 2 ^ k) (hq : o.queries ≤ 255) (hlt : o.queries < lde) :
    queryPositions H o lde nonce coin = .error .pow ∨
    ∃ ps, queryPositions H o lde nonce coin = .ok ps ∧ ∀ p ∈ ps, p < lde := by
  unfold queryPositions
  split
  · exact Or.inl rfl
  · right
    obtain ⟨h1, h2, h3⟩ := Wf.Props.C20.drawIntegers_ok H.coin coin o.queries lde nonce hpow (by omega) hlt
    rw [h1]
    refine ⟨_, rfl, ?_⟩
    intro p hp
    exact h3 p ((mem_sortDedup _ _).mp hp)

/-! ### the public-coin seed (after fix ceafb22) -/

theorem mapM_isSome {α β} (g : α → Option β) : ∀ (l : List α), (∀ a ∈ l, ∃ b, g a = some b) → ∃ r, l.mapM g = some r
  | [], _ => ⟨[], by simp⟩
  | a :: l, h => by
    obtain ⟨b, hb⟩ := h a (by simp)
    obtain ⟨r, hr⟩ := mapM_isSome g l (fun x hx => h x (by simp [hx]))
    exact ⟨b :: r, by simp [List.mapM_cons, hb, hr]⟩

theorem fromLe_lt_pow : ∀ (l : Bytes), fromLe l < 256 ^ l.length
  | [] => by simp [fromLe]
  | b :: bs => by
    simp only [fromLe, List.length_cons, Nat.pow_succ]
    have := b.toNat_lt
    have := fromLe_lt_pow bs
    omega

theorem fromLe_append_zeros (l : Bytes) (k : Nat) : fromLe (l ++ List.replicate k 0) = fromLe l := by
  induction l with
  | nil =>
    induction k with
    | zero => rfl
    | succ k ih => simp only [List.nil_append] at ih; simp [List.replicate_succ, fromLe, ih]
  | cons b bs ih => simp only [List.cons_append, fromLe, ih]

theorem fromBytesWithPadding_isSome (fp : FieldParams) (bs : Bytes) (hlen : bs.length < fp.bytes)
    (hm : 256 ^ (fp.bytes - 1) ≤ fp.m) : ∃ v, fp.fromBytesWithPadding bs = some v := by
  unfold FieldParams.fromBytesWithPadding FieldParams.tryFromSlice FieldParams.tryFromInt
  rw [if_pos hlen, if_neg (by simp; omega), fromLe_append_zeros]
  have h1 := fromLe_lt_pow bs
  have h2 : 256 ^ bs.length ≤ 256 ^ (fp.bytes - 1) := Nat.pow_le_pow_right (by omega) (by omega)
  rw [if_neg (by omega)]
  exact ⟨_, rfl⟩

theorem chunksAux_length (n : Nat) : ∀ (f : Nat) (bs : Bytes), ∀ c ∈ TraceInfo.chunksAux n f bs, c.length ≤ n
  | 0, _, c, h => by simp [TraceInfo.chunksAux] at h
  | f + 1, bs, c, h => by
    simp only [TraceInfo.chunksAux] at h
    split at h
    · simp at h
    · rcases List.mem_cons.mp h with rfl | h
      · simp [List.length_take]; omega
      · exact chunksAux_length n f _ c h

/-- since fix ceafb22: once the modulus bytes are those of the base field, the seed elements exist -/
theorem contextElements_isSome (fp : FieldParams) (c : Context) (hf : fieldOk fp = true)
    (hm : c.modulus = leBytes fp.bytes fp.m) : ∃ els, contextElements fp c = some els := by
  unfold fieldOk at hf
  simp only [Bool.and_eq_true, decide_eq_true_eq] at hf
  obtain ⟨hb, hmm⟩ := hf
  have hl : c.modulus.length = fp.bytes := by rw [hm]; exact leBytes_length _ _
  obtain ⟨m1, h1⟩ := fromBytesWithPadding_isSome fp (c.modulus.take (c.modulus.length / 2))
    (by simp [List.length_take]; omega) hmm
  obtain ⟨m2, h2⟩ := fromBytesWithPadding_isSome fp (c.modulus.drop (c.modulus.length / 2))
    (by simp [List.length_drop]; omega) hmm
  obtain ⟨ms, h3⟩ := mapM_isSome fp.fromBytesWithPadding (TraceInfo.chunks (fp.bytes - 1) c.info.metaBytes)
    (by
      intro ch hch
      exact fromBytesWithPadding_isSome fp ch
        (by have := chunksAux_length _ _ _ ch hch; omega) hmm)
  unfold contextElements
  simp only [h1, h2, h3]
  exact ⟨_, rfl⟩

end Wf.Verifier
