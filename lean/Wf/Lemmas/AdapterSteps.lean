/- Per-operation simulation lemmas for the C27 refinement (core Lean only). -/
import Wf.Lemmas.Adapter
namespace Wf
open Adapter

/-- adapter response vs slice-reader response: equal, except that `check_eor` may be optimistic
    (it may say Ok where the slice reader says EOF, never the converse) and never panics. -/
def RespOk : ROp → RResp → RResp → Prop
  | .checkEor _, a, b => (a = .flag false → b = .flag false) ∧ (∃ f, a = .flag f)
  | _, a, b => a = b

def StepOk (s : Adapter) (op : ROp) : Prop :=
  NonEmptyChunks (adapterStep s op).1 ∧
  (adapterStep s op).1.abs = (sliceStep s.abs op).1 ∧
  RespOk op (adapterStep s op).2 (sliceStep s.abs op).2 ∧
  (EofInv s → EofInv (adapterStep s op).1)

namespace Adapter

theorem eofInv_of (s s' : Adapter) (he : s'.eof = s.eof) (hs : s'.src = s.src)
    (hr : s.rbuf = [] → s'.rbuf = []) : EofInv s → EofInv s' := by
  intro hinv h
  rw [he] at h
  have ⟨a, b⟩ := hinv h
  exact ⟨hr a, by rw [hs]; exact b⟩

theorem fill_eofInv (s : Adapter) (hinv : EofInv s) : EofInv s.fill := by
  intro he
  rw [fill_eof] at he
  have ⟨a, b⟩ := hinv he
  unfold fill
  simp [a, b]

theorem nonEmptyReaderMut_spec (s : Adapter) (h : NonEmptyChunks s) :
    let r := s.nonEmptyReaderMut
    r.1.abs = s.abs ∧ r.1.buffer = s.buffer ∧ NonEmptyChunks r.1 ∧
    (r.2 = false → s.abs = s.buffer ∧ r.1.rbuf = [] ∧ r.1.src = []) ∧
    (r.2 = true → r.1.rbuf ≠ []) ∧ r.1.pos = s.pos ∧ r.1.buf = s.buf ∧ r.1.cap = s.cap ∧
    (EofInv s → EofInv r.1) := by
  unfold nonEmptyReaderMut
  simp only []
  split
  · rename_i he
    have he' : s.fill.rbuf = [] := by simpa using he
    have ⟨h1, h2, h3⟩ := fill_rbuf_nil s h he'
    rw [h3]
    refine ⟨by simp [abs, buffer], by simp [buffer], h, ?_, fun h' => (by cases h'), rfl, rfl, rfl,
      fun _ _ => ⟨h1, h2⟩⟩
    intro _
    exact ⟨abs_of_drained s h1 h2, h1, h2⟩
  · rename_i he
    refine ⟨fill_abs s, fill_buffer s, fill_nonEmpty s h, fun h' => (by cases h'), fun _ => ?_,
      fill_pos s, fill_buf s, fill_cap s, fill_eofInv s⟩
    intro hn
    have : s.fill.rbuf = [] := hn
    simp [this] at he

theorem nonEmptyReader_spec (s : Adapter) (h : NonEmptyChunks s) :
    let r := s.nonEmptyReader
    r.1.abs = s.abs ∧ r.1.buffer = s.buffer ∧ NonEmptyChunks r.1 ∧
    (r.2 = false → s.abs = s.buffer ∧ r.1.rbuf = [] ∧ r.1.src = []) ∧
    (r.2 = true → r.1.rbuf ≠ []) ∧ r.1.eof = s.eof ∧ (EofInv s → EofInv r.1) := by
  unfold nonEmptyReader
  simp only []
  refine ⟨fill_abs s, fill_buffer s, fill_nonEmpty s h, ?_, ?_, fill_eof s, fill_eofInv s⟩
  · intro hf
    have he' : s.fill.rbuf = [] := by simpa using hf
    have ⟨h1, h2, h3⟩ := fill_rbuf_nil s h he'
    exact ⟨abs_of_drained s h1 h2, he', by rw [h3]; exact h2⟩
  · intro ht hn; simp [hn] at ht

theorem abs_cons_of_buffer (s : Adapter) (b : UInt8) (t : Bytes) (hb : s.buffer = b :: t) :
    s.abs = b :: (t ++ s.rbuf ++ s.src.flatten) := by simp [abs, hb]

end Adapter

/-! ### read_u8 -/

theorem step_readU8 (s : Adapter) (h : NonEmptyChunks s) : StepOk s .readU8 := by
  unfold StepOk
  simp only [adapterStep, RespOk]
  cases hb : s.buffer with
  | cons b t =>
    have habs := abs_cons_of_buffer s b t hb
    simp only [pop, hb, habs, sliceStep, outNat]
    refine ⟨h, ?_, trivial, eofInv_of s _ rfl rfl (fun x => x)⟩
    have := buffer_advance s 1
    simp only [abs] at this ⊢
    rw [this, hb]; simp
  | nil =>
    have sp := nonEmptyReaderMut_spec s h
    simp only [] at sp
    obtain ⟨h1, h2, h3, h4, h5, _, _, _, h9⟩ := sp
    simp only [pop, hb]
    cases hok : s.nonEmptyReaderMut.2 with
    | false =>
      have ⟨ha, hr, hs⟩ := h4 hok
      have hnil : s.abs = [] := by rw [ha, hb]
      have : s.nonEmptyReaderMut = (s.nonEmptyReaderMut.1, false) := by rw [← hok]
      rw [this]
      simp only [Bool.false_eq_true, if_false, hnil, sliceStep, outNat]
      refine ⟨h3, ?_, trivial, fun _ _ => ⟨hr, hs⟩⟩
      have : ({ s.nonEmptyReaderMut.1 with eof := true } : Adapter).abs = s.nonEmptyReaderMut.1.abs := by
        simp [abs, buffer]
      rw [this, h1, hnil]
    | true =>
      have hne := h5 hok
      have : s.nonEmptyReaderMut = (s.nonEmptyReaderMut.1, true) := by rw [← hok]
      rw [this]
      simp only [if_true]
      cases hr : s.nonEmptyReaderMut.1.rbuf with
      | nil => exact absurd hr hne
      | cons b rest =>
        have habs : s.abs = b :: (rest ++ s.nonEmptyReaderMut.1.src.flatten) := by
          rw [← h1]; simp [abs, h2, hb, hr]
        simp only [habs, sliceStep, outNat]
        refine ⟨h3, ?_, trivial, fun hinv => eofInv_of s.nonEmptyReaderMut.1 _ rfl rfl
          (fun x => by rw [x] at hr; cases hr) (h9 hinv)⟩
        have hbuf : ({ s.nonEmptyReaderMut.1 with rbuf := rest } : Adapter).buffer = [] := by
          have : ({ s.nonEmptyReaderMut.1 with rbuf := rest } : Adapter).buffer
              = s.nonEmptyReaderMut.1.buffer := rfl
          rw [this, h2, hb]
        simp only [abs, hbuf, List.nil_append]

/-! ### peek_u8 -/

theorem step_peek (s : Adapter) (h : NonEmptyChunks s) : StepOk s .peek := by
  unfold StepOk
  simp only [adapterStep, RespOk]
  cases hb : s.buffer with
  | cons b t =>
    have habs := abs_cons_of_buffer s b t hb
    simp only [peek, hb, sliceStep, outNat]
    rw [habs]
    exact ⟨h, rfl, rfl, fun x => x⟩
  | nil =>
    have sp := nonEmptyReader_spec s h
    simp only [] at sp
    obtain ⟨h1, h2, h3, h4, h5, _, h7⟩ := sp
    simp only [peek, hb]
    cases hok : s.nonEmptyReader.2 with
    | false =>
      have ⟨ha, hr, hs⟩ := h4 hok
      have hnil : s.abs = [] := by rw [ha, hb]
      have : s.nonEmptyReader = (s.nonEmptyReader.1, false) := by rw [← hok]
      rw [this]
      simp only [Bool.false_eq_true, if_false, hnil, sliceStep, outNat]
      exact ⟨h3, by rw [h1, hnil], trivial, h7⟩
    | true =>
      have hne := h5 hok
      have : s.nonEmptyReader = (s.nonEmptyReader.1, true) := by rw [← hok]
      rw [this]
      simp only [if_true]
      cases hr : s.nonEmptyReader.1.rbuf with
      | nil => exact absurd hr hne
      | cons b rest =>
        have habs : s.abs = b :: (rest ++ s.nonEmptyReader.1.src.flatten) := by
          rw [← h1]; simp [abs, h2, hb, hr]
        simp only [sliceStep, outNat]
        rw [habs]
        exact ⟨h3, by rw [h1, habs], rfl, h7⟩

/-! ### has_more_bytes -/

theorem step_hasMore (s : Adapter) (h : NonEmptyChunks s) : StepOk s .hasMore := by
  unfold StepOk
  simp only [adapterStep, RespOk, sliceStep]
  cases hb : s.buffer with
  | cons b t =>
    have habs := abs_cons_of_buffer s b t hb
    simp only [hasMore, hb, List.isEmpty_cons, Bool.not_false, if_true]
    exact ⟨h, trivial, by rw [habs]; rfl, fun x => x⟩
  | nil =>
    have sp := nonEmptyReader_spec s h
    simp only [] at sp
    obtain ⟨h1, h2, h3, h4, h5, _, h7⟩ := sp
    simp only [hasMore, hb, List.isEmpty_nil, Bool.not_true, Bool.false_eq_true, if_false]
    refine ⟨h3, h1, ?_, h7⟩
    cases hok : s.nonEmptyReader.2 with
    | false =>
      have ⟨ha, _, _⟩ := h4 hok
      have hnil : s.abs = [] := by rw [ha, hb]
      rw [hnil]; rfl
    | true =>
      have hne := h5 hok
      have : s.abs ≠ [] := by
        rw [← h1]; simp only [abs]; intro hc
        simp only [List.append_eq_nil_iff] at hc
        exact hne hc.1.2
      cases habs : s.abs with
      | nil => exact absurd habs this
      | cons _ _ => rfl

/-! ### check_eor -/

theorem step_checkEor (s : Adapter) (h : NonEmptyChunks s) (hinv : EofInv s) (n : Nat) :
    StepOk s (.checkEor n) := by
  unfold StepOk
  simp only [adapterStep, RespOk, sliceStep]
  unfold checkEorA
  simp only []
  split
  · exact ⟨h, rfl, ⟨fun hc => (by cases hc), ⟨true, rfl⟩⟩, fun x => x⟩
  · rename_i hlt
    have sp := nonEmptyReader_spec s h
    simp only [] at sp
    obtain ⟨h1, h2, h3, h4, h5, h6, h7⟩ := sp
    cases hok : s.nonEmptyReader.2 with
    | false =>
      have ⟨ha, _, _⟩ := h4 hok
      have : s.nonEmptyReader = (s.nonEmptyReader.1, false) := by rw [← hok]
      rw [this]
      simp only [Bool.not_false, if_true]
      refine ⟨h3, h1, ⟨fun _ => ?_, ⟨false, rfl⟩⟩, h7⟩
      have : ¬ n ≤ s.abs.length := by rw [ha]; omega
      simp [this]
    | true =>
      have hne := h5 hok
      have : s.nonEmptyReader = (s.nonEmptyReader.1, true) := by rw [← hok]
      rw [this]
      simp only [Bool.not_true, Bool.false_eq_true, if_false]
      split
      · exact ⟨h3, h1, ⟨fun hc => (by cases hc), ⟨true, rfl⟩⟩, h7⟩
      · split
        · rename_i he
          -- impossible: guaranteed_eof is set only once the stream is drained
          have := (h7 hinv he).1
          exact absurd this hne
        · exact ⟨h3, h1, ⟨fun hc => (by cases hc), ⟨true, rfl⟩⟩, h7⟩

end Wf
