/- Closure lemmas for the codec combinators (core Lean only). -/
import Wf.Lemmas.Vint
namespace Wf

/-- decoding the encoding of `x`, followed by any bytes `r`, returns `x` and leaves exactly `r`. -/
def RoundTrips {α} (c : Codec α) (valid : α → Prop) : Prop :=
  ∀ x r, valid x → c.dec (c.enc x ++ r) = .ok x r

/-- the decoder never panics / aborts, whatever the input. -/
def NoAbort {α} (d : Dec α) : Prop := ∀ bs, d bs = .abort → False

theorem prealloc_ok (n s : Nat) : ¬ (readManyPrealloc n s * s > allocLimit) := by
  unfold readManyPrealloc maxPreallocBytes allocLimit
  have h1 : min n (2 ^ 16 / max s 1) ≤ 2 ^ 16 / max s 1 := Nat.min_le_right _ _
  have h2 : 2 ^ 16 / max s 1 * s ≤ 2 ^ 16 := by
    by_cases hs : s = 0
    · subst hs; simp
    · have : max s 1 = s := by omega
      rw [this]; exact Nat.div_mul_le_self _ _
  have h3 : min n (2 ^ 16 / max s 1) * s ≤ 2 ^ 16 / max s 1 * s := Nat.mul_le_mul_right _ h1
  omega

theorem readManyLoop_roundtrip {α} (c : Codec α) (valid : α → Prop) (h : RoundTrips c valid)
    (xs : List α) (acc : List α) (r : Bytes) (hx : ∀ x ∈ xs, valid x) :
    readManyLoop c.dec xs.length acc (Codec.encMany c xs ++ r) = .ok (acc.reverse ++ xs) r := by
  induction xs generalizing acc with
  | nil => simp [readManyLoop, Codec.encMany]
  | cons x xs ih =>
    have hx1 : valid x := hx x (by simp)
    have hxs : ∀ y ∈ xs, valid y := fun y hy => hx y (by simp [hy])
    have henc : Codec.encMany c (x :: xs) ++ r = c.enc x ++ (Codec.encMany c xs ++ r) := by
      simp [Codec.encMany]
    rw [henc]
    simp only [List.length_cons, readManyLoop, h x _ hx1]
    rw [ih (x :: acc) hxs]
    simp

theorem readMany_roundtrip {α} (c : Codec α) (valid : α → Prop) (h : RoundTrips c valid)
    (s : Nat) (xs : List α) (r : Bytes) (hx : ∀ x ∈ xs, valid x) :
    readMany s c.dec xs.length (Codec.encMany c xs ++ r) = .ok xs r := by
  unfold readMany
  rw [if_neg (prealloc_ok _ _)]
  have := readManyLoop_roundtrip c valid h xs [] r hx
  simpa using this

theorem readManyLoop_noAbort {α} (d : Dec α) (hd : NoAbort d) (n : Nat) (acc : List α) :
    NoAbort (readManyLoop d n acc) := by
  induction n generalizing acc with
  | zero => intro bs h; simp [readManyLoop] at h
  | succ n ih =>
    intro bs h
    simp only [readManyLoop] at h
    split at h
    · exact ih _ _ h
    · cases h
    · rename_i h'; exact hd _ h'

theorem readMany_noAbort {α} (d : Dec α) (hd : NoAbort d) (s n : Nat) : NoAbort (readMany s d n) := by
  intro bs h
  unfold readMany at h
  rw [if_neg (prealloc_ok _ _)] at h
  exact readManyLoop_noAbort d hd n [] bs h

theorem readLe_noAbort (n : Nat) : NoAbort (readLe n) := by
  intro bs h; unfold readLe at h; split at h <;> cases h

theorem readBool_noAbort : NoAbort readBool := by
  intro bs h
  unfold readBool at h
  split at h <;> try cases h
  rename_i h'; exact readLe_noAbort 1 _ h'

theorem readSlice_noAbort (n : Nat) : NoAbort (readSlice n) := by
  intro bs h; unfold readSlice at h; split at h <;> cases h

theorem readUsize_noAbort : NoAbort readUsize := by
  intro bs h
  unfold readUsize at h
  split at h
  · cases h
  · simp only [] at h
    split at h
    · split at h
      · split at h
        · split at h <;> cases h
        · cases h
        · rename_i h'; exact readLe_noAbort 8 _ h'
      · cases h
      · rename_i h'; exact readLe_noAbort 1 _ h'
    · split at h
      · split at h <;> cases h
      · cases h
      · rename_i h'; exact readSlice_noAbort _ _ h'

theorem encMany_u8 (s : Bytes) : Codec.encMany Codec.u8 (s.map UInt8.toNat) = s := by
  induction s with
  | nil => rfl
  | cons b bs ih =>
    have h1 : leBytes 1 b.toNat = [b] := by simp [leBytes]
    simp only [Codec.encMany, List.map_cons, List.flatten_cons] at ih ⊢
    rw [ih]
    simp [Codec.u8, h1]

theorem map_ofNat_toNat (s : Bytes) : (s.map UInt8.toNat).map UInt8.ofNat = s := by
  induction s with
  | nil => rfl
  | cons b bs ih => simp [ih]

/-! sorted containers -/

/-- strictly increasing keys: the invariant of a `BTreeSet`/`BTreeMap` iteration order -/
def StrictSorted {α} (key : α → Nat) : List α → Prop
  | [] => True
  | [_] => True
  | x :: y :: rest => key x < key y ∧ StrictSorted key (y :: rest)

theorem sortedInsert_append_last {α} (key : α → Nat) (l : List α) (x : α)
    (h : ∀ y ∈ l, key y < key x) : sortedInsert key x l = l ++ [x] := by
  induction l with
  | nil => rfl
  | cons y ys ih =>
    have hy : key y < key x := h y (by simp)
    have h1 : ¬ key x < key y := by omega
    have h2 : ¬ key x = key y := by omega
    simp only [sortedInsert, h1, h2, if_false, List.cons_append]
    rw [ih (fun z hz => h z (by simp [hz]))]

theorem strictSorted_lt_all {α} (key : α → Nat) (x : α) (l : List α) (h : StrictSorted key (x :: l)) :
    ∀ y ∈ l, key x < key y := by
  induction l generalizing x with
  | nil => intro y hy; cases hy
  | cons z zs ih =>
    intro y hy
    simp only [StrictSorted] at h
    rcases List.mem_cons.mp hy with rfl | hy
    · exact h.1
    · have := ih z h.2 y hy; omega

theorem strictSorted_tail {α} (key : α → Nat) (x : α) (l : List α) (h : StrictSorted key (x :: l)) :
    StrictSorted key l := by
  cases l with
  | nil => trivial
  | cons z zs => exact h.2

theorem foldl_sortedInsert {α} (key : α → Nat) (pre xs : List α)
    (h : StrictSorted key xs) (hp : ∀ p ∈ pre, ∀ x ∈ xs, key p < key x) :
    xs.foldl (fun acc x => sortedInsert key x acc) pre = pre ++ xs := by
  induction xs generalizing pre with
  | nil => simp
  | cons x xs ih =>
    simp only [List.foldl_cons]
    rw [sortedInsert_append_last key pre x (fun y hy => hp y hy x (by simp))]
    rw [ih (pre ++ [x]) (strictSorted_tail key x xs h)]
    · simp
    · intro p hp' y hy
      rcases List.mem_append.mp hp' with hp' | hp'
      · exact hp p hp' y (by simp [hy])
      · simp at hp'; subst hp'; exact strictSorted_lt_all key p xs h y hy

theorem fromIter_sorted {α} (key : α → Nat) (xs : List α) (h : StrictSorted key xs) :
    fromIter key xs = xs := by
  unfold fromIter
  have := foldl_sortedInsert key [] xs h (by intro p hp; cases hp)
  simpa using this

end Wf
