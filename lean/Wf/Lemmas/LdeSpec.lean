/-
C28, layer 4: from base-field columns to extension-field entries (still without ring laws), then
the ring-level statements: LDE = Horner specification (relative to C12's evaluation theorem),
interpolation followed by evaluation over the trace domain reproduces the trace.
-/
import Wf.Lemmas.LdeIndex
import Wf.Lemmas.FftPub
set_option linter.unusedSectionVars false
namespace Wf.Lde
open Wf Wf.Fft Finset

variable {B E : Type}

/-! ## the base-field coordinates of an extension element -/

/-- what the theorems need from `base_element` / `slice_from_base_elements`: exactly `degree`
coordinates, reassembly is the inverse, and every coordinate is additive and commutes with
`mul_base` (the coordinates of `E` as a free `B`-module) -/
structure ViewOk (c : Ctx B E) (x : ExtView B E) : Prop where
  pos : 0 < x.degree
  len : ∀ e, (x.toBase e).length = x.degree
  ofTo : ∀ e, x.ofBase (x.toBase e) = e
  zero : ∀ i, i < x.degree → (x.toBase c.e.zero).getD i c.b.zero = c.b.zero
  add : ∀ a b i, i < x.degree → (x.toBase (c.e.add a b)).getD i c.b.zero =
    c.b.add ((x.toBase a).getD i c.b.zero) ((x.toBase b).getD i c.b.zero)
  sub : ∀ a b i, i < x.degree → (x.toBase (c.e.sub a b)).getD i c.b.zero =
    c.b.sub ((x.toBase a).getD i c.b.zero) ((x.toBase b).getD i c.b.zero)
  mulBase : ∀ a t i, i < x.degree → (x.toBase (c.mulBase a t)).getD i c.b.zero =
    c.b.mul ((x.toBase a).getD i c.b.zero) t

theorem comp_morph {c : Ctx B E} {x : ExtView B E} (hv : ViewOk c x) (i : Nat) (hi : i < x.degree) :
    Morph c (baseCtx c) (fun e => (x.toBase e).getD i c.b.zero) where
  hb := rfl
  hexp := rfl
  hroot := rfl
  hta := rfl
  zero := hv.zero i hi
  add := fun a b => hv.add a b i hi
  sub := fun a b => hv.sub a b i hi
  mulBase := fun a t => hv.mulBase a t i hi

theorem baseCol_eq_map (c : Ctx B E) (x : ExtView B E) (polys : ColMatrix E) (j : Nat)
    (hsz : (polys.getD (j / x.degree) #[]).size = numRows polys) :
    baseCol c x polys j =
      (polys.getD (j / x.degree) #[]).map (fun e => (x.toBase e).getD (j % x.degree) c.b.zero) := by
  apply Array.ext
  · simp only [baseCol, Array.size_ofFn, Array.size_map]; exact hsz.symm
  · intro r h1 h2
    have hr : r < (polys.getD (j / x.degree) #[]).size := by simpa using h2
    simp only [baseCol, Array.getElem_ofFn, getBaseElement, Array.getElem_map]
    rw [Array.getD_eq_getD_getElem?, Array.getElem?_eq_getElem hr]
    rfl

/-- the coordinates listed by `toBase` -/
theorem toBase_eq_range_map {c : Ctx B E} {x : ExtView B E} (hv : ViewOk c x) (e : E) :
    (List.range x.degree).map (fun k => (x.toBase e).getD k c.b.zero) = x.toBase e := by
  apply List.ext_getElem
  · simp [hv.len]
  · intro k h1 h2
    simp only [List.getElem_map, List.getElem_range]
    rw [List.getD_eq_getElem?_getD, List.getElem?_eq_getElem h2]
    rfl

/-! ## entries of the row-major matrix (any operations) -/

/-- `evaluate_polys_over::<N>`: row `r`, column `col` of the result (as `row()` returns it) is entry
`r` of `evaluate_poly_with_offset` applied to column `col`, for every number of columns, every
extension degree and every segment width `N ≥ 1` -/
theorem evaluatePolysOver_entries (c : Ctx B E) (x : ExtView B E) (hv : ViewOk c x) (N : Nat)
    (hN : 0 < N) (polys : ColMatrix E) (hne : polys ≠ [])
    (K b : Nat) (hall : ∀ p ∈ polys, p.size = 2 ^ (K + 1))
    (s : B) (hs : c.b.beq s c.b.zero = false) (hta : K + 1 + (b + 1) ≤ c.twoAdicity)
    (tws : Array B) (htws : tws.size = 2 ^ K) :
    ∃ m, evaluatePolysOver c x N polys ⟨tws, 2 ^ (b + 1), s⟩ = some m ∧
      m.numRows = 2 ^ (K + 1 + (b + 1)) ∧ m.numCols x = polys.length ∧
      (∀ r, (m.rowAt x c.b.zero r).length = polys.length) ∧
      ∀ cc, cc < polys.length →
        ∃ col, evaluatePolyWithOffset c (polys.getD cc #[]) tws s (2 ^ (b + 1)) = some col ∧
          col.size = 2 ^ (K + 1 + (b + 1)) ∧
          ∀ r, r < 2 ^ (K + 1 + (b + 1)) →
            (m.rowAt x c.b.zero r).getD cc c.e.zero = col.getD r c.e.zero := by
  obtain ⟨m, hm, hrw, hepr, hdsz, hidx⟩ := evaluatePolysOver_index c x N hN hv.pos polys hne K b hall
    s hs hta tws htws
  have hnr : numRows polys = 2 ^ (K + 1) := by
    obtain ⟨p0, rest, rfl⟩ := List.exists_cons_of_ne_nil hne
    simp [numRows, hall p0 (by simp)]
  have hnbpos : 0 < numBaseCols x polys := by
    obtain ⟨p0, rest, rfl⟩ := List.exists_cons_of_ne_nil hne
    simp only [numBaseCols, List.length_cons]; exact Nat.mul_pos (by omega) hv.pos
  have hrwpos : 0 < m.rowWidth := by
    rw [hrw]; exact Nat.mul_pos (numSegments_pos N _ hN hnbpos) hN
  have hcols : m.elementsPerRow / x.degree = polys.length := by
    rw [hepr, numBaseCols]; exact Nat.mul_div_cancel _ hv.pos
  refine ⟨m, hm, ?_, hcols, fun r => by simp [RowMatrix.rowAt, hcols], fun cc hcc => ?_⟩
  · unfold RowMatrix.numRows
    rw [hdsz]; exact Nat.mul_div_cancel _ hrwpos
  · have hpsz : (polys.getD cc #[]).size = 2 ^ (K + 1) := by
      rw [List.getD_eq_getElem?_getD, List.getElem?_eq_getElem hcc]
      exact hall _ (List.getElem_mem hcc)
    -- base column cc·deg + k is coordinate k of column cc
    have hj : ∀ k, k < x.degree → cc * x.degree + k < numBaseCols x polys ∧
        (cc * x.degree + k) / x.degree = cc ∧ (cc * x.degree + k) % x.degree = k := by
      intro k hk
      refine ⟨?_, ?_, ?_⟩
      · unfold numBaseCols
        calc cc * x.degree + k < cc * x.degree + x.degree := by omega
          _ = (cc + 1) * x.degree := by ring
          _ ≤ polys.length * x.degree := Nat.mul_le_mul_right _ (by omega)
      · rw [Nat.mul_comm, Nat.mul_add_div hv.pos, Nat.div_eq_of_lt hk]; rfl
      · rw [Nat.mul_comm, Nat.mul_add_mod, Nat.mod_eq_of_lt hk]
    have hnat : ∀ k, k < x.degree →
        evaluatePolyWithOffset (baseCtx c) (baseCol c x polys (cc * x.degree + k)) tws s (2 ^ (b + 1)) =
          (evaluatePolyWithOffset c (polys.getD cc #[]) tws s (2 ^ (b + 1))).map
            (fun a => a.map (fun e => (x.toBase e).getD k c.b.zero)) := by
      intro k hk
      obtain ⟨_, h2, h3⟩ := hj k hk
      rw [baseCol_eq_map c x polys _ (by rw [h2, hpsz, hnr]), h2, h3]
      exact evaluatePolyWithOffset_map (comp_morph hv k hk) _ tws s _
    -- existence of the extension-valued column
    obtain ⟨colB0, hcolB0, _, _⟩ := hidx _ (hj 0 hv.pos).1
    rw [hnat 0 hv.pos] at hcolB0
    obtain ⟨col, hcol, _⟩ := Option.map_eq_some_iff.mp hcolB0
    have hcolsz : col.size = 2 ^ (K + 1 + (b + 1)) := by
      obtain ⟨colB, hcolB, hsz, _⟩ := hidx _ (hj 0 hv.pos).1
      rw [hnat 0 hv.pos, hcol] at hcolB
      cases hcolB
      simpa using hsz
    refine ⟨col, hcol, hcolsz, fun r hr => ?_⟩
    unfold RowMatrix.rowAt
    rw [hcols, List.getD_eq_getElem?_getD, List.getElem?_map, List.getElem?_range hcc]
    simp only [Option.map_some, Option.getD_some]
    have hlist : (List.range x.degree).map
        (fun k => m.data.getD (r * m.rowWidth + cc * x.degree + k) c.b.zero) =
        (List.range x.degree).map (fun k => (x.toBase (col.getD r c.e.zero)).getD k c.b.zero) := by
      apply List.map_congr_left
      intro k hk
      have hk : k < x.degree := by simpa using hk
      obtain ⟨colB, hcolB, _, hget⟩ := hidx _ (hj k hk).1
      rw [hnat k hk, hcol] at hcolB
      cases hcolB
      rw [Nat.add_assoc, hget r hr]
      have := getD_map (fun e => (x.toBase e).getD k c.b.zero) col r c.e.zero
      rw [hv.zero k hk] at this
      exact this
    rw [hlist, toBase_eq_range_map hv, hv.ofTo]

/-- `evaluate_polys` = `evaluate_polys_over` with the twiddles of `get_twiddles(num_rows)` and
`GENERATOR` as offset -/
theorem evaluatePolys_eq_over (c : Ctx B E) (x : ExtView B E) (N : Nat) (gen : B)
    (polys : ColMatrix E) (blowup : Nat) (tws : Array B)
    (htw : getTwiddles (baseCtx c) (numRows polys) = some tws) :
    evaluatePolys c x N gen polys blowup = evaluatePolysOver c x N polys ⟨tws, blowup, gen⟩ := by
  unfold evaluatePolys evaluatePolysOver
  simp only [htw]

/-! ## ring level -/

section ring
variable [CommRing B] [CommRing E] [DecidableEq B] [DecidableEq E]
variable (φ : B →+* E) (invB : B → B) (invE : E → E) (root : Nat → B) (ta : Nat)

theorem baseCtx_ringCtx :
    baseCtx (ringCtx φ invB invE root ta) = ringCtx (RingHom.id B) invB invB root ta := rfl

/-- Horner's rule (`polynom::eval`) is the power sum -/
theorem eval_eq_sum (l : List E) (y : E) :
    Polynom.eval (ringOps E invE) l y = ∑ j ∈ range l.length, l.getD j 0 * y ^ j := by
  unfold Polynom.eval
  rw [List.foldl_reverse]
  induction l with
  | nil => simp [ringOps]
  | cons a l ih =>
    rw [List.foldr_cons, ih, List.length_cons, sum_range_succ']
    simp only [List.getD_cons_succ, List.getD_cons_zero, pow_zero, mul_one, pow_succ]
    show (∑ j ∈ range l.length, l.getD j 0 * y ^ j) * y + a = _
    rw [sum_mul]
    congr 1
    exact sum_congr rfl fun j _ => by ring

/-- the ring-level coordinate hypotheses give `ViewOk` for the ring context -/
theorem viewOk_of_ring (x : ExtView B E) (hpos : 0 < x.degree)
    (hlen : ∀ e, (x.toBase e).length = x.degree) (hofTo : ∀ e, x.ofBase (x.toBase e) = e)
    (hzero : ∀ i, i < x.degree → (x.toBase 0).getD i 0 = 0)
    (hadd : ∀ a b i, i < x.degree →
      (x.toBase (a + b)).getD i 0 = (x.toBase a).getD i 0 + (x.toBase b).getD i 0)
    (hsub : ∀ a b i, i < x.degree →
      (x.toBase (a - b)).getD i 0 = (x.toBase a).getD i 0 - (x.toBase b).getD i 0)
    (hsmul : ∀ a t i, i < x.degree →
      (x.toBase (a * φ t)).getD i 0 = (x.toBase a).getD i 0 * t) :
    ViewOk (ringCtx φ invB invE root ta) x :=
  ⟨hpos, hlen, hofTo, hzero, hadd, hsub, hsmul⟩

/-- the base field as its own extension -/
theorem viewOk_base : ViewOk (ringCtx (RingHom.id B) invB invB root ta) (ExtView.base (0 : B)) :=
  viewOk_of_ring (RingHom.id B) invB invB root ta (ExtView.base 0) Nat.one_pos (fun _ => rfl)
    (fun _ => rfl)
    (fun i hi => by have : i = 0 := by simp [ExtView.base] at hi; exact hi
                    subst this; rfl)
    (fun a b i hi => by have : i = 0 := by simp [ExtView.base] at hi; exact hi
                        subst this; rfl)
    (fun a b i hi => by have : i = 0 := by simp [ExtView.base] at hi; exact hi
                        subst this; rfl)
    (fun a t i hi => by have : i = 0 := by simp [ExtView.base] at hi; exact hi
                        subst this; rfl)

/-- DFT of the inverse DFT: `Σ_l ((Σ_x e_x V^(xl))·n⁻¹) W^(lk) = e_k` -/
theorem dft_of_idft (W V : E) (hWV : W * V = 1) (K : ℕ) (hW : W ^ 2 ^ K = -1) (ninv : E)
    (hN : ((2 ^ (K + 1) : ℕ) : E) * ninv = 1) (e : ℕ → E) (k : ℕ) (hk : k < 2 ^ (K + 1)) :
    ∑ l ∈ range (2 ^ (K + 1)),
      ((∑ y ∈ range (2 ^ (K + 1)), e y * V ^ (y * l)) * ninv) * W ^ (l * k) = e k := by
  have h1 : ∀ l ∈ range (2 ^ (K + 1)),
      ((∑ y ∈ range (2 ^ (K + 1)), e y * V ^ (y * l)) * ninv) * W ^ (l * k) =
        ∑ y ∈ range (2 ^ (K + 1)), ninv * e y * (W ^ (k * l) * V ^ (l * y)) := by
    intro l _
    rw [sum_mul, sum_mul]
    refine sum_congr rfl fun y _ => ?_
    rw [Nat.mul_comm l k, Nat.mul_comm y l]; ring
  rw [sum_congr rfl h1, sum_comm]
  have h2 : ∀ y ∈ range (2 ^ (K + 1)),
      ∑ l ∈ range (2 ^ (K + 1)), ninv * e y * (W ^ (k * l) * V ^ (l * y)) =
        if k = y then e k else 0 := by
    intro y hy
    rw [← mul_sum, orth W V hWV K hW k y hk (by simpa using hy)]
    split
    · next h => subst h; rw [mul_comm ninv, mul_assoc, mul_comm ninv, hN, mul_one]
    · ring
  rw [sum_congr rfl h2, sum_ite_eq (range (2 ^ (K + 1))) k, if_pos (by simpa using hk)]

end ring

end Wf.Lde
