/-
The inverse DFT `AirDivisor.idft` (the SPECIFICATION of `fft::interpolate_poly` used by the C22/C23
drivers) interpolates: over a field with a primitive `N`-th root `ω` and `N ≠ 0` in the field, the
coefficient list it returns has length `N` and evaluates to `values[k]` at `ω^k`.
(That winterfell's FFT code computes this list is C12/C13 + the correspondence streams.)
-/
import Wf.Lemmas.AirDivisor
import Mathlib.Algebra.Ring.GeomSum
namespace Wf.AirDivisor
open Wf Finset

variable {K : Type} [Field K] [DecidableEq K]

theorem polyEval_eq_sum (p : List K) (x : K) :
    polyEval (fops K) p x = ∑ j ∈ range p.length, p.getD j 0 * x ^ j := by
  induction p with
  | nil => simp [polyEval]
  | cons c p ih =>
    rw [polyEval_cons, ih, List.length_cons, sum_range_succ', sum_mul]
    simp only [List.getD_cons_succ, List.getD_cons_zero, pow_zero, mul_one, pow_succ, mul_assoc]

omit [DecidableEq K] in
theorem list_range_map_sum (f : Nat → K) (e : Nat) :
    ((List.range e).map f).sum = ∑ i ∈ range e, f i := by
  induction e with
  | zero => simp
  | succ e ih => rw [List.range_succ, List.map_append, List.sum_append, ih, sum_range_succ]; simp

theorem foldl_add_eq_sum (l : List K) (r : K) : l.foldl (fops K).add r = r + l.sum := by
  induction l generalizing r with
  | nil => simp
  | cons a l ih => rw [List.foldl_cons, ih, List.sum_cons, rops_add, add_assoc]

omit [Field K] [DecidableEq K] in
theorem zipIdx_map_eq {β : Type} (d : K) (l : List K) (f : K × Nat → β) :
    l.zipIdx.map f = (List.range l.length).map fun i => f (l.getD i d, i) := by
  apply List.ext_getElem
  · simp
  · intro i h1 h2
    have hi : i < l.length := by simpa using h1
    simp [List.getD_eq_getElem?_getD, List.getElem?_eq_getElem hi]

/-- the `j`-th coefficient computed by `idft` -/
theorem idft_eq (ω : K) (values : List K) :
    idft (fops K) fpow ω values = (List.range values.length).map fun j =>
      (values.length : K)⁻¹ * ∑ i ∈ range values.length,
        values.getD i 0 * (ω ^ (values.length - 1)) ^ (i * j % values.length) := by
  unfold idft
  apply List.map_congr_left
  intro j _
  simp only [rops_mul, rops_inv, rops_ofNat]
  congr 1
  rw [foldl_add_eq_sum, rops_zero, zero_add,
    zipIdx_map_eq 0 values (fun (x : K × Nat) => x.1 * fpow (fpow ω (values.length - 1)) (x.2 * j % values.length)),
    list_range_map_sum]

theorem idft_length (ω : K) (values : List K) : (idft (fops K) fpow ω values).length = values.length := by
  rw [idft_eq]; simp

omit [DecidableEq K] in
/-- orthogonality of the characters of a cyclic group of order `N` -/
theorem sum_pow_mul_eq {ω : K} {N : Nat} (hN : 0 < N) (hω : IsPrimitiveRoot ω N) (i k : Nat)
    (hi : i < N) (hk : k < N) :
    ∑ j ∈ range N, (ω ^ (N - 1)) ^ (i * j % N) * (ω ^ k) ^ j = if i = k then (N : K) else 0 := by
  have hone : (ω ^ (N - 1)) ^ N = 1 := by rw [← pow_mul, mul_comm, pow_mul, hω.pow_eq_one, one_pow]
  have hmod : ∀ m, (ω ^ (N - 1)) ^ (m % N) = (ω ^ (N - 1)) ^ m := fun m => by
    conv_rhs => rw [← Nat.mod_add_div m N, pow_add, pow_mul, hone, one_pow, mul_one]
  have hterm : ∀ j, (ω ^ (N - 1)) ^ (i * j % N) * (ω ^ k) ^ j = (ω ^ ((N - 1) * i + k)) ^ j := by
    intro j
    rw [hmod, ← pow_mul, ← pow_mul, ← pow_mul, ← pow_add]
    congr 1; ring
  simp only [hterm]
  by_cases hik : i = k
  · subst hik
    have : ω ^ ((N - 1) * i + i) = 1 := by
      rw [show (N - 1) * i + i = N * i by
        conv_rhs => rw [show N = (N - 1) + 1 by omega, Nat.add_mul, Nat.one_mul]]
      rw [pow_mul, hω.pow_eq_one, one_pow]
    simp [this]
  · simp only [hik, if_false]
    set ζ := ω ^ ((N - 1) * i + k) with hζ
    have hζN : ζ ^ N = 1 := by rw [hζ, ← pow_mul, mul_comm, pow_mul, hω.pow_eq_one, one_pow]
    have hζ1 : ζ ≠ 1 := by
      intro h1
      have := (pow_eq_pow_iff_mod hN hω ((N - 1) * i + k) 0).1 (by rw [pow_zero]; exact h1)
      rw [Nat.zero_mod] at this
      -- (N-1)i + k ≡ 0 and N i ≡ 0  ⇒  k ≡ i (mod N)
      have h2 : ((N - 1) * i + k + i) % N = i % N := by
        rw [Nat.add_mod, this, Nat.zero_add, Nat.mod_mod]
      have h3 : (N - 1) * i + k + i = N * i + k := by
        conv_rhs => rw [show N = (N - 1) + 1 by omega, Nat.add_mul, Nat.one_mul]
        omega
      rw [h3, Nat.mul_add_mod, Nat.mod_eq_of_lt hk, Nat.mod_eq_of_lt hi] at h2
      exact hik h2.symm
    have hg := geom_sum_mul ζ N
    rw [hζN, sub_self] at hg
    rcases mul_eq_zero.1 hg with h | h
    · exact h
    · exact absurd (sub_eq_zero.1 h) hζ1

/-- THE INVERSE DFT INTERPOLATES: for a primitive `N`-th root `ω` (`N` = number of values, non-zero
in `K`), `idft` returns `N` coefficients and the polynomial takes the value `values[k]` at `ω^k` -/
theorem idft_interpolates {ω : K} (values : List K) (hN : 0 < values.length)
    (hω : IsPrimitiveRoot ω values.length) (hchar : (values.length : K) ≠ 0) (k : Nat)
    (hk : k < values.length) :
    polyEval (fops K) (idft (fops K) fpow ω values) (ω ^ k) = values[k] := by
  rw [polyEval_eq_sum, idft_length]
  have hcoef : ∀ j ∈ range values.length,
      (idft (fops K) fpow ω values).getD j 0 * (ω ^ k) ^ j =
        (values.length : K)⁻¹ * ∑ i ∈ range values.length,
          values.getD i 0 * ((ω ^ (values.length - 1)) ^ (i * j % values.length) * (ω ^ k) ^ j) := by
    intro j hj
    have hj' : j < values.length := by simpa using hj
    rw [idft_eq, List.getD_eq_getElem?_getD, List.getElem?_eq_getElem (by simpa using hj')]
    simp only [List.getElem_map, List.getElem_range, Option.getD_some]
    rw [mul_assoc, sum_mul]
    congr 1
    apply sum_congr rfl
    intro i _; ring
  rw [sum_congr rfl hcoef, ← mul_sum, sum_comm]
  simp only [← mul_sum]
  have : ∀ i ∈ range values.length,
      values.getD i 0 * ∑ j ∈ range values.length,
        (ω ^ (values.length - 1)) ^ (i * j % values.length) * (ω ^ k) ^ j =
      if i = k then values.getD i 0 * (values.length : K) else 0 := by
    intro i hi
    rw [sum_pow_mul_eq hN hω i k (by simpa using hi) hk]
    split <;> simp
  rw [sum_congr rfl this, sum_ite_eq' (range values.length) k, if_pos (by simpa using hk),
    ← mul_assoc, mul_comm _ (values.getD k 0), mul_assoc, inv_mul_cancel₀ hchar, mul_one,
    List.getD_eq_getElem?_getD, List.getElem?_eq_getElem hk, Option.getD_some]

end Wf.AirDivisor
