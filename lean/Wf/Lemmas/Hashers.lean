/-
Helper lemmas for C15 / C17: little-endian encodings and fixed-size concatenations are injective,
the 7-byte chunking with the `1` terminator is injective, the absorption loop keeps all the data,
and the `(value mod p, value div p)` split of `merge_with_int` is injective on 64-bit integers.
Core Lean only.
-/
import Wf.Model.Hashers
import Wf.Lemmas.Serde
namespace Wf

theorem leBytes_inj (n a b : Nat) (ha : a < 256 ^ n) (hb : b < 256 ^ n) (h : leBytes n a = leBytes n b) : a = b := by
  rw [← fromLe_leBytes n a ha, ← fromLe_leBytes n b hb, h]

theorem fromLe_inj_of_length (a b : Bytes) (hl : a.length = b.length) (h : fromLe a = fromLe b) : a = b := by
  rw [← leBytes_fromLe a, ← leBytes_fromLe b, hl, h]

theorem fromLe_append (a b : Bytes) : fromLe (a ++ b) = fromLe a + 256 ^ a.length * fromLe b := by
  induction a with
  | nil => simp [fromLe]
  | cons x a ih =>
    simp only [List.cons_append, fromLe, ih, List.length_cons, Nat.pow_succ]
    rw [Nat.mul_add, Nat.add_assoc, Nat.mul_comm (256 ^ a.length) 256, Nat.mul_assoc]

theorem fromLe_append_one_pos (bs : Bytes) : 0 < fromLe (bs ++ [1]) := by
  rw [fromLe_append]
  have : 0 < 256 ^ bs.length := Nat.pow_pos (by decide)
  simp [fromLe]
  omega

theorem fromLe_append_one_inj (a b : Bytes) (h : fromLe (a ++ [1]) = fromLe (b ++ [1])) : a = b := by
  induction a generalizing b with
  | nil =>
    cases b with
    | nil => rfl
    | cons y b =>
      exfalso
      have hp := fromLe_append_one_pos b
      simp only [List.nil_append, List.cons_append, fromLe] at h
      have hy := y.toNat_lt
      simp at h
      omega
  | cons x a ih =>
    cases b with
    | nil =>
      exfalso
      have hp := fromLe_append_one_pos a
      simp only [List.nil_append, List.cons_append, fromLe] at h
      simp at h
      omega
    | cons y b =>
      simp only [List.cons_append, fromLe] at h
      have hx := x.toNat_lt
      have hy := y.toNat_lt
      have h1 : x.toNat = y.toNat := by omega
      have h2 : fromLe (a ++ [1]) = fromLe (b ++ [1]) := by omega
      rw [ih b h2, UInt8.toNat_inj.mp h1]


theorem bytesToElemsF_eq_nil (f : Nat) (bs : Bytes) (h : bs.length ≤ f) : bytesToElemsF f bs = [] ↔ bs = [] := by
  cases f with
  | zero =>
    have : bs = [] := List.eq_nil_of_length_eq_zero (by omega)
    simp [bytesToElemsF, this]
  | succ f =>
    unfold bytesToElemsF
    cases bs with
    | nil => simp
    | cons b bs => simp; split <;> simp

theorem bytesToElemsF_inj (f g : Nat) (a b : Bytes) (ha : a.length ≤ f) (hb : b.length ≤ g)
    (h : bytesToElemsF f a = bytesToElemsF g b) : a = b := by
  induction f generalizing g a b with
  | zero =>
    have ha0 : a = [] := List.eq_nil_of_length_eq_zero (by omega)
    subst ha0
    have : bytesToElemsF g b = [] := by rw [← h]; simp [bytesToElemsF]
    exact ((bytesToElemsF_eq_nil g b hb).mp this).symm
  | succ f ih =>
    cases g with
    | zero =>
      have hb0 : b = [] := List.eq_nil_of_length_eq_zero (by omega)
      subst hb0
      have : bytesToElemsF (f + 1) a = [] := by rw [h]; simp [bytesToElemsF]
      exact (bytesToElemsF_eq_nil (f + 1) a ha).mp this
    | succ g =>
      by_cases hae : a = []
      · subst hae
        have : bytesToElemsF (g + 1) b = [] := by rw [← h]; simp [bytesToElemsF]
        exact ((bytesToElemsF_eq_nil (g + 1) b hb).mp this).symm
      by_cases hbe : b = []
      · subst hbe
        have : bytesToElemsF (f + 1) a = [] := by rw [h]; simp [bytesToElemsF]
        exact (bytesToElemsF_eq_nil (f + 1) a ha).mp this
      have hai : a.isEmpty = false := by simpa using hae
      have hbi : b.isEmpty = false := by simpa using hbe
      unfold bytesToElemsF at h
      simp only [hai, hbi, Bool.false_eq_true, ↓reduceIte] at h
      by_cases ha7 : a.length ≤ 7 <;> by_cases hb7 : b.length ≤ 7
      · simp only [ha7, hb7, ↓reduceIte, List.cons.injEq, and_true] at h
        exact fromLe_append_one_inj a b h
      · simp only [ha7, hb7, ↓reduceIte, List.cons.injEq] at h
        exfalso
        have := (bytesToElemsF_eq_nil g (b.drop 7) (by simp; omega)).mp h.2.symm
        have : (b.drop 7).length = 0 := by rw [this]; rfl
        simp at this; omega
      · simp only [ha7, hb7, ↓reduceIte, List.cons.injEq] at h
        exfalso
        have := (bytesToElemsF_eq_nil f (a.drop 7) (by simp; omega)).mp h.2
        have : (a.drop 7).length = 0 := by rw [this]; rfl
        simp at this; omega
      · simp only [ha7, hb7, ↓reduceIte, List.cons.injEq] at h
        have h1 : a.take 7 = b.take 7 := fromLe_inj_of_length _ _ (by simp; omega) h.1
        have h2 : a.drop 7 = b.drop 7 := ih g _ _ (by simp; omega) (by simp; omega) h.2
        rw [← List.take_append_drop 7 a, ← List.take_append_drop 7 b, h1, h2]

theorem bytesToElems_inj (a b : Bytes) (h : bytesToElems a = bytesToElems b) : a = b :=
  bytesToElemsF_inj _ _ a b (Nat.le_refl _) (Nat.le_refl _) h

theorem bytesToElemsF_length (f : Nat) (bs : Bytes) (h : bs.length ≤ f) :
    (bytesToElemsF f bs).length = (bs.length + 6) / 7 := by
  induction f generalizing bs with
  | zero =>
    have : bs = [] := List.eq_nil_of_length_eq_zero (by omega)
    simp [bytesToElemsF, this]
  | succ f ih =>
    unfold bytesToElemsF
    by_cases he : bs = []
    · simp [he]
    have hi : bs.isEmpty = false := by simpa using he
    have hpos : 0 < bs.length := List.length_pos_iff.mpr he
    simp only [hi, Bool.false_eq_true, ↓reduceIte]
    by_cases h7 : bs.length ≤ 7
    · simp only [h7, ↓reduceIte, List.length_cons, List.length_nil]; omega
    · simp only [h7, ↓reduceIte, List.length_cons]
      rw [ih _ (by simp; omega)]
      simp; omega

theorem bytesToElemsF_lt (f : Nat) (bs : Bytes) : ∀ e ∈ bytesToElemsF f bs, e < 2 ^ 57 := by
  induction f generalizing bs with
  | zero => simp [bytesToElemsF]
  | succ f ih =>
    unfold bytesToElemsF
    split
    · simp
    · split
      · rename_i h7
        intro e he
        simp only [List.mem_cons, List.not_mem_nil, or_false] at he
        subst he
        rw [fromLe_append]
        have h1 := fromLe_lt bs
        have h2 : 256 ^ bs.length ≤ 256 ^ 7 := Nat.pow_le_pow_right (by decide) h7
        simp [fromLe]
        omega
      · intro e he
        simp only [List.mem_cons] at he
        rcases he with he | he
        · subst he
          have h1 := fromLe_lt (bs.take 7)
          have h2 : 256 ^ (bs.take 7).length ≤ 256 ^ 7 := Nat.pow_le_pow_right (by decide) (by simp; omega)
          omega
        · exact ih _ e he

theorem flatten_inj_of_length {α} (k : Nat) (hk : 0 < k) (xs ys : List (List α))
    (hx : ∀ x ∈ xs, x.length = k) (hy : ∀ y ∈ ys, y.length = k) (h : xs.flatten = ys.flatten) : xs = ys := by
  induction xs generalizing ys with
  | nil =>
    cases ys with
    | nil => rfl
    | cons y ys =>
      exfalso
      have := hy y (by simp)
      have hl := congrArg List.length h
      rw [List.flatten_cons, List.length_append] at hl
      simp only [List.flatten_nil, List.length_nil] at hl
      omega
  | cons x xs ih =>
    cases ys with
    | nil =>
      exfalso
      have := hx x (by simp)
      have hl := congrArg List.length h
      rw [List.flatten_cons, List.length_append] at hl
      simp only [List.flatten_nil, List.length_nil] at hl
      omega
    | cons y ys =>
      simp only [List.flatten_cons] at h
      have hxy := List.append_inj h (by rw [hx x (by simp), hy y (by simp)])
      rw [hxy.1, ih ys (fun a ha => hx a (by simp [ha])) (fun a ha => hy a (by simp [ha])) hxy.2]

theorem map_inj_on {α β} (f : α → β) (xs ys : List α) (hf : ∀ x ∈ xs, ∀ y ∈ ys, f x = f y → x = y)
    (h : xs.map f = ys.map f) : xs = ys := by
  induction xs generalizing ys with
  | nil => cases ys with
    | nil => rfl
    | cons y ys => simp at h
  | cons x xs ih => cases ys with
    | nil => simp at h
    | cons y ys =>
      simp only [List.map_cons, List.cons.injEq] at h
      rw [hf x (by simp) y (by simp) h.1,
        ih ys (fun a ha b hb => hf a (by simp [ha]) b (by simp [hb])) h.2]

theorem writeExt_length (f : FieldParams) (e : List Nat) : (f.writeExt e).length = e.length * f.bytes := by
  induction e with
  | nil => simp [FieldParams.writeExt]
  | cons c e ih =>
    simp only [FieldParams.writeExt, List.map_cons, List.flatten_cons, List.length_append, List.length_cons] at ih ⊢
    rw [ih, FieldParams.write, leBytes_length, Nat.add_mul]; omega

theorem preHashElements_inj (f : FieldParams) (deg : Nat) (hb : 0 < f.bytes) (hdeg : 0 < deg)
    (es es' : List (List Nat))
    (he : ∀ e ∈ es, e.length = deg ∧ ∀ c ∈ e, c < 256 ^ f.bytes)
    (he' : ∀ e ∈ es', e.length = deg ∧ ∀ c ∈ e, c < 256 ^ f.bytes)
    (h : ByteHasher.preHashElements f es = ByteHasher.preHashElements f es') : es = es' := by
  unfold ByteHasher.preHashElements at h
  have h1 := flatten_inj_of_length (deg * f.bytes) (Nat.mul_pos hdeg hb) _ _
    (by intro x hx; obtain ⟨e, hem, rfl⟩ := List.mem_map.mp hx; rw [writeExt_length, (he e hem).1])
    (by intro x hx; obtain ⟨e, hem, rfl⟩ := List.mem_map.mp hx; rw [writeExt_length, (he' e hem).1]) h
  refine map_inj_on _ es es' (fun e hem e' hem' hw => ?_) h1
  unfold FieldParams.writeExt at hw
  have h2 := flatten_inj_of_length f.bytes hb _ _
    (by intro x hx; obtain ⟨c, _, rfl⟩ := List.mem_map.mp hx; exact leBytes_length _ _)
    (by intro x hx; obtain ⟨c, _, rfl⟩ := List.mem_map.mp hx; exact leBytes_length _ _) hw
  exact map_inj_on _ e e' (fun c hc c' hc' hl =>
    leBytes_inj f.bytes c c' ((he e hem).2 c hc) ((he' e' hem').2 c' hc') hl) h2

namespace Sponge

theorem capWords_inj (s : Sponge) (hc : s.capIdx < s.capWidth) (v w : Nat) (h : s.capWords v = s.capWords w) :
    v % s.p = w % s.p := by
  unfold capWords at h
  have := congrArg (fun l => l[s.capIdx]?) h
  simpa [List.getElem?_set, hc] using this

/-- arithmetic core of `merge_with_int`: `(v mod p, v div p)` determines a 64-bit `v` when `p² ≥ 2^64` -/
theorem int_split_inj (p v w : Nat) (hp : 2 ^ 64 ≤ p * p) (hv : v < 2 ^ 64) (hw : w < 2 ^ 64)
    (h1 : v % p = w % p) (h2 : (v / p) % p = (w / p) % p) : v = w := by
  have hv' : v / p < p := Nat.div_lt_of_lt_mul (by omega)
  have hw' : w / p < p := Nat.div_lt_of_lt_mul (by omega)
  rw [Nat.mod_eq_of_lt hv', Nat.mod_eq_of_lt hw'] at h2
  rw [← Nat.div_add_mod v p, ← Nat.div_add_mod w p, h1, h2]

theorem intHi_eq (s : Sponge) (v : Nat) : s.intHi v = (v / s.p) % s.p := by
  unfold intHi
  split
  · rename_i h; rw [Nat.div_eq_of_lt h]; simp
  · rfl

end Sponge
namespace Sponge

def flatData (ops : List Absorb) : List Nat := (ops.map Absorb.data).flatten

theorem absorbOpsF_length (s : Sponge) (hr : 0 < s.rate) (f : Nat) (es : List Nat) (h : es.length ≤ f) :
    (s.absorbOpsF f es).length = (es.length + s.rate - 1) / s.rate := by
  induction f generalizing es with
  | zero =>
    have : es = [] := List.eq_nil_of_length_eq_zero (by omega)
    subst this
    simp only [absorbOpsF, List.length_nil, Nat.zero_add]
    exact (Nat.div_eq_of_lt (by omega)).symm
  | succ f ih =>
    unfold absorbOpsF
    by_cases he : es = []
    · subst he
      simp only [List.isEmpty_nil, ↓reduceIte, List.length_nil, Nat.zero_add]
      exact (Nat.div_eq_of_lt (by omega)).symm
    have hi : es.isEmpty = false := by simpa using he
    have hpos : 0 < es.length := List.length_pos_iff.mpr he
    simp only [hi, Bool.false_eq_true, ↓reduceIte]
    by_cases hlt : es.length < s.rate
    · simp only [hlt, ↓reduceIte, List.length_cons, List.length_nil, Nat.zero_add]
      have : es.length + s.rate - 1 = s.rate + (es.length - 1) := by omega
      rw [this, Nat.add_div_left _ hr, Nat.div_eq_of_lt (by omega)]
    · simp only [hlt, ↓reduceIte, List.length_cons]
      rw [ih _ (by simp; omega)]
      simp only [List.length_drop]
      have : es.length + s.rate - 1 = (es.length - s.rate + s.rate - 1) + s.rate := by omega
      rw [this, Nat.add_div_right _ hr]

/-- sponge variants: the absorbed data is the element list followed by zeros -/
theorem take_flatData_absorbOpsF (s : Sponge) (hj : s.jive = false) (hr : 0 < s.rate) (f : Nat) (es : List Nat)
    (h : es.length ≤ f) : (flatData (s.absorbOpsF f es)).take es.length = es := by
  induction f generalizing es with
  | zero =>
    have : es = [] := List.eq_nil_of_length_eq_zero (by omega)
    simp [this]
  | succ f ih =>
    unfold absorbOpsF
    by_cases he : es = []
    · simp [he]
    have hi : es.isEmpty = false := by simpa using he
    simp only [hi, Bool.false_eq_true, ↓reduceIte]
    by_cases hlt : es.length < s.rate
    · simp only [hlt, ↓reduceIte, hj, Bool.false_eq_true, flatData, List.map_cons, List.map_nil, Absorb.data,
        List.flatten_cons, List.flatten_nil, List.append_nil]
      exact List.take_left' rfl
    · simp only [hlt, ↓reduceIte, flatData, List.map_cons, Absorb.data, List.flatten_cons]
      have hl : (es.take s.rate).length = s.rate := by simp; omega
      rw [List.take_append, hl]
      have h1 : List.take es.length (es.take s.rate) = es.take s.rate := by
        rw [List.take_take]; congr 1; omega
      have h2 := ih (es.drop s.rate) (by simp; omega)
      simp only [List.length_drop, flatData] at h2
      rw [h1, h2, List.take_append_drop]

/-- Jive: the absorbed data is exactly the element list -/
theorem flatData_absorbOpsF_jive (s : Sponge) (hj : s.jive = true) (hr : 0 < s.rate) (f : Nat) (es : List Nat)
    (h : es.length ≤ f) : flatData (s.absorbOpsF f es) = es := by
  induction f generalizing es with
  | zero =>
    have : es = [] := List.eq_nil_of_length_eq_zero (by omega)
    simp [this, absorbOpsF, flatData]
  | succ f ih =>
    unfold absorbOpsF
    by_cases he : es = []
    · simp [he, flatData]
    have hi : es.isEmpty = false := by simpa using he
    simp only [hi, Bool.false_eq_true, ↓reduceIte]
    by_cases hlt : es.length < s.rate
    · simp [hlt, hj, flatData, Absorb.data]
    · simp only [hlt, ↓reduceIte, flatData, List.map_cons, Absorb.data, List.flatten_cons]
      have h2 := ih (es.drop s.rate) (by simp; omega)
      simp only [flatData] at h2
      rw [h2, List.take_append_drop]


/-! ### layout injectivity -/

/-- the capacity word and the number of absorbed blocks determine the number of elements -/
def LenSep (s : Sponge) : Prop :=
  ∀ n m, (n + s.rate - 1) / s.rate = (m + s.rate - 1) / s.rate → n % s.p = m % s.p → n = m

/-- what the injectivity proofs need from the parameters of a sponge -/
structure Good (s : Sponge) : Prop where
  rate_pos : 0 < s.rate
  cap_idx : s.capIdx < s.capWidth
  len_sep : s.jive = false → LenSep s
  sq : 2 ^ 64 ≤ s.p * s.p

theorem elemsLayout_inj (s : Sponge) (hg : s.Good) (es es' : List Nat)
    (h : s.elemsLayout es = s.elemsLayout es') : es = es' := by
  unfold elemsLayout at h
  rw [Layout.mk.injEq] at h
  obtain ⟨hcap, hops⟩ := h
  unfold absorbOps at hops
  cases hj : s.jive with
  | true =>
    rw [← flatData_absorbOpsF_jive s hj hg.rate_pos es.length es (Nat.le_refl _),
      ← flatData_absorbOpsF_jive s hj hg.rate_pos es'.length es' (Nat.le_refl _), hops]
  | false =>
    have hlen : es.length = es'.length := by
      apply hg.len_sep hj
      · rw [← absorbOpsF_length s hg.rate_pos es.length es (Nat.le_refl _),
          ← absorbOpsF_length s hg.rate_pos es'.length es' (Nat.le_refl _), hops]
      · have := capWords_inj s hg.cap_idx _ _ hcap
        simpa [capValue, hj] using this
    rw [← take_flatData_absorbOpsF s hj hg.rate_pos es.length es (Nat.le_refl _),
      ← take_flatData_absorbOpsF s hj hg.rate_pos es'.length es' (Nat.le_refl _), hops, hlen]

theorem hashLayout_inj (s : Sponge) (hg : s.Good) (a b : Bytes) (h : s.hashLayout a = s.hashLayout b) : a = b :=
  bytesToElems_inj a b (elemsLayout_inj s hg _ _ h)

theorem mergeManyLayout_inj (s : Sponge) (hg : s.Good) (ds ds' : List (List Nat))
    (hd : ∀ d ∈ ds, d.length = 4) (hd' : ∀ d ∈ ds', d.length = 4)
    (h : s.mergeManyLayout ds = s.mergeManyLayout ds') : ds = ds' :=
  flatten_inj_of_length 4 (by decide) ds ds' hd hd' (elemsLayout_inj s hg _ _ h)

theorem mergeLayout_inj (s : Sponge) (a b a' b' : List Nat) (hl : a.length = a'.length)
    (h : s.mergeLayout a b = s.mergeLayout a' b') : a = a' ∧ b = b' := by
  unfold mergeLayout at h
  cases hj : s.jive with
  | true =>
    simp only [hj, ↓reduceIte, Layout.mk.injEq, List.cons.injEq, Absorb.add.injEq, and_true] at h
    exact h
  | false =>
    simp only [hj, Bool.false_eq_true, ↓reduceIte, Layout.mk.injEq, List.cons.injEq, Absorb.add.injEq, and_true,
      true_and] at h
    exact List.append_inj h hl

theorem mergeWithIntLayout_inj (s : Sponge) (hg : s.Good) (seed seed' : List Nat) (v v' : Nat)
    (hl : seed.length = seed'.length) (hv : v < 2 ^ 64) (hv' : v' < 2 ^ 64)
    (h : s.mergeWithIntLayout seed v = s.mergeWithIntLayout seed' v') : seed = seed' ∧ v = v' := by
  unfold mergeWithIntLayout at h
  cases hj : s.jive with
  | true =>
    simp only [hj, ↓reduceIte, Layout.mk.injEq, List.cons.injEq, Absorb.add.injEq, and_true, intHi_eq, intLo] at h
    exact ⟨h.1, int_split_inj s.p v v' hg.sq hv hv' h.2.1 h.2.2.1⟩
  | false =>
    simp only [hj, Bool.false_eq_true, ↓reduceIte, Layout.mk.injEq, List.cons.injEq, Absorb.add.injEq, and_true,
      intHi_eq, intLo] at h
    have := List.append_inj h.2 hl
    simp only [List.cons.injEq, and_true] at this
    exact ⟨this.1, int_split_inj s.p v v' hg.sq hv hv' this.2.1 this.2.2⟩

open Wf.Gen.FieldConsts in
theorem rp64_good : rp64.Good :=
  ⟨by decide, by decide, fun _ n m h1 h2 => by simp only [rp64, F64.M] at h1 h2; omega, by decide⟩

open Wf.Gen.FieldConsts in
theorem rp62_good : rp62.Good :=
  ⟨by decide, by decide, fun _ n m h1 h2 => by simp only [rp62, F62.M] at h1 h2; omega, by decide⟩

open Wf.Gen.FieldConsts in
theorem rpJive64_good : rpJive64.Good :=
  ⟨by decide, by decide, fun h => by simp [rpJive64] at h, by decide⟩

end Sponge
end Wf
