/-
Lemmas about the description semantics (`Wf/Model/AirDesc.lean`) and the `validate` model
(`Wf/Model/TraceTable.lean`).  Core Lean only.

* `genRows` is `iterRows (nextRow p d)`; row facts.
* `validate = ok ↔ satisfies = true` (and what a reported failure means).
* violations force `satisfies = false`.
* consistent descriptions: the generated trace satisfies every transition constraint.
-/
import Wf.Lemmas.TraceTable
namespace Wf.AirDesc
open Wf.TraceTable

/-! ## generated rows -/

theorem genRows_eq_iterRows (p : Nat) (d : Desc) (k step : Nat) (row : List Nat) :
    genRows p d k step row = iterRows (nextRow p d) k step row := by
  induction k generalizing step row with
  | zero => rfl
  | succ k ih => simp only [genRows, iterRows, ih]

/-- the row of the generated trace after `s` transitions -/
def rowAt (p : Nat) (d : Desc) (s : Nat) (init : List Nat) : List Nat := iterAt (nextRow p d) s 0 init

theorem genRows_getD (p : Nat) (d : Desc) (n : Nat) (init : List Nat) (s : Nat) (h : s < n) :
    (genRows p d n 0 init).getD s [] = rowAt p d s init := by
  rw [genRows_eq_iterRows, List.getD_eq_getElem?_getD, iterRows_getElem? _ _ _ _ _ h]
  rfl

theorem rowAt_succ (p : Nat) (d : Desc) (s : Nat) (init : List Nat) :
    rowAt p d (s + 1) init = nextRow p d s (rowAt p d s init) := by
  unfold rowAt
  rw [iterAt_succ, Nat.zero_add]

/-! ## `validate` versus `satisfies` -/

theorem find?_zipIdx_fst {α : Type} (q : α → Bool) (l : List α) (k : Nat) :
    ((l.zipIdx k).find? (fun x => q x.1)).map (·.1) = l.find? q := by
  induction l generalizing k with
  | nil => rfl
  | cons a l ih =>
    simp only [List.zipIdx_cons, List.find?_cons]
    cases q a with
    | true => rfl
    | false => exact ih (k + 1)

theorem assertFail?_eq_none_iff (p : Nat) (rows : List (List Nat)) (n : Nat) (a : Assert) (c : List Nat) :
    assertFail? p rows n a c = none ↔ assertHolds p rows n a c = true := by
  unfold assertFail? assertHolds
  rw [Option.map_eq_none_iff, List.find?_eq_none, List.all_eq_true]
  constructor
  · intro h x hx
    have := h x hx
    simpa using this
  · intro h x hx
    have := h x hx
    simpa using this

theorem checkAsserts_eq_none_iff (p : Nat) (rows : List (List Nat)) (n : Nat) (l : List (Assert × List Nat)) :
    checkAsserts p rows n l = none ↔ l.all (fun (a, c) => assertHolds p rows n a c) = true := by
  induction l with
  | nil => simp [checkAsserts]
  | cons x l ih =>
    obtain ⟨a, c⟩ := x
    simp only [checkAsserts, List.all_cons, Bool.and_eq_true]
    cases h : assertFail? p rows n a c with
    | none =>
      simp only []
      rw [ih]
      have := (assertFail?_eq_none_iff p rows n a c).1 h
      simp [this]
    | some s =>
      simp only []
      constructor
      · intro h'; cases h'
      · intro h'
        have := (assertFail?_eq_none_iff p rows n a c).2 h'.1
        rw [this] at h; cases h

theorem transFail?_eq_none_iff (p : Nat) (d : Desc) (rows : List (List Nat)) (n step : Nat) :
    transFail? p d rows n step = none ↔ transHoldsAt p d rows n step = true := by
  unfold transFail? transHoldsAt
  rw [Option.map_eq_none_iff]
  have := find?_zipIdx_fst (fun t : Trans =>
    !(eval p (rows.getD step []) (rows.getD ((step + 1) % n) []) (perAt d step) t.ex == 0)) d.trans 0
  have h2 : (List.find? (fun x : Trans × Nat =>
      !(eval p (rows.getD step []) (rows.getD ((step + 1) % n) []) (perAt d step) x.1.ex == 0)) d.trans.zipIdx) = none
      ↔ List.find? (fun t : Trans =>
    !(eval p (rows.getD step []) (rows.getD ((step + 1) % n) []) (perAt d step) t.ex == 0)) d.trans = none := by
    rw [← this, Option.map_eq_none_iff]
  rw [h2, List.find?_eq_none, List.all_eq_true]
  constructor
  · intro h x hx
    have := h x hx
    simpa using this
  · intro h x hx
    have := h x hx
    simpa using this

theorem checkSteps_eq_none_iff (p : Nat) (d : Desc) (rows : List (List Nat)) (n k step : Nat) :
    checkSteps p d rows n k step = none ↔ ∀ j, j < k → transHoldsAt p d rows n (step + j) = true := by
  induction k generalizing step with
  | zero => simp [checkSteps]
  | succ k ih =>
    simp only [checkSteps]
    cases h : transFail? p d rows n step with
    | none =>
      simp only []
      rw [ih]
      have h0 := (transFail?_eq_none_iff p d rows n step).1 h
      constructor
      · intro hh j hj
        cases j with
        | zero => exact h0
        | succ j =>
          have := hh j (by omega)
          rw [show step + (j + 1) = step + 1 + j by omega]
          exact this
      · intro hh j hj
        have := hh (j + 1) (by omega)
        rw [show step + (j + 1) = step + 1 + j by omega] at this
        exact this
    | some i =>
      simp only []
      constructor
      · intro h'; cases h'
      · intro hh
        have := (transFail?_eq_none_iff p d rows n step).2 (hh 0 (by omega))
        rw [this] at h; cases h

theorem satisfies_iff (p : Nat) (d : Desc) (rows : List (List Nat)) (n : Nat) (claimed : List (List Nat)) :
    satisfies p d rows n claimed = true ↔
      (∀ x ∈ d.asserts.zip claimed, assertHolds p rows n x.1 x.2 = true) ∧
      (∀ step, step < n - d.exemptions → transHoldsAt p d rows n step = true) := by
  unfold satisfies
  rw [Bool.and_eq_true, List.all_eq_true, List.all_eq_true]
  constructor
  · rintro ⟨h1, h2⟩
    exact ⟨fun x hx => h1 x hx, fun s hs => h2 s (List.mem_range.2 hs)⟩
  · rintro ⟨h1, h2⟩
    exact ⟨fun x hx => h1 x hx, fun s hs => h2 s (List.mem_range.1 hs)⟩

/-- KEY (C29): the model of `Trace::validate` returns normally exactly on the satisfying traces -/
theorem validate_ok_iff (p : Nat) (d : Desc) (rows : List (List Nat)) (n : Nat) (claimed : List (List Nat)) :
    validate p d rows n claimed = .ok ↔ satisfies p d rows n claimed = true := by
  rw [satisfies_iff]
  unfold validate
  cases h1 : checkAsserts p rows n (d.asserts.zip claimed) with
  | some cs =>
    obtain ⟨c, s⟩ := cs
    simp only []
    constructor
    · intro h; cases h
    · rintro ⟨ha, _⟩
      have : checkAsserts p rows n (d.asserts.zip claimed) = none := by
        rw [checkAsserts_eq_none_iff, List.all_eq_true]
        exact fun x hx => ha x hx
      rw [this] at h1; cases h1
  | none =>
    simp only []
    have ha : ∀ x ∈ d.asserts.zip claimed, assertHolds p rows n x.1 x.2 = true := by
      have := (checkAsserts_eq_none_iff p rows n _).1 h1
      rw [List.all_eq_true] at this
      exact fun x hx => this x hx
    cases h2 : checkSteps p d rows n (n - d.exemptions) 0 with
    | some is =>
      obtain ⟨i, s⟩ := is
      simp only []
      constructor
      · intro h; cases h
      · rintro ⟨_, ht⟩
        have : checkSteps p d rows n (n - d.exemptions) 0 = none := by
          rw [checkSteps_eq_none_iff]
          intro j hj
          rw [Nat.zero_add]
          exact ht j hj
        rw [this] at h2; cases h2
    | none =>
      simp only [true_iff]
      refine ⟨ha, ?_⟩
      intro s hs
      have := (checkSteps_eq_none_iff p d rows n _ 0).1 h2 s hs
      rw [Nat.zero_add] at this
      exact this

/-! ### what a reported failure means -/

theorem find?_zipIdx_some {α : Type} (q : α × Nat → Bool) (l : List α) (k : Nat) (x : α) (i : Nat)
    (h : (l.zipIdx k).find? q = some (x, i)) :
    q (x, i) = true ∧ k ≤ i ∧ i < k + l.length ∧ l[i - k]? = some x ∧
      ∀ j, k ≤ j → j < i → ∀ y, l[j - k]? = some y → q (y, j) = false := by
  induction l generalizing k with
  | nil => simp at h
  | cons a l ih =>
    simp only [List.zipIdx_cons, List.find?_cons] at h
    cases hq : q (a, k) with
    | true =>
      rw [hq] at h
      simp only [Option.some.injEq, Prod.mk.injEq] at h
      obtain ⟨rfl, rfl⟩ := h
      refine ⟨hq, Nat.le_refl _, by simp, by simp, ?_⟩
      intro j h1 h2; omega
    | false =>
      rw [hq] at h
      obtain ⟨h1, h2, h3, h4, h5⟩ := ih (k + 1) h
      refine ⟨h1, by omega, by simp only [List.length_cons]; omega, ?_, ?_⟩
      · have : i - k = (i - (k + 1)) + 1 := by omega
        rw [this, List.getElem?_cons_succ]; exact h4
      · intro j hj1 hj2 y hy
        by_cases e : j = k
        · subst e
          simp only [Nat.sub_self, List.getElem?_cons_zero, Option.some.injEq] at hy
          subst hy; exact hq
        · have : j - k = (j - (k + 1)) + 1 := by omega
          rw [this, List.getElem?_cons_succ] at hy
          exact h5 j (by omega) hj2 y hy

theorem checkSteps_some (p : Nat) (d : Desc) (rows : List (List Nat)) (n k step i s : Nat)
    (h : checkSteps p d rows n k step = some (i, s)) :
    step ≤ s ∧ s < step + k ∧ transFail? p d rows n s = some i ∧
      ∀ j, step ≤ j → j < s → transHoldsAt p d rows n j = true := by
  induction k generalizing step with
  | zero => simp [checkSteps] at h
  | succ k ih =>
    simp only [checkSteps] at h
    cases ht : transFail? p d rows n step with
    | some i' =>
      rw [ht] at h
      simp only [Option.some.injEq, Prod.mk.injEq] at h
      obtain ⟨rfl, rfl⟩ := h
      exact ⟨Nat.le_refl _, by omega, ht, fun j h1 h2 => by omega⟩
    | none =>
      rw [ht] at h
      obtain ⟨h1, h2, h3, h4⟩ := ih (step + 1) h
      refine ⟨by omega, by omega, h3, ?_⟩
      intro j hj1 hj2
      by_cases e : j = step
      · subst e; exact (transFail?_eq_none_iff p d rows n j).1 ht
      · exact h4 j (by omega) hj2

/-- a reported transition failure `(i, s)` is real and is the FIRST one: all assertions hold, all
constraints vanish on the steps before `s`, constraints `0..i−1` vanish at `s`, constraint `i` does
not, and `s` is a non-exempt step -/
theorem validate_transFail (p : Nat) (d : Desc) (rows : List (List Nat)) (n : Nat) (claimed : List (List Nat))
    (i s : Nat) (h : validate p d rows n claimed = .transFail i s) :
    s < n - d.exemptions ∧
    (∀ x ∈ d.asserts.zip claimed, assertHolds p rows n x.1 x.2 = true) ∧
    (∀ j, j < s → transHoldsAt p d rows n j = true) ∧
    (∃ t, d.trans[i]? = some t ∧
      eval p (rows.getD s []) (rows.getD ((s + 1) % n) []) (perAt d s) t.ex ≠ 0) ∧
    (∀ j, j < i → ∀ t, d.trans[j]? = some t →
      eval p (rows.getD s []) (rows.getD ((s + 1) % n) []) (perAt d s) t.ex = 0) := by
  unfold validate at h
  cases h1 : checkAsserts p rows n (d.asserts.zip claimed) with
  | some cs => rw [h1] at h; cases h
  | none =>
    rw [h1] at h
    simp only [] at h
    have ha : ∀ x ∈ d.asserts.zip claimed, assertHolds p rows n x.1 x.2 = true := by
      have := (checkAsserts_eq_none_iff p rows n _).1 h1
      rw [List.all_eq_true] at this
      exact fun x hx => this x hx
    cases h2 : checkSteps p d rows n (n - d.exemptions) 0 with
    | none => rw [h2] at h; cases h
    | some is =>
      rw [h2] at h
      obtain ⟨i', s'⟩ := is
      simp only [Verdict.transFail.injEq] at h
      obtain ⟨rfl, rfl⟩ := h
      obtain ⟨_, h4, h5, h6⟩ := checkSteps_some p d rows n _ 0 _ _ h2
      refine ⟨by omega, ha, fun j hj => h6 j (Nat.zero_le _) hj, ?_⟩
      unfold transFail? at h5
      rw [Option.map_eq_some_iff] at h5
      obtain ⟨⟨t, i''⟩, hf, rfl⟩ := h5
      obtain ⟨q1, _, _, q4, q5⟩ := find?_zipIdx_some _ _ _ _ _ hf
      refine ⟨⟨t, by simpa using q4, by simpa using q1⟩, ?_⟩
      intro j hj t' ht'
      have := q5 j (Nat.zero_le _) hj t' (by simpa using ht')
      simpa using this

/-- a reported assertion failure `(col, step)` is real: some assertion on that column constrains
that step and the trace cell differs from the asserted value -/
theorem validate_assertFail (p : Nat) (d : Desc) (rows : List (List Nat)) (n : Nat) (claimed : List (List Nat))
    (c s : Nat) (h : validate p d rows n claimed = .assertFail c s) :
    ∃ x ∈ d.asserts.zip claimed, x.1.col = c ∧ ∃ i, (assertSteps x.1 n)[i]? = some s ∧
      cell rows s c ≠ (if x.1.kind = 2 then x.2.getD i 0 else x.2.getD 0 0) % p := by
  unfold validate at h
  cases h1 : checkAsserts p rows n (d.asserts.zip claimed) with
  | none =>
    rw [h1] at h
    simp only [] at h
    split at h <;> cases h
  | some cs =>
    rw [h1] at h
    obtain ⟨c', s'⟩ := cs
    simp only [Verdict.assertFail.injEq] at h
    obtain ⟨rfl, rfl⟩ := h
    generalize d.asserts.zip claimed = l at h1
    induction l with
    | nil => simp [checkAsserts] at h1
    | cons x l ih =>
      obtain ⟨a, cl⟩ := x
      simp only [checkAsserts] at h1
      cases hf : assertFail? p rows n a cl with
      | none =>
        rw [hf] at h1
        obtain ⟨x, hx, r⟩ := ih h1
        exact ⟨x, List.mem_cons_of_mem _ hx, r⟩
      | some st =>
        rw [hf] at h1
        simp only [Option.some.injEq, Prod.mk.injEq] at h1
        obtain ⟨rfl, rfl⟩ := h1
        unfold assertFail? at hf
        rw [Option.map_eq_some_iff] at hf
        obtain ⟨⟨st', i⟩, hfind, rfl⟩ := hf
        obtain ⟨q1, _, _, q4, _⟩ := find?_zipIdx_some _ _ _ _ _ hfind
        refine ⟨(a, cl), List.mem_cons_self, rfl, i, by simpa using q4, ?_⟩
        simpa using q1

/-! ## violations force `satisfies = false` -/

theorem satisfies_false_of_assert (p : Nat) (d : Desc) (rows : List (List Nat)) (n : Nat) (claimed : List (List Nat))
    (a : Assert) (c : List Nat) (hx : (a, c) ∈ d.asserts.zip claimed) (i s : Nat)
    (hs : (assertSteps a n)[i]? = some s)
    (hne : cell rows s a.col ≠ (if a.kind = 2 then c.getD i 0 else c.getD 0 0) % p) :
    satisfies p d rows n claimed = false := by
  cases h : satisfies p d rows n claimed with
  | false => rfl
  | true =>
    exfalso
    have := ((satisfies_iff p d rows n claimed).1 h).1 (a, c) hx
    unfold assertHolds at this
    rw [List.all_eq_true] at this
    have hm : (s, i) ∈ (assertSteps a n).zipIdx := by
      rw [List.mk_mem_zipIdx_iff_getElem?]; exact hs
    have := this (s, i) hm
    simp only [beq_iff_eq] at this
    exact hne this

theorem satisfies_false_of_trans (p : Nat) (d : Desc) (rows : List (List Nat)) (n : Nat) (claimed : List (List Nat))
    (s : Nat) (hs : s < n - d.exemptions) (t : Trans) (ht : t ∈ d.trans)
    (hne : eval p (rows.getD s []) (rows.getD ((s + 1) % n) []) (perAt d s) t.ex ≠ 0) :
    satisfies p d rows n claimed = false := by
  cases h : satisfies p d rows n claimed with
  | false => rfl
  | true =>
    exfalso
    have := ((satisfies_iff p d rows n claimed).1 h).2 s hs
    unfold transHoldsAt at this
    rw [List.all_eq_true] at this
    have := this t ht
    simp only [beq_iff_eq] at this
    exact hne this

/-- more exemptions never turn a satisfying trace into an unsatisfying one -/
theorem satisfies_mono_exemptions (p : Nat) (d : Desc) (rows : List (List Nat)) (n : Nat) (claimed : List (List Nat))
    (e' : Nat) (he : d.exemptions ≤ e') (h : satisfies p d rows n claimed = true) :
    satisfies p { d with exemptions := e' } rows n claimed = true := by
  rw [satisfies_iff] at h ⊢
  refine ⟨h.1, ?_⟩
  intro s hs
  have := h.2 s (by simp only [] at hs; omega)
  exact this

/-! ## consistent descriptions: the generated trace satisfies the transition constraints -/

/-- the expression mentions next-row cells only with index `< i` -/
def nextBelow (i : Nat) : Ex → Prop
  | .next j => j < i
  | .add a b => nextBelow i a ∧ nextBelow i b
  | .sub a b => nextBelow i a ∧ nextBelow i b
  | .mul a b => nextBelow i a ∧ nextBelow i b
  | _ => True

theorem eval_congr_next (p : Nat) (cur per : List Nat) (i : Nat) (next next' : List Nat)
    (h : ∀ j, j < i → next.getD j 0 = next'.getD j 0) (e : Ex) (he : nextBelow i e) :
    eval p cur next per e = eval p cur next' per e := by
  induction e with
  | next j => exact h j he
  | add a b iha ihb => simp only [eval, iha he.1, ihb he.2]
  | sub a b iha ihb => simp only [eval, iha he.1, ihb he.2]
  | mul a b iha ihb => simp only [eval, iha he.1, ihb he.2]
  | _ => rfl

/-- the step function of `nextRow` -/
def genStep (p : Nat) (d : Desc) (step : Nat) (cur : List Nat) (nxt : List Nat) (g : Ex) : List Nat :=
  nxt ++ [eval p cur (nxt ++ List.replicate (d.width - nxt.length) 0) (perAt d step) g]

theorem nextRow_eq (p : Nat) (d : Desc) (step : Nat) (cur : List Nat) :
    nextRow p d step cur = d.gen.foldl (genStep p d step cur) [] := rfl

/-- structure of the fold: the accumulator is a prefix, and the `j`-th new cell is `gens[j]`
evaluated on (cells computed so far, padded with zeros) -/
theorem genFold_spec (p : Nat) (d : Desc) (step : Nat) (cur : List Nat) (gens : List Ex) (acc : List Nat) :
    let R := gens.foldl (genStep p d step cur) acc
    R.length = acc.length + gens.length ∧ R.take acc.length = acc ∧
    ∀ j, (hj : j < gens.length) →
      R.getD (acc.length + j) 0
        = eval p cur (R.take (acc.length + j) ++ List.replicate (d.width - (acc.length + j)) 0)
            (perAt d step) gens[j] := by
  induction gens generalizing acc with
  | nil =>
    simp only [List.foldl_nil, List.length_nil, Nat.add_zero, List.take_length, true_and]
    intro j hj; cases hj
  | cons g gs ih =>
    simp only [List.foldl_cons]
    obtain ⟨h1, h2, h3⟩ := ih (genStep p d step cur acc g)
    have hl : (genStep p d step cur acc g).length = acc.length + 1 := by simp [genStep]
    rw [hl] at h1 h2 h3
    have hpre : (List.foldl (genStep p d step cur) (genStep p d step cur acc g) gs).take acc.length = acc := by
      have := congrArg (List.take acc.length) h2
      rw [List.take_take, Nat.min_eq_left (by omega)] at this
      rw [this]
      simp [genStep]
    refine ⟨by simp only [List.length_cons]; omega, hpre, ?_⟩
    intro j hj
    cases j with
    | zero =>
      simp only [Nat.add_zero, List.getElem_cons_zero]
      rw [hpre]
      have : (List.foldl (genStep p d step cur) (genStep p d step cur acc g) gs).getD acc.length 0
          = (genStep p d step cur acc g).getD acc.length 0 := by
        have e : (List.foldl (genStep p d step cur) (genStep p d step cur acc g) gs).getD acc.length 0
            = ((List.foldl (genStep p d step cur) (genStep p d step cur acc g) gs).take (acc.length + 1)).getD acc.length 0 := by
          rw [List.getD_eq_getElem?_getD, List.getD_eq_getElem?_getD, List.getElem?_take_of_lt (by omega)]
        rw [e, h2]
      rw [this]
      simp [genStep, List.getD_eq_getElem?_getD]
    | succ j =>
      have := h3 j (by simp only [List.length_cons] at hj; omega)
      simp only [List.getElem_cons_succ]
      rw [show acc.length + (j + 1) = acc.length + 1 + j by omega]
      exact this

theorem nextRow_length (p : Nat) (d : Desc) (step : Nat) (cur : List Nat) :
    (nextRow p d step cur).length = d.gen.length := by
  have := (genFold_spec p d step cur d.gen []).1
  simpa [nextRow_eq] using this

theorem nextRow_getD (p : Nat) (d : Desc) (step : Nat) (cur : List Nat) (i : Nat) (hi : i < d.gen.length) :
    (nextRow p d step cur).getD i 0
      = eval p cur ((nextRow p d step cur).take i ++ List.replicate (d.width - i) 0) (perAt d step) d.gen[i] := by
  have := (genFold_spec p d step cur d.gen []).2.2 i hi
  simpa [nextRow_eq] using this

theorem sub_self_mod (p v : Nat) (hp : 0 < p) : (v + (p - v % p)) % p = 0 := by
  have h1 : v % p < p := Nat.mod_lt _ hp
  have h2 := Nat.div_add_mod v p
  have : v + (p - v % p) = p * (v / p + 1) := by
    rw [Nat.mul_add, Nat.mul_one]; omega
  rw [this, Nat.mul_mod_right]

/-- a description whose transition constraints say "next cell i = gen i", where `gen i` refers to
next-row cells only below `i` (what the generator of the harness produces) -/
structure Consistent (d : Desc) : Prop where
  gen_len : d.gen.length = d.width
  trans_len : d.trans.length = d.width
  trans_eq : ∀ i, (h : i < d.trans.length) → (h' : i < d.gen.length) →
    (d.trans[i]).ex = .sub (.next i) (d.gen[i])
  gen_below : ∀ i, (h : i < d.gen.length) → nextBelow i (d.gen[i])

/-- every transition constraint of a consistent description vanishes on (row, nextRow row) -/
theorem trans_zero_on_nextRow (p : Nat) (hp : 0 < p) (d : Desc) (hc : Consistent d) (step : Nat) (cur : List Nat)
    (t : Trans) (ht : t ∈ d.trans) :
    eval p cur (nextRow p d step cur) (perAt d step) t.ex = 0 := by
  obtain ⟨i, hi, rfl⟩ := List.getElem_of_mem ht
  have hig : i < d.gen.length := by rw [hc.gen_len, ← hc.trans_len]; exact hi
  rw [hc.trans_eq i hi hig]
  simp only [eval]
  have key : eval p cur (nextRow p d step cur) (perAt d step) d.gen[i] = (nextRow p d step cur).getD i 0 := by
    rw [nextRow_getD p d step cur i hig]
    apply eval_congr_next p cur (perAt d step) i _ _ _ _ (hc.gen_below i hig)
    intro j hj
    have hl := nextRow_length p d step cur
    rw [List.getD_eq_getElem?_getD, List.getD_eq_getElem?_getD,
      List.getElem?_append_left (by rw [List.length_take, hl]; omega), List.getElem?_take_of_lt hj]
  rw [key]
  exact sub_self_mod p _ hp

/-- on the generated trace (no overrides) every transition constraint holds at every step whose
successor row exists -/
theorem transHoldsAt_genRows (p : Nat) (hp : 0 < p) (d : Desc) (hc : Consistent d) (n : Nat) (init : List Nat)
    (s : Nat) (hs : s + 1 < n) :
    transHoldsAt p d (genRows p d n 0 init) n s = true := by
  unfold transHoldsAt
  rw [List.all_eq_true]
  intro t ht
  rw [Nat.mod_eq_of_lt hs, genRows_getD p d n init s (by omega), genRows_getD p d n init (s + 1) hs, rowAt_succ]
  simp only [beq_iff_eq]
  exact trans_zero_on_nextRow p hp d hc s _ t ht

/-! ### reduced cells and claimed values read off the trace -/

def Reduced (p : Nat) (l : List Nat) : Prop := ∀ x ∈ l, x < p

theorem getD_lt {p : Nat} (hp : 0 < p) {l : List Nat} (h : Reduced p l) (i : Nat) : l.getD i 0 < p := by
  rw [List.getD_eq_getElem?_getD]
  cases e : l[i]? with
  | none => exact hp
  | some v => exact h v (List.mem_of_getElem? e)

theorem eval_lt (p : Nat) (hp : 0 < p) (cur next per : List Nat) (hc : Reduced p cur) (hn : Reduced p next)
    (hq : Reduced p per) (e : Ex) : eval p cur next per e < p := by
  cases e with
  | cur i => exact getD_lt hp hc i
  | next i => exact getD_lt hp hn i
  | per i => exact getD_lt hp hq i
  | k v => exact Nat.mod_lt _ hp
  | acur _ => exact hp
  | anext _ => exact hp
  | rnd _ => exact hp
  | add a b => exact Nat.mod_lt _ hp
  | sub a b => exact Nat.mod_lt _ hp
  | mul a b => exact Nat.mod_lt _ hp

theorem perAt_reduced (p : Nat) (hp : 0 < p) (d : Desc) (h : ∀ col ∈ d.periodic, Reduced p col) (step : Nat) :
    Reduced p (perAt d step) := by
  intro x hx
  simp only [perAt, List.mem_map] at hx
  obtain ⟨col, hcol, rfl⟩ := hx
  exact getD_lt hp (h col hcol) _

theorem nextRow_reduced (p : Nat) (hp : 0 < p) (d : Desc) (hper : ∀ col ∈ d.periodic, Reduced p col)
    (step : Nat) (cur : List Nat) (hc : Reduced p cur) : Reduced p (nextRow p d step cur) := by
  rw [nextRow_eq]
  have : ∀ (gens : List Ex) (acc : List Nat), Reduced p acc →
      Reduced p (gens.foldl (genStep p d step cur) acc) := by
    intro gens
    induction gens with
    | nil => intro acc h; exact h
    | cons g gs ih =>
      intro acc h
      simp only [List.foldl_cons]
      apply ih
      intro x hx
      simp only [genStep, List.mem_append, List.mem_singleton] at hx
      rcases hx with hx | rfl
      · exact h x hx
      · apply eval_lt p hp _ _ _ hc _ (perAt_reduced p hp d hper step)
        intro y hy
        simp only [List.mem_append, List.mem_replicate] at hy
        rcases hy with hy | ⟨_, rfl⟩
        · exact h y hy
        · exact hp
  exact this _ _ (fun x hx => by cases hx)

theorem rowAt_reduced (p : Nat) (hp : 0 < p) (d : Desc) (hper : ∀ col ∈ d.periodic, Reduced p col)
    (init : List Nat) (hi : Reduced p init) (s : Nat) : Reduced p (rowAt p d s init) := by
  induction s with
  | zero => exact hi
  | succ s ih => rw [rowAt_succ]; exact nextRow_reduced p hp d hper s _ ih

theorem cell_genRows_lt (p : Nat) (hp : 0 < p) (d : Desc) (hper : ∀ col ∈ d.periodic, Reduced p col)
    (n : Nat) (init : List Nat) (hi : Reduced p init) (r c : Nat) :
    cell (genRows p d n 0 init) r c < p := by
  unfold cell
  by_cases h : r < n
  · rw [genRows_getD p d n init r h]
    exact getD_lt hp (rowAt_reduced p hp d hper init hi r) c
  · have : (genRows p d n 0 init).getD r [] = [] := by
      rw [List.getD_eq_getElem?_getD, List.getElem?_eq_none]
      · rfl
      · rw [genRows_eq_iterRows, iterRows_length]; omega
    rw [this]; exact hp

/-- the asserted values read off a trace (single: the cell; sequence: the cells at all steps) -/
def readOff (rows : List (List Nat)) (n : Nat) (a : Assert) : List Nat :=
  (assertSteps a n).map (fun s => cell rows s a.col)

theorem assertHolds_readOff (p : Nat) (rows : List (List Nat)) (n : Nat) (a : Assert)
    (hk : a.kind = 0 ∨ a.kind = 2) (hred : ∀ r c, cell rows r c < p) :
    assertHolds p rows n a (readOff rows n a) = true := by
  unfold assertHolds
  rw [List.all_eq_true]
  rintro ⟨s, i⟩ hm
  rw [List.mk_mem_zipIdx_iff_getElem?] at hm
  simp only [beq_iff_eq]
  have hget : (readOff rows n a).getD i 0 = cell rows s a.col := by
    simp [readOff, List.getD_eq_getElem?_getD, hm]
  rcases hk with hk | hk
  · have hst : assertSteps a n = [a.first] := by simp [assertSteps, hk]
    have hi : i = 0 := by
      rw [hst] at hm
      cases i with
      | zero => rfl
      | succ i => simp at hm
    subst hi
    have : ¬ a.kind = 2 := by omega
    rw [if_neg this, hget, Nat.mod_eq_of_lt (hred _ _)]
  · rw [if_pos hk, hget, Nat.mod_eq_of_lt (hred _ _)]

/-! ## the executable consistency check is sound -/

theorem exEq_eq (a b : Ex) (h : exEq a b = true) : a = b := by
  induction a generalizing b with
  | add a1 a2 ih1 ih2 =>
    cases b <;> simp only [exEq, Bool.and_eq_true] at h <;> first | exact Bool.noConfusion h | skip
    rw [ih1 _ h.1, ih2 _ h.2]
  | sub a1 a2 ih1 ih2 =>
    cases b <;> simp only [exEq, Bool.and_eq_true] at h <;> first | exact Bool.noConfusion h | skip
    rw [ih1 _ h.1, ih2 _ h.2]
  | mul a1 a2 ih1 ih2 =>
    cases b <;> simp only [exEq, Bool.and_eq_true] at h <;> first | exact Bool.noConfusion h | skip
    rw [ih1 _ h.1, ih2 _ h.2]
  | _ =>
    cases b <;> simp only [exEq, beq_iff_eq] at h <;> first | exact Bool.noConfusion h | rw [h]

theorem nextBelowB_sound (i : Nat) (e : Ex) (h : nextBelowB i e = true) : nextBelow i e := by
  induction e with
  | next j => simpa [nextBelowB, nextBelow] using h
  | add a b iha ihb => simp only [nextBelowB, Bool.and_eq_true] at h; exact ⟨iha h.1, ihb h.2⟩
  | sub a b iha ihb => simp only [nextBelowB, Bool.and_eq_true] at h; exact ⟨iha h.1, ihb h.2⟩
  | mul a b iha ihb => simp only [nextBelowB, Bool.and_eq_true] at h; exact ⟨iha h.1, ihb h.2⟩
  | _ => trivial

theorem consistentB_sound (d : Desc) (h : consistentB d = true) : Consistent d := by
  simp only [consistentB, Bool.and_eq_true, beq_iff_eq, List.all_eq_true, List.mem_range] at h
  obtain ⟨⟨h1, h2⟩, h3⟩ := h
  have key : ∀ i, (hi : i < d.trans.length) → (hi' : i < d.gen.length) →
      (d.trans[i]).ex = .sub (.next i) (d.gen[i]) ∧ nextBelow i (d.gen[i]) := by
    intro i hi hi'
    have := h3 i (by rw [← h2]; exact hi)
    rw [List.getElem?_eq_getElem hi, List.getElem?_eq_getElem hi'] at this
    simp only [Bool.and_eq_true] at this
    exact ⟨exEq_eq _ _ this.1, nextBelowB_sound _ _ this.2⟩
  exact ⟨h1, h2, fun i hi hi' => (key i hi hi').1,
    fun i hi => (key i (by rw [h2, ← h1]; exact hi) hi).2⟩

/-! ## a changed cell is caught by its own constraint (consistent descriptions) -/

theorem sub_mod_eq_zero_iff (p a b : Nat) (hp : 0 < p) : (a + (p - b % p)) % p = 0 ↔ a % p = b % p := by
  have hb : b % p < p := Nat.mod_lt _ hp
  constructor
  · intro h
    have e : a + p = (a + (p - b % p)) + b % p := by omega
    calc a % p = (a + p) % p := (Nat.add_mod_right a p).symm
      _ = ((a + (p - b % p)) + b % p) % p := by rw [e]
      _ = ((a + (p - b % p)) % p + b % p) % p := (Nat.mod_add_mod _ _ _).symm
      _ = b % p := by rw [h, Nat.zero_add, Nat.mod_mod]
  · intro h
    calc (a + (p - b % p)) % p = (a % p + (p - b % p)) % p := (Nat.mod_add_mod _ _ _).symm
      _ = p % p := by rw [h]; congr 1; omega
      _ = 0 := Nat.mod_self p

/-- Frame (cur, next') where `next'` agrees with the honest next row below column `c` and differs
(mod p) at column `c`: constraint `c` of a consistent description is NON-zero. -/
theorem trans_nonzero_of_changed_cell (p : Nat) (hp : 0 < p) (d : Desc) (hc : Consistent d) (step : Nat)
    (cur next' : List Nat) (c : Nat) (hcw : c < d.trans.length)
    (hlow : ∀ j, j < c → next'.getD j 0 = (nextRow p d step cur).getD j 0)
    (hne : next'.getD c 0 % p ≠ (nextRow p d step cur).getD c 0 % p) :
    eval p cur next' (perAt d step) (d.trans[c]).ex ≠ 0 := by
  have hig : c < d.gen.length := by rw [hc.gen_len, ← hc.trans_len]; exact hcw
  rw [hc.trans_eq c hcw hig]
  simp only [eval]
  have key : eval p cur next' (perAt d step) d.gen[c] = (nextRow p d step cur).getD c 0 := by
    rw [nextRow_getD p d step cur c hig]
    apply eval_congr_next p cur (perAt d step) c _ _ _ _ (hc.gen_below c hig)
    intro j hj
    have hl := nextRow_length p d step cur
    rw [hlow j hj, List.getD_eq_getElem?_getD, List.getD_eq_getElem?_getD,
      List.getElem?_append_left (by rw [List.length_take, hl]; omega), List.getElem?_take_of_lt hj]
  rw [key]
  intro h
  exact hne ((sub_mod_eq_zero_iff p _ _ hp).1 h)

/-- A trace that coincides with the generated one on row `r − 1`, and on row `r` below column `c`,
but differs (mod p) in cell `(r, c)`, where `r − 1` is a NON-exempt step: the statement is false,
whatever the other rows and the claimed values are.  (Covers the corruption classes "interior"
and "last non-exempt row" of the streams c02 / c29.) -/
theorem changed_cell_unsatisfying (p : Nat) (hp : 0 < p) (d : Desc) (hc : Consistent d) (n : Nat) (init : List Nat)
    (rows' : List (List Nat)) (claimed : List (List Nat)) (r c : Nat)
    (hr1 : 1 ≤ r) (hr2 : r ≤ n - d.exemptions) (hrn : r < n) (hcw : c < d.width)
    (hprev : rows'.getD (r - 1) [] = rowAt p d (r - 1) init)
    (hlow : ∀ j, j < c → (rows'.getD r []).getD j 0 = (rowAt p d r init).getD j 0)
    (hne : (rows'.getD r []).getD c 0 % p ≠ (rowAt p d r init).getD c 0 % p) :
    satisfies p d rows' n claimed = false := by
  have hct : c < d.trans.length := by rw [hc.trans_len]; exact hcw
  have hrow : rowAt p d r init = nextRow p d (r - 1) (rowAt p d (r - 1) init) := by
    have := rowAt_succ p d (r - 1) init
    rw [show r - 1 + 1 = r by omega] at this
    exact this
  apply satisfies_false_of_trans p d rows' n claimed (r - 1) (by omega) d.trans[c] (List.getElem_mem _)
  rw [show (r - 1 + 1) % n = r by rw [show r - 1 + 1 = r by omega]; exact Nat.mod_eq_of_lt hrn, hprev]
  apply trans_nonzero_of_changed_cell p hp d hc (r - 1) _ _ c hct
  · intro j hj; rw [hlow j hj, hrow]
  · rw [← hrow]; exact hne

theorem setCell_getD_other (rows : List (List Nat)) (r c v i : Nat) (h : i ≠ r) :
    (setCell rows r c v).getD i [] = rows.getD i [] := by
  simp only [setCell, List.getD_eq_getElem?_getD, List.getElem?_mapIdx]
  cases rows[i]? with
  | none => rfl
  | some row => simp [h]

theorem setCell_getD_same (rows : List (List Nat)) (r c v j : Nat) :
    ((setCell rows r c v).getD r []).getD j 0
      = if j = c ∧ c < (rows.getD r []).length then v else (rows.getD r []).getD j 0 := by
  simp only [setCell, List.getD_eq_getElem?_getD, List.getElem?_mapIdx]
  cases rows[r]? with
  | none => simp
  | some row =>
    simp only [Option.map_some, if_true, Option.getD_some, List.getElem?_mapIdx]
    by_cases hj : j = c
    · subst hj
      by_cases hl : j < row.length
      · simp [hl]
      · simp [hl]
    · cases row[j]? with
      | none => simp [hj]
      | some x => simp [hj]

/-- the single-cell corruption of the streams: ONE override `(r, c, v)` on a row whose predecessor
step `r − 1` is non-exempt, with `v` different (mod p) from the honest cell: the ideal verdict is
`reject`, for every consistent description, modulus, length, initial row and claimed values. -/
theorem single_override_rejected (p : Nat) (hp : 0 < p) (d : Desc) (hc : Consistent d) (n : Nat) (init : List Nat)
    (claimed : List (List Nat)) (r c v : Nat)
    (hr1 : 1 ≤ r) (hr2 : r ≤ n - d.exemptions) (hrn : r < n) (hcw : c < d.width)
    (hne : v % p ≠ cell (buildTrace p d n init []) r c % p) :
    idealVerdict p d n init [(r, c, v)] claimed = false := by
  unfold idealVerdict
  have hb : buildTrace p d n init [(r, c, v)] = setCell (genRows p d n 0 (init.map (· % p))) r c (v % p) := rfl
  have hb0 : buildTrace p d n init [] = genRows p d n 0 (init.map (· % p)) := rfl
  rw [hb0] at hne
  unfold cell at hne
  rw [genRows_getD p d n _ r hrn] at hne
  have hlen : (rowAt p d r (init.map (· % p))).length = d.width := by
    have := rowAt_succ p d (r - 1) (init.map (· % p))
    rw [show r - 1 + 1 = r by omega] at this
    rw [this, nextRow_length, hc.gen_len]
  rw [hb]
  apply changed_cell_unsatisfying p hp d hc n (init.map (· % p)) _ claimed r c hr1 hr2 hrn hcw
  · rw [setCell_getD_other _ _ _ _ _ (by omega), genRows_getD p d n _ (r - 1) (by omega)]
  · intro j hj
    rw [setCell_getD_same, genRows_getD p d n _ r hrn, if_neg (by omega)]
  · rw [setCell_getD_same, genRows_getD p d n _ r hrn, if_pos ⟨rfl, by rw [hlen]; exact hcw⟩, Nat.mod_mod]
    exact hne

/-! ## a concrete description used by the non-vacuity examples -/

/-- next0 = cur0 + cur1·per0,  next1 = next0 + cur1;  p = 97, exemptions = 1, two assertions -/
def exDesc : Desc :=
  { width := 2, auxWidth := 0, numRands := 0, exemptions := 1, periodic := [[1, 2]],
    trans := [⟨.sub (.next 0) (.add (.cur 0) (.mul (.cur 1) (.per 0))), 2, [2]⟩,
              ⟨.sub (.next 1) (.add (.next 0) (.cur 1)), 1, []⟩],
    auxTrans := [], gen := [.add (.cur 0) (.mul (.cur 1) (.per 0)), .add (.next 0) (.cur 1)],
    auxGen := [], auxInit := [],
    asserts := [⟨0, 0, 0, 0, [1]⟩, ⟨0, 1, 7, 0, [30]⟩], auxAsserts := [] }

theorem exDesc_consistent : Consistent exDesc where
  gen_len := rfl
  trans_len := rfl
  trans_eq := by
    intro i h h'
    have : i < 2 := h
    match i, this with
    | 0, _ => rfl
    | 1, _ => rfl
  gen_below := by
    intro i h
    have : i < 2 := h
    match i, this with
    | 0, _ => exact ⟨trivial, trivial, trivial⟩
    | 1, _ => exact ⟨Nat.lt_succ_self 0, trivial⟩

end Wf.AirDesc
