/-
Helper lemmas for `Wf/Props/C05V.lean`, part 3: `GenAir::new`, boundary constraints and the
out-of-domain constraint evaluation never panic on a context that fits the statement.
-/
import Wf.Lemmas.VerifierBasic
import Wf.Lemmas.Boundary
namespace Wf.Verifier
open Wf Wf.AirDesc Wf.AirDivisor Wf.Boundary

variable {F : Type}

/-! ### assertions and boundary constraints -/

theorem prepareLoop_all_valid {w n : Nat} : ∀ (l acc r : List Assertion),
    Assertion.prepareLoop w n l acc = .ok r →
    ∀ x ∈ l, x.validateTraceWidth w = .ok () ∧ x.validateTraceLength n = .ok ()
  | [], _, _, _ => by simp
  | y :: rest, acc, r, h => by
    obtain ⟨h1, h2, _, h4⟩ := Assertion.prepareLoop_cons_ok_iff.1 h
    intro x hx
    rcases List.mem_cons.mp hx with rfl | hx
    · exact ⟨h1, h2⟩
    · exact prepareLoop_all_valid rest _ r h4 x hx

theorem prepareAssertions_valid {w n : Nat} (as sorted : List Assertion)
    (h : Assertion.prepareAssertions as w n = .ok sorted) :
    ∀ a ∈ sorted, a.column < w ∧ a.validateTraceLength n = .ok () := by
  unfold Assertion.prepareAssertions at h
  have hperm := (prepareLoop_result as [] sorted h (by simp)).2
  have hall := prepareLoop_all_valid as [] sorted h
  intro a ha
  have ha' : a ∈ as := by simpa using hperm.mem_iff.mp ha
  obtain ⟨h1, h2⟩ := hall a ha'
  refine ⟨?_, h2⟩
  unfold Assertion.validateTraceWidth at h1
  split at h1
  · cases h1
  · omega

theorem fromAssertion_isSome (ops : FieldOps F) (exp : F → Nat → F) (g : F) (a : Assertion) (n : Nat)
    (h : a.validateTraceLength n = .ok ()) : ∃ dv, fromAssertion ops exp g a n = some dv := by
  unfold fromAssertion Assertion.getNumSteps
  rw [h]
  simp only []
  split <;> exact ⟨_, rfl⟩

/-- all constraints of all groups sit on columns below `w` -/
def GroupsBelow {C} (w : Nat) (groups : List ((Nat × Nat) × Group F C)) : Prop :=
  ∀ kg ∈ groups, ∀ c ∈ kg.2.constraints, c.column < w

theorem addToGroups_below {C} (w : Nat) (key : Nat × Nat) (mk : Unit → Option (Divisor F)) (c : Constraint F C)
    (hc : c.column < w) (hmk : ∃ dv, mk () = some dv) :
    ∀ (groups : List ((Nat × Nat) × Group F C)), GroupsBelow w groups →
      ∃ gs, addToGroups key mk c groups = some gs ∧ GroupsBelow w gs
  | [], _ => by
    obtain ⟨dv, hdv⟩ := hmk
    refine ⟨[(key, { constraints := [c], divisor := dv })], by simp [addToGroups, hdv], ?_⟩
    intro kg hkg c' hc'
    simp only [List.mem_singleton] at hkg
    subst hkg
    simp only [List.mem_singleton] at hc'
    subst hc'; exact hc
  | (k, g) :: rest, hb => by
    unfold addToGroups
    split
    · refine ⟨_, rfl, ?_⟩
      intro kg hkg c' hc'
      rcases List.mem_cons.mp hkg with rfl | hkg
      · simp only [List.mem_append, List.mem_singleton] at hc'
        rcases hc' with hc' | rfl
        · exact hb (k, g) (by simp) c' hc'
        · exact hc
      · exact hb kg (by simp [hkg]) c' hc'
    · split
      · obtain ⟨dv, hdv⟩ := hmk
        refine ⟨(key, { constraints := [c], divisor := dv }) :: (k, g) :: rest, by simp [hdv], ?_⟩
        intro kg hkg c' hc'
        rcases List.mem_cons.mp hkg with rfl | hkg
        · simp only [List.mem_singleton] at hc'
          subst hc'; exact hc
        · exact hb kg hkg c' hc'
      · obtain ⟨gs, hgs, hbel⟩ := addToGroups_below w key mk c hc hmk rest
          (fun kg hkg => hb kg (by simp [hkg]))
        refine ⟨(k, g) :: gs, by simp [hgs], ?_⟩
        intro kg hkg c' hc'
        rcases List.mem_cons.mp hkg with rfl | hkg
        · exact hb (k, g) (by simp) c' hc'
        · exact hbel kg hkg c' hc'

theorem constraintNew_column {C} (ops : FieldOps F) (exp : F → Nat → F) (emb : Nat → F)
    (interp : List F → List F) (a : Assertion) (invG : F) (cc : C) :
    (Constraint.new ops exp emb interp a invG cc).column = a.column := by
  unfold Constraint.new
  split <;> rfl

theorem groupConstraints_below {C} (ops : FieldOps F) (exp : F → Nat → F) (emb : Nat → F)
    (interp : List F → List F) (g invG : F) (n w : Nat) :
    ∀ (as : List Assertion) (ccs : List C) (groups : List ((Nat × Nat) × Group F C)),
      (∀ a ∈ as, a.column < w ∧ a.validateTraceLength n = .ok ()) → GroupsBelow w groups →
      ∃ gs, groupConstraints ops exp emb interp g invG n as ccs groups = some gs ∧
        ∀ gr ∈ gs, ∀ c ∈ gr.constraints, c.column < w
  | [], _, groups, _, hb => by
    refine ⟨groups.map Prod.snd, by simp [groupConstraints], ?_⟩
    intro gr hgr c hc
    simp only [List.mem_map] at hgr
    obtain ⟨kg, hkg, rfl⟩ := hgr
    exact hb kg hkg c hc
  | _ :: _, [], groups, _, hb => by
    refine ⟨groups.map Prod.snd, by simp [groupConstraints], ?_⟩
    intro gr hgr c hc
    simp only [List.mem_map] at hgr
    obtain ⟨kg, hkg, rfl⟩ := hgr
    exact hb kg hkg c hc
  | a :: as, cc :: ccs, groups, ha, hb => by
    obtain ⟨ha1, ha2⟩ := ha a (by simp)
    obtain ⟨gs, hgs, hbel⟩ := addToGroups_below w (groupKey a) (fun _ => fromAssertion ops exp g a n)
      (Constraint.new ops exp emb interp a invG cc) (by rw [constraintNew_column]; exact ha1)
      (fromAssertion_isSome ops exp g a n ha2) groups hb
    obtain ⟨r, hr, hrb⟩ := groupConstraints_below ops exp emb interp g invG n w as ccs gs
      (fun x hx => ha x (by simp [hx])) hbel
    exact ⟨r, by simp [groupConstraints, hgs, hr], hrb⟩

theorem groupEvaluateAt_isSome (ops : FieldOps F) (exp : F → Nat → F) (gr : Group F F) (state : List F) (x : F)
    (h : ∀ c ∈ gr.constraints, c.column < state.length) : ∃ v, gr.evaluateAt ops exp state x = some v := by
  unfold Group.evaluateAt
  have key : ∀ (cs : List (Constraint F F)) (num : F), (∀ c ∈ cs, c.column < state.length) →
      ∃ r, Group.evaluateAt.go ops state x cs num = some r := by
    intro cs
    induction cs with
    | nil => intro num _; exact ⟨num, by simp [Group.evaluateAt.go]⟩
    | cons c cs ih =>
      intro num hc
      have hlt := hc c (by simp)
      simp only [Group.evaluateAt.go, List.getElem?_eq_getElem hlt]
      exact ih _ (fun c' hc' => hc c' (by simp [hc']))
  obtain ⟨r, hr⟩ := key gr.constraints ops.zero h
  rw [hr]
  exact ⟨_, rfl⟩

theorem addBoundary_isSome (ops : FieldOps F) (state : List F) (x : F) :
    ∀ (gs : List (Group F F)) (acc : F), (∀ gr ∈ gs, ∀ c ∈ gr.constraints, c.column < state.length) →
      ∃ r, addBoundary ops state x gs acc = some r
  | [], acc, _ => ⟨acc, rfl⟩
  | gr :: gs, acc, h => by
    obtain ⟨v, hv⟩ := groupEvaluateAt_isSome ops (fexp ops) gr state x (h gr (by simp))
    obtain ⟨r, hr⟩ := addBoundary_isSome ops state x gs (ops.add acc v) (fun g hg => h g (by simp [hg]))
    exact ⟨r, by simp [addBoundary, hv, hr]⟩

/-! ### `GenAir::new` -/

theorem le_nextPow2Go (n : Nat) : ∀ (fuel p : Nat), n ≤ p * 2 ^ fuel → n ≤ Wf.nextPow2Go n fuel p
  | 0, p, h => by simpa [Wf.nextPow2Go] using h
  | fuel + 1, p, h => by
    unfold Wf.nextPow2Go
    split
    · apply le_nextPow2Go n fuel (p * 2)
      rw [Nat.pow_succ] at h
      rw [Nat.mul_assoc, Nat.mul_comm 2]; exact h
    · omega

theorem le_nextPow2 (n : Nat) : n ≤ Wf.nextPow2 n := by
  unfold Wf.nextPow2
  apply le_nextPow2Go
  have := Nat.lt_two_pow_self (n := n)
  omega

theorem evalDegree_le (d : TcDegree) (n : Nat) : d.getEvaluationDegree n ≤ (d.base + d.cycles.length) * n := by
  unfold TcDegree.getEvaluationDegree
  have key : ∀ (cs : List Nat) (init : Nat),
      cs.foldl (fun result c => result + (n / c) * (c - 1)) init ≤ init + cs.length * n := by
    intro cs
    induction cs with
    | nil => intro init; simp
    | cons c cs ih =>
      intro init
      simp only [List.foldl_cons, List.length_cons]
      have h1 := ih (init + n / c * (c - 1))
      have h2 : n / c * (c - 1) ≤ n := by
        calc n / c * (c - 1) ≤ n / c * c := Nat.mul_le_mul_left _ (by omega)
          _ ≤ n := Nat.div_mul_le_self _ _
      rw [Nat.add_mul]; omega
  have h1 := key d.cycles (d.base * (n - 1))
  have h2 : d.base * (n - 1) ≤ d.base * n := Nat.mul_le_mul_left _ (by omega)
  rw [Nat.add_mul]; omega

theorem minBlowup_ge (d : TcDegree) : d.base + d.cycles.length ≤ d.minBlowupFactor + 1 := by
  unfold TcDegree.minBlowupFactor
  have := le_nextPow2 (d.base + d.cycles.length - 1)
  omega

theorem ceBlowupOf_ge (ds : List TcDegree) : ∀ d ∈ ds, d.minBlowupFactor ≤ ceBlowupOf ds := by
  unfold ceBlowupOf
  have key : ∀ (l : List TcDegree) (acc : Nat),
      acc ≤ l.foldl (fun acc d => if d.minBlowupFactor > acc then d.minBlowupFactor else acc) acc ∧
      ∀ d ∈ l, d.minBlowupFactor ≤
        l.foldl (fun acc d => if d.minBlowupFactor > acc then d.minBlowupFactor else acc) acc := by
    intro l
    induction l with
    | nil => intro acc; simp
    | cons x l ih =>
      intro acc
      simp only [List.foldl_cons, List.mem_cons]
      by_cases hx : x.minBlowupFactor > acc
      · simp only [hx, if_true]
        obtain ⟨h1, h2⟩ := ih x.minBlowupFactor
        refine ⟨by omega, ?_⟩
        rintro d (rfl | hd)
        · exact h1
        · exact h2 d hd
      · simp only [hx, if_false]
        obtain ⟨h1, h2⟩ := ih acc
        refine ⟨h1, ?_⟩
        rintro d (rfl | hd)
        · omega
        · exact h2 d hd
  exact fun d hd => (key ds 0).2 d hd

theorem maxEvalDegree_le (c : Ctx) (b : Nat) (h : ∀ d ∈ c.degrees, d.getEvaluationDegree c.traceLen ≤ b) :
    c.maxEvalDegree ≤ b := by
  unfold Ctx.maxEvalDegree
  have key : ∀ (l : List TcDegree) (acc : Nat), acc ≤ b → (∀ d ∈ l, d.getEvaluationDegree c.traceLen ≤ b) →
      l.foldl (fun hi d => if d.getEvaluationDegree c.traceLen > hi then d.getEvaluationDegree c.traceLen else hi) acc ≤ b := by
    intro l
    induction l with
    | nil => intro acc h _; simpa using h
    | cons x l ih =>
      intro acc hacc hl
      simp only [List.foldl_cons]
      apply ih
      · split
        · exact hl x (by simp)
        · exact hacc
      · exact fun d hd => hl d (by simp [hd])
  exact key c.degrees 0 (by omega) h

theorem ctxNew_facts (n : Nat) (degs : List TcDegree) (b : Nat) (c : Ctx) (h : Ctx.new n degs b = some c) :
    c.traceLen = n ∧ c.degrees = degs ∧ c.exemptions = 1 ∧ ceBlowupOf degs ≤ b := by
  unfold Ctx.new at h
  split at h
  · cases h
  · split at h
    · cases h
    · rename_i hb
      injection h with h
      subst h
      exact ⟨rfl, rfl, rfl, by simpa using hb⟩

theorem setExempt_facts (c c' : Ctx) (e : Nat) (h : c.setNumTransitionExemptions e = .ok c') :
    c'.traceLen = c.traceLen ∧ c'.degrees = c.degrees ∧ c'.exemptions = e ∧ e ≤ c.traceLen / 2 + 1 := by
  unfold Ctx.setNumTransitionExemptions at h
  split at h
  · cases h
  · split at h
    · cases h
    · rename_i h2
      split at h
      · injection h with h
        subst h
        exact ⟨rfl, rfl, rfl, by simpa using h2⟩
      · cases h

theorem ccols_le (c : Ctx) (hdeg : ∀ d ∈ c.degrees, d.base + d.cycles.length ≤ 129) (hn : 0 < c.traceLen) :
    c.numConstraintCompositionColumns ≤ 255 := by
  have hM : c.maxEvalDegree ≤ 129 * c.traceLen := by
    apply maxEvalDegree_le
    intro d hd
    calc d.getEvaluationDegree c.traceLen ≤ (d.base + d.cycles.length) * c.traceLen := evalDegree_le d _
      _ ≤ 129 * c.traceLen := Nat.mul_le_mul_right _ (hdeg d hd)
  unfold Ctx.numConstraintCompositionColumns divCeil
  have hx : (c.maxEvalDegree - (c.traceLen - c.exemptions) + 1) / c.traceLen ≤ 130 := by
    apply Nat.div_le_of_le_mul
    have : c.maxEvalDegree - (c.traceLen - c.exemptions) + 1 ≤ 129 * c.traceLen + 1 := by omega
    have h2 : 129 * c.traceLen + 1 ≤ c.traceLen * 130 := by omega
    omega
  split <;> omega

/-- what a successful `GenAir::new` guarantees -/
theorem airNew_facts (d : Desc) (info : TraceInfo) (o : ProofOptions) (ctx : Ctx) (h : airNew d info o = some ctx)
    (hn : 8 ≤ info.length) (hb : o.blowup ≤ 128) :
    d.exemptions ≤ info.length ∧ ctx.numConstraintCompositionColumns ≤ 255 := by
  unfold airNew at h
  split at h
  · rename_i mainDeg auxDeg _ _
    repeat' (first | (cases h; done) | split at h)
    · rename_i _ c hnew _ _ c' hset
      obtain ⟨f1, f2, f3, f4⟩ := ctxNew_facts _ _ _ _ hnew
      have hdeg : ∀ dg ∈ mainDeg ++ auxDeg, dg.base + dg.cycles.length ≤ 129 := by
        intro dg hdg
        have h1 := ceBlowupOf_ge _ dg hdg
        have h2 := minBlowup_ge dg
        omega
      injection h with h
      subst h
      obtain ⟨g1, g2, g3, g4⟩ := setExempt_facts _ _ _ hset
      refine ⟨by rw [f1] at g4; omega, ccols_le _ (by rw [g2, f2]; exact hdeg) (by rw [g1, f1]; omega)⟩
    · rename_i _ c hnew he
      obtain ⟨f1, f2, f3, f4⟩ := ctxNew_facts _ _ _ _ hnew
      have hdeg : ∀ dg ∈ mainDeg ++ auxDeg, dg.base + dg.cycles.length ≤ 129 := by
        intro dg hdg
        have h1 := ceBlowupOf_ge _ dg hdg
        have h2 := minBlowup_ge dg
        omega
      injection h with h
      subst h
      have he' : d.exemptions = 1 := by simpa using he
      refine ⟨by omega, ccols_le _ (by rw [f2]; exact hdeg) (by rw [f1]; omega)⟩
  · cases h


/-! ### `evaluate_constraints` -/

theorem rootOfUnity_isSome (fp : FieldParams) (k : Nat) (h1 : 1 ≤ k) (h2 : k ≤ fp.twoAdicity) :
    ∃ w, fp.rootOfUnity k = some w := by
  unfold FieldParams.rootOfUnity
  rw [if_neg (by omega)]
  exact ⟨_, rfl⟩

theorem periodicPolys_isSome (fp : FieldParams) (ef : EF F) (d : Desc) (n : Nat)
    (h : d.periodic.all (fun col => periodicColumnOk col.length n) = true) :
    ∃ ps, periodicPolys fp ef d n = some ps := by
  unfold periodicPolys
  have key : ∀ (l : List (List Nat)), (∀ col ∈ l, periodicColumnOk col.length n = true) →
      ∃ ps, l.mapM (fun col => periodicPoly (interpE fp ef) (col.map fun v => ef.ofBase (v % fp.m)) n) = some ps := by
    intro l
    induction l with
    | nil => intro _; exact ⟨[], by simp⟩
    | cons c l ih =>
      intro hl
      obtain ⟨ps, hps⟩ := ih (fun col hc => hl col (by simp [hc]))
      have hc := hl c (by simp)
      refine ⟨interpE fp ef (c.map fun v => ef.ofBase (v % fp.m)) :: ps, ?_⟩
      have hthis : periodicPoly (interpE fp ef) (c.map fun v => ef.ofBase (v % fp.m)) n =
          some (interpE fp ef (c.map fun v => ef.ofBase (v % fp.m))) := by
        simp [periodicPoly, hc]
      rw [List.mapM_cons, hthis, hps]
      rfl
  exact key d.periodic (by simpa [List.all_eq_true] using h)

theorem boundaryGroups_isSome (fp : FieldParams) (ef : EF F) (d : Desc) (pub : PubInputs) (info : TraceInfo)
    (g : F) (coeffs : List F) (hfit : assertionsFit fp.m d pub info = true)
    (hc : coeffs.length = d.asserts.length) :
    ∃ gs, boundaryGroups fp ef d pub info g coeffs = some gs ∧
      ∀ gr ∈ gs, ∀ c ∈ gr.constraints, c.column < info.main := by
  unfold assertionsFit at hfit
  unfold boundaryGroups
  split at hfit
  · cases hfit
  · rename_i as has
    simp only [Bool.and_eq_true, beq_iff_eq] at hfit
    obtain ⟨hlen, hprep⟩ := hfit
    split at hprep
    · rename_i sorted hsorted
      obtain ⟨gs, hgs, hbel⟩ := groupConstraints_below ef.ops (fexp ef.ops) ef.ofBase (interpE fp ef) g
        (ef.ops.inv g) info.length info.main sorted coeffs []
        (prepareAssertions_valid as sorted hsorted) (by intro kg hkg; simp at hkg)
      refine ⟨gs, ?_, hbel⟩
      simp only [boundaryConstraintsNew, hlen, bne_self_eq_false, Bool.false_eq_true, if_false, hc,
        hsorted, hgs]
    · cases hprep

theorem evaluateConstraints_noabort (fp : FieldParams) (ef : EF F) (d : Desc) (pub : PubInputs)
    (info : TraceInfo) (tcoef bcoef cur next : List F) (z : F) (s : AbortSite)
    (hroot : ∃ w, fp.rootOfUnity info.length.log2 = some w)
    (htc : d.trans.length + d.auxTrans.length = tcoef.length)
    (he : d.exemptions ≤ info.length)
    (hper : d.periodic.all (fun col => periodicColumnOk col.length info.length) = true)
    (hfit : assertionsFit fp.m d pub info = true)
    (hbc : bcoef.length = d.asserts.length)
    (hcur : info.main ≤ cur.length) :
    evaluateConstraints fp ef d pub info tcoef bcoef cur next z ≠ .error (.abort s) := by
  obtain ⟨w, hw⟩ := hroot
  obtain ⟨ps, hps⟩ := periodicPolys_isSome fp ef d info.length hper
  obtain ⟨gs, hgs, hbel⟩ := boundaryGroups_isSome fp ef d pub info (ef.ofBase w) bcoef hfit hbc
  unfold evaluateConstraints
  rw [hw]
  simp only []
  rw [if_neg (by omega)]
  unfold fromTransition
  rw [if_neg (by omega)]
  simp only [hps, hgs]
  have hlen : (cur.take info.main).length = info.main := by simp [List.length_take]; omega
  obtain ⟨r, hr⟩ := addBoundary_isSome ef.ops (cur.take info.main) z gs
    (combineTransition ef.ops
      (d.trans.map fun t => evalEx ef fp.m (cur.take info.main) (next.take info.main)
        (ps.map fun poly => periodicEvalAt ef.ops (fexp ef.ops) poly info.length z) t.ex)
      (tcoef.take d.trans.length)
      { numerator := [(info.length, ef.ops.one)],
        exemptions := (List.range d.exemptions).map fun i =>
          traceDomainValueAt (fexp ef.ops) (ef.ofBase w) (info.length - d.exemptions + i) } z)
    (by rw [hlen]; exact hbel)
  rw [hr]
  simp

end Wf.Verifier
