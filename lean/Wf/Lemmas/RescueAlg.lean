/-
C16 helper lemmas, algebra part: the reference / code permutations of `Wf.Model.Rescue` over related
`FieldOps` instances compute related states (`OpsRel`), the power recursion is `x ^ n`, the translated
s-box chains are the documented powers in any commutative ring.
-/
import Wf.Model.Rescue
import Wf.Lemmas.RingOps
import Mathlib.Data.ZMod.Basic
namespace Wf.Rescue
open Wf.Gen

/-! ## relational parametricity, by hand -/

/-- `R` relates the carriers of two `FieldOps` instances and is respected by the operations that the
Rescue code uses -/
structure OpsRel {F G : Type} (o1 : FieldOps F) (o2 : FieldOps G) (R : F → G → Prop) : Prop where
  zero : R o1.zero o2.zero
  one : R o1.one o2.one
  add : ∀ {a b x y}, R a x → R b y → R (o1.add a b) (o2.add x y)
  sub : ∀ {a b x y}, R a x → R b y → R (o1.sub a b) (o2.sub x y)
  mul : ∀ {a b x y}, R a x → R b y → R (o1.mul a b) (o2.mul x y)
  square : ∀ {a x}, R a x → R (o1.square a) (o2.square x)
  /-- literals are `u64` (`BaseElement::new(lit)`) -/
  ofNat : ∀ n, n < 2 ^ 64 → R (o1.ofNat n) (o2.ofNat n)

/-- all entries of a constant table are `u64` literals -/
def rowOk (r : List Nat) : Prop := ∀ c ∈ r, c < 2 ^ 64
def tableOk (t : List (List Nat)) : Prop := ∀ r ∈ t, rowOk r
structure Params.Ok (P : Params) : Prop where
  mds : tableOk P.mds
  ark1 : tableOk P.ark1
  ark2 : tableOk P.ark2

instance (r : List Nat) : Decidable (rowOk r) := by unfold rowOk; infer_instance
instance (t : List (List Nat)) : Decidable (tableOk t) := by unfold tableOk; infer_instance

theorem rowOk_getD (t : List (List Nat)) (ht : tableOk t) (i : Nat) : rowOk (t.getD i []) := by
  rw [List.getD_eq_getElem?_getD]
  cases h : t[i]? with
  | none => intro c hc; simp at hc
  | some r => exact ht r (List.mem_of_getElem? h)

section rel
variable {F G : Type} {o1 : FieldOps F} {o2 : FieldOps G} {R : F → G → Prop}

theorem powF_rel (h : OpsRel o1 o2 R) : ∀ (f : Nat) {b y} (n : Nat), R b y → R (powF o1 f b n) (powF o2 f y n)
  | 0, _, _, _, _ => h.one
  | f + 1, b, y, n, hb => by
    simp only [powF]
    split
    · exact h.one
    · split
      · exact h.mul hb (powF_rel h f _ (h.mul hb hb))
      · exact powF_rel h f _ (h.mul hb hb)

theorem pow_rel (h : OpsRel o1 o2 R) {b y} (n : Nat) (hb : R b y) : R (pow o1 b n) (pow o2 y n) :=
  powF_rel h 64 n hb

theorem foldl_add_rel (h : OpsRel o1 o2 R) {xs ys} (hxs : List.Forall₂ R xs ys) : ∀ {a c}, R a c →
    R (xs.foldl o1.add a) (ys.foldl o2.add c) := by
  induction hxs with
  | nil => intro a c ha; exact ha
  | cons hx _ ih => intro a c ha; exact ih (h.add ha hx)

theorem zipWith_rel {f : F → F → F} {g : G → G → G} (hf : ∀ {a b x y}, R a x → R b y → R (f a b) (g x y)) :
    ∀ {as bs xs ys}, List.Forall₂ R as xs → List.Forall₂ R bs ys →
    List.Forall₂ R (List.zipWith f as bs) (List.zipWith g xs ys)
  | _, _, _, _, .nil, _ => by simp
  | _, _, _, _, .cons _ _, .nil => by simp
  | _, _, _, _, .cons h1 t1, .cons h2 t2 => by
    simp only [List.zipWith_cons_cons]
    exact .cons (hf h1 h2) (zipWith_rel hf t1 t2)

theorem dot_rel (h : OpsRel o1 o2 R) {row v row' v'} (hr : List.Forall₂ R row row') (hv : List.Forall₂ R v v') :
    R (dot o1 row v) (dot o2 row' v') :=
  foldl_add_rel h (zipWith_rel h.mul hr hv) h.zero

theorem map_rel {f : F → F} {g : G → G} (hf : ∀ {a x}, R a x → R (f a) (g x)) :
    ∀ {as xs}, List.Forall₂ R as xs → List.Forall₂ R (as.map f) (xs.map g)
  | _, _, .nil => .nil
  | _, _, .cons h t => .cons (hf h) (map_rel hf t)

theorem ofNat_row_rel (h : OpsRel o1 o2 R) : ∀ (r : List Nat), rowOk r → List.Forall₂ R (r.map o1.ofNat) (r.map o2.ofNat)
  | [], _ => .nil
  | c :: r, hr => .cons (h.ofNat c (hr c (by simp))) (ofNat_row_rel h r (fun d hd => hr d (by simp [hd])))

theorem rowOf_rel (h : OpsRel o1 o2 R) (t : List (List Nat)) (ht : tableOk t) (i : Nat) :
    List.Forall₂ R (rowOf o1 t i) (rowOf o2 t i) :=
  ofNat_row_rel h _ (rowOk_getD t ht i)

theorem matVec_table_rel (h : OpsRel o1 o2 R) {v v'} (hv : List.Forall₂ R v v') : ∀ (t : List (List Nat)), tableOk t →
    List.Forall₂ R (matVec o1 (tableOf o1 t) v) (matVec o2 (tableOf o2 t) v')
  | [], _ => .nil
  | r :: t, ht => by
    simp only [matVec, tableOf, List.map_cons]
    exact .cons (dot_rel h (ofNat_row_rel h r (ht r (by simp))) hv)
      (matVec_table_rel h hv t (fun r' hr' => ht r' (by simp [hr'])))

theorem addVec_rel (h : OpsRel o1 o2 R) {a b x y} (ha : List.Forall₂ R a x) (hb : List.Forall₂ R b y) :
    List.Forall₂ R (addVec o1 a b) (addVec o2 x y) :=
  zipWith_rel h.add ha hb

theorem refHalf_rel (h : OpsRel o1 o2 R) (mds : List (List Nat)) (hm : tableOk mds) (e : Nat) {ark ark' st st'}
    (hk : List.Forall₂ R ark ark') (hs : List.Forall₂ R st st') :
    List.Forall₂ R (refHalf o1 mds e ark st) (refHalf o2 mds e ark' st') :=
  addVec_rel h (matVec_table_rel h (map_rel (fun hx => pow_rel h e hx) hs) mds hm) hk

theorem refRound_rel (h : OpsRel o1 o2 R) (P : Params) (hP : P.Ok) {st st'} (hs : List.Forall₂ R st st') (i : Nat) :
    List.Forall₂ R (refRound o1 P st i) (refRound o2 P st' i) :=
  refHalf_rel h _ hP.mds _ (rowOf_rel h _ hP.ark2 _) (refHalf_rel h _ hP.mds _ (rowOf_rel h _ hP.ark1 _) hs)

theorem foldl_rel {α : Type} {f : List F → α → List F} {g : List G → α → List G}
    (hfg : ∀ {s s'} (i : α), List.Forall₂ R s s' → List.Forall₂ R (f s i) (g s' i)) :
    ∀ (is : List α) {s s'}, List.Forall₂ R s s' → List.Forall₂ R (is.foldl f s) (is.foldl g s')
  | [], _, _, hs => hs
  | i :: is, _, _, hs => foldl_rel hfg is (hfg i hs)

theorem refPerm_rel (h : OpsRel o1 o2 R) (P : Params) (hP : P.Ok) {st st'} (hs : List.Forall₂ R st st') :
    List.Forall₂ R (refPerm o1 P st) (refPerm o2 P st') :=
  foldl_rel (f := refRound o1 P) (g := refRound o2 P) (fun i hs => refRound_rel h P hP hs i) _ hs

theorem codeHalf_rel (h : OpsRel o1 o2 R) {sb : F → F} {sb' : G → G} {lin : List F → List F} {lin' : List G → List G}
    (hsb : ∀ {a x}, R a x → R (sb a) (sb' x))
    (hlin : ∀ {s s'}, List.Forall₂ R s s' → List.Forall₂ R (lin s) (lin' s'))
    {ark ark' st st'} (hk : List.Forall₂ R ark ark') (hs : List.Forall₂ R st st') :
    List.Forall₂ R (codeHalf o1 sb lin ark st) (codeHalf o2 sb' lin' ark' st') :=
  addVec_rel h (hlin (map_rel hsb hs)) hk

theorem codeRound_rel (h : OpsRel o1 o2 R) (P : Params) (hP : P.Ok) {sb isb : F → F} {sb' isb' : G → G}
    {lin : List F → List F} {lin' : List G → List G}
    (hsb : ∀ {a x}, R a x → R (sb a) (sb' x)) (hisb : ∀ {a x}, R a x → R (isb a) (isb' x))
    (hlin : ∀ {s s'}, List.Forall₂ R s s' → List.Forall₂ R (lin s) (lin' s'))
    {st st'} (hs : List.Forall₂ R st st') (i : Nat) :
    List.Forall₂ R (codeRound o1 P sb isb lin st i) (codeRound o2 P sb' isb' lin' st' i) :=
  codeHalf_rel h hisb hlin (rowOf_rel h _ hP.ark2 _) (codeHalf_rel h hsb hlin (rowOf_rel h _ hP.ark1 _) hs)

theorem codePerm_rel (h : OpsRel o1 o2 R) (P : Params) (hP : P.Ok) {sb isb : F → F} {sb' isb' : G → G}
    {lin : List F → List F} {lin' : List G → List G}
    (hsb : ∀ {a x}, R a x → R (sb a) (sb' x)) (hisb : ∀ {a x}, R a x → R (isb a) (isb' x))
    (hlin : ∀ {s s'}, List.Forall₂ R s s' → List.Forall₂ R (lin s) (lin' s'))
    {st st'} (hs : List.Forall₂ R st st') :
    List.Forall₂ R (codePerm o1 P sb isb lin st) (codePerm o2 P sb' isb' lin' st') :=
  foldl_rel (f := codeRound o1 P sb isb lin) (g := codeRound o2 P sb' isb' lin')
    (fun i hs => codeRound_rel h P hP hsb hisb hlin hs i) _ hs

/-! ### the translated chains respect the relation -/

theorem repeat_rel {f : F → F} {g : G → G} (hf : ∀ {a x}, R a x → R (f a) (g x)) :
    ∀ (n : Nat) {a x}, R a x → R (Nat.repeat f n a) (Nat.repeat g n x)
  | 0, _, _, h => h
  | n + 1, _, _, h => hf (repeat_rel hf n h)

theorem exp_acc_rel (h : OpsRel o1 o2 R) (n : Nat) {a b x y} (ha : R a x) (hb : R b y) :
    R (RescueChains.exp_acc o1 n a b) (RescueChains.exp_acc o2 n x y) :=
  h.mul (repeat_rel h.square n ha) hb

theorem exp7_rel (h : OpsRel o1 o2 R) {a x} (ha : R a x) : R (F64.exp7 o1 a) (F64.exp7 o2 x) :=
  h.mul (h.mul (h.square ha) ha) (h.square (h.square ha))

theorem rp64InvSbox_rel (h : OpsRel o1 o2 R) {a x} (ha : R a x) :
    R (RescueChains.rp64InvSbox o1 a) (RescueChains.rp64InvSbox o2 x) := by
  have t1 := h.square ha
  have t2 := h.square t1
  have t3 := exp_acc_rel h 3 t2 t2
  have t4 := exp_acc_rel h 6 t3 t3
  have t5 := exp_acc_rel h 12 t4 t4
  have t6 := exp_acc_rel h 6 t5 t3
  have t7 := exp_acc_rel h 31 t6 t6
  exact h.mul (h.square (h.square (h.mul (h.square t7) t6))) (h.mul (h.mul t1 t2) ha)

theorem jiveInvSbox_rel (h : OpsRel o1 o2 R) {a x} (ha : R a x) :
    R (RescueChains.jiveInvSbox o1 a) (RescueChains.jiveInvSbox o2 x) := by
  have t1 := h.square ha
  have t2 := h.square t1
  have t3 := exp_acc_rel h 3 t2 t2
  have t4 := exp_acc_rel h 6 t3 t3
  have t5 := exp_acc_rel h 12 t4 t4
  have t6 := exp_acc_rel h 6 t5 t3
  have t7 := exp_acc_rel h 31 t6 t6
  exact h.mul (h.square (h.square (h.mul (h.square t7) t6))) (h.mul (h.mul t1 t2) ha)

theorem rp62InvSbox_rel (h : OpsRel o1 o2 R) {a x} (ha : R a x) :
    R (RescueChains.rp62InvSbox o1 a) (RescueChains.rp62InvSbox o2 x) := by
  have t1 := h.square ha
  have t2 := exp_acc_rel h 2 t1 t1
  have t4 := exp_acc_rel h 4 t2 t2
  have t8 := exp_acc_rel h 8 t4 t4
  have a1 := exp_acc_rel h 7 t8 t2
  have a2 := exp_acc_rel h 15 a1 t8
  have a3 := exp_acc_rel h 16 a2 t8
  have a4 := exp_acc_rel h 8 a3 t4
  exact h.mul ha a4

theorem rp62Sbox_rel (h : OpsRel o1 o2 R) {a x} (ha : R a x) :
    R (RescueChains.rp62Sbox o1 a) (RescueChains.rp62Sbox o2 x) :=
  h.mul (h.mul ha ha) ha

end rel

/-! ## powers and chains in a commutative ring -/

section ring
variable {K : Type} [CommRing K] [DecidableEq K] (inv : K → K)

theorem powF_ring : ∀ (f : Nat) (b : K) (n : Nat), n < 2 ^ f → powF (ringOps K inv) f b n = b ^ n
  | 0, b, n, hn => by
    have : n = 0 := by omega
    simp [powF, ringOps, this]
  | f + 1, b, n, hn => by
    simp only [powF]
    have hlt : n / 2 < 2 ^ f := by
      rw [Nat.div_lt_iff_lt_mul (by decide)]; rw [Nat.pow_succ] at hn; exact hn
    rw [powF_ring f _ _ hlt]
    have hmul : (ringOps K inv).mul b b = b * b := rfl
    have hmul' : ∀ x y : K, (ringOps K inv).mul x y = x * y := fun _ _ => rfl
    have hone : (ringOps K inv).one = (1 : K) := rfl
    rw [hmul, hone]
    by_cases h0 : n = 0
    · simp [h0]
    · simp only [h0, if_false]
      have hsq : (b * b) ^ (n / 2) = b ^ (2 * (n / 2)) := by rw [← pow_two, ← pow_mul]
      by_cases h1 : n % 2 = 1
      · simp only [h1, if_true, hmul', hsq]
        rw [← pow_succ']
        congr 1; omega
      · simp only [h1, if_false, hsq]
        congr 1; omega

theorem pow_ring (x : K) (n : Nat) (hn : n < 2 ^ 64) : pow (ringOps K inv) x n = x ^ n := powF_ring inv 64 x n hn

theorem exp_acc_ring (n : Nat) (base tail : K) :
    RescueChains.exp_acc (ringOps K inv) n base tail = base ^ (2 ^ n) * tail := by
  simp only [RescueChains.exp_acc, ringOps]
  rw [repeat_square]

theorem exp7_ring (x : K) : F64.exp7 (ringOps K inv) x = x ^ 7 := by
  simp only [F64.exp7, ringOps]; ring

/-- (ii) the 72-multiplication addition chain of `Rp64_256::apply_inv_sbox` is x ↦ x^INV_ALPHA -/
theorem rp64InvSbox_ring (x : K) : RescueChains.rp64InvSbox (ringOps K inv) x = x ^ RescueConsts.Rp64.INV_ALPHA := by
  simp only [RescueChains.rp64InvSbox, exp_acc_ring, RescueConsts.Rp64.INV_ALPHA]
  simp only [ringOps]
  ring

theorem jiveInvSbox_ring (x : K) : RescueChains.jiveInvSbox (ringOps K inv) x = x ^ RescueConsts.Jive.INV_ALPHA := by
  simp only [RescueChains.jiveInvSbox, exp_acc_ring, RescueConsts.Jive.INV_ALPHA]
  simp only [ringOps]
  ring

/-- the 69-multiplication chain of `rp62_248::apply_inv_sbox` -/
theorem rp62InvSbox_ring (x : K) : RescueChains.rp62InvSbox (ringOps K inv) x = x ^ RescueConsts.Rp62.INV_ALPHA := by
  simp only [RescueChains.rp62InvSbox, exp_acc_ring, RescueConsts.Rp62.INV_ALPHA]
  simp only [ringOps]
  ring

theorem rp62Sbox_ring (x : K) : RescueChains.rp62Sbox (ringOps K inv) x = x ^ RescueConsts.Rp62.ALPHA := by
  simp only [RescueChains.rp62Sbox, RescueConsts.Rp62.ALPHA, ringOps]; ring

end ring

end Wf.Rescue
