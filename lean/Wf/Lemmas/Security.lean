/-
Helper lemmas for C25 (security estimates): the u32 operations of `conjectured` stay in range on
valid inputs, closed form `conjBits`, monotonicity of the closed form, `num_modulus_bits` facts,
`max_by_key` and the min/max skeleton of `ProvenSecurity::compute`.  Core Lean only.
-/
import Wf.Model.Security
import Wf.Lemmas.Serde
namespace Wf.Security
open Wf

/-! ## u32 operations -/

theorem u32op_inrange (m : Mode) {e : Int} (h0 : 0 ≤ e) (h1 : e < 4294967296) :
    u32op m e = some e.toNat := by
  unfold u32op
  rw [if_pos ⟨h0, h1⟩]

theorem u32op_nat (m : Mode) (n : Nat) (h : n < 4294967296) : u32op m (n : Int) = some n := by
  rw [u32op_inrange m (by omega) (by omega), Int.toNat_natCast]

theorem u32op_checked_neg {e : Int} (h : e < 0) : u32op .checked e = none := by
  unfold u32op
  rw [if_neg (by omega)]

theorem u32op_release_minus_one : u32op .release (-1) = some 4294967295 := by decide

/-! ## valid options -/

theorem log2_blowup_bounds {o : ProofOptions} (hv : o.Valid) : 1 ≤ o.blowup.log2 ∧ o.blowup.log2 ≤ 7 := by
  obtain ⟨_, _, _, h2, h128, _⟩ := hv
  have hne : o.blowup ≠ 0 := by omega
  constructor
  · exact (Nat.le_log2 hne).2 (by simpa using h2)
  · have : o.blowup.log2 < 8 := (Nat.log2_lt hne).2 (by omega)
    omega

theorem valid_ext {o : ProofOptions} (hv : o.Valid) : o.ext = 1 ∨ o.ext = 2 ∨ o.ext = 3 := hv.2.2.2.2.2.2.1
theorem valid_queries {o : ProofOptions} (hv : o.Valid) : 1 ≤ o.queries ∧ o.queries ≤ 255 := ⟨hv.1, hv.2.1⟩
theorem valid_grinding {o : ProofOptions} (hv : o.Valid) : o.grinding ≤ 32 := hv.2.2.2.2.2.1
theorem valid_blowup {o : ProofOptions} (hv : o.Valid) : 2 ≤ o.blowup ∧ o.blowup ≤ 128 := ⟨hv.2.2.2.1, hv.2.2.2.2.1⟩

/-- `log2(blowup) * queries` is between 1 and 7·255 -/
theorem raw_query_bounds {o : ProofOptions} (hv : o.Valid) :
    1 ≤ o.blowup.log2 * o.queries ∧ o.blowup.log2 * o.queries ≤ 1785 := by
  obtain ⟨hl1, hl7⟩ := log2_blowup_bounds hv
  obtain ⟨hq1, hq255⟩ := valid_queries hv
  constructor
  · exact Nat.mul_le_mul hl1 hq1
  · exact Nat.mul_le_mul hl7 hq255

theorem querySecurity_bounds {o : ProofOptions} (hv : o.Valid) :
    1 ≤ querySecurity o ∧ querySecurity o ≤ 1817 := by
  obtain ⟨h1, h2⟩ := raw_query_bounds hv
  have hg := valid_grinding hv
  unfold querySecurity GRINDING_CONTRIBUTION_FLOOR
  split <;> omega

/-! ## the closed form of `ConjecturedSecurity::compute` -/

/-- With constructor-valid options and a field of 1..2040 modulus bits (what a non-zero modulus of
at most 255 bytes – the most the wire format can carry – can have) no u32 operation leaves its range: both build modes return the closed
form. -/
theorem conjectured_eq_conjBits (m : Mode) {o : ProofOptions} (hv : o.Valid) {bits : Nat} (cr : Nat)
    (hb1 : 1 ≤ bits) (hb2 : bits ≤ 2040) : conjectured m o bits cr = some (conjBits o bits cr) := by
  obtain ⟨hr1, hr2⟩ := raw_query_bounds hv
  have hg := valid_grinding hv
  have hbl := (valid_blowup hv).1
  have hext := valid_ext hv
  have hF1 : 1 ≤ bits * o.ext := by rcases hext with h | h | h <;> rw [h] <;> omega
  have hF2 : bits * o.ext < 4294967296 := by rcases hext with h | h | h <;> rw [h] <;> omega
  unfold conjectured
  rw [if_neg (by omega)]
  rw [← Int.natCast_mul, u32op_nat m _ hF2, Option.bind_some]
  rw [← Int.natCast_mul, u32op_nat m _ (by omega), Option.bind_some]
  have hq : (if o.blowup.log2 * o.queries ≥ GRINDING_CONTRIBUTION_FLOOR
        then u32op m ((o.blowup.log2 * o.queries : Nat) + (o.grinding : Int))
        else some (o.blowup.log2 * o.queries)) = some (querySecurity o) := by
    unfold querySecurity
    split
    · have : ((o.blowup.log2 * o.queries : Nat) : Int) + (o.grinding : Int)
          = ((o.blowup.log2 * o.queries + o.grinding : Nat) : Int) := by omega
      rw [this, u32op_nat m _ (by omega)]
    · rfl
  rw [hq, Option.bind_some]
  obtain ⟨hQ1, hQ2⟩ := querySecurity_bounds hv
  have hmin : 1 ≤ min (bits * o.ext) (querySecurity o) := by omega
  have : ((min (bits * o.ext) (querySecurity o) : Nat) : Int) - 1
      = ((min (bits * o.ext) (querySecurity o) - 1 : Nat) : Int) := by omega
  rw [this, u32op_nat m _ (by omega), Option.bind_some]
  rfl

/-- The one way out of the u32 range: a field of 0 modulus bits.  `min(0, _) - 1` panics with
overflow checks … -/
theorem conjectured_checked_zero_bits {o : ProofOptions} (hv : o.Valid) (cr : Nat) :
    conjectured .checked o 0 cr = none := by
  obtain ⟨hr1, hr2⟩ := raw_query_bounds hv
  have hg := valid_grinding hv
  have hbl := (valid_blowup hv).1
  have hq : (if o.blowup.log2 * o.queries ≥ GRINDING_CONTRIBUTION_FLOOR
        then u32op .checked ((o.blowup.log2 * o.queries : Nat) + (o.grinding : Int))
        else some (o.blowup.log2 * o.queries)) = some (querySecurity o) := by
    unfold querySecurity
    split
    · have : ((o.blowup.log2 * o.queries : Nat) : Int) + (o.grinding : Int)
          = ((o.blowup.log2 * o.queries + o.grinding : Nat) : Int) := by omega
      rw [this, u32op_nat _ _ (by omega)]
    · rfl
  have h0 : u32op .checked (((0 : Nat) : Int) * (o.ext : Int)) = some 0 := by
    rw [← Int.natCast_mul, u32op_nat _ _ (by omega)]
    simp
  have hmin : ((min 0 (querySecurity o) : Nat) : Int) - 1 = -1 := by
    rw [Nat.zero_min]; rfl
  unfold conjectured
  rw [if_neg (by omega), h0, Option.bind_some, ← Int.natCast_mul, u32op_nat _ _ (by omega),
    Option.bind_some, hq, Option.bind_some, hmin, u32op_checked_neg (by omega)]
  rfl

/-- … and wraps to `u32::MAX` without, so the result is the collision resistance. -/
theorem conjectured_release_zero_bits {o : ProofOptions} (hv : o.Valid) (cr : Nat) (hcr : cr < 4294967296) :
    conjectured .release o 0 cr = some cr := by
  obtain ⟨hr1, hr2⟩ := raw_query_bounds hv
  have hg := valid_grinding hv
  have hbl := (valid_blowup hv).1
  have hq : (if o.blowup.log2 * o.queries ≥ GRINDING_CONTRIBUTION_FLOOR
        then u32op .release ((o.blowup.log2 * o.queries : Nat) + (o.grinding : Int))
        else some (o.blowup.log2 * o.queries)) = some (querySecurity o) := by
    unfold querySecurity
    split
    · have : ((o.blowup.log2 * o.queries : Nat) : Int) + (o.grinding : Int)
          = ((o.blowup.log2 * o.queries + o.grinding : Nat) : Int) := by omega
      rw [this, u32op_nat _ _ (by omega)]
    · rfl
  have h0 : u32op .release (((0 : Nat) : Int) * (o.ext : Int)) = some 0 := by
    rw [← Int.natCast_mul, u32op_nat _ _ (by omega)]
    simp
  have hmin : ((min 0 (querySecurity o) : Nat) : Int) - 1 = -1 := by
    rw [Nat.zero_min]; rfl
  unfold conjectured
  rw [if_neg (by omega), h0, Option.bind_some, ← Int.natCast_mul, u32op_nat _ _ (by omega),
    Option.bind_some, hq, Option.bind_some, hmin, u32op_release_minus_one, Option.bind_some]
  rw [Nat.min_eq_right (by omega)]

/-! ## bounds and monotonicity of the closed form -/

theorem conjBits_le_cr (o : ProofOptions) (bits cr : Nat) : conjBits o bits cr ≤ cr :=
  Nat.min_le_right _ _

theorem conjBits_lt_field (o : ProofOptions) (bits cr : Nat) (h : 1 ≤ bits * o.ext) :
    conjBits o bits cr < bits * o.ext := by
  unfold conjBits
  omega

/-- the grinding-floor step is monotone in the raw query security -/
theorem floor_step_mono {a a' g g' : Nat} (ha : a ≤ a') (hg : g ≤ g') :
    (if a ≥ GRINDING_CONTRIBUTION_FLOOR then a + g else a) ≤
      (if a' ≥ GRINDING_CONTRIBUTION_FLOOR then a' + g' else a') := by
  unfold GRINDING_CONTRIBUTION_FLOOR
  split <;> split <;> omega

theorem querySecurity_mono {o o' : ProofOptions} (hb : o.blowup = o'.blowup)
    (hq : o.queries ≤ o'.queries) (hg : o.grinding ≤ o'.grinding) :
    querySecurity o ≤ querySecurity o' := by
  unfold querySecurity
  rw [← hb]
  exact floor_step_mono (Nat.mul_le_mul_left _ hq) hg

/-- `conjBits` is monotone in queries, grinding factor, extension degree, field bits and collision
resistance simultaneously (blowup fixed) -/
theorem conjBits_mono {o o' : ProofOptions} {bits bits' cr cr' : Nat} (hb : o.blowup = o'.blowup)
    (hq : o.queries ≤ o'.queries) (hg : o.grinding ≤ o'.grinding) (he : o.ext ≤ o'.ext)
    (hbits : bits ≤ bits') (hcr : cr ≤ cr') : conjBits o bits cr ≤ conjBits o' bits' cr' := by
  have h1 := querySecurity_mono hb hq hg
  have h2 : bits * o.ext ≤ bits' * o'.ext := Nat.mul_le_mul hbits he
  unfold conjBits
  omega

/-! ## Context::num_modulus_bits -/

theorem numModulusBitsAux_le (l : List UInt8) (n : Nat) : numModulusBitsAux l n ≤ n := by
  induction l generalizing n with
  | nil => exact Nat.zero_le _
  | cons b rest ih =>
    unfold numModulusBitsAux
    split
    · omega
    · exact Nat.le_trans (ih _) (by omega)

theorem numModulusBits_le (m : Bytes) : numModulusBits m ≤ 8 * m.length := by
  unfold numModulusBits
  have := numModulusBitsAux_le m.reverse (m.length * 8)
  omega

theorem numModulusBitsAux_eq_zero_iff (l : List UInt8) (n : Nat) (hn : 8 * l.length ≤ n) :
    numModulusBitsAux l n = 0 ↔ ∀ b ∈ l, b = 0 := by
  induction l generalizing n with
  | nil => simp [numModulusBitsAux]
  | cons b rest ih =>
    unfold numModulusBitsAux
    have hl : 8 * rest.length + 8 ≤ n := by simpa [Nat.mul_add] using hn
    by_cases hb : b = 0
    · rw [if_neg (by simpa using hb), ih (n - 8) (by omega)]
      simp [hb]
    · rw [if_pos hb]
      constructor
      · intro h; omega
      · intro h; exact absurd (h b (List.mem_cons_self ..)) hb

/-- `num_modulus_bits` is 0 exactly for an all-zero byte string -/
theorem numModulusBits_eq_zero_iff (m : Bytes) : numModulusBits m = 0 ↔ ∀ b ∈ m, b = 0 := by
  unfold numModulusBits
  rw [numModulusBitsAux_eq_zero_iff _ _ (by simp; omega)]
  simp

theorem fromLe_append' (a b : Bytes) : fromLe (a ++ b) = fromLe a + 256 ^ a.length * fromLe b := by
  induction a with
  | nil => simp [fromLe]
  | cons x xs ih =>
    simp only [List.cons_append, fromLe, ih, List.length_cons, Nat.pow_succ]
    rw [Nat.mul_add, Nat.add_assoc, Nat.mul_comm (256 ^ xs.length) 256, Nat.mul_assoc]

/-- bit length of a natural number -/
def bitLen (v : Nat) : Nat := if v = 0 then 0 else v.log2 + 1

theorem bitLen_shift (x P b : Nat) (k : Nat) (hP : P = 2 ^ k) (hx : x < P) (hb : b ≠ 0) :
    (x + P * b).log2 = k + b.log2 := by
  have hne : x + P * b ≠ 0 := by
    have : 0 < P * b := Nat.mul_pos (by omega) (by omega)
    omega
  rw [Nat.log2_eq_iff hne]
  have h1 : 2 ^ b.log2 ≤ b := Nat.log2_self_le hb
  have h2 : b < 2 ^ (b.log2 + 1) := Nat.lt_log2_self
  constructor
  · rw [Nat.pow_add, ← hP]
    have := Nat.mul_le_mul_left P h1
    omega
  · rw [Nat.add_assoc, Nat.pow_add, ← hP]
    have : P * (b + 1) ≤ P * 2 ^ (b.log2 + 1) := Nat.mul_le_mul_left P (by omega)
    rw [Nat.mul_add] at this
    omega

theorem numModulusBitsAux_spec (l : List UInt8) :
    numModulusBitsAux l (8 * l.length) = bitLen (fromLe l.reverse) := by
  induction l with
  | nil => simp [numModulusBitsAux, bitLen, fromLe]
  | cons b rest ih =>
    unfold numModulusBitsAux
    rw [List.reverse_cons, fromLe_append']
    simp only [fromLe, List.length_reverse, Nat.mul_zero, Nat.add_zero, List.length_cons]
    by_cases hb : b = 0
    · rw [if_neg (by simpa using hb)]
      have : 8 * (rest.length + 1) - 8 = 8 * rest.length := by omega
      rw [this, ih, hb]
      simp
    · rw [if_pos hb]
      have hbn : b.toNat ≠ 0 := by
        intro h; apply hb; exact UInt8.toNat_inj.1 (by simpa using h)
      have hlt : b.toNat < 256 := b.toNat_lt
      have hlog : b.toNat.log2 < 8 := (Nat.log2_lt hbn).2 (by simpa using hlt)
      have hx := fromLe_lt rest.reverse
      rw [List.length_reverse] at hx
      have hP : 256 ^ rest.length = 2 ^ (8 * rest.length) := by
        rw [Nat.pow_mul]
      have hne : fromLe rest.reverse + 256 ^ rest.length * b.toNat ≠ 0 := by
        have : 0 < 256 ^ rest.length * b.toNat := Nat.mul_pos (Nat.pow_pos (by omega)) (by omega)
        omega
      unfold bitLen
      rw [if_neg hne, bitLen_shift _ _ _ _ hP hx hbn]
      omega

/-- `Context::num_modulus_bits` is the bit length of the little-endian modulus value -/
theorem numModulusBits_spec (m : Bytes) : numModulusBits m = bitLen (fromLe m) := by
  unfold numModulusBits
  have := numModulusBitsAux_spec m.reverse
  rw [List.length_reverse, List.reverse_reverse] at this
  rw [Nat.mul_comm]
  exact this
/-! ## max_by_key and the skeleton of ProvenSecurity::compute -/

theorem foldl_maxBy_spec (key : Nat → Nat) (xs : List Nat) (x : Nat) :
    let r := xs.foldl (fun best y => if key y ≥ key best then y else best) x
    (r = x ∨ r ∈ xs) ∧ key x ≤ key r ∧ ∀ y ∈ xs, key y ≤ key r := by
  induction xs generalizing x with
  | nil => simp
  | cons y ys ih =>
    simp only [List.foldl_cons]
    by_cases h : key y ≥ key x
    · rw [if_pos h]
      obtain ⟨hm, hx, hall⟩ := ih y
      refine ⟨?_, Nat.le_trans h hx, ?_⟩
      · rcases hm with hm | hm
        · exact Or.inr (by rw [hm]; exact List.mem_cons_self ..)
        · exact Or.inr (List.mem_cons_of_mem _ hm)
      · intro z hz
        rcases List.mem_cons.1 hz with rfl | hz
        · exact hx
        · exact hall z hz
    · rw [if_neg h]
      obtain ⟨hm, hx, hall⟩ := ih x
      refine ⟨?_, hx, ?_⟩
      · rcases hm with hm | hm
        · exact Or.inl hm
        · exact Or.inr (List.mem_cons_of_mem _ hm)
      · intro z hz
        rcases List.mem_cons.1 hz with rfl | hz
        · omega
        · exact hall z hz

/-- `max_by_key` returns an element of the range whose key is maximal -/
theorem maxByKey_spec {key : Nat → Nat} {ms : List Nat} {m : Nat} (h : maxByKey key ms = some m) :
    m ∈ ms ∧ ∀ x ∈ ms, key x ≤ key m := by
  cases ms with
  | nil => cases h
  | cons x xs =>
    simp only [maxByKey, Option.some.injEq] at h
    obtain ⟨hm, hx, hall⟩ := foldl_maxBy_spec key xs x
    rw [h] at hm hx hall
    refine ⟨?_, ?_⟩
    · rcases hm with hm | hm
      · rw [hm]; exact List.mem_cons_self ..
      · exact List.mem_cons_of_mem _ hm
    · intro z hz
      rcases List.mem_cons.1 hz with rfl | hz
      · exact hx
      · exact hall z hz

theorem maxByKey_eq_none_iff (key : Nat → Nat) (ms : List Nat) : maxByKey key ms = none ↔ ms = [] := by
  cases ms <;> simp [maxByKey]

theorem mRange_mem (mMax m : Nat) : m ∈ mRange mMax ↔ 3 ≤ m ∧ m < mMax := by
  unfold mRange
  simp only [List.mem_map, List.mem_range]
  constructor
  · rintro ⟨a, ha, rfl⟩; omega
  · intro h; exact ⟨m - 3, by omega, by omega⟩

theorem mRange_eq_nil_iff (mMax : Nat) : mRange mMax = [] ↔ mMax ≤ 3 := by
  unfold mRange
  simp only [List.map_eq_nil_iff, List.range_eq_nil]
  omega

/-- What `ProvenSecurity::compute` returns for ANY integer-valued estimates `fud` / `fld`:
`(min(fud, cr), min(max over m of fld m, cr))` – the maximum is attained at the returned `m`. -/
theorem provenGeneric_spec {fud : Nat} {fld : Nat → Nat} {ms : List Nat} {cr u l : Nat}
    (h : provenGeneric fud fld ms cr = some (u, l)) :
    u = min fud cr ∧ ∃ m ∈ ms, l = min (fld m) cr ∧ ∀ x ∈ ms, fld x ≤ fld m := by
  unfold provenGeneric at h
  split at h
  · cases h
  · rename_i mOpt hm
    simp only [Option.some.injEq, Prod.mk.injEq] at h
    obtain ⟨hmem, hmax⟩ := maxByKey_spec hm
    exact ⟨h.1.symm, mOpt, hmem, h.2.symm, hmax⟩

theorem provenGeneric_eq_none_iff (fud : Nat) (fld : Nat → Nat) (ms : List Nat) (cr : Nat) :
    provenGeneric fud fld ms cr = none ↔ ms = [] := by
  unfold provenGeneric
  split
  · rename_i h; simpa [maxByKey_eq_none_iff] using h
  · rename_i m h
    constructor
    · intro h'; cases h'
    · intro h'; rw [h'] at h; cases h

/-- point-wise larger estimates give larger levels (the min / max-over-m skeleton is monotone) -/
theorem provenGeneric_mono {fud fud' : Nat} {fld fld' : Nat → Nat} {ms : List Nat} {cr u l u' l' : Nat}
    (hu : fud ≤ fud') (hl : ∀ m ∈ ms, fld m ≤ fld' m)
    (h : provenGeneric fud fld ms cr = some (u, l)) (h' : provenGeneric fud' fld' ms cr = some (u', l')) :
    u ≤ u' ∧ l ≤ l' := by
  obtain ⟨hu1, m, hm, hl1, _⟩ := provenGeneric_spec h
  obtain ⟨hu2, m', _, hl2, hmax'⟩ := provenGeneric_spec h'
  have h1 := hl m hm
  have h2 := hmax' m hm
  omega

/-! ## decoded contexts (after the `fix:` commit: `read_from` rejects an all-zero modulus) -/

theorem readLe_one_lt {bs r : Bytes} {n : Nat} (h : readLe 1 bs = .ok n r) : n < 256 := by
  unfold readLe at h
  split at h
  · cases h
  · rename_i hlen
    simp only [Out.ok.injEq] at h
    have hl : (bs.take 1).length ≤ 1 := List.length_take_le 1 bs
    have := fromLe_lt (bs.take 1)
    rw [← h.1]
    have hp : 256 ^ (bs.take 1).length ≤ 256 ^ 1 := Nat.pow_le_pow_right (by omega) hl
    omega

theorem readSlice_length {bs m r : Bytes} {n : Nat} (h : readSlice n bs = .ok m r) : m.length = n := by
  unfold readSlice at h
  split at h
  · cases h
  · rename_i hlen
    simp only [Out.ok.injEq] at h
    rw [← h.1]
    have := List.length_take_le n bs
    omega

theorem readTag_ok {valid : Nat → Bool} {bs r : Bytes} {v : Nat} (h : ProofOptions.readTag valid bs = .ok v r) :
    valid v = true := by
  unfold ProofOptions.readTag at h
  split at h
  · split at h
    · simp only [Out.ok.injEq] at h; rw [← h.1]; assumption
    · cases h
  · cases h
  · cases h

theorem dec_bind_ok {α β} {d : Dec α} {f : α → Dec β} {bs r : Bytes} {b : β} (h : Dec.bind d f bs = .ok b r) :
    ∃ a r1, d bs = .ok a r1 ∧ f a r1 = .ok b r := by
  unfold Dec.bind at h
  split at h
  · exact ⟨_, _, by assumption, h⟩
  · cases h
  · cases h

/-- whatever `ProofOptions::read_from` accepts is constructor-valid -/
theorem proofOptions_decode_valid {bs r : Bytes} {o : ProofOptions} (h : ProofOptions.decode bs = .ok o r) :
    o.Valid := by
  unfold ProofOptions.decode at h
  obtain ⟨q, r1, hq, h⟩ := dec_bind_ok h
  obtain ⟨b, r2, hb, h⟩ := dec_bind_ok h
  obtain ⟨g, r3, hg, h⟩ := dec_bind_ok h
  obtain ⟨e, r4, he, h⟩ := dec_bind_ok h
  obtain ⟨f, r5, hf, h⟩ := dec_bind_ok h
  obtain ⟨rd, r6, hrd, h⟩ := dec_bind_ok h
  obtain ⟨bc, r7, hbc, h⟩ := dec_bind_ok h
  obtain ⟨bd, r8, hbd, h⟩ := dec_bind_ok h
  obtain ⟨np, r9, hnp, h⟩ := dec_bind_ok h
  obtain ⟨hr, r10, hhr, h⟩ := dec_bind_ok h
  simp only [] at h
  split at h
  · rename_i hv
    simp only [Dec.pure, Out.ok.injEq] at h
    rw [← h.1]
    have he' := readTag_ok he
    have hbc' := readTag_ok hbc
    have hbd' := readTag_ok hbd
    have hhr' := readLe_one_lt hhr
    simp only [ProofOptions.validB, Bool.and_eq_true, decide_eq_true_eq] at hv
    simp only [Bool.or_eq_true, beq_iff_eq, decide_eq_true_eq] at he' hbc' hbd'
    unfold ProofOptions.Valid
    simp only []
    obtain ⟨⟨⟨⟨⟨⟨⟨⟨⟨⟨⟨⟨⟨h1, h2⟩, h3⟩, h4⟩, h5⟩, h6⟩, h7⟩, h8⟩, h9⟩, h10⟩, h11⟩, h12⟩, h13⟩, h14⟩ := hv
    refine ⟨h1, h2, h3, h4, h5, h6, ?_, h7, h8, h9, h10, h11, hbc', hbd', h12, h13, h14, by omega⟩
    rcases he' with (h | h) | h <;> omega
  · cases h
/-- whatever `Context::read_from` accepts has constructor-valid options and a modulus of 1..255 bytes
that is NOT all zero -/
theorem context_decode_modulus {bs r : Bytes} {c : Context} (h : Context.decode bs = .ok c r) :
    c.options.Valid ∧ 0 < c.modulus.length ∧ c.modulus.length < 256 ∧ ¬ (∀ b ∈ c.modulus, b = 0) := by
  unfold Context.decode at h
  split at h
  · cases h
  · cases h
  · split at h
    · cases h
    · cases h
    · rename_i n r2 hn
      split at h
      · cases h
      · rename_i hn0
        split at h
        · cases h
        · cases h
        · rename_i m r3 hm
          split at h
          · cases h
          · rename_i hall
            split at h
            · cases h
            · cases h
            · rename_i o r4 ho
              split at h
              · cases h
              · cases h
              · split at h
                · cases h
                · split at h
                  · cases h
                  · simp only [Out.ok.injEq] at h
                    rw [← h.1]
                    have hlen := readSlice_length hm
                    have hlt := readLe_one_lt hn
                    refine ⟨proofOptions_decode_valid ho, by simp only []; omega, by simp only []; omega, ?_⟩
                    intro hz
                    apply hall
                    rw [List.all_eq_true]
                    intro b hb
                    simpa using hz b hb

end Wf.Security
