/-
Helper lemmas for C06 (parallel bookkeeping, model `Wf/Model/ParBook.lean`): consecutive pieces
cover `[0, len)` in order, every index lies in exactly one piece, power-of-two batch sizes make the
batch offsets multiples of every smaller power of two, `fragments` succeeds exactly on divisible
row counts.  Core Lean only.
-/
import Wf.Model.ParBook
namespace Wf.ParBook
open Wf.BatchUtils

/-! ### arithmetic -/

theorem lt_ceil_iff (len bs i : Nat) (hbs : 0 < bs) :
    i < (len + bs - 1) / bs ↔ i * bs < len := by
  rw [Nat.lt_iff_add_one_le, Nat.le_div_iff_mul_le hbs, Nat.add_mul]
  omega

theorem ceil_mul_ge (len bs : Nat) (hbs : 0 < bs) : len ≤ (len + bs - 1) / bs * bs := by
  have := Nat.lt_irrefl ((len + bs - 1) / bs)
  rw [lt_ceil_iff len bs _ hbs] at this
  omega

/-- `2^L / 2^k` is zero or a power of two -/
theorem pow_div_pow (L k : Nat) : 2 ^ L / 2 ^ k = if k ≤ L then 2 ^ (L - k) else 0 := by
  by_cases h : k ≤ L
  · rw [if_pos h, Nat.pow_div h (by decide)]
  · rw [if_neg h]
    apply Nat.div_eq_of_lt
    exact Nat.pow_lt_pow_right (by decide) (by omega)

/-- a power of two that is at most a non-zero quotient of powers of two divides it -/
theorem pow_dvd_batch (L k j : Nat) (h : 2 ^ j ≤ 2 ^ L / 2 ^ k) : 2 ^ j ∣ 2 ^ L / 2 ^ k := by
  rw [pow_div_pow] at h ⊢
  by_cases hk : k ≤ L
  · rw [if_pos hk] at h ⊢
    exact Nat.pow_dvd_pow 2 ((Nat.pow_le_pow_iff_right (by decide)).mp h)
  · rw [if_neg hk] at h
    have := Nat.two_pow_pos j
    omega

theorem flatMap_congr' {α β} {l : List α} {f g : α → List β} (h : ∀ a ∈ l, f a = g a) :
    l.flatMap f = l.flatMap g := by
  induction l with
  | nil => rfl
  | cons a l ih =>
    simp only [List.flatMap_cons]
    rw [h a (List.mem_cons_self ..), ih (fun b hb => h b (List.mem_cons_of_mem _ hb))]

/-! ### consecutive pieces -/

/-- the consecutive pieces `(i·B, min B (len − i·B))`, `i < n` -/
def pieces (B len n : Nat) : List (Nat × Nat) :=
  (List.range n).map (fun i => (i * B, min B (len - i * B)))

@[simp] theorem pieces_length (B len n : Nat) : (pieces B len n).length = n := by simp [pieces]

theorem pieces_getElem (B len n k : Nat) (h : k < (pieces B len n).length) :
    (pieces B len n)[k] = (k * B, min B (len - k * B)) := by simp [pieces]

theorem mem_pieces {B len n : Nat} {b : Nat × Nat} (h : b ∈ pieces B len n) :
    ∃ i, i < n ∧ b = (i * B, min B (len - i * B)) := by
  simp only [pieces, List.mem_map, List.mem_range] at h
  obtain ⟨i, hi, rfl⟩ := h
  exact ⟨i, hi, rfl⟩

theorem single_eq_pieces (len : Nat) : [(0, len)] = pieces len len 1 := by simp [pieces]

/-- a closure that only uses `offset + i` reproduces `f` on the covered prefix, in order -/
theorem runGlobal_pieces {α} (f : Nat → α) (B len n : Nat) :
    runGlobal f (pieces B len n) = (List.range (min (n * B) len)).map f := by
  induction n with
  | zero => simp [pieces, runGlobal]
  | succ n ih =>
    have hp : pieces B len (n + 1) = pieces B len n ++ [(n * B, min B (len - n * B))] := by
      simp [pieces, List.range_succ]
    rw [hp]
    unfold runGlobal at ih ⊢
    rw [List.flatMap_append, ih]
    simp only [List.flatMap_cons, List.flatMap_nil, List.append_nil]
    have hsplit : min ((n + 1) * B) len = min (n * B) len + min B (len - n * B) := by
      rw [Nat.succ_mul]; omega
    rw [hsplit, List.range_add, List.map_append, List.map_map]
    congr 1
    by_cases h : n * B ≤ len
    · rw [Nat.min_eq_left h]; rfl
    · have : min B (len - n * B) = 0 := by omega
      rw [this]; simp

theorem runGlobal_pieces_cover {α} (f : Nat → α) (B len n : Nat) (hcov : len ≤ n * B) :
    runGlobal f (pieces B len n) = (List.range len).map f := by
  rw [runGlobal_pieces, Nat.min_eq_right hcov]

/-- every index below `len` lies in exactly one piece: piece number `g / B` -/
theorem pieces_unique (B len n g : Nat) (hcov : len ≤ n * B) (hg : g < len) :
    g / B < n ∧ ∀ j, j < n → (InBatch (j * B, min B (len - j * B)) g ↔ j = g / B) := by
  have hB : 0 < B := by
    rcases Nat.eq_zero_or_pos B with h | h
    · subst h; simp at hcov; omega
    · exact h
  have hdm := Nat.div_add_mod g B
  have hml := Nat.mod_lt g hB
  rw [Nat.mul_comm] at hdm
  refine ⟨?_, ?_⟩
  · apply Nat.div_lt_of_lt_mul
    rw [Nat.mul_comm]; omega
  · intro j _
    unfold InBatch
    constructor
    · intro ⟨h1, h2⟩
      symm
      apply Nat.div_eq_of_lt_le h1
      rw [Nat.succ_mul]
      simp only at h2
      omega
    · intro h
      subst h
      simp only
      omega

/-! ### `batch_iter_mut!` -/

theorem batchIterMut3_eq_chunkPlan (len threads m : Nat) :
    batchIterMut3 len threads m = chunkPlan len threads m := rfl

theorem planWith_small {bs len m : Nat} (h : bs < m) : planWith bs len m = some (pieces len len 1) := by
  rw [← single_eq_pieces]; simp [planWith, h]

theorem planWith_big {bs len m : Nat} (h : ¬ bs < m) (hb : bs ≠ 0) :
    planWith bs len m = some (pieces bs len ((len + bs - 1) / bs)) := by
  simp [planWith, h, hb, pieces]

/-- for ANY batch size and minimum batch size ≥ 1 the macro body yields consecutive pieces of one
width `B` that reach the end of the slice -/
theorem planWith_pieces (bs len m : Nat) (hm : 0 < m) :
    ∃ B n, planWith bs len m = some (pieces B len n) ∧ len ≤ n * B ∧
      ((B = len ∧ n = 1 ∧ bs < m) ∨ (B = bs ∧ m ≤ bs)) := by
  by_cases h : bs < m
  · exact ⟨len, 1, planWith_small h, by omega, Or.inl ⟨rfl, rfl, h⟩⟩
  · have hb : bs ≠ 0 := by omega
    exact ⟨bs, _, planWith_big h hb, ceil_mul_ge len bs (by omega), Or.inr ⟨rfl, by omega⟩⟩

/-- in the rounded plan of a power-of-two slice every batch offset is a multiple of every power of
two that does not exceed the batch size (only needed when the slice IS split) -/
theorem offsets_divisible_gen (L threads m j : Nat)
    (hz : ¬ batchSize (2 ^ L) threads < m → 2 ^ j ≤ batchSize (2 ^ L) threads)
    (cs : List (Nat × Nat)) (h : batchIterMut3 (2 ^ L) threads m = some cs) : ∀ b ∈ cs, 2 ^ j ∣ b.1 := by
  unfold batchIterMut3 at h
  unfold batchSize at h hz
  obtain ⟨k, hk⟩ := Nat.isPowerOfTwo_nextPowerOfTwo threads
  rw [hk] at h hz
  by_cases hs : 2 ^ L / 2 ^ k < m
  · rw [planWith_small hs] at h
    cases h
    intro b hb
    obtain ⟨i, hi, rfl⟩ := mem_pieces hb
    have : i = 0 := by omega
    subst this
    simp
  · have hpos := Nat.two_pow_pos j
    have hle := hz hs
    rw [planWith_big hs (by omega)] at h
    cases h
    intro b hb
    obtain ⟨i, _, rfl⟩ := mem_pieces hb
    exact Nat.dvd_trans (pow_dvd_batch L k j hle) (Nat.dvd_mul_left _ _)

/-- … in particular of every power of two that does not exceed the minimum batch size -/
theorem offsets_divisible (L threads m j : Nat) (hz : 2 ^ j ≤ m) (cs : List (Nat × Nat))
    (h : batchIterMut3 (2 ^ L) threads m = some cs) : ∀ b ∈ cs, 2 ^ j ∣ b.1 :=
  offsets_divisible_gen L threads m j (fun hs => by omega) cs h

theorem add_mod_of_dvd {z off : Nat} (h : z ∣ off) (i : Nat) : (off + i) % z = i % z := by
  obtain ⟨q, rfl⟩ := h
  rw [Nat.add_comm, Nat.add_mul_mod_self_left]

/-- `acc_column` over a plan whose offsets are multiples of `zLen` computes the global formula -/
theorem accColumn_of_divisible {α} (term : Nat → Nat → α) (zLen : Nat) (hz : zLen ≠ 0)
    (plan : List (Nat × Nat)) (h : ∀ b ∈ plan, zLen ∣ b.1) :
    accColumn term zLen plan = some (runGlobal (fun g => term g (g % zLen)) plan) := by
  unfold accColumn runGlobal
  rw [if_neg hz]
  congr 1
  apply flatMap_congr'
  intro b hb
  apply List.map_congr_left
  intro i _
  show term (b.1 + i) (i % zLen) = term (b.1 + i) ((b.1 + i) % zLen)
  rw [add_mod_of_dvd (h b hb)]

/-! ### fragments -/

theorem fragments_eq_some {R nf : Nat} {fs : List (Nat × Nat)} (h : fragments R nf = some fs) :
    nf ≠ 0 ∧ minFragmentSize ≤ R / nf ∧ nf * (R / nf) = R ∧ fs = pieces (R / nf) R nf := by
  unfold fragments at h
  by_cases h0 : nf = 0
  · rw [if_pos h0] at h; cases h
  rw [if_neg h0] at h
  by_cases h1 : R / nf < minFragmentSize
  · rw [if_pos h1] at h; cases h
  rw [if_neg h1] at h
  by_cases h2 : nf < (R + R / nf - 1) / (R / nf)
  · rw [if_pos h2] at h; cases h
  rw [if_neg h2] at h
  have hpos : 0 < R / nf := by unfold minFragmentSize at h1; omega
  have hle := Nat.mul_div_le R nf
  have hge : R ≤ nf * (R / nf) := by
    have h3 := ceil_mul_ge R (R / nf) hpos
    have h4 : (R + R / nf - 1) / (R / nf) * (R / nf) ≤ nf * (R / nf) :=
      Nat.mul_le_mul_right _ (by omega)
    omega
  refine ⟨h0, by omega, by omega, ?_⟩
  cases h
  rfl

theorem fragments_of_dvd {R nf : Nat} (h0 : nf ≠ 0) (h1 : minFragmentSize ≤ R / nf)
    (h2 : nf * (R / nf) = R) : fragments R nf = some (pieces (R / nf) R nf) := by
  unfold fragments
  rw [if_neg h0, if_neg (by omega)]
  have hpos : 0 < R / nf := by unfold minFragmentSize at h1; omega
  have : ¬ nf < (R + R / nf - 1) / (R / nf) := by
    rw [lt_ceil_iff R (R / nf) nf hpos]
    omega
  rw [if_neg this]
  rfl

theorem fragments_isSome_iff (R nf : Nat) :
    (fragments R nf).isSome ↔ nf ≠ 0 ∧ minFragmentSize ≤ R / nf ∧ nf ∣ R := by
  constructor
  · intro h
    obtain ⟨fs, hfs⟩ := Option.isSome_iff_exists.mp h
    obtain ⟨h0, h1, h2, _⟩ := fragments_eq_some hfs
    exact ⟨h0, h1, ⟨R / nf, h2.symm⟩⟩
  · intro ⟨h0, h1, h2⟩
    rw [fragments_of_dvd h0 h1 (Nat.mul_div_cancel' h2)]
    rfl

/-- every fragment of a successful split has the full length -/
theorem fragment_full {R nf : Nat} (h2 : nf * (R / nf) = R) {i : Nat} (hi : i < nf) :
    min (R / nf) (R - i * (R / nf)) = R / nf := by
  have : (i + 1) * (R / nf) ≤ nf * (R / nf) := Nat.mul_le_mul_right _ hi
  rw [Nat.succ_mul] at this
  omega

theorem evalFragments_eq_runGlobal {α} (row : Nat → α) (fs : List (Nat × Nat)) :
    evalFragments row fs = runGlobal row fs := by
  unfold evalFragments runGlobal
  apply flatMap_congr'
  intro f _
  apply List.map_congr_left
  intro i _
  rw [Nat.add_comm]

theorem evalFragments_of_fragments {α} (row : Nat → α) {R nf : Nat} {fs : List (Nat × Nat)}
    (h : fragments R nf = some fs) : evalFragments row fs = (List.range R).map row := by
  obtain ⟨_, _, h2, rfl⟩ := fragments_eq_some h
  rw [evalFragments_eq_runGlobal, runGlobal_pieces_cover _ _ _ _ (by omega)]

end Wf.ParBook
