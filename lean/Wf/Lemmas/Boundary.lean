/-
Helper lemmas for C22: the order `Ord for Assertion` as a strict lexicographic order on
(stride, first step, column), `BTreeSet::insert` on a strictly sorted list, and the shape of the
result of `prepare_assertions` (strictly sorted permutation of its input).  Core Lean only.
-/
import Wf.Model.Boundary
import Wf.Lemmas.Assertions
namespace Wf.Boundary
open Wf Wf.Assertion

/-- the sort key of `prepare_assertions` -/
def sortKey (a : Assertion) : Nat × Nat × Nat := (a.stride, a.firstStep, a.column)

/-- strict lexicographic order on the sort key -/
def KeyLt (a b : Assertion) : Prop :=
  a.stride < b.stride ∨ (a.stride = b.stride ∧
    (a.firstStep < b.firstStep ∨ (a.firstStep = b.firstStep ∧ a.column < b.column)))

theorem cmp_lt_iff (a b : Assertion) : cmp a b = .lt ↔ KeyLt a b := by
  unfold cmp KeyLt
  by_cases h1 : a.stride = b.stride
  · have e1 : (a.stride == b.stride) = true := by simp [h1]
    by_cases h2 : a.firstStep = b.firstStep
    · have e2 : (a.firstStep == b.firstStep) = true := by simp [h2]
      rw [e1, e2]; simp only [↓reduceIte, Nat.compare_eq_lt]; omega
    · have e2 : (a.firstStep == b.firstStep) = false := by simp [h2]
      rw [e1, e2]; simp only [↓reduceIte, Bool.false_eq_true, Nat.compare_eq_lt]; omega
  · have e1 : (a.stride == b.stride) = false := by simp [h1]
    rw [e1]; simp only [↓reduceIte, Bool.false_eq_true, Nat.compare_eq_lt]; omega

theorem cmp_gt_iff (a b : Assertion) : cmp a b = .gt ↔ KeyLt b a := by
  unfold cmp KeyLt
  by_cases h1 : a.stride = b.stride
  · have e1 : (a.stride == b.stride) = true := by simp [h1]
    by_cases h2 : a.firstStep = b.firstStep
    · have e2 : (a.firstStep == b.firstStep) = true := by simp [h2]
      rw [e1, e2]; simp only [↓reduceIte, Nat.compare_eq_gt]; omega
    · have e2 : (a.firstStep == b.firstStep) = false := by simp [h2]
      rw [e1, e2]; simp only [↓reduceIte, Bool.false_eq_true, Nat.compare_eq_gt]; omega
  · have e1 : (a.stride == b.stride) = false := by simp [h1]
    rw [e1]; simp only [↓reduceIte, Bool.false_eq_true, Nat.compare_eq_gt]; omega

theorem cmp_eq_iff (a b : Assertion) : cmp a b = .eq ↔ sortKey a = sortKey b := by
  unfold cmp sortKey
  by_cases h1 : a.stride = b.stride
  · by_cases h2 : a.firstStep = b.firstStep
    · simp only [h1, h2, beq_self_eq_true, if_true, Nat.compare_eq_eq, Prod.mk.injEq, true_and]
    · have h2' : (a.firstStep == b.firstStep) = false := by simp [h2]
      simp only [h1, h2', beq_self_eq_true, if_true, Bool.false_eq_true, if_false, Nat.compare_eq_eq,
        Prod.mk.injEq, h2, false_and, and_false]
  · have h1' : (a.stride == b.stride) = false := by simp [h1]
    simp only [h1', Bool.false_eq_true, if_false, Nat.compare_eq_eq, Prod.mk.injEq, h1, false_and]

theorem KeyLt.trans {a b c : Assertion} (h1 : KeyLt a b) (h2 : KeyLt b c) : KeyLt a c := by
  unfold KeyLt at *; omega

theorem KeyLt.asymm {a b : Assertion} (h1 : KeyLt a b) (h2 : KeyLt b a) : False := by
  unfold KeyLt at *; omega

theorem insertSorted_pairwise {x : Assertion} {acc : List Assertion} (hs : acc.Pairwise KeyLt)
    (hne : ∀ y ∈ acc, cmp x y ≠ .eq) : (insertSorted x acc).Pairwise KeyLt := by
  induction acc with
  | nil => simp [insertSorted]
  | cons y ys ih =>
    have hy := hne y (List.mem_cons_self ..)
    have hne' : ∀ y' ∈ ys, cmp x y' ≠ .eq := fun y' hy' => hne y' (List.mem_cons_of_mem _ hy')
    rw [List.pairwise_cons] at hs
    unfold insertSorted
    cases hc : cmp x y with
    | lt =>
      have hxy := (cmp_lt_iff x y).1 hc
      simp only
      rw [List.pairwise_cons]
      refine ⟨?_, List.pairwise_cons.2 hs⟩
      intro z hz
      rcases List.mem_cons.1 hz with rfl | hz
      · exact hxy
      · exact hxy.trans (hs.1 z hz)
    | eq => exact absurd hc hy
    | gt =>
      have hyx := (cmp_gt_iff x y).1 hc
      simp only
      rw [List.pairwise_cons]
      refine ⟨?_, ih hs.2 hne'⟩
      intro z hz
      rcases (mem_insertSorted hne').1 hz with rfl | hz
      · exact hyx
      · exact hs.1 z hz

theorem insertSorted_perm {x : Assertion} {acc : List Assertion} (hne : ∀ y ∈ acc, cmp x y ≠ .eq) :
    (insertSorted x acc).Perm (x :: acc) := by
  induction acc with
  | nil => simp [insertSorted]
  | cons y ys ih =>
    have hy := hne y (List.mem_cons_self ..)
    have hne' : ∀ y' ∈ ys, cmp x y' ≠ .eq := fun y' hy' => hne y' (List.mem_cons_of_mem _ hy')
    unfold insertSorted
    cases hc : cmp x y with
    | lt => exact List.Perm.refl _
    | eq => exact absurd hc hy
    | gt => exact ((ih hne').cons y).trans (List.Perm.swap x y ys)

/-- accepted by the overlap scan ⇒ no stored assertion has the same sort key -/
theorem scan_no_equal_key {x : Assertion} {acc : List Assertion}
    (h : ∀ y ∈ acc, y.column = x.column → y.overlapsWith x = false) : ∀ y ∈ acc, cmp x y ≠ .eq := by
  intro y hy hc
  have hcol : y.column = x.column := by
    have := (cmp_eq_iff x y).1 hc
    simp only [sortKey, Prod.mk.injEq] at this
    exact this.2.2.symm
  have := h y hy hcol
  rw [cmp_eq_overlaps hc] at this
  cases this

/-- the loop of `prepare_assertions` keeps its set strictly sorted and loses nothing -/
theorem prepareLoop_result {w n : Nat} : ∀ (l acc r : List Assertion),
    prepareLoop w n l acc = .ok r → acc.Pairwise KeyLt → r.Pairwise KeyLt ∧ r.Perm (l ++ acc) := by
  intro l
  induction l with
  | nil =>
    intro acc r h hs
    simp only [prepareLoop] at h
    cases h
    exact ⟨hs, by simp⟩
  | cons x rest ih =>
    intro acc r h hs
    obtain ⟨_, _, hscan, hrest⟩ := prepareLoop_cons_ok_iff.1 h
    have hne := scan_no_equal_key hscan
    obtain ⟨h1, h2⟩ := ih _ r hrest (insertSorted_pairwise hs hne)
    refine ⟨h1, h2.trans ?_⟩
    have := (insertSorted_perm hne)
    exact (List.Perm.append_left rest this).trans (by simp [List.perm_middle])

/-- two strictly sorted lists with the same elements are equal -/
theorem sorted_perm_unique {r r' : List Assertion} (h1 : r.Pairwise KeyLt) (h2 : r'.Pairwise KeyLt)
    (hp : r.Perm r') : r = r' :=
  List.Perm.eq_of_pairwise (fun _ _ _ _ hab hba => (hab.asymm hba).elim) h1 h2 hp

end Wf.Boundary
