/- read_slice / read_array simulation lemmas for the C27 refinement (core Lean only). -/
import Wf.Lemmas.AdapterSteps
namespace Wf
open Adapter

namespace Adapter

/-- what `read_slice(n)` / `read_array::<n>` must do, in terms of the bytes still to be delivered -/
def SliceLike (s : Adapter) (n : Nat) (r : Adapter × Out Bytes) : Prop :=
  NonEmptyChunks r.1 ∧
  r.1.abs = (if s.abs.length < n then s.abs else s.abs.drop n) ∧
  outBytes r.2 = (if s.abs.length < n then RResp.eof else RResp.bytes (s.abs.take n)) ∧
  (EofInv s → EofInv r.1)

theorem nonEmpty_of_src (s s' : Adapter) (hs : s'.src = s.src) :
    NonEmptyChunks s → NonEmptyChunks s' := by
  intro h c hc; rw [hs] at hc; exact h c hc

theorem fail_like (s s2 : Adapter) (n : Nat) (habs : s2.abs = s.abs) (hlt : s.abs.length < n)
    (hne : NonEmptyChunks s2) (hinv : EofInv s → EofInv s2) (e : Err) :
    SliceLike s n (s2, .err e) := by
  unfold SliceLike
  simp only [hlt, if_true, outBytes]
  exact ⟨hne, habs, trivial, hinv⟩

theorem finish_like (s s2 : Adapter) (n : Nat) (habs : s2.abs = s.abs)
    (hge : s2.buffer.length ≥ n) (hne : NonEmptyChunks s2) (hinv : EofInv s → EofInv s2) :
    SliceLike s n ({ s2 with pos := s2.pos + n }, .ok (s2.buffer.take n) []) := by
  unfold SliceLike
  have hlen : ¬ s.abs.length < n := by
    rw [← habs]; simp only [abs, List.length_append]; omega
  simp only [hlen, if_false, outBytes]
  refine ⟨nonEmpty_of_src s2 _ rfl hne, ?_, ?_, fun h => eofInv_of s2 _ rfl rfl (fun x => x) (hinv h)⟩
  · rw [← habs]
    have := buffer_advance s2 n
    simp only [abs] at this ⊢
    rw [this, List.append_assoc, List.append_assoc, List.drop_append_of_le_length hge]
  · rw [← habs]
    simp only [abs, List.append_assoc]
    rw [List.take_append_of_le_length hge]

theorem resetIfDrained_like (s : Adapter) (n : Nat) (s2 : Adapter) (o : Out Bytes)
    (h : SliceLike s n (s2, o)) : SliceLike s n (s2.resetIfDrained, o) := by
  obtain ⟨h1, h2, h3, h4⟩ := h
  refine ⟨nonEmpty_of_src s2 _ (resetIfDrained_src s2) h1, by rw [resetIfDrained_abs]; exact h2, h3, ?_⟩
  intro hi
  have := h4 hi
  unfold resetIfDrained; split
  · exact eofInv_of s2 _ rfl rfl (fun x => x) this
  · exact this

/-- the common tail: `buffer_at_least(n)` then copy `n` bytes out of the local buffer -/
theorem bal_then_take_like (s s1 : Adapter) (n : Nat) (habs : s1.abs = s.abs)
    (hne : NonEmptyChunks s1) (hinv : EofInv s → EofInv s1) :
    SliceLike s n
      (if !(bufferAtLeast n s1).2 then ((bufferAtLeast n s1).1, .err .eof)
       else if (bufferAtLeast n s1).1.buffer.length < n then ((bufferAtLeast n s1).1, .abort)
       else ({ (bufferAtLeast n s1).1 with pos := (bufferAtLeast n s1).1.pos + n },
              .ok ((bufferAtLeast n s1).1.buffer.take n) [])) := by
  have sp := bufferAtLeast_spec n s1 hne
  simp only [] at sp
  obtain ⟨b1, b2, b3, b4, b5⟩ := sp
  cases hok : (bufferAtLeast n s1).2 with
  | false =>
    simp only [Bool.not_false, if_true]
    have ⟨hl, _, _⟩ := b3 hok
    exact fail_like s _ n (by rw [b1, habs]) (by rw [← habs]; exact hl) b4 (fun h => b5 (hinv h)) _
  | true =>
    have hge := b2 hok
    have : ¬ (bufferAtLeast n s1).1.buffer.length < n := by omega
    simp only [Bool.not_true, Bool.false_eq_true, if_false, this]
    exact finish_like s _ n (by rw [b1, habs]) hge b4 (fun h => b5 (hinv h))

theorem readSliceA_like (s : Adapter) (h : NonEmptyChunks s) (n : Nat) :
    SliceLike s n (s.readSliceA n) := by
  unfold readSliceA
  by_cases hn : n = 0
  · subst hn
    simp only [if_true]
    unfold SliceLike
    simp [outBytes, h]
  · simp only [hn, if_false]
    generalize hs0 : (if (decide (s.pos ≥ 16) && !decide (s.cap - s.buffer.length ≥ n)) = true
      then ({ s with buf := s.buffer, pos := 0 } : Adapter) else s) = s0
    have hb0 : s0.buffer = s.buffer := by
      rw [← hs0]; split
      · simp [buffer]
      · rfl
    have hsrc0 : s0.src = s.src := by rw [← hs0]; split <;> rfl
    have hr0 : s0.rbuf = s.rbuf := by rw [← hs0]; split <;> rfl
    have he0 : s0.eof = s.eof := by rw [← hs0]; split <;> rfl
    have habs0 : s0.abs = s.abs := by simp only [abs, hb0, hsrc0, hr0]
    have hne0 : NonEmptyChunks s0 := nonEmpty_of_src s s0 hsrc0 h
    have hinv0 : EofInv s → EofInv s0 := eofInv_of s s0 he0 hsrc0 (fun x => by rw [hr0]; exact x)
    have key := bal_then_take_like s s0 n habs0 hne0 hinv0
    -- the model's out-of-range test is the same condition, phrased on `buf`/`pos`
    have sp := bufferAtLeast_spec n s0 hne0
    simp only [] at sp
    cases hok : (bufferAtLeast n s0).2 with
    | false =>
      simp only [hok, Bool.not_false, if_true] at key ⊢
      have : bufferAtLeast n s0 = ((bufferAtLeast n s0).1, false) := by rw [← hok]
      rw [this]; exact key
    | true =>
      have hge := sp.2.1 hok
      have hlen : (bufferAtLeast n s0).1.buffer.length =
          (bufferAtLeast n s0).1.buf.length - (bufferAtLeast n s0).1.pos := by simp [buffer]
      have c1 : ¬ (bufferAtLeast n s0).1.buffer.length < n := by omega
      have c2 : ¬ (bufferAtLeast n s0).1.pos + n > (bufferAtLeast n s0).1.buf.length := by
        have : 0 < n := Nat.pos_of_ne_zero hn
        omega
      simp only [hok, Bool.not_true, Bool.false_eq_true, if_false, c1] at key
      have : bufferAtLeast n s0 = ((bufferAtLeast n s0).1, true) := by rw [← hok]
      rw [this]
      simp only [Bool.not_true, Bool.false_eq_true, if_false, c2]
      exact key

theorem readExact_like (s : Adapter) (h : NonEmptyChunks s) (n : Nat) (hn : n ≠ 0) :
    SliceLike s n (s.readExact n) := by
  unfold readExact
  simp only []
  have sp := nonEmptyReaderMut_spec s h
  simp only [] at sp
  obtain ⟨h1, h2, h3, h4, h5, _, _, _, h9⟩ := sp
  have hst : s.nonEmptyReaderMut = (s.nonEmptyReaderMut.1, s.nonEmptyReaderMut.2) := rfl
  by_cases hk0 : s.buffer.length = 0
  · -- local buffer empty
    have hb : s.buffer = [] := List.eq_nil_of_length_eq_zero hk0
    simp only [hk0, if_true]
    rw [hst]
    cases hok : s.nonEmptyReaderMut.2 with
    | false =>
      simp only [Bool.not_false, if_true]
      have ⟨ha, _, _⟩ := h4 hok
      exact fail_like s _ n h1 (by rw [ha, hb]; exact Nat.pos_of_ne_zero hn) h3 h9 _
    | true =>
      simp only [Bool.not_true, Bool.false_eq_true, if_false]
      split
      · exact bal_then_take_like s _ n h1 h3 h9
      · rename_i hge
        apply resetIfDrained_like
        have habs1 : s.abs = s.nonEmptyReaderMut.1.rbuf ++ s.nonEmptyReaderMut.1.src.flatten := by
          rw [← h1]; simp [abs, h2, hb]
        have hge' : n ≤ s.nonEmptyReaderMut.1.rbuf.length := by omega
        unfold SliceLike
        have hlen : ¬ s.abs.length < n := by rw [habs1]; simp only [List.length_append]; omega
        simp only [hlen, if_false, outBytes]
        refine ⟨nonEmpty_of_src _ _ rfl h3, ?_, ?_, fun hi => eofInv_of s.nonEmptyReaderMut.1 _ rfl rfl
          (fun x => by simp [x]) (h9 hi)⟩
        · rw [habs1]
          simp only [abs]
          rw [buffer_set_rbuf, h2, hb, List.nil_append, List.drop_append_of_le_length hge']
        · rw [habs1, List.take_append_of_le_length hge']
  · simp only [hk0, if_false]
    by_cases hkn : s.buffer.length ≥ n
    · -- enough in the local buffer
      simp only [hkn, if_true]
      apply resetIfDrained_like
      exact finish_like s s n rfl hkn h (fun x => x)
    · simp only [hkn, if_false]
      rw [hst]
      cases hok : s.nonEmptyReaderMut.2 with
      | false =>
        simp only [Bool.not_false, if_true]
        have ⟨ha, _, _⟩ := h4 hok
        exact fail_like s _ n h1 (by rw [ha]; omega) h3 h9 _
      | true =>
        simp only [Bool.not_true, Bool.false_eq_true, if_false]
        split
        · rename_i hmk
          apply resetIfDrained_like
          have hklt : s.buffer.length < n := by omega
          have habs1 : s.abs = s.buffer ++ (s.nonEmptyReaderMut.1.rbuf ++ s.nonEmptyReaderMut.1.src.flatten) := by
            rw [← h1]; simp [abs, h2]
          have hneed : n - s.buffer.length ≤ s.nonEmptyReaderMut.1.rbuf.length := by omega
          unfold SliceLike
          have hlen : ¬ s.abs.length < n := by rw [habs1]; simp only [List.length_append]; omega
          simp only [hlen, if_false, outBytes]
          refine ⟨nonEmpty_of_src _ _ rfl h3, ?_, ?_, fun hi => eofInv_of s.nonEmptyReaderMut.1 _ rfl rfl
            (fun x => by simp [x]) (h9 hi)⟩
          · rw [habs1]
            simp only [abs]
            rw [buffer_advance_rbuf, h2, List.drop_eq_nil_of_le (Nat.le_refl _), List.nil_append,
              List.drop_append, List.drop_eq_nil_of_le (Nat.le_of_lt hklt), List.nil_append,
              List.drop_append_of_le_length hneed]
          · rw [habs1, h2, List.take_append, List.take_of_length_le (Nat.le_of_lt hklt),
              List.take_append_of_le_length hneed]
        · exact bal_then_take_like s _ n h1 h3 h9

theorem readArrayA_like (s : Adapter) (h : NonEmptyChunks s) (n : Nat) :
    SliceLike s n (s.readArrayA n) := by
  unfold readArrayA
  by_cases hn : n = 0
  · subst hn
    simp only [if_true]
    unfold SliceLike
    simp [outBytes, h]
  · simp only [hn, if_false]
    exact readExact_like s h n hn

end Adapter

theorem step_of_like (s : Adapter) (n : Nat) (r : Adapter × Out Bytes) (h : SliceLike s n r) :
    NonEmptyChunks r.1 ∧
    r.1.abs = (if s.abs.length < n then (s.abs, RResp.eof) else (s.abs.drop n, RResp.bytes (s.abs.take n))).1 ∧
    outBytes r.2 = (if s.abs.length < n then (s.abs, RResp.eof) else (s.abs.drop n, RResp.bytes (s.abs.take n))).2 ∧
    (EofInv s → EofInv r.1) := by
  obtain ⟨h1, h2, h3, h4⟩ := h
  refine ⟨h1, ?_, ?_, h4⟩
  · rw [h2]; split <;> rfl
  · rw [h3]; split <;> rfl

theorem step_readSlice (s : Adapter) (h : NonEmptyChunks s) (n : Nat) : StepOk s (.readSlice n) := by
  unfold StepOk
  simp only [adapterStep, RespOk, sliceStep]
  exact step_of_like s n _ (readSliceA_like s h n)

theorem step_readArray (s : Adapter) (h : NonEmptyChunks s) (n : Nat) : StepOk s (.readArray n) := by
  unfold StepOk
  simp only [adapterStep, RespOk, sliceStep]
  exact step_of_like s n _ (readArrayA_like s h n)

end Wf
