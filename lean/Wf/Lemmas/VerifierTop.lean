/-
Helper lemmas for `Wf/Props/C05V.lean`, part 4: the channel, the steps of `perform_verification` and
the assembled statement `verifyModel_noabort`.
-/
import Wf.Lemmas.VerifierAir
import Wf.Lemmas.VerifierFri
namespace Wf.Verifier
open Wf Wf.AirDesc Wf.AirDivisor

variable {F : Type}
theorem pow2B_small : ∀ n, n ≤ 128 → pow2B n = true → ∃ k, k ≤ 7 ∧ n = 2 ^ k := by decide

theorem parseCommitments_lengths (bs : Bytes) (ns nf : Nat) (tc : List Nat) (cc : Nat) (fc : List Nat)
    (h : parseCommitments bs ns nf = some (tc, cc, fc)) : tc.length = ns ∧ fc.length = nf + 1 := by
  unfold parseCommitments at h
  repeat' (first | (cases h; done) | split at h)
  rename_i _ tc' _ h1 _ cc' _ h2 _ fc' _ h3 _
  simp only [Option.some.injEq, Prod.mk.injEq] at h
  obtain ⟨rfl, _, rfl⟩ := h
  have a := readManyLoop_length _ _ _ _ _ _ h1
  have b := readManyLoop_length _ _ _ _ _ _ h3
  simp at a b
  exact ⟨a, b⟩

theorem parseOodPart_length (fp : FieldParams) (ef : EF F) (bs : Bytes) (w : Nat) (a b : List F)
    (h : parseOodPart fp ef bs w = some (a, b)) : a.length = w := by
  unfold parseOodPart at h
  repeat' (first | (cases h; done) | split at h)
  rename_i _ _ _ _ _ _ vs _ h1 _
  simp only [Option.some.injEq, Prod.mk.injEq] at h
  have hl := readManyLoop_length _ _ _ _ _ _ h1
  simp at hl
  rw [← h.1, List.length_take, hl]; omega

/-- what a successfully built channel guarantees -/
structure ChannelFacts (p : ProofM) (ch : Channel F) : Prop where
  tc : ch.traceCommitments.length = numSegments p.context
  fc : ch.friCommitments.length =
    (friOptions p.context.options).numFriLayers (p.context.info.length * p.context.options.blowup) + 1
  fl : ch.friLayers.length =
    (friOptions p.context.options).numFriLayers (p.context.info.length * p.context.options.blowup)
  np : ch.friNumPartitions = 2 ^ p.fri.numPartitions
  ood : ch.oodTraceCur.length = p.context.info.main + p.context.info.aux
  nonce : ch.nonce = p.nonce

theorem channelNew_facts (fp : FieldParams) (ef : EF F) (ctx : Ctx) (p : ProofM) (ch : Channel F)
    (h : channelNew fp ef ctx p = .ok ch) : ChannelFacts p ch := by
  unfold channelNew at h
  simp only [] at h
  repeat' (first | (cases h; done) | split at h)
  injection h with h
  subst h
  rename_i hcm _ _ _ _ _ _ _ _ _ _ _ _ _ _ _ _ _ _ _ hcount _ _ _ _ _ _ hood1 hood2
  obtain ⟨a, b⟩ := parseCommitments_lengths _ _ _ _ _ _ hcm
  exact ⟨a, b, by simpa using hcount, rfl, parseOodPart_length _ _ _ _ _ _ hood1, rfl⟩

theorem channelNew_noabort (fp : FieldParams) (ef : EF F) (ctx : Ctx) (p : ProofM) (s : AbortSite)
    (hd : Decoded p) (hcc : ctx.numConstraintCompositionColumns ≤ 255) :
    channelNew fp ef ctx p ≠ .error (.abort s) := by
  intro h
  unfold channelNew at h
  simp only [] at h
  repeat' (first | (cases h; done) | split at h)
  · rename_i htq
    have := hd.tq
    rw [htq] at this
    unfold numSegments at this
    split at this <;> simp at this
  · rename_i hbig
    have h1 := hd.nq
    have h2 := hd.main
    omega

theorem drawChallenges_cases (H : HashParams) (fp : FieldParams) (ef : EF F) (m n tc cc : Nat) (coin0 : CoinS) :
    drawChallenges H fp ef m n tc cc coin0 = .error .randomCoin ∨
    ∃ coeffs z c2, drawChallenges H fp ef m n tc cc coin0 = .ok ((coeffs, z), c2) ∧ coeffs.length = n := by
  unfold drawChallenges
  split
  · exact Or.inl rfl
  · rename_i coeffs c1 hc
    split
    · exact Or.inl rfl
    · rename_i z c2 _
      exact Or.inr ⟨coeffs, z, c2, rfl, drawCoefficients_length H fp ef m n _ coeffs c1 hc⟩

theorem friCommit_cases (H : HashParams) (fp : FieldParams) (ef : EF F) (o : ProofOptions) (nd n : Nat)
    (ch : Channel F) (coin : CoinS) :
    (∃ e, friCommit H fp ef o nd n ch coin = .error e ∧ ∀ s, e ≠ .abort s) ∨
    ∃ deep alphas c, friCommit H fp ef o nd n ch coin = .ok ((deep, alphas), c) ∧
      alphas.length = ch.friCommitments.length ∧
      ∀ j, j < ch.friCommitments.length → j ≠ ch.friCommitments.length - 1 →
        ((n - 1 + 1) / o.folding ^ j) % o.folding = 0 := by
  unfold friCommit
  split
  · exact Or.inl ⟨_, rfl, by intro s h; cases h⟩
  · rename_i deep c1 _
    split
    · rename_i e he
      refine Or.inl ⟨e, rfl, ?_⟩
      intro s hs
      subst hs
      exact friNewLoop_noabort H fp ef _ _ _ _ _ _ s he
    · rename_i alphas c2 hok
      obtain ⟨h1, h2⟩ := friNewLoop_ok H fp ef _ _ _ _ _ _ alphas c2 hok
      exact Or.inr ⟨deep, alphas, c2, rfl, h1, fun j hj hne => h2 j hj (by simpa using hne)⟩

theorem checkOpenings_noabort (H : HashParams) (ef : EF F) (ch : Channel F) (tc : Nat) (positions : List Nat)
    (s : AbortSite) : checkOpenings H ef ch tc positions ≠ .error (.abort s) := by
  intro h
  unfold checkOpenings at h
  split at h
  · rename_i hm; exact Merkle.verifyBatch_noabort _ _ _ _ _ hm
  · cases h
  · split at h
    · rename_i hm; exact Merkle.verifyBatch_noabort _ _ _ _ _ hm
    · cases h
    · cases h

theorem friRes_noabort {α} (r : Fri.Res α) (h : r ≠ .abort) (s : AbortSite) : friRes r ≠ .error (.abort s) := by
  cases r with
  | ok a => simp [friRes]
  | err e => simp [friRes]
  | abort => exact absurd rfl h

theorem lowDegreeCheck_noabort (H : HashParams) (fp : FieldParams) (ef : EF F) (info : TraceInfo)
    (o : ProofOptions) (ch : Channel F) (z : F) (deep alphas : List F) (positions : List Nat) (s : AbortSite)
    (lg b : Nat) (hlg : 3 ≤ lg) (hlen : info.length = 2 ^ lg) (hb : o.blowup = 2 ^ b)
    (hadic : lg + b ≤ fp.twoAdicity) (hf : 0 < o.folding)
    (hnp : 0 < ch.friNumPartitions)
    (hfc : ch.friCommitments.length = (friOptions o).numFriLayers (info.length * o.blowup) + 1)
    (hfl : ch.friLayers.length = (friOptions o).numFriLayers (info.length * o.blowup))
    (hal : alphas.length = ch.friCommitments.length)
    (hdiv : ∀ j, j < ch.friCommitments.length → j ≠ ch.friCommitments.length - 1 →
        ((info.length - 1 + 1) / o.folding ^ j) % o.folding = 0)
    (hpos : ∀ p ∈ positions, p < info.length * o.blowup) :
    lowDegreeCheck H fp ef info o ch z deep alphas positions ≠ .error (.abort s) := by
  have hn1 : info.length - 1 + 1 = info.length := by
    have : 0 < 2 ^ lg := Nat.pow_pos (by omega)
    omega
  have hnp2 : Fri.nextPow2 (info.length - 1 + 1) = info.length := by
    rw [hn1, hlen]; exact Fri.nextPow2_two_pow lg
  have hlde : info.length * o.blowup = 2 ^ (lg + b) := by rw [hlen, hb, Nat.pow_add]
  have hlog1 : (info.length * o.blowup).log2 = lg + b := by rw [hlde]; exact Nat.log2_two_pow
  have hlog2 : info.length.log2 = lg := by rw [hlen]; exact Nat.log2_two_pow
  obtain ⟨w1, hw1⟩ := rootOfUnity_isSome fp (lg + b) (by omega) hadic
  obtain ⟨w2, hw2⟩ := rootOfUnity_isSome fp lg (by omega) (by omega)
  have hw3 : fp.rootOfUnity (Fri.nextPow2 (info.length - 1 + 1) * o.blowup).log2 = some w1 := by
    rw [hnp2, hlog1]; exact hw1
  unfold lowDegreeCheck
  rw [hw3, hlog1, hlog2, hw1, hw2]
  simp only []
  apply friRes_noabort
  have hdom : (friVerifier ef fp o info.length ch.friNumPartitions w1 alphas).domainSize =
      info.length * o.blowup := by simp [friVerifier, hnp2]
  have hnfl : (friVerifier ef fp o info.length ch.friNumPartitions w1 alphas).options = friOptions o := rfl
  have hdvd : o.folding ^ ((friOptions o).numFriLayers (info.length * o.blowup)) ∣ info.length := by
    apply pow_dvd_of_steps
    intro j hj
    have := hdiv j (by omega) (by omega)
    rwa [hn1] at this
  apply friVerify_noabort H ef (friVerifier ef fp o info.length ch.friNumPartitions w1 alphas)
  · exact hf
  · exact hnp
  · rw [hnfl, hdom]; omega
  · rw [hnfl, hdom]; omega
  · rw [hnfl, hdom]; show _ ≤ alphas.length; omega
  · rw [hnfl, hdom]
    exact Nat.dvd_trans hdvd ⟨o.blowup, rfl⟩
  · rw [hdom, hlde]; exact Nat.pow_pos (by omega)
  · rw [hdom]; exact hpos


theorem oodCheck_noabort (fp : FieldParams) (ef : EF F) (d : Desc) (pub : PubInputs) (info : TraceInfo)
    (ch : Channel F) (coeffs : List F) (z : F) (s : AbortSite)
    (hroot : ∃ w, fp.rootOfUnity info.length.log2 = some w)
    (hco : coeffs.length = d.trans.length + d.auxTrans.length + d.asserts.length)
    (he : d.exemptions ≤ info.length)
    (hper : d.periodic.all (fun col => periodicColumnOk col.length info.length) = true)
    (hfit : assertionsFit fp.m d pub info = true)
    (hcur : info.main ≤ ch.oodTraceCur.length) :
    oodCheck fp ef d pub info ch coeffs z ≠ .error (.abort s) := by
  intro h
  unfold oodCheck at h
  split at h
  · rename_i e he'
    injection h with h
    subst h
    exact evaluateConstraints_noabort fp ef d pub info _ _ _ _ z s hroot
      (by simp [List.length_take]; omega) he hper hfit (by simp [List.length_drop]; omega) hcur he'
  · split at h <;> cases h

/-- `perform_verification` never panics on a decoded proof whose context fits the statement -/
theorem performVerification_noabort (H : HashParams) (fp : FieldParams) (ef : EF F) (d : Desc) (pub : PubInputs)
    (p : ProofM) (ctx : Ctx) (ch : Channel F) (coin0 : CoinS) (s : AbortSite)
    (hd : Decoded p) (hcf : ChannelFacts p ch)
    (hadic : (p.context.info.length * p.context.options.blowup).log2 ≤ fp.twoAdicity)
    (he : d.exemptions ≤ p.context.info.length)
    (hper : d.periodic.all (fun col => periodicColumnOk col.length p.context.info.length) = true)
    (hfit : assertionsFit fp.m d pub p.context.info = true)
    (hq : p.context.options.queries < p.context.info.length * p.context.options.blowup) :
    performVerification H fp ef d pub p ctx ch coin0 ≠ .error (.abort s) := by
  obtain ⟨lg, hlg3, hlg64, hlen⟩ := hd.len
  obtain ⟨q0, q255, hbp, hb2, hb128, hfp, hf2, hf16, _, _⟩ := validB_facts _ hd.opts
  obtain ⟨b, hb7, hb⟩ := pow2B_small _ hb128 hbp
  have hlde : p.context.info.length * p.context.options.blowup = 2 ^ (lg + b) := by
    rw [hlen, hb, Nat.pow_add]
  have hadic' : lg + b ≤ fp.twoAdicity := by
    rw [hlde, Nat.log2_two_pow] at hadic; exact hadic
  have hroot : ∃ w, fp.rootOfUnity p.context.info.length.log2 = some w := by
    rw [hlen, Nat.log2_two_pow]; exact rootOfUnity_isSome fp lg (by omega) (by omega)
  intro h
  unfold performVerification at h
  split at h
  · rename_i htc
    have := hcf.tc
    rw [htc] at this
    unfold numSegments at this
    split at this <;> simp at this
  · rename_i tc0 _ _
    rcases drawChallenges_cases H fp ef p.context.options.batchC
        (d.trans.length + d.auxTrans.length + d.asserts.length) tc0 ch.constraintCommitment coin0 with h1 | ⟨coeffs, z, c2, h1, hco⟩
    · rw [h1] at h; cases h
    · rw [h1] at h
      simp only [] at h
      split at h
      · rename_i e he'
        injection h with h
        subst h
        exact oodCheck_noabort fp ef d pub p.context.info ch coeffs z s hroot hco he hper hfit
          (by rw [hcf.ood]; omega) he'
      · rcases friCommit_cases H fp ef p.context.options
            (p.context.info.main + p.context.info.aux + ctx.numConstraintCompositionColumns)
            p.context.info.length ch (Coin.reseed H.coin c2 (oodDigest H ef ch)) with
          ⟨e, h2, hne⟩ | ⟨deep, alphas, c3, h2, hal, hdiv⟩
        · rw [h2] at h
          simp only [] at h
          injection h with h
          exact hne s h
        · rw [h2] at h
          simp only [] at h
          rcases queryPositions_cases H p.context.options
              (p.context.info.length * p.context.options.blowup) ch.nonce c3 ⟨lg + b, hlde⟩ q255 hq with
            h3 | ⟨ps, h3, hps⟩
          · rw [h3] at h; cases h
          · rw [h3] at h
            simp only [] at h
            split at h
            · rename_i e he'
              injection h with h
              subst h
              exact checkOpenings_noabort H ef ch tc0 ps s he'
            · exact lowDegreeCheck_noabort H fp ef p.context.info p.context.options ch z deep alphas ps s
                lg b hlg3 hlen hb hadic' (by omega) (by rw [hcf.np]; exact Nat.pow_pos (by omega))
                hcf.fc hcf.fl hal hdiv hps h


/-! ### the top level -/

theorem u32op_release (x : Int) : ∃ v, Security.u32op .release x = some v := by
  unfold Security.u32op
  split
  · exact ⟨_, rfl⟩
  · exact ⟨_, rfl⟩

theorem bind_isSome {α β} {o : Option α} {f : α → Option β} (ho : ∃ a, o = some a)
    (hf : ∀ a, ∃ b, f a = some b) : ∃ b, o.bind f = some b := by
  obtain ⟨a, rfl⟩ := ho
  exact hf a

theorem conjectured_release_isSome (o : ProofOptions) (bits cr : Nat) (h : o.blowup ≠ 0) :
    ∃ v, Security.conjectured .release o bits cr = some v := by
  unfold Security.conjectured
  rw [if_neg h]
  refine bind_isSome (u32op_release _) (fun _ => ?_)
  refine bind_isSome (u32op_release _) (fun _ => ?_)
  refine bind_isSome ?_ (fun _ => ?_)
  · split
    · exact u32op_release _
    · exact ⟨_, rfl⟩
  · refine bind_isSome (u32op_release _) (fun _ => ⟨_, rfl⟩)

theorem validateOptions_noabort (H : HashParams) (acc : Security.Acceptable) (c : Context) (s : AbortSite)
    (hacc : ∀ bits, acc ≠ .minProven bits) (hb : c.options.blowup ≠ 0) :
    validateOptions H acc c ≠ .error (.abort s) := by
  intro h
  unfold validateOptions Security.acceptableOptionsValidate at h
  cases acc with
  | minConjectured m =>
    simp only [] at h
    obtain ⟨v, hv⟩ := conjectured_release_isSome c.options (Security.numModulusBits c.modulus)
      H.collisionResistance hb
    unfold Security.conjecturedOfContext at h
    rw [hv] at h
    simp only [] at h
    split at h
    all_goals first | (cases h; done) | skip
    rename_i heq
    split at heq <;> cases heq
  | minProven m => exact hacc m rfl
  | optionSet os =>
    simp only [] at h
    split at h
    all_goals first | (cases h; done) | skip
    rename_i heq
    split at heq <;> cases heq


theorem verifyIn_noabort (H : HashParams) (fp : FieldParams) (ef : EF F) (d : Desc) (pub : PubInputs)
    (p : ProofM) (ctx : Ctx) (seed : List Nat) (s : AbortSite)
    (hd : Decoded p) (hcc : ctx.numConstraintCompositionColumns ≤ 255)
    (hadic : (p.context.info.length * p.context.options.blowup).log2 ≤ fp.twoAdicity)
    (he : d.exemptions ≤ p.context.info.length)
    (hper : d.periodic.all (fun col => periodicColumnOk col.length p.context.info.length) = true)
    (hfit : assertionsFit fp.m d pub p.context.info = true)
    (hq : p.context.options.queries < p.context.info.length * p.context.options.blowup) :
    verifyIn H fp ef d pub p ctx seed ≠ .error (.abort s) := by
  intro h
  unfold verifyIn at h
  split at h
  · rename_i e he'
    injection h with h
    subst h
    exact channelNew_noabort fp ef ctx p s hd hcc he'
  · rename_i ch hch
    exact performVerification_noabort H fp ef d pub p ctx ch _ s hd (channelNew_facts fp ef ctx p ch hch)
      hadic he hper hfit hq h

/-- `verify` on a DECODED proof whose context fits the statement never panics -/
theorem verifyParsed_noabort (H : HashParams) (fs : FieldSet) (d : Desc) (pub : PubInputs)
    (acc : Security.Acceptable) (p : ProofM) (s : AbortSite)
    (hacc : ∀ bits, acc ≠ .minProven bits) (hfield : fieldOk fs.fp = true) (hd : Decoded p)
    (hfits : contextFits fs.fp d pub p.context = true) :
    verifyParsed H fs d pub acc p ≠ .error (.abort s) := by
  obtain ⟨lg, hlg3, hlg64, hlen⟩ := hd.len
  obtain ⟨q0, q255, hbp, hb2, hb128, hfp, hf2, hf16, _, _⟩ := validB_facts _ hd.opts
  unfold contextFits at hfits
  simp only [Bool.and_eq_true] at hfits
  obtain ⟨⟨hair, hper⟩, hfit⟩ := hfits
  have h8 : 8 ≤ p.context.info.length := by
    rw [hlen]
    calc 8 = 2 ^ 3 := rfl
      _ ≤ 2 ^ lg := Nat.pow_le_pow_right (by omega) hlg3
  intro h
  unfold verifyParsed at h
  split at h
  · rename_i e he'
    injection h with h
    subst h
    exact validateOptions_noabort H acc p.context s hacc (by omega) he'
  · split at h
    · cases h
    · rename_i hmod
      obtain ⟨els, hels⟩ := contextElements_isSome fs.fp p.context hfield (by simpa using hmod)
      rw [hels] at h
      simp only [] at h
      split at h
      · cases h
      · split at h
        · cases h
        · rename_i hadic hq
          split at h
          · cases h
          · split at h
            · rename_i hnone
              rw [hnone] at hair
              cases hair
            · rename_i ctx hctx
              obtain ⟨hex, hcc⟩ := airNew_facts d p.context.info p.context.options ctx hctx h8 hb128
              have hadic' : (p.context.info.length * p.context.options.blowup).log2 ≤ fs.fp.twoAdicity := by omega
              have hq' : p.context.options.queries < p.context.info.length * p.context.options.blowup := by omega
              split at h
              · exact verifyIn_noabort H fs.fp fs.e1 d pub p ctx _ s hd hcc hadic' hex hper hfit hq' h
              · split at h
                · split at h
                  · cases h
                  · exact verifyIn_noabort H fs.fp _ d pub p ctx _ s hd hcc hadic' hex hper hfit hq' h
                · split at h
                  · cases h
                  · exact verifyIn_noabort H fs.fp _ d pub p ctx _ s hd hcc hadic' hex hper hfit hq' h

/-- the whole verifier on ARBITRARY bytes -/
theorem verifyModel_noabort (H : HashParams) (fs : FieldSet) (d : Desc) (pub : PubInputs)
    (acc : Security.Acceptable) (bytes : Bytes) (s : AbortSite)
    (hacc : ∀ bits, acc ≠ .minProven bits) (hfield : fieldOk fs.fp = true)
    (hfits : ∀ p r, proofDec bytes = .ok p r → contextFits fs.fp d pub p.context = true) :
    verifyModel H fs d pub acc bytes ≠ .error (.abort s) := by
  intro h
  unfold verifyModel at h
  split at h
  · rename_i p r hp
    exact verifyParsed_noabort H fs d pub acc p s hacc hfield (proofDec_decoded bytes p r hp) (hfits p r hp) h
  · cases h
  · rename_i ha
    exact proof_noAbort bytes ha

end Wf.Verifier
