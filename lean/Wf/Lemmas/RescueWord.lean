/-
C16 helper lemmas: the permutation as the code computes it on stored f64 words (translated kernels)
equals the reference permutation — for every state of reduced words.

Route: stored words --(WR: reduced ∧ canonical value)--> ZMod p <--(NR: n < p ∧ cast)-- integers mod p
(`natOps p`, what the driver executes as reference).
-/
import Wf.Lemmas.RescueAlg
import Wf.Lemmas.RescueMds
namespace Wf.Rescue
open Wf.Gen

/-! ## integers mod p (`natOps p`) versus `ZMod p` -/

section nat
variable (p : Nat) [NeZero p]

/-- the arithmetic of `ZMod p` as `FieldOps` -/
def zops : FieldOps (ZMod p) := ringOps (ZMod p) (fun x => x⁻¹)

def NR (n : Nat) (z : ZMod p) : Prop := n < p ∧ (n : ZMod p) = z

theorem natRel : OpsRel (natOps p) (zops p) (NR p) where
  zero := ⟨Nat.pos_of_ne_zero (NeZero.ne p), by simp [natOps, zops, ringOps]⟩
  one := ⟨Nat.mod_lt _ (Nat.pos_of_ne_zero (NeZero.ne p)), by simp [natOps, zops, ringOps]⟩
  add := by
    rintro a b x y ⟨_, rfl⟩ ⟨_, rfl⟩
    exact ⟨Nat.mod_lt _ (Nat.pos_of_ne_zero (NeZero.ne p)), by simp [natOps, zops, ringOps]⟩
  sub := by
    rintro a b x y ⟨_, rfl⟩ ⟨_, rfl⟩
    refine ⟨Nat.mod_lt _ (Nat.pos_of_ne_zero (NeZero.ne p)), ?_⟩
    have hb : b % p ≤ p := Nat.le_of_lt (Nat.mod_lt _ (Nat.pos_of_ne_zero (NeZero.ne p)))
    simp only [natOps, zops, ringOps, ZMod.natCast_mod, Nat.cast_add, Nat.cast_sub hb, ZMod.natCast_self]
    ring
  mul := by
    rintro a b x y ⟨_, rfl⟩ ⟨_, rfl⟩
    exact ⟨Nat.mod_lt _ (Nat.pos_of_ne_zero (NeZero.ne p)), by simp [natOps, zops, ringOps]⟩
  square := by
    rintro a x ⟨_, rfl⟩
    exact ⟨Nat.mod_lt _ (Nat.pos_of_ne_zero (NeZero.ne p)), by simp [natOps, zops, ringOps]⟩
  ofNat := fun n _ => ⟨Nat.mod_lt _ (Nat.pos_of_ne_zero (NeZero.ne p)), by simp [natOps, zops, ringOps]⟩

theorem NR_inj {a b : Nat} {z : ZMod p} (ha : NR p a z) (hb : NR p b z) : a = b := by
  have h : (a : ZMod p) = (b : ZMod p) := ha.2.trans hb.2.symm
  rw [ZMod.natCast_eq_natCast_iff'] at h
  rw [Nat.mod_eq_of_lt ha.1, Nat.mod_eq_of_lt hb.1] at h
  exact h

theorem forall2_NR_mod (st : List Nat) : List.Forall₂ (NR p) (st.map (· % p)) (st.map (fun v => ((v : Nat) : ZMod p))) := by
  induction st with
  | nil => exact .nil
  | cons v st ih =>
    exact .cons ⟨Nat.mod_lt _ (Nat.pos_of_ne_zero (NeZero.ne p)), ZMod.natCast_mod v p⟩ ih

end nat

/-! ## stored f64 words versus `ZMod p` -/

abbrev p64 : Nat := Wf.F64.p
theorem p64_eq : p64 = Wf.P64 := rfl
instance : NeZero p64 := ⟨by decide⟩
instance : Fact p64.Prime := ⟨p64_eq ▸ Wf.P64_prime⟩
abbrev Z64 := ZMod p64

/-- canonical value of a stored word, in `ZMod p` -/
def zval (w : W) : Z64 := ((Wf.F64.val w : Nat) : Z64)

/-- reduced word with value `z` -/
def WR (w : W) (z : Z64) : Prop := Wf.F64.Rep w ∧ zval w = z

theorem zval_eq (w : W) : zval w = (w.toNat : Z64) * (Wf.F64.Rinv : Z64) := by
  unfold zval Wf.F64.val
  rw [ZMod.natCast_mod, Nat.cast_mul]

theorem zval_of_mod {w : W} {n : Nat} (h : w.toNat % p64 = n % p64) : zval w = (n : Z64) * (Wf.F64.Rinv : Z64) := by
  rw [zval_eq]
  congr 1
  exact (ZMod.natCast_eq_natCast_iff' _ _ _).mpr h

theorem w_ofNat (n : Nat) (hn : n < 2 ^ 64) : WR (F64.baseOps.ofNat n) (n : Z64) := by
  have h := Wf.F64.new_spec (BitVec.ofNat 64 n)
  refine ⟨h.1, ?_⟩
  show zval (Wf.Gen.F64.new (BitVec.ofNat 64 n)) = _
  unfold zval
  rw [h.2, BitVec.toNat_ofNat, Nat.mod_eq_of_lt hn, ZMod.natCast_mod]

theorem wordRel : OpsRel F64.baseOps (zops p64) WR where
  zero := by
    have := w_ofNat 0 (by decide)
    rw [Nat.cast_zero] at this
    exact this
  one := by
    have := w_ofNat 1 (by decide)
    rw [Nat.cast_one] at this
    exact this
  add := by
    rintro a b x y ⟨ha, rfl⟩ ⟨hb, rfl⟩
    obtain ⟨h1, h2⟩ := Wf.F64.add_spec a b ha hb
    refine ⟨h1, ?_⟩
    show zval (Wf.Gen.F64.add a b) = zval a + zval b
    unfold zval
    rw [h2, ZMod.natCast_mod, Nat.cast_add]
  sub := by
    rintro a b x y ⟨ha, rfl⟩ ⟨hb, rfl⟩
    obtain ⟨h1, h2⟩ := Wf.F64.sub_spec a b ha hb
    refine ⟨h1, ?_⟩
    show zval (Wf.Gen.F64.sub a b) = zval a - zval b
    unfold zval
    have hle : Wf.F64.val b ≤ p64 := Nat.le_of_lt (Wf.F64.val_lt b)
    rw [h2, ZMod.natCast_mod, Nat.cast_add, Nat.cast_sub hle, ZMod.natCast_self]
    ring
  mul := by
    rintro a b x y ⟨ha, rfl⟩ ⟨hb, rfl⟩
    obtain ⟨h1, h2⟩ := Wf.F64.mul_spec a b ha hb
    refine ⟨h1, ?_⟩
    show zval (Wf.Gen.F64.mul a b) = zval a * zval b
    unfold zval
    rw [h2, ZMod.natCast_mod, Nat.cast_mul]
  square := by
    rintro a x ⟨ha, rfl⟩
    obtain ⟨h1, h2⟩ := Wf.F64.mul_spec a a ha ha
    refine ⟨h1, ?_⟩
    show zval (Wf.Gen.F64.mul a a) = zval a * zval a
    unfold zval
    rw [h2, ZMod.natCast_mod, Nat.cast_mul]
  ofNat := fun n hn => w_ofNat n hn

/-! ## the linear layer on words -/

theorem foldl_add_shiftZ (xs : List Z64) (a : Z64) : xs.foldl (· + ·) a = a + xs.foldl (· + ·) 0 := by
  induction xs generalizing a with
  | nil => simp
  | cons x xs ih => simp only [List.foldl_cons]; rw [ih, ih (0 + x)]; ring

/-- Σ c_j·n_j cast to `ZMod p` and scaled = the reference dot product of the casts -/
theorem dot_cast (c : Z64) : ∀ (row ns : List Nat),
    ((dotN row ns : Nat) : Z64) * c = dot (zops p64) (row.map (zops p64).ofNat) (ns.map (fun (n : Nat) => (n : Z64) * c)) := by
  intro row
  induction row with
  | nil => intro ns; simp [dotN, dot, zops, ringOps]
  | cons r row ih =>
    intro ns
    cases ns with
    | nil => simp [dotN, dot, zops, ringOps]
    | cons n ns =>
      have := ih ns
      simp only [dot, zops, ringOps, List.map_cons, List.zipWith_cons_cons, List.foldl_cons] at this ⊢
      rw [dotN_cons, foldl_add_shiftZ, ← this]
      push_cast
      ring

/-- relation after `mds_multiply`: the value is right, the word need not be reduced -/
def WV (w : W) (z : Z64) : Prop := zval w = z

theorem forall2_map_same {α β γ : Type} {R : β → γ → Prop} (f : α → β) (g : α → γ) :
    ∀ (t : List α), (∀ r ∈ t, R (f r) (g r)) → List.Forall₂ R (t.map f) (t.map g)
  | [], _ => .nil
  | r :: t, h => .cons (h r (by simp)) (forall2_map_same f g t (fun r' hr' => h r' (by simp [hr'])))

theorem forall2_zval {st : List W} {zs : List Z64} (h : List.Forall₂ WR st zs) : st.map zval = zs := by
  induction h with
  | nil => rfl
  | cons h _ ih => simp only [List.map_cons, ih, h.2]

theorem forall2_length {α β : Type} {R : α → β → Prop} {a : List α} {b : List β} (h : List.Forall₂ R a b) :
    a.length = b.length := by
  induction h with
  | nil => rfl
  | cons _ _ ih => simp [ih]

/-- the frequency-domain product (in its lane form) computes the reference matrix–vector product of
the values, WHATEVER the words are (reduced or not) -/
theorem lin_val (mds : List (List Nat)) (hsum : ∀ row ∈ mds, row.sum < 2 ^ 32) (st : List W) :
    List.Forall₂ WV (mds.map (fun row => mdsFold (dotW row (st.map lo)) (dotW row (st.map hi))))
      (matVec (zops p64) (tableOf (zops p64) mds) (st.map zval)) := by
  unfold matVec tableOf
  rw [List.map_map]
  apply forall2_map_same
  intro row hrow
  show zval _ = dot (zops p64) (row.map (zops p64).ofNat) (st.map zval)
  rw [zval_of_mod (mds_lane_spec row st (hsum row hrow)), dot_cast]
  congr 1
  rw [List.map_map]
  apply List.map_congr_left
  intro w _
  exact (zval_eq w).symm

theorem lin_rel (mds : List (List Nat)) (hsum : ∀ row ∈ mds, row.sum < 2 ^ 32) {st : List W} {zs : List Z64}
    (h : List.Forall₂ WR st zs) :
    List.Forall₂ WV (mds.map (fun row => mdsFold (dotW row (st.map lo)) (dotW row (st.map hi))))
      (matVec (zops p64) (tableOf (zops p64) mds) zs) := by
  rw [← forall2_zval h]
  exact lin_val mds hsum st

theorem forall2_WV {ws : List W} {zs : List Z64} (h : List.Forall₂ WV ws zs) : ws.map zval = zs := by
  induction h with
  | nil => rfl
  | cons h _ ih => simp only [List.map_cons, ih]; rw [h]

theorem forall2_WR_of_rep : ∀ (st : List W), (∀ w ∈ st, Wf.F64.Rep w) → List.Forall₂ WR st (st.map zval)
  | [], _ => .nil
  | w :: st, h => .cons ⟨h w (by simp), rfl⟩ (forall2_WR_of_rep st (fun w' hw' => h w' (by simp [hw'])))

theorem forall2_WR_split {ws : List W} {zs : List Z64} (h : List.Forall₂ WR ws zs) :
    (∀ w ∈ ws, Wf.F64.Rep w) ∧ ws.map zval = zs := by
  refine ⟨?_, forall2_zval h⟩
  induction h with
  | nil => intro w hw; simp at hw
  | cons h _ ih =>
    intro w hw
    rcases List.mem_cons.mp hw with rfl | hw
    · exact h.1
    · exact ih w hw

/-- two lists related to the same `ZMod p` list through `NR` are equal -/
theorem forall2_NR_inj (p : Nat) [NeZero p] : ∀ {a b : List Nat} {z : List (ZMod p)},
    List.Forall₂ (NR p) a z → List.Forall₂ (NR p) b z → a = b
  | _, _, _, .nil, .nil => rfl
  | _, _, _, .cons h1 t1, .cons h2 t2 => by rw [NR_inj p h1 h2, forall2_NR_inj p t1 t2]

/-! ## `add_constants` re-normalises -/

/-- a round-constant row: right length, `u64` literals, stored words at most `M − 2^32 + 1` -/
def rowGood (n : Nat) (row : List Nat) : Prop :=
  row.length = n ∧ ∀ c ∈ row, c < 2 ^ 64 ∧ F64.baseOps.ofNat c ≤ 0xfffffffe00000002#64

instance (n : Nat) (row : List Nat) : Decidable (rowGood n row) := by unfold rowGood; infer_instance

theorem add_const_rel {w : W} {z : Z64} (hw : WV w z) (c : Nat) (hc : c < 2 ^ 64)
    (hb : F64.baseOps.ofNat c ≤ 0xfffffffe00000002#64) :
    WR (F64.baseOps.add w (F64.baseOps.ofNat c)) ((zops p64).add z ((zops p64).ofNat c)) := by
  obtain ⟨h1, h2⟩ := add_any_spec w _ hb
  refine ⟨h1, ?_⟩
  have hk := (w_ofNat c hc).2
  rw [zval_eq] at hk
  show zval (Wf.Gen.F64.add w (F64.baseOps.ofNat c)) = z + (c : Z64)
  rw [zval_of_mod h2, ← hw, zval_eq, ← hk]
  push_cast
  ring

theorem addRow_rel : ∀ {ws : List W} {zs : List Z64} (row : List Nat), List.Forall₂ WV ws zs →
    (∀ c ∈ row, c < 2 ^ 64 ∧ F64.baseOps.ofNat c ≤ 0xfffffffe00000002#64) →
    List.Forall₂ WR (addVec F64.baseOps ws (row.map F64.baseOps.ofNat)) (addVec (zops p64) zs (row.map (zops p64).ofNat))
  | _, _, [], _, _ => by simp [addVec]
  | _, _, _ :: _, .nil, _ => by simp [addVec]
  | _, _, c :: row, .cons hw hws, hrow => by
    simp only [addVec, List.map_cons, List.zipWith_cons_cons]
    exact .cons (add_const_rel hw c (hrow c (by simp)).1 (hrow c (by simp)).2)
      (addRow_rel row hws (fun d hd => hrow d (by simp [hd])))

/-! ## one half round, one round, the permutation -/

/-- what is needed of the linear layer: on states of the right width it is the lane form -/
structure LinOk (n : Nat) (mds : List (List Nat)) (lin : List W → List W) : Prop where
  len : mds.length = n
  sum : ∀ row ∈ mds, row.sum < 2 ^ 32
  eq : ∀ st : List W, st.length = n → lin st = mds.map (fun row => mdsFold (dotW row (st.map lo)) (dotW row (st.map hi)))

theorem half64 {n : Nat} {mds : List (List Nat)} {lin : List W → List W} (hl : LinOk n mds lin)
    {sb : W → W} {e : Nat} (hsb : ∀ {a x}, WR a x → WR (sb a) (pow (zops p64) x e))
    (row : List Nat) (hrow : rowGood n row) {st : List W} {zs : List Z64}
    (h : List.Forall₂ WR st zs) (hn : st.length = n) :
    List.Forall₂ WR (codeHalf F64.baseOps sb lin (row.map F64.baseOps.ofNat) st)
      (refHalf (zops p64) mds e (row.map (zops p64).ofNat) zs) ∧
    (codeHalf F64.baseOps sb lin (row.map F64.baseOps.ofNat) st).length = n := by
  have h1 : List.Forall₂ WR (st.map sb) (zs.map (fun x => pow (zops p64) x e)) := map_rel hsb h
  have h2 := lin_rel mds hl.sum h1
  rw [← hl.eq (st.map sb) (by simp [hn])] at h2
  refine ⟨addRow_rel row h2 hrow.2, ?_⟩
  have := forall2_length h2
  simp only [codeHalf, addVec, List.length_zipWith, List.length_map, hrow.1]
  rw [this]
  simp [matVec, tableOf, hl.len]

theorem rowGood_getD {n : Nat} {t : List (List Nat)} (ht : ∀ row ∈ t, rowGood n row) {i : Nat} (hi : i < t.length) :
    rowGood n (t.getD i []) := by
  rw [List.getD_eq_getElem?_getD, List.getElem?_eq_getElem hi]
  exact ht _ (List.getElem_mem hi)

/-- the code permutation on reduced words is the reference permutation on their values -/
theorem code64_rel (P : Params) {n : Nat} {lin : List W → List W} (hl : LinOk n P.mds lin)
    {sb isb : W → W}
    (hsb : ∀ {a x}, WR a x → WR (sb a) (pow (zops p64) x P.alpha))
    (hisb : ∀ {a x}, WR a x → WR (isb a) (pow (zops p64) x P.invAlpha))
    (h1 : ∀ row ∈ P.ark1, rowGood n row) (h2 : ∀ row ∈ P.ark2, rowGood n row)
    (hr1 : P.ark1.length = P.rounds) (hr2 : P.ark2.length = P.rounds)
    {st : List W} {zs : List Z64} (h : List.Forall₂ WR st zs) (hn : st.length = n) :
    List.Forall₂ WR (codePerm F64.baseOps P sb isb lin st) (refPerm (zops p64) P zs) ∧
      (codePerm F64.baseOps P sb isb lin st).length = n := by
  unfold codePerm refPerm
  have key : ∀ (is : List Nat), (∀ i ∈ is, i < P.rounds) → ∀ {st : List W} {zs : List Z64},
      List.Forall₂ WR st zs → st.length = n →
      List.Forall₂ WR (is.foldl (codeRound F64.baseOps P sb isb lin) st) (is.foldl (refRound (zops p64) P) zs) ∧
        (is.foldl (codeRound F64.baseOps P sb isb lin) st).length = n := by
    intro is
    induction is with
    | nil => intro _ st zs h hn; exact ⟨h, hn⟩
    | cons i is ih =>
      intro hi st zs h hn
      have hi0 : i < P.rounds := hi i (by simp)
      obtain ⟨a1, a2⟩ := half64 hl hsb _ (rowGood_getD h1 (hr1 ▸ hi0)) h hn
      obtain ⟨b1, b2⟩ := half64 hl hisb _ (rowGood_getD h2 (hr2 ▸ hi0)) a1 a2
      exact ih (fun j hj => hi j (by simp [hj])) b1 b2
  exact key _ (fun i hi => List.mem_range.mp hi) h hn

/-- canonical values in / out: code on words = reference on integers mod p -/
theorem code64_values (P : Params) (hP : P.Ok) (hp : P.p = p64) {n : Nat} {code : List W → List W}
    (hcode : ∀ {st : List W} {zs : List Z64}, List.Forall₂ WR st zs → st.length = n →
      List.Forall₂ WR (code st) (refPerm (zops p64) P zs))
    (st : List Nat) (hn : st.length = n) (hst : ∀ v ∈ st, v < 2 ^ 64) :
    (code (st.map w64)).map v64 = refPerm (natOps P.p) P (st.map (· % P.p)) := by
  rw [hp]
  have hw : List.Forall₂ WR (st.map w64) (st.map (fun v => ((v : Nat) : Z64))) := by
    apply forall2_map_same
    intro v hv
    exact w_ofNat v (hst v hv)
  have h1 := hcode hw (by simp [hn])
  have h2 := refPerm_rel (natRel p64) P hP (forall2_NR_mod p64 st)
  generalize code (st.map w64) = ws at h1
  generalize refPerm (natOps p64) P (st.map (· % p64)) = ns at h2
  generalize refPerm (zops p64) P (st.map (fun v => ((v : Nat) : Z64))) = zs at h1 h2
  clear hw
  induction h1 generalizing ns with
  | nil => cases h2; rfl
  | @cons w z ws zs hwz _ ih =>
    cases h2 with
    | @cons m _ ms _ hm hms =>
      simp only [List.map_cons, List.cons.injEq]
      refine ⟨?_, ih _ hms⟩
      show (Wf.Gen.F64.mont_to_int w).toNat = m
      rw [Wf.F64.as_int_spec]
      exact NR_inj p64 ⟨Wf.F64.val_lt w, hwz.2⟩ hm

end Wf.Rescue
