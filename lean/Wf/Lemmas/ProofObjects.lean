/- Helper lemmas for the protocol-object codecs (C07 / C05 / C24). Core Lean only. -/
import Wf.Lemmas.Codec
import Wf.Model.ProofObjects
namespace Wf

theorem readU8_append (v : Nat) (r : Bytes) (h : v < 256) : readU8 (leBytes 1 v ++ r) = .ok v r :=
  readLe_append 1 v r (by simpa using h)

theorem readU8_cons (v : Nat) (r : Bytes) (h : v < 256) : readU8 (UInt8.ofNat v :: r) = .ok v r := by
  have := readU8_append v r h
  simpa [leBytes, Nat.mod_eq_of_lt h] using this

theorem readU16_append (v : Nat) (r : Bytes) (h : v < 65536) : readU16 (leBytes 2 v ++ r) = .ok v r :=
  readLe_append 2 v r (by simpa using h)

theorem lenBytes_roundtrip (w : Nat) (bs r : Bytes) (h : bs.length < 256 ^ w) :
    lenBytesDec w (lenBytesEnc w bs ++ r) = .ok bs r := by
  unfold lenBytesDec lenBytesEnc
  rw [List.append_assoc, readLe_append w _ _ h]
  exact readSlice_append bs r

theorem lenBytes_noAbort (w : Nat) : NoAbort (lenBytesDec w) := by
  intro bs h
  unfold lenBytesDec at h
  split at h
  · exact readSlice_noAbort _ _ h
  · cases h
  · rename_i h'; exact readLe_noAbort _ _ h'

theorem pow2B_two_pow (k : Nat) : pow2B (2 ^ k) = true := by
  unfold pow2B
  have h1 : (2 ^ k != 0) = true := by simp
  have h2 : 2 ^ k &&& (2 ^ k - 1) = 0 := by
    apply Nat.eq_of_testBit_eq
    intro i
    rw [Nat.testBit_and, Nat.testBit_two_pow, Nat.testBit_two_pow_sub_one]
    by_cases h : k = i <;> simp [h]
  simp [h2]

end Wf
