/- Helper lemmas for the protocol-object codecs (C07 / C05 / C24). Core Lean only. -/
import Wf.Lemmas.Codec
import Wf.Model.ProofObjects
namespace Wf

theorem readU8_append (v : Nat) (r : Bytes) (h : v < 256) : readU8 (leBytes 1 v ++ r) = .ok v r :=
  readLe_append 1 v r (by simpa using h)

theorem readU8_cons (v : Nat) (r : Bytes) (h : v < 256) : readU8 (UInt8.ofNat v :: r) = .ok v r := by
  have := readU8_append v r h
  simpa [leBytes, Nat.mod_eq_of_lt h] using this

theorem readU16_append (v : Nat) (r : Bytes) (h : v < 65536) : readU16 (leBytes 2 v ++ r) = .ok v r :=
  readLe_append 2 v r (by simpa using h)

theorem lenBytes_roundtrip (w : Nat) (bs r : Bytes) (h : bs.length < 256 ^ w) :
    lenBytesDec w (lenBytesEnc w bs ++ r) = .ok bs r := by
  unfold lenBytesDec lenBytesEnc
  rw [List.append_assoc, readLe_append w _ _ h]
  exact readSlice_append bs r

theorem lenBytes_noAbort (w : Nat) : NoAbort (lenBytesDec w) := by
  intro bs h
  unfold lenBytesDec at h
  split at h
  · exact readSlice_noAbort _ _ h
  · cases h
  · rename_i h'; exact readLe_noAbort _ _ h'

theorem pow2B_two_pow (k : Nat) : pow2B (2 ^ k) = true := by
  unfold pow2B
  have h1 : (2 ^ k != 0) = true := by simp
  have h2 : 2 ^ k &&& (2 ^ k - 1) = 0 := by
    apply Nat.eq_of_testBit_eq
    intro i
    rw [Nat.testBit_and, Nat.testBit_two_pow, Nat.testBit_two_pow_sub_one]
    by_cases h : k = i <;> simp [h]
  simp [h2]

end Wf

namespace Wf

/-- close a goal `h : <decoder applied to bs> = Out.abort ⊢ False` by walking through every
    `match` / `if` of the decoder; the leaves are no-abort facts of the primitive readers -/
macro "noabort_walk" h:ident : tactic => `(tactic|
  (repeat' (first
    | (cases $h:ident; done)
    | (split at $h:ident))))

theorem traceInfo_decode_noAbort : NoAbort TraceInfo.decode := by
  intro bs h
  unfold TraceInfo.decode at h
  noabort_walk h
  all_goals (first
    | (rename_i h'; exact readLe_noAbort _ _ h')
    | (rename_i h'; exact readSlice_noAbort _ _ h'))

theorem dec_bind_noAbort {α β} (d : Dec α) (f : α → Dec β) (hd : NoAbort d) (hf : ∀ a, NoAbort (f a)) :
    NoAbort (Dec.bind d f) := by
  intro bs h
  unfold Dec.bind at h
  split at h
  · exact hf _ _ h
  · cases h
  · rename_i h'; exact hd _ h'

theorem readTag_noAbort (v : Nat → Bool) : NoAbort (ProofOptions.readTag v) := by
  intro bs h
  unfold ProofOptions.readTag at h
  noabort_walk h
  rename_i h'; exact readLe_noAbort _ _ h'

theorem proofOptions_decode_noAbort : NoAbort ProofOptions.decode :=
  dec_bind_noAbort _ _ (readLe_noAbort 1) fun _ =>
  dec_bind_noAbort _ _ (readLe_noAbort 1) fun _ =>
  dec_bind_noAbort _ _ (readLe_noAbort 1) fun _ =>
  dec_bind_noAbort _ _ (readTag_noAbort _) fun _ =>
  dec_bind_noAbort _ _ (readLe_noAbort 1) fun _ =>
  dec_bind_noAbort _ _ (readLe_noAbort 1) fun _ =>
  dec_bind_noAbort _ _ (readTag_noAbort _) fun _ =>
  dec_bind_noAbort _ _ (readTag_noAbort _) fun _ =>
  dec_bind_noAbort _ _ (readLe_noAbort 1) fun _ =>
  dec_bind_noAbort _ _ (readLe_noAbort 1) fun _ => by
    intro bs h
    simp only [] at h
    split at h <;> cases h

theorem context_decode_noAbort : NoAbort Context.decode := by
  intro bs h
  unfold Context.decode at h
  noabort_walk h
  all_goals (first
    | (rename_i h'; exact readLe_noAbort _ _ h')
    | (rename_i h'; exact readSlice_noAbort _ _ h')
    | (rename_i h'; exact traceInfo_decode_noAbort _ h')
    | (rename_i h'; exact proofOptions_decode_noAbort _ h')
    | (rename_i h'; exact readUsize_noAbort _ h'))

theorem oodFrame_noAbort : NoAbort oodFrameDec := by
  intro bs h
  unfold oodFrameDec at h
  noabort_walk h
  all_goals (rename_i h'; exact lenBytes_noAbort 2 _ h')

theorem friLayer_noAbort : NoAbort friLayerDec := by
  intro bs h
  unfold friLayerDec at h
  noabort_walk h
  all_goals (first
    | (rename_i h'; exact readLe_noAbort _ _ h')
    | (rename_i h'; exact readSlice_noAbort _ _ h')
    | (rename_i h'; exact lenBytes_noAbort 4 _ h'))

theorem friProof_noAbort : NoAbort friProofDec := by
  intro bs h
  unfold friProofDec at h
  noabort_walk h
  all_goals (first
    | (rename_i h'; exact readLe_noAbort _ _ h')
    | (rename_i h'; exact lenBytes_noAbort 2 _ h')
    | (rename_i h'; exact readMany_noAbort _ friLayer_noAbort _ _ _ h'))

theorem bytesVec_noAbort : NoAbort bytesVec.dec := by
  intro bs h
  simp only [bytesVec] at h
  noabort_walk h
  rename_i h'; exact readUsize_noAbort _ h'

theorem queries_noAbort : NoAbort queriesCodec.dec := by
  intro bs h
  simp only [queriesCodec, Codec.pair] at h
  noabort_walk h
  all_goals (rename_i h'; exact bytesVec_noAbort _ h')

theorem proof_noAbort : NoAbort proofDec := by
  intro bs h
  unfold proofDec at h
  noabort_walk h
  all_goals (first
    | (rename_i h'; exact readLe_noAbort _ _ h')
    | (rename_i h'; exact context_decode_noAbort _ h')
    | (rename_i h'; exact lenBytes_noAbort 2 _ h')
    | (rename_i h'; exact readManyLoop_noAbort _ queries_noAbort _ _ _ h')
    | (rename_i h'; exact queries_noAbort _ h')
    | (rename_i h'; exact oodFrame_noAbort _ h')
    | (rename_i h'; exact friProof_noAbort _ h'))

end Wf
