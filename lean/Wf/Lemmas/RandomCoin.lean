/-
Helper lemmas for C20: trailing zeros, power-of-two test, the two loops of the coin, and the
element decoder used by `draw`.  Core Lean only.
-/
import Wf.Model.RandomCoin
import Wf.Lemmas.Serde
namespace Wf

/-! ## trailing zeros -/

theorem tzAux_spec (f v : Nat) (hv : v ≠ 0) (hf : v < 2 ^ f) :
    2 ^ tzAux f v ∣ v ∧ ¬ 2 ^ (tzAux f v + 1) ∣ v := by
  induction f generalizing v with
  | zero => simp at hf; omega
  | succ f ih =>
    unfold tzAux
    split
    · rename_i h1
      refine ⟨by simp, ?_⟩
      intro hd
      have : v % 2 = 0 := Nat.mod_eq_zero_of_dvd (by simpa using hd)
      omega
    · rename_i h1
      obtain ⟨w, hw⟩ : ∃ w, v = 2 * w := ⟨v / 2, by omega⟩
      subst hw
      have hdiv : 2 * w / 2 = w := by omega
      rw [hdiv]
      obtain ⟨a, b⟩ := ih w (by omega) (by rw [Nat.pow_succ] at hf; omega)
      constructor
      · rw [Nat.add_comm, Nat.pow_succ, Nat.mul_comm (2 ^ _) 2]
        exact Nat.mul_dvd_mul_left 2 a
      · intro hd
        apply b
        rw [Nat.add_comm 1, Nat.pow_succ, Nat.mul_comm] at hd
        exact Nat.dvd_of_mul_dvd_mul_left (k := 2) (by decide) hd

theorem trailingZeros64_zero : trailingZeros64 0 = 64 := rfl

theorem trailingZeros64_spec (v : Nat) (hv : v ≠ 0) (h64 : v < 2 ^ 64) :
    2 ^ trailingZeros64 v ∣ v ∧ ¬ 2 ^ (trailingZeros64 v + 1) ∣ v ∧ trailingZeros64 v < 64 := by
  unfold trailingZeros64
  rw [if_neg hv]
  obtain ⟨a, b⟩ := tzAux_spec 64 v hv h64
  refine ⟨a, b, ?_⟩
  have hle : 2 ^ tzAux 64 v ≤ v := Nat.le_of_dvd (by omega) a
  exact (Nat.pow_lt_pow_iff_right (by decide : 1 < 2)).mp (Nat.lt_of_le_of_lt hle h64)

/-! ## power-of-two test -/

theorem coinIsPow2_iff (n : Nat) : coinIsPow2 n = true ↔ ∃ k, n = 2 ^ k := by
  unfold coinIsPow2
  rw [beq_iff_eq]
  constructor
  · intro h; exact ⟨_, h.symm⟩
  · rintro ⟨k, rfl⟩; rw [Nat.log2_two_pow]

/-! ## the element decoder of `draw` -/

theorem readExt_spec (f : FieldParams) (d : Nat) (acc : List Nat) (bs : Bytes) (vs : List Nat) (rest : Bytes)
    (h : f.readExt d acc bs = .ok vs rest) :
    ∃ new, vs = acc.reverse ++ new ∧ new.length = d ∧ ∀ x ∈ new, x < f.m := by
  induction d generalizing acc bs with
  | zero =>
    simp only [FieldParams.readExt, Out.ok.injEq] at h
    exact ⟨[], by simp [h.1], rfl, by simp⟩
  | succ d ih =>
    simp only [FieldParams.readExt] at h
    split at h
    · rename_i v r hr
      obtain ⟨new, h1, h2, h3⟩ := ih (v :: acc) r h
      refine ⟨v :: new, by simp [h1], by simp [h2], ?_⟩
      intro x hx
      simp only [List.mem_cons] at hx
      rcases hx with hx | hx
      · subst hx
        unfold FieldParams.read at hr
        split at hr
        · split at hr
          · cases hr
          · cases hr; omega
        · cases hr
        · cases hr
      · exact h3 x hx
    · cases h
    · cases h

theorem fromRandomBytes_spec (f : FieldParams) (deg : Nat) (bs : Bytes) (e : List Nat)
    (h : fromRandomBytes f deg bs = some e) : e.length = deg ∧ ∀ x ∈ e, x < f.m := by
  unfold fromRandomBytes at h
  split at h
  · cases h
  · split at h
    · rename_i vs r hr
      cases h
      obtain ⟨new, h1, h2, h3⟩ := readExt_spec f deg [] bs _ r hr
      simp only [List.reverse_nil, List.nil_append] at h1
      subst h1
      exact ⟨h2, h3⟩
    · cases h

namespace Coin
variable {D : Type} (H : CoinHasher D)

/-! ## `draw` -/

theorem drawLoop_spec (f : FieldParams) (deg : Nat) (k : Nat) (c : Coin D) :
    (drawLoop H f deg k c).1.seed = c.seed ∧
    (match (drawLoop H f deg k c).2 with
     | some e => e.length = deg ∧ (∀ x ∈ e, x < f.m) ∧
        ∃ t, 1 ≤ t ∧ t ≤ k ∧ (drawLoop H f deg k c).1.counter = c.counter + t ∧
          candidate H f deg (H.mergeWithInt c.seed (c.counter + t)) = some e ∧
          ∀ j, 1 ≤ j → j < t → candidate H f deg (H.mergeWithInt c.seed (c.counter + j)) = none
     | none => (drawLoop H f deg k c).1.counter = c.counter + k ∧
          ∀ j, 1 ≤ j → j ≤ k → candidate H f deg (H.mergeWithInt c.seed (c.counter + j)) = none) := by
  induction k generalizing c with
  | zero =>
    simp only [drawLoop, Nat.add_zero, true_and]
    intro j a b; omega
  | succ k ih =>
    unfold drawLoop
    split
    · rename_i e he
      refine ⟨rfl, ?_⟩
      simp only [next] at he ⊢
      obtain ⟨h1, h2⟩ := fromRandomBytes_spec f deg _ e he
      exact ⟨h1, h2, 1, Nat.le_refl _, by omega, rfl, he, fun j a b => by omega⟩
    · rename_i hn
      obtain ⟨hs, hrest⟩ := ih (next H c).1
      refine ⟨by rw [hs]; rfl, ?_⟩
      simp only [next] at hn hs hrest ⊢
      split
      · rename_i e he
        rw [he] at hrest
        obtain ⟨h1, h2, t, t1, t2, t3, t4, t5⟩ := hrest
        refine ⟨h1, h2, t + 1, by omega, by omega, by rw [t3]; omega, ?_, ?_⟩
        · rw [← t4]; congr 2; omega
        · intro j j1 j2
          by_cases hj : j = 1
          · subst hj; exact hn
          · have := t5 (j - 1) (by omega) (by omega)
            rw [← this]; congr 2; omega
      · rename_i he
        rw [he] at hrest
        obtain ⟨t3, t5⟩ := hrest
        refine ⟨by rw [t3]; omega, ?_⟩
        intro j j1 j2
        by_cases hj : j = 1
        · subst hj; exact hn
        · have := t5 (j - 1) (by omega) (by omega)
          rw [← this]; congr 2; omega

/-! ## `draw_integers` -/

/-- the `m` values still missing are drawn in `m ≤ k` iterations: counter values `c+1 .. c+m` -/
theorem intLoop_exact (mask n : Nat) (m k : Nat) (c : Coin D) (vals : List Nat)
    (hk : m ≤ k) (hn : n = vals.length + m) :
    intLoop H mask n k c vals =
      (⟨c.seed, c.counter + m⟩,
       vals ++ (List.range m).map (fun i => intValue H mask (H.mergeWithInt c.seed (c.counter + i + 1)))) := by
  induction k generalizing m c vals with
  | zero =>
    have : m = 0 := by omega
    subst this
    simp [intLoop]
  | succ k ih =>
    unfold intLoop
    by_cases h0 : m = 0
    · subst h0
      rw [if_pos (by omega)]
      simp
    · rw [if_neg (by omega)]
      rw [ih (m - 1) (next H c).1 _ (by omega) (by simp [hn]; omega)]
      simp only [next]
      have hm' : m = (m - 1) + 1 := by omega
      conv => rhs; rw [hm', List.range_succ_eq_map]
      simp only [List.map_cons, List.map_map, List.append_assoc, List.cons_append, List.nil_append,
        Nat.add_zero]
      refine Prod.ext (by simp; omega) ?_
      simp only
      congr 2
      apply List.map_congr_left
      intro i _
      simp only [Function.comp_apply]
      congr 2
      omega

/-- a request for more values than iterations are left: the loop runs to the end -/
theorem intLoop_exhaust (mask n : Nat) (k : Nat) (c : Coin D) (vals : List Nat)
    (h : vals.length + k < n) :
    (intLoop H mask n k c vals).2.length = vals.length + k ∧
    (intLoop H mask n k c vals).1 = ⟨c.seed, c.counter + k⟩ := by
  induction k generalizing c vals with
  | zero => simp [intLoop]
  | succ k ih =>
    unfold intLoop
    rw [if_neg (by omega)]
    obtain ⟨a, b⟩ := ih (next H c).1 (vals ++ [intValue H mask (next H c).2]) (by simp; omega)
    exact ⟨by rw [a]; simp; omega, by rw [b]; simp [next]; omega⟩

end Coin
end Wf
