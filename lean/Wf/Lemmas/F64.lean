/-
f64 (p = 2^64 − 2^32 + 1, Montgomery form): the generated kernels compute arithmetic modulo p.
Lifts the bit-level lemmas of `F64Bv` to statements about canonical values.
Core Lean + Std only.
-/
import Wf.Lemmas.F64Bv
namespace Wf.F64
open Wf.Gen.F64

/-- the documented modulus -/
def p : Nat := 18446744069414584321
/-- 2^(-64) mod p -/
def Rinv : Nat := 18446744065119617025

theorem p_eq : p = 2 ^ 64 - 2 ^ 32 + 1 := by decide
theorem M_toNat : M.toNat = p := by decide
theorem M65_toNat : (z65 M).toNat = p := by decide
theorem R_Rinv : 2 ^ 64 * Rinv % p = 1 := by decide

/-- representation invariant: the stored word is a reduced Montgomery residue -/
def Rep (x : BitVec 64) : Prop := x < M
/-- canonical value of a stored word: x · 2^(-64) mod p -/
def val (x : BitVec 64) : Nat := x.toNat * Rinv % p

theorem rep_iff (x : BitVec 64) : Rep x ↔ x.toNat < p := by
  unfold Rep; rw [BitVec.lt_def, M_toNat]

theorem val_lt (x : BitVec 64) : val x < p := Nat.mod_lt _ (by decide)

theorem val_of_modEq (x : BitVec 64) (n : Nat) (h : x.toNat % p = n % p) : val x = n * Rinv % p := by
  unfold val; rw [Nat.mul_mod, h, ← Nat.mul_mod]

/-- two reduced words with the same canonical value are the same word -/
theorem val_inj (a b : BitVec 64) (ha : Rep a) (hb : Rep b) (h : val a = val b) : a = b := by
  have ha' := (rep_iff a).mp ha
  have hb' := (rep_iff b).mp hb
  have key : ∀ x : Nat, x < p → (x * Rinv % p) * 2 ^ 64 % p = x := by
    intro x hx
    rw [Nat.mod_mul_mod, Nat.mul_assoc, Nat.mul_comm Rinv, Nat.mul_mod, R_Rinv, Nat.mul_one, Nat.mod_mod,
      Nat.mod_eq_of_lt hx]
  have : a.toNat = b.toNat := by
    rw [← key a.toNat ha', ← key b.toNat hb']
    unfold val at h; rw [h]
  exact BitVec.eq_of_toNat_eq this

theorem add_spec (a b : BitVec 64) (ha : Rep a) (hb : Rep b) :
    Rep (add a b) ∧ val (add a b) = (val a + val b) % p := by
  obtain ⟨h1, h2⟩ := add_bv a b ha hb
  refine ⟨h1, ?_⟩
  have ha' := (rep_iff a).mp ha
  have hb' := (rep_iff b).mp hb
  have hr := (rep_iff _).mp h1
  have hmod : (add a b).toNat % p = (a.toNat + b.toNat) % p := by
    rcases h2 with h | h
    · have := congrArg BitVec.toNat h
      simp only [z65, BitVec.toNat_add, BitVec.toNat_setWidth] at this
      have e : (add a b).toNat = a.toNat + b.toNat := by
        have := (add a b).isLt; have := a.isLt; have := b.isLt; omega
      rw [e]
    · have := congrArg BitVec.toNat h
      rw [BitVec.toNat_add, BitVec.toNat_add, M65_toNat] at this
      simp only [z65, BitVec.toNat_setWidth] at this
      have e : (add a b).toNat + p = a.toNat + b.toNat := by
        have := (add a b).isLt; have := a.isLt; have := b.isLt
        have hp : p = 18446744069414584321 := rfl
        omega
      rw [← e, Nat.add_mod_right]
  rw [val_of_modEq _ _ hmod]
  unfold val
  rw [Nat.add_mul, Nat.add_mod]

theorem sub_spec (a b : BitVec 64) (ha : Rep a) (hb : Rep b) :
    Rep (sub a b) ∧ val (sub a b) = (val a + (p - val b)) % p := by
  obtain ⟨h1, h2⟩ := sub_bv a b ha hb
  refine ⟨h1, ?_⟩
  have ha' := (rep_iff a).mp ha
  have hb' := (rep_iff b).mp hb
  have hr := (rep_iff _).mp h1
  have hp : p = 18446744069414584321 := rfl
  -- r + b ≡ a (mod p)
  have hmod : ((sub a b).toNat + b.toNat) % p = a.toNat % p := by
    rcases h2 with h | h
    · have := congrArg BitVec.toNat h
      simp only [z65, BitVec.toNat_add, BitVec.toNat_setWidth] at this
      have e : (sub a b).toNat + b.toNat = a.toNat := by
        have := (sub a b).isLt; have := a.isLt; have := b.isLt; omega
      rw [e]
    · have := congrArg BitVec.toNat h
      rw [BitVec.toNat_add, BitVec.toNat_add, M65_toNat] at this
      simp only [z65, BitVec.toNat_setWidth] at this
      have e : (sub a b).toNat + b.toNat = a.toNat + p := by
        have := (sub a b).isLt; have := a.isLt; have := b.isLt; omega
      rw [e, Nat.add_mod_right]
  -- multiply by Rinv: val r + val b ≡ val a
  have hv : (val (sub a b) + val b) % p = val a := by
    unfold val
    rw [← Nat.add_mod, ← Nat.add_mul, Nat.mul_mod, hmod, ← Nat.mul_mod]
  have h1' := val_lt (sub a b); have h2' := val_lt b; have h3' := val_lt a
  -- solve for val r
  generalize val (sub a b) = r at *
  generalize val b = vb at *
  generalize val a = va at *
  by_cases hc : r + vb < p
  · rw [Nat.mod_eq_of_lt hc] at hv
    have : va + (p - vb) = r + p := by omega
    rw [this, Nat.add_mod_right, Nat.mod_eq_of_lt h1']
  · have : (r + vb) % p = r + vb - p := by
      rw [Nat.mod_eq_sub_mod (by omega), Nat.mod_eq_of_lt (by omega)]
    rw [this] at hv
    have : va + (p - vb) = r := by omega
    rw [this, Nat.mod_eq_of_lt h1']

/-- r + b = xh (+ p): the two outcomes of the field subtraction, as plain integers -/
theorem sub_cases (a b : BitVec 64) (ha : Rep a) (hb : Rep b) :
    Rep (sub a b) ∧ ((sub a b).toNat + b.toNat = a.toNat ∨ (sub a b).toNat + b.toNat = a.toNat + p) := by
  obtain ⟨h1, h2⟩ := sub_bv a b ha hb
  refine ⟨h1, ?_⟩
  have hp : p = 18446744069414584321 := rfl
  rcases h2 with h | h
  · left
    have := congrArg BitVec.toNat h
    simp only [z65, BitVec.toNat_add, BitVec.toNat_setWidth] at this
    have := (sub a b).isLt; have := a.isLt; have := b.isLt; omega
  · right
    have := congrArg BitVec.toNat h
    rw [BitVec.toNat_add, BitVec.toNat_add, M65_toNat] at this
    simp only [z65, BitVec.toNat_setWidth] at this
    have := (sub a b).isLt; have := a.isLt; have := b.isLt; omega

/-- Montgomery reduction: for every 128-bit x whose high limb is below p (in particular every
    product of two reduced words) the result is reduced and r·2^64 ≡ x (mod p). -/
theorem mont_red_spec (x : BitVec 128) (hx : (x >>> 64).setWidth 64 < M) :
    Rep (mont_red_cst x) ∧ (mont_red_cst x).toNat * 2 ^ 64 % p = x.toNat % p := by
  rw [mont_red_eq_sub]
  obtain ⟨h1, h2⟩ := sub_cases _ _ hx (montB_lt x)
  refine ⟨h1, ?_⟩
  have hid := congrArg BitVec.toNat (mont_identity_bv x)
  simp only [z192, BitVec.toNat_add, BitVec.toNat_shiftLeft, BitVec.toNat_setWidth,
    Nat.shiftLeft_eq] at hid
  have hxh : ((x >>> 64).setWidth 64).toNat = x.toNat / 2 ^ 64 := by
    simp only [BitVec.toNat_setWidth, BitVec.toNat_ushiftRight, Nat.shiftRight_eq_div_pow]
    have := x.isLt; omega
  rw [hxh] at h2
  have hb := (montB x).isLt
  have ha := (montA x).isLt
  have hxl : x.toNat % 2 ^ 64 < 2 ^ 64 := Nat.mod_lt _ (by decide)
  have hX := x.isLt
  generalize (sub ((x >>> 64).setWidth 64) (montB x)).toNat = r at *
  generalize (montB x).toNat = b at *
  generalize (montA x).toNat = a at *
  generalize x.toNat = X at *
  simp only [p] at h2 ⊢
  rcases h2 with h | h
  · have key : r * 2 ^ 64 + a * 18446744069414584321 = X := by omega
    rw [← key, Nat.add_mul_mod_self_right]
  · have key : r * 2 ^ 64 + a * 18446744069414584321 = X + 2 ^ 64 * 18446744069414584321 := by omega
    have : (r * 2 ^ 64 + a * 18446744069414584321) % 18446744069414584321
        = (X + 2 ^ 64 * 18446744069414584321) % 18446744069414584321 := by rw [key]
    rw [Nat.add_mul_mod_self_right, Nat.add_mul_mod_self_right] at this
    exact this

/-- canonical value from the Montgomery congruence -/
theorem val_of_mont (r : BitVec 64) (n : Nat) (h : r.toNat * 2 ^ 64 % p = n % p) :
    val r = n * Rinv * Rinv % p := by
  -- r ≡ n·Rinv, hence val r = n·Rinv·Rinv
  have h1 : r.toNat % p = n * Rinv % p := by
    have : r.toNat * (2 ^ 64 * Rinv) % p = n * Rinv % p := by
      rw [← Nat.mul_assoc, Nat.mul_mod, h, ← Nat.mul_mod]
    rw [Nat.mul_mod, R_Rinv, Nat.mul_one, Nat.mod_mod] at this
    exact this
  unfold val
  rw [Nat.mul_mod, h1, ← Nat.mul_mod]

theorem hi_of_prod_lt (a b : Nat) (ha : a < p) (hb : b < p) : a * b / 2 ^ 64 < p := by
  have h1 : a * b < p * p := Nat.mul_lt_mul'' ha hb
  have hp : p * p = 340282366762482138490186164457219031041 := by decide
  rw [hp] at h1
  simp only [p]
  omega

theorem prod_toNat (a b : BitVec 64) :
    (BitVec.setWidth 128 a * BitVec.setWidth 128 b).toNat = a.toNat * b.toNat := by
  rw [BitVec.toNat_mul, BitVec.toNat_setWidth, BitVec.toNat_setWidth,
    Nat.mod_eq_of_lt (Nat.lt_trans a.isLt (by decide)), Nat.mod_eq_of_lt (Nat.lt_trans b.isLt (by decide))]
  apply Nat.mod_eq_of_lt
  have := Nat.mul_lt_mul'' a.isLt b.isLt
  calc a.toNat * b.toNat < 2 ^ 64 * 2 ^ 64 := this
    _ = 2 ^ 128 := by decide

theorem hi_toNat (x : BitVec 128) : ((x >>> 64).setWidth 64).toNat = x.toNat / 2 ^ 64 := by
  simp only [BitVec.toNat_setWidth, BitVec.toNat_ushiftRight, Nat.shiftRight_eq_div_pow]
  have := x.isLt; omega

/-- multiplication: `mul a b` is reduced and its value is the product of the values -/
theorem mul_spec (a b : BitVec 64) (ha : Rep a) (hb : Rep b) :
    Rep (mul a b) ∧ val (mul a b) = val a * val b % p := by
  unfold mul
  have hx : ((BitVec.setWidth 128 a * BitVec.setWidth 128 b) >>> 64).setWidth 64 < M := by
    rw [BitVec.lt_def, hi_toNat, prod_toNat, M_toNat]
    exact hi_of_prod_lt _ _ ((rep_iff a).mp ha) ((rep_iff b).mp hb)
  obtain ⟨h1, h2⟩ := mont_red_spec _ hx
  refine ⟨h1, ?_⟩
  rw [prod_toNat] at h2
  rw [val_of_mont _ _ h2]
  unfold val
  -- a·b·Rinv·Rinv % p = (a·Rinv % p)·(b·Rinv % p) % p
  rw [← Nat.mul_mod]
  have e : a.toNat * b.toNat * Rinv * Rinv = a.toNat * Rinv * (b.toNat * Rinv) := by
    rw [Nat.mul_assoc, Nat.mul_mul_mul_comm]
  rw [e]

theorem R2_toNat : R2.toNat = 2 ^ 128 % p := by decide

/-- `new v` silently reduces: the value of `new v` is v mod p, for every 64-bit v -/
theorem new_spec (v : BitVec 64) : Rep (new v) ∧ val (new v) = v.toNat % p := by
  unfold new
  have hx : ((BitVec.setWidth 128 v * BitVec.setWidth 128 R2) >>> 64).setWidth 64 < M := by
    rw [BitVec.lt_def, hi_toNat, prod_toNat, M_toNat]
    have hv := v.isLt
    have hr : R2.toNat = 18446744065119617025 := by decide
    rw [hr]; simp only [p]; omega
  obtain ⟨h1, h2⟩ := mont_red_spec _ hx
  refine ⟨h1, ?_⟩
  rw [prod_toNat] at h2
  rw [val_of_mont _ _ h2, R2_toNat]
  -- v · (2^128 % p) · Rinv · Rinv ≡ v
  have e : 2 ^ 128 % p * (Rinv * Rinv) % p = 1 := by decide
  rw [Nat.mul_assoc, Nat.mul_assoc, Nat.mul_mod, e, Nat.mul_one, Nat.mod_mod]

/-- `as_int` / `mont_to_int` returns the canonical value for EVERY stored word (reduced or not) -/
theorem as_int_spec (x : BitVec 64) : (mont_to_int x).toNat = val x := by
  rw [mont_to_int_bv]
  have hx : ((x.setWidth 128 >>> 64).setWidth 64) < M := by
    rw [BitVec.lt_def, hi_toNat, M_toNat, BitVec.toNat_setWidth]
    have := x.isLt; simp only [p]; omega
  obtain ⟨h1, h2⟩ := mont_red_spec _ hx
  have hr := (rep_iff _).mp h1
  rw [BitVec.toNat_setWidth, Nat.mod_eq_of_lt (Nat.lt_trans x.isLt (by decide))] at h2
  -- r < p and r·2^64 ≡ x  ⇒  r = x·Rinv % p
  have h3 : (mont_red_cst (x.setWidth 128)).toNat % p = x.toNat * Rinv % p := by
    have : (mont_red_cst (x.setWidth 128)).toNat * (2 ^ 64 * Rinv) % p = x.toNat * Rinv % p := by
      rw [← Nat.mul_assoc, Nat.mul_mod, h2, ← Nat.mul_mod]
    rw [Nat.mul_mod, R_Rinv, Nat.mul_one, Nat.mod_mod] at this
    exact this
  rw [Nat.mod_eq_of_lt hr] at h3
  exact h3

/-- equality is decided on the stored words; on reduced words that is equality of values -/
theorem equals_spec (a b : BitVec 64) (ha : Rep a) (hb : Rep b) :
    (equals a b = 0xffffffffffffffff#64) ↔ val a = val b := by
  rw [equals_bv]
  constructor
  · intro h; rw [h]
  · exact val_inj a b ha hb

theorem neg_spec (a : BitVec 64) (ha : Rep a) : Rep (neg a) ∧ val (neg a) = (p - val a) % p := by
  unfold neg
  have h0 := new_spec 0#64
  obtain ⟨h1, h2⟩ := sub_spec _ _ h0.1 ha
  refine ⟨h1, ?_⟩
  rw [h2, h0.2]
  simp

theorem double_spec (a : BitVec 64) (ha : Rep a) : Rep (double a) ∧ val (double a) = 2 * val a % p := by
  unfold double
  obtain ⟨h1, h2⟩ := add_spec a a ha ha
  exact ⟨h1, by rw [h2, Nat.two_mul]⟩

end Wf.F64
