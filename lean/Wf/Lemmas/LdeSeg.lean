/-
C28, layer 2 (structural, no ring laws): a column of a `Segment` is the C12 model's
`evaluate_poly_with_offset` of the corresponding base-field column.
-/
import Wf.Lemmas.LdeNat
set_option linter.unusedSectionVars false
namespace Wf.Lde
open Wf Wf.Fft

variable {B E : Type}

/-! ### list helpers -/

theorem list_toArray_getD {α} (l : List α) (i : Nat) (d : α) : l.toArray.getD i d = l.getD i d := by
  simp

theorem powerSeries_len (o : FieldOps B) (b : B) : ∀ (n : Nat) (cur : B),
    (powerSeries o b n cur).length = n := by
  intro n
  induction n with
  | zero => intro cur; rfl
  | succ n ih => intro cur; simp [powerSeries, ih]

/-- `scale` of `evaluate_poly_with_offset` = coefficient × entry of the offset power series -/
theorem scaleList_eq_zipWith (c : Ctx B E) (off : B) : ∀ (l : List E) (fac : B),
    scaleList c off l fac = List.zipWith c.mulBase l (powerSeries c.b off l.length fac) := by
  intro l
  induction l with
  | nil => intro fac; rfl
  | cons x xs ih => intro fac; simp [scaleList, powerSeries, ih]

/-- indexing into a concatenation of `m` blocks of equal length `w` -/
theorem flatMap_range_getD {α} (f : Nat → List α) (w : Nat) (hf : ∀ i, (f i).length = w) (d : α) :
    ∀ (m i r : Nat), i < m → r < w →
      ((List.range m).flatMap f).getD (i * w + r) d = (f i).getD r d := by
  intro m
  induction m with
  | zero => intro i r hi; omega
  | succ m ih =>
    intro i r hi hr
    have hlen : ((List.range m).flatMap f).length = m * w := by
      clear ih hi
      induction m with
      | zero => simp
      | succ m ih => rw [List.range_succ, List.flatMap_append, List.length_append, ih]; simp [hf]; ring
    rw [List.range_succ, List.flatMap_append]
    by_cases him : i < m
    · have hlt : i * w + r < ((List.range m).flatMap f).length := by
        rw [hlen]
        calc i * w + r < i * w + w := by omega
          _ = (i + 1) * w := by ring
          _ ≤ m * w := Nat.mul_le_mul_right _ (by omega)
      rw [List.getD_eq_getElem?_getD, List.getElem?_append_left hlt, ← List.getD_eq_getElem?_getD]
      exact ih i r him hr
    · have : i = m := by omega
      subst this
      rw [List.getD_eq_getElem?_getD, List.getElem?_append_right (by rw [hlen]; omega), hlen]
      simp [List.getD_eq_getElem?_getD]

theorem flatMap_range_length {α} (f : Nat → List α) (w : Nat) (hf : ∀ i, (f i).length = w) :
    ∀ m, ((List.range m).flatMap f).length = m * w := by
  intro m
  induction m with
  | zero => simp
  | succ m ih => rw [List.range_succ, List.flatMap_append, List.length_append, ih]; simp [hf]; ring

/-! ### the projection of a segment row to one column is a context morphism -/

theorem proj_morph (cb : Ctx B B) (hE : cb.e = cb.b) (hmul : cb.mulBase = cb.b.mul) (N k : Nat)
    (hk : k < N) : Morph (vecCtx cb N) cb (fun v : Vector B N => v[k]) where
  hb := rfl
  hexp := rfl
  hroot := rfl
  hta := rfl
  zero := by simp [vecCtx, vecOps, hE]
  add := fun x y => by simp [vecCtx, vecOps, hE]
  sub := fun x y => by simp [vecCtx, vecOps, hE]
  mulBase := fun x t => by simp [vecCtx, hmul]

theorem baseCtx_proj_morph (c : Ctx B E) (N k : Nat) (hk : k < N) :
    Morph (vecCtx (baseCtx c) N) (baseCtx c) (fun v : Vector B N => v[k]) :=
  proj_morph (baseCtx c) rfl rfl N k hk

/-! ### one chunk -/

theorem baseCol_size (c : Ctx B E) (x : ExtView B E) (polys : ColMatrix E) (j : Nat) :
    (baseCol c x polys j).size = numRows polys := by simp [baseCol]

theorem offsets_getD (c : Ctx B E) (n blowup : Nat) (s : B) (offsets : Array B)
    (h : getEvaluationOffsets c n blowup s = some offsets) (i r : Nat) (hi : i < blowup) (hr : r < n) :
    offsets.getD (i * n + r) c.b.zero =
      (powerSeries c.b (c.b.mul (c.exp (c.root (n * blowup).log2) (permuteIndex blowup i)) s) n
        c.b.one).getD r c.b.zero := by
  unfold getEvaluationOffsets at h
  split at h; · cases h
  split at h; · cases h
  split at h; · cases h
  cases h
  rw [list_toArray_getD]
  exact flatMap_range_getD _ n (fun i => by simp [offsetChunk, powerSeries_len]) _ blowup i r hi hr

theorem offsets_size (c : Ctx B E) (n blowup : Nat) (s : B) (offsets : Array B)
    (h : getEvaluationOffsets c n blowup s = some offsets) : offsets.size = blowup * n := by
  unfold getEvaluationOffsets at h
  split at h; · cases h
  split at h; · cases h
  split at h; · cases h
  cases h
  simp only [List.size_toArray]
  exact flatMap_range_length _ n (fun i => by simp [offsetChunk, powerSeries_len]) blowup

/-- chunk `i` of a segment, column `k`: the chunk of `evaluate_poly_with_offset` on base column
`poly_offset + k` -/
theorem segChunk_proj (c : Ctx B E) (x : ExtView B E) (N : Nat) (polys : ColMatrix E)
    (po numPolys blowup : Nat) (s : B) (offsets tws : Array B)
    (hoff : getEvaluationOffsets c (numRows polys) blowup s = some offsets)
    (k : Nat) (hkN : k < N) (hk : k < numPolys) (i : Nat) (hi : i < blowup) :
    (segChunk c x N polys po numPolys offsets tws i).map (fun v : Vector B N => v[k]) =
      evalChunk (baseCtx c) (baseCol c x polys (po + k)) tws
        (c.root (numRows polys * blowup).log2) s blowup i := by
  unfold segChunk evalChunk
  rw [fftInPlace_map (baseCtx_proj_morph c N k hkN), baseCol_size]
  congr 1
  apply Array.ext
  · simp [copyPolys, scaleList_eq_zipWith, powerSeries_len, baseCol]
  · intro r h1 h2
    have hr : r < numRows polys := by simpa [copyPolys] using h1
    have ho := offsets_getD c (numRows polys) blowup s offsets hoff i r hi hr
    simp only [copyPolys, Array.getElem_map, Array.getElem_ofFn, Vector.getElem_ofFn, hk, if_true]
    rw [ho]
    simp only [scaleList_eq_zipWith, List.getElem_toArray, List.getElem_zipWith, baseCtx, baseCol,
      Array.getElem_toList, Array.getElem_ofFn]
    congr 1
    rw [List.getD_eq_getElem?_getD, List.getElem?_eq_getElem (by simp [powerSeries_len, hr])]
    simp

/-- the chunk loop -/
theorem segChunks_proj (c : Ctx B E) (x : ExtView B E) (N : Nat) (polys : ColMatrix E)
    (po numPolys blowup : Nat) (s : B) (offsets tws : Array B)
    (hoff : getEvaluationOffsets c (numRows polys) blowup s = some offsets)
    (k : Nat) (hkN : k < N) (hk : k < numPolys) :
    ∀ (n i : Nat) (acc : Array (Vector B N)), i + n ≤ blowup →
      (segChunks c x N polys po numPolys offsets tws n i acc).map (fun v : Vector B N => v[k]) =
        evalChunks (baseCtx c) (baseCol c x polys (po + k)) tws
          (c.root (numRows polys * blowup).log2) s blowup n i
          (acc.map (fun v : Vector B N => v[k])) := by
  intro n
  induction n with
  | zero => intro i acc _; rfl
  | succ n ih =>
    intro i acc h
    simp only [segChunks, evalChunks]
    rw [ih (i + 1) _ (by omega), Array.map_append,
      segChunk_proj c x N polys po numPolys blowup s offsets tws hoff k hkN hk i (by omega)]

/-! ### sizes (any operations) -/

theorem permuteLoop_size {α} (n : Nat) : ∀ (rem i : Nat) (a : Array α),
    (permuteLoop n rem i a).size = a.size := by
  intro rem
  induction rem with
  | zero => intro i a; rfl
  | succ rem ih => intro i a; simp only [permuteLoop]; rw [ih]; split <;> simp

theorem permute_size {α} (a : Array α) : (permute a).size = a.size := permuteLoop_size _ _ _ _

theorem getTwiddles_size (c : Ctx B E) (n : Nat) (tws : Array B) (h : getTwiddles c n = some tws) :
    tws.size = n / 2 := by
  unfold getTwiddles at h
  split at h; · cases h
  split at h; · cases h
  split at h; · cases h
  cases h
  simp [permute_size, powerSeries_len]

end Wf.Lde
