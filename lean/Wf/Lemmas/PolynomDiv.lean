/-
Helper lemmas for C13, part 3: `div` is Euclidean division (loop invariant + uniqueness over a field).
-/
import Wf.Lemmas.Polynom
import Wf.Lemmas.PolynomDegree
import Mathlib.Algebra.Polynomial.FieldDivision
set_option linter.unusedSectionVars false
set_option linter.unusedSimpArgs false
namespace Wf.Polynom
open Polynomial Wf Wf.BatchUtils

section ring
variable {R : Type} [CommRing R] [DecidableEq R] (inv : R → R)

theorem subRow_succ (ops : FieldOps R) (b : List R) (quot : R) (i j : Nat) (a : List R) :
    subRow ops b quot i (j + 1) a =
      match a[i + j]?, b[j]? with
      | some x, some y => subRow ops b quot i j (a.set (i + j) (ops.sub x (ops.mul y quot)))
      | _, _ => none := rfl

theorem subRow_spec (b : List R) (quot : R) (i j : Nat) (a : List R) (m : Nat)
    (h1 : i + j ≤ a.length) (h2 : j ≤ b.length) (hm : i + j ≤ m) :
    ∃ a', subRow (ringOps R inv) b quot i j a = some a' ∧ a'.length = a.length ∧
      ofCoeffs (a'.take m) = ofCoeffs (a.take m) - C quot * X ^ i * ofCoeffs (b.take j) := by
  induction j generalizing a with
  | zero => exact ⟨a, rfl, rfl, by simp⟩
  | succ j ih =>
    have hi : i + j < a.length := by omega
    have hj : j < b.length := by omega
    obtain ⟨a', e1, l1, e2⟩ := ih (a.set (i + j) (a[i + j] - b[j] * quot)) (by simp; omega) (by omega) (by omega)
    refine ⟨a', ?_, by simpa using l1, ?_⟩
    · rw [subRow_succ]
      simp only [List.getElem?_eq_getElem hi, List.getElem?_eq_getElem hj, ringOps_sub, ringOps_mul]
      exact e1
    · rw [e2, List.take_set, ofCoeffs_set _ _ _ (by simp; omega)]
      rw [List.take_succ_eq_append_getElem hj, ofCoeffs_append]
      simp only [List.getElem_take, List.length_take, ofCoeffs_cons, ofCoeffs_nil, mul_zero, add_zero,
        Nat.min_eq_left (Nat.le_of_lt hj)]
      rw [show a[i + j] - b[j] * quot - a[i + j] = -(b[j] * quot) by ring, C_neg, C_mul, pow_add]
      ring

theorem divLoop_succ (ops : FieldOps R) (b : List R) (bpos i : Nat) (a res : List R) :
    divLoop ops b bpos (i + 1) a res =
      match a[i + bpos]?, b[bpos]? with
      | some top, some lead =>
        match subRow ops b (ops.mul top (ops.inv lead)) i bpos a with
        | some a' => divLoop ops b bpos i a' (ops.mul top (ops.inv lead) :: res)
        | none => none
      | _, _ => none := rfl

theorem divLoop_spec (b : List R) (bpos : Nat) (hb : bpos < b.length) (hlead : b[bpos] * inv b[bpos] = 1)
    (i : Nat) (a res : List R) (h : i + bpos ≤ a.length) :
    ∃ q rem, divLoop (ringOps R inv) b bpos i a res = some q ∧ q.length = i + res.length ∧
      rem.length = bpos ∧
      ofCoeffs (a.take (i + bpos)) + X ^ i * ofCoeffs res * ofCoeffs (b.take (bpos + 1))
        = ofCoeffs q * ofCoeffs (b.take (bpos + 1)) + ofCoeffs rem := by
  induction i generalizing a res with
  | zero =>
    refine ⟨res, a.take bpos, rfl, by simp, by simp; omega, ?_⟩
    simp; ring
  | succ i ih =>
    have hi : i + bpos < a.length := by omega
    obtain ⟨a', e1, l1, e2⟩ := subRow_spec inv b (a[i + bpos] * inv b[bpos]) i bpos a (i + bpos)
      (by omega) (by omega) (le_refl _)
    obtain ⟨q, rem, e3, l3, l4, e4⟩ := ih a' (a[i + bpos] * inv b[bpos] :: res) (by omega)
    refine ⟨q, rem, ?_, by simp at l3; omega, l4, ?_⟩
    · rw [divLoop_succ]
      simp only [List.getElem?_eq_getElem hi, List.getElem?_eq_getElem hb, ringOps_mul, ringOps_inv, e1]
      exact e3
    · rw [← e4, e2]
      have t1 : a.take (i + 1 + bpos) = a.take (i + bpos) ++ [a[i + bpos]] := by
        rw [show i + 1 + bpos = i + bpos + 1 by omega, List.take_succ_eq_append_getElem hi]
      have t2 : b.take (bpos + 1) = b.take bpos ++ [b[bpos]] := List.take_succ_eq_append_getElem hb
      rw [t1, t2, ofCoeffs_append, ofCoeffs_append]
      simp only [List.length_take, Nat.min_eq_left (Nat.le_of_lt hi), Nat.min_eq_left (Nat.le_of_lt hb),
        ofCoeffs_cons, ofCoeffs_nil, mul_zero, add_zero]
      have : C (a[i + bpos]) = C (a[i + bpos] * inv b[bpos]) * C (b[bpos]) := by
        rw [← C_mul, mul_assoc, mul_comm (inv b[bpos]), hlead, mul_one]
      rw [this, pow_succ, pow_add]
      ring

end ring

section field
variable {K : Type} [Field K] [DecidableEq K] (inv : K → K)

omit [DecidableEq K] in
/-- uniqueness of Euclidean division over a field, in the form used below -/
theorem div_eq_of_euclid (a b q r : K[X]) (h : a = q * b + r) (hr : r.degree < b.degree) :
    a / b = q := by
  have hb0 : b ≠ 0 := by
    intro h0; rw [h0, degree_zero] at hr; exact not_lt_bot hr
  have hlc : b.leadingCoeff ≠ 0 := mt leadingCoeff_eq_zero.1 hb0
  have hu := div_modByMonic_unique (f := a) (q * C b.leadingCoeff) r (monic_mul_leadingCoeff_inv hb0)
    ⟨by
      rw [h]
      have : C b.leadingCoeff⁻¹ * C b.leadingCoeff = (1 : K[X]) := by
        rw [← C_mul, inv_mul_cancel₀ hlc, C_1]
      calc r + b * C b.leadingCoeff⁻¹ * (q * C b.leadingCoeff)
          = q * b * (C b.leadingCoeff⁻¹ * C b.leadingCoeff) + r := by ring
        _ = q * b + r := by rw [this, mul_one],
     by rw [degree_mul_leadingCoeff_inv _ hb0]; exact hr⟩
  rw [div_def, hu.1]
  calc C b.leadingCoeff⁻¹ * (q * C b.leadingCoeff)
      = q * (C b.leadingCoeff⁻¹ * C b.leadingCoeff) := by ring
    _ = q := by rw [← C_mul, inv_mul_cancel₀ hlc, C_1, mul_one]

omit [DecidableEq K] in
theorem ofCoeffs_take_natDegree_succ (l : List K) :
    ofCoeffs (l.take ((ofCoeffs l).natDegree + 1)) = ofCoeffs l := by
  ext n
  rw [coeff_ofCoeffs, coeff_ofCoeffs, getD_take]
  by_cases h : n < (ofCoeffs l).natDegree + 1
  · rw [if_pos h]
  · rw [if_neg h, ← coeff_ofCoeffs, coeff_eq_zero_of_natDegree_lt (by omega)]

omit [DecidableEq K] in
theorem lead_of_ne_zero (b : List K) (hb : ofCoeffs b ≠ 0) :
    ∃ h : (ofCoeffs b).natDegree < b.length, b[(ofCoeffs b).natDegree] ≠ 0 := by
  have h1 : (ofCoeffs b).coeff (ofCoeffs b).natDegree ≠ 0 := by
    rw [coeff_natDegree]; exact mt leadingCoeff_eq_zero.1 hb
  rw [coeff_ofCoeffs] at h1
  have h2 : (ofCoeffs b).natDegree < b.length := by
    by_contra hc
    exact h1 (getD_of_le _ _ (by omega))
  refine ⟨h2, ?_⟩
  rwa [getD_of_lt _ _ h2] at h1

theorem headIsZero_iff (b : List K) : headIsZero (ringOps K inv) b = true ↔ b.getD 0 0 = 0 := by
  unfold headIsZero
  cases b with
  | nil => simp
  | cons c cs => simp

/-- the dividend after `if a.is_empty() { a.push(ZERO) }` -/
theorem dividend_fix (a : List K) :
    (if a.isEmpty then [(ringOps K inv).zero] else a) ≠ [] ∧
    ofCoeffs (if a.isEmpty then [(ringOps K inv).zero] else a) = ofCoeffs a := by
  cases a with
  | nil => simp
  | cons x xs => simp

theorem div_spec (hinv : ∀ x : K, x ≠ 0 → x * inv x = 1) (a b : List K)
    (hb : ofCoeffs b ≠ 0) (hdeg : (ofCoeffs b).natDegree ≤ (ofCoeffs a).natDegree) :
    ∃ q rem, div (ringOps K inv) a b = some q ∧
      q.length = (ofCoeffs a).natDegree - (ofCoeffs b).natDegree + 1 ∧
      rem.length = (ofCoeffs b).natDegree ∧
      ofCoeffs a = ofCoeffs q * ofCoeffs b + ofCoeffs rem := by
  obtain ⟨hlt, hlead⟩ := lead_of_ne_zero b hb
  obtain ⟨ha', hA⟩ := dividend_fix inv a
  have halen : (ofCoeffs a).natDegree
      < (if a.isEmpty then [(ringOps K inv).zero] else a).length := by
    rw [← hA]
    have := degree_ofCoeffs_lt (if a.isEmpty then [(ringOps K inv).zero] else a)
    by_cases h0 : ofCoeffs (if a.isEmpty then [(ringOps K inv).zero] else a) = 0
    · rw [h0, natDegree_zero]; exact List.length_pos_iff.mpr ha'
    · rw [degree_eq_natDegree h0] at this
      exact_mod_cast this
  obtain ⟨q, rem, e1, l1, l2, e2⟩ := divLoop_spec inv b (ofCoeffs b).natDegree hlt (hinv _ hlead)
    ((ofCoeffs a).natDegree - (ofCoeffs b).natDegree + 1)
    (if a.isEmpty then [(ringOps K inv).zero] else a) [] (by omega)
  refine ⟨q, rem, ?_, by simpa using l1, l2, ?_⟩
  · have hbne : b ≠ [] := by intro h; rw [h] at hlt; simp at hlt
    unfold div
    simp only [degreeOf_eq]
    rw [if_neg (by omega)]
    rw [if_neg (by simp [hbne])]
    rw [if_neg (by
      rintro ⟨h0, hz⟩
      rw [headIsZero_iff] at hz
      apply hlead
      have : b[(ofCoeffs b).natDegree] = b.getD 0 0 := by
        rw [← getD_of_lt _ _ hlt, h0]
      rw [this, hz])]
    exact e1
  · have t : (ofCoeffs a).natDegree - (ofCoeffs b).natDegree + 1 + (ofCoeffs b).natDegree
        = (ofCoeffs a).natDegree + 1 := by omega
    rw [t] at e2
    have t2 : ofCoeffs ((if a.isEmpty then [(ringOps K inv).zero] else a).take
        ((ofCoeffs a).natDegree + 1)) = ofCoeffs a := by
      conv => lhs; rw [← hA]
      rw [ofCoeffs_take_natDegree_succ, hA]
    rw [t2, ofCoeffs_take_natDegree_succ] at e2
    simpa using e2

/-- the quotient returned by `div` is the Euclidean quotient -/
theorem div_eq_euclidean (hinv : ∀ x : K, x ≠ 0 → x * inv x = 1) (a b : List K)
    (hb : ofCoeffs b ≠ 0) (hdeg : (ofCoeffs b).natDegree ≤ (ofCoeffs a).natDegree) :
    ∃ q, div (ringOps K inv) a b = some q ∧
      q.length = (ofCoeffs a).natDegree - (ofCoeffs b).natDegree + 1 ∧
      ofCoeffs q = ofCoeffs a / ofCoeffs b ∧
      (ofCoeffs a - ofCoeffs q * ofCoeffs b).degree < (ofCoeffs b).degree := by
  obtain ⟨q, rem, e1, l1, l2, e2⟩ := div_spec inv hinv a b hb hdeg
  have hr : (ofCoeffs rem).degree < (ofCoeffs b).degree := by
    have := degree_ofCoeffs_lt rem
    rw [l2] at this
    rwa [degree_eq_natDegree hb]
  refine ⟨q, e1, l1, (div_eq_of_euclid _ _ _ _ e2 hr).symm, ?_⟩
  rw [e2]; simpa using hr

theorem div_none_iff (hinv : ∀ x : K, x ≠ 0 → x * inv x = 1) (a b : List K) :
    div (ringOps K inv) a b = none ↔
      ofCoeffs b = 0 ∨ (ofCoeffs a).natDegree < (ofCoeffs b).natDegree := by
  constructor
  · intro h
    by_contra hc
    simp only [not_or, not_lt] at hc
    obtain ⟨q, _, e, _⟩ := div_spec inv hinv a b hc.1 hc.2
    rw [e] at h; cases h
  · intro h
    unfold div
    simp only [degreeOf_eq]
    by_cases c1 : (ofCoeffs a).natDegree < (ofCoeffs b).natDegree
    · rw [if_pos c1]
    · rw [if_neg c1]
      rcases h with h | h
      · have hb0 : (ofCoeffs b).natDegree = 0 := by rw [h]; simp
        by_cases c2 : (ofCoeffs b).natDegree = 0 ∧ b.isEmpty = true
        · rw [if_pos c2]
        · rw [if_neg c2, if_pos]
          refine ⟨hb0, ?_⟩
          rw [headIsZero_iff, ← coeff_ofCoeffs, h, coeff_zero]
      · exact absurd h c1

end field
end Wf.Polynom
