/-
Lemmas about `iterRows` (rows produced by iterating a step function) and the column-major
`TraceTable` model of `Wf/Model/TraceTable.lean`.  Core Lean only.
-/
import Wf.Model.TraceTable
namespace Wf.TraceTable

variable {α : Type}

/-- the state after `s` applications of the step function, starting at step `step` -/
def iterAt (upd : Nat → α → α) : Nat → Nat → α → α
  | 0, _, row => row
  | s + 1, step, row => iterAt upd s (step + 1) (upd step row)

theorem iterRows_length (upd : Nat → α → α) (k step : Nat) (row : α) :
    (iterRows upd k step row).length = k := by
  induction k generalizing step row with
  | zero => rfl
  | succ k ih => simp [iterRows, ih]

theorem iterRows_getElem? (upd : Nat → α → α) (k step : Nat) (row : α) (s : Nat) (h : s < k) :
    (iterRows upd k step row)[s]? = some (iterAt upd s step row) := by
  induction k generalizing step row s with
  | zero => omega
  | succ k ih =>
    cases s with
    | zero => simp [iterRows, iterAt]
    | succ s =>
      simp only [iterRows, List.getElem?_cons_succ, iterAt]
      exact ih _ _ _ (by omega)

theorem iterAt_succ (upd : Nat → α → α) (s step : Nat) (row : α) :
    iterAt upd (s + 1) step row = upd (step + s) (iterAt upd s step row) := by
  induction s generalizing step row with
  | zero => simp [iterAt]
  | succ s ih =>
    rw [iterAt, ih]
    simp only [iterAt]
    congr 1
    omega

theorem iterAt_add (upd : Nat → α → α) (a b step : Nat) (row : α) :
    iterAt upd (a + b) step row = iterAt upd b (step + a) (iterAt upd a step row) := by
  induction a generalizing step row with
  | zero => simp [iterAt]
  | succ a ih =>
    have : a + 1 + b = (a + b) + 1 := by omega
    rw [this]
    simp only [iterAt]
    rw [ih]
    congr 1
    omega

/-- a fragment's update closure `|j, s| update(off + j, s)` is the global one, shifted -/
theorem iterAt_shift (upd : Nat → α → α) (off s step : Nat) (row : α) :
    iterAt (fun j => upd (off + j)) s step row = iterAt upd s (off + step) row := by
  induction s generalizing step row with
  | zero => rfl
  | succ s ih => simp only [iterAt]; rw [ih]; rfl

theorem iterRows_shift (upd : Nat → α → α) (off k step : Nat) (row : α) :
    iterRows (fun j => upd (off + j)) k step row = iterRows upd k (off + step) row := by
  induction k generalizing step row with
  | zero => rfl
  | succ k ih => simp only [iterRows]; rw [ih]; rfl

/-- splitting the generation at any row: restart from the boundary row -/
theorem iterRows_append (upd : Nat → α → α) (a b step : Nat) (row : α) :
    iterRows upd (a + b) step row
      = iterRows upd a step row ++ iterRows upd b (step + a) (iterAt upd a step row) := by
  induction a generalizing step row with
  | zero => simp [iterRows, iterAt]
  | succ a ih =>
    have : a + 1 + b = (a + b) + 1 := by omega
    rw [this]
    simp only [iterRows, iterAt, List.cons_append]
    rw [ih]
    congr 3
    omega

/-- generation fragment by fragment (`m` fragments of length `len`, fragment `i` restarted from
the boundary row `i·len` with the shifted update closure) yields the same rows -/
theorem iterRows_fragments (upd : Nat → α → α) (len m : Nat) (init : α) :
    (List.range m).flatMap (fun i =>
        iterRows (fun j => upd (i * len + j)) len 0 (iterAt upd (i * len) 0 init))
      = iterRows upd (m * len) 0 init := by
  induction m with
  | zero => simp [iterRows]
  | succ m ih =>
    rw [List.range_succ, List.flatMap_append, ih]
    have : (m + 1) * len = m * len + len := by rw [Nat.succ_mul]
    rw [this, iterRows_append]
    simp [iterRows_shift]

/-! ## the column-major table -/

/-- `w` columns of `n` cells -/
def Shape (t : Table) (w n : Nat) : Prop := t.length = w ∧ ∀ col ∈ t, col.length = n

theorem updateRow_shape {t : Table} {w n : Nat} (h : Shape t w n) (r : Nat) (s : List Nat) :
    Shape (updateRow t r s) w n := by
  refine ⟨by simp [updateRow, h.1], ?_⟩
  intro col hc
  simp only [updateRow, List.mem_mapIdx] at hc
  obtain ⟨i, hi, rfl⟩ := hc
  have := h.2 t[i] (List.getElem_mem _)
  split <;> simp [this]

theorem readRow_length (t : Table) (r : Nat) : (readRow t r).length = t.length := by
  simp [readRow]

theorem readRow_updateRow {t : Table} {w n : Nat} (h : Shape t w n) (r r' : Nat) (s : List Nat)
    (hs : s.length = w) (hr : r < n) :
    readRow (updateRow t r s) r' = if r' = r then s else readRow t r' := by
  have hl1 : (readRow (updateRow t r s) r').length = w := by simp [readRow, updateRow, h.1]
  by_cases e : r' = r
  · subst e
    rw [if_pos rfl]
    apply List.ext_getElem (by rw [hl1, hs])
    intro c h1 h2
    have hct : c < t.length := by rw [h.1, ← hs]; exact h2
    have hlen : t[c].length = n := h.2 _ (List.getElem_mem _)
    simp only [readRow, updateRow, List.getElem_map, List.getElem_mapIdx, if_pos h2]
    simp [List.getD_eq_getElem?_getD, hlen, hr, h2]
  · rw [if_neg e]
    apply List.ext_getElem (by rw [hl1]; simp [readRow, h.1])
    intro c h1 h2
    have e' : ¬ r = r' := fun x => e x.symm
    simp only [readRow, updateRow, List.getElem_map, List.getElem_mapIdx]
    split <;> simp [List.getD_eq_getElem?_getD, e']

/-- invariant of the fill loop: rows `off+i+1 .. off+i+k` receive the iterated states, every
other row is untouched -/
theorem readRow_fillLoop (upd : Nat → List Nat → List Nat) (w n off : Nat)
    (hupd : ∀ j s, s.length = w → (upd j s).length = w)
    (k i : Nat) (state : List Nat) (t : Table) (ht : Shape t w n) (hs : state.length = w)
    (hk : off + i + k < n) (r : Nat) :
    readRow (fillLoop upd off k i state t) r
      = if off + i < r ∧ r ≤ off + i + k then iterAt upd (r - off - i) i state else readRow t r := by
  induction k generalizing i state t with
  | zero =>
    have : ¬ (off + i < r ∧ r ≤ off + i + 0) := by omega
    rw [if_neg this]; rfl
  | succ k ih =>
    simp only [fillLoop]
    rw [ih (i + 1) (upd i state) _ (updateRow_shape ht _ _) (hupd _ _ hs) (by omega)]
    rw [readRow_updateRow ht _ _ _ (hupd _ _ hs) (by omega)]
    by_cases h1 : off + (i + 1) < r ∧ r ≤ off + (i + 1) + k
    · have h2 : off + i < r ∧ r ≤ off + i + (k + 1) := by omega
      rw [if_pos h1, if_pos h2]
      have : r - off - i = (r - off - (i + 1)) + 1 := by omega
      rw [this]
      rfl
    · rw [if_neg h1]
      by_cases h3 : r = off + i + 1
      · have h2 : off + i < r ∧ r ≤ off + i + (k + 1) := by omega
        have : r - off - i = 1 := by omega
        rw [if_pos h3, if_pos h2, this]
        rfl
      · have h2 : ¬ (off + i < r ∧ r ≤ off + i + (k + 1)) := by omega
        rw [if_neg h3, if_neg h2]

/-- `TraceTableFragment::fill`: rows `off .. off+len−1` become the iterated states of the
fragment, the rest of the table is untouched -/
theorem readRow_fillAt (upd : Nat → List Nat → List Nat) (w n : Nat)
    (hupd : ∀ j s, s.length = w → (upd j s).length = w)
    (t : Table) (ht : Shape t w n) (off len : Nat) (init : List Nat) (hi : init.length = w)
    (hlen : 1 ≤ len) (hfit : off + len ≤ n) (r : Nat) :
    readRow (fillAt t off len init upd) r
      = if off ≤ r ∧ r < off + len then iterAt upd (r - off) 0 init else readRow t r := by
  unfold fillAt
  rw [readRow_fillLoop upd w n off hupd _ _ _ _ (updateRow_shape ht _ _) hi (by omega)]
  rw [readRow_updateRow ht _ _ _ hi (by omega)]
  by_cases h1 : off + 0 < r ∧ r ≤ off + 0 + (len - 1)
  · have h2 : off ≤ r ∧ r < off + len := by omega
    rw [if_pos h1, if_pos h2]
    rfl
  · rw [if_neg h1]
    by_cases h3 : r = off
    · have h2 : off ≤ r ∧ r < off + len := by omega
      have : r - off = 0 := by omega
      rw [if_pos h3, if_pos h2, this]
      rfl
    · have h2 : ¬ (off ≤ r ∧ r < off + len) := by omega
      rw [if_neg h3, if_neg h2]

theorem fillLoop_shape (upd : Nat → List Nat → List Nat) {w n : Nat} (off k i : Nat) (state : List Nat)
    {t : Table} (ht : Shape t w n) : Shape (fillLoop upd off k i state t) w n := by
  induction k generalizing i state t with
  | zero => exact ht
  | succ k ih => exact ih _ _ (updateRow_shape ht _ _)

theorem fillAt_shape (upd : Nat → List Nat → List Nat) {w n : Nat} {t : Table} (ht : Shape t w n)
    (off len : Nat) (init : List Nat) : Shape (fillAt t off len init upd) w n :=
  fillLoop_shape upd _ _ _ _ (updateRow_shape ht _ _)

theorem fillFragments_shape (upd : Nat → List Nat → List Nat) (boundary : Nat → List Nat) {w n : Nat}
    (len k i : Nat) {t : Table} (ht : Shape t w n) : Shape (fillFragments upd boundary len k i t) w n := by
  induction k generalizing i t with
  | zero => exact ht
  | succ k ih => exact ih _ (fillAt_shape _ ht _ _ _)

/-- all fragments `i .. i+k−1`: every row of their range holds the state iterated from the
fragment's boundary row with the shifted update closure -/
theorem readRow_fillFragments (upd : Nat → List Nat → List Nat) (boundary : Nat → List Nat) (w n len : Nat)
    (hupd : ∀ j s, s.length = w → (upd j s).length = w)
    (hb : ∀ i, (boundary i).length = w) (hlen : 1 ≤ len)
    (k i : Nat) (t : Table) (ht : Shape t w n) (hfit : (i + k) * len ≤ n) (r : Nat) :
    readRow (fillFragments upd boundary len k i t) r
      = if i * len ≤ r ∧ r < (i + k) * len
        then iterAt (fun j => upd (r / len * len + j)) (r % len) 0 (boundary (r / len))
        else readRow t r := by
  induction k generalizing i t with
  | zero =>
    have : ¬ (i * len ≤ r ∧ r < (i + 0) * len) := by rw [Nat.add_zero]; omega
    rw [if_neg this]; rfl
  | succ k ih =>
    simp only [fillFragments]
    have e1 : (i + (k + 1)) * len = (i + 1 + k) * len := by congr 1; omega
    have e2 : (i + 1) * len = i * len + len := Nat.succ_mul _ _
    have hle : (i + 1) * len ≤ (i + 1 + k) * len := Nat.mul_le_mul_right _ (by omega)
    rw [ih (i + 1) _ (fillAt_shape _ ht _ _ _) (by rw [← e1]; exact hfit)]
    rw [readRow_fillAt (fun j => upd (i * len + j)) w n (fun j s h => hupd _ s h) t ht _ _ _ (hb i) hlen
      (by rw [e1] at hfit; omega)]
    rw [e1]
    by_cases h1 : (i + 1) * len ≤ r ∧ r < (i + 1 + k) * len
    · have h2 : i * len ≤ r ∧ r < (i + 1 + k) * len := by omega
      simp [h1, h2]
    · simp only [h1, if_false]
      by_cases h3 : i * len ≤ r ∧ r < i * len + len
      · have h2 : i * len ≤ r ∧ r < (i + 1 + k) * len := by omega
        have hq : r / len = i := by
          apply Nat.div_eq_of_lt_le
          · exact h3.1
          · rw [e2]; exact h3.2
        have hm : r % len = r - i * len := by
          have := Nat.div_add_mod r len
          rw [hq, Nat.mul_comm] at this
          omega
        simp only [h3, h2, and_self, if_true, hq, hm]
      · have h2 : ¬ (i * len ≤ r ∧ r < (i + 1 + k) * len) := by omega
        simp [h3, h2]

theorem fillFragList_shape (upd : Nat → List Nat → List Nat) (boundary : Nat → List Nat) {w n : Nat}
    (len : Nat) (is : List Nat) {t : Table} (ht : Shape t w n) : Shape (fillFragList upd boundary len is t) w n := by
  induction is generalizing t with
  | nil => exact ht
  | cons i is ih => exact ih (fillAt_shape _ ht _ _ _)

/-- fragments processed in any order, with repetitions: a row belongs to the processed fragment
`r / len` or is untouched -/
theorem readRow_fillFragList (upd : Nat → List Nat → List Nat) (boundary : Nat → List Nat) (w n len : Nat)
    (hupd : ∀ j s, s.length = w → (upd j s).length = w)
    (hb : ∀ i, (boundary i).length = w) (hlen : 1 ≤ len)
    (is : List Nat) (t : Table) (ht : Shape t w n) (hfit : ∀ i ∈ is, (i + 1) * len ≤ n) (r : Nat) :
    readRow (fillFragList upd boundary len is t) r
      = if r / len ∈ is
        then iterAt (fun j => upd (r / len * len + j)) (r % len) 0 (boundary (r / len))
        else readRow t r := by
  induction is generalizing t with
  | nil => simp [fillFragList]
  | cons i is ih =>
    have e2 : (i + 1) * len = i * len + len := Nat.succ_mul _ _
    have hi := hfit i List.mem_cons_self
    show readRow (fillFragList upd boundary len is (fillAt t (i * len) len (boundary i) (fun j => upd (i * len + j)))) r = _
    rw [ih _ (fillAt_shape _ ht _ _ _) (fun j hj => hfit j (List.mem_cons_of_mem _ hj))]
    rw [readRow_fillAt (fun j => upd (i * len + j)) w n (fun j s h => hupd _ s h) t ht _ _ _ (hb i) hlen
      (by omega)]
    by_cases h1 : r / len ∈ is
    · rw [if_pos h1, if_pos (List.mem_cons_of_mem _ h1)]
    · rw [if_neg h1]
      by_cases h3 : i * len ≤ r ∧ r < i * len + len
      · have hq : r / len = i := by
          apply Nat.div_eq_of_lt_le
          · exact h3.1
          · rw [e2]; exact h3.2
        have hm : r % len = r - i * len := by
          have := Nat.div_add_mod r len
          rw [hq, Nat.mul_comm] at this
          omega
        rw [if_pos h3, if_pos (by rw [hq]; exact List.mem_cons_self), hq, hm]
      · have hq : ¬ r / len = i := by
          intro hq
          apply h3
          have := Nat.div_add_mod r len
          have hml := Nat.mod_lt r (show 0 < len by omega)
          rw [hq, Nat.mul_comm] at this
          omega
        have : ¬ r / len ∈ i :: is := by
          intro hm
          rcases List.mem_cons.1 hm with h | h
          · exact hq h
          · exact h1 h
        rw [if_neg h3, if_neg this]

/-- two tables of the same shape with the same rows are equal -/
theorem table_ext {t t' : Table} {w n : Nat} (h : Shape t w n) (h' : Shape t' w n)
    (hr : ∀ r, r < n → readRow t r = readRow t' r) : t = t' := by
  apply List.ext_getElem (by rw [h.1, h'.1])
  intro c hc hc'
  have l1 : t[c].length = n := h.2 _ (List.getElem_mem _)
  have l2 : t'[c].length = n := h'.2 _ (List.getElem_mem _)
  apply List.ext_getElem (by rw [l1, l2])
  intro r hr1 hr2
  have := congrArg (fun l => l[c]?) (hr r (by omega))
  simp only [readRow, List.getElem?_map, List.getElem?_eq_getElem hc, List.getElem?_eq_getElem hc',
    Option.map_some, Option.some.injEq, List.getD_eq_getElem?_getD, List.getElem?_eq_getElem hr1,
    List.getElem?_eq_getElem hr2, Option.getD_some] at this
  exact this

theorem columnsOf_shape (w : Nat) (rows : List (List Nat)) : Shape (columnsOf w rows) w rows.length := by
  refine ⟨by simp [columnsOf], ?_⟩
  intro col hc
  simp only [columnsOf, List.mem_map] at hc
  obtain ⟨c, _, rfl⟩ := hc
  simp

/-- `init` from the columns of a row list: reading row `r` gives back the row -/
theorem readRow_columnsOf (w : Nat) (rows : List (List Nat)) (r : Nat) (hr : r < rows.length)
    (hw : rows[r].length = w) : readRow (init (columnsOf w rows)) r = rows[r] := by
  apply List.ext_getElem (by simp [readRow, init, columnsOf, hw])
  intro c h1 h2
  simp [readRow, init, columnsOf, List.getD_eq_getElem?_getD, hr, h2]

end Wf.TraceTable
