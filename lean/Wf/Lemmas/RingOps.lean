/-
Bridge from the `FieldOps` interface to Mathlib's algebraic classes: `ringOps R inv` interprets
every operation as the ring operation.  Generated formulas instantiated at `ringOps` can then be
normalised by `ring`.
-/
import Wf.Model.FieldOps
import Mathlib.Tactic.Ring
import Mathlib.Algebra.Polynomial.Basic
namespace Wf

def ringOps (R : Type) [CommRing R] [DecidableEq R] (inv : R → R) : FieldOps R where
  zero := 0
  one := 1
  add := (· + ·)
  sub := (· - ·)
  mul := (· * ·)
  neg := (- ·)
  double := fun x => x + x
  square := fun x => x * x
  inv := inv
  ofNat := fun n => (n : R)
  beq := fun a b => decide (a = b)

theorem repeat_square {R : Type} [CommMonoid R] (x : R) (n : Nat) :
    Nat.repeat (fun r => r * r) n x = x ^ (2 ^ n) := by
  induction n with
  | zero => simp [Nat.repeat]
  | succ n ih => simp only [Nat.repeat, ih]; rw [← pow_add, pow_succ, Nat.mul_two]

end Wf
