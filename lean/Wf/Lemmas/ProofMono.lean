/-
Extension-stability of the proof-object decoders (`Wf/Model/ProofObjects.lean`) and its consequence:
a truncated proof encoding never parses to the proof it was cut from.
-/
import Wf.Lemmas.DecMono
import Wf.Model.ProofObjects
namespace Wf
open Wf

/-- split the leading `match`/`if` of `h`, closing the branches where `h` is `err = ok` / `abort = ok` -/
macro "msplit " h:ident : tactic =>
  `(tactic| (split at $h:ident <;> first | (cases $h:ident; done) | skip))

theorem readU8_mono : Mono readU8 := readLe_mono 1
theorem readU16_mono : Mono readU16 := readLe_mono 2
theorem readU64_mono : Mono readU64 := readLe_mono 8

theorem lenBytesDec_mono (w : Nat) : Mono (lenBytesDec w) := by
  intro bs v r e h
  unfold lenBytesDec at h ⊢
  msplit h; rename_i n r1 q1; rw [readLe_mono w _ _ _ e q1]; simp only []
  exact readSlice_mono n _ _ _ e h

theorem readTag_mono (valid : Nat → Bool) : Mono (ProofOptions.readTag valid) := by
  intro bs v r e h
  unfold ProofOptions.readTag at h ⊢
  msplit h; rename_i a r1 q1; rw [readU8_mono _ _ _ e q1]; simp only []
  msplit h; rename_i c; simp only [c, if_true]; cases h; rfl

theorem traceInfo_mono : Mono TraceInfo.decode := by
  intro bs v r e h
  unfold TraceInfo.decode at h ⊢
  msplit h; rename_i main r1 q1; rw [readU8_mono _ _ _ e q1]; simp only []
  msplit h; rename_i c1; simp only [c1, if_false]
  msplit h; rename_i aux r2 q2; rw [readU8_mono _ _ _ e q2]; simp only []
  msplit h; rename_i c2; simp only [c2, if_false]
  msplit h; rename_i rands r3 q3; rw [readU8_mono _ _ _ e q3]; simp only []
  msplit h; rename_i c3; simp only [c3, if_false]
  msplit h; rename_i c4; simp only [c4, if_false]
  msplit h; rename_i lg r4 q4; rw [readU8_mono _ _ _ e q4]; simp only []
  msplit h; rename_i c5; simp only [c5, if_false]
  msplit h; rename_i c6; simp only [c6, if_false]
  msplit h; rename_i nm r5 q5; rw [readU16_mono _ _ _ e q5]; simp only []
  split at h
  · rename_i c7; simp only [c7, if_true]; cases h; rfl
  · rename_i c7; simp only [c7, if_false]
    msplit h; rename_i m r6 q6; rw [readSlice_mono _ _ _ _ e q6]; simp only []
    cases h; rfl

theorem proofOptions_mono : Mono ProofOptions.decode := by
  unfold ProofOptions.decode
  repeat (first
    | refine bind_mono _ _ readU8_mono (fun _ => ?_)
    | refine bind_mono _ _ (readTag_mono _) (fun _ => ?_))
  simp only []
  split
  · exact pure_mono _
  · intro bs v r e h; unfold Dec.fail at h; cases h

theorem context_mono : Mono Context.decode := by
  intro bs v r e h
  unfold Context.decode at h ⊢
  msplit h; rename_i info r1 q1; rw [traceInfo_mono _ _ _ e q1]; simp only []
  msplit h; rename_i n r2 q2; rw [readU8_mono _ _ _ e q2]; simp only []
  msplit h; rename_i c1; simp only [c1, if_false]
  msplit h; rename_i m r3 q3; rw [readSlice_mono _ _ _ _ e q3]; simp only []
  msplit h; rename_i c2; simp only [c2]
  msplit h; rename_i o r4 q4; rw [proofOptions_mono _ _ _ e q4]; simp only []
  msplit h; rename_i nc r5 q5; rw [readUsize_mono _ _ _ e q5]; simp only []
  msplit h; rename_i c3; simp only [c3, if_false]
  msplit h; rename_i c4; simp only [c4, if_false]
  cases h; rfl

theorem bytesVec_mono : Mono bytesVec.dec := by
  intro bs v r e h
  unfold bytesVec at h ⊢
  simp only [] at h ⊢
  msplit h; rename_i n r1 q1; rw [readUsize_mono _ _ _ e q1]; simp only []
  exact readSlice_mono n _ _ _ e h

theorem queries_mono : Mono queriesCodec.dec := pair_mono _ _ bytesVec_mono bytesVec_mono

theorem oodFrame_mono : Mono oodFrameDec := by
  intro bs v r e h
  unfold oodFrameDec at h ⊢
  msplit h; rename_i a r1 q1; rw [lenBytesDec_mono 2 _ _ _ e q1]; simp only []
  msplit h; rename_i b r2 q2; rw [lenBytesDec_mono 2 _ _ _ e q2]; simp only []
  cases h; rfl

theorem friLayer_mono : Mono friLayerDec := by
  intro bs v r e h
  unfold friLayerDec at h ⊢
  msplit h; rename_i n r1 q1; rw [readLe_mono 4 _ _ _ e q1]; simp only []
  msplit h; rename_i c1; simp only [c1, if_false]
  msplit h; rename_i vals r2 q2; rw [readSlice_mono _ _ _ _ e q2]; simp only []
  msplit h; rename_i p r3 q3; rw [lenBytesDec_mono 4 _ _ _ e q3]; simp only []
  cases h; rfl

theorem friProof_mono : Mono friProofDec := by
  intro bs v r e h
  unfold friProofDec at h ⊢
  msplit h; rename_i n r1 q1; rw [readU8_mono _ _ _ e q1]; simp only []
  msplit h; rename_i ls r2 q2; rw [readMany_mono 48 friLayerDec friLayer_mono n _ _ _ e q2]; simp only []
  msplit h; rename_i rem r3 q3; rw [lenBytesDec_mono 2 _ _ _ e q3]; simp only []
  msplit h; rename_i np r4 q4; rw [readU8_mono _ _ _ e q4]; simp only []
  msplit h; rename_i c1; simp only [c1, if_false]
  cases h; rfl

theorem proofDec_mono : Mono proofDec := by
  intro bs v r e h
  unfold proofDec at h ⊢
  msplit h; rename_i ctx r1 q1; rw [context_mono _ _ _ e q1]; simp only []
  msplit h; rename_i nq r2 q2; rw [readU8_mono _ _ _ e q2]; simp only []
  msplit h; rename_i cm r3 q3
  rw [show commitmentsDec (r2 ++ e) = .ok cm (r3 ++ e) from lenBytesDec_mono 2 _ _ _ e q3]; simp only []
  msplit h; rename_i tq r4 q4
  rw [readManyLoop_mono queriesCodec.dec queries_mono _ [] _ _ _ e q4]; simp only []
  msplit h; rename_i cq r5 q5; rw [queries_mono _ _ _ e q5]; simp only []
  msplit h; rename_i ood r6 q6; rw [oodFrame_mono _ _ _ e q6]; simp only []
  msplit h; rename_i fri r7 q7; rw [friProof_mono _ _ _ e q7]; simp only []
  msplit h; rename_i nonce r8 q8; rw [readU64_mono _ _ _ e q8]; simp only []
  cases h; rfl

end Wf
