/-
Helper lemmas for C13, part 4: Lagrange interpolation.  `nodal xs x` is the product of `(X - x')` over
the other nodes; the numerators computed by `interpolate` (via `syn_div`) and by `interpolate_batch`
(via its specialised synthetic division) are both shown to be `nodal`, and the accumulated sum is
evaluated at the nodes.
-/
import Wf.Lemmas.PolynomDiv
import Mathlib.Algebra.BigOperators.Ring.List
set_option linter.unusedSectionVars false
set_option linter.unusedSimpArgs false
namespace Wf.Polynom
open Polynomial Wf Wf.BatchUtils

section fieldD
variable {K : Type} [Field K] [DecidableEq K]

/-- product of `(X - x')` over the nodes other than (one occurrence of) `x` -/
noncomputable def nodal (xs : List K) (x : K) : K[X] := ((xs.erase x).map (fun r => X - C r)).prod

theorem prod_eq_mul_nodal (xs : List K) (x : K) (hx : x ∈ xs) :
    (xs.map (fun r => X - C r)).prod = (X - C x) * nodal xs x := by
  unfold nodal
  induction xs with
  | nil => cases hx
  | cons h t ih =>
    by_cases hh : h = x
    · subst hh
      simp
    · have hx' : x ∈ t := by
        rcases List.mem_cons.mp hx with e | e
        · exact absurd e.symm hh
        · exact e
      rw [List.erase_cons_tail (by simpa using hh)]
      simp only [List.map_cons, List.prod_cons]
      rw [ih hx']
      ring

/-- the cofactor of `(X - x)` in the vanishing polynomial is the nodal polynomial -/
theorem eq_nodal_of_mul (xs : List K) (x : K) (hx : x ∈ xs) (N : K[X])
    (h : (xs.map (fun r => X - C r)).prod = N * (X - C x)) : N = nodal xs x := by
  rw [prod_eq_mul_nodal xs x hx, mul_comm N] at h
  exact (mul_left_cancel₀ (X_sub_C_ne_zero x) h).symm

theorem nodal_eval_self_ne_zero (xs : List K) (hnd : xs.Nodup) (x : K) :
    (nodal xs x).eval x ≠ 0 := by
  unfold nodal
  rw [eval_list_prod]
  apply List.prod_ne_zero
  simp only [List.mem_map, not_exists, not_and]
  rintro q ⟨r, hr, rfl⟩ h0
  simp only [eval_sub, eval_X, eval_C] at h0
  have : r ≠ x := ((List.Nodup.mem_erase_iff hnd).mp hr).1
  exact this (sub_eq_zero.mp h0).symm

theorem nodal_eval_other (xs : List K) (x x0 : K) (hx0 : x0 ∈ xs) (hne : x0 ≠ x) :
    (nodal xs x).eval x0 = 0 := by
  unfold nodal
  rw [eval_list_prod]
  apply List.prod_eq_zero
  simp only [List.mem_map]
  refine ⟨X - C x0, ⟨x0, (List.mem_erase_of_ne hne).mpr hx0, rfl⟩, by simp⟩

/-- `Σ C (y · d x) · nodal x` over a list of points -/
noncomputable def lagrangeSum (xs : List K) (d : K → K) : List (K × K) → K[X]
  | [] => 0
  | p :: rest => C (p.2 * d p.1) * nodal xs p.1 + lagrangeSum xs d rest

theorem lagrangeSum_eval_not_mem (xs : List K) (d : K → K) (pts : List (K × K)) (x0 : K)
    (hx0 : x0 ∈ xs) (h : x0 ∉ pts.map Prod.fst) : (lagrangeSum xs d pts).eval x0 = 0 := by
  induction pts with
  | nil => simp [lagrangeSum]
  | cons p rest ih =>
    simp only [List.map_cons, List.mem_cons, not_or] at h
    simp only [lagrangeSum, eval_add, eval_mul, eval_C]
    rw [nodal_eval_other xs p.1 x0 hx0 h.1, ih h.2]
    simp

theorem lagrangeSum_eval_mem (xs : List K) (hnd : xs.Nodup) (pts : List (K × K)) (x0 y0 : K)
    (hx0 : x0 ∈ xs) (hmem : (x0, y0) ∈ pts) (hnd' : (pts.map Prod.fst).Nodup) :
    (lagrangeSum xs (fun x => ((nodal xs x).eval x)⁻¹) pts).eval x0 = y0 := by
  induction pts with
  | nil => cases hmem
  | cons p rest ih =>
    simp only [List.map_cons, List.nodup_cons] at hnd'
    simp only [lagrangeSum, eval_add, eval_mul, eval_C]
    rcases List.mem_cons.mp hmem with e | e
    · subst e
      rw [lagrangeSum_eval_not_mem xs _ rest x0 hx0 hnd'.1]
      simp only [add_zero]
      rw [mul_assoc, inv_mul_cancel₀ (nodal_eval_self_ne_zero xs hnd x0), mul_one]
    · have hne : x0 ≠ p.1 := by
        intro h
        apply hnd'.1
        rw [← h]
        exact List.mem_map.mpr ⟨(x0, y0), e, rfl⟩
      rw [nodal_eval_other xs p.1 x0 hx0 hne, ih e hnd'.2]
      simp

end fieldD

section fieldE
variable {K : Type} [Field K] [DecidableEq K] (inv : K → K)

theorem accScaled_cons (ops : FieldOps K) (s r : K) (rs : List K) (j : Nat) (num : List K) :
    accScaled ops s (r :: rs) j num =
      match num[j]?, accScaled ops s rs (j + 1) num with
      | some c, some rs' => some (ops.add r (ops.mul c s) :: rs')
      | _, _ => none := rfl

theorem accScaled_spec (s : K) (rs : List K) (j : Nat) (num : List K) (h : j + rs.length ≤ num.length) :
    ∃ r', accScaled (ringOps K inv) s rs j num = some r' ∧ r'.length = rs.length ∧
      ofCoeffs r' = ofCoeffs rs + C s * ofCoeffs ((num.drop j).take rs.length) := by
  induction rs generalizing j with
  | nil => exact ⟨[], rfl, rfl, by simp⟩
  | cons r rs ih =>
    simp only [List.length_cons] at h
    have hj : j < num.length := by omega
    obtain ⟨rs', e1, l1, e2⟩ := ih (j + 1) (by omega)
    refine ⟨(r + num[j] * s) :: rs', ?_, by simp [l1], ?_⟩
    · rw [accScaled_cons, e1, List.getElem?_eq_getElem hj]
      simp
    · rw [List.drop_eq_getElem_cons hj]
      simp only [List.length_cons, List.take_succ_cons, ofCoeffs_cons, e2, C_add, C_mul]
      ring

/-- numerator polynomial of the node `x`: `roots.clone()` after `div_by_linear_in_place(·, x)` -/
def numOf (xs : List K) (x : K) : List K :=
  (synDiv1 (ringOps K inv) x (polyFromRoots (ringOps K inv) xs)).1

theorem num_spec (xs : List K) (x : K) (hx : x ∈ xs) :
    ∃ q0, numOf inv xs x = q0 ++ [0] ∧ q0.length = xs.length ∧ ofCoeffs q0 = nodal xs x := by
  obtain ⟨pl, pe⟩ := polyFromRoots_spec inv xs
  obtain ⟨l1, e1⟩ := synDiv1_spec inv x (polyFromRoots (ringOps K inv) xs)
  obtain ⟨q0, hq⟩ := synDiv1_top inv x (polyFromRoots (ringOps K inv) xs)
    (by intro h; rw [h] at pl; simp at pl)
  refine ⟨q0, hq, ?_, ?_⟩
  · have := congrArg List.length hq
    rw [l1, pl] at this
    simp at this
    omega
  · -- the remainder is the value of the vanishing polynomial at its root x, i.e. zero
    have hz : (ofCoeffs (polyFromRoots (ringOps K inv) xs)).eval x = 0 := by
      rw [pe, prod_eq_mul_nodal xs x hx]; simp
    rw [synDiv1_remainder, hz, hq, ofCoeffs_append] at e1
    simp only [ofCoeffs_cons, ofCoeffs_nil, mul_zero, add_zero, map_zero] at e1
    exact eq_nodal_of_mul xs x hx _ (by rw [← pe]; exact e1)

theorem zip_map_self {α β γ} (l : List α) (f : α → β) (g : β × α → γ) :
    ((l.map f).zip l).map g = l.map (fun x => g (f x, x)) := by
  induction l with
  | nil => rfl
  | cons a l ih => simp [ih]

theorem interpLoop_cons (ops : FieldOps K) (ys : List K) (num : List K) (nums : List (List K))
    (den : K) (dens : List K) (i : Nat) (result : List K) :
    interpLoop ops ys (num :: nums) (den :: dens) i result =
      match ys[i]? with
      | some y =>
        match accScaled ops (ops.mul y den) result 0 num with
        | some result' => interpLoop ops ys nums dens (i + 1) result'
        | none => none
      | none => none := rfl

theorem interpLoop_spec (xs ys : List K) (d : K → K) (l : List K)
    (hl : ∀ x ∈ l, x ∈ xs) (i : Nat) (result : List K) (hres : result.length = xs.length)
    (hys : i + l.length ≤ ys.length) :
    ∃ r, interpLoop (ringOps K inv) ys (l.map (numOf inv xs)) (l.map d) i result = some r ∧
      r.length = xs.length ∧
      ofCoeffs r = ofCoeffs result + lagrangeSum xs d (l.zip (ys.drop i)) := by
  induction l generalizing i result with
  | nil => exact ⟨result, rfl, hres, by simp [lagrangeSum]⟩
  | cons x l ih =>
    simp only [List.length_cons] at hys
    have hi : i < ys.length := by omega
    obtain ⟨q0, hq, lq, eq⟩ := num_spec inv xs x (hl x (List.mem_cons_self ..))
    obtain ⟨r1, e1, l1, p1⟩ := accScaled_spec inv (ys[i] * d x) result 0 (numOf inv xs x)
      (by rw [hq, hres]; simp; omega)
    obtain ⟨r, e2, l2, p2⟩ := ih (fun y hy => hl y (List.mem_cons_of_mem _ hy)) (i + 1) r1
      (by rw [l1, hres]) (by omega)
    refine ⟨r, ?_, l2, ?_⟩
    · simp only [List.map_cons]
      rw [interpLoop_cons, List.getElem?_eq_getElem hi]
      simp only [ringOps_mul, e1]
      exact e2
    · rw [p2, p1, List.drop_eq_getElem_cons hi]
      simp only [List.zip_cons_cons, lagrangeSum, List.drop_zero]
      rw [hres, hq, ← lq, List.take_left' rfl, eq]
      ring

theorem interpolate_spec (hinv : ∀ x : K, x ≠ 0 → x * inv x = 1) (threads : Nat) (xs ys : List K)
    (hnd : xs.Nodup) (hlen : xs.length ≤ ys.length) :
    ∃ r, interpolate (ringOps K inv) threads xs ys false = some r ∧
      interpolate (ringOps K inv) threads xs ys true = some (removeLeadingZeros (ringOps K inv) r) ∧
      r.length = xs.length ∧
      ∀ i (h : i < xs.length), (ofCoeffs r).eval xs[i] = ys[i]'(by omega) := by
  have hdens : ((xs.map (numOf inv xs)).zip xs).map (fun ex => eval (ringOps K inv) ex.1 ex.2)
      = xs.map (fun x => (nodal xs x).eval x) := by
    rw [zip_map_self]
    apply List.map_congr_left
    intro x hx
    obtain ⟨q0, hq, _, eq⟩ := num_spec inv xs x hx
    simp only [eval_eq, hq, ofCoeffs_append, ofCoeffs_cons, ofCoeffs_nil, eq]
    simp
  obtain ⟨r, e, l, p⟩ := interpLoop_spec inv xs ys (fun x => ((nodal xs x).eval x)⁻¹) xs
    (fun x hx => hx) 0 (List.replicate xs.length 0) (by simp) (by omega)
  have hbody : ∀ rlz, interpolate (ringOps K inv) threads xs ys rlz
      = some (if rlz then removeLeadingZeros (ringOps K inv) r else r) := by
    intro rlz
    unfold interpolate interpolateWith
    change (match batchInversion (ringOps K inv) threads
        (((xs.map (numOf inv xs)).zip xs).map (fun ex => eval (ringOps K inv) ex.1 ex.2)) with
      | none => none
      | some dens =>
        match interpLoop (ringOps K inv) ys (xs.map (numOf inv xs)) dens 0
            (List.replicate xs.length (ringOps K inv).zero) with
        | some result => some (if rlz then removeLeadingZeros (ringOps K inv) result else result)
        | none => none) = _
    rw [hdens, batchInversion_eq inv hinv]
    simp only [List.map_map, Function.comp_def, ringOps_zero]
    rw [e]
  refine ⟨r, by simpa using hbody false, by simpa using hbody true, l, ?_⟩
  intro i hi
  rw [p, ofCoeffs_replicate_zero, zero_add, List.drop_zero]
  apply lagrangeSum_eval_mem xs hnd _ _ _ (List.getElem_mem hi)
  · rw [List.mem_iff_getElem]
    exact ⟨i, by simp; omega, by simp⟩
  · rw [List.map_fst_zip (by omega)]
    exact hnd

end fieldE

section fieldF
variable {K : Type} [Field K] [DecidableEq K] (inv : K → K)

/-! ### interpolate_batch -/

theorem batchEquation_cons (ops : FieldOps K) (x r : K) (rest : List K) :
    batchEquation ops x (r :: rest) =
      match batchEquation ops x rest with
      | [] => [r]
      | e :: es => ops.add r (ops.mul e x) :: e :: es := rfl

theorem batchEquation_spec (x : K) (tl : List K) :
    (batchEquation (ringOps K inv) x tl).length = tl.length ∧
    X * ofCoeffs tl = ofCoeffs (batchEquation (ringOps K inv) x tl) * (X - C x)
      + C (x * (batchEquation (ringOps K inv) x tl).headD 0) := by
  induction tl with
  | nil => simp [batchEquation]
  | cons r rest ih =>
    obtain ⟨l1, e1⟩ := ih
    rw [batchEquation_cons]
    cases hE : batchEquation (ringOps K inv) x rest with
    | nil =>
      rw [hE] at l1 e1
      have : rest = [] := List.length_eq_zero_iff.mp l1.symm
      subst this
      simp
      ring
    | cons e es =>
      rw [hE] at l1 e1
      simp only [List.length_cons] at l1 ⊢
      refine ⟨by omega, ?_⟩
      simp only [ofCoeffs_cons, List.headD_cons, ringOps_add, ringOps_mul, C_add, C_mul] at e1 ⊢
      have : X * (C r + X * ofCoeffs rest) = X * C r + X * (X * ofCoeffs rest) := by ring
      rw [this, e1]
      ring

/-- equation of node `x` in a batch `row` -/
def eqOf (row : List K) (x : K) : List K :=
  batchEquation (ringOps K inv) x (fillZeroRoots (ringOps K inv) row).tail

theorem eqOf_spec (row : List K) (x : K) (hx : x ∈ row) :
    (eqOf inv row x).length = row.length ∧ ofCoeffs (eqOf inv row x) = nodal row x := by
  obtain ⟨pl, pe⟩ := polyFromRoots_spec inv row
  unfold polyFromRoots at pl pe
  unfold eqOf
  cases hroots : fillZeroRoots (ringOps K inv) row with
  | nil => rw [hroots] at pl; simp at pl
  | cons r0 tl =>
    rw [hroots] at pl pe
    obtain ⟨l1, e1⟩ := batchEquation_spec inv x tl
    simp only [List.tail_cons]
    refine ⟨by simp at pl; omega, ?_⟩
    have hz : (C r0 + X * ofCoeffs tl).eval x = 0 := by
      rw [← ofCoeffs_cons, pe, prod_eq_mul_nodal row x hx]; simp
    rw [e1] at hz
    simp only [eval_add, eval_C, eval_mul, eval_sub, eval_X, sub_self, mul_zero, zero_add] at hz
    apply eq_nodal_of_mul row x hx
    rw [← pe, ofCoeffs_cons, e1, ← add_assoc, add_comm (C r0), add_assoc, ← C_add, hz]
    simp

theorem zipAcc_spec (s : K) (p e : List K) (h : p.length = e.length) :
    (zipAcc (ringOps K inv) s p e).length = p.length ∧
    ofCoeffs (zipAcc (ringOps K inv) s p e) = ofCoeffs p + C s * ofCoeffs e := by
  induction p generalizing e with
  | nil => cases e <;> simp_all [zipAcc]
  | cons a p ih =>
    cases e with
    | nil => simp at h
    | cons b e =>
      obtain ⟨l1, e1⟩ := ih e (by simpa using h)
      simp only [zipAcc, List.length_cons, l1, ofCoeffs_cons, e1, ringOps_add, ringOps_mul, C_add, C_mul]
      exact ⟨trivial, by ring⟩

theorem batchRow_spec (row : List K) (d : K → K) (l : List K) (hl : ∀ x ∈ l, x ∈ row)
    (ys : List K) (hys : l.length ≤ ys.length) (poly : List K) (hp : poly.length = row.length) :
    ∃ r, batchRow (ringOps K inv) (l.map (eqOf inv row)) ys (l.map d) poly = some r ∧
      r.length = row.length ∧ ofCoeffs r = ofCoeffs poly + lagrangeSum row d (l.zip ys) := by
  induction l generalizing ys poly with
  | nil => exact ⟨poly, by simp [batchRow], hp, by simp [lagrangeSum]⟩
  | cons x l ih =>
    cases ys with
    | nil => simp at hys
    | cons y ys =>
      obtain ⟨le, ee⟩ := eqOf_spec inv row x (hl x (List.mem_cons_self ..))
      obtain ⟨lz, ez⟩ := zipAcc_spec inv (y * d x) poly (eqOf inv row x) (by rw [hp, le])
      obtain ⟨r, e1, l1, p1⟩ := ih (fun z hz => hl z (List.mem_cons_of_mem _ hz)) ys
        (by simpa using hys) (zipAcc (ringOps K inv) (y * d x) poly (eqOf inv row x)) (by rw [lz, hp])
      refine ⟨r, ?_, l1, ?_⟩
      · simp only [List.map_cons, batchRow, ringOps_mul]
        exact e1
      · rw [p1, ez, ee]
        simp only [List.zip_cons_cons, lagrangeSum]
        ring

theorem groupSliceElements_flatten {α} (n : Nat) (hn : 0 < n) (xss : List (List α))
    (h : ∀ a ∈ xss, a.length = n) : groupSliceElements n xss.flatten = some xss := by
  unfold groupSliceElements
  have hl := length_flatten_uniform n xss h
  rw [if_neg (by omega), hl, Nat.mul_mod_left, if_neg (by simp), Nat.mul_div_cancel _ hn,
    chunksOf_flatten n xss h]

theorem batchRows_spec (n : Nat) (d : List K → K → K) (xs ys : List (List K))
    (hx : ∀ row ∈ xs, row.length = n) (hy : ∀ row ∈ ys, row.length = n) (hlen : xs.length ≤ ys.length) :
    ∃ rs, batchRows (ringOps K inv) n (xs.map (fun row => row.map (eqOf inv row)))
        (xs.map (fun row => row.map (d row))) ys = some rs ∧ rs.length = xs.length ∧
      ∀ i (h1 : i < xs.length) (h2 : i < rs.length), (rs[i]).length = n ∧
        ofCoeffs rs[i] = lagrangeSum xs[i] (d xs[i]) (xs[i].zip (ys[i]'(by omega))) := by
  induction xs generalizing ys with
  | nil => exact ⟨[], by simp [batchRows], rfl, fun i h1 => by simp at h1⟩
  | cons row xs ih =>
    cases ys with
    | nil => simp at hlen
    | cons yrow ys =>
      have hrn : row.length = n := hx row (List.mem_cons_self ..)
      have hyn : yrow.length = n := hy yrow (List.mem_cons_self ..)
      obtain ⟨r, e1, l1, p1⟩ := batchRow_spec inv row (d row) row (fun x hx => hx) yrow (by omega)
        (List.replicate n 0) (by simp [hrn])
      obtain ⟨rs, e2, l2, p2⟩ := ih ys (fun r hr => hx r (List.mem_cons_of_mem _ hr))
        (fun r hr => hy r (List.mem_cons_of_mem _ hr)) (by simpa using hlen)
      refine ⟨r :: rs, ?_, by simp [l2], ?_⟩
      · simp only [List.map_cons, batchRows, ringOps_zero, e1, e2]
      · intro i h1 h2
        cases i with
        | zero =>
          simp only [List.getElem_cons_zero]
          exact ⟨by rw [l1, hrn], by rw [p1, ofCoeffs_replicate_zero, zero_add]⟩
        | succ i =>
          simp only [List.getElem_cons_succ]
          exact p2 i (by simpa using h1) (by simpa using h2)

theorem interpolateBatch_spec (hinv : ∀ x : K, x ≠ 0 → x * inv x = 1) (threads n : Nat) (hn : 0 < n)
    (xs ys : List (List K)) (hx : ∀ row ∈ xs, row.length = n ∧ row.Nodup)
    (hy : ∀ row ∈ ys, row.length = n) (hlen : xs.length ≤ ys.length) :
    ∃ rs, interpolateBatch (ringOps K inv) threads n xs ys = some rs ∧ rs.length = xs.length ∧
      ∀ i (h1 : i < xs.length) (h2 : i < rs.length), (rs[i]).length = n ∧
        ∀ j (hj : j < (xs[i]).length),
          (ofCoeffs rs[i]).eval (xs[i])[j] = (ys[i]'(by omega))[j]'(by
            rw [hy _ (List.getElem_mem _), ← (hx _ (List.getElem_mem h1)).1]; exact hj) := by
  let d : List K → K → K := fun row x => ((nodal row x).eval x)⁻¹
  obtain ⟨rs, e, l, p⟩ := batchRows_spec inv n d xs ys (fun r hr => (hx r hr).1) hy hlen
  have hin : (xs.map (fun row => row.map (fun x =>
      eval (ringOps K inv) (batchEquation (ringOps K inv) x (fillZeroRoots (ringOps K inv) row).tail) x))).flatten
      = (xs.map (fun row => row.map (fun x => (nodal row x).eval x))).flatten := by
    congr 1
    apply List.map_congr_left
    intro row _
    apply List.map_congr_left
    intro x hxr
    rw [eval_eq]
    have := (eqOf_spec inv row x hxr).2
    unfold eqOf at this
    rw [this]
  refine ⟨rs, ?_, l, ?_⟩
  · unfold interpolateBatch
    rw [hin, batchInversion_eq inv hinv]
    have h1 : groupSliceElements n
        (xs.map (fun row => row.map (fun x =>
          batchEquation (ringOps K inv) x (fillZeroRoots (ringOps K inv) row).tail))).flatten
        = some (xs.map (fun row => row.map (eqOf inv row))) := by
      apply groupSliceElements_flatten n hn
      intro a ha
      obtain ⟨row, hr, rfl⟩ := List.mem_map.mp ha
      simp [(hx row hr).1]
    rw [h1]
    simp only []
    have h2 : groupSliceElements n
        ((xs.map (fun row => row.map (fun x => (nodal row x).eval x))).flatten.map (fun v => v⁻¹))
        = some (xs.map (fun row => row.map (d row))) := by
      rw [List.map_flatten, List.map_map]
      have : (List.map (fun v => v⁻¹) ∘ fun row => List.map (fun x => (nodal row x).eval x) row)
          = fun row => row.map (d row) := by
        funext row; simp [d, Function.comp_def]
      rw [this]
      apply groupSliceElements_flatten n hn
      intro a ha
      obtain ⟨row, hr, rfl⟩ := List.mem_map.mp ha
      simp [(hx row hr).1]
    rw [h2]
    exact e
  · intro i h1 h2
    obtain ⟨li, pi⟩ := p i h1 h2
    refine ⟨li, ?_⟩
    intro j hj
    rw [pi]
    have hrow := hx _ (List.getElem_mem h1)
    apply lagrangeSum_eval_mem _ hrow.2 _ _ _ (List.getElem_mem hj)
    · rw [List.mem_iff_getElem]
      have hyl : (ys[i]'(by omega)).length = n := hy _ (List.getElem_mem _)
      exact ⟨j, by simp; omega, by simp⟩
    · rw [List.map_fst_zip (by rw [hy _ (List.getElem_mem _), hrow.1])]
      exact hrow.2

end fieldF

end Wf.Polynom
