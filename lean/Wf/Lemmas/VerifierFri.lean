/-
Helper lemmas for `Wf/Props/C05V.lean`, part 2: the FRI verifier never panics on the openings the
whole-verifier model hands it (`Wf.Verifier.layerOpenings`), whatever the proof contains.
-/
import Wf.Lemmas.VerifierBasic
import Wf.Lemmas.Fri
namespace Wf.Verifier
open Wf Wf.Fri

variable {F : Type}

theorem mem_rowsOf_length {α} (w : Nat) (xs : List α) (r : List α) (h : r ∈ rowsOf w xs) : r.length = w := by
  unfold rowsOf at h
  split at h
  · simp at h
  · simp only [List.mem_map, List.mem_range] at h
    obtain ⟨i, hi, rfl⟩ := h
    rw [List.length_take, List.length_drop]
    have h1 : i * w + w ≤ xs.length := by
      have : (i + 1) * w ≤ xs.length / w * w := Nat.mul_le_mul_right _ hi
      have h2 : xs.length / w * w ≤ xs.length := Nat.div_mul_le_self _ _
      rw [Nat.add_mul] at this; omega
    omega

theorem verifyBatch_ok_len {D} [DecidableEq D] (merge : D → D → D) (root : D) (idx : List Nat) (leaves : List D)
    (p : Merkle.BatchProof D) (h : Merkle.verifyBatch merge root idx leaves p = .ok ()) :
    idx.length = leaves.length := by
  unfold Merkle.verifyBatch at h
  split at h
  · cases h
  · cases h
  · rename_i r hr
    unfold Merkle.BatchProof.getRoot at hr
    split at hr
    · cases hr
    · split at hr
      · cases hr
      · rename_i hne; simpa using hne

theorem mapPositionsToIndexes_some (folded : List Nat) (d ff np : Nat) (hff : 0 < ff) (hnp : 0 < np) :
    ∃ idx, mapPositionsToIndexes folded d ff np = some idx ∧ idx.length = folded.length := by
  unfold mapPositionsToIndexes
  split
  · exact ⟨folded, rfl, rfl⟩
  · rw [if_neg (by omega), if_neg (by omega)]
    exact ⟨_, rfl, by simp⟩

theorem getQueryValues_isSome (rows : List (List F)) (positions : List Nat) (d n : Nat) (hn : 0 < n)
    (hdvd : n ∣ d) (hd : 0 < d) (hpos : ∀ p ∈ positions, p < d)
    (hlen : rows.length = (foldPositionsGo (d / n) positions []).length)
    (hrow : ∀ r ∈ rows, r.length = n) :
    ∃ qv, getQueryValues rows positions (foldPositionsGo (d / n) positions []) d n = some qv := by
  obtain ⟨q, hq⟩ := hdvd
  have hqpos : 0 < q := by
    rcases Nat.eq_zero_or_pos q with h | h
    · subst h; simp at hq; omega
    · exact h
  have hdn : d / n = q := by rw [hq]; exact Nat.mul_div_cancel_left _ hn
  unfold getQueryValues
  rw [if_neg (by omega), if_neg (by omega)]
  apply mapM_isSome
  intro p hp
  have hmem : p % (d / n) ∈ foldPositionsGo (d / n) positions [] :=
    (mem_foldPositionsGo (d / n) positions _).mpr ⟨p, hp, rfl⟩
  obtain ⟨idx, h1, h2⟩ := findIdx?_beq_mem _ _ hmem
  have hidx : idx < rows.length := by
    rw [hlen]
    rcases Nat.lt_or_ge idx (foldPositionsGo (d / n) positions []).length with h | h
    · exact h
    · rw [List.getElem?_eq_none h] at h2; cases h2
  have hcol : p / (d / n) < n := by
    apply Nat.div_lt_of_lt_mul
    rw [hdn, Nat.mul_comm, ← hq]; exact hpos p hp
  simp only [h1]
  rw [List.getElem?_eq_getElem hidx]
  have hr := hrow rows[idx] (List.getElem_mem _)
  exact ⟨_, List.getElem?_eq_getElem (by omega)⟩

theorem foldRows_isSome (ops : FieldOps F) (alpha : F) :
    ∀ (xss yss : List (List F)), xss.length ≤ yss.length → ∃ es, foldRows ops alpha xss yss = some es
  | [], _, _ => ⟨[], by simp [foldRows]⟩
  | _ :: _, [], h => by simp at h
  | xs :: xss, ys :: yss, h => by
    obtain ⟨es, hes⟩ := foldRows_isSome ops alpha xss yss (by simpa using h)
    exact ⟨lagrangeEval ops xs ys alpha :: es, by simp [foldRows, hes]⟩

/-- one iteration of the loop of `verify_generic` on rows of the right width whose number matches
the folded positions whenever the Merkle check passed: never a panic, and the next state keeps the
invariant -/
theorem verifyLayer_noabort (ops : FieldOps F) (v : Verifier F) (depth : Nat) (st : LoopState F)
    (rows : List (List F)) (ok : Bool)
    (hf : 0 < v.options.folding) (hnp : 0 < v.numPartitions) (hdvd : v.options.folding ∣ st.domainSize)
    (hd : 0 < st.domainSize) (halpha : depth < v.alphas.length)
    (hrows : ∀ r ∈ rows, r.length = v.options.folding)
    (hlen : ok = true →
      rows.length = (foldPositionsGo (st.domainSize / v.options.folding) st.positions []).length)
    (hp : ∀ p ∈ st.positions, p < st.domainSize) :
    verifyLayer ops v depth st ⟨rows, ok⟩ ≠ .abort ∧
    ∀ st', verifyLayer ops v depth st ⟨rows, ok⟩ = .ok st' →
      st'.positions = foldPositionsGo (st.domainSize / v.options.folding) st.positions [] ∧
      st'.domainSize = st.domainSize / v.options.folding ∧
      ∀ p ∈ st'.positions, p < st'.domainSize := by
  have hle : v.options.folding ≤ st.domainSize := Nat.le_of_dvd hd hdvd
  have hfold := foldPositions_some st.positions st.domainSize v.options.folding hf hle
  have hq : 0 < st.domainSize / v.options.folding := Nat.div_pos hle hf
  constructor
  · intro h
    unfold verifyLayer at h
    rw [hfold] at h
    simp only [] at h
    obtain ⟨idx, hidx, _⟩ := mapPositionsToIndexes_some
      (foldPositionsGo (st.domainSize / v.options.folding) st.positions []) st.domainSize
      v.options.folding v.numPartitions hf hnp
    rw [hidx] at h
    simp only [] at h
    rw [List.getElem?_eq_getElem halpha] at h
    simp only [] at h
    split at h
    · cases h
    · rename_i hok
      have hok' : ok = true := by simpa using hok
      obtain ⟨qv, hqv⟩ := getQueryValues_isSome rows st.positions st.domainSize v.options.folding hf hdvd hd hp
        (hlen hok') hrows
      rw [hqv] at h
      simp only [] at h
      split at h
      · cases h
      · obtain ⟨es, hes⟩ := foldRows_isSome ops v.alphas[depth]
          (layerXs ops st.g v.offset (foldingRoots ops v.g v.domainSize v.options.folding)
            (foldPositionsGo (st.domainSize / v.options.folding) st.positions [])) rows
          (by simp [layerXs, hlen hok'])
        rw [hes] at h
        simp only [] at h
        split at h <;> cases h
  · intro st' h
    have hc := verifyLayer_ok ops v depth st st' ⟨rows, ok⟩ h
    have h1 : st'.positions = foldPositionsGo (st.domainSize / v.options.folding) st.positions [] := by
      have := hc.folded
      rw [hfold] at this
      injection this with this
      exact this.symm
    refine ⟨h1, hc.domainSize, ?_⟩
    intro p hp'
    rw [h1] at hp'
    obtain ⟨p0, _, rfl⟩ := (mem_foldPositionsGo _ _ _).mp hp'
    rw [hc.domainSize]
    exact Nat.mod_lt _ hq

/-- the loop of `verify_generic` on the openings computed by `layerOpenings` from the SAME positions
and domain size: never a panic -/
theorem verifyLoop_noabort (H : HashParams) (ef : EF F) (v : Verifier F)
    (hf : 0 < v.options.folding) (hnp : 0 < v.numPartitions) :
    ∀ (k depth : Nat) (st : LoopState F) (cms : List Nat) (ls : List (List F × Merkle.BatchProof Nat)),
      k ≤ cms.length → k ≤ ls.length → depth + k ≤ v.alphas.length →
      v.options.folding ^ k ∣ st.domainSize → 0 < st.domainSize →
      (∀ p ∈ st.positions, p < st.domainSize) →
      verifyLoop ef.ops v k depth st
        (layerOpenings H ef v.options.folding v.numPartitions st.positions st.domainSize cms ls) ≠ .abort
  | 0, _, _, _, _, _, _, _, _, _, _ => by simp [verifyLoop]
  | k + 1, depth, st, cms, ls, hc, hl, ha, hdvd, hd, hp => by
    cases cms with
    | nil => simp at hc
    | cons cm cms =>
      cases ls with
      | nil => simp at hl
      | cons l ls =>
        obtain ⟨vals, proof⟩ := l
        have hdvd1 : v.options.folding ∣ st.domainSize :=
          Nat.dvd_trans ⟨v.options.folding ^ k, by rw [Nat.pow_succ, Nat.mul_comm]⟩ hdvd
        have hle : v.options.folding ≤ st.domainSize := Nat.le_of_dvd hd hdvd1
        have hfold := foldPositions_some st.positions st.domainSize v.options.folding hf hle
        obtain ⟨idx, hidx, hidxlen⟩ := mapPositionsToIndexes_some
          (foldPositionsGo (st.domainSize / v.options.folding) st.positions []) st.domainSize
          v.options.folding v.numPartitions hf hnp
        simp only [layerOpenings, hfold, Option.getD_some, hidx, verifyLoop]
        have key := verifyLayer_noabort ef.ops v depth st (rowsOf v.options.folding vals)
          (Merkle.verifyBatch H.merge cm idx
            ((rowsOf v.options.folding vals).map fun r => H.hashElements (r.flatMap ef.toCanon)) proof == .ok ())
          hf hnp hdvd1 hd (by omega) (fun r hr => mem_rowsOf_length _ _ _ hr)
          (by
            intro hok
            have := verifyBatch_ok_len _ _ _ _ _ (by simpa using hok)
            simp at this
            omega) hp
        split
        · rename_i st1 h1
          obtain ⟨hpos1, hdom1, hp1⟩ := key.2 st1 h1
          rw [← hpos1, ← hdom1]
          apply verifyLoop_noabort H ef v hf hnp k (depth + 1) st1 cms ls
          · simpa using hc
          · simpa using hl
          · omega
          · rw [hdom1]
            obtain ⟨q, hq⟩ := hdvd
            refine ⟨q, ?_⟩
            rw [hq, Nat.pow_succ, Nat.mul_comm (v.options.folding ^ k), Nat.mul_assoc,
              Nat.mul_div_cancel_left _ hf]
          · rw [hdom1]; exact Nat.div_pos hle hf
          · exact hp1
        · simp
        · rename_i h1
          exact absurd h1 key.1

theorem verifyRemainder_noabort (ops : FieldOps F) (v : Verifier F) (st : LoopState F) (remainder : List F)
    (ok : Bool) : verifyRemainder ops v st remainder ok ≠ .abort := by
  unfold verifyRemainder
  split
  · simp
  · split
    · simp
    · split <;> simp

/-- `FriVerifier::verify` on the openings computed by `layerOpenings`: never a panic -/
theorem friVerify_noabort (H : HashParams) (ef : EF F) (v : Verifier F) (evaluations : List F)
    (positions : List Nat) (cms : List Nat) (ls : List (List F × Merkle.BatchProof Nat)) (remainder : List F)
    (remOk : Bool) (hf : 0 < v.options.folding) (hnp : 0 < v.numPartitions)
    (hc : v.options.numFriLayers v.domainSize ≤ cms.length)
    (hl : v.options.numFriLayers v.domainSize ≤ ls.length)
    (ha : v.options.numFriLayers v.domainSize ≤ v.alphas.length)
    (hdvd : v.options.folding ^ (v.options.numFriLayers v.domainSize) ∣ v.domainSize)
    (hd : 0 < v.domainSize) (hp : ∀ p ∈ positions, p < v.domainSize) :
    Fri.verify ef.ops v evaluations positions
      (layerOpenings H ef v.options.folding v.numPartitions positions v.domainSize cms ls) remainder remOk
      ≠ .abort := by
  unfold Fri.verify
  split
  · simp
  · split
    · simp
    · split
      · exact verifyRemainder_noabort _ _ _ _ _
      · simp
      · rename_i h
        exact absurd h (verifyLoop_noabort H ef v hf hnp _ 0
          { g := v.g, domainSize := v.domainSize, mdp1 := v.maxPolyDegree + 1, positions := positions,
            evaluations := evaluations } cms ls hc hl (by omega) hdvd hd hp)

end Wf.Verifier
