/-
Layer 2 of the C12 proof: the array programs of the model as pointwise statements.
* `permute` on a vector of 2ᵏ elements gathers by bit reversal;
* the two butterfly loops of one `fft_in_place` level, instantiated with ring operations, update
  exactly the pairs `(off+c+2js, off+c+2js+s)` (`c < count`, `j < n`) and nothing else.
-/
import Wf.Lemmas.FftBitRev
import Wf.Lemmas.RingOps
set_option linter.unusedSectionVars false
namespace Wf.Fft

/-! ### array access -/

theorem getD_setIfInBounds {α} (a : Array α) (i : Nat) (v : α) (x : Nat) (d : α) :
    (a.setIfInBounds i v).getD x d = if x = i ∧ i < a.size then v else a.getD x d := by
  simp only [Array.getD_eq_getD_getElem?, Array.getElem?_setIfInBounds]
  by_cases h : i = x
  · subst h
    by_cases h2 : i < a.size
    · simp [h2]
    · simp [h2]
  · have h' : ¬ x = i := fun e => h e.symm
    simp [h, h']

theorem getD_swapIfInBounds {α} (a : Array α) (i j x : Nat) (d : α) (hi : i < a.size)
    (hj : j < a.size) :
    (a.swapIfInBounds i j).getD x d =
      if x = i then a.getD j d else if x = j then a.getD i d else a.getD x d := by
  by_cases hx : x < a.size
  · have hx' : x < (a.swapIfInBounds i j).size := by simpa using hx
    simp only [Array.getD_eq_getD_getElem?, Array.getElem?_eq_getElem hx', Array.getElem?_eq_getElem hx,
      Array.getElem?_eq_getElem hi, Array.getElem?_eq_getElem hj, Option.getD_some,
      Array.getElem_swapIfInBounds, hi, hj, and_true]
    split_ifs <;> rfl
  · have hx' : ¬ x < (a.swapIfInBounds i j).size := by simpa using hx
    have h1 : x ≠ i := by omega
    have h2 : x ≠ j := by omega
    simp [Array.getD_eq_getD_getElem?, Array.getElem?_eq_none (Nat.le_of_not_lt hx'),
      Array.getElem?_eq_none (Nat.le_of_not_lt hx), h1, h2]

/-! ### permute -/

theorem permuteLoop_spec {α} (d : α) (k : Nat) (a0 : Array α) :
    ∀ (rem i : Nat) (a : Array α), i + rem = 2 ^ k → a.size = 2 ^ k →
      (∀ x, x < 2 ^ k → a.getD x d =
        if x < i ∨ bitRev k x < i then a0.getD (bitRev k x) d else a0.getD x d) →
      (permuteLoop (2 ^ k) rem i a).size = 2 ^ k ∧
        ∀ x, x < 2 ^ k → (permuteLoop (2 ^ k) rem i a).getD x d = a0.getD (bitRev k x) d := by
  intro rem
  induction rem with
  | zero =>
    intro i a hi hs hinv
    refine ⟨hs, fun x hx => ?_⟩
    have := hinv x hx
    simp only [permuteLoop]
    rw [this, if_pos (by omega)]
  | succ rem ih =>
    intro i a hi hs hinv
    simp only [permuteLoop, permuteIndex_pow]
    have hilt : i < 2 ^ k := by omega
    have hbi : bitRev k i < 2 ^ k := bitRev_lt k i
    have hbbi : bitRev k (bitRev k i) = i := bitRev_bitRev k i hilt
    apply ih (i + 1) _ (by omega)
    · split <;> simp [hs]
    · intro x hx
      have hbx : bitRev k x < 2 ^ k := bitRev_lt k x
      have hbbx : bitRev k (bitRev k x) = x := bitRev_bitRev k x hx
      have e1 : bitRev k x = i ↔ x = bitRev k i := by
        constructor
        · intro h; rw [← h, hbbx]
        · intro h; rw [h, hbbi]
      by_cases hgt : bitRev k i > i
      · rw [if_pos hgt, getD_swapIfInBounds a i (bitRev k i) x d (by omega) (by omega)]
        by_cases hxi : x = i
        · subst hxi
          rw [if_pos rfl, hinv _ hbi, hbbx, if_neg (by omega), if_pos (by omega)]
        · rw [if_neg hxi]
          by_cases hxb : x = bitRev k i
          · subst hxb
            rw [if_pos rfl, hinv _ hilt, if_neg (by omega), hbbi, if_pos (by omega)]
          · rw [if_neg hxb, hinv x hx]
            have hne : bitRev k x ≠ i := fun h => hxb (e1.mp h)
            by_cases hc : x < i ∨ bitRev k x < i
            · rw [if_pos hc, if_pos (by omega)]
            · rw [if_neg hc, if_neg (by omega)]
      · rw [if_neg hgt, hinv x hx]
        by_cases hxi : x = i
        · subst hxi
          by_cases hc : x < x ∨ bitRev k x < x
          · rw [if_pos hc, if_pos (by omega)]
          · rw [if_neg hc, if_pos (by omega)]
            have : bitRev k x = x := by omega
            rw [this]
        · by_cases hc : x < i ∨ bitRev k x < i
          · rw [if_pos hc, if_pos (by omega)]
          · rw [if_neg hc, if_neg]
            intro h
            have : bitRev k x = i := by omega
            have := e1.mp this
            omega

/-- `permute` of a vector of `2ᵏ` elements: element `x` of the result is element `bitRev k x` of
the input (for any default value `d` used to read the arrays) -/
theorem permute_spec {α} (d : α) (k : Nat) (a : Array α) (hs : a.size = 2 ^ k) :
    (permute a).size = 2 ^ k ∧ ∀ x, x < 2 ^ k → (permute a).getD x d = a.getD (bitRev k x) d := by
  unfold permute
  rw [hs]
  apply permuteLoop_spec d k a (2 ^ k) 0 a (by omega) hs
  intro x _
  rw [if_neg (by omega)]

/-! ### the ring instance of `Ctx` -/

section ring
variable {B E : Type} [CommRing B] [CommRing E] [DecidableEq B] [DecidableEq E]

/-- `Ctx` over two commutative rings connected by a ring homomorphism `φ` (`E::from`), with
`mul_base x t = x · φ t`; `inv`s and `root` are arbitrary functions -/
def ringCtx (φ : B →+* E) (invB : B → B) (invE : E → E) (root : Nat → B) (ta : Nat) : Ctx B E where
  b := ringOps B invB
  e := ringOps E invE
  mulBase := fun x t => x * φ t
  embed := φ
  exp := fun x n => x ^ n
  root := root
  twoAdicity := ta

/-- butterfly with the factor already in `E` -/
def bfE (a : Array E) (T : E) (p s : Nat) : Array E :=
  (a.setIfInBounds p (a.getD p 0 + a.getD (p + s) 0 * T)).setIfInBounds (p + s)
    (a.getD p 0 - a.getD (p + s) 0 * T)

def loopE (T : E) (s : Nat) : Nat → Nat → Array E → Array E
  | 0, _, a => a
  | n + 1, p, a => loopE T s n (p + 1) (bfE a T p s)

def twLoopE (T : Nat → E) (count s : Nat) : Nat → Nat → Nat → Array E → Array E
  | 0, _, _, a => a
  | n + 1, i, base, a => twLoopE T count s n (i + 1) (base + 2 * s) (loopE (T i) s count base a)

variable (φ : B →+* E) (invB : B → B) (invE : E → E) (root : Nat → B) (ta : Nat)

theorem butterfly_eq (a : Array E) (p s : Nat) :
    butterfly (ringCtx φ invB invE root ta) a p s = bfE a 1 p s := by
  simp [butterfly, bfE, ringCtx, ringOps]

theorem butterflyTwiddle_eq (a : Array E) (t : B) (p s : Nat) :
    butterflyTwiddle (ringCtx φ invB invE root ta) a t p s = bfE a (φ t) p s := by
  simp [butterflyTwiddle, bfE, ringCtx, ringOps]

theorem bflyLoop_eq (s : Nat) : ∀ (n p : Nat) (a : Array E),
    bflyLoop (ringCtx φ invB invE root ta) s n p a = loopE 1 s n p a := by
  intro n
  induction n with
  | zero => intro p a; rfl
  | succ n ih => intro p a; simp only [bflyLoop, loopE, butterfly_eq, ih]

theorem bflyTwLoop_eq (s : Nat) (t : B) : ∀ (n p : Nat) (a : Array E),
    bflyTwLoop (ringCtx φ invB invE root ta) s t n p a = loopE (φ t) s n p a := by
  intro n
  induction n with
  | zero => intro p a; rfl
  | succ n ih => intro p a; simp only [bflyTwLoop, loopE, butterflyTwiddle_eq, ih]

theorem twiddleLoop_eq (tws : Array B) (count s : Nat) : ∀ (n i base : Nat) (a : Array E),
    twiddleLoop (ringCtx φ invB invE root ta) tws count s n i base a =
      twLoopE (fun i => φ (tws.getD i 0)) count s n i base a := by
  intro n
  induction n with
  | zero => intro i base a; rfl
  | succ n ih =>
    intro i base a
    simp only [twiddleLoop, twLoopE, bflyTwLoop_eq, ih]
    rfl

theorem twLoopE_congr (T T' : Nat → E) (count s : Nat) : ∀ (n i base : Nat) (a : Array E),
    (∀ j, i ≤ j → T j = T' j) → twLoopE T count s n i base a = twLoopE T' count s n i base a := by
  intro n
  induction n with
  | zero => intro i base a _; rfl
  | succ n ih =>
    intro i base a h
    simp only [twLoopE]
    rw [h i (Nat.le_refl _)]
    exact ih _ _ _ (fun j hj => h j (by omega))

/-! ### pointwise effect of the loops -/

theorem size_bfE (a : Array E) (T : E) (p s : Nat) : (bfE a T p s).size = a.size := by
  simp [bfE]

theorem getD_bfE (a : Array E) (T : E) (p s x : Nat) (hs : 0 < s) (hp : p + s < a.size) :
    (bfE a T p s).getD x 0 =
      if x = p then a.getD p 0 + a.getD (p + s) 0 * T
      else if x = p + s then a.getD p 0 - a.getD (p + s) 0 * T
      else a.getD x 0 := by
  simp only [bfE, getD_setIfInBounds, Array.size_setIfInBounds]
  by_cases h1 : x = p
  · subst h1
    rw [if_neg (by omega), if_pos ⟨rfl, by omega⟩, if_pos rfl]
  · by_cases h2 : x = p + s
    · subst h2
      rw [if_pos ⟨rfl, hp⟩, if_neg h1, if_pos rfl]
    · rw [if_neg (fun h => h2 h.1), if_neg (fun h => h1 h.1), if_neg h1, if_neg h2]

theorem loopE_spec (T : E) (s : Nat) (hs : 0 < s) : ∀ (n p : Nat) (a : Array E),
    n ≤ s → p + s + n ≤ a.size →
    (loopE T s n p a).size = a.size ∧
    ∀ x, (loopE T s n p a).getD x 0 =
      if p ≤ x ∧ x < p + n then a.getD x 0 + a.getD (x + s) 0 * T
      else if p + s ≤ x ∧ x < p + s + n then a.getD (x - s) 0 - a.getD x 0 * T
      else a.getD x 0 := by
  intro n
  induction n with
  | zero =>
    intro p a _ _
    refine ⟨rfl, fun x => ?_⟩
    rw [if_neg (by omega), if_neg (by omega)]
    rfl
  | succ n ih =>
    intro p a hn hp
    simp only [loopE]
    obtain ⟨hsz, hget⟩ := ih (p + 1) (bfE a T p s) (by omega) (by rw [size_bfE]; omega)
    refine ⟨by rw [hsz, size_bfE], fun x => ?_⟩
    rw [hget x]
    have hps : p + s < a.size := by omega
    by_cases c1 : p + 1 ≤ x ∧ x < p + 1 + n
    · have f1 : p ≤ x ∧ x < p + (n + 1) := by omega
      have f2 : ¬ x = p := by omega
      have f3 : ¬ x = p + s := by omega
      have f4 : ¬ x + s = p := by omega
      have f5 : ¬ x + s = p + s := by omega
      rw [if_pos c1, if_pos f1, getD_bfE a T p s x hs hps, getD_bfE a T p s (x + s) hs hps,
        if_neg f2, if_neg f3, if_neg f4, if_neg f5]
    · rw [if_neg c1]
      by_cases c2 : p + 1 + s ≤ x ∧ x < p + 1 + s + n
      · have f1 : ¬ (p ≤ x ∧ x < p + (n + 1)) := by omega
        have f1' : p + s ≤ x ∧ x < p + s + (n + 1) := by omega
        have f2 : ¬ x = p := by omega
        have f3 : ¬ x = p + s := by omega
        have f4 : ¬ x - s = p := by omega
        have f5 : ¬ x - s = p + s := by omega
        rw [if_pos c2, if_neg f1, if_pos f1', getD_bfE a T p s x hs hps,
          getD_bfE a T p s (x - s) hs hps, if_neg f2, if_neg f3, if_neg f4, if_neg f5]
      · rw [if_neg c2, getD_bfE a T p s x hs hps]
        by_cases hx1 : x = p
        · have f1 : p ≤ x ∧ x < p + (n + 1) := by omega
          rw [if_pos hx1, if_pos f1, hx1]
        · rw [if_neg hx1]
          have f1 : ¬ (p ≤ x ∧ x < p + (n + 1)) := by omega
          by_cases hx2 : x = p + s
          · have f2 : p + s ≤ x ∧ x < p + s + (n + 1) := by omega
            rw [if_pos hx2, if_neg f1, if_pos f2, hx2, Nat.add_sub_cancel]
          · have f2 : ¬ (p + s ≤ x ∧ x < p + s + (n + 1)) := by omega
            rw [if_neg hx2, if_neg f1, if_neg f2]

/-- effect of `n` twiddle blocks starting at `base`: block `j` transforms the `count` pairs
`(base+2sj+c, base+2sj+c+s)` with factor `T (i+j)`; every other position is unchanged -/
theorem twLoopE_spec (T : Nat → E) (count s : Nat) (hs : 0 < s) (hc : count ≤ s) :
    ∀ (n i base : Nat) (a : Array E),
    (∀ j, j < n → base + 2 * (s * j) + s + count ≤ a.size) →
    (twLoopE T count s n i base a).size = a.size ∧
    (∀ j c, j < n → c < count →
      (twLoopE T count s n i base a).getD (base + 2 * (s * j) + c) 0 =
        a.getD (base + 2 * (s * j) + c) 0 + a.getD (base + 2 * (s * j) + c + s) 0 * T (i + j) ∧
      (twLoopE T count s n i base a).getD (base + 2 * (s * j) + c + s) 0 =
        a.getD (base + 2 * (s * j) + c) 0 - a.getD (base + 2 * (s * j) + c + s) 0 * T (i + j)) ∧
    (∀ x, (∀ j c, j < n → c < count → x ≠ base + 2 * (s * j) + c ∧ x ≠ base + 2 * (s * j) + c + s) →
      (twLoopE T count s n i base a).getD x 0 = a.getD x 0) := by
  intro n
  induction n with
  | zero =>
    intro i base a _
    exact ⟨rfl, fun j c hj => absurd hj (Nat.not_lt_zero _), fun x _ => rfl⟩
  | succ n ih =>
    intro i base a hb
    simp only [twLoopE]
    have hb0 := hb 0 (by omega)
    simp only [Nat.mul_zero, Nat.add_zero] at hb0
    obtain ⟨hsz1, hget1⟩ := loopE_spec (T i) s hs count base a hc (by omega)
    obtain ⟨hsz, hpair, hother⟩ := ih (i + 1) (base + 2 * s) (loopE (T i) s count base a) (by
      intro j hj
      have := hb (j + 1) (by omega)
      rw [hsz1]
      rw [Nat.mul_succ] at this
      omega)
    refine ⟨by rw [hsz, hsz1], ?_, ?_⟩
    · intro j c hj hcc
      cases j with
      | zero =>
        simp only [Nat.mul_zero, Nat.add_zero]
        have hu : ∀ x, x < base + 2 * s → (twLoopE T count s n (i + 1) (base + 2 * s)
            (loopE (T i) s count base a)).getD x 0 = (loopE (T i) s count base a).getD x 0 := by
          intro x hx
          apply hother
          intro j' c' _ _
          constructor <;> omega
        rw [hu _ (by omega), hu _ (by omega), hget1, hget1, if_pos (by omega), if_neg (by omega),
          if_pos (by omega), Nat.add_sub_cancel]
        exact ⟨rfl, rfl⟩
      | succ j =>
        have e1 : base + 2 * (s * (j + 1)) = base + 2 * s + 2 * (s * j) := by
          rw [Nat.mul_succ]; omega
        have e2 : i + (j + 1) = i + 1 + j := by omega
        have hj' : j < n := by omega
        have hp := hpair j c hj' hcc
        rw [e1, e2, hp.1, hp.2, hget1, hget1, if_neg (by omega), if_neg (by omega),
          if_neg (by omega), if_neg (by omega)]
        exact ⟨rfl, rfl⟩
    · intro x hx
      rw [hother x, hget1]
      · have h0 := hx 0
        simp only [Nat.mul_zero, Nat.add_zero] at h0
        rw [if_neg, if_neg]
        · intro hh
          have := h0 (x - (base + s)) (by omega) (by omega)
          omega
        · intro hh
          have := h0 (x - base) (by omega) (by omega)
          omega
      · intro j c hj hcc
        have := hx (j + 1) c (by omega) hcc
        rw [Nat.mul_succ] at this
        constructor <;> omega

end ring

end Wf.Fft
