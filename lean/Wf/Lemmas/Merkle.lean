/- Lemmas for C18/C19 (Merkle trees): heap view of a built tree, single openings. -/
import Wf.Model.Merkle
namespace Wf.Merkle

/-! ## `x ^ 1` -/

theorem xor_one_even (x : Nat) (h : x % 2 = 0) : x ^^^ 1 = x + 1 := by
  have h1 : (x ^^^ 1) / 2 = x / 2 := by rw [Nat.xor_div_two]; simp
  have h2 : (x ^^^ 1) % 2 = 1 := by
    rw [Nat.xor_mod_two_eq_one]; omega
  omega

theorem xor_one_odd (x : Nat) (h : x % 2 = 1) : x ^^^ 1 = x - 1 := by
  have h1 : (x ^^^ 1) / 2 = x / 2 := by rw [Nat.xor_div_two]; simp
  have h2 : ¬ (x ^^^ 1) % 2 = 1 := by
    rw [Nat.xor_mod_two_eq_one]; omega
  omega

theorem xor_one_div (x : Nat) : (x ^^^ 1) / 2 = x / 2 := by
  rw [Nat.xor_div_two]; simp

theorem xor_one_eq (x : Nat) : x ^^^ 1 = if x % 2 = 0 then x + 1 else x - 1 := by
  by_cases h : x % 2 = 0
  · simp [h, xor_one_even]
  · have : x % 2 = 1 := by omega
    simp [h, xor_one_odd x this]

variable {D : Type}

/-! ## The heap view of a tree -/

/-- `h` gives the value at every heap index `1 ≤ x < 2^(d+1)` of a tree with `2^d` leaves:
    internal nodes are `nodes[x]`, leaves sit at `2^d + j`, and every internal value is the hash of
    its two children. -/
structure Heap (merge : D → D → D) (t : Tree D) (d : Nat) (h : Nat → D) : Prop where
  dpos : 1 ≤ d
  nlen : t.nodes.length = 2 ^ d
  llen : t.leaves.length = 2 ^ d
  node : ∀ x, 1 ≤ x → x < 2 ^ d → t.nodes[x]? = some (h x)
  leaf : ∀ j, j < 2 ^ d → t.leaves[j]? = some (h (2 ^ d + j))
  step : ∀ x, 1 ≤ x → x < 2 ^ d → h x = merge (h (2 * x)) (h (2 * x + 1))

/-! ## `build_merkle_nodes` -/

theorem firstRow_length (merge : D → D → D) : ∀ (l : List D), (firstRow merge l).length = l.length / 2
  | [] => by simp [firstRow]
  | [_] => by simp [firstRow]
  | a :: b :: rest => by
    simp only [firstRow, List.length_cons, firstRow_length merge rest]; omega

theorem firstRow_get (merge : D → D → D) : ∀ (l : List D) (j : Nat) (a b : D),
    l[2 * j]? = some a → l[2 * j + 1]? = some b → (firstRow merge l)[j]? = some (merge a b)
  | [], j, a, b, h, _ => by simp at h
  | [_], j, a, b, _, h => by simp at h
  | x :: y :: rest, 0, a, b, h1, h2 => by
    simp at h1 h2; simp [firstRow, h1, h2]
  | x :: y :: rest, j + 1, a, b, h1, h2 => by
    have e1 : 2 * (j + 1) = (2 * j) + 1 + 1 := by omega
    have e2 : 2 * (j + 1) + 1 = (2 * j + 1) + 1 + 1 := by omega
    rw [e1] at h1; rw [e2] at h2
    simp only [List.getElem?_cons_succ] at h1 h2
    simp only [firstRow, List.getElem?_cons_succ]
    exact firstRow_get merge rest j a b h1 h2

/-- the values written so far, `sfx = nodes[i+1 ..]`, satisfy the heap equations -/
structure Good (merge : D → D → D) (L : List D) (n i : Nat) (sfx : List D) : Prop where
  len : sfx.length + i + 1 = 2 * n
  row : ∀ x, n ≤ x → x < 2 * n → ∃ a b, L[2 * (x - n)]? = some a ∧ L[2 * (x - n) + 1]? = some b ∧
          sfx[x - i - 1]? = some (merge a b)
  up : ∀ x, i < x → x < n → ∃ a b, sfx[2 * x - i - 1]? = some a ∧ sfx[2 * x + 1 - i - 1]? = some b ∧
          sfx[x - i - 1]? = some (merge a b)

theorem upper_good (merge : D → D → D) (L : List D) (n : Nat) :
    ∀ (i : Nat) (sfx : List D), i < n → Good merge L n i sfx →
      ∃ res, upper merge i sfx = some res ∧ Good merge L n 0 res
  | 0, sfx, _, g => ⟨sfx, rfl, g⟩
  | i + 1, sfx, hi, g => by
    have hlen := g.len
    have ha : i < sfx.length := by omega
    have hb : i + 1 < sfx.length := by omega
    obtain ⟨a, hae⟩ : ∃ a, sfx[i]? = some a := ⟨sfx[i], by simp [ha]⟩
    obtain ⟨b, hbe⟩ : ∃ b, sfx[i + 1]? = some b := ⟨sfx[i + 1], by simp [hb]⟩
    simp only [upper, hae, hbe]
    apply upper_good merge L n i (merge a b :: sfx) (by omega)
    refine ⟨by simp; omega, ?_, ?_⟩
    · intro x hx hx2
      obtain ⟨a', b', h1, h2, h3⟩ := g.row x hx hx2
      refine ⟨a', b', h1, h2, ?_⟩
      have : x - i - 1 = (x - (i + 1) - 1) + 1 := by omega
      rw [this, List.getElem?_cons_succ]; exact h3
    · intro x hx hx2
      by_cases hxe : x = i + 1
      · subst hxe
        refine ⟨a, b, ?_, ?_, ?_⟩
        · have : 2 * (i + 1) - i - 1 = i + 1 := by omega
          rw [this, List.getElem?_cons_succ]; exact hae
        · have : 2 * (i + 1) + 1 - i - 1 = (i + 1) + 1 := by omega
          rw [this, List.getElem?_cons_succ]; exact hbe
        · have : i + 1 - i - 1 = 0 := by omega
          rw [this]; rfl
      · obtain ⟨a', b', h1, h2, h3⟩ := g.up x (by omega) hx2
        refine ⟨a', b', ?_, ?_, ?_⟩
        · have : 2 * x - i - 1 = (2 * x - (i + 1) - 1) + 1 := by omega
          rw [this, List.getElem?_cons_succ]; exact h1
        · have : 2 * x + 1 - i - 1 = (2 * x + 1 - (i + 1) - 1) + 1 := by omega
          rw [this, List.getElem?_cons_succ]; exact h2
        · have : x - i - 1 = (x - (i + 1) - 1) + 1 := by omega
          rw [this, List.getElem?_cons_succ]; exact h3

theorem firstRow_good (merge : D → D → D) (L : List D) (hn : 1 ≤ L.length / 2) :
    Good merge L (L.length / 2) (L.length / 2 - 1) (firstRow merge L) := by
  refine ⟨by rw [firstRow_length]; omega, ?_, ?_⟩
  · intro x hx hx2
    have h1 : 2 * (x - L.length / 2) < L.length := by omega
    have h2 : 2 * (x - L.length / 2) + 1 < L.length := by omega
    refine ⟨L[2 * (x - L.length / 2)], L[2 * (x - L.length / 2) + 1], by simp [h1], by simp [h2], ?_⟩
    have : x - (L.length / 2 - 1) - 1 = x - L.length / 2 := by omega
    rw [this]
    apply firstRow_get <;> simp [h1, h2]
  · intro x hx hx2; omega

/-- (a), index form, for every leaf count ≥ 2: `build_merkle_nodes` succeeds, the first row hashes
    leaf pairs and every other internal node hashes its two children. -/
theorem buildNodes_spec [Inhabited D] (merge : D → D → D) (L : List D) (hL : 2 ≤ L.length) :
    ∃ nodes, buildNodes merge L = .ok nodes ∧ nodes.length = 2 * (L.length / 2) ∧
      (∀ j, j < L.length / 2 → ∃ a b, L[2 * j]? = some a ∧ L[2 * j + 1]? = some b ∧
          nodes[L.length / 2 + j]? = some (merge a b)) ∧
      (∀ i, 1 ≤ i → i < L.length / 2 → ∃ a b, nodes[2 * i]? = some a ∧ nodes[2 * i + 1]? = some b ∧
          nodes[i]? = some (merge a b)) := by
  have hn : 1 ≤ L.length / 2 := by omega
  obtain ⟨res, hres, g⟩ := upper_good merge L (L.length / 2) (L.length / 2 - 1) (firstRow merge L)
    (by omega) (firstRow_good merge L hn)
  refine ⟨default :: res, ?_, ?_, ?_, ?_⟩
  · have : ¬ L.length / 2 = 0 := by omega
    simp [buildNodes, this, hres]
  · have := g.len; simp; omega
  · intro j hj
    obtain ⟨a, b, h1, h2, h3⟩ := g.row (L.length / 2 + j) (by omega) (by omega)
    have e : L.length / 2 + j - L.length / 2 = j := by omega
    rw [e] at h1 h2
    refine ⟨a, b, h1, h2, ?_⟩
    have : L.length / 2 + j = (L.length / 2 + j - 0 - 1) + 1 := by omega
    rw [this, List.getElem?_cons_succ]; exact h3
  · intro i hi hi2
    obtain ⟨a, b, h1, h2, h3⟩ := g.up i (by omega) hi2
    refine ⟨a, b, ?_, ?_, ?_⟩
    · have : 2 * i = (2 * i - 0 - 1) + 1 := by omega
      rw [this, List.getElem?_cons_succ]; exact h1
    · have : 2 * i + 1 = (2 * i + 1 - 0 - 1) + 1 := by omega
      rw [this, List.getElem?_cons_succ]; exact h2
    · have : i = (i - 0 - 1) + 1 := by omega
      rw [this, List.getElem?_cons_succ]; exact h3

theorem isPow2_exists (n : Nat) (h : isPow2 n = true) : ∃ d, n = 2 ^ d := by
  simp only [isPow2, Bool.and_eq_true, bne_iff_ne, beq_iff_eq] at h
  exact ⟨n.log2, h.2.symm⟩

theorem isPow2_pow (d : Nat) : isPow2 (2 ^ d) = true := by
  simp only [isPow2, Bool.and_eq_true, bne_iff_ne, beq_iff_eq, Nat.log2_two_pow]
  exact ⟨Nat.ne_of_gt (Nat.two_pow_pos d), trivial⟩

/-- the heap function of a tree -/
def heapFn [Inhabited D] (t : Tree D) (x : Nat) : D :=
  if x < t.nodes.length then t.nodes[x]?.getD default else t.leaves[x - t.nodes.length]?.getD default

/-- a tree returned by `MerkleTree::new` is a heap over its leaves -/
theorem new_heap [Inhabited D] (merge : D → D → D) (L : List D) (t : Tree D)
    (hnew : Tree.new merge L = .ok t) :
    ∃ d, L.length = 2 ^ d ∧ t.leaves = L ∧ Heap merge t d (heapFn t) := by
  unfold Tree.new at hnew
  split at hnew
  · cases hnew
  · rename_i h2
    split at hnew
    · cases hnew
    · rename_i hp
      simp at hp
      obtain ⟨d, hd⟩ := isPow2_exists _ hp
      have hL : 2 ≤ L.length := by omega
      obtain ⟨nodes, hb, hlen, hrow, hup⟩ := buildNodes_spec merge L hL
      rw [hb] at hnew
      simp only [Res.ok.injEq] at hnew
      subst hnew
      have hd1 : 1 ≤ d := by
        rcases d with _ | d
        · simp at hd; omega
        · omega
      have hhalf : L.length / 2 = 2 ^ (d - 1) := by
        rw [hd]; obtain ⟨e, rfl⟩ : ∃ e, d = e + 1 := ⟨d - 1, by omega⟩
        simp [Nat.pow_succ]
      have hN : nodes.length = 2 ^ d := by
        rw [hlen, hd]; obtain ⟨e, rfl⟩ : ∃ e, d = e + 1 := ⟨d - 1, by omega⟩
        simp [Nat.pow_succ]; omega
      refine ⟨d, hd, rfl, ⟨hd1, hN, hd, ?_, ?_, ?_⟩⟩
      · intro x _ hx
        have : x < nodes.length := by omega
        simp [heapFn, this]
      · intro j hj
        have h1 : ¬ (2 ^ d + j < nodes.length) := by omega
        have h3 : j < L.length := by omega
        have e : 2 ^ d + j - nodes.length = j := by omega
        simp only [heapFn, if_neg h1, e]
        simp [h3]
      · intro x hx1 hx
        have hxN : x < nodes.length := by omega
        by_cases hlow : x < L.length / 2
        · obtain ⟨a, b, h1, h2, h3⟩ := hup x hx1 hlow
          have c1 : 2 * x < nodes.length := by omega
          have c2 : 2 * x + 1 < nodes.length := by omega
          simp only [heapFn, if_pos hxN, if_pos c1, if_pos c2, h1, h2, h3, Option.getD_some]
        · obtain ⟨a, b, h1, h2, h3⟩ := hrow (x - L.length / 2) (by omega)
          have e : L.length / 2 + (x - L.length / 2) = x := by omega
          rw [e] at h3
          have c1 : ¬ (2 * x < nodes.length) := by omega
          have c2 : ¬ (2 * x + 1 < nodes.length) := by omega
          have e1 : 2 * x - nodes.length = 2 * (x - L.length / 2) := by omega
          have e2 : 2 * x + 1 - nodes.length = 2 * (x - L.length / 2) + 1 := by omega
          simp only [heapFn, if_pos hxN, if_neg c1, if_neg c2, e1, e2, h1, h2, h3, Option.getD_some]

/-! ## root = recursive pairwise hash -/

theorem take_one_drop (L : List D) (j : Nat) (a : D) (h : L[j]? = some a) :
    (L.drop j).take 1 = [a] := by
  obtain ⟨hj, rfl⟩ := List.getElem?_eq_some_iff.mp h
  rw [List.drop_eq_getElem_cons hj, List.take_succ_cons, List.take_zero]

theorem heap_rootRec {merge : D → D → D} {t : Tree D} {d : Nat} {h : Nat → D}
    (H : Heap merge t d h) :
    ∀ (m k : Nat), m + k = d → ∀ x, 2 ^ k ≤ x → x < 2 ^ (k + 1) →
      rootRec merge m ((t.leaves.drop ((x - 2 ^ k) * 2 ^ m)).take (2 ^ m)) = some (h x)
  | 0, k, hk, x, hx1, hx2 => by
    simp only [Nat.zero_add] at hk; subst hk
    have hj : x - 2 ^ k < 2 ^ k := by rw [Nat.pow_succ] at hx2; omega
    have := H.leaf (x - 2 ^ k) hj
    have e : 2 ^ k + (x - 2 ^ k) = x := by omega
    rw [e] at this
    simp only [Nat.pow_zero, Nat.mul_one]
    rw [take_one_drop _ _ _ this]; rfl
  | m + 1, k, hk, x, hx1, hx2 => by
    have hx2' : x < 2 * 2 ^ k := by rw [Nat.pow_succ] at hx2; omega
    have ih1 := heap_rootRec H m (k + 1) (by omega) (2 * x)
      (by rw [Nat.pow_succ]; omega) (by simp only [Nat.pow_succ] at hx2 ⊢; omega)
    have ih2 := heap_rootRec H m (k + 1) (by omega) (2 * x + 1)
      (by rw [Nat.pow_succ]; omega) (by simp only [Nat.pow_succ] at hx2 ⊢; omega)
    have e1 : (2 * x - 2 ^ (k + 1)) * 2 ^ m = (x - 2 ^ k) * 2 ^ (m + 1) := by
      have : 2 * x - 2 ^ (k + 1) = 2 * (x - 2 ^ k) := by rw [Nat.pow_succ]; omega
      rw [this, Nat.pow_succ]; ac_rfl
    have e2 : (2 * x + 1 - 2 ^ (k + 1)) * 2 ^ m = (x - 2 ^ k) * 2 ^ (m + 1) + 2 ^ m := by
      have : 2 * x + 1 - 2 ^ (k + 1) = 2 * (x - 2 ^ k) + 1 := by rw [Nat.pow_succ]; omega
      rw [this, Nat.pow_succ, Nat.add_mul, Nat.one_mul]; ac_rfl
    rw [e1] at ih1; rw [e2] at ih2
    have hmm : min (2 ^ m) (2 ^ (m + 1)) = 2 ^ m := by rw [Nat.pow_succ]; omega
    have hsub : 2 ^ (m + 1) - 2 ^ m = 2 ^ m := by rw [Nat.pow_succ]; omega
    simp only [rootRec, List.take_take, hmm, List.drop_take, List.drop_drop, hsub, ih1, ih2]
    have hxd : x < 2 ^ d := by
      have : 2 ^ (k + 1) ≤ 2 ^ d := Nat.pow_le_pow_right (by omega) (by omega)
      omega
    rw [H.step x (by have := Nat.two_pow_pos k; omega) hxd]

/-- (a) the root is the recursive pairwise hash of the leaves -/
theorem heap_root {merge : D → D → D} {t : Tree D} {d : Nat} {h : Nat → D}
    (H : Heap merge t d h) : rootRec merge d t.leaves = some (h 1) := by
  have := heap_rootRec H d 0 (by omega) 1 (by simp) (by simp)
  simp only [Nat.pow_zero, Nat.sub_self, Nat.zero_mul, List.drop_zero] at this
  rwa [List.take_of_length_le (by rw [H.llen]; exact Nat.le_refl _)] at this

theorem heap_troot {merge : D → D → D} {t : Tree D} {d : Nat} {h : Nat → D}
    (H : Heap merge t d h) : t.root = .ok (h 1) := by
  have h2 : 1 < 2 ^ d := by
    have : 2 ^ 1 ≤ 2 ^ d := Nat.pow_le_pow_right (by omega) H.dpos
    omega
  simp [Tree.root, H.node 1 (by omega) h2]

theorem heap_depth {merge : D → D → D} {t : Tree D} {d : Nat} {h : Nat → D}
    (H : Heap merge t d h) : t.depth = d := by
  simp [Tree.depth, H.llen]

/-! ## Single openings -/

/-- the authentication path of heap index `y`, `k` levels below the root -/
def sibs (h : Nat → D) : Nat → Nat → List D
  | 0, _ => []
  | k + 1, y => h (y ^^^ 1) :: sibs h k (y / 2)

@[simp] theorem sibs_length (h : Nat → D) : ∀ k y, (sibs h k y).length = k
  | 0, _ => rfl
  | k + 1, y => by simp [sibs, sibs_length h k]

theorem xor_one_range (y k : Nat) (hk : 1 ≤ k) (h1 : 2 ^ k ≤ y) (h2 : y < 2 ^ (k + 1)) :
    2 ^ k ≤ y ^^^ 1 ∧ y ^^^ 1 < 2 ^ (k + 1) := by
  obtain ⟨e, rfl⟩ : ∃ e, k = e + 1 := ⟨k - 1, by omega⟩
  simp only [Nat.pow_succ] at h1 h2 ⊢
  rw [xor_one_eq]; split <;> omega

theorem half_range (y k : Nat) (h1 : 2 ^ (k + 1) ≤ y) (h2 : y < 2 ^ (k + 2)) :
    2 ^ k ≤ y / 2 ∧ y / 2 < 2 ^ (k + 1) := by
  simp only [Nat.pow_succ] at h1 h2 ⊢; omega

theorem heap_pathUp {merge : D → D → D} {t : Tree D} {d : Nat} {h : Nat → D}
    (H : Heap merge t d h) : ∀ (k y : Nat), k < d → 2 ^ k ≤ y → y < 2 ^ (k + 1) →
      pathUp t.nodes y = some (sibs h k y)
  | 0, y, _, h1, h2 => by
    have : y = 1 := by simp at h1 h2; omega
    subst this; rw [pathUp]; simp [sibs]
  | k + 1, y, hk, h1, h2 => by
    have hy : 1 < y := by
      have : 2 ^ 1 ≤ 2 ^ (k + 1) := Nat.pow_le_pow_right (by omega) (by omega)
      omega
    have hr := xor_one_range y (k + 1) (by omega) h1 h2
    have hle : 2 ^ (k + 1 + 1) ≤ 2 ^ d := Nat.pow_le_pow_right (by omega) (by omega)
    have hn := H.node (y ^^^ 1) (by have := Nat.two_pow_pos (k + 1); omega) (by omega)
    have hh := half_range y k h1 h2
    have ih := heap_pathUp H k (y / 2) (by omega) hh.1 hh.2
    rw [pathUp]; simp [hy, hn, ih, sibs]

theorem add_xor_one (N i : Nat) (hN : N % 2 = 0) : (N + i) ^^^ 1 = N + (i ^^^ 1) := by
  rw [xor_one_eq, xor_one_eq i]
  by_cases h : i % 2 = 0
  · have : (N + i) % 2 = 0 := by omega
    simp [h, this]; omega
  · have : ¬ (N + i) % 2 = 0 := by omega
    simp [h, this]; omega

theorem pow_even (d : Nat) (hd : 1 ≤ d) : 2 ^ d % 2 = 0 := by
  obtain ⟨e, rfl⟩ : ∃ e, d = e + 1 := ⟨d - 1, by omega⟩
  rw [Nat.pow_succ]; omega

/-- `prove` returns the leaf and its authentication path -/
theorem heap_prove {merge : D → D → D} {t : Tree D} {d : Nat} {h : Nat → D}
    (H : Heap merge t d h) (i : Nat) (hi : i < 2 ^ d) :
    t.prove i = .ok (h (2 ^ d + i), sibs h d (2 ^ d + i)) := by
  obtain ⟨e, rfl⟩ : ∃ e, d = e + 1 := ⟨d - 1, by have := H.dpos; omega⟩
  have hev := pow_even (e + 1) (by omega)
  have hx : i ^^^ 1 < 2 ^ (e + 1) := by rw [xor_one_eq]; split <;> omega
  have hl := H.leaf i hi
  have hs := H.leaf (i ^^^ 1) hx
  rw [← add_xor_one _ _ hev] at hs
  have hr : 2 ^ e ≤ (i + 2 ^ (e + 1)) / 2 ∧ (i + 2 ^ (e + 1)) / 2 < 2 ^ (e + 1) := by
    rw [Nat.pow_succ] at hi ⊢; omega
  have hp := heap_pathUp H e ((i + 2 ^ (e + 1)) / 2) (by omega) hr.1 hr.2
  have hnot : ¬ i ≥ t.leaves.length := by rw [H.llen]; omega
  simp only [Tree.prove, hnot, if_false, hl, hs, H.nlen, hp, sibs]
  rw [Nat.add_comm i]

/-- one step up the tree -/
theorem heap_step_up {merge : D → D → D} {t : Tree D} {d : Nat} {h : Nat → D}
    (H : Heap merge t d h) (y : Nat) (h1 : 2 ≤ y) (h2 : y < 2 ^ (d + 1)) :
    (if y % 2 = 0 then merge (h y) (h (y ^^^ 1)) else merge (h (y ^^^ 1)) (h y)) = h (y / 2) := by
  have hs := H.step (y / 2) (by omega) (by rw [Nat.pow_succ] at h2; omega)
  rw [xor_one_eq]
  by_cases hy : y % 2 = 0
  · have e1 : 2 * (y / 2) = y := by omega
    simp only [hy, if_true]; rw [hs, e1]
  · have e1 : 2 * (y / 2) = y - 1 := by omega
    have e2 : 2 * (y / 2) + 1 = y := by omega
    simp only [hy, if_false]; rw [hs, e2, e1]

theorem heap_climb {merge : D → D → D} {t : Tree D} {d : Nat} {h : Nat → D}
    (H : Heap merge t d h) : ∀ (k y : Nat), k ≤ d → 2 ^ k ≤ y → y < 2 ^ (k + 1) →
      climb merge (h y) y (sibs h k y) = h 1
  | 0, y, _, h1, h2 => by
    have : y = 1 := by simp at h1 h2; omega
    subst this; rfl
  | k + 1, y, hk, h1, h2 => by
    have hy : 2 ≤ y := by
      have : 2 ^ 1 ≤ 2 ^ (k + 1) := Nat.pow_le_pow_right (by omega) (by omega)
      omega
    have hle : 2 ^ (k + 1 + 1) ≤ 2 ^ (d + 1) := Nat.pow_le_pow_right (by omega) (by omega)
    have hh := half_range y k h1 h2
    simp only [sibs, climb]
    rw [heap_step_up H y hy (by omega)]
    exact heap_climb H k (y / 2) (by omega) hh.1 hh.2

/-- (b) the opening returned by `prove` verifies against the root -/
theorem heap_verify {merge : D → D → D} [DecidableEq D] {t : Tree D} {d : Nat} {h : Nat → D}
    (H : Heap merge t d h) (i : Nat) (hi : i < 2 ^ d) :
    verify merge (h 1) i (h (2 ^ d + i)) (sibs h d (2 ^ d + i)) = .ok () := by
  obtain ⟨e, rfl⟩ : ∃ e, d = e + 1 := ⟨d - 1, by have := H.dpos; omega⟩
  have hev := pow_even (e + 1) (by omega)
  have hy1 : 2 ^ (e + 1) ≤ 2 ^ (e + 1) + i := by omega
  have hy2 : 2 ^ (e + 1) + i < 2 ^ (e + 1 + 1) := by simp only [Nat.pow_succ]; omega
  have hc := heap_climb H (e + 1) (2 ^ (e + 1) + i) (by omega) hy1 hy2
  simp only [sibs, climb] at hc
  have hpar : (2 ^ (e + 1) + i) % 2 = i % 2 := by omega
  rw [hpar] at hc
  simp only [sibs, verify, List.length_cons, sibs_length]
  rw [Nat.add_comm i, hc]; simp

/-- (c) soundness of the path recomputation: with an injective `merge`, a value and a path of
    length `k` that climb from heap index `y` to the root ARE the tree's value and path -/
theorem heap_climb_sound {merge : D → D → D} {t : Tree D} {d : Nat} {h : Nat → D}
    (H : Heap merge t d h)
    (inj : ∀ a b c e, merge a b = merge c e → a = c ∧ b = e) :
    ∀ (k y : Nat) (v : D) (ps : List D), k ≤ d → 2 ^ k ≤ y → y < 2 ^ (k + 1) → ps.length = k →
      climb merge v y ps = h 1 → v = h y ∧ ps = sibs h k y
  | 0, y, v, ps, _, h1, h2, hl, hc => by
    have : y = 1 := by simp at h1 h2; omega
    subst this
    have : ps = [] := List.eq_nil_of_length_eq_zero hl
    subst this
    exact ⟨hc, rfl⟩
  | k + 1, y, v, ps, hk, h1, h2, hl, hc => by
    obtain ⟨p, ps', rfl⟩ : ∃ p ps', ps = p :: ps' := by
      cases ps with
      | nil => simp at hl
      | cons p ps' => exact ⟨p, ps', rfl⟩
    have hy : 2 ≤ y := by
      have : 2 ^ 1 ≤ 2 ^ (k + 1) := Nat.pow_le_pow_right (by omega) (by omega)
      omega
    have hle : 2 ^ (k + 1 + 1) ≤ 2 ^ (d + 1) := Nat.pow_le_pow_right (by omega) (by omega)
    have hh := half_range y k h1 h2
    simp only [climb] at hc
    have ih := heap_climb_sound H inj k (y / 2) _ ps' (by omega) hh.1 hh.2 (by simpa using hl) hc
    have hup := heap_step_up H y hy (by omega)
    rw [← hup] at ih
    simp only [sibs]
    by_cases hpar : y % 2 = 0
    · simp only [hpar, if_true] at ih
      obtain ⟨e1, e2⟩ := inj _ _ _ _ ih.1
      exact ⟨e1, by rw [e2, ih.2]⟩
    · simp only [hpar, if_false] at ih
      obtain ⟨e1, e2⟩ := inj _ _ _ _ ih.1
      exact ⟨e2, by rw [e1, ih.2]⟩

theorem heap_verify_sound {merge : D → D → D} [DecidableEq D] {t : Tree D} {d : Nat} {h : Nat → D}
    (H : Heap merge t d h)
    (inj : ∀ a b c e, merge a b = merge c e → a = c ∧ b = e)
    (i : Nat) (hi : i < 2 ^ d) (leaf : D) (proof : List D) (hlen : proof.length = d)
    (hv : verify merge (h 1) i leaf proof = .ok ()) :
    leaf = h (2 ^ d + i) ∧ proof = sibs h d (2 ^ d + i) := by
  obtain ⟨e, rfl⟩ : ∃ e, d = e + 1 := ⟨d - 1, by have := H.dpos; omega⟩
  obtain ⟨p0, ps, rfl⟩ : ∃ p ps', proof = p :: ps' := by
    cases proof with
    | nil => simp at hlen
    | cons p ps' => exact ⟨p, ps', rfl⟩
  have hev := pow_even (e + 1) (by omega)
  have hy1 : 2 ^ (e + 1) ≤ 2 ^ (e + 1) + i := by omega
  have hy2 : 2 ^ (e + 1) + i < 2 ^ (e + 1 + 1) := by simp only [Nat.pow_succ]; omega
  have hpar : (2 ^ (e + 1) + i) % 2 = i % 2 := by omega
  have hlen' : (p0 :: ps).length = e + 1 := hlen
  simp only [verify, hlen'] at hv
  by_cases hc : climb merge (if i % 2 = 0 then merge leaf p0 else merge p0 leaf)
      ((i + 2 ^ (e + 1)) / 2) ps = h 1
  · exact heap_climb_sound H inj (e + 1) (2 ^ (e + 1) + i) leaf (p0 :: ps) (by omega) hy1 hy2 hlen
      (by simp only [climb]; rw [hpar, Nat.add_comm _ i]; exact hc)
  · rw [if_neg hc] at hv; cases hv

/-! ## `verify`: outcomes, and the index bits it looks at -/

theorem verify_cases [DecidableEq D] (merge : D → D → D) (r : D) (i : Nat) (leaf : D)
    (proof : List D) (hne : proof ≠ []) :
    verify merge r i leaf proof = .ok () ∨ verify merge r i leaf proof = .err .invalid := by
  cases proof with
  | nil => exact absurd rfl hne
  | cons p ps =>
    simp only [verify]
    by_cases hc : climb merge (if i % 2 = 0 then merge leaf p else merge p leaf)
        ((i + 2 ^ (p :: ps).length) / 2) ps = r
    · left; rw [if_pos hc]
    · right; rw [if_neg hc]

theorem climb_high_bits (merge : D → D → D) : ∀ (ps : List D) (v : D) (s m c : Nat),
    ps.length ≤ m → climb merge v (s + 2 ^ m * c) ps = climb merge v s ps
  | [], _, _, _, _, _ => rfl
  | p :: ps, v, s, m, c, hm => by
    obtain ⟨m', rfl⟩ : ∃ m', m = m' + 1 := ⟨m - 1, by simp at hm; omega⟩
    have hx : 2 ^ (m' + 1) * c = 2 * (2 ^ m' * c) := by rw [Nat.pow_succ]; ac_rfl
    have e1 : (s + 2 ^ (m' + 1) * c) % 2 = s % 2 := by rw [hx]; omega
    have e2 : (s + 2 ^ (m' + 1) * c) / 2 = s / 2 + 2 ^ m' * c := by rw [hx]; omega
    simp only [climb, e1, e2]
    exact climb_high_bits merge ps _ (s / 2) m' c (by simp at hm; omega)

/-- `verify` only looks at the low `proof.len()` bits of the index -/
theorem verify_high_bits [DecidableEq D] (merge : D → D → D) (r : D) (i k : Nat) (leaf : D)
    (proof : List D) :
    verify merge r (i + 2 ^ proof.length * k) leaf proof = verify merge r i leaf proof := by
  cases proof with
  | nil => rfl
  | cons p ps =>
    have hx : 2 ^ (ps.length + 1) * k = 2 * (2 ^ ps.length * k) := by rw [Nat.pow_succ]; ac_rfl
    have e1 : (i + 2 ^ (ps.length + 1) * k) % 2 = i % 2 := by rw [hx]; omega
    have e2 : (i + 2 ^ (ps.length + 1) * k + 2 ^ (ps.length + 1)) / 2 =
        (i + 2 ^ (ps.length + 1)) / 2 + 2 ^ ps.length * k := by rw [hx]; omega
    simp only [verify, List.length_cons, e1, e2]
    rw [climb_high_bits merge ps _ _ ps.length k (Nat.le_refl _)]

end Wf.Merkle
