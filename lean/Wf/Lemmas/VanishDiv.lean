/-
The algebra behind constraint quotients (C01 completeness / C02 soundness), over any field (any
commutative domain) with Mathlib polynomials.

`Z_S = ∏_{a ∈ S} (X − a)` is the divisor ("vanishing polynomial") of a finite set `S` of distinct
points – for the STARK: `S` = the trace-domain points of the non-exempt steps (transition
constraints) or the asserted steps (boundary constraints).
-/
import Mathlib.Algebra.Polynomial.Roots
import Mathlib.Algebra.Polynomial.BigOperators
namespace Wf.VanishDiv
open Polynomial

variable {K : Type} [CommRing K] [IsDomain K]
set_option linter.unusedSectionVars false

/-- the divisor of a finite point set -/
noncomputable def Z (S : Finset K) : K[X] := ∏ a ∈ S, (X - C a)

theorem Z_monic (S : Finset K) : (Z S).Monic :=
  monic_prod_of_monic _ _ (fun a _ => monic_X_sub_C a)

theorem Z_ne_zero (S : Finset K) : Z S ≠ 0 := (Z_monic S).ne_zero

theorem Z_natDegree (S : Finset K) : (Z S).natDegree = S.card :=
  natDegree_finsetProd_X_sub_C_eq_card S (fun a => a)

theorem Z_eval_eq_zero (S : Finset K) {a : K} (ha : a ∈ S) : (Z S).eval a = 0 := by
  unfold Z
  rw [eval_prod]
  exact Finset.prod_eq_zero ha (by simp)

theorem Z_eval_ne_zero (S : Finset K) {z : K} (hz : z ∉ S) : (Z S).eval z ≠ 0 := by
  unfold Z
  rw [eval_prod, Finset.prod_ne_zero_iff]
  intro a ha
  simp only [eval_sub, eval_X, eval_C]
  intro h
  apply hz
  have : z = a := sub_eq_zero.1 h
  rw [this]; exact ha

theorem Z_eq_multiset (S : Finset K) : Z S = (S.val.map (fun a => X - C a)).prod := rfl

/-- COMPLETENESS: a polynomial vanishing on `S` is divisible by `Z_S` (and conversely). -/
theorem Z_dvd_iff (S : Finset K) (P : K[X]) : Z S ∣ P ↔ ∀ a ∈ S, P.eval a = 0 := by
  constructor
  · rintro ⟨H, rfl⟩ a ha
    rw [eval_mul, Z_eval_eq_zero S ha, zero_mul]
  · intro h
    by_cases hP : P = 0
    · rw [hP]; exact dvd_zero _
    · rw [Z_eq_multiset, Multiset.prod_X_sub_C_dvd_iff_le_roots hP, Finset.val_le_iff_val_subset]
      intro a ha
      rw [mem_roots hP]
      exact h a ha

/-- the quotient exists and has degree `deg P − |S|` -/
theorem quotient_exists (S : Finset K) (P : K[X]) (hP : P ≠ 0) (h : ∀ a ∈ S, P.eval a = 0) :
    ∃ H : K[X], P = Z S * H ∧ H ≠ 0 ∧ H.natDegree = P.natDegree - S.card ∧ S.card ≤ P.natDegree := by
  obtain ⟨H, rfl⟩ := (Z_dvd_iff S P).2 h
  have hH : H ≠ 0 := fun e => hP (by rw [e, mul_zero])
  refine ⟨H, rfl, hH, ?_, ?_⟩
  · rw [natDegree_mul (Z_ne_zero S) hH, Z_natDegree]; omega
  · rw [natDegree_mul (Z_ne_zero S) hH, Z_natDegree]; omega

/-- … and it is what polynomial division by the (monic) divisor computes -/
theorem divByMonic_quotient (S : Finset K) (P : K[X]) (h : ∀ a ∈ S, P.eval a = 0) :
    P = Z S * (P /ₘ Z S) ∧ (P /ₘ Z S).natDegree = P.natDegree - S.card := by
  constructor
  · have := (modByMonic_eq_zero_iff_dvd (Z_monic S)).2 ((Z_dvd_iff S P).2 h)
    have h2 := modByMonic_add_div P (Z S)
    rw [this, zero_add] at h2
    exact h2.symm
  · rw [natDegree_divByMonic P (Z_monic S), Z_natDegree]

/-- SOUNDNESS, exact part: if `P` does not vanish at some point of `S`, no quotient exists. -/
theorem not_dvd_of_eval_ne_zero (S : Finset K) (P : K[X]) {a : K} (ha : a ∈ S) (hne : P.eval a ≠ 0) :
    ¬ Z S ∣ P := fun h => hne ((Z_dvd_iff S P).1 h a ha)

theorem sub_ne_zero_of_eval_ne_zero (S : Finset K) (P H : K[X]) {a : K} (ha : a ∈ S) (hne : P.eval a ≠ 0) :
    P - Z S * H ≠ 0 := by
  intro h
  apply not_dvd_of_eval_ne_zero S P ha hne
  exact ⟨H, sub_eq_zero.1 h⟩

/-- SOUNDNESS, counting part: if `P` does not vanish at some point of `S`, then for ANY claimed
quotient `H` the out-of-domain identity `P(z) = Z_S(z)·H(z)` holds for at most
`max (deg P) (|S| + deg H)` points `z`. -/
theorem ood_identity_card_le (S : Finset K) (P H : K[X]) {a : K} (ha : a ∈ S) (hne : P.eval a ≠ 0)
    (T : Finset K) (hT : ∀ z ∈ T, P.eval z = (Z S).eval z * H.eval z) :
    T.card ≤ max P.natDegree (S.card + H.natDegree) := by
  have hD := sub_ne_zero_of_eval_ne_zero S P H ha hne
  have h1 : T.val ⊆ (P - Z S * H).roots := by
    intro z hz
    rw [mem_roots hD, IsRoot, eval_sub, eval_mul, hT z hz, sub_self]
  have h2 := card_le_degree_of_subset_roots h1
  have h3 : (P - Z S * H).natDegree ≤ max P.natDegree (S.card + H.natDegree) := by
    refine (natDegree_sub_le _ _).trans (max_le_max (le_refl _) ?_)
    refine natDegree_mul_le.trans ?_
    rw [Z_natDegree]
  exact h2.trans h3

/-- the same for a finite field: the number of ALL `z` satisfying the identity -/
theorem ood_identity_count_le [Fintype K] [DecidableEq K] (S : Finset K) (P H : K[X]) {a : K} (ha : a ∈ S)
    (hne : P.eval a ≠ 0) :
    (Finset.univ.filter (fun z => P.eval z = (Z S).eval z * H.eval z)).card
      ≤ max P.natDegree (S.card + H.natDegree) :=
  ood_identity_card_le S P H ha hne _ (fun _ hz => (Finset.mem_filter.1 hz).2)

/-- outside the domain the identity determines the quotient value: the verifier's check
`P(z)/Z_S(z) = H(z)` is the identity above -/
theorem quotient_value {F : Type} [Field F] (S : Finset F) (P H : F[X]) {z : F} (hz : z ∉ S) :
    P.eval z = (Z S).eval z * H.eval z ↔ H.eval z = P.eval z / (Z S).eval z := by
  have hne := Z_eval_ne_zero S hz
  constructor
  · intro h; rw [h, mul_div_cancel_left₀ _ hne]
  · intro h; rw [h, mul_div_cancel₀ _ hne]

end Wf.VanishDiv
