/-
Verified binary modular exponentiation, evaluated by the kernel (`decide +kernel`) to produce
Lucas certificates.  No native_decide.
-/
import Mathlib.Data.ZMod.Basic
import Mathlib.NumberTheory.LucasPrimality
namespace Wf

def powModAux (m : Nat) : Nat → Nat → Nat → Nat → Nat
  | 0, acc, _, _ => acc
  | f + 1, acc, b, n =>
    if n = 0 then acc
    else powModAux m f (if n % 2 = 1 then acc * b % m else acc) (b * b % m) (n / 2)

/-- a^n mod m for n < 2^256 -/
def powMod (a n m : Nat) : Nat := powModAux m 256 (1 % m) (a % m) n

theorem powModAux_spec (m : Nat) (f : Nat) : ∀ acc b n, n < 2 ^ f →
    powModAux m f acc b n % m = acc * b ^ n % m := by
  induction f with
  | zero =>
    intro acc b n hn
    have : n = 0 := by omega
    subst this; simp [powModAux]
  | succ f ih =>
    intro acc b n hn
    unfold powModAux
    split
    · rename_i h0; subst h0; simp
    · have hlt : n / 2 < 2 ^ f := by rw [Nat.pow_succ] at hn; omega
      rw [ih _ _ _ hlt]
      have hn2 : n = 2 * (n / 2) + n % 2 := (Nat.div_add_mod n 2).symm
      have hb : (b * b % m) ^ (n / 2) % m = b ^ (2 * (n / 2)) % m := by
        rw [← Nat.pow_mod, ← pow_two, ← pow_mul]
      split
      · rename_i h1
        conv_rhs => rw [hn2, h1, pow_succ, ← mul_assoc, mul_right_comm]
        rw [Nat.mul_mod, hb, Nat.mod_mod, ← Nat.mul_mod]
      · rename_i h1
        have h0 : n % 2 = 0 := by omega
        conv_rhs => rw [hn2, h0, add_zero]
        rw [Nat.mul_mod, hb, ← Nat.mul_mod]

theorem powMod_eq (a n m : Nat) (hn : n < 2 ^ 256) : powMod a n m % m = a ^ n % m := by
  unfold powMod
  rw [powModAux_spec m 256 _ _ n hn, Nat.mul_mod, Nat.mod_mod, ← Nat.pow_mod, ← Nat.mul_mod, one_mul]

theorem zmod_pow (p a n : Nat) (hn : n < 2 ^ 256) :
    ((a : ZMod p)) ^ n = ((powMod a n p : Nat) : ZMod p) := by
  rw [← Nat.cast_pow, ← ZMod.natCast_mod (powMod a n p), powMod_eq a n p hn, ZMod.natCast_mod]

theorem zmod_pow_eq_one (p a n : Nat) (hp : 1 < p) (hn : n < 2 ^ 256) (h : powMod a n p % p = 1) :
    ((a : ZMod p)) ^ n = 1 := by
  rw [zmod_pow p a n hn, ← ZMod.natCast_mod, h]; simp

theorem zmod_pow_ne_one (p a n : Nat) (hp : 1 < p) (hn : n < 2 ^ 256) (h : powMod a n p % p ≠ 1) :
    ((a : ZMod p)) ^ n ≠ 1 := by
  rw [zmod_pow p a n hn]
  intro hc
  have : ((powMod a n p : Nat) : ZMod p) = ((1 : Nat) : ZMod p) := by simpa using hc
  rw [ZMod.natCast_eq_natCast_iff'] at this
  rw [this, Nat.mod_eq_of_lt hp] at h
  exact h rfl

end Wf
