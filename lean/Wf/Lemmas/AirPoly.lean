/-
From the description semantics to polynomials (the bridge between `satisfies` and the quotient
algebra of `Wf/Lemmas/VanishDiv.lean`).

* `evalK`   – the expression semantics over an arbitrary commutative ring `K`;
* `cast_eval` – over `ZMod p` it is the model's `eval p` (canonical integers), cast;
* `exPoly`  – the CONSTRAINT POLYNOMIAL of an expression: current cells are replaced by the trace
              column polynomials `T i`, next cells by `T i (g·X)`, periodic values by the periodic
              column polynomials `Q i`;
* `exPoly_eval` – evaluating the constraint polynomial at `x` = evaluating the expression on the
              frame `(T(x), T(g·x))`;
* `exPoly_eval_on_domain` – if the `T i` interpolate the trace columns over the domain
              `{g^s | s < n}`, `g^n = 1`, and the `Q i` the periodic values, then the constraint
              polynomial at `g^s` is the constraint evaluated at step `s` (next row wrapping).
-/
import Mathlib.Data.ZMod.Basic
import Mathlib.Algebra.Field.ZMod
import Mathlib.Algebra.Polynomial.Roots
import Wf.Lemmas.VanishDiv
import Wf.Lemmas.AirDesc
namespace Wf.AirPoly
open Polynomial Wf.AirDesc

section ring
variable {K : Type} [CommRing K]

def evalK (cur next per : Nat → K) : Ex → K
  | .cur i => cur i
  | .next i => next i
  | .per i => per i
  | .k v => (v : K)
  | .acur _ => 0
  | .anext _ => 0
  | .rnd _ => 0
  | .add a b => evalK cur next per a + evalK cur next per b
  | .sub a b => evalK cur next per a - evalK cur next per b
  | .mul a b => evalK cur next per a * evalK cur next per b

noncomputable def exPoly (T : Nat → K[X]) (g : K) (Q : Nat → K[X]) : Ex → K[X]
  | .cur i => T i
  | .next i => (T i).comp (C g * X)
  | .per i => Q i
  | .k v => C (v : K)
  | .acur _ => 0
  | .anext _ => 0
  | .rnd _ => 0
  | .add a b => exPoly T g Q a + exPoly T g Q b
  | .sub a b => exPoly T g Q a - exPoly T g Q b
  | .mul a b => exPoly T g Q a * exPoly T g Q b

theorem exPoly_eval (T : Nat → K[X]) (g : K) (Q : Nat → K[X]) (x : K) (e : Ex) :
    (exPoly T g Q e).eval x
      = evalK (fun i => (T i).eval x) (fun i => (T i).eval (g * x)) (fun i => (Q i).eval x) e := by
  induction e with
  | cur i => rfl
  | next i => simp [exPoly, evalK, eval_comp]
  | per i => rfl
  | k v => simp [exPoly, evalK]
  | acur _ => simp [exPoly, evalK]
  | anext _ => simp [exPoly, evalK]
  | rnd _ => simp [exPoly, evalK]
  | add a b iha ihb => simp only [exPoly, evalK, eval_add, iha, ihb]
  | sub a b iha ihb => simp only [exPoly, evalK, eval_sub, iha, ihb]
  | mul a b iha ihb => simp only [exPoly, evalK, eval_mul, iha, ihb]

theorem evalK_congr (cur cur' next next' per per' : Nat → K) (h1 : ∀ i, cur i = cur' i)
    (h2 : ∀ i, next i = next' i) (h3 : ∀ i, per i = per' i) (e : Ex) :
    evalK cur next per e = evalK cur' next' per' e := by
  have e1 : cur = cur' := funext h1
  have e2 : next = next' := funext h2
  have e3 : per = per' := funext h3
  rw [e1, e2, e3]

/-- on the trace domain the constraint polynomial takes the value of the constraint on the frame
(row s, row (s+1) mod n) with the periodic values of step s -/
theorem exPoly_eval_on_domain (T : Nat → K[X]) (g : K) (Q : Nat → K[X]) (n : Nat) (hg : g ^ n = 1)
    (row : Nat → Nat → K) (perv : Nat → Nat → K)
    (hT : ∀ i s, s < n → (T i).eval (g ^ s) = row s i)
    (hQ : ∀ i s, s < n → (Q i).eval (g ^ s) = perv s i)
    (s : Nat) (hs : s < n) (e : Ex) :
    (exPoly T g Q e).eval (g ^ s) = evalK (row s) (row ((s + 1) % n)) (perv s) e := by
  rw [exPoly_eval]
  apply evalK_congr
  · intro i; exact hT i s hs
  · intro i
    have hn : 0 < n := by omega
    have : g * g ^ s = g ^ ((s + 1) % n) := by
      rw [← pow_succ']
      conv_lhs => rw [← Nat.div_add_mod (s + 1) n, pow_add, pow_mul, hg, one_pow, one_mul]
    rw [this]
    exact hT i _ (Nat.mod_lt _ hn)
  · intro i; exact hQ i s hs

end ring

/-! ## the model's `eval p` is `evalK` over `ZMod p` -/

theorem cast_eval (p : Nat) [NeZero p] (cur next per : List Nat) (e : Ex) :
    ((AirDesc.eval p cur next per e : Nat) : ZMod p)
      = evalK (fun i => ((cur.getD i 0 : Nat) : ZMod p)) (fun i => ((next.getD i 0 : Nat) : ZMod p))
          (fun i => ((per.getD i 0 : Nat) : ZMod p)) e := by
  induction e with
  | cur i => rfl
  | next i => rfl
  | per i => rfl
  | k v => simp [AirDesc.eval, evalK, ZMod.natCast_mod]
  | acur _ => simp [AirDesc.eval, evalK]
  | anext _ => simp [AirDesc.eval, evalK]
  | rnd _ => simp [AirDesc.eval, evalK]
  | add a b iha ihb => simp only [AirDesc.eval, evalK, ZMod.natCast_mod, Nat.cast_add, iha, ihb]
  | sub a b iha ihb =>
    simp only [AirDesc.eval, evalK, ZMod.natCast_mod, Nat.cast_add]
    have hp : 0 < p := Nat.pos_of_ne_zero (NeZero.ne p)
    have hle : AirDesc.eval p cur next per b % p ≤ p := (Nat.mod_lt _ hp).le
    rw [Nat.cast_sub hle, ZMod.natCast_self, ZMod.natCast_mod, iha, ihb]
    ring
  | mul a b iha ihb => simp only [AirDesc.eval, evalK, ZMod.natCast_mod, Nat.cast_mul, iha, ihb]

/-- a model constraint value is zero (mod p) iff its `ZMod p` reading is zero -/
theorem eval_mod_eq_zero_iff (p : Nat) [NeZero p] (cur next per : List Nat) (e : Ex) :
    AirDesc.eval p cur next per e % p = 0 ↔
      evalK (fun i => ((cur.getD i 0 : Nat) : ZMod p)) (fun i => ((next.getD i 0 : Nat) : ZMod p))
        (fun i => ((per.getD i 0 : Nat) : ZMod p)) e = 0 := by
  rw [← cast_eval, ZMod.natCast_eq_zero_iff, Nat.dvd_iff_mod_eq_zero]

/-- transition constraints are reduced (`sub`/`add`/`mul`/`k` at the top): `% p` is the identity -/
theorem eval_sub_lt (p : Nat) (hp : 0 < p) (cur next per : List Nat) (a b : Ex) :
    AirDesc.eval p cur next per (.sub a b) < p := Nat.mod_lt _ hp

/-- expressions whose outermost operation reduces mod p (every transition constraint of the
generator family is a `sub`) -/
def topReduced : Ex → Prop
  | .add _ _ => True
  | .sub _ _ => True
  | .mul _ _ => True
  | .k _ => True
  | _ => False

theorem eval_lt_of_topReduced (p : Nat) (hp : 0 < p) (cur next per : List Nat) (e : Ex) (h : topReduced e) :
    AirDesc.eval p cur next per e < p := by
  cases e <;> first | exact Nat.mod_lt _ hp | exact h.elim

/-- the trace-domain points of the steps `0 .. m−1` -/
noncomputable def domainPts {K : Type} [CommRing K] [DecidableEq K] (g : K) (m : Nat) : Finset K :=
  (Finset.range m).image (fun s => g ^ s)

theorem domainPts_card_le {K : Type} [CommRing K] [DecidableEq K] (g : K) (m : Nat) :
    (domainPts g m).card ≤ m := by
  unfold domainPts
  exact (Finset.card_image_le).trans (by rw [Finset.card_range])

/-- BRIDGE: over the prime field `ZMod p`, with column polynomials `T i` interpolating the trace
columns on the domain `{g^s}` (`g^n = 1`) and `Q i` interpolating the periodic values: all
transition constraints of the description hold on the steps `0 .. m−1` (`m = n − exemptions`)
IFF every constraint polynomial is divisible by the divisor of those steps' domain points. -/
theorem transitions_iff_divisible (p : Nat) [Fact p.Prime] (d : Desc) (rows : List (List Nat)) (n : Nat)
    (g : ZMod p) (hg : g ^ n = 1) (T Q : Nat → (ZMod p)[X])
    (hT : ∀ i s, s < n → (T i).eval (g ^ s) = (((rows.getD s []).getD i 0 : Nat) : ZMod p))
    (hQ : ∀ i s, s < n → (Q i).eval (g ^ s) = (((perAt d s).getD i 0 : Nat) : ZMod p))
    (hred : ∀ t ∈ d.trans, topReduced t.ex) (m : Nat) (hm : m ≤ n) :
    (∀ s, s < m → transHoldsAt p d rows n s = true)
      ↔ ∀ t ∈ d.trans, VanishDiv.Z (domainPts g m) ∣ exPoly T g Q t.ex := by
  have hp : 0 < p := (Fact.out : p.Prime).pos
  have key : ∀ s, s < m → ∀ t : Trans,
      (exPoly T g Q t.ex).eval (g ^ s) = 0 ↔
        AirDesc.eval p (rows.getD s []) (rows.getD ((s + 1) % n) []) (perAt d s) t.ex % p = 0 := by
    intro s hs t
    rw [exPoly_eval_on_domain T g Q n hg
      (fun s i => (((rows.getD s []).getD i 0 : Nat) : ZMod p))
      (fun s i => (((perAt d s).getD i 0 : Nat) : ZMod p)) hT hQ s (by omega) t.ex]
    exact (eval_mod_eq_zero_iff p _ _ _ t.ex).symm
  constructor
  · intro h t ht
    rw [VanishDiv.Z_dvd_iff]
    intro a ha
    unfold domainPts at ha
    rw [Finset.mem_image] at ha
    obtain ⟨s, hs, rfl⟩ := ha
    rw [Finset.mem_range] at hs
    rw [key s hs t]
    have := h s hs
    unfold transHoldsAt at this
    rw [List.all_eq_true] at this
    have := this t ht
    rw [beq_iff_eq] at this
    rw [this, Nat.zero_mod]
  · intro h s hs
    unfold transHoldsAt
    rw [List.all_eq_true]
    intro t ht
    rw [beq_iff_eq]
    have h1 := (VanishDiv.Z_dvd_iff _ _).1 (h t ht) (g ^ s)
      (by unfold domainPts; rw [Finset.mem_image]; exact ⟨s, Finset.mem_range.2 hs, rfl⟩)
    rw [key s hs t] at h1
    rwa [Nat.mod_eq_of_lt (eval_lt_of_topReduced p hp _ _ _ _ (hred t ht))] at h1

end Wf.AirPoly
