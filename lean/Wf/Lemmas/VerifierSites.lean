/-
Helper lemmas for `Wf/Props/C05V.lean`, part 6: WITHOUT any hypothesis on the context, a panic of the
whole-verifier model can only come from one of the three named sites (`Air::new`, periodic columns,
boundary constraints); the remaining sites of `AbortSite` — since fix ceafb22 including the seed
construction and `draw_integers` — are unreachable.
-/
import Wf.Lemmas.VerifierTop
namespace Wf.Verifier
open Wf Wf.AirDesc Wf.AirDivisor

variable {F : Type}

/-- the sites at which the real code panics on a decodable proof -/
def AbortSite.named (s : AbortSite) : Prop :=
  s = .airNew ∨ s = .periodic ∨ s = .boundary

theorem intLoop_le {D} (H : CoinHasher D) (mask n : Nat) : ∀ (k : Nat) (c : Coin D) (vals : List Nat),
    (∀ v ∈ vals, v ≤ mask) → ∀ v ∈ (Coin.intLoop H mask n k c vals).2, v ≤ mask
  | 0, c, vals, h => by simpa [Coin.intLoop] using h
  | k + 1, c, vals, h => by
    unfold Coin.intLoop
    split
    · exact h
    · apply intLoop_le H mask n k
      intro v hv
      rcases List.mem_append.mp hv with hv | hv
      · exact h v hv
      · simp only [List.mem_singleton] at hv
        subst hv
        exact Nat.and_le_right

/-- whatever the number of queries: positions that `draw_integers` returns lie below a non-zero
domain size -/
theorem queryPositions_ok_lt (H : HashParams) (o : ProofOptions) (lde nonce : Nat) (coin : CoinS)
    (ps : List Nat) (hpos : 0 < lde) (h : queryPositions H o lde nonce coin = .ok ps) :
    ∀ p ∈ ps, p < lde := by
  unfold queryPositions at h
  split at h
  · cases h
  · split at h
    · cases h
    · cases h
    · rename_i raw hraw
      injection h with h
      subst h
      intro p hp
      have hp' := (mem_sortDedup _ _).mp hp
      unfold Coin.drawIntegers at hraw
      split at hraw
      · cases hraw
      · split at hraw
        · cases hraw
        · split at hraw
          · cases hraw
          · injection hraw with hraw
            subst hraw
            have := intLoop_le H.coin (lde - 1) o.queries 1000 ⟨H.mergeWithInt coin.seed nonce, 0⟩ []
              (by simp) p hp'
            omega

theorem queryPositions_abort (H : HashParams) (o : ProofOptions) (lde nonce : Nat) (coin : CoinS)
    (s : AbortSite) (h : queryPositions H o lde nonce coin = .error (.abort s)) : s = .drawIntegers := by
  unfold queryPositions at h
  split at h
  · cases h
  · split at h
    · injection h with h; injection h with h; exact h.symm
    · cases h
    · cases h

theorem evaluateConstraints_abort (fp : FieldParams) (ef : EF F) (d : Desc) (pub : PubInputs)
    (info : TraceInfo) (tcoef bcoef cur next : List F) (z : F) (s : AbortSite)
    (hroot : ∃ w, fp.rootOfUnity info.length.log2 = some w)
    (htc : d.trans.length + d.auxTrans.length = tcoef.length)
    (he : d.exemptions ≤ info.length)
    (h : evaluateConstraints fp ef d pub info tcoef bcoef cur next z = .error (.abort s)) :
    s = .periodic ∨ s = .boundary := by
  obtain ⟨w, hw⟩ := hroot
  unfold evaluateConstraints at h
  rw [hw] at h
  simp only [] at h
  rw [if_neg (by omega)] at h
  unfold fromTransition at h
  rw [if_neg (by omega)] at h
  simp only [] at h
  split at h
  · injection h with h; injection h with h; exact Or.inl h.symm
  · split at h
    · injection h with h; injection h with h; exact Or.inr h.symm
    · split at h
      · injection h with h; injection h with h; exact Or.inr h.symm
      · cases h

theorem performVerification_abort (H : HashParams) (fp : FieldParams) (ef : EF F) (d : Desc) (pub : PubInputs)
    (p : ProofM) (ctx : Ctx) (ch : Channel F) (coin0 : CoinS) (s : AbortSite)
    (hd : Decoded p) (hcf : ChannelFacts p ch)
    (hadic : (p.context.info.length * p.context.options.blowup).log2 ≤ fp.twoAdicity)
    (he : d.exemptions ≤ p.context.info.length)
    (hq : p.context.options.queries < p.context.info.length * p.context.options.blowup)
    (h : performVerification H fp ef d pub p ctx ch coin0 = .error (.abort s)) : s.named := by
  obtain ⟨lg, hlg3, hlg64, hlen⟩ := hd.len
  obtain ⟨q0, q255, hbp, hb2, hb128, hfp, hf2, hf16, _, _⟩ := validB_facts _ hd.opts
  obtain ⟨b, hb7, hb⟩ := pow2B_small _ hb128 hbp
  have hlde : p.context.info.length * p.context.options.blowup = 2 ^ (lg + b) := by
    rw [hlen, hb, Nat.pow_add]
  have hadic' : lg + b ≤ fp.twoAdicity := by
    rw [hlde, Nat.log2_two_pow] at hadic; exact hadic
  have hroot : ∃ w, fp.rootOfUnity p.context.info.length.log2 = some w := by
    rw [hlen, Nat.log2_two_pow]; exact rootOfUnity_isSome fp lg (by omega) (by omega)
  unfold performVerification at h
  split at h
  · rename_i htc
    have := hcf.tc
    rw [htc] at this
    unfold numSegments at this
    split at this <;> simp at this
  · rename_i tc0 _ _
    rcases drawChallenges_cases H fp ef p.context.options.batchC
        (d.trans.length + d.auxTrans.length + d.asserts.length) tc0 ch.constraintCommitment coin0 with h1 | ⟨coeffs, z, c2, h1, hco⟩
    · rw [h1] at h; cases h
    · rw [h1] at h
      simp only [] at h
      split at h
      · rename_i e he'
        injection h with h
        subst h
        unfold oodCheck at he'
        split at he'
        · rename_i e' hev
          injection he' with he'
          subst he'
          rcases evaluateConstraints_abort fp ef d pub p.context.info _ _ _ _ z s hroot
            (by simp [List.length_take]; omega) he hev with h | h
          · exact Or.inr (Or.inl h)
          · exact Or.inr (Or.inr h)
        · split at he' <;> cases he'
      · rcases friCommit_cases H fp ef p.context.options
            (p.context.info.main + p.context.info.aux + ctx.numConstraintCompositionColumns)
            p.context.info.length ch (Coin.reseed H.coin c2 (oodDigest H ef ch)) with
          ⟨e, h2, hne⟩ | ⟨deep, alphas, c3, h2, hal, hdiv⟩
        · rw [h2] at h
          simp only [] at h
          injection h with h
          exact absurd h (hne s)
        · rw [h2] at h
          simp only [] at h
          rcases queryPositions_cases H p.context.options
              (p.context.info.length * p.context.options.blowup) ch.nonce c3 ⟨lg + b, hlde⟩ q255 hq with
            h3 | ⟨ps, h3, hps⟩
          · rw [h3] at h; cases h
          · rw [h3] at h
            simp only [] at h
            split at h
            · rename_i e he'
              injection h with h
              subst h
              exact absurd he' (checkOpenings_noabort H ef ch tc0 ps s)
            · exact absurd h (lowDegreeCheck_noabort H fp ef p.context.info p.context.options ch z deep alphas
                ps s lg b hlg3 hlen hb hadic' (by omega) (by rw [hcf.np]; exact Nat.pow_pos (by omega))
                hcf.fc hcf.fl hal hdiv hps)

theorem verifyIn_abort (H : HashParams) (fp : FieldParams) (ef : EF F) (d : Desc) (pub : PubInputs)
    (p : ProofM) (ctx : Ctx) (seed : List Nat) (s : AbortSite)
    (hd : Decoded p) (hcc : ctx.numConstraintCompositionColumns ≤ 255)
    (hadic : (p.context.info.length * p.context.options.blowup).log2 ≤ fp.twoAdicity)
    (he : d.exemptions ≤ p.context.info.length)
    (hq : p.context.options.queries < p.context.info.length * p.context.options.blowup)
    (h : verifyIn H fp ef d pub p ctx seed = .error (.abort s)) : s.named := by
  unfold verifyIn at h
  split at h
  · rename_i e he'
    injection h with h
    subst h
    exact absurd he' (channelNew_noabort fp ef ctx p s hd hcc)
  · rename_i ch hch
    exact performVerification_abort H fp ef d pub p ctx ch _ s hd (channelNew_facts fp ef ctx p ch hch)
      hadic he hq h

theorem verifyParsed_abort (H : HashParams) (fs : FieldSet) (d : Desc) (pub : PubInputs)
    (acc : Security.Acceptable) (p : ProofM) (s : AbortSite)
    (hacc : ∀ bits, acc ≠ .minProven bits) (hfield : fieldOk fs.fp = true) (hd : Decoded p)
    (h : verifyParsed H fs d pub acc p = .error (.abort s)) : s.named := by
  obtain ⟨lg, hlg3, hlg64, hlen⟩ := hd.len
  obtain ⟨q0, q255, hbp, hb2, hb128, hfp, hf2, hf16, _, _⟩ := validB_facts _ hd.opts
  have h8 : 8 ≤ p.context.info.length := by
    rw [hlen]
    calc 8 = 2 ^ 3 := rfl
      _ ≤ 2 ^ lg := Nat.pow_le_pow_right (by omega) hlg3
  unfold verifyParsed at h
  split at h
  · rename_i e he'
    injection h with h
    subst h
    exact absurd he' (validateOptions_noabort H acc p.context s hacc (by omega))
  · split at h
    · cases h
    · rename_i hmod
      obtain ⟨els, hels⟩ := contextElements_isSome fs.fp p.context hfield (by simpa using hmod)
      rw [hels] at h
      simp only [] at h
      split at h
      · cases h
      · split at h
        · cases h
        · rename_i hadic hq
          split at h
          · cases h
          · split at h
            · injection h with h; injection h with h; exact Or.inl h.symm
            · rename_i ctx hctx
              obtain ⟨hex, hcc⟩ := airNew_facts d p.context.info p.context.options ctx hctx h8 hb128
              have hadic' : (p.context.info.length * p.context.options.blowup).log2 ≤ fs.fp.twoAdicity := by omega
              have hq' : p.context.options.queries < p.context.info.length * p.context.options.blowup := by omega
              split at h
              · exact verifyIn_abort H fs.fp fs.e1 d pub p ctx _ s hd hcc hadic' hex hq' h
              · split at h
                · split at h
                  · cases h
                  · exact verifyIn_abort H fs.fp _ d pub p ctx _ s hd hcc hadic' hex hq' h
                · split at h
                  · cases h
                  · exact verifyIn_abort H fs.fp _ d pub p ctx _ s hd hcc hadic' hex hq' h

theorem verifyModel_abort (H : HashParams) (fs : FieldSet) (d : Desc) (pub : PubInputs)
    (acc : Security.Acceptable) (bytes : Bytes) (s : AbortSite)
    (hacc : ∀ bits, acc ≠ .minProven bits) (hfield : fieldOk fs.fp = true)
    (h : verifyModel H fs d pub acc bytes = .error (.abort s)) : s.named := by
  unfold verifyModel at h
  split at h
  · rename_i p r hp
    exact verifyParsed_abort H fs d pub acc p s hacc hfield (proofDec_decoded bytes p r hp) h
  · cases h
  · rename_i ha
    exact absurd ha (proof_noAbort bytes)

end Wf.Verifier
