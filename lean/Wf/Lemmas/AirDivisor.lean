/-
Helper lemmas for C23 / C22: the `ringOps` reading of the divisor model, products over the trace
domain of a primitive root of unity, `next_power_of_two`, `div_ceil`, the degree folds.
-/
import Wf.Model.AirDivisor
import Wf.Lemmas.RingOps
import Mathlib.RingTheory.Polynomial.Cyclotomic.Basic
import Mathlib.RingTheory.RootsOfUnity.PrimitiveRoots
namespace Wf.AirDivisor
open Wf Finset

/-! ## the field instance the theorems are stated over -/

section proj
variable {R : Type} [CommRing R] [DecidableEq R] (inv : R → R)
@[simp] theorem rops_zero : (ringOps R inv).zero = 0 := rfl
@[simp] theorem rops_one : (ringOps R inv).one = 1 := rfl
@[simp] theorem rops_add (a b : R) : (ringOps R inv).add a b = a + b := rfl
@[simp] theorem rops_sub (a b : R) : (ringOps R inv).sub a b = a - b := rfl
@[simp] theorem rops_mul (a b : R) : (ringOps R inv).mul a b = a * b := rfl
@[simp] theorem rops_inv (a : R) : (ringOps R inv).inv a = inv a := rfl
@[simp] theorem rops_ofNat (n : Nat) : (ringOps R inv).ofNat n = (n : R) := rfl
end proj

/-- every `FieldOps` operation is the field operation; `inv` is the field inverse (`0⁻¹ = 0`, as
in winterfell) -/
abbrev fops (K : Type) [Field K] [DecidableEq K] : FieldOps K := ringOps K (fun x => x⁻¹)

/-- exponentiation is the power (for the limb models: C10) -/
abbrev fpow {K : Type} [Monoid K] (x : K) (n : Nat) : K := x ^ n

variable {K : Type} [Field K] [DecidableEq K]

/-! ## polynomial evaluation -/

theorem polyEval_cons (c : K) (p : List K) (x : K) :
    polyEval (fops K) (c :: p) x = polyEval (fops K) p x * x + c := by
  simp [polyEval]

/-! ## products over the trace domain -/

theorem foldl_mul_sub (l : List K) (x r : K) :
    l.foldl (fun r e => (fops K).mul r ((fops K).sub x e)) r = r * (l.map fun e => x - e).prod := by
  induction l generalizing r with
  | nil => simp
  | cons a l ih =>
    rw [List.foldl_cons, ih, List.map_cons, List.prod_cons, rops_mul, rops_sub]; ring

theorem nthRootsFinset_eq_image {g : K} {n : Nat} (hn : 0 < n) (hg : IsPrimitiveRoot g n) :
    Polynomial.nthRootsFinset n (1 : K) = (range n).image (fun s => g ^ s) := by
  symm
  apply Finset.eq_of_subset_of_card_le
  · intro y hy
    simp only [mem_image, mem_range] at hy
    obtain ⟨s, _, rfl⟩ := hy
    rw [Polynomial.mem_nthRootsFinset hn, ← pow_mul, mul_comm, pow_mul, hg.pow_eq_one, one_pow]
  · rw [hg.card_nthRootsFinset, card_image_of_injOn, card_range]
    intro a ha b hb h
    exact hg.pow_inj (by simpa using ha) (by simpa using hb) h

/-- `x^n − 1 = Π_{s<n} (x − g^s)` for a primitive `n`-th root `g` -/
theorem prod_range_sub_pow {g : K} {n : Nat} (hn : 0 < n) (hg : IsPrimitiveRoot g n) (x : K) :
    ∏ s ∈ range n, (x - g ^ s) = x ^ n - 1 := by
  have h := congrArg (Polynomial.eval x) (Polynomial.X_pow_sub_one_eq_prod hn hg)
  simp only [Polynomial.eval_sub, Polynomial.eval_pow, Polynomial.eval_X, Polynomial.eval_one,
    Polynomial.eval_prod, Polynomial.eval_C] at h
  rw [h, nthRootsFinset_eq_image hn hg, prod_image]
  intro a ha b hb h
  exact hg.pow_inj (by simpa using ha) (by simpa using hb) h

omit [DecidableEq K] in
theorem pow_eq_pow_iff_mod {g : K} {n : Nat} (hn : 0 < n) (hg : IsPrimitiveRoot g n) (a b : Nat) :
    g ^ a = g ^ b ↔ a % n = b % n := by
  have key : ∀ m, g ^ m = g ^ (m % n) := fun m => by
    conv_lhs => rw [← Nat.mod_add_div m n, pow_add, pow_mul, hg.pow_eq_one, one_pow, mul_one]
  constructor
  · intro h
    rw [key a, key b] at h
    exact hg.pow_inj (Nat.mod_lt _ hn) (Nat.mod_lt _ hn) h
  · intro h; rw [key a, key b, h]

/-! ## `next_power_of_two` -/

theorem nextPow2Go_spec (n : Nat) : ∀ fuel j : Nat, n ≤ fuel + j → (j = 0 ∨ 2 ^ (j - 1) < n) →
    ∃ k, nextPow2Go n fuel (2 ^ j) = 2 ^ k ∧ n ≤ 2 ^ k ∧ (k = 0 ∨ 2 ^ (k - 1) < n) := by
  intro fuel
  induction fuel with
  | zero =>
    intro j hj hlt
    refine ⟨j, rfl, ?_, hlt⟩
    have : j < 2 ^ j := Nat.lt_two_pow_self
    omega
  | succ fuel ih =>
    intro j hj hlt
    unfold nextPow2Go
    by_cases h : 2 ^ j < n
    · simp only [h, if_true]
      have := ih (j + 1) (by omega) (Or.inr (by simpa using h))
      rwa [pow_succ] at this
    · simp only [h, if_false]
      exact ⟨j, rfl, by omega, hlt⟩

/-- `next_power_of_two` returns the least power of two that is `≥ n` -/
theorem nextPow2_spec (n : Nat) :
    ∃ k, nextPow2 n = 2 ^ k ∧ n ≤ 2 ^ k ∧ ∀ m, n ≤ 2 ^ m → 2 ^ k ≤ 2 ^ m := by
  obtain ⟨k, h1, h2, h3⟩ := nextPow2Go_spec n n 0 (by omega) (Or.inl rfl)
  refine ⟨k, by simpa [nextPow2] using h1, h2, fun m hm => ?_⟩
  rcases h3 with rfl | h3
  · exact Nat.one_le_two_pow
  · apply Nat.pow_le_pow_right (by omega)
    have : 2 ^ (k - 1) < 2 ^ m := by omega
    have := (Nat.pow_lt_pow_iff_right (by omega : 1 < 2)).1 this
    omega

/-! ## `div_ceil` -/

theorem divCeil_mul_ge (a b : Nat) (hb : 0 < b) : a ≤ divCeil a b * b := by
  unfold divCeil
  have := Nat.div_add_mod a b
  have := Nat.mod_lt a hb
  split
  · rw [Nat.add_mul, Nat.mul_comm]; omega
  · rw [Nat.mul_comm]; omega

theorem divCeil_mul_lt (a b : Nat) (hb : 0 < b) : divCeil a b * b < a + b := by
  unfold divCeil
  have := Nat.div_add_mod a b
  have := Nat.mod_lt a hb
  split
  · rw [Nat.add_mul, Nat.mul_comm]; omega
  · rw [Nat.mul_comm]; omega

theorem divCeil_of_dvd (a b : Nat) (h : a % b = 0) : divCeil a b * b = a := by
  unfold divCeil
  simp only [h, Nat.lt_irrefl, if_false]
  exact Nat.div_mul_cancel (Nat.dvd_of_mod_eq_zero h)

/-! ## degree folds -/

theorem foldl_add_eq (f : Nat → Nat) (l : List Nat) (r : Nat) :
    l.foldl (fun acc c => acc + f c) r = r + (l.map f).sum := by
  induction l generalizing r with
  | nil => simp
  | cons a l ih => simp only [List.foldl_cons, ih, List.map_cons, List.sum_cons]; omega

theorem foldl_max_ge (f : TcDegree → Nat) (l : List TcDegree) (r : Nat) :
    r ≤ l.foldl (fun hi d => if f d > hi then f d else hi) r ∧
    ∀ d ∈ l, f d ≤ l.foldl (fun hi d => if f d > hi then f d else hi) r := by
  induction l generalizing r with
  | nil => simp
  | cons a l ih =>
    simp only [List.foldl_cons, List.mem_cons]
    by_cases c : f a > r
    · simp only [c, if_true]
      obtain ⟨h1, h2⟩ := ih (f a)
      refine ⟨by omega, ?_⟩
      rintro d (rfl | hd)
      · exact h1
      · exact h2 d hd
    · simp only [c, if_false]
      obtain ⟨h1, h2⟩ := ih r
      refine ⟨h1, ?_⟩
      rintro d (rfl | hd)
      · omega
      · exact h2 d hd

theorem foldl_max_mem (f : TcDegree → Nat) (l : List TcDegree) (r : Nat) :
    l.foldl (fun hi d => if f d > hi then f d else hi) r = r ∨
    ∃ d ∈ l, l.foldl (fun hi d => if f d > hi then f d else hi) r = f d := by
  induction l generalizing r with
  | nil => simp
  | cons a l ih =>
    simp only [List.foldl_cons, List.mem_cons]
    rcases ih (if f a > r then f a else r) with h | ⟨d, hd, h⟩
    · by_cases c : f a > r
      · right; exact ⟨a, Or.inl rfl, by simpa [c] using h⟩
      · left; simpa [c] using h
    · right; exact ⟨d, Or.inr hd, h⟩

end Wf.AirDivisor
