/-
C16 helper lemmas, word level: the frequency-domain `mds_multiply` of the two f64 hashers (translated
kernels `Wf.Gen.RescueMds12/8`) is the plain product with the generated MDS table, for EVERY state.

 * `freq12_linear` / `freq8_linear`: `mds_multiply_freq` is the integer matrix product modulo 2^64 — a
   polynomial identity in the commutative ring `BitVec 64` (all operations of the real-FFT kernels
   and blocks are `+ - *` with wrapping semantics), closed by `ring`; no range condition is needed.
 * limbs are below 2^32 and the row sums of the tables below 2^32, so the products do not wrap: the
   `BitVec` dot product is the natural-number dot product (`dotW_toNat`).
 * `mdsFold_spec`: the `(s_hi << 32) - s_hi` fold is congruent to `lo + 2^32·hi` modulo p for ALL
   64-bit limb products (`bv_decide` on a 192-bit restatement); its result MAY be ≥ M.
 * `add_any_spec`: `add w k` is reduced and correct for ANY word `w` when the constant `k` is at most
   `M − 2^32 + 1` — this is what re-normalises a non-canonical `mds_multiply` output.
-/
import Wf.Model.Rescue
import Wf.Lemmas.F64
import Wf.Lemmas.Primes
import Mathlib.Data.BitVec
import Mathlib.Tactic.Ring
namespace Wf.Rescue
open Wf.Gen

instance : DecidablePred Wf.F64.Rep := fun x => inferInstanceAs (Decidable (x < Wf.Gen.F64.M))

/-- (with Mathlib in scope `decide` on `∀ w ∈ l, _` over `BitVec 64` picks the Fintype instance and
enumerates 2^64 words: go through `List.all`) -/
theorem all_rep (l : List W) (h : l.all (fun w => decide (Wf.F64.Rep w)) = true) : ∀ w ∈ l, Wf.F64.Rep w :=
  fun w hw => of_decide_eq_true (List.all_eq_true.mp h w hw)

/-! ## the linear identity -/

/-- Σ c_j·x_j in `BitVec 64` (wrapping) -/
def dotW (row : List Nat) (xs : List W) : W :=
  (List.zipWith (fun c x => BitVec.ofNat 64 c * x) row xs).foldl (· + ·) 0

set_option maxRecDepth 4000 in
theorem freq12_linear (t : T12) :
    ofT12 (RescueMds12.mds_multiply_freq t) = RescueConsts.Rp64.MDS.map (fun row => dotW row (ofT12 t)) := by
  obtain ⟨x0, x1, x2, x3, x4, x5, x6, x7, x8, x9, x10, x11⟩ := t
  simp only [RescueMds12.mds_multiply_freq, RescueMds12.fft4_real, RescueMds12.fft2_real,
    RescueMds12.ifft4_real_unreduced, RescueMds12.ifft2_real_unreduced, RescueMds12.block1, RescueMds12.block2,
    RescueMds12.block3, RescueMds12.MDS_FREQ_BLOCK_ONE, RescueMds12.MDS_FREQ_BLOCK_TWO,
    RescueMds12.MDS_FREQ_BLOCK_THREE, RescueConsts.Rp64.MDS, List.map, dotW, List.zipWith, List.foldl, ofT12,
    List.cons.injEq, and_true]
  simp only [← BitVec.ofNat_eq_ofNat]
  refine ⟨?_, ?_, ?_, ?_, ?_, ?_, ?_, ?_, ?_, ?_, ?_, ?_⟩ <;> ring

set_option maxRecDepth 4000 in
theorem freq8_linear (t : T8) :
    ofT8 (RescueMds8.mds_multiply_freq t) = RescueConsts.Jive.MDS.map (fun row => dotW row (ofT8 t)) := by
  obtain ⟨x0, x1, x2, x3, x4, x5, x6, x7⟩ := t
  simp only [RescueMds8.mds_multiply_freq, RescueMds8.fft4_real, RescueMds8.fft2_real,
    RescueMds8.ifft4_real_unreduced, RescueMds8.ifft2_real_unreduced, RescueMds8.block1, RescueMds8.block2,
    RescueMds8.block3, RescueMds8.MDS_FREQ_BLOCK_ONE, RescueMds8.MDS_FREQ_BLOCK_TWO,
    RescueMds8.MDS_FREQ_BLOCK_THREE, RescueConsts.Jive.MDS, List.map, dotW, List.zipWith, List.foldl, ofT8,
    List.cons.injEq, and_true]
  simp only [← BitVec.ofNat_eq_ofNat]
  refine ⟨?_, ?_, ?_, ?_, ?_, ?_, ?_, ?_⟩ <;> ring

/-! ## limb split and fold -/

/-- `(s as u32) as u64` -/
def lo (w : W) : W := BitVec.setWidth 64 (BitVec.setWidth 32 w)
/-- `s >> 32` -/
def hi (w : W) : W := w >>> 32

/-- the per-lane tail of `mds_multiply`: `s = l + (h << 32)` as u128, fold the high word with
`2^64 ≡ 2^32 − 1`, add, correct the carry -/
def mdsFold (l h : W) : W :=
  let s := (BitVec.setWidth 128 l) + ((BitVec.setWidth 128 h) <<< 32)
  let s_hi := BitVec.setWidth 64 (s >>> 64)
  let s_lo := BitVec.setWidth 64 s
  let z := (s_hi <<< 32) - s_hi
  let res := s_lo + z
  let over := BitVec.ult (s_lo + z) s_lo
  res + BitVec.setWidth 64 (0#32 - (BitVec.ofBool over).setWidth 32)

def mapT12 (f : W → W) (t : T12) : T12 :=
  (f t.1, f t.2.1, f t.2.2.1, f t.2.2.2.1, f t.2.2.2.2.1, f t.2.2.2.2.2.1, f t.2.2.2.2.2.2.1, f t.2.2.2.2.2.2.2.1,
   f t.2.2.2.2.2.2.2.2.1, f t.2.2.2.2.2.2.2.2.2.1, f t.2.2.2.2.2.2.2.2.2.2.1, f t.2.2.2.2.2.2.2.2.2.2.2)
def mapT8 (f : W → W) (t : T8) : T8 :=
  (f t.1, f t.2.1, f t.2.2.1, f t.2.2.2.1, f t.2.2.2.2.1, f t.2.2.2.2.2.1, f t.2.2.2.2.2.2.1, f t.2.2.2.2.2.2.2)

/-- the translated `mds_multiply` (unrolled loops) is: split, two frequency-domain products, fold -/
theorem mds12_lanes (t : T12) :
    ofT12 (RescueMds12.mds_multiply t) =
      List.zipWith mdsFold (ofT12 (RescueMds12.mds_multiply_freq (mapT12 lo t)))
        (ofT12 (RescueMds12.mds_multiply_freq (mapT12 hi t))) := by
  rfl

theorem mds8_lanes (t : T8) :
    ofT8 (RescueMds8.mds_multiply t) =
      List.zipWith mdsFold (ofT8 (RescueMds8.mds_multiply_freq (mapT8 lo t)))
        (ofT8 (RescueMds8.mds_multiply_freq (mapT8 hi t))) := by
  rfl

/-- quotient of the fold: high word + carry -/
def foldQ (l h : W) : BitVec 192 :=
  let s := (BitVec.setWidth 128 l) + ((BitVec.setWidth 128 h) <<< 32)
  let s_hi := BitVec.setWidth 64 (s >>> 64)
  let s_lo := BitVec.setWidth 64 s
  let z := (s_hi <<< 32) - s_hi
  s_hi.setWidth 192 + (BitVec.ofBool (BitVec.ult (s_lo + z) s_lo)).setWidth 192

/-- r + q·M = l + 2^32·h, with q·M written with shifts; 192-bit words so that nothing wraps -/
theorem mdsFold_bv (l h : W) :
    (mdsFold l h).setWidth 192 + (foldQ l h <<< 64) + foldQ l h
      = l.setWidth 192 + (h.setWidth 192 <<< 32) + (foldQ l h <<< 32) := by
  unfold mdsFold foldQ
  bv_decide (config := { timeout := 180 })

theorem foldQ_le (l h : W) : foldQ l h ≤ 0x10000000000000000#192 := by
  unfold foldQ
  bv_decide (config := { timeout := 180 })

open Wf.F64 in
/-- the fold is congruent to the 96-bit value `l + 2^32·h` modulo p, for every pair of words -/
theorem mdsFold_spec (l h : W) : (mdsFold l h).toNat % p = (l.toNat + 2 ^ 32 * h.toNat) % p := by
  have hid := congrArg BitVec.toNat (mdsFold_bv l h)
  have hq : (foldQ l h).toNat ≤ 2 ^ 64 := by
    have := foldQ_le l h
    rw [BitVec.le_def] at this
    exact this
  simp only [BitVec.toNat_add, BitVec.toNat_shiftLeft, BitVec.toNat_setWidth, Nat.shiftLeft_eq] at hid
  generalize (foldQ l h).toNat = q at *
  have h1 := (mdsFold l h).isLt
  have h2 := l.isLt
  have h3 := h.isLt
  generalize (mdsFold l h).toNat = r at *
  generalize l.toNat = a at *
  generalize h.toNat = b at *
  have e : r + q * 18446744069414584321 = a + 2 ^ 32 * b := by omega
  have e' : r + q * p = a + 2 ^ 32 * b := e
  rw [← e', Nat.add_mul_mod_self_right]

/-- the fold can return a NON-canonical word (≥ M) -/
theorem mdsFold_noncanonical : ¬ Wf.F64.Rep (mdsFold 0xffffffff#64 0xffffffff#64) := by
  unfold Wf.F64.Rep; decide

/-! ## no wrap-around in the limb products -/

def dotN (row ns : List Nat) : Nat := (List.zipWith (· * ·) row ns).foldl (· + ·) 0

theorem foldl_add_shift (xs : List Nat) (a : Nat) : xs.foldl (· + ·) a = a + xs.foldl (· + ·) 0 := by
  induction xs generalizing a with
  | nil => simp
  | cons x xs ih => simp only [List.foldl_cons]; rw [ih, ih (0 + x)]; omega

theorem dotN_cons (c : Nat) (row : List Nat) (n : Nat) (ns : List Nat) :
    dotN (c :: row) (n :: ns) = c * n + dotN row ns := by
  simp only [dotN, List.zipWith_cons_cons, List.foldl_cons]
  rw [foldl_add_shift]; omega

theorem dotW_aux (row : List Nat) : ∀ (xs : List W) (acc : W), (∀ x ∈ xs, x.toNat < 2 ^ 32) →
    acc.toNat + row.sum * 2 ^ 32 < 2 ^ 64 →
    ((List.zipWith (fun c x => BitVec.ofNat 64 c * x) row xs).foldl (· + ·) acc).toNat
      = acc.toNat + dotN row (xs.map BitVec.toNat) := by
  induction row with
  | nil => intro xs acc _ _; simp [dotN]
  | cons c row ih =>
    intro xs acc hx hb
    cases xs with
    | nil => simp [dotN]
    | cons x xs =>
      simp only [List.zipWith_cons_cons, List.foldl_cons, List.map_cons, dotN_cons]
      have hx0 : x.toNat < 2 ^ 32 := hx x (by simp)
      simp only [List.sum_cons] at hb
      have hcx : c * x.toNat ≤ c * 2 ^ 32 := Nat.mul_le_mul_left c (Nat.le_of_lt hx0)
      have hc : c < 2 ^ 64 := by
        have : c * 1 ≤ c * 2 ^ 32 := Nat.mul_le_mul_left c (by decide)
        rw [Nat.add_mul] at hb; omega
      have hmul : (BitVec.ofNat 64 c * x).toNat = c * x.toNat := by
        rw [BitVec.toNat_mul, BitVec.toNat_ofNat, Nat.mod_eq_of_lt hc, Nat.mod_eq_of_lt]
        rw [Nat.add_mul] at hb; omega
      have hadd : (acc + BitVec.ofNat 64 c * x).toNat = acc.toNat + c * x.toNat := by
        rw [BitVec.toNat_add, hmul, Nat.mod_eq_of_lt]
        rw [Nat.add_mul] at hb; omega
      rw [ih xs _ (fun y hy => hx y (by simp [hy])) (by rw [hadd]; rw [Nat.add_mul] at hb; omega), hadd]
      omega

theorem dotW_toNat (row : List Nat) (xs : List W) (hx : ∀ x ∈ xs, x.toNat < 2 ^ 32) (hr : row.sum < 2 ^ 32) :
    (dotW row xs).toNat = dotN row (xs.map BitVec.toNat) := by
  have := dotW_aux row xs 0 hx (by
    have : row.sum * 2 ^ 32 < 2 ^ 32 * 2 ^ 32 := Nat.mul_lt_mul_of_pos_right hr (by decide)
    have h0 : (0 : W).toNat = 0 := rfl
    rw [h0]; omega)
  have h0 : (0 : W).toNat = 0 := rfl
  rw [h0, Nat.zero_add] at this
  exact this

theorem lo_toNat (w : W) : (lo w).toNat = w.toNat % 2 ^ 32 := by
  simp only [lo, BitVec.toNat_setWidth]
  have := w.isLt
  omega

theorem hi_toNat (w : W) : (hi w).toNat = w.toNat / 2 ^ 32 := by
  simp only [hi, BitVec.toNat_ushiftRight, Nat.shiftRight_eq_div_pow]

theorem dotN_split (row : List Nat) : ∀ (ws : List W),
    dotN row ((ws.map lo).map BitVec.toNat) + 2 ^ 32 * dotN row ((ws.map hi).map BitVec.toNat)
      = dotN row (ws.map BitVec.toNat) := by
  induction row with
  | nil => intro ws; simp [dotN]
  | cons c row ih =>
    intro ws
    cases ws with
    | nil => simp [dotN]
    | cons w ws =>
      simp only [List.map_cons, dotN_cons, lo_toNat, hi_toNat]
      have := ih ws
      have hw : w.toNat % 2 ^ 32 + 2 ^ 32 * (w.toNat / 2 ^ 32) = w.toNat := Nat.mod_add_div _ _
      generalize dotN row ((ws.map lo).map BitVec.toNat) = A at *
      generalize dotN row ((ws.map hi).map BitVec.toNat) = B at *
      generalize dotN row (ws.map BitVec.toNat) = C at *
      rw [← this]
      have : c * w.toNat = c * (w.toNat % 2 ^ 32) + 2 ^ 32 * (c * (w.toNat / 2 ^ 32)) := by
        conv => lhs; rw [← hw]
        rw [Nat.mul_add, Nat.mul_left_comm]
      rw [this, Nat.mul_add]
      omega

/-- one lane of `mds_multiply`, as a natural number modulo p -/
theorem mds_lane_spec (row : List Nat) (ws : List W) (hr : row.sum < 2 ^ 32) :
    (mdsFold (dotW row (ws.map lo)) (dotW row (ws.map hi))).toNat % Wf.F64.p
      = dotN row (ws.map BitVec.toNat) % Wf.F64.p := by
  rw [mdsFold_spec, dotW_toNat _ _ _ hr, dotW_toNat _ _ _ hr, dotN_split]
  · intro x hx
    obtain ⟨w, _, rfl⟩ := List.mem_map.mp hx
    rw [hi_toNat]
    have := w.isLt
    omega
  · intro x hx
    obtain ⟨w, _, rfl⟩ := List.mem_map.mp hx
    rw [lo_toNat]
    exact Nat.mod_lt _ (by decide)

theorem zipWith_map_map {α β γ δ : Type} (f : β → γ → δ) (g : α → β) (h : α → γ) (l : List α) :
    List.zipWith f (l.map g) (l.map h) = l.map (fun x => f (g x) (h x)) := by
  induction l with
  | nil => rfl
  | cons x l ih => simp [ih]

theorem ofT12_toT12 (st : List W) (h : st.length = 12) : ofT12 (toT12 st) = st := by
  match st, h with
  | [_, _, _, _, _, _, _, _, _, _, _, _], _ => rfl

theorem ofT8_toT8 (st : List W) (h : st.length = 8) : ofT8 (toT8 st) = st := by
  match st, h with
  | [_, _, _, _, _, _, _, _], _ => rfl

theorem ofT12_mapT12 (f : W → W) (t : T12) : ofT12 (mapT12 f t) = (ofT12 t).map f := rfl
theorem ofT8_mapT8 (f : W → W) (t : T8) : ofT8 (mapT8 f t) = (ofT8 t).map f := rfl

/-- `Rp64_256::apply_mds` lane by lane -/
theorem mds12_eq (st : List W) (h : st.length = 12) :
    mds12 st = RescueConsts.Rp64.MDS.map (fun row => mdsFold (dotW row (st.map lo)) (dotW row (st.map hi))) := by
  unfold mds12
  rw [mds12_lanes, freq12_linear, freq12_linear, ofT12_mapT12, ofT12_mapT12, ofT12_toT12 st h, zipWith_map_map]

theorem mds8_eq (st : List W) (h : st.length = 8) :
    mds8 st = RescueConsts.Jive.MDS.map (fun row => mdsFold (dotW row (st.map lo)) (dotW row (st.map hi))) := by
  unfold mds8
  rw [mds8_lanes, freq8_linear, freq8_linear, ofT8_mapT8, ofT8_mapT8, ofT8_toT8 st h, zipWith_map_map]

/-! ## `add` of an arbitrary word and a small enough reduced constant -/

theorem add_any_bv (w k : W) (hk : k ≤ 0xfffffffe00000002#64) :
    F64.add w k < F64.M ∧ ((F64.add w k).setWidth 65 = w.setWidth 65 + k.setWidth 65 ∨
      (F64.add w k).setWidth 65 + F64.M.setWidth 65 = w.setWidth 65 + k.setWidth 65) := by
  unfold F64.add F64.M at *
  bv_decide (config := { timeout := 180 })

open Wf.F64 in
/-- for EVERY stored word `w` (reduced or not) and every constant `k ≤ M − 2^32 + 1` the sum is a
reduced word with the right value -/
theorem add_any_spec (w k : W) (hk : k ≤ 0xfffffffe00000002#64) :
    Rep (F64.add w k) ∧ (F64.add w k).toNat % p = (w.toNat + k.toNat) % p := by
  obtain ⟨h1, h2⟩ := add_any_bv w k hk
  refine ⟨h1, ?_⟩
  rcases h2 with h | h
  · have := congrArg BitVec.toNat h
    simp only [BitVec.toNat_add, BitVec.toNat_setWidth] at this
    have e : (F64.add w k).toNat = w.toNat + k.toNat := by
      have := (F64.add w k).isLt; have := w.isLt; have := k.isLt; omega
    rw [e]
  · have := congrArg BitVec.toNat h
    rw [BitVec.toNat_add, BitVec.toNat_add, M65_toNat] at this
    simp only [BitVec.toNat_setWidth] at this
    have e : (F64.add w k).toNat + p = w.toNat + k.toNat := by
      have := (F64.add w k).isLt; have := w.isLt; have := k.isLt
      have hp : p = 18446744069414584321 := rfl
      omega
    rw [← e, Nat.add_mod_right]

end Wf.Rescue
