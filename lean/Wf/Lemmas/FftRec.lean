/-
Layer 4 of the C12 proof: the recursion of `fft_in_place`.

Invariant (`fftInPlace_spec`): on a vector of `2^(K+1)` elements the call with
`(count, stride = 2^d, offset)`, `offset + count ≤ stride`, replaces each of the `count` interleaved
sub-sequences `m ↦ a[q + m·2^d]`, `offset ≤ q < offset + count` (length `2^(k+1)`, `k + d = K`), by
its DFT with respect to `W^(2^d)` in bit-reversed order, and leaves every other position unchanged.
Both branches of the `MAX_LOOP` switch are covered (the doubled-`count` call needs
`stride = count`, hence `offset = 0`; the two-call branch is the general case).
-/
import Wf.Lemmas.FftArray
import Wf.Lemmas.FftDft
set_option linter.unusedSectionVars false
namespace Wf.Fft
open Finset

theorem bitRev_zero (b : Nat) : bitRev b 0 = 0 := by
  induction b with
  | zero => rfl
  | succ b ih => simp [bitRev, ih]

theorem decomp_unique (s q q' m m' : Nat) (hq : q < s) (hq' : q' < s)
    (h : q + m * s = q' + m' * s) : q = q' ∧ m = m' := by
  have h1 : (q + m * s) % s = q := by rw [Nat.add_mul_mod_self_right, Nat.mod_eq_of_lt hq]
  have h2 : (q' + m' * s) % s = q' := by rw [Nat.add_mul_mod_self_right, Nat.mod_eq_of_lt hq']
  have e : q = q' := by rw [← h1, ← h2, h]
  subst e
  have hs : 0 < s := by omega
  have : m * s = m' * s := by omega
  exact ⟨rfl, Nat.eq_of_mul_eq_mul_right hs this⟩

theorem fftInPlace_succ {B E : Type} (c : Ctx B E) (tws : Array B) (fuel : Nat) (v : Array E)
    (count stride offset : Nat) :
    fftInPlace c tws (fuel + 1) v count stride offset =
      twiddleLoop c tws count stride ((v.size / stride + 1) / 2 - 1) 1 (offset + 2 * stride)
        (bflyLoop c stride count offset
          (if v.size / stride > 2 then
            (if (stride == count && decide (count < MAX_LOOP)) = true then
              fftInPlace c tws fuel v (2 * count) (2 * stride) offset
            else
              fftInPlace c tws fuel (fftInPlace c tws fuel v count (2 * stride) offset)
                count (2 * stride) (offset + stride))
          else v)) := rfl

section ring
variable {B E : Type} [CommRing B] [CommRing E] [DecidableEq B] [DecidableEq E]
variable (φ : B →+* E) (invB : B → B) (invE : E → E) (root : Nat → B) (ta : Nat)

/-- DFT (w.r.t. `W^(2^d)`, output index bit-reversed) of the sub-sequence `j ↦ a[q + j·2^d]` of
length `2^n` -/
def subDft (W : E) (a : Array E) (d n q m : Nat) : E :=
  ∑ j ∈ range (2 ^ n), a.getD (q + j * 2 ^ d) 0 * (W ^ 2 ^ d) ^ (j * bitRev n m)

/-- both loops of one level = `twLoopE` from block 0 with factor 1 for block 0 -/
theorem level_eq (tws : Array B) (count s off n : Nat) (a : Array E) (hn : 0 < n) :
    twiddleLoop (ringCtx φ invB invE root ta) tws count s (n - 1) 1 (off + 2 * s)
        (bflyLoop (ringCtx φ invB invE root ta) s count off a) =
      twLoopE (fun i => if i = 0 then 1 else φ (tws.getD i 0)) count s n 0 off a := by
  obtain ⟨n', rfl⟩ : ∃ n', n = n' + 1 := ⟨n - 1, by omega⟩
  rw [twiddleLoop_eq, bflyLoop_eq]
  simp only [twLoopE, Nat.add_sub_cancel]
  apply twLoopE_congr
  intro j hj
  rw [if_neg (by omega)]

theorem fftInPlace_spec (W : E) (K : Nat) (hW : W ^ 2 ^ K = -1) (tws : Array B)
    (htw : ∀ i, 0 < i → i < 2 ^ K → φ (tws.getD i 0) = W ^ bitRev K i) :
    ∀ (k d : Nat), k + d = K → ∀ (fuel count off : Nat) (a : Array E),
      k < fuel → a.size = 2 ^ (K + 1) → off + count ≤ 2 ^ d →
      (fftInPlace (ringCtx φ invB invE root ta) tws fuel a count (2 ^ d) off).size = 2 ^ (K + 1) ∧
      ∀ q m, q < 2 ^ d → m < 2 ^ (k + 1) →
        (fftInPlace (ringCtx φ invB invE root ta) tws fuel a count (2 ^ d) off).getD
            (q + m * 2 ^ d) 0 =
          if off ≤ q ∧ q < off + count then subDft W a d (k + 1) q m
          else a.getD (q + m * 2 ^ d) 0 := by
  intro k
  induction k with
  | zero =>
    intro d hd fuel count off a hf hsz hoc
    obtain ⟨fuel', rfl⟩ : ∃ f, fuel = f + 1 := ⟨fuel - 1, by omega⟩
    have hdK : d = K := by omega
    subst hdK
    have hs : 0 < 2 ^ d := Nat.two_pow_pos d
    have hdiv : a.size / 2 ^ d = 2 := by
      rw [hsz, pow_succ, Nat.mul_div_cancel_left _ hs]
    rw [fftInPlace_succ, hdiv, if_neg (by omega)]
    have hlev := level_eq φ invB invE root ta tws count (2 ^ d) off 1 a (by omega)
    rw [show (2 + 1) / 2 - 1 = 1 - 1 from rfl, hlev]
    obtain ⟨hsz', hpair, hother⟩ := twLoopE_spec (fun i => if i = 0 then 1 else φ (tws.getD i 0))
      count (2 ^ d) hs (by omega) 1 0 off a (by
        intro j hj
        have : j = 0 := by omega
        subst this
        rw [hsz, pow_succ]; omega)
    refine ⟨by rw [hsz', hsz], ?_⟩
    intro q m hq hm
    by_cases hc : off ≤ q ∧ q < off + count
    · rw [if_pos hc]
      have hp := hpair 0 (q - off) (by omega) (by omega)
      simp only [Nat.mul_zero, Nat.add_zero, if_true, mul_one] at hp
      have e0 : off + (q - off) = q := by omega
      rw [e0] at hp
      have hm2 : m = 0 ∨ m = 1 := by omega
      simp only [subDft]
      rw [show (2 : ℕ) ^ (0 + 1) = 2 * 1 from rfl]
      rcases hm2 with rfl | rfl
      · rw [Nat.zero_mul, Nat.add_zero, hp.1]
        simp [Finset.sum_range_succ, bitRev]
      · rw [Nat.one_mul, hp.2]
        simp [Finset.sum_range_succ, bitRev, hW]
        ring
    · rw [if_neg hc]
      apply hother
      intro j c hj hcc
      have : j = 0 := by omega
      subst this
      simp only [Nat.mul_zero, Nat.add_zero]
      have hm2 : m = 0 ∨ m = 1 := by omega
      rcases hm2 with rfl | rfl <;> constructor <;> omega
  | succ k ih =>
    intro d hd fuel count off a hf hsz hoc
    obtain ⟨fuel', rfl⟩ : ∃ f, fuel = f + 1 := ⟨fuel - 1, by omega⟩
    have hs : 0 < 2 ^ d := Nat.two_pow_pos d
    have hKd : K + 1 = (k + 1 + 1) + d := by omega
    have hdiv : a.size / 2 ^ d = 2 ^ (k + 1 + 1) := by
      rw [hsz, hKd, pow_add, Nat.mul_div_cancel _ hs]
    have hgt : 2 ^ (k + 1 + 1) > 2 := by
      have : 2 ^ k ≥ 1 := Nat.one_le_two_pow
      rw [pow_succ, pow_succ]; omega
    have h2s : 2 * 2 ^ d = 2 ^ (d + 1) := by rw [pow_succ]; ring
    have hkd : k + (d + 1) = K := by omega
    rw [fftInPlace_succ, hdiv, if_pos hgt, h2s]
    -- the state before the butterflies
    have hpre : ∃ a2 : Array E,
        (if (2 ^ d == count && decide (count < MAX_LOOP)) = true then
            fftInPlace (ringCtx φ invB invE root ta) tws fuel' a (2 * count) (2 ^ (d + 1)) off
          else
            fftInPlace (ringCtx φ invB invE root ta) tws fuel'
              (fftInPlace (ringCtx φ invB invE root ta) tws fuel' a count (2 ^ (d + 1)) off)
              count (2 ^ (d + 1)) (off + 2 ^ d)) = a2 ∧
        a2.size = 2 ^ (K + 1) ∧
        ∀ q' t, q' < 2 ^ (d + 1) → t < 2 ^ (k + 1) →
          a2.getD (q' + t * 2 ^ (d + 1)) 0 =
            if (off ≤ q' ∧ q' < off + count) ∨ (off + 2 ^ d ≤ q' ∧ q' < off + 2 ^ d + count) then
              subDft W a (d + 1) (k + 1) q' t
            else a.getD (q' + t * 2 ^ (d + 1)) 0 := by
      refine ⟨_, rfl, ?_⟩
      by_cases hb : (2 ^ d == count && decide (count < MAX_LOOP)) = true
      · rw [if_pos hb]
        have hcnt : 2 ^ d = count := by
          simp only [Bool.and_eq_true, beq_iff_eq] at hb
          exact hb.1
        have hoff : off = 0 := by omega
        subst hoff
        obtain ⟨h1, h2⟩ := ih (d + 1) hkd fuel' (2 * count) 0 a (by omega) hsz (by
          rw [← h2s, hcnt]; omega)
        refine ⟨h1, fun q' t hq' ht => ?_⟩
        rw [h2 q' t hq' ht, if_pos (by omega), if_pos]
        rw [pow_succ] at hq'
        omega
      · rw [if_neg hb]
        obtain ⟨h1, h2⟩ := ih (d + 1) hkd fuel' count off a (by omega) hsz (by
          rw [← h2s]; omega)
        obtain ⟨h3, h4⟩ := ih (d + 1) hkd fuel' count (off + 2 ^ d)
          (fftInPlace (ringCtx φ invB invE root ta) tws fuel' a count (2 ^ (d + 1)) off)
          (by omega) h1 (by rw [← h2s]; omega)
        refine ⟨h3, fun q' t hq' ht => ?_⟩
        rw [h4 q' t hq' ht]
        by_cases c2 : off + 2 ^ d ≤ q' ∧ q' < off + 2 ^ d + count
        · rw [if_pos c2, if_pos (Or.inr c2)]
          simp only [subDft]
          refine sum_congr rfl fun j hj => ?_
          rw [h2 q' j hq' (by simpa using hj), if_neg (by omega)]
        · rw [if_neg c2, h2 q' t hq' ht]
          by_cases c1 : off ≤ q' ∧ q' < off + count
          · rw [if_pos c1, if_pos (Or.inl c1)]
          · rw [if_neg c1, if_neg (by tauto)]
    obtain ⟨a2, ha2, hsz2, hP⟩ := hpre
    rw [ha2]
    have hn : (2 ^ (k + 1 + 1) + 1) / 2 - 1 = 2 ^ (k + 1) - 1 := by
      rw [pow_succ 2 (k + 1)]; omega
    rw [hn, show off + 2 ^ (d + 1) = off + 2 * 2 ^ d by rw [h2s],
      level_eq φ invB invE root ta tws count (2 ^ d) off (2 ^ (k + 1)) a2 (Nat.two_pow_pos _)]
    have hsize : 2 ^ (K + 1) = 2 * (2 ^ d * 2 ^ (k + 1)) := by
      rw [hKd, pow_add, pow_succ 2 (k + 1)]; ring
    obtain ⟨hsz', hpair, hother⟩ := twLoopE_spec (fun i => if i = 0 then 1 else φ (tws.getD i 0))
      count (2 ^ d) hs (by omega) (2 ^ (k + 1)) 0 off a2 (by
        intro j hj
        rw [hsz2, hsize]
        have : 2 ^ d * (j + 1) ≤ 2 ^ d * 2 ^ (k + 1) := Nat.mul_le_mul_left _ hj
        rw [Nat.mul_succ] at this
        omega)
    refine ⟨by rw [hsz', hsz2], ?_⟩
    intro q m hq hm
    -- m = 2 t + ε
    obtain ⟨t, ht, hmt⟩ : ∃ t, t < 2 ^ (k + 1) ∧ (m = 2 * t ∨ m = 2 * t + 1) :=
      ⟨m / 2, by rw [pow_succ 2 (k + 1)] at hm; omega, by omega⟩
    have hq2 : q < 2 ^ (d + 1) := by rw [← h2s]; omega
    have hqs2 : q + 2 ^ d < 2 ^ (d + 1) := by rw [← h2s]; omega
    have ee : q + 2 * t * 2 ^ d = q + t * 2 ^ (d + 1) := by rw [← h2s]; ring
    have eo : q + (2 * t + 1) * 2 ^ d = q + 2 ^ d + t * 2 ^ (d + 1) := by rw [← h2s]; ring
    by_cases hc : off ≤ q ∧ q < off + count
    · rw [if_pos hc]
      have hp := hpair t (q - off) ht (by omega)
      have e0 : off + 2 * (2 ^ d * t) + (q - off) = q + t * 2 ^ (d + 1) := by
        rw [← h2s]
        have : off + (q - off) = q := by omega
        calc off + 2 * (2 ^ d * t) + (q - off) = off + (q - off) + 2 * (2 ^ d * t) := by ring
          _ = q + t * (2 * 2 ^ d) := by rw [this]; ring
      have e1 : q + t * 2 ^ (d + 1) + 2 ^ d = q + 2 ^ d + t * 2 ^ (d + 1) := by ring
      rw [e0, e1, hP q t hq2 ht, if_pos (Or.inl hc), hP (q + 2 ^ d) t hqs2 ht,
        if_pos (Or.inr (by omega)), Nat.zero_add] at hp
      -- the twiddle factor of block t
      have hT : (if t = 0 then (1 : E) else φ (tws.getD t 0)) = (W ^ 2 ^ d) ^ bitRev (k + 1) t := by
        by_cases ht0 : t = 0
        · subst ht0
          rw [if_pos rfl, bitRev_zero, pow_zero]
        · rw [if_neg ht0, htw t (by omega) (by
            rw [← hd, show k + 1 + d = (k + 1) + d by ring, pow_add]
            exact lt_of_lt_of_le ht (Nat.le_mul_of_pos_right _ hs)),
            ← hd, bitRev_scale (k + 1) d t ht, ← pow_mul, Nat.mul_comm]
      rw [hT] at hp
      have hwn : (W ^ 2 ^ d) ^ 2 ^ (k + 1) = -1 := by
        rw [← pow_mul, ← pow_add, show d + (k + 1) = K by omega, hW]
      have hw2 : (W ^ 2 ^ d) ^ 2 = W ^ 2 ^ (d + 1) := by
        rw [← pow_mul, ← pow_succ]
      have hfe : ∀ j, a.getD (q + 2 * j * 2 ^ d) 0 = a.getD (q + j * 2 ^ (d + 1)) 0 := by
        intro j; rw [← h2s]; congr 1; ring
      have hfo : ∀ j, a.getD (q + (2 * j + 1) * 2 ^ d) 0 = a.getD (q + 2 ^ d + j * 2 ^ (d + 1)) 0 := by
        intro j; rw [← h2s]; congr 1; ring
      rcases hmt with rfl | rfl
      · rw [ee, hp.1]
        simp only [subDft]
        rw [pow_succ 2 (k + 1), Nat.mul_comm (2 ^ (k + 1)) 2, bitRev_even,
          dft_split_even (fun l => a.getD (q + l * 2 ^ d) 0) (W ^ 2 ^ d) (2 ^ (k + 1))
            (bitRev (k + 1) t), hw2]
        simp only [hfe, hfo]
      · rw [eo, hp.2]
        simp only [subDft]
        rw [pow_succ 2 (k + 1), Nat.mul_comm (2 ^ (k + 1)) 2, bitRev_odd,
          dft_split_odd (fun l => a.getD (q + l * 2 ^ d) 0) (W ^ 2 ^ d) (2 ^ (k + 1))
            (bitRev (k + 1) t) hwn, hw2]
        simp only [hfe, hfo]
    · rw [if_neg hc]
      have hun : (twLoopE (fun i => if i = 0 then 1 else φ (tws.getD i 0)) count (2 ^ d)
          (2 ^ (k + 1)) 0 off a2).getD (q + m * 2 ^ d) 0 = a2.getD (q + m * 2 ^ d) 0 := by
        apply hother
        intro j c hj hcc
        constructor
        · intro h
          have := decomp_unique (2 ^ d) q (off + c) m (2 * j) hq (by omega)
            (by rw [h]; ring)
          omega
        · intro h
          have := decomp_unique (2 ^ d) q (off + c) m (2 * j + 1) hq (by omega)
            (by rw [h]; ring)
          omega
      rw [hun]
      rcases hmt with rfl | rfl
      · rw [ee, hP q t hq2 ht, if_neg (by omega)]
      · rw [eo, hP (q + 2 ^ d) t hqs2 ht, if_neg (by omega)]

end ring
end Wf.Fft
