/-
C25, real-valued SPECIFICATION of the `ProvenSecurity` estimates.

`udR` / `ldR` are the formulas of `proven_security_protocol_unique_decoding` and
`proven_security_protocol_for_given_proximity_parameter` read over ℝ (`Real.logb 2`, `Real.sqrt`,
`Real.rpow`), and `provenSpec` puts them through the same integer skeleton (`provenGeneric`) as the
code, with `⌊·⌋₊` for the saturating `as u64`.

NOT TIED TO IEEE ROUNDING: nothing here speaks about the executable `Float` model
(`Wf.Security.provenUD/provenLD`) or the Rust f64 code; ±∞/NaN corner cases of the float code
(`log2 0`, division by zero for `m = h/2`) have no counterpart over ℝ.  The statements say that the
formulas the code evaluates are monotone in queries, grinding factor and extension degree.
-/
import Wf.Lemmas.Security
import Mathlib.Analysis.SpecialFunctions.Log.Base
import Mathlib.Analysis.SpecialFunctions.Pow.Real
import Mathlib.Analysis.SpecialFunctions.Sqrt
namespace Wf.Security
open Wf

noncomputable section

/-- `match method { Linear => 1.0, _ => n as f64 - 1.0 }` -/
def batchingFactorR (method n : ℕ) : ℝ := if method = 0 then 1 else (n : ℝ) - 1

/-- FRI query-phase term `grinding - log2(alpha ^ queries)` -/
def queryTermR (α : ℝ) (q g : ℕ) : ℝ := (g : ℝ) - Real.logb 2 (α ^ (q : ℝ))

/-- `alpha` of the unique-decoding regime: `(1 + (h + 2) / (h·blowup)) · 0.5` -/
def udAlphaR (b h : ℕ) : ℝ := (1 + ((h : ℝ) + 2) / ((h * b : ℕ) : ℝ)) * (1 / 2)

/-- `alpha` of the list-decoding regime: `(1 + 0.5 / m) · sqrt(1 / blowup)` -/
def ldAlphaR (b m : ℕ) : ℝ := (1 + (1 / 2) / (m : ℝ)) * Real.sqrt (1 / (b : ℝ))

/-- unique-decoding estimate over ℝ; blowup `b`, folding factor `f`, batching methods `bc`/`bd`,
`layers = num_fri_layers`, then the three parameters of interest: extension degree `e`, queries `q`,
grinding `g` -/
def udR (b f bc bd bits h nc ncp layers : ℕ) (e q g : ℕ) : ℝ :=
  let ext : ℝ := ((bits * e : ℕ) : ℝ)
  let lde : ℝ := ((h * b : ℕ) : ℝ)
  let maxDeg : ℝ := (b : ℝ) + 1
  let e1 : ℝ := -Real.logb 2 (batchingFactorR bc nc) + ext
  let e2 : ℝ := -Real.logb 2 (maxDeg * ((h : ℝ) + 2 - 1) + ((h : ℝ) - 1)) + ext
  let e3 : ℝ := ext - Real.logb 2 (lde * batchingFactorR bd ncp)
  let ei : ℝ := ext - Real.logb 2 (((f : ℝ) - 1) * (lde + 1))
  let ek : ℝ := queryTermR (udAlphaR b h) q g
  if layers = 0 then min e1 (min e2 (min e3 ek)) else min e1 (min e2 (min e3 (min ei ek)))

/-- list-decoding estimate over ℝ for proximity parameter `m` -/
def ldR (b bc bd bits h m nc ncp : ℕ) (e q g : ℕ) : ℝ :=
  let ext : ℝ := ((bits * e : ℕ) : ℝ)
  let rho : ℝ := 1 / (b : ℝ)
  let maxDeg : ℝ := (b : ℝ) + 1
  let lde : ℝ := ((h * b : ℕ) : ℝ)
  let l : ℝ := (m : ℝ) / (rho - 2 * (m : ℝ) / lde)
  let e1 : ℝ := -Real.logb 2 l - Real.logb 2 (batchingFactorR bc nc) + ext
  let e2 : ℝ := -Real.logb 2 (l * l * (maxDeg * ((h : ℝ) + 2 - 1) + ((h : ℝ) - 1))) + ext
  let e3 : ℝ := ext - Real.logb 2
    ((((m : ℝ) + 1 / 2) ^ (7 : ℝ) / (3 * rho ^ (3 / 2 : ℝ))) * lde ^ (2 : ℝ) * batchingFactorR bd ncp)
  let ek : ℝ := queryTermR (ldAlphaR b m) q g
  min e1 (min e2 (min e3 ek))

/-- the specification of `ProvenSecurity::compute`: the real-valued estimates through the code's own
integer skeleton (`⌊x⌋₊` = `x as u64` without the saturation at 2^64) -/
def provenSpec (o : ProofOptions) (bits h cr nc ncp layers : ℕ) (ms : List ℕ) : Option (ℕ × ℕ) :=
  provenGeneric ⌊udR o.blowup o.folding o.batchC o.batchD bits h nc ncp layers o.ext o.queries o.grinding⌋₊
    (fun m => ⌊ldR o.blowup o.batchC o.batchD bits h m nc ncp o.ext o.queries o.grinding⌋₊) ms cr

/-! ## the ε-terms are monotone -/

theorem queryTermR_mono {α : ℝ} (h0 : 0 < α) (h1 : α ≤ 1) {q q' g g' : ℕ} (hq : q ≤ q') (hg : g ≤ g') :
    queryTermR α q g ≤ queryTermR α q' g' := by
  unfold queryTermR
  have hqr : (q : ℝ) ≤ (q' : ℝ) := by exact_mod_cast hq
  have hgr : (g : ℝ) ≤ (g' : ℝ) := by exact_mod_cast hg
  have hpow : α ^ (q' : ℝ) ≤ α ^ (q : ℝ) := Real.rpow_le_rpow_of_exponent_ge h0 h1 hqr
  have hlog : Real.logb 2 (α ^ (q' : ℝ)) ≤ Real.logb 2 (α ^ (q : ℝ)) :=
    Real.logb_le_logb_of_le (by norm_num) (Real.rpow_pos_of_pos h0 _) hpow
  linarith

theorem udAlphaR_bounds {b h : ℕ} (hb : 2 ≤ b) (hh : 2 ≤ h) : 0 < udAlphaR b h ∧ udAlphaR b h ≤ 1 := by
  unfold udAlphaR
  have hpos : (0 : ℝ) < ((h * b : ℕ) : ℝ) := by
    have : 0 < h * b := Nat.mul_pos (by omega) (by omega)
    exact_mod_cast this
  have hle : (h : ℝ) + 2 ≤ ((h * b : ℕ) : ℝ) := by
    have : h + 2 ≤ h * b := by
      calc h + 2 ≤ h + h := by omega
        _ = h * 2 := by omega
        _ ≤ h * b := Nat.mul_le_mul_left _ hb
    exact_mod_cast this
  have hfrac1 : ((h : ℝ) + 2) / ((h * b : ℕ) : ℝ) ≤ 1 := (div_le_one hpos).2 hle
  have hfrac0 : 0 ≤ ((h : ℝ) + 2) / ((h * b : ℕ) : ℝ) := by positivity
  constructor <;> nlinarith

theorem ldAlphaR_bounds {b m : ℕ} (hb : 2 ≤ b) (hm : 3 ≤ m) : 0 < ldAlphaR b m ∧ ldAlphaR b m ≤ 1 := by
  unfold ldAlphaR
  have hbr : (2 : ℝ) ≤ (b : ℝ) := by exact_mod_cast hb
  have hmr : (3 : ℝ) ≤ (m : ℝ) := by exact_mod_cast hm
  have hinv : 1 / (b : ℝ) ≤ 1 / 2 := by
    apply div_le_div_of_nonneg_left <;> linarith
  have hsq0 : 0 < Real.sqrt (1 / (b : ℝ)) := Real.sqrt_pos.2 (by positivity)
  have hsq1 : Real.sqrt (1 / (b : ℝ)) ≤ 6 / 7 := by
    rw [Real.sqrt_le_iff]
    constructor
    · norm_num
    · calc 1 / (b : ℝ) ≤ 1 / 2 := hinv
        _ ≤ (6 / 7) ^ 2 := by norm_num
  have hf0 : 0 < 1 + (1 / 2) / (m : ℝ) := by positivity
  have hf1 : 1 + (1 / 2) / (m : ℝ) ≤ 7 / 6 := by
    have : (1 / 2) / (m : ℝ) ≤ (1 / 2) / 3 := by
      apply div_le_div_of_nonneg_left <;> linarith
    linarith
  constructor
  · exact mul_pos hf0 hsq0
  · calc (1 + (1 / 2) / (m : ℝ)) * Real.sqrt (1 / (b : ℝ)) ≤ (7 / 6) * (6 / 7) :=
          mul_le_mul hf1 hsq1 hsq0.le (by norm_num)
      _ = 1 := by norm_num

/-- the unique-decoding formula is monotone in extension degree, queries and grinding factor -/
theorem udR_mono (b f bc bd bits h nc ncp layers : ℕ) (hb : 2 ≤ b) (hh : 2 ≤ h)
    {e e' q q' g g' : ℕ} (he : e ≤ e') (hq : q ≤ q') (hg : g ≤ g') :
    udR b f bc bd bits h nc ncp layers e q g ≤ udR b f bc bd bits h nc ncp layers e' q' g' := by
  obtain ⟨h0, h1⟩ := udAlphaR_bounds hb hh
  have hk := queryTermR_mono h0 h1 hq hg
  have hext : ((bits * e : ℕ) : ℝ) ≤ ((bits * e' : ℕ) : ℝ) := by
    exact_mod_cast Nat.mul_le_mul_left bits he
  unfold udR
  simp only []
  split
  · refine min_le_min (by linarith) (min_le_min (by linarith) (min_le_min (by linarith) hk))
  · refine min_le_min (by linarith) (min_le_min (by linarith) (min_le_min (by linarith)
      (min_le_min (by linarith) hk)))

/-- the list-decoding formula (fixed proximity parameter) is monotone in extension degree, queries
and grinding factor -/
theorem ldR_mono (b bc bd bits h m nc ncp : ℕ) (hb : 2 ≤ b) (hm : 3 ≤ m)
    {e e' q q' g g' : ℕ} (he : e ≤ e') (hq : q ≤ q') (hg : g ≤ g') :
    ldR b bc bd bits h m nc ncp e q g ≤ ldR b bc bd bits h m nc ncp e' q' g' := by
  obtain ⟨h0, h1⟩ := ldAlphaR_bounds hb hm
  have hk := queryTermR_mono h0 h1 hq hg
  have hext : ((bits * e : ℕ) : ℝ) ≤ ((bits * e' : ℕ) : ℝ) := by
    exact_mod_cast Nat.mul_le_mul_left bits he
  unfold ldR
  simp only []
  refine min_le_min (by linarith) (min_le_min (by linarith) (min_le_min (by linarith) hk))

/-- the specification levels `(unique decoding, list decoding)` are monotone: more queries, more
grinding and a larger extension degree (everything else fixed) never lower either level -/
theorem provenSpec_mono {o o' : ProofOptions} (bits h cr nc ncp layers : ℕ) (ms : List ℕ)
    (hb : 2 ≤ o.blowup) (hh : 2 ≤ h) (hms : ∀ m ∈ ms, 3 ≤ m)
    (hsame : o.blowup = o'.blowup ∧ o.folding = o'.folding ∧ o.batchC = o'.batchC ∧ o.batchD = o'.batchD)
    (he : o.ext ≤ o'.ext) (hq : o.queries ≤ o'.queries) (hg : o.grinding ≤ o'.grinding)
    {u l u' l' : ℕ} (h1 : provenSpec o bits h cr nc ncp layers ms = some (u, l))
    (h2 : provenSpec o' bits h cr nc ncp layers ms = some (u', l')) : u ≤ u' ∧ l ≤ l' := by
  obtain ⟨e1, e2, e3, e4⟩ := hsame
  unfold provenSpec at h1 h2
  rw [← e1, ← e2, ← e3, ← e4] at h2
  refine provenGeneric_mono ?_ ?_ h1 h2
  · exact Nat.floor_mono (udR_mono _ _ _ _ _ _ _ _ _ hb hh he hq hg)
  · intro m hm
    exact Nat.floor_mono (ldR_mono _ _ _ _ _ _ _ _ hb (hms m hm) he hq hg)

end

end Wf.Security
