/-
Layer 7 of the C12 proof: `interpolate_poly`, `interpolate_poly_with_offset`,
`evaluate_poly_with_offset`, `infer_degree` as closed formulas / inverses.
-/
import Wf.Lemmas.FftInv
set_option linter.unusedSectionVars false
namespace Wf.Fft
open Finset

theorem toArray_getD {α} (l : List α) (i : Nat) (d : α) : l.toArray.getD i d = l.getD i d := by simp

theorem toList_getD {α} (a : Array α) (i : Nat) (d : α) : a.toList.getD i d = a.getD i d := by simp

theorem array_eq_of_getD {α} (d : α) (a b : Array α) (hs : a.size = b.size)
    (h : ∀ i, i < a.size → a.getD i d = b.getD i d) : a = b := by
  apply Array.ext hs
  intro i h1 h2
  have := h i h1
  simpa [Array.getD_eq_getD_getElem?, Array.getElem?_eq_getElem h1, Array.getElem?_eq_getElem h2]
    using this

section ring
variable {B E : Type} [CommRing B] [CommRing E] [DecidableEq B] [DecidableEq E]
variable (φ : B →+* E) (invB : B → B) (invE : E → E) (root : Nat → B) (ta : Nat)

/-! ### list helpers -/

theorem scaleList_length (offset : B) : ∀ (l : List E) (f : B),
    (scaleList (ringCtx φ invB invE root ta) offset l f).length = l.length := by
  intro l
  induction l with
  | nil => intro _; rfl
  | cons x xs ih => intro f; simp [scaleList, ih]

theorem scaleList_getD (offset : B) : ∀ (l : List E) (f : B) (j : Nat), j < l.length →
    (scaleList (ringCtx φ invB invE root ta) offset l f).getD j 0 =
      l.getD j 0 * φ (f * offset ^ j) := by
  intro l
  induction l with
  | nil => intro _ j hj; simp at hj
  | cons x xs ih =>
    intro f j hj
    cases j with
    | zero => simp [scaleList, ringCtx]
    | succ j =>
      simp only [scaleList, List.getD_cons_succ]
      rw [ih _ j (by simpa using hj)]
      simp only [ringCtx, ringOps]
      congr 2
      ring

theorem shiftSeriesList_length (inc : E) : ∀ (l : List E) (off : E),
    (shiftSeriesList (ringCtx φ invB invE root ta) inc l off).length = l.length := by
  intro l
  induction l with
  | nil => intro _; rfl
  | cons x xs ih => intro f; simp [shiftSeriesList, ih]

theorem shiftSeriesList_getD (inc : E) : ∀ (l : List E) (off : E) (j : Nat), j < l.length →
    (shiftSeriesList (ringCtx φ invB invE root ta) inc l off).getD j 0 =
      l.getD j 0 * (off * inc ^ j) := by
  intro l
  induction l with
  | nil => intro _ j hj; simp at hj
  | cons x xs ih =>
    intro f j hj
    cases j with
    | zero => simp [shiftSeriesList, ringCtx, ringOps]
    | succ j =>
      simp only [shiftSeriesList, List.getD_cons_succ]
      rw [ih _ j (by simpa using hj)]
      simp only [ringCtx, ringOps]
      ring

theorem shiftBy_getD (a : Array E) (off : B) (i : Nat) (h : i < a.size) :
    (shiftBy (ringCtx φ invB invE root ta) a off).getD i 0 = a.getD i 0 * φ off := by
  unfold shiftBy
  rw [Array.getD_eq_getD_getElem?, Array.getD_eq_getD_getElem?, Array.getElem?_map,
    Array.getElem?_eq_getElem h]
  rfl

/-! ### interpolation -/

/-- `interpolate_poly` as a formula: `r[l] = (Σ_x e_x V^(xl)) · φ(inv N)` -/
theorem interpolatePoly_formula (V : E) (K : Nat) (hV : V ^ 2 ^ K = -1) (itws : Array B)
    (hitws : itws.size = 2 ^ K)
    (hitw : ∀ i, 0 < i → i < 2 ^ K → φ (itws.getD i 0) = V ^ bitRev K i)
    (e : Array E) (he : e.size = 2 ^ (K + 1)) (hta : K + 1 ≤ ta) (h31 : K + 1 ≤ 31) :
    ∃ r, interpolatePoly (ringCtx φ invB invE root ta) e itws = some r ∧ r.size = 2 ^ (K + 1) ∧
      ∀ l, l < 2 ^ (K + 1) →
        r.getD l 0 = (∑ x ∈ range (2 ^ (K + 1)), e.getD x 0 * V ^ (x * l)) *
          φ (invB ((2 ^ (K + 1) : ℕ) : B)) := by
  obtain ⟨hs, hg⟩ := fft_top φ invB invE root ta V K hV itws hitw e he e.size (by
    rw [he]; exact lt_trans (Nat.lt_succ_self K) Nat.lt_two_pow_self)
  have hs2 : (shiftBy (ringCtx φ invB invE root ta)
      (fftInPlace (ringCtx φ invB invE root ta) itws e.size e 1 1 0)
      ((ringCtx φ invB invE root ta).b.inv ((ringCtx φ invB invE root ta).b.ofNat e.size))).size =
        2 ^ (K + 1) := by
    simp [shiftBy, hs]
  obtain ⟨hps, hpg⟩ := permute_spec (0 : E) (K + 1) _ hs2
  refine ⟨_, ?_, hps, fun l hl => ?_⟩
  · unfold interpolatePoly
    rw [he, isPow2_two_pow, hitws, Nat.log2_two_pow]
    have e1 : (2 ^ (K + 1) != 2 ^ K * 2) = false := by simp [pow_succ]
    have e2 : ¬ (K + 1 > (ringCtx φ invB invE root ta).twoAdicity) := by
      show ¬ (K + 1 > ta); omega
    have e3 : ¬ (2 ^ (K + 1) > 2 ^ 32 - 1) := by
      have : 2 ^ (K + 1) ≤ 2 ^ 31 := Nat.pow_le_pow_right (by decide) h31
      have h3 : (2 : ℕ) ^ 31 = 2147483648 := by decide
      have h4 : (2 : ℕ) ^ 32 = 4294967296 := by decide
      omega
    simp only [Bool.not_true, Bool.false_eq_true, if_false, e1, e2, e3]
  · rw [hpg l hl]
    have hb := bitRev_lt (K + 1) l
    have hlt : bitRev (K + 1) l <
        (fftInPlace (ringCtx φ invB invE root ta) itws e.size e 1 1 0).size := by rw [hs]; exact hb
    have hinv : (ringCtx φ invB invE root ta).b.inv ((ringCtx φ invB invE root ta).b.ofNat e.size) =
        invB ((2 ^ (K + 1) : ℕ) : B) := by rw [he]; rfl
    have := shiftBy_getD φ invB invE root ta _
      ((ringCtx φ invB invE root ta).b.inv ((ringCtx φ invB invE root ta).b.ofNat e.size)) _ hlt
    rw [hinv] at this ⊢
    rw [this, hg _ hb, bitRev_bitRev _ _ hl]

/-- `interpolate_poly_with_offset` as a formula:
`r[l] = (Σ_x e_x V^(xl)) · (φ(inv N) · φ(inv s)^l)` -/
theorem interpolatePolyWithOffset_formula (V : E) (K : Nat) (hV : V ^ 2 ^ K = -1) (itws : Array B)
    (hitws : itws.size = 2 ^ K)
    (hitw : ∀ i, 0 < i → i < 2 ^ K → φ (itws.getD i 0) = V ^ bitRev K i)
    (e : Array E) (he : e.size = 2 ^ (K + 1)) (hta : K + 1 ≤ ta) (h31 : K + 1 ≤ 31)
    (s : B) (hs0 : s ≠ 0) :
    ∃ r, interpolatePolyWithOffset (ringCtx φ invB invE root ta) e itws s = some r ∧
      r.size = 2 ^ (K + 1) ∧
      ∀ l, l < 2 ^ (K + 1) →
        r.getD l 0 = (∑ x ∈ range (2 ^ (K + 1)), e.getD x 0 * V ^ (x * l)) *
          (φ (invB ((2 ^ (K + 1) : ℕ) : B)) * φ (invB s) ^ l) := by
  obtain ⟨hs, hg⟩ := fft_top φ invB invE root ta V K hV itws hitw e he e.size (by
    rw [he]; exact lt_trans (Nat.lt_succ_self K) Nat.lt_two_pow_self)
  obtain ⟨hps, hpg⟩ := permute_spec (0 : E) (K + 1) _ hs
  refine ⟨shiftBySeries (ringCtx φ invB invE root ta)
    (permute (fftInPlace (ringCtx φ invB invE root ta) itws e.size e 1 1 0))
    ((ringCtx φ invB invE root ta).b.inv ((ringCtx φ invB invE root ta).b.ofNat e.size))
    ((ringCtx φ invB invE root ta).b.inv s), ?_, ?_, fun l hl => ?_⟩
  · unfold interpolatePolyWithOffset
    rw [he, isPow2_two_pow, hitws, Nat.log2_two_pow]
    have e1 : (2 ^ (K + 1) != 2 ^ K * 2) = false := by simp [pow_succ]
    have e2 : ¬ (K + 1 > (ringCtx φ invB invE root ta).twoAdicity) := by
      show ¬ (K + 1 > ta); omega
    have e3 : ¬ (2 ^ (K + 1) > 2 ^ 32 - 1) := by
      have : 2 ^ (K + 1) ≤ 2 ^ 31 := Nat.pow_le_pow_right (by decide) h31
      have h3 : (2 : ℕ) ^ 31 = 2147483648 := by decide
      have h4 : (2 : ℕ) ^ 32 = 4294967296 := by decide
      omega
    have e4 : (ringCtx φ invB invE root ta).b.beq s (ringCtx φ invB invE root ta).b.zero = false := by
      simp [ringCtx, ringOps, hs0]
    simp only [Bool.not_true, Bool.false_eq_true, if_false, e1, e2, e3, e4]
  · simp [shiftBySeries, shiftSeriesList_length, hps]
  · have hll : l < (permute (fftInPlace (ringCtx φ invB invE root ta) itws e.size e 1 1 0)).toList.length := by
      simp [hps, hl]
    have := shiftSeriesList_getD φ invB invE root ta
      ((ringCtx φ invB invE root ta).embed ((ringCtx φ invB invE root ta).b.inv s))
      (permute (fftInPlace (ringCtx φ invB invE root ta) itws e.size e 1 1 0)).toList
      ((ringCtx φ invB invE root ta).embed
        ((ringCtx φ invB invE root ta).b.inv ((ringCtx φ invB invE root ta).b.ofNat e.size)))
      l hll
    have hb := bitRev_lt (K + 1) l
    unfold shiftBySeries
    rw [toArray_getD, this, toList_getD, hpg l hl, hg _ hb, bitRev_bitRev _ _ hl, he]
    rfl

/-- interpolation recovers the coefficients of every polynomial of degree `< N` from its values on
the coset `s·⟨W⟩` -/
theorem interpolatePolyWithOffset_inverts (W V : E) (hWV : W * V = 1) (K : Nat)
    (hW : W ^ 2 ^ K = -1) (itws : Array B) (hitws : itws.size = 2 ^ K)
    (hitw : ∀ i, 0 < i → i < 2 ^ K → φ (itws.getD i 0) = V ^ bitRev K i)
    (hta : K + 1 ≤ ta) (h31 : K + 1 ≤ 31) (s : B) (hs0 : s ≠ 0)
    (hsinv : φ s * φ (invB s) = 1)
    (hN : ((2 ^ (K + 1) : ℕ) : E) * φ (invB ((2 ^ (K + 1) : ℕ) : B)) = 1)
    (c : ℕ → E) (e : Array E) (he : e.size = 2 ^ (K + 1))
    (hev : ∀ x, x < 2 ^ (K + 1) →
      e.getD x 0 = ∑ j ∈ range (2 ^ (K + 1)), c j * (φ s * W ^ x) ^ j) :
    ∃ r, interpolatePolyWithOffset (ringCtx φ invB invE root ta) e itws s = some r ∧
      r.size = 2 ^ (K + 1) ∧ ∀ l, l < 2 ^ (K + 1) → r.getD l 0 = c l := by
  have hV := root_inv_half W V hWV K hW
  obtain ⟨r, h1, h2, h3⟩ := interpolatePolyWithOffset_formula φ invB invE root ta V K hV itws hitws
    hitw e he hta h31 s hs0
  refine ⟨r, h1, h2, fun l hl => ?_⟩
  rw [h3 l hl]
  have hsum : ∑ x ∈ range (2 ^ (K + 1)), e.getD x 0 * V ^ (x * l) =
      ((2 ^ (K + 1) : ℕ) : E) * (c l * φ s ^ l) := by
    rw [← dft_inv W V hWV K hW (fun j => c j * φ s ^ j) l hl]
    refine sum_congr rfl fun x hx => ?_
    rw [hev x (by simpa using hx)]
    congr 1
    refine sum_congr rfl fun j _ => ?_
    rw [mul_pow, ← pow_mul, Nat.mul_comm x j]
    ring
  rw [hsum]
  calc ((2 ^ (K + 1) : ℕ) : E) * (c l * φ s ^ l) * (φ (invB ((2 ^ (K + 1) : ℕ) : B)) * φ (invB s) ^ l)
      = c l * (((2 ^ (K + 1) : ℕ) : E) * φ (invB ((2 ^ (K + 1) : ℕ) : B))) *
          (φ s * φ (invB s)) ^ l := by rw [mul_pow]; ring
    _ = c l := by rw [hN, hsinv, one_pow, mul_one, mul_one]

theorem interpolatePoly_inverts (W V : E) (hWV : W * V = 1) (K : Nat)
    (hW : W ^ 2 ^ K = -1) (itws : Array B) (hitws : itws.size = 2 ^ K)
    (hitw : ∀ i, 0 < i → i < 2 ^ K → φ (itws.getD i 0) = V ^ bitRev K i)
    (hta : K + 1 ≤ ta) (h31 : K + 1 ≤ 31)
    (hN : ((2 ^ (K + 1) : ℕ) : E) * φ (invB ((2 ^ (K + 1) : ℕ) : B)) = 1)
    (c : ℕ → E) (e : Array E) (he : e.size = 2 ^ (K + 1))
    (hev : ∀ x, x < 2 ^ (K + 1) →
      e.getD x 0 = ∑ j ∈ range (2 ^ (K + 1)), c j * W ^ (j * x)) :
    ∃ r, interpolatePoly (ringCtx φ invB invE root ta) e itws = some r ∧
      r.size = 2 ^ (K + 1) ∧ ∀ l, l < 2 ^ (K + 1) → r.getD l 0 = c l := by
  have hV := root_inv_half W V hWV K hW
  obtain ⟨r, h1, h2, h3⟩ := interpolatePoly_formula φ invB invE root ta V K hV itws hitws
    hitw e he hta h31
  refine ⟨r, h1, h2, fun l hl => ?_⟩
  rw [h3 l hl]
  have hsum : ∑ x ∈ range (2 ^ (K + 1)), e.getD x 0 * V ^ (x * l) =
      ((2 ^ (K + 1) : ℕ) : E) * c l := by
    rw [← dft_inv W V hWV K hW c l hl]
    refine sum_congr rfl fun x hx => ?_
    rw [hev x (by simpa using hx)]
  rw [hsum, mul_comm _ (c l), mul_assoc, hN, mul_one]

/-! ### evaluation over a coset of a larger domain -/

theorem evalChunks_spec (p : Array E) (tws : Array B) (g s : B) (blowup N : Nat)
    (hch : ∀ i, (evalChunk (ringCtx φ invB invE root ta) p tws g s blowup i).size = N) :
    ∀ (n i : Nat) (acc : Array E),
      (evalChunks (ringCtx φ invB invE root ta) p tws g s blowup n i acc).size = acc.size + n * N ∧
      (∀ x, x < acc.size →
        (evalChunks (ringCtx φ invB invE root ta) p tws g s blowup n i acc).getD x 0 = acc.getD x 0) ∧
      (∀ c m, c < n → m < N →
        (evalChunks (ringCtx φ invB invE root ta) p tws g s blowup n i acc).getD
            (acc.size + c * N + m) 0 =
          (evalChunk (ringCtx φ invB invE root ta) p tws g s blowup (i + c)).getD m 0) := by
  intro n
  induction n with
  | zero =>
    intro i acc
    exact ⟨by simp [evalChunks], fun x _ => rfl, fun c m hc => absurd hc (Nat.not_lt_zero _)⟩
  | succ n ih =>
    intro i acc
    simp only [evalChunks]
    obtain ⟨h1, h2, h3⟩ := ih (i + 1)
      (acc ++ evalChunk (ringCtx φ invB invE root ta) p tws g s blowup i)
    have hsz : (acc ++ evalChunk (ringCtx φ invB invE root ta) p tws g s blowup i).size =
        acc.size + N := by simp [hch]
    refine ⟨by rw [h1, hsz]; ring, fun x hx => ?_, fun c m hc hm => ?_⟩
    · rw [h2 x (by omega)]
      simp [Array.getElem?_append_left hx]
    · cases c with
      | zero =>
        rw [Nat.zero_mul, Nat.add_zero, Nat.add_zero, h2 _ (by omega)]
        simp [Array.getElem?_append_right]
      | succ c =>
        have := h3 c m (by omega) hm
        rw [hsz] at this
        rw [show acc.size + (c + 1) * N + m = acc.size + N + c * N + m by ring, this,
          show i + 1 + c = i + (c + 1) by omega]

/-- `evaluate_poly_with_offset`: `N = 2^(K+1)` coefficients, blowup `2^b`, `g` the root of the
big domain (`G = φ g`, `G^(2^(K+b)) = −1`), twiddles of the small domain (`G^(2^b)` powers):
the result has `N·2^b` elements and element `x` is `Σ_j p_j (φ s · G^x)^j` (natural order) -/
theorem evaluatePolyWithOffset_spec (K b : Nat) (G : E) (hg : φ (root (K + 1 + b)) = G)
    (hG : G ^ 2 ^ (K + b) = -1) (tws : Array B) (htws : tws.size = 2 ^ K)
    (htw : ∀ i, 0 < i → i < 2 ^ K → φ (tws.getD i 0) = (G ^ 2 ^ b) ^ bitRev K i)
    (p : Array E) (hp : p.size = 2 ^ (K + 1)) (hta : K + 1 + b ≤ ta) (s : B) (hs0 : s ≠ 0) :
    ∃ r, evaluatePolyWithOffset (ringCtx φ invB invE root ta) p tws s (2 ^ b) = some r ∧
      r.size = 2 ^ (K + 1 + b) ∧
      ∀ x, x < 2 ^ (K + 1 + b) →
        r.getD x 0 = ∑ j ∈ range (2 ^ (K + 1)), p.getD j 0 * (φ s * G ^ x) ^ j := by
  have hWn : (G ^ 2 ^ b) ^ 2 ^ K = -1 := by
    rw [← pow_mul, ← pow_add, Nat.add_comm b K, hG]
  have hmul : p.size * 2 ^ b = 2 ^ (K + 1 + b) := by rw [hp, ← pow_add]
  -- every chunk
  have hchunk : ∀ i, (evalChunk (ringCtx φ invB invE root ta) p tws (root (K + 1 + b)) s (2 ^ b) i).size
        = 2 ^ (K + 1) ∧
      ∀ m, m < 2 ^ (K + 1) →
        (evalChunk (ringCtx φ invB invE root ta) p tws (root (K + 1 + b)) s (2 ^ b) i).getD m 0 =
          ∑ j ∈ range (2 ^ (K + 1)),
            p.getD j 0 * (φ s * G ^ (bitRev (K + 1) m * 2 ^ b + bitRev b i)) ^ j := by
    intro i
    unfold evalChunk
    have hsz : (scaleList (ringCtx φ invB invE root ta)
        ((ringCtx φ invB invE root ta).b.mul
          ((ringCtx φ invB invE root ta).exp (root (K + 1 + b)) (permuteIndex (2 ^ b) i)) s)
        p.toList (ringCtx φ invB invE root ta).b.one).toArray.size = 2 ^ (K + 1) := by
      simp [scaleList_length, hp]
    obtain ⟨h1, h2⟩ := fft_top φ invB invE root ta (G ^ 2 ^ b) K hWn tws htw _ hsz p.size (by
      rw [hp]; exact lt_trans (Nat.lt_succ_self K) Nat.lt_two_pow_self)
    refine ⟨h1, fun m hm => ?_⟩
    rw [h2 m hm]
    refine sum_congr rfl fun j hj => ?_
    have hj' : j < p.toList.length := by simpa [hp] using hj
    have := scaleList_getD φ invB invE root ta
      ((ringCtx φ invB invE root ta).b.mul
        ((ringCtx φ invB invE root ta).exp (root (K + 1 + b)) (permuteIndex (2 ^ b) i)) s)
      p.toList (ringCtx φ invB invE root ta).b.one j hj'
    rw [toArray_getD, this, permuteIndex_pow, toList_getD]
    simp only [ringCtx, ringOps, map_mul, map_pow, hg, one_mul]
    ring
  obtain ⟨hc1, _, hc3⟩ := evalChunks_spec φ invB invE root ta p tws (root (K + 1 + b)) s (2 ^ b)
    (2 ^ (K + 1)) (fun i => (hchunk i).1) (2 ^ b) 0 (Array.mkEmpty (p.size * 2 ^ b))
  have hcsz : (evalChunks (ringCtx φ invB invE root ta) p tws (root (K + 1 + b)) s (2 ^ b) (2 ^ b) 0
      (Array.mkEmpty (p.size * 2 ^ b))).size = 2 ^ (K + 1 + b) := by
    have h0 : (Array.mkEmpty (p.size * 2 ^ b) : Array E).size = 0 := by simp
    rw [hc1, h0, Nat.zero_add, ← pow_add, Nat.add_comm]
  obtain ⟨hps, hpg⟩ := permute_spec (0 : E) (K + 1 + b) _ hcsz
  refine ⟨_, ?_, hps, fun x hx => ?_⟩
  · unfold evaluatePolyWithOffset
    rw [hmul, hp, isPow2_two_pow, isPow2_two_pow, htws, Nat.log2_two_pow]
    have e1 : (2 ^ (K + 1) != 2 ^ K * 2) = false := by simp [pow_succ]
    have e2 : ¬ (K + 1 + b > (ringCtx φ invB invE root ta).twoAdicity) := by
      show ¬ (K + 1 + b > ta); omega
    have e4 : (ringCtx φ invB invE root ta).b.beq s (ringCtx φ invB invE root ta).b.zero = false := by
      simp [ringCtx, ringOps, hs0]
    simp only [Bool.not_true, Bool.false_eq_true, if_false, e1, e2, e4]
    rfl
  · rw [hpg x hx]
    -- y = bitRev x = i·N + m
    have hy := bitRev_lt (K + 1 + b) x
    have hNpos : 0 < 2 ^ (K + 1) := Nat.two_pow_pos _
    have hdecomp : bitRev (K + 1 + b) x =
        (bitRev (K + 1 + b) x / 2 ^ (K + 1)) * 2 ^ (K + 1) + bitRev (K + 1 + b) x % 2 ^ (K + 1) :=
      (Nat.div_add_mod' _ _).symm
    have hi : bitRev (K + 1 + b) x / 2 ^ (K + 1) < 2 ^ b := by
      rw [Nat.div_lt_iff_lt_mul hNpos, ← pow_add, Nat.add_comm b]; exact hy
    have hm : bitRev (K + 1 + b) x % 2 ^ (K + 1) < 2 ^ (K + 1) := Nat.mod_lt _ hNpos
    have hx' : x = bitRev (K + 1) (bitRev (K + 1 + b) x % 2 ^ (K + 1)) * 2 ^ b +
        bitRev b (bitRev (K + 1 + b) x / 2 ^ (K + 1)) := by
      rw [← bitRev_concat (K + 1) b _ _ hm, ← hdecomp, bitRev_bitRev _ _ hx]
    have h3 := hc3 (bitRev (K + 1 + b) x / 2 ^ (K + 1)) (bitRev (K + 1 + b) x % 2 ^ (K + 1)) hi hm
    have hsz0 : (Array.mkEmpty (p.size * 2 ^ b) : Array E).size = 0 := by simp
    rw [hsz0, Nat.zero_add, Nat.zero_add, ← hdecomp] at h3
    rw [h3, (hchunk _).2 _ hm, ← hx']

/-! ### degree inference -/

/-- `infer_degree` on the values `e_x = Σ_j c_j (φ s · W^x)^j` (`x < N`) of ANY coefficient vector
`c` of length `N = 2^(K+1)`: the result is `degree_of` of exactly that vector -/
theorem inferDegree_spec (K : Nat) (W : E) (hWr : φ (root (K + 1)) = W) (hW : W ^ 2 ^ K = -1)
    (hta : K + 1 ≤ ta) (h31 : K + 1 ≤ 31) (s : B) (hs0 : s ≠ 0)
    (hsinv : φ s * φ (invB s) = 1)
    (hN : ((2 ^ (K + 1) : ℕ) : E) * φ (invB ((2 ^ (K + 1) : ℕ) : B)) = 1)
    (c : ℕ → E) (e : Array E) (he : e.size = 2 ^ (K + 1))
    (hev : ∀ x, x < 2 ^ (K + 1) →
      e.getD x 0 = ∑ j ∈ range (2 ^ (K + 1)), c j * (φ s * W ^ x) ^ j) :
    inferDegree (ringCtx φ invB invE root ta) e s =
      some (degreeOf (ringOps E invE) ((List.range (2 ^ (K + 1))).map c)) := by
  obtain ⟨itws, hget, hisz, hitw⟩ := getInvTwiddles_spec φ invB invE root ta K hta (by omega)
  have hWN : W ^ 2 ^ (K + 1) = 1 := by
    rw [pow_succ, pow_mul, hW]; ring
  have hpos : 1 ≤ 2 ^ (K + 1) := Nat.one_le_two_pow
  have hWV : W * W ^ (2 ^ (K + 1) - 1) = 1 := by
    rw [← pow_succ', Nat.sub_add_cancel hpos, hWN]
  have hitw' : ∀ i, 0 < i → i < 2 ^ K →
      φ (itws.getD i 0) = (W ^ (2 ^ (K + 1) - 1)) ^ bitRev K i := by
    intro i _ hi
    rw [hitw i hi, map_pow, map_pow, hWr]
  obtain ⟨r, hint, hrsz, hr⟩ := interpolatePolyWithOffset_inverts φ invB invE root ta W
    (W ^ (2 ^ (K + 1) - 1)) hWV K hW itws hisz hitw' hta h31 s hs0 hsinv hN c e he hev
  have hlist : r.toList = (List.range (2 ^ (K + 1))).map c := by
    apply List.ext_getElem
    · simp [hrsz]
    · intro i h1 h2
      have hi : i < 2 ^ (K + 1) := by simpa [hrsz] using h1
      have := hr i hi
      rw [Array.getD_eq_getD_getElem?, Array.getElem?_eq_getElem (by rw [hrsz]; exact hi)] at this
      simpa using this
  unfold inferDegree
  rw [he, isPow2_two_pow, Nat.log2_two_pow]
  have e2 : ¬ (K + 1 > (ringCtx φ invB invE root ta).twoAdicity) := by
    show ¬ (K + 1 > ta); omega
  have e4 : (ringCtx φ invB invE root ta).b.beq s (ringCtx φ invB invE root ta).b.zero = false := by
    simp [ringCtx, ringOps, hs0]
  simp only [Bool.not_true, Bool.false_eq_true, if_false, e2, e4, hget, hint, hlist]
  rfl

end ring
end Wf.Fft
