/-
C28, layer 3 (structural, no ring laws): the segment / transposition index theorem.
Entry `(r, j)` of the flat row-major data built by `evaluate_polys_over` is entry `r` of the C12
model's `evaluate_poly_with_offset` applied to base-field column `j`, for every number of columns
and every segment width `N ≥ 1` (partial last segment included).
-/
import Wf.Lemmas.LdeSeg
import Wf.Lemmas.FftTop
set_option linter.unusedSectionVars false
namespace Wf.Lde
open Wf Wf.Fft

variable {B E : Type}

/-! ### sizes of the FFT loops for arbitrary operations -/

section sizes
variable {E' : Type} (c : Ctx B E')

theorem butterfly_size (a : Array E') (i s : Nat) : (butterfly c a i s).size = a.size := by
  simp [butterfly]

theorem butterflyTwiddle_size (a : Array E') (tw : B) (i s : Nat) :
    (butterflyTwiddle c a tw i s).size = a.size := by simp [butterflyTwiddle]

theorem bflyLoop_size (s : Nat) : ∀ (n p : Nat) (a : Array E'), (bflyLoop c s n p a).size = a.size := by
  intro n
  induction n with
  | zero => intro p a; rfl
  | succ n ih => intro p a; simp only [bflyLoop]; rw [ih, butterfly_size]

theorem bflyTwLoop_size (s : Nat) (tw : B) : ∀ (n p : Nat) (a : Array E'),
    (bflyTwLoop c s tw n p a).size = a.size := by
  intro n
  induction n with
  | zero => intro p a; rfl
  | succ n ih => intro p a; simp only [bflyTwLoop]; rw [ih, butterflyTwiddle_size]

theorem twiddleLoop_size (tws : Array B) (count s : Nat) : ∀ (n i base : Nat) (a : Array E'),
    (twiddleLoop c tws count s n i base a).size = a.size := by
  intro n
  induction n with
  | zero => intro i base a; rfl
  | succ n ih => intro i base a; simp only [twiddleLoop]; rw [ih, bflyTwLoop_size]

theorem fftInPlace_size (tws : Array B) : ∀ (fuel : Nat) (v : Array E') (count stride offset : Nat),
    (fftInPlace c tws fuel v count stride offset).size = v.size := by
  intro fuel
  induction fuel with
  | zero => intro v count stride offset; rfl
  | succ fuel ih =>
    intro v count stride offset
    simp only [fftInPlace]
    rw [twiddleLoop_size, bflyLoop_size]
    split
    · split
      · rw [ih]
      · rw [ih, ih]
    · rfl

end sizes

theorem segChunk_size (c : Ctx B E) (x : ExtView B E) (N : Nat) (polys : ColMatrix E)
    (po numPolys : Nat) (offsets tws : Array B) (i : Nat) :
    (segChunk c x N polys po numPolys offsets tws i).size = numRows polys := by
  simp [segChunk, fftInPlace_size, copyPolys]

theorem segChunks_size (c : Ctx B E) (x : ExtView B E) (N : Nat) (polys : ColMatrix E)
    (po numPolys : Nat) (offsets tws : Array B) : ∀ (n i : Nat) (acc : Array (Vector B N)),
    (segChunks c x N polys po numPolys offsets tws n i acc).size = acc.size + n * numRows polys := by
  intro n
  induction n with
  | zero => intro i acc; simp [segChunks]
  | succ n ih =>
    intro i acc
    simp only [segChunks]
    rw [ih, Array.size_append, segChunk_size]
    ring

/-! ### one segment -/

/-- the value of `Segment::new` when its asserts hold -/
def segValue (c : Ctx B E) (x : ExtView B E) (N : Nat) (polys : ColMatrix E) (po : Nat)
    (offsets tws : Array B) : Array (Vector B N) :=
  permute (segChunks c x N polys po
    (if numBaseCols x polys - po < N then numBaseCols x polys - po else N)
    offsets tws (offsets.size / numRows polys) 0 (Array.mkEmpty offsets.size))

/-- `Segment::new` on a `2^(K+1)`-row matrix, blowup `2^(b+1)`, offsets from
`get_evaluation_offsets`, `2^K` twiddles, `poly_offset` inside the matrix: the asserts hold, the
segment has one row per LDE point, and column `k` (if it is filled) is `evaluate_poly_with_offset`
of base column `poly_offset + k` -/
theorem segmentNew_columns (c : Ctx B E) (x : ExtView B E) (N : Nat) (polys : ColMatrix E)
    (K b : Nat) (hn : numRows polys = 2 ^ (K + 1)) (s : B) (hs : c.b.beq s c.b.zero = false)
    (hta : K + 1 + (b + 1) ≤ c.twoAdicity)
    (offsets tws : Array B) (htws : tws.size = 2 ^ K)
    (hoff : getEvaluationOffsets c (numRows polys) (2 ^ (b + 1)) s = some offsets)
    (po : Nat) (hpo : po < numBaseCols x polys) :
    segmentNew c x N polys po offsets tws = some (segValue c x N polys po offsets tws) ∧
    (segValue c x N polys po offsets tws).size = 2 ^ (K + 1 + (b + 1)) ∧
    ∀ k (_ : k < N), po + k < numBaseCols x polys →
      evaluatePolyWithOffset (baseCtx c) (baseCol c x polys (po + k)) tws s (2 ^ (b + 1)) =
        some ((segValue c x N polys po offsets tws).map (fun v : Vector B N => v[k])) := by
  have hosz : offsets.size = 2 ^ (K + 1 + (b + 1)) := by
    rw [offsets_size c _ _ s offsets hoff, hn, ← pow_add]; congr 1; omega
  have hdiv : offsets.size / numRows polys = 2 ^ (b + 1) := by
    rw [offsets_size c _ _ s offsets hoff, hn]
    exact Nat.mul_div_cancel _ (Nat.two_pow_pos _)
  have hlt : 2 ^ (K + 1) < 2 ^ (K + 1 + (b + 1)) := Nat.pow_lt_pow_right (by decide) (by omega)
  refine ⟨?_, ?_, ?_⟩
  · unfold segmentNew segValue
    rw [hosz, hn, htws]
    simp only [isPow2_two_pow, Bool.not_true, Bool.false_eq_true, if_false, gt_iff_lt, hlt,
      decide_true, hpo]
    rw [if_neg]
    simp only [bne_iff_ne, ne_eq, not_not]
    rw [pow_succ]
  · unfold segValue
    rw [permute_size, segChunks_size, hdiv, hn, ← pow_add]
    simp only [Array.mkEmpty_eq, List.size_toArray, List.length_nil, Nat.zero_add]
    congr 1; omega
  · intro k hkN hk
    have hmul : 2 ^ (K + 1) * 2 ^ (b + 1) = 2 ^ (K + 1 + (b + 1)) := by rw [← pow_add]
    unfold evaluatePolyWithOffset
    rw [baseCol_size, hn, htws, hmul]
    simp only [isPow2_two_pow, Bool.not_true, Bool.false_eq_true, if_false, Nat.log2_two_pow]
    rw [if_neg (by simp only [bne_iff_ne, ne_eq, not_not]; rw [pow_succ]), if_neg (by
      show ¬ K + 1 + (b + 1) > (baseCtx c).twoAdicity
      simp only [baseCtx]; omega)]
    rw [if_neg (by simp only [baseCtx, hs]; decide)]
    congr 1
    unfold segValue
    rw [permute_map, hdiv]
    congr 1
    have := segChunks_proj c x N polys po
      (if numBaseCols x polys - po < N then numBaseCols x polys - po else N) (2 ^ (b + 1)) s offsets
      tws hoff k hkN (by split <;> omega) (2 ^ (b + 1)) 0 (Array.mkEmpty offsets.size) (by omega)
    rw [this, hn, hmul, Nat.log2_two_pow]
    simp [baseCtx]

/-! ### `Option` lists -/

theorem mapM_eq_some_map {α β} (f : α → Option β) (g : α → β) :
    ∀ (l : List α), (∀ a ∈ l, f a = some (g a)) → l.mapM f = some (l.map g) := by
  intro l
  induction l with
  | nil => intro _; rfl
  | cons a l ih =>
    intro h
    rw [List.mapM_cons, h a (by simp), ih (fun a ha => h a (by simp [ha]))]
    rfl

/-! ### transposition and flattening -/

theorem flatMap_getD_const {α β} (g : α → List β) (w : Nat) (hg : ∀ a, (g a).length = w) (d : β)
    (da : α) : ∀ (l : List α) (q i : Nat), q < l.length → i < w →
      (l.flatMap g).getD (q * w + i) d = (g (l.getD q da)).getD i d := by
  intro l
  induction l with
  | nil => intro q i hq; simp at hq
  | cons a l ih =>
    intro q i hq hi
    rw [List.flatMap_cons]
    cases q with
    | zero =>
      rw [Nat.zero_mul, Nat.zero_add, List.getD_eq_getElem?_getD,
        List.getElem?_append_left (by rw [hg]; exact hi), ← List.getD_eq_getElem?_getD]
      simp
    | succ q =>
      have hq' : q < l.length := by simpa using hq
      rw [List.getD_eq_getElem?_getD, List.getElem?_append_right (by rw [hg]; nlinarith), hg,
        show (q + 1) * w + i - w = q * w + i by
          have : (q + 1) * w = q * w + w := by ring
          omega,
        ← List.getD_eq_getElem?_getD, ih q i hq' hi]
      simp

theorem flatMap_length_const {α β} (g : α → List β) (w : Nat) (hg : ∀ a, (g a).length = w) :
    ∀ (l : List α), (l.flatMap g).length = l.length * w := by
  intro l
  induction l with
  | nil => simp
  | cons a l ih => rw [List.flatMap_cons, List.length_append, ih, hg, List.length_cons]; ring

/-- `flatten_vector_elements`: base element `i` of array `q` -/
theorem flatten_getD {N : Nat} (t : Array (Vector B N)) (zero : B) (q i : Nat) (hq : q < t.size)
    (hi : i < N) :
    (flatten t).getD (q * N + i) zero = (t.getD q (Vector.replicate N zero))[i] := by
  unfold flatten
  rw [list_toArray_getD, flatMap_getD_const _ N (fun v => by simp) zero (Vector.replicate N zero)
    t.toList q i (by simpa using hq) hi]
  simp [List.getD_eq_getElem?_getD, hi]

theorem flatten_size {N : Nat} (t : Array (Vector B N)) : (flatten t).size = t.size * N := by
  unfold flatten
  rw [List.size_toArray, flatMap_length_const _ N (fun v => by simp)]
  simp

/-- `transpose`: `result[r · num_segs + j] = segments[j][r]` (also in the single-segment shortcut) -/
theorem transpose_spec {N : Nat} (zero : B) (segs : List (Array (Vector B N))) (R : Nat)
    (hne : segs ≠ []) (hsz : ∀ sg ∈ segs, sg.size = R) :
    ∃ t, transpose zero segs = some t ∧ t.size = R * segs.length ∧
      ∀ r j, r < R → j < segs.length →
        t.getD (r * segs.length + j) (Vector.replicate N zero) =
          (segs.getD j #[]).getD r (Vector.replicate N zero) := by
  match segs, hne with
  | [s], _ =>
    refine ⟨s, rfl, by simp [hsz s (by simp)], fun r j _ hj => ?_⟩
    have : j = 0 := by simpa using hj
    subst this
    simp
  | s :: s2 :: rest, _ =>
    have hs : s.size = R := hsz s (by simp)
    refine ⟨_, rfl, ?_, fun r j hr hj => ?_⟩
    · rw [List.size_toArray, flatMap_range_length _ (s :: s2 :: rest).length (fun i => by simp), hs]
    · rw [list_toArray_getD, flatMap_range_getD _ (s :: s2 :: rest).length (fun i => by simp) _
        s.size r j (by omega) hj]
      rw [List.getD_eq_getElem?_getD, List.getElem?_map, List.getD_eq_getElem?_getD]
      rw [List.getElem?_eq_getElem hj]
      simp

/-! ### number of segments -/

theorem numSegments_mul_ge (N numBase : Nat) (hN : 0 < N) : numBase ≤ numSegments N numBase * N := by
  unfold numSegments
  have h1 := Nat.div_add_mod numBase N
  have h2 := Nat.mod_lt numBase hN
  split
  · next h => rw [h] at h1; rw [Nat.mul_comm]; omega
  · rw [Nat.add_mul, Nat.mul_comm (numBase / N) N]; omega

theorem seg_offset_lt (N numBase sg : Nat) (hN : 0 < N) (h : sg < numSegments N numBase) :
    sg * N < numBase := by
  unfold numSegments at h
  have h1 := Nat.div_add_mod numBase N
  have h2 := Nat.mod_lt numBase hN
  split at h
  · next h0 =>
    rw [h0] at h1
    have : sg * N < numBase / N * N := Nat.mul_lt_mul_of_pos_right h hN
    rw [Nat.mul_comm (numBase / N) N] at this
    omega
  · next h0 =>
    have : sg * N ≤ numBase / N * N := Nat.mul_le_mul_right N (by omega)
    rw [Nat.mul_comm (numBase / N) N] at this
    omega

theorem div_lt_numSegments (N numBase j : Nat) (_hN : 0 < N) (h : j < numBase) :
    j / N < numSegments N numBase := by
  unfold numSegments
  have h1 := Nat.div_add_mod numBase N
  split
  · next h0 =>
    rw [h0] at h1
    apply Nat.div_lt_of_lt_mul
    omega
  · exact Nat.lt_succ_of_le (Nat.div_le_div_right (Nat.le_of_lt h))

theorem numSegments_pos (N numBase : Nat) (hN : 0 < N) (h : 0 < numBase) :
    0 < numSegments N numBase :=
  Nat.lt_of_le_of_lt (Nat.zero_le _) (div_lt_numSegments N numBase 0 hN h)

/-! ### the matrix -/

/-- the index theorem for the flat data of `evaluate_polys_over::<N>` -/
theorem evaluatePolysOver_index (c : Ctx B E) (x : ExtView B E) (N : Nat) (hN : 0 < N)
    (hdeg : 0 < x.degree) (polys : ColMatrix E) (hne : polys ≠ [])
    (K b : Nat) (hall : ∀ p ∈ polys, p.size = 2 ^ (K + 1))
    (s : B) (hs : c.b.beq s c.b.zero = false) (hta : K + 1 + (b + 1) ≤ c.twoAdicity)
    (tws : Array B) (htws : tws.size = 2 ^ K) :
    ∃ m, evaluatePolysOver c x N polys ⟨tws, 2 ^ (b + 1), s⟩ = some m ∧
      m.rowWidth = numSegments N (numBaseCols x polys) * N ∧
      m.elementsPerRow = numBaseCols x polys ∧
      m.data.size = 2 ^ (K + 1 + (b + 1)) * m.rowWidth ∧
      ∀ j, j < numBaseCols x polys →
        ∃ col, evaluatePolyWithOffset (baseCtx c) (baseCol c x polys j) tws s (2 ^ (b + 1)) = some col ∧
          col.size = 2 ^ (K + 1 + (b + 1)) ∧
          ∀ r, r < 2 ^ (K + 1 + (b + 1)) →
            m.data.getD (r * m.rowWidth + j) c.b.zero = col.getD r c.b.zero := by
  obtain ⟨p0, rest, rfl⟩ := List.exists_cons_of_ne_nil hne
  have hn : numRows (p0 :: rest) = 2 ^ (K + 1) := by simp [numRows, hall p0 (by simp)]
  have hvalid : colMatrixValid (p0 :: rest) = true := by
    unfold colMatrixValid
    rw [hn]
    simp only [List.isEmpty_cons, Bool.not_false, Bool.true_and, isPow2_two_pow, Bool.and_true,
      Bool.and_eq_true, decide_eq_true_eq, List.all_eq_true, beq_iff_eq]
    refine ⟨?_, fun p hp => hall p hp⟩
    calc 1 < 2 ^ 1 := by decide
      _ ≤ 2 ^ (K + 1) := Nat.pow_le_pow_right (by decide) (by omega)
  have hnb : 0 < numBaseCols x (p0 :: rest) := by
    simp only [numBaseCols, List.length_cons]; exact Nat.mul_pos (by omega) hdeg
  -- offsets
  have hmul : 2 ^ (K + 1) * 2 ^ (b + 1) = 2 ^ (K + 1 + (b + 1)) := by rw [← pow_add]
  obtain ⟨offsets, hoff⟩ : ∃ o, getEvaluationOffsets c (numRows (p0 :: rest)) (2 ^ (b + 1)) s = some o := by
    unfold getEvaluationOffsets
    rw [hn, hmul, Nat.log2_two_pow]
    rw [if_neg (Nat.ne_of_gt (Nat.two_pow_pos _)), if_neg (by omega), if_neg (by omega)]
    exact ⟨_, rfl⟩
  -- segments
  have hseg := fun sg (h : sg < numSegments N (numBaseCols x (p0 :: rest))) =>
    segmentNew_columns c x N (p0 :: rest) K b hn s hs hta offsets tws htws hoff (sg * N)
      (seg_offset_lt N _ sg hN h)
  have hbuild : buildSegments c x N (p0 :: rest) tws offsets =
      some ((List.range (numSegments N (numBaseCols x (p0 :: rest)))).map
        (fun i => segValue c x N (p0 :: rest) (i * N) offsets tws)) := by
    unfold buildSegments
    rw [if_neg (by omega)]
    exact mapM_eq_some_map _ _ _ (fun i hi => (hseg i (by simpa using hi)).1)
  let segs := (List.range (numSegments N (numBaseCols x (p0 :: rest)))).map
      (fun i => segValue c x N (p0 :: rest) (i * N) offsets tws)
  have hlen : segs.length = numSegments N (numBaseCols x (p0 :: rest)) := by simp [segs]
  have hsegne : segs ≠ [] := by
    intro h
    have := numSegments_pos N _ hN hnb
    rw [← hlen, h] at this
    simp at this
  obtain ⟨t, ht, htsz, htget⟩ := transpose_spec c.b.zero segs (2 ^ (K + 1 + (b + 1))) hsegne (by
    intro sg hsg
    simp only [segs, List.mem_map, List.mem_range] at hsg
    obtain ⟨i, hi, rfl⟩ := hsg
    exact (hseg i hi).2.1)
  refine ⟨⟨flatten t, segs.length * N, numBaseCols x (p0 :: rest)⟩, ?_, by rw [hlen], rfl, ?_, ?_⟩
  · unfold evaluatePolysOver
    rw [if_neg (by omega), hvalid]
    simp only [Bool.not_true, Bool.false_eq_true, if_false, hoff, hbuild]
    unfold fromSegments
    rw [if_neg (by omega)]
    have : segs.isEmpty = false := by
      cases hsg : segs with
      | nil => exact absurd hsg hsegne
      | cons _ _ => rfl
    show (if segs.isEmpty = true then none else _) = _
    rw [this]
    simp only [Bool.false_eq_true, if_false]
    rw [if_neg (by
      simp only [Bool.not_eq_true', decide_eq_false_iff_not, not_not]
      rw [hlen]; exact numSegments_mul_ge N _ hN)]
    show (transpose c.b.zero segs).map _ = _
    rw [ht]
    rfl
  · show (flatten t).size = _
    rw [flatten_size, htsz]; ring
  · intro j hj
    have hsgl : j / N < numSegments N (numBaseCols x (p0 :: rest)) := div_lt_numSegments N _ j hN hj
    have hjm := Nat.div_add_mod j N
    have hmod := Nat.mod_lt j hN
    have hcol := (hseg (j / N) hsgl).2.2 (j % N) hmod (by rw [Nat.mul_comm]; omega)
    rw [show j / N * N + j % N = j by rw [Nat.mul_comm]; omega] at hcol
    refine ⟨_, hcol, by rw [Array.size_map]; exact (hseg (j / N) hsgl).2.1, fun r hr => ?_⟩
    show (flatten t).getD (r * (segs.length * N) + j) c.b.zero = _
    have hidx : r * (segs.length * N) + j = (r * segs.length + j / N) * N + j % N := by
      rw [Nat.add_mul, Nat.mul_assoc, Nat.add_assoc]
      congr 1
      rw [Nat.mul_comm]; omega
    rw [hidx, flatten_getD t c.b.zero _ _ (by
      rw [htsz]
      calc r * segs.length + j / N < r * segs.length + segs.length := by rw [hlen]; omega
        _ = (r + 1) * segs.length := by ring
        _ ≤ 2 ^ (K + 1 + (b + 1)) * segs.length := Nat.mul_le_mul_right _ (by omega)) hmod]
    rw [htget r (j / N) hr (by rw [hlen]; exact hsgl)]
    have hsgget : segs.getD (j / N) #[] = segValue c x N (p0 :: rest) (j / N * N) offsets tws := by
      simp only [segs]
      rw [List.getD_eq_getElem?_getD, List.getElem?_map, List.getElem?_range hsgl]
      rfl
    rw [hsgget]
    have := getD_map (fun v : Vector B N => v[j % N])
      (segValue c x N (p0 :: rest) (j / N * N) offsets tws) r (Vector.replicate N c.b.zero)
    simp only [Vector.getElem_replicate] at this
    rw [this]

end Wf.Lde
