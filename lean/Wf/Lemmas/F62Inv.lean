/-
f62 `inv` (binary extended Euclid; every `while` of the source is translated with a bound of 256
iterations, `Wf.whileFuel`; loop conditions / bodies are the generated `Wf.Gen.F62.inv_while<k>_*`):
loop-invariant proof that the result is the multiplicative inverse.

Invariant on the integer values of (u, d, v, a), X the normalized stored word, all modulo p:
  u, v odd, gcd(u, v) = 1, a·X = v, d·X = −u, and for a ghost counter k of subtract-and-halve steps
  u·v·2^k ≤ 2p², a, d ≤ (k+2)·p   (so k ≤ 124: nothing overflows 128 bits, and the final
  `while a > M { a -= M }` needs at most 126 iterations).
Variants: log₂(u·v) for the two Euclid loops (each step at least halves u·v), log₂ u for the halving
loops, a / p for the final reduction — all below the translation bound of 256, so the bounded loops
ARE the source loops on every input considered.
Uses Mathlib (ZMod p as a field, Nat.Coprime, Nat.log) and the primality certificate of `Primes`.
-/
import Wf.Lemmas.F62
import Wf.Lemmas.Primes
namespace Wf.F62
open Wf.Gen.F62

/-! ### the `while` rule -/

/-- an invariant `I` and a variant `μ` that is bounded by the fuel -/
theorem whileFuel_spec {σ : Type} (I : σ → Prop) (μ : σ → Nat) (c : σ → Bool) (f : σ → σ)
    (step : ∀ s, I s → c s = true → I (f s) ∧ μ (f s) < μ s) :
    ∀ (fuel : Nat) (s : σ), I s → μ s ≤ fuel →
      I (whileFuel fuel c f s) ∧ c (whileFuel fuel c f s) = false := by
  intro fuel
  induction fuel with
  | zero =>
    intro s hI hμ
    unfold whileFuel
    refine ⟨hI, ?_⟩
    cases hc : c s with
    | false => rfl
    | true => have := (step s hI hc).2; omega
  | succ n ih =>
    intro s hI hμ
    unfold whileFuel
    cases hc : c s with
    | false => simp only [Bool.false_eq_true, if_false]; exact ⟨hI, hc⟩
    | true =>
      simp only [if_true]
      obtain ⟨h1, h2⟩ := step s hI hc
      exact ih (f s) h1 (by omega)

theorem whileFuel_succ_true {σ : Type} (n : Nat) (c : σ → Bool) (f : σ → σ) (s : σ) (h : c s = true) :
    whileFuel (n + 1) c f s = whileFuel n c f (f s) := by
  rw [whileFuel]; simp [h]

/-! ### 128-bit word facts -/

theorem p_prime : Nat.Prime p := P62_prime
instance : Fact (Nat.Prime p) := ⟨p_prime⟩

theorem M128_toNat : (BitVec.setWidth 128 M).toNat = p := by decide

theorem even_iff (u : BitVec 128) : ((u &&& 1#128) == 0#128) = true ↔ u.toNat % 2 = 0 := by
  rw [beq_iff_eq, ← BitVec.toNat_inj, BitVec.toNat_and]
  simp [Nat.and_one_is_mod]

theorem odd_iff (u : BitVec 128) : ((u &&& 1#128) == 1#128) = true ↔ u.toNat % 2 = 1 := by
  rw [beq_iff_eq, ← BitVec.toNat_inj, BitVec.toNat_and]
  simp [Nat.and_one_is_mod]

theorem shr1_toNat (u : BitVec 128) : (u >>> 1).toNat = u.toNat / 2 := by
  rw [BitVec.toNat_ushiftRight, Nat.shiftRight_eq_div_pow, pow_one]

theorem add_toNat (a b : BitVec 128) (h : a.toNat + b.toNat < 2 ^ 128) :
    (a + b).toNat = a.toNat + b.toNat := by
  rw [BitVec.toNat_add, Nat.mod_eq_of_lt h]

theorem sub_toNat (a b : BitVec 128) (h : b.toNat ≤ a.toNat) : (a - b).toNat = a.toNat - b.toNat :=
  BitVec.toNat_sub_of_le (BitVec.le_def.mpr h)

theorem ult_iff (a b : BitVec 128) : BitVec.ult a b = true ↔ a.toNat < b.toNat := by
  simp [BitVec.ult]

/-! ### the halving loops (#1 on (d, u), #3 on (a, v): the same code) -/

theorem while3_eq : inv_while3_cond = inv_while1_cond ∧ inv_while3_body = inv_while1_body := ⟨rfl, rfl⟩

theorem halve_cond (d u : BitVec 128) : inv_while1_cond (d, u) = true ↔ u.toNat % 2 = 0 := by
  show ((u &&& 1#128) == 0#128) = true ↔ _
  exact even_iff u

theorem halve_body (d u : BitVec 128) (hd : d.toNat + p < 2 ^ 128) :
    (inv_while1_body (d, u)).1.toNat = (if d.toNat % 2 = 1 then d.toNat + p else d.toNat) / 2 ∧
    (inv_while1_body (d, u)).2.toNat = u.toNat / 2 := by
  show ((if ((d &&& 1#128) == 1#128) = true then d + BitVec.setWidth 128 M else d) >>> 1).toNat = _ ∧
    (u >>> 1).toNat = _
  refine ⟨?_, shr1_toNat u⟩
  rw [shr1_toNat]
  by_cases h : d.toNat % 2 = 1
  · rw [if_pos ((odd_iff d).mpr h), if_pos h, add_toNat _ _ (by rw [M128_toNat]; exact hd), M128_toNat]
  · rw [if_neg (fun hh => h ((odd_iff d).mp hh)), if_neg h]

abbrev K := ZMod p

theorem two_ne_zero_K : (2 : K) ≠ 0 := by
  intro h
  have h2 : ((2 : ℕ) : K) = 0 := by exact_mod_cast h
  rw [ZMod.natCast_eq_zero_iff] at h2
  have := Nat.le_of_dvd (by decide) h2
  simp only [p] at this
  omega

theorem p_cast : ((p : ℕ) : K) = 0 := ZMod.natCast_self p


/-- halving keeps the linear relation: from d·X = c·u with u even to d'·X = c·(u/2),
    d' = d/2 or (d+p)/2 -/
theorem halve_rel (X c : K) (D U : Nat) (hUe : U % 2 = 0) (hr : (D : K) * X = c * (U : K)) :
    (((if D % 2 = 1 then D + p else D) / 2 : ℕ) : K) * X = c * ((U / 2 : ℕ) : K) := by
  apply mul_left_cancel₀ two_ne_zero_K
  have hu2 : (2 : K) * ((U / 2 : ℕ) : K) = (U : K) := by
    have : 2 * (U / 2) = U := by omega
    exact_mod_cast congrArg (Nat.cast : ℕ → K) this
  have hd2 : (2 : K) * (((if D % 2 = 1 then D + p else D) / 2 : ℕ) : K) = (D : K) := by
    by_cases hodd : D % 2 = 1
    · rw [if_pos hodd]
      have hp2 : p % 2 = 1 := by decide
      have : 2 * ((D + p) / 2) = D + p := by omega
      have h3 := congrArg (Nat.cast : ℕ → K) this
      push_cast at h3
      rw [p_cast, add_zero] at h3
      exact h3
    · rw [if_neg hodd]
      have : 2 * (D / 2) = D := by omega
      exact_mod_cast congrArg (Nat.cast : ℕ → K) this
  calc (2 : K) * ((((if D % 2 = 1 then D + p else D) / 2 : ℕ) : K) * X)
      = ((2 : K) * (((if D % 2 = 1 then D + p else D) / 2 : ℕ) : K)) * X := by ring
    _ = c * ((2 : K) * ((U / 2 : ℕ) : K)) := by rw [hd2, hu2, hr]
    _ = 2 * (c * ((U / 2 : ℕ) : K)) := by ring

/-- a halving loop started with u > 0: it ends with u odd, a divisor of the initial u; the linear
    relation d·X = c·u (mod p) and any bound B ≥ p on d are preserved -/
theorem halve_loop (X c : K) (B n : Nat) (hn : 128 ≤ n) (hB : p ≤ B) (hB2 : B + p < 2 ^ 128)
    (d u : BitVec 128) (hU : 0 < u.toNat) (hD : d.toNat ≤ B)
    (hrel : (d.toNat : K) * X = c * (u.toNat : K)) :
    (whileFuel n inv_while1_cond inv_while1_body (d, u)).2.toNat % 2 = 1 ∧
    (whileFuel n inv_while1_cond inv_while1_body (d, u)).2.toNat ∣ u.toNat ∧
    (whileFuel n inv_while1_cond inv_while1_body (d, u)).1.toNat ≤ B ∧
    ((whileFuel n inv_while1_cond inv_while1_body (d, u)).1.toNat : K) * X
      = c * ((whileFuel n inv_while1_cond inv_while1_body (d, u)).2.toNat : K) := by
  have key := whileFuel_spec
    (fun s : BitVec 128 × BitVec 128 => 0 < s.2.toNat ∧ s.2.toNat ∣ u.toNat ∧ s.1.toNat ≤ B ∧
      (s.1.toNat : K) * X = c * (s.2.toNat : K))
    (fun s => Nat.log 2 s.2.toNat) inv_while1_cond inv_while1_body
    (by
      rintro ⟨d', u'⟩ ⟨h0, hdvd, hb, hr⟩ hc
      have he : u'.toNat % 2 = 0 := (halve_cond d' u').mp hc
      obtain ⟨e1, e2⟩ := halve_body d' u' (by simp only at hb; omega)
      simp only at h0 hdvd hb hr ⊢
      have hge : 2 ≤ u'.toNat := by omega
      refine ⟨⟨?_, ?_, ?_, ?_⟩, ?_⟩
      · rw [e2]; omega
      · rw [e2]; exact Nat.dvd_trans (Nat.div_dvd_of_dvd (Nat.dvd_of_mod_eq_zero he)) hdvd
      · rw [e1]; split <;> omega
      · rw [e1, e2]; exact halve_rel X c d'.toNat u'.toNat he hr
      · rw [e2, Nat.log_div_base]
        have := Nat.log_pos (by decide : 1 < 2) hge
        omega)
    n (d, u) ⟨hU, Nat.dvd_refl _, hD, hrel⟩
    (by
      have : Nat.log 2 u.toNat < 128 := Nat.log_lt_of_lt_pow (by omega) u.isLt
      simp only; omega)
  obtain ⟨⟨h0, hdvd, hb, hr⟩, hc⟩ := key
  refine ⟨?_, hdvd, hb, hr⟩
  generalize whileFuel n inv_while1_cond inv_while1_body (d, u) = r at *
  obtain ⟨d', u'⟩ := r
  have : ¬ (u'.toNat % 2 = 0) := fun h => by
    have := (halve_cond d' u').mpr h
    rw [hc] at this; exact Bool.false_ne_true this
  simp only; omega

/-- a halving loop (fuel 256) entered with u even and positive, d + p ≤ 2B: at least one halving
    happens, so u at least halves and d ends below B -/
theorem halve_loop_even (X c : K) (B : Nat) (hB : p ≤ B) (hB2 : 2 * B < 2 ^ 128)
    (d u : BitVec 128) (hU : 0 < u.toNat) (hUe : u.toNat % 2 = 0) (hD : d.toNat + p ≤ 2 * B)
    (hrel : (d.toNat : K) * X = c * (u.toNat : K)) :
    (whileFuel 256 inv_while1_cond inv_while1_body (d, u)).2.toNat % 2 = 1 ∧
    (whileFuel 256 inv_while1_cond inv_while1_body (d, u)).2.toNat ∣ u.toNat ∧
    2 * (whileFuel 256 inv_while1_cond inv_while1_body (d, u)).2.toNat ≤ u.toNat ∧
    (whileFuel 256 inv_while1_cond inv_while1_body (d, u)).1.toNat ≤ B ∧
    ((whileFuel 256 inv_while1_cond inv_while1_body (d, u)).1.toNat : K) * X
      = c * ((whileFuel 256 inv_while1_cond inv_while1_body (d, u)).2.toNat : K) := by
  rw [whileFuel_succ_true 255 _ _ _ ((halve_cond d u).mpr hUe)]
  obtain ⟨e1, e2⟩ := halve_body d u (by omega)
  have hrel1 := halve_rel X c d.toNat u.toNat hUe hrel
  rw [← e1, ← e2] at hrel1
  have hD1 : (inv_while1_body (d, u)).1.toNat ≤ B := by rw [e1]; split <;> omega
  have hU1 : 0 < (inv_while1_body (d, u)).2.toNat := by rw [e2]; omega
  generalize inv_while1_body (d, u) = s1 at *
  obtain ⟨d1, u1⟩ := s1
  simp only at e1 e2 hrel1 hD1 hU1
  obtain ⟨h1, h2, h3, h4⟩ := halve_loop X c B 255 (by decide) hB (by omega) d1 u1 hU1 hD1 hrel1
  have hdvd : u1.toNat ∣ u.toNat := by
    rw [e2]; exact Nat.div_dvd_of_dvd (Nat.dvd_of_mod_eq_zero hUe)
  refine ⟨h1, Nat.dvd_trans h2 hdvd, ?_, h3, h4⟩
  have := Nat.le_of_dvd hU1 h2
  omega


/-! ### the Euclid loops -/

/-- loop invariant on the integer values of (u, d, v, a); X is the (normalized) stored word whose
    inverse is computed; k counts the subtract-and-halve steps done so far -/
def Jn (X : K) (U D V A : Nat) : Prop :=
  U % 2 = 1 ∧ V % 2 = 1 ∧ Nat.Coprime U V ∧ (A : K) * X = (V : K) ∧ (D : K) * X = -(U : K) ∧
  ∃ k, U * V * 2 ^ k ≤ 2 * p * p ∧ A ≤ (k + 2) * p ∧ D ≤ (k + 2) * p

theorem k_le (U V k : Nat) (hU : 0 < U) (hV : 0 < V) (h : U * V * 2 ^ k ≤ 2 * p * p) : k ≤ 124 := by
  by_contra hk
  have h1 : 2 ^ 125 ≤ 2 ^ k := Nat.pow_le_pow_right (by decide) (by omega)
  have h3 : 2 ^ k ≤ U * V * 2 ^ k := Nat.le_mul_of_pos_left _ (Nat.mul_pos hU hV)
  have h4 : 2 * p * p < 2 ^ 125 := by decide
  exact absurd (le_trans (le_trans h1 h3) h) (not_le.mpr h4)

theorem log_lt_of_two_mul_le (m n : Nat) (hm : 0 < m) (h : 2 * m ≤ n) : Nat.log 2 m < Nat.log 2 n := by
  have h0 : m ≤ n / 2 := by omega
  have h1 := Nat.log_mono_right (b := 2) h0
  rw [Nat.log_div_base] at h1
  have := Nat.log_pos (by decide : 1 < 2) (show 2 ≤ n by omega)
  omega

theorem log_mul_lt_256 (a b : BitVec 128) : Nat.log 2 (a.toNat * b.toNat) ≤ 256 := by
  by_cases h : a.toNat * b.toNat = 0
  · rw [h]; simp
  · have h1 : a.toNat * b.toNat < 2 ^ 128 * 2 ^ 128 := Nat.mul_lt_mul'' a.isLt b.isLt
    have h2 : (2 : ℕ) ^ 128 * 2 ^ 128 = 2 ^ 256 := by norm_num
    rw [h2] at h1
    exact le_of_lt (Nat.log_lt_of_lt_pow h h1)

theorem while2_cond (v a u d : BitVec 128) : inv_while2_cond v a (u, d) = true ↔ v.toNat < u.toNat := by
  show BitVec.ult v u = true ↔ _
  exact ult_iff v u

theorem while2_body (v a u d : BitVec 128) :
    inv_while2_body v a (u, d)
      = ((whileFuel 256 inv_while1_cond inv_while1_body (d + a, u - v)).2,
         (whileFuel 256 inv_while1_cond inv_while1_body (d + a, u - v)).1) := rfl

/-- one iteration of the inner loop `while v < u { u -= v; d += a; halve (d, u) }` -/
theorem while2_step (X : K) (u d v a : BitVec 128) (hJ : Jn X u.toNat d.toNat v.toNat a.toNat)
    (hc : v.toNat < u.toNat) :
    Jn X (inv_while2_body v a (u, d)).1.toNat (inv_while2_body v a (u, d)).2.toNat v.toNat a.toNat ∧
    2 * (inv_while2_body v a (u, d)).1.toNat ≤ u.toNat - v.toNat := by
  obtain ⟨hu, hv, hco, hA, hD, k, hk, hAk, hDk⟩ := hJ
  have hkle := k_le _ _ k (by omega) (by omega) hk
  have hU1 : (u - v).toNat = u.toNat - v.toNat := sub_toNat u v (by omega)
  have hD1 : (d + a).toNat = d.toNat + a.toNat := add_toNat d a (by simp only [p] at hAk hDk; omega)
  have hrel1 : ((d + a).toNat : K) * X = (-1) * ((u - v).toNat : K) := by
    rw [hD1, hU1, Nat.cast_add, Nat.cast_sub (by omega), add_mul, hD, hA]; ring
  obtain ⟨h1, h2, h3, h4, h5⟩ := halve_loop_even X (-1) ((k + 3) * p) (by simp only [p]; omega)
    (by simp only [p]; omega) (d + a) (u - v) (by omega) (by omega)
    (by rw [hD1]; simp only [p] at hAk hDk ⊢; omega) hrel1
  rw [while2_body]
  generalize whileFuel 256 inv_while1_cond inv_while1_body (d + a, u - v) = r at *
  obtain ⟨d', u'⟩ := r
  simp only at h1 h2 h3 h4 h5 ⊢
  rw [hU1] at h2 h3
  refine ⟨⟨h1, hv, ?_, hA, by rw [h5]; ring, k + 1, ?_,
    le_trans hAk (Nat.mul_le_mul_right p (Nat.add_le_add_right (Nat.le_succ k) 2)), h4⟩, h3⟩
  · have : Nat.Coprime (u.toNat - v.toNat) v.toNat := (Nat.coprime_sub_self_left (by omega)).mpr hco
    exact Nat.Coprime.coprime_dvd_left h2 this
  · calc u'.toNat * v.toNat * 2 ^ (k + 1) = (2 * u'.toNat) * v.toNat * 2 ^ k := by ring
      _ ≤ u.toNat * v.toNat * 2 ^ k := by
          apply Nat.mul_le_mul_right; apply Nat.mul_le_mul_right; omega
      _ ≤ 2 * p * p := hk

/-- the inner loop: on exit u ≤ v, the invariant holds, u has not grown -/
theorem while2_loop (X : K) (u d v a : BitVec 128) (hJ : Jn X u.toNat d.toNat v.toNat a.toNat) :
    Jn X (whileFuel 256 (inv_while2_cond v a) (inv_while2_body v a) (u, d)).1.toNat
      (whileFuel 256 (inv_while2_cond v a) (inv_while2_body v a) (u, d)).2.toNat v.toNat a.toNat ∧
    (whileFuel 256 (inv_while2_cond v a) (inv_while2_body v a) (u, d)).1.toNat ≤ v.toNat ∧
    (whileFuel 256 (inv_while2_cond v a) (inv_while2_body v a) (u, d)).1.toNat ≤ u.toNat := by
  have key := whileFuel_spec
    (fun s : BitVec 128 × BitVec 128 => Jn X s.1.toNat s.2.toNat v.toNat a.toNat ∧ s.1.toNat ≤ u.toNat)
    (fun s => Nat.log 2 (s.1.toNat * v.toNat)) (inv_while2_cond v a) (inv_while2_body v a)
    (by
      rintro ⟨u', d'⟩ ⟨hJ', hle⟩ hc
      have hc' := (while2_cond v a u' d').mp hc
      obtain ⟨h1, h2⟩ := while2_step X u' d' v a hJ' hc'
      simp only at hle ⊢
      have hv : v.toNat % 2 = 1 := hJ'.2.1
      have hu'' : (inv_while2_body v a (u', d')).1.toNat % 2 = 1 := h1.1
      refine ⟨⟨h1, by omega⟩, ?_⟩
      apply log_lt_of_two_mul_le
      · exact Nat.mul_pos (by omega) (by omega)
      · calc 2 * ((inv_while2_body v a (u', d')).1.toNat * v.toNat)
            = (2 * (inv_while2_body v a (u', d')).1.toNat) * v.toNat := by ring
          _ ≤ (u'.toNat - v.toNat) * v.toNat := Nat.mul_le_mul_right _ h2
          _ ≤ u'.toNat * v.toNat := Nat.mul_le_mul_right _ (by omega))
    256 (u, d) ⟨hJ, le_refl _⟩ (log_mul_lt_256 u v)
  obtain ⟨⟨h1, h2⟩, hc⟩ := key
  refine ⟨h1, ?_, h2⟩
  generalize whileFuel 256 (inv_while2_cond v a) (inv_while2_body v a) (u, d) = r at *
  obtain ⟨u', d'⟩ := r
  have : ¬ (v.toNat < u'.toNat) := fun h => by
    have := (while2_cond v a u' d').mpr h
    rw [hc] at this; exact Bool.false_ne_true this
  simp only; omega

theorem while4_cond (u d v a : BitVec 128) : inv_while4_cond (u, d, v, a) = true ↔ v.toNat ≠ 1 := by
  show (v != 1#128) = true ↔ _
  rw [bne_iff_ne, ne_eq, ← BitVec.toNat_inj]
  rfl

theorem while4_body (u d v a : BitVec 128) :
    inv_while4_body (u, d, v, a)
      = ((whileFuel 256 (inv_while2_cond v a) (inv_while2_body v a) (u, d)).1,
         (whileFuel 256 (inv_while2_cond v a) (inv_while2_body v a) (u, d)).2,
         (whileFuel 256 inv_while1_cond inv_while1_body
            (a + (whileFuel 256 (inv_while2_cond v a) (inv_while2_body v a) (u, d)).2,
             v - (whileFuel 256 (inv_while2_cond v a) (inv_while2_body v a) (u, d)).1)).2,
         (whileFuel 256 inv_while1_cond inv_while1_body
            (a + (whileFuel 256 (inv_while2_cond v a) (inv_while2_body v a) (u, d)).2,
             v - (whileFuel 256 (inv_while2_cond v a) (inv_while2_body v a) (u, d)).1)).1) := by
  rw [← while3_eq.1, ← while3_eq.2]
  rfl

/-- one iteration of the outer loop (entered with v ≠ 1) -/
theorem while4_step (X : K) (u d v a : BitVec 128) (hJ : Jn X u.toNat d.toNat v.toNat a.toNat)
    (hc : v.toNat ≠ 1) :
    Jn X (inv_while4_body (u, d, v, a)).1.toNat (inv_while4_body (u, d, v, a)).2.1.toNat
      (inv_while4_body (u, d, v, a)).2.2.1.toNat (inv_while4_body (u, d, v, a)).2.2.2.toNat ∧
    2 * ((inv_while4_body (u, d, v, a)).1.toNat * (inv_while4_body (u, d, v, a)).2.2.1.toNat)
      ≤ u.toNat * v.toNat := by
  obtain ⟨hJ2, hle, hleU⟩ := while2_loop X u d v a hJ
  rw [while4_body]
  generalize whileFuel 256 (inv_while2_cond v a) (inv_while2_body v a) (u, d) = r2 at *
  obtain ⟨u', d'⟩ := r2
  simp only at hJ2 hle hleU ⊢
  obtain ⟨hu, hv, hco, hA, hD, k, hk, hAk, hDk⟩ := hJ2
  have hkle := k_le _ _ k (by omega) (by omega) hk
  have hne : u'.toNat ≠ v.toNat := by
    intro h
    rw [h] at hco
    exact hc ((Nat.coprime_self _).mp hco)
  have hV1 : (v - u').toNat = v.toNat - u'.toNat := sub_toNat v u' hle
  have hA1 : (a + d').toNat = a.toNat + d'.toNat := add_toNat a d' (by simp only [p] at hAk hDk; omega)
  have hrel1 : ((a + d').toNat : K) * X = 1 * ((v - u').toNat : K) := by
    rw [hA1, hV1, Nat.cast_add, Nat.cast_sub hle, add_mul, hD, hA]; ring
  obtain ⟨h1, h2, h3, h4, h5⟩ := halve_loop_even X 1 ((k + 3) * p) (by simp only [p]; omega)
    (by simp only [p]; omega) (a + d') (v - u') (by omega) (by omega)
    (by rw [hA1]; simp only [p] at hAk hDk ⊢; omega) hrel1
  generalize whileFuel 256 inv_while1_cond inv_while1_body (a + d', v - u') = r3 at *
  obtain ⟨a'', v''⟩ := r3
  simp only at h1 h2 h3 h4 h5 ⊢
  rw [hV1] at h2 h3
  refine ⟨⟨hu, h1, ?_, by rw [h5]; ring, hD, k + 1, ?_, h4,
    le_trans hDk (Nat.mul_le_mul_right p (Nat.add_le_add_right (Nat.le_succ k) 2))⟩, ?_⟩
  · have : Nat.Coprime u'.toNat (v.toNat - u'.toNat) := (Nat.coprime_sub_self_right hle).mpr hco
    exact Nat.Coprime.coprime_dvd_right h2 this
  · calc u'.toNat * v''.toNat * 2 ^ (k + 1) = u'.toNat * (2 * v''.toNat) * 2 ^ k := by ring
      _ ≤ u'.toNat * v.toNat * 2 ^ k := by
          apply Nat.mul_le_mul_right; apply Nat.mul_le_mul_left; omega
      _ ≤ 2 * p * p := hk
  · calc 2 * (u'.toNat * v''.toNat) = u'.toNat * (2 * v''.toNat) := by ring
      _ ≤ u'.toNat * v.toNat := Nat.mul_le_mul_left _ (by omega)
      _ ≤ u.toNat * v.toNat := Nat.mul_le_mul_right _ hleU

/-- the outer loop: on exit v = 1 and the invariant holds, hence a·X = 1 (mod p) -/
theorem while4_loop (X : K) (u d v a : BitVec 128) (hJ : Jn X u.toNat d.toNat v.toNat a.toNat) :
    Jn X (whileFuel 256 inv_while4_cond inv_while4_body (u, d, v, a)).1.toNat
      (whileFuel 256 inv_while4_cond inv_while4_body (u, d, v, a)).2.1.toNat
      (whileFuel 256 inv_while4_cond inv_while4_body (u, d, v, a)).2.2.1.toNat
      (whileFuel 256 inv_while4_cond inv_while4_body (u, d, v, a)).2.2.2.toNat ∧
    (whileFuel 256 inv_while4_cond inv_while4_body (u, d, v, a)).2.2.1.toNat = 1 := by
  have key := whileFuel_spec
    (fun s : BitVec 128 × BitVec 128 × BitVec 128 × BitVec 128 =>
      Jn X s.1.toNat s.2.1.toNat s.2.2.1.toNat s.2.2.2.toNat)
    (fun s => Nat.log 2 (s.1.toNat * s.2.2.1.toNat)) inv_while4_cond inv_while4_body
    (by
      rintro ⟨u', d', v', a'⟩ hJ' hc
      have hc' := (while4_cond u' d' v' a').mp hc
      obtain ⟨h1, h2⟩ := while4_step X u' d' v' a' hJ' hc'
      refine ⟨h1, ?_⟩
      have hu'' : (inv_while4_body (u', d', v', a')).1.toNat % 2 = 1 := h1.1
      have hv'' : (inv_while4_body (u', d', v', a')).2.2.1.toNat % 2 = 1 := h1.2.1
      exact log_lt_of_two_mul_le _ _ (Nat.mul_pos (by omega) (by omega)) h2)
    256 (u, d, v, a) hJ (log_mul_lt_256 u v)
  obtain ⟨h1, hc⟩ := key
  refine ⟨h1, ?_⟩
  generalize whileFuel 256 inv_while4_cond inv_while4_body (u, d, v, a) = r at *
  obtain ⟨u', d', v', a'⟩ := r
  by_contra h
  have := (while4_cond u' d' v' a').mpr h
  rw [hc] at this; exact Bool.false_ne_true this

/-- the final reduction `while a > M { a -= M }` -/
theorem while5_loop (a : BitVec 128) (hA : a.toNat ≤ 255 * p) :
    (whileFuel 256 inv_while5_cond inv_while5_body a).toNat ≤ p ∧
    ((whileFuel 256 inv_while5_cond inv_while5_body a).toNat : K) = (a.toNat : K) := by
  have key := whileFuel_spec
    (fun s : BitVec 128 => (s.toNat : K) = (a.toNat : K) ∧ s.toNat ≤ a.toNat)
    (fun s => s.toNat / p) inv_while5_cond inv_while5_body
    (by
      intro s ⟨h1, h2⟩ hc
      have hc' : p < s.toNat := by
        have : BitVec.ult (BitVec.setWidth 128 M) s = true := hc
        rw [ult_iff, M128_toNat] at this; exact this
      have e : (inv_while5_body s).toNat = s.toNat - p := by
        show (s - BitVec.setWidth 128 M).toNat = _
        rw [sub_toNat _ _ (by rw [M128_toNat]; omega), M128_toNat]
      rw [e]
      refine ⟨⟨?_, by omega⟩, ?_⟩
      · rw [Nat.cast_sub (le_of_lt hc'), p_cast, sub_zero, h1]
      · simp only [p] at hc' ⊢; omega)
    256 a ⟨rfl, le_refl _⟩ (by simp only [p] at hA ⊢; omega)
  obtain ⟨⟨h1, h2⟩, hc⟩ := key
  refine ⟨?_, h1⟩
  by_contra h
  have : BitVec.ult (BitVec.setWidth 128 M) (whileFuel 256 inv_while5_cond inv_while5_body a) = true := by
    rw [ult_iff, M128_toNat]; omega
  have h' : inv_while5_cond (whileFuel 256 inv_while5_cond inv_while5_body a) = true := this
  rw [hc] at h'; exact Bool.false_ne_true h'

/-! ### initial state and the main theorem -/

theorem odd_iff64 (x : BitVec 64) : ((x &&& 1#64) == 1#64) = true ↔ x.toNat % 2 = 1 := by
  rw [beq_iff_eq, ← BitVec.toNat_inj, BitVec.toNat_and]
  simp [Nat.and_one_is_mod]

theorem ext128_toNat (x : BitVec 64) : (BitVec.setWidth 128 x).toNat = x.toNat := by
  rw [BitVec.toNat_setWidth]
  exact Nat.mod_eq_of_lt (lt_trans x.isLt (by decide))

/-- the initial u: x if x is odd, x + M otherwise -/
def u0 (x : BitVec 64) : BitVec 128 :=
  if ((x &&& 1#64) == 1#64) then (BitVec.setWidth 128 x) else (BitVec.setWidth 128 x + BitVec.setWidth 128 M)

theorem u0_toNat (x : BitVec 64) :
    (u0 x).toNat = if x.toNat % 2 = 1 then x.toNat else x.toNat + p := by
  unfold u0
  by_cases h : x.toNat % 2 = 1
  · rw [if_pos ((odd_iff64 x).mpr h), if_pos h, ext128_toNat]
  · rw [if_neg (fun hh => h ((odd_iff64 x).mp hh)), if_neg h,
      add_toNat _ _ (by rw [ext128_toNat, M128_toNat]; have := x.isLt; simp only [p]; omega),
      ext128_toNat, M128_toNat]

theorem init_J (x : BitVec 64) (h0 : x.toNat ≠ 0) (hlt : x.toNat < p) :
    Jn (x.toNat : K) (u0 x).toNat (BitVec.setWidth 128 M - 1#128).toNat (BitVec.setWidth 128 M).toNat
      (0#128).toNat := by
  have hd0 : (BitVec.setWidth 128 M - 1#128).toNat = p - 1 := by decide
  have ha0 : (0#128).toNat = 0 := rfl
  have hp2 : p % 2 = 1 := by decide
  rw [hd0, ha0, M128_toNat, u0_toNat]
  have hUK : ((if x.toNat % 2 = 1 then x.toNat else x.toNat + p : ℕ) : K) = (x.toNat : K) := by
    split
    · rfl
    · rw [Nat.cast_add, p_cast, add_zero]
  have hndvd : ¬ p ∣ (if x.toNat % 2 = 1 then x.toNat else x.toNat + p) := by
    split
    · exact Nat.not_dvd_of_pos_of_lt (by omega) hlt
    · intro h
      have := (Nat.dvd_add_left (dvd_refl p)).mp h
      exact Nat.not_dvd_of_pos_of_lt (by omega) hlt this
  refine ⟨by split <;> omega, hp2, ?_, ?_, ?_, 0, ?_, ?_, ?_⟩
  · exact ((Nat.Prime.coprime_iff_not_dvd p_prime).mpr hndvd).symm
  · rw [Nat.cast_zero, zero_mul, p_cast]
  · rw [hUK, Nat.cast_sub (by decide : 1 ≤ p), p_cast]; simp
  · rw [pow_zero, Nat.mul_one]
    apply Nat.mul_le_mul_right
    split <;> omega
  · simp
  · simp only [p]; omega

/-- the generated `inv` on a non-zero normalized word, as a composition of its loops -/
theorem inv_unfold (x : BitVec 64) (h : (normalize x == 0#64) = false) :
    inv x = mul (BitVec.setWidth 64 (whileFuel 256 inv_while5_cond inv_while5_body
      (whileFuel 256 inv_while4_cond inv_while4_body
        (u0 (normalize x), BitVec.setWidth 128 M - 1#128, BitVec.setWidth 128 M, 0#128)).2.2.2)) R3 := by
  unfold inv
  extract_lets x'
  split
  · rename_i hc
    rw [h] at hc
    exact absurd hc Bool.false_ne_true
  · split
    rename_i u' d' v' a' heq
    have e : whileFuel 256 inv_while4_cond inv_while4_body
        (u0 (normalize x), BitVec.setWidth 128 M - 1#128, BitVec.setWidth 128 M, 0#128)
          = (u', d', v', a') := heq
    rw [e]

/-- FULL correctness of the generated `inv` (binary extended Euclid with every loop bounded by 256
    iterations): for every in-range word of non-zero value, the result is in range and its value is
    the multiplicative inverse modulo p -/
theorem inv_spec (x : BitVec 64) (hx : Rep x) (hne : val x ≠ 0) :
    Rep (inv x) ∧ val (inv x) * val x % p = 1 := by
  refine ⟨inv_rep x, ?_⟩
  obtain ⟨hn, hnlt, hnv⟩ := normalize_spec x hx
  generalize hx' : normalize x = x' at *
  have h0 : x'.toNat ≠ 0 := by
    intro h
    apply hne
    rw [← hnv]; unfold val; rw [h, Nat.zero_mul]; rfl
  have hne' : (x' == 0#64) = false := by
    rw [beq_eq_false_iff_ne, ne_eq, ← BitVec.toNat_inj]
    exact h0
  rw [inv_unfold x (by rw [hx']; exact hne'), hx', ← hnv]
  obtain ⟨hJ, hV1⟩ := while4_loop (x'.toNat : K) (u0 x') (BitVec.setWidth 128 M - 1#128)
    (BitVec.setWidth 128 M) 0#128 (init_J x' h0 hnlt)
  generalize whileFuel 256 inv_while4_cond inv_while4_body
    (u0 x', BitVec.setWidth 128 M - 1#128, BitVec.setWidth 128 M, 0#128) = r at *
  obtain ⟨u, d, v, a⟩ := r
  simp only at hJ hV1 ⊢
  obtain ⟨hu, hv, hco, hA, hD, k, hk, hAk, hDk⟩ := hJ
  have hkle := k_le _ _ k (by omega) (by omega) hk
  obtain ⟨h5le, h5K⟩ := while5_loop a
    (le_trans hAk (Nat.mul_le_mul_right p (le_trans (Nat.add_le_add_right hkle 2) (by decide))))
  generalize whileFuel 256 inv_while5_cond inv_while5_body a = a5 at *
  have h64 : (BitVec.setWidth 64 a5).toNat = a5.toNat := by
    rw [BitVec.toNat_setWidth]
    exact Nat.mod_eq_of_lt (lt_of_le_of_lt h5le (by decide))
  have hmod : (BitVec.setWidth 64 a5).toNat * x'.toNat % p = 1 := by
    rw [h64]
    have hK : ((a5.toNat * x'.toNat : ℕ) : K) = ((1 : ℕ) : K) := by
      rw [Nat.cast_mul, h5K, hA, hV1]
    have := (ZMod.natCast_eq_natCast_iff' _ _ _).mp hK
    rw [this]; decide
  exact (inv_final_step _ x' hmod).2

/-- `Div`: `mul a (inv b)` times b is a, on values -/
theorem div_spec (a b : BitVec 64) (ha : Rep a) (hb : Rep b) (hne : val b ≠ 0) :
    Rep (mul a (inv b)) ∧ val (mul a (inv b)) * val b % p = val a := by
  obtain ⟨hi, hv⟩ := inv_spec b hb hne
  obtain ⟨hm, hmv⟩ := mul_spec a (inv b) ha hi
  refine ⟨hm, ?_⟩
  rw [hmv, Nat.mod_mul_mod, Nat.mul_assoc, Nat.mul_mod, hv, Nat.mul_one, Nat.mod_mod,
    Nat.mod_eq_of_lt (val_lt a)]

end Wf.F62
