/-
Layer 3 of the C12 proof: the algebra of one radix-2 step and of DFT inversion, in any
commutative ring (no arrays here).
-/
import Mathlib.Algebra.BigOperators.Group.Finset.Basic
import Mathlib.Algebra.BigOperators.Ring.Finset
import Mathlib.Algebra.Ring.GeomSum
import Mathlib.Tactic.Ring
namespace Wf.Fft
open Finset

variable {E : Type} [CommRing E]

theorem sum_range_even_odd (f : ℕ → E) (n : ℕ) :
    ∑ l ∈ range (2 * n), f l = ∑ j ∈ range n, f (2 * j) + ∑ j ∈ range n, f (2 * j + 1) := by
  induction n with
  | zero => simp
  | succ n ih =>
    rw [show 2 * (n + 1) = 2 * n + 1 + 1 by ring, sum_range_succ, sum_range_succ, ih,
      sum_range_succ, sum_range_succ]
    ring

/-- even-indexed outputs of a radix-2 step: `A[b] = Ê[b] + w^b · Ô[b]` -/
theorem dft_split_even (f : ℕ → E) (w : E) (n b : ℕ) :
    ∑ l ∈ range (2 * n), f l * w ^ (l * b) =
      ∑ j ∈ range n, f (2 * j) * (w ^ 2) ^ (j * b) +
        (∑ j ∈ range n, f (2 * j + 1) * (w ^ 2) ^ (j * b)) * w ^ b := by
  rw [sum_range_even_odd, sum_mul]
  congr 1
  · refine sum_congr rfl fun j _ => ?_
    rw [← pow_mul, show 2 * (j * b) = 2 * j * b by ring]
  · refine sum_congr rfl fun j _ => ?_
    rw [← pow_mul, show (2 * j + 1) * b = 2 * (j * b) + b by ring, pow_add]
    ring

/-- odd-indexed outputs: `A[n + b] = Ê[b] − w^b · Ô[b]` when `wⁿ = −1` -/
theorem dft_split_odd (f : ℕ → E) (w : E) (n b : ℕ) (hw : w ^ n = -1) :
    ∑ l ∈ range (2 * n), f l * w ^ (l * (n + b)) =
      ∑ j ∈ range n, f (2 * j) * (w ^ 2) ^ (j * b) -
        (∑ j ∈ range n, f (2 * j + 1) * (w ^ 2) ^ (j * b)) * w ^ b := by
  rw [sum_range_even_odd, sum_mul, sub_eq_add_neg, ← sum_neg_distrib]
  congr 1
  · refine sum_congr rfl fun j _ => ?_
    rw [← pow_mul, show 2 * j * (n + b) = n * (2 * j) + 2 * (j * b) by ring, pow_add, pow_mul w n,
      hw, pow_mul (-1 : E) 2 j, neg_one_sq, one_pow, one_mul]
  · refine sum_congr rfl fun j _ => ?_
    rw [← pow_mul, show (2 * j + 1) * (n + b) = n * (2 * j) + n + (2 * (j * b) + b) by ring,
      pow_add, pow_add, pow_mul w n, hw, pow_mul (-1 : E) 2 j, neg_one_sq, one_pow, one_mul, pow_add]
    ring

end Wf.Fft
