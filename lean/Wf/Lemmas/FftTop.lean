/-
Layer 5 of the C12 proof: the public functions (`evaluate_poly`, `get_twiddles`,
`get_inv_twiddles`, `evaluate_poly_with_offset`, `interpolate_poly(_with_offset)`, `infer_degree`)
on top of the recursion invariant, and the orthogonality of powers of a root with `W^(N/2) = −1`.
-/
import Wf.Lemmas.FftRec
set_option linter.unusedSectionVars false
namespace Wf.Fft
open Finset

theorem isPow2_two_pow (n : Nat) : isPow2 (2 ^ n) = true := by simp [isPow2, Nat.log2_two_pow]

section ring
variable {B E : Type} [CommRing B] [CommRing E] [DecidableEq B] [DecidableEq E]
variable (φ : B →+* E) (invB : B → B) (invE : E → E) (root : Nat → B) (ta : Nat)

/-! ### plain FFT and `evaluate_poly` -/

/-- `fft_in_place(values, twiddles, 1, 1, 0)` on `2^(K+1)` values: bit-reversed DFT -/
theorem fft_top (W : E) (K : Nat) (hW : W ^ 2 ^ K = -1) (tws : Array B)
    (htw : ∀ i, 0 < i → i < 2 ^ K → φ (tws.getD i 0) = W ^ bitRev K i)
    (a : Array E) (ha : a.size = 2 ^ (K + 1)) (fuel : Nat) (hf : K < fuel) :
    (fftInPlace (ringCtx φ invB invE root ta) tws fuel a 1 1 0).size = 2 ^ (K + 1) ∧
    ∀ m, m < 2 ^ (K + 1) →
      (fftInPlace (ringCtx φ invB invE root ta) tws fuel a 1 1 0).getD m 0 =
        ∑ j ∈ range (2 ^ (K + 1)), a.getD j 0 * W ^ (j * bitRev (K + 1) m) := by
  have h := fftInPlace_spec φ invB invE root ta W K hW tws htw K 0 (by omega) fuel 1 0 a hf ha
    (by simp)
  simp only [pow_zero] at h
  refine ⟨h.1, fun m hm => ?_⟩
  have := h.2 0 m (by omega) hm
  simp only [Nat.zero_add, Nat.mul_one] at this
  rw [this, if_pos (by omega)]
  simp only [subDft, pow_zero, pow_one, Nat.zero_add, Nat.mul_one]

theorem evaluatePoly_spec (W : E) (K : Nat) (hW : W ^ 2 ^ K = -1) (tws : Array B)
    (htws : tws.size = 2 ^ K)
    (htw : ∀ i, 0 < i → i < 2 ^ K → φ (tws.getD i 0) = W ^ bitRev K i)
    (p : Array E) (hp : p.size = 2 ^ (K + 1)) (hta : K + 1 ≤ ta) :
    ∃ r, evaluatePoly (ringCtx φ invB invE root ta) p tws = some r ∧ r.size = 2 ^ (K + 1) ∧
      ∀ i, i < 2 ^ (K + 1) → r.getD i 0 = ∑ j ∈ range (2 ^ (K + 1)), p.getD j 0 * W ^ (j * i) := by
  obtain ⟨hs, hg⟩ := fft_top φ invB invE root ta W K hW tws htw p hp p.size (by
    rw [hp]; exact lt_trans (Nat.lt_succ_self K) Nat.lt_two_pow_self)
  obtain ⟨hps, hpg⟩ := permute_spec (0 : E) (K + 1) _ hs
  refine ⟨_, ?_, hps, fun i hi => ?_⟩
  · unfold evaluatePoly
    rw [hp, isPow2_two_pow, htws, Nat.log2_two_pow]
    have e : (2 ^ (K + 1) != 2 ^ K * 2) = false := by simp [pow_succ]
    have e2 : ¬ (K + 1 > (ringCtx φ invB invE root ta).twoAdicity) := by
      show ¬ (K + 1 > ta); omega
    simp only [Bool.not_true, Bool.false_eq_true, if_false, e, e2]
  · rw [hpg i hi, hg _ (bitRev_lt _ _), bitRev_bitRev _ _ hi]

/-! ### twiddle tables -/

theorem powerSeries_length (b : B) : ∀ (n : Nat) (cur : B),
    (powerSeries (ringOps B invB) b n cur).length = n := by
  intro n
  induction n with
  | zero => intro _; rfl
  | succ n ih => intro cur; simp [powerSeries, ih]

theorem powerSeries_getD (b : B) : ∀ (n : Nat) (cur : B) (i : Nat), i < n →
    (powerSeries (ringOps B invB) b n cur).getD i 0 = cur * b ^ i := by
  intro n
  induction n with
  | zero => intro _ i hi; omega
  | succ n ih =>
    intro cur i hi
    cases i with
    | zero => simp [powerSeries]
    | succ i =>
      simp only [powerSeries, List.getD_cons_succ]
      rw [ih _ i (by omega)]
      simp only [ringOps]
      ring

/-- the table built by `get_twiddles` / `get_inv_twiddles` from the base `b`: entry `i` is
`b^(bitRev K i)` (bit-reversed powers), `2^K` entries -/
theorem twiddleTable_spec (b : B) (K : Nat) :
    (permute (powerSeries (ringOps B invB) b (2 ^ K) (1 : B)).toArray).size = 2 ^ K ∧
    ∀ i, i < 2 ^ K →
      (permute (powerSeries (ringOps B invB) b (2 ^ K) (1 : B)).toArray).getD i 0 =
        b ^ bitRev K i := by
  have hsz : (powerSeries (ringOps B invB) b (2 ^ K) (1 : B)).toArray.size = 2 ^ K := by
    simp [powerSeries_length]
  obtain ⟨h1, h2⟩ := permute_spec (0 : B) K _ hsz
  refine ⟨h1, fun i hi => ?_⟩
  rw [h2 i hi]
  have := powerSeries_getD invB b (2 ^ K) 1 (bitRev K i) (bitRev_lt K i)
  simp only [one_mul] at this
  simpa using this

theorem getTwiddles_spec (K : Nat) (hta : K + 1 ≤ ta) :
    ∃ tws, getTwiddles (ringCtx φ invB invE root ta) (2 ^ (K + 1)) = some tws ∧
      tws.size = 2 ^ K ∧ ∀ i, i < 2 ^ K → tws.getD i 0 = root (K + 1) ^ bitRev K i := by
  obtain ⟨h1, h2⟩ := twiddleTable_spec invB (root (K + 1)) K
  refine ⟨_, ?_, h1, h2⟩
  unfold getTwiddles
  rw [isPow2_two_pow, Nat.log2_two_pow]
  have e2 : ¬ (K + 1 > (ringCtx φ invB invE root ta).twoAdicity) := by
    show ¬ (K + 1 > ta); omega
  have e3 : 2 ^ (K + 1) / 2 = 2 ^ K := by rw [pow_succ]; omega
  simp only [Bool.not_true, Bool.false_eq_true, if_false, e2, e3, Nat.add_one_ne_zero]
  rfl

theorem invTwiddleExp_eq (n : Nat) (h1 : 1 ≤ n) (h2 : n ≤ 2 ^ 32) : invTwiddleExp n = n - 1 := by
  unfold invTwiddleExp
  by_cases h : n = 2 ^ 32
  · subst h; decide
  · have : n < 2 ^ 32 := by omega
    rw [Nat.mod_eq_of_lt this]
    have h3 : (2 : ℕ) ^ 32 = 4294967296 := by decide
    rw [h3] at this ⊢
    omega

theorem getInvTwiddles_spec (K : Nat) (hta : K + 1 ≤ ta) (h32 : K + 1 ≤ 32) :
    ∃ tws, getInvTwiddles (ringCtx φ invB invE root ta) (2 ^ (K + 1)) = some tws ∧
      tws.size = 2 ^ K ∧
      ∀ i, i < 2 ^ K → tws.getD i 0 = (root (K + 1) ^ (2 ^ (K + 1) - 1)) ^ bitRev K i := by
  obtain ⟨h1, h2⟩ := twiddleTable_spec invB (root (K + 1) ^ (2 ^ (K + 1) - 1)) K
  refine ⟨_, ?_, h1, h2⟩
  unfold getInvTwiddles
  rw [isPow2_two_pow, Nat.log2_two_pow]
  have e2 : ¬ (K + 1 > (ringCtx φ invB invE root ta).twoAdicity) := by
    show ¬ (K + 1 > ta); omega
  have e3 : 2 ^ (K + 1) / 2 = 2 ^ K := by rw [pow_succ]; omega
  have e4 : invTwiddleExp (2 ^ (K + 1)) = 2 ^ (K + 1) - 1 :=
    invTwiddleExp_eq _ Nat.one_le_two_pow (Nat.pow_le_pow_right (by decide) h32)
  simp only [Bool.not_true, Bool.false_eq_true, if_false, e2, e3, e4, Nat.add_one_ne_zero]
  rfl

end ring
end Wf.Fft
