/-
f62 (p = 2^62 − 111·2^39 + 1, Montgomery form with R = 2^64, stored words in [0, 2p)):
the generated kernels compute arithmetic modulo p.
Lifts the bit-level lemmas of `F62Bv` to statements about canonical values; the Montgomery
multiplication is done at the level of natural numbers (no SAT call on a 128-bit multiplier).
Core Lean + Std only.
-/
import Wf.Lemmas.F62Bv
namespace Wf.F62
open Wf.Gen.F62

/-- the documented modulus -/
def p : Nat := 4611624995532046337
/-- 2^(-64) mod p -/
def Rinv : Nat := 1152890993361043456

theorem p_eq : p = 2 ^ 62 - 111 * 2 ^ 39 + 1 := by decide
theorem M_toNat : M.toNat = p := by decide
theorem M2_toNat : M2.toNat = 2 * p := by decide
theorem M65_toNat : (z65 M).toNat = p := by decide
theorem M265_toNat : (z65 M2).toNat = 2 * p := by decide
theorem U_toNat : U.toNat = 4611624995532046335 := by decide
theorem R2_toNat : R2.toNat = 2 ^ 128 % p := by decide
theorem R_Rinv : 2 ^ 64 * Rinv % p = 1 := by decide
/-- U = −p^(-1) mod 2^64 -/
theorem U_spec : (1 + 4611624995532046335 * p) % 2 ^ 64 = 0 := by decide

/-- representation invariant (documented on `BaseElement`): the stored word is in [0, 2p) -/
def Rep (x : BitVec 64) : Prop := x.toNat < 2 * p
/-- canonical value of a stored word: x · 2^(-64) mod p -/
def val (x : BitVec 64) : Nat := x.toNat * Rinv % p

theorem rep_iff (x : BitVec 64) : Rep x ↔ x < M2 := by
  unfold Rep; rw [BitVec.lt_def, M2_toNat]

theorem val_lt (x : BitVec 64) : val x < p := Nat.mod_lt _ (by decide)

theorem val_of_modEq (x : BitVec 64) (n : Nat) (h : x.toNat % p = n % p) : val x = n * Rinv % p := by
  unfold val; rw [Nat.mul_mod, h, ← Nat.mul_mod]

/-- multiplying the canonical value by R gives back the word modulo p -/
theorem val_mul_R (x : BitVec 64) : val x * 2 ^ 64 % p = x.toNat % p := by
  unfold val
  rw [Nat.mod_mul_mod, Nat.mul_assoc, Nat.mul_comm Rinv, Nat.mul_mod, R_Rinv, Nat.mul_one, Nat.mod_mod]

/-- equal values ⇔ congruent words -/
theorem val_eq_iff (a b : BitVec 64) : val a = val b ↔ a.toNat % p = b.toNat % p := by
  constructor
  · intro h; rw [← val_mul_R a, ← val_mul_R b, h]
  · intro h; unfold val; rw [Nat.mul_mod, h, ← Nat.mul_mod]

/-! ### add / sub / neg / double / normalize -/

theorem add_spec (a b : BitVec 64) (ha : Rep a) (hb : Rep b) :
    Rep (add a b) ∧ val (add a b) = (val a + val b) % p := by
  obtain ⟨h1, h2⟩ := add_bv a b ((rep_iff a).mp ha) ((rep_iff b).mp hb)
  refine ⟨(rep_iff _).mpr h1, ?_⟩
  have hr : (add a b).toNat < 2 * p := (rep_iff _).mpr h1
  unfold Rep at ha hb
  have hp : p = 4611624995532046337 := rfl
  have hmod : (add a b).toNat % p = (a.toNat + b.toNat) % p := by
    rcases h2 with h | h | h | h
    · have := congrArg BitVec.toNat h
      simp only [z65, BitVec.toNat_add, BitVec.toNat_setWidth] at this
      have e : (add a b).toNat = a.toNat + b.toNat := by omega
      rw [e]
    · have := congrArg BitVec.toNat h
      rw [BitVec.toNat_add, BitVec.toNat_add, M65_toNat] at this
      simp only [z65, BitVec.toNat_setWidth] at this
      have e : (add a b).toNat + p = a.toNat + b.toNat := by omega
      rw [← e, Nat.add_mod_right]
    · have := congrArg BitVec.toNat h
      rw [BitVec.toNat_add, BitVec.toNat_add, BitVec.toNat_add, M65_toNat] at this
      simp only [z65, BitVec.toNat_setWidth] at this
      have e : (add a b).toNat + p + p = a.toNat + b.toNat := by omega
      rw [← e, Nat.add_mod_right, Nat.add_mod_right]
    · have := congrArg BitVec.toNat h
      rw [BitVec.toNat_add, BitVec.toNat_add, BitVec.toNat_add, BitVec.toNat_add, M65_toNat] at this
      simp only [z65, BitVec.toNat_setWidth] at this
      have e : (add a b).toNat + p + p + p = a.toNat + b.toNat := by omega
      rw [← e, Nat.add_mod_right, Nat.add_mod_right, Nat.add_mod_right]
  rw [val_of_modEq _ _ hmod]
  unfold val
  rw [Nat.add_mul, Nat.add_mod]

/-- from r + b ≡ a (mod p) on words to val r = val a − val b -/
theorem val_sub_of_modEq (r a b : BitVec 64) (hmod : (r.toNat + b.toNat) % p = a.toNat % p) :
    val r = (val a + (p - val b)) % p := by
  have hv : (val r + val b) % p = val a := by
    unfold val
    rw [← Nat.add_mod, ← Nat.add_mul, Nat.mul_mod, hmod, ← Nat.mul_mod]
  have h1' := val_lt r; have h2' := val_lt b; have h3' := val_lt a
  generalize val r = vr at *
  generalize val b = vb at *
  generalize val a = va at *
  by_cases hc : vr + vb < p
  · rw [Nat.mod_eq_of_lt hc] at hv
    have : va + (p - vb) = vr + p := by omega
    rw [this, Nat.add_mod_right, Nat.mod_eq_of_lt h1']
  · have : (vr + vb) % p = vr + vb - p := by
      rw [Nat.mod_eq_sub_mod (by omega), Nat.mod_eq_of_lt (by omega)]
    rw [this] at hv
    have : va + (p - vb) = vr := by omega
    rw [this, Nat.mod_eq_of_lt h1']

theorem sub_spec (a b : BitVec 64) (ha : Rep a) (hb : Rep b) :
    Rep (sub a b) ∧ val (sub a b) = (val a + (p - val b)) % p := by
  obtain ⟨h1, h2⟩ := sub_bv a b ((rep_iff a).mp ha) ((rep_iff b).mp hb)
  refine ⟨(rep_iff _).mpr h1, ?_⟩
  have hr : (sub a b).toNat < 2 * p := (rep_iff _).mpr h1
  unfold Rep at ha hb
  have hp : p = 4611624995532046337 := rfl
  apply val_sub_of_modEq
  rcases h2 with h | h
  · have := congrArg BitVec.toNat h
    simp only [z65, BitVec.toNat_add, BitVec.toNat_setWidth] at this
    have e : (sub a b).toNat + b.toNat = a.toNat := by omega
    rw [e]
  · have := congrArg BitVec.toNat h
    rw [BitVec.toNat_add, BitVec.toNat_add, M265_toNat] at this
    simp only [z65, BitVec.toNat_setWidth] at this
    have e : (sub a b).toNat + b.toNat = a.toNat + p + p := by omega
    rw [e, Nat.add_mod_right, Nat.add_mod_right]

theorem neg_spec (a : BitVec 64) (ha : Rep a) : Rep (neg a) ∧ val (neg a) = (p - val a) % p := by
  obtain ⟨h1, h2⟩ := neg_bv a ((rep_iff a).mp ha)
  refine ⟨(rep_iff _).mpr h1, ?_⟩
  have hr : (neg a).toNat < 2 * p := (rep_iff _).mpr h1
  unfold Rep at ha
  have hp : p = 4611624995532046337 := rfl
  have h0 : val 0#64 = 0 := by decide
  have := val_sub_of_modEq (neg a) 0#64 a (by
    rcases h2 with h | h
    · have := congrArg BitVec.toNat h
      simp only [z65, BitVec.toNat_add, BitVec.toNat_setWidth, BitVec.toNat_ofNat] at this
      have e : (neg a).toNat + a.toNat = 0 := by omega
      rw [e]; rfl
    · have := congrArg BitVec.toNat h
      rw [BitVec.toNat_add, M265_toNat] at this
      simp only [z65, BitVec.toNat_setWidth] at this
      have e : (neg a).toNat + a.toNat = 0 + p + p := by omega
      rw [e, Nat.add_mod_right, Nat.add_mod_right]; rfl)
  rw [this, h0, Nat.zero_add]

theorem double_spec (a : BitVec 64) (ha : Rep a) : Rep (double a) ∧ val (double a) = 2 * val a % p := by
  rw [double_bv]
  obtain ⟨h1, h2⟩ := add_spec a a ha ha
  exact ⟨h1, by rw [h2, Nat.two_mul]⟩

/-- normalize on a word in [0, 2p): the canonical representative of the same residue -/
theorem normalize_spec (a : BitVec 64) (ha : Rep a) :
    (normalize a).toNat = a.toNat % p ∧ (normalize a).toNat < p ∧ val (normalize a) = val a := by
  obtain ⟨h1, h2⟩ := normalize_bv a ((rep_iff a).mp ha)
  have hr : (normalize a).toNat < p := by rw [← M_toNat]; exact BitVec.lt_def.mp h1
  unfold Rep at ha
  have hp : p = 4611624995532046337 := rfl
  have e : (normalize a).toNat = a.toNat % p := by
    rcases h2 with h | h
    · rw [h] at hr ⊢
      exact (Nat.mod_eq_of_lt hr).symm
    · have := congrArg BitVec.toNat h
      rw [BitVec.toNat_add, M65_toNat] at this
      simp only [z65, BitVec.toNat_setWidth] at this
      have e : a.toNat = (normalize a).toNat + p := by omega
      rw [e, Nat.add_mod_right, Nat.mod_eq_of_lt hr]
  refine ⟨e, hr, ?_⟩
  rw [val_eq_iff, e, Nat.mod_mod]

/-! ### Montgomery multiplication -/

/-- the Montgomery quotient digit makes the sum divisible by 2^64 -/
theorem mont_div (z : Nat) :
    (z + (z % 2 ^ 64 * 4611624995532046335 % 2 ^ 64) * p) % 2 ^ 64 = 0 := by
  have h1 : (z % 2 ^ 64 * 4611624995532046335 % 2 ^ 64) * p % 2 ^ 64
      = z % 2 ^ 64 * (4611624995532046335 * p) % 2 ^ 64 := by
    rw [Nat.mod_mul_mod, Nat.mul_assoc]
  rw [Nat.add_mod, h1, Nat.add_mod_mod]
  have h2 : z % 2 ^ 64 + z % 2 ^ 64 * (4611624995532046335 * p)
      = z % 2 ^ 64 * (1 + 4611624995532046335 * p) := by
    rw [Nat.mul_add, Nat.mul_one]
  rw [h2, Nat.mul_mod, U_spec, Nat.mul_zero, Nat.zero_mod]

theorem prod_toNat (a b : BitVec 64) :
    (BitVec.setWidth 128 a * BitVec.setWidth 128 b).toNat = a.toNat * b.toNat := by
  rw [BitVec.toNat_mul, BitVec.toNat_setWidth, BitVec.toNat_setWidth,
    Nat.mod_eq_of_lt (Nat.lt_trans a.isLt (by decide)), Nat.mod_eq_of_lt (Nat.lt_trans b.isLt (by decide))]
  apply Nat.mod_eq_of_lt
  have := Nat.mul_lt_mul'' a.isLt b.isLt
  calc a.toNat * b.toNat < 2 ^ 64 * 2 ^ 64 := this
    _ = 2 ^ 128 := by decide

/-- the Montgomery reduction identity for the generated `mul`: whenever a·b < 2^64·p (true for all
    words below 2p, for `new` and for `as_int`) the 128-bit accumulator cannot overflow,
    z + q·p is divisible by 2^64, `mul a b` is the exact quotient, and the quotient is below 2p. -/
theorem mul_mont (a b : BitVec 64) (h : a.toNat * b.toNat < 2 ^ 64 * p) :
    ∃ q, q < 2 ^ 64 ∧ (a.toNat * b.toNat + q * p) % 2 ^ 64 = 0 ∧
      (mul a b).toNat * 2 ^ 64 = a.toNat * b.toNat + q * p ∧ (mul a b).toNat < 2 * p := by
  refine ⟨a.toNat * b.toNat % 2 ^ 64 * 4611624995532046335 % 2 ^ 64, Nat.mod_lt _ (by decide),
    mont_div _, ?_⟩
  have hdiv := mont_div (a.toNat * b.toNat)
  have hz := prod_toNat a b
  unfold mul
  dsimp only
  generalize BitVec.setWidth 128 a * BitVec.setWidth 128 b = Z at hz ⊢
  generalize a.toNat * b.toNat = z at *
  -- low limb, quotient digit, q·M: each step is exact (no wrap-around)
  have hlo : (BitVec.setWidth 128 (BitVec.setWidth 64 Z)).toNat = z % 2 ^ 64 := by
    rw [BitVec.toNat_setWidth, BitVec.toNat_setWidth, hz]
    exact Nat.mod_eq_of_lt (Nat.lt_trans (Nat.mod_lt _ (by decide)) (by decide))
  have hq : (BitVec.setWidth 64 (BitVec.setWidth 128 (BitVec.setWidth 64 Z) * U)).toNat
      = z % 2 ^ 64 * 4611624995532046335 % 2 ^ 64 := by
    rw [BitVec.toNat_setWidth, BitVec.toNat_mul, hlo, U_toNat]
    exact Nat.mod_mod_of_dvd _ (by decide)
  generalize BitVec.setWidth 64 (BitVec.setWidth 128 (BitVec.setWidth 64 Z) * U) = Q at hq ⊢
  generalize z % 2 ^ 64 * 4611624995532046335 % 2 ^ 64 = q at *
  have hql : q < 2 ^ 64 := by rw [← hq]; exact Q.isLt
  have hqM : (BitVec.setWidth 128 Q * BitVec.setWidth 128 M).toNat = q * p := by
    rw [BitVec.toNat_mul, BitVec.toNat_setWidth, BitVec.toNat_setWidth, hq, M_toNat]
    simp only [p] at *
    omega
  rw [BitVec.toNat_setWidth, BitVec.toNat_ushiftRight, BitVec.toNat_add, hz, hqM,
    Nat.shiftRight_eq_div_pow]
  have hT : z + q * p < 2 * (2 ^ 64 * p) := by simp only [p] at *; omega
  generalize z + q * p = T at *
  clear h hqM
  simp only [p] at *
  omega

/-- canonical value from the Montgomery congruence -/
theorem val_of_mont (r : BitVec 64) (n : Nat) (h : r.toNat * 2 ^ 64 % p = n % p) :
    val r = n * Rinv * Rinv % p := by
  have h1 : r.toNat % p = n * Rinv % p := by
    have : r.toNat * (2 ^ 64 * Rinv) % p = n * Rinv % p := by
      rw [← Nat.mul_assoc, Nat.mul_mod, h, ← Nat.mul_mod]
    rw [Nat.mul_mod, R_Rinv, Nat.mul_one, Nat.mod_mod] at this
    exact this
  unfold val
  rw [Nat.mul_mod, h1, ← Nat.mul_mod]

/-- products of two words below 2p stay below 2^64·p (4p < 2^64) -/
theorem prod_lt (a b : BitVec 64) (ha : Rep a) (hb : Rep b) : a.toNat * b.toNat < 2 ^ 64 * p := by
  unfold Rep at ha hb
  have h1 : a.toNat * b.toNat < 2 * p * (2 * p) := Nat.mul_lt_mul'' ha hb
  have h2 : 2 * p * (2 * p) = 4 * p * p := by decide
  have h3 : 4 * p * p ≤ 2 ^ 64 * p := Nat.mul_le_mul_right _ (by decide)
  rw [h2] at h1
  exact Nat.lt_of_lt_of_le h1 h3

/-- multiplication: `mul a b` is in range and its value is the product of the values -/
theorem mul_spec (a b : BitVec 64) (ha : Rep a) (hb : Rep b) :
    Rep (mul a b) ∧ val (mul a b) = val a * val b % p := by
  obtain ⟨q, _, _, hr, hrep⟩ := mul_mont a b (prod_lt a b ha hb)
  refine ⟨hrep, ?_⟩
  have h2 : (mul a b).toNat * 2 ^ 64 % p = a.toNat * b.toNat % p := by
    rw [hr, Nat.add_mul_mod_self_right]
  rw [val_of_mont _ _ h2]
  unfold val
  rw [← Nat.mul_mod]
  have e : a.toNat * b.toNat * Rinv * Rinv = a.toNat * Rinv * (b.toNat * Rinv) := by
    rw [Nat.mul_assoc, Nat.mul_mul_mul_comm]
  rw [e]

theorem R2_lt : R2.toNat < p := by decide

/-- `new v` silently reduces: the value of `new v` is v mod p, for every 64-bit v -/
theorem new_spec (v : BitVec 64) : Rep (new v) ∧ val (new v) = v.toNat % p := by
  unfold new
  obtain ⟨q, _, _, hr, hrep⟩ := mul_mont v R2 (Nat.mul_lt_mul'' v.isLt R2_lt)
  refine ⟨hrep, ?_⟩
  have h2 : (mul v R2).toNat * 2 ^ 64 % p = v.toNat * R2.toNat % p := by
    rw [hr, Nat.add_mul_mod_self_right]
  rw [val_of_mont _ _ h2, R2_toNat]
  have e : 2 ^ 128 % p * (Rinv * Rinv) % p = 1 := by decide
  rw [Nat.mul_assoc, Nat.mul_assoc, Nat.mul_mod, e, Nat.mul_one, Nat.mod_mod]

/-- `as_int` returns the canonical value for EVERY stored word (in range or not) -/
theorem as_int_spec (x : BitVec 64) : (as_int x).toNat = val x := by
  unfold as_int
  have h1 : (1#64).toNat = 1 := by decide
  obtain ⟨q, _, _, hr, hrep⟩ := mul_mont x 1#64 (by
    rw [h1]; exact Nat.mul_lt_mul'' x.isLt (by decide))
  rw [h1, Nat.mul_one] at hr
  obtain ⟨hn, _, _⟩ := normalize_spec _ hrep
  dsimp only
  rw [hn]
  have h2 : (mul x 1#64).toNat * 2 ^ 64 % p = x.toNat % p := by
    rw [hr, Nat.add_mul_mod_self_right]
  have h3 : (mul x 1#64).toNat * (2 ^ 64 * Rinv) % p = x.toNat * Rinv % p := by
    rw [← Nat.mul_assoc, Nat.mul_mod, h2, ← Nat.mul_mod]
  rw [Nat.mul_mod, R_Rinv, Nat.mul_one, Nat.mod_mod] at h3
  exact h3

/-! ### equality -/

theorem eq_iff_normalize (a b : BitVec 64) : eq a b = true ↔ normalize a = normalize b := by
  unfold eq; exact beq_iff_eq

/-- the implemented `==` (normalize both sides, compare) is equality of values on words in [0, 2p) -/
theorem eq_spec (a b : BitVec 64) (ha : Rep a) (hb : Rep b) : eq a b = true ↔ val a = val b := by
  rw [eq_iff_normalize, val_eq_iff]
  obtain ⟨ea, _, _⟩ := normalize_spec a ha
  obtain ⟨eb, _, _⟩ := normalize_spec b hb
  constructor
  · intro h; rw [← ea, ← eb, h]
  · intro h; apply BitVec.eq_of_toNat_eq; rw [ea, eb, h]

/-- zero has exactly two in-range words: 0 and p -/
theorem zero_words (x : BitVec 64) (hx : Rep x) : val x = 0 ↔ (x = 0#64 ∨ x = M) := by
  have h0 : val 0#64 = 0 := by decide
  have hM : val M = 0 := by decide
  constructor
  · intro h
    have h1 := (val_eq_iff x 0#64).mp (h.trans h0.symm)
    have h2 : (0#64).toNat % p = 0 := by decide
    rw [h2] at h1
    unfold Rep at hx
    have h3 : x.toNat = 0 ∨ x.toNat = p := by
      simp only [p] at *; omega
    rcases h3 with h3 | h3
    · left; exact BitVec.eq_of_toNat_eq (by rw [h3]; rfl)
    · right; exact BitVec.eq_of_toNat_eq (by rw [h3, M_toNat])
  · rintro (rfl | rfl)
    · exact h0
    · exact hM

/-! ### inv (binary extended Euclid; translated with every `while` bounded by 256 iterations) -/

theorem R3_lt : R3.toNat < p := by decide
theorem R3_toNat : R3.toNat = 2 ^ 192 % p := by decide

theorem mul_R3_rep (y : BitVec 64) : Rep (mul y R3) := by
  obtain ⟨q, _, _, _, h⟩ := mul_mont y R3 (Nat.mul_lt_mul'' y.isLt R3_lt)
  exact h

/-- both words of zero are mapped to the word 0 (the second one thanks to the initial `normalize`) -/
theorem inv_zeros : inv 0#64 = 0#64 ∧ inv M = 0#64 := by decide

/-- the result of `inv` is in [0, 2p) for EVERY input word: it is 0 or a Montgomery product with R3 -/
theorem inv_rep (x : BitVec 64) : Rep (inv x) := by
  unfold inv
  extract_lets x'
  split
  · unfold Rep; decide
  · split
    exact mul_R3_rep _

/-- last step of `inv`: if a is the inverse of the stored word x modulo p (what the Euclid loops are
    meant to leave in `a`), then `mul a R3` is a word whose VALUE is the inverse of the value of x -/
theorem inv_final_step (a x : BitVec 64) (h : a.toNat * x.toNat % p = 1) :
    Rep (mul a R3) ∧ val (mul a R3) * val x % p = 1 := by
  obtain ⟨q, _, _, hr, hrep⟩ := mul_mont a R3 (Nat.mul_lt_mul'' a.isLt R3_lt)
  refine ⟨hrep, ?_⟩
  have h2 : (mul a R3).toNat * 2 ^ 64 % p = a.toNat * R3.toNat % p := by
    rw [hr, Nat.add_mul_mod_self_right]
  rw [val_of_mont _ _ h2, R3_toNat]
  unfold val
  rw [← Nat.mul_mod]
  have e : 2 ^ 192 % p * Rinv * Rinv * Rinv % p = 1 := by decide
  have e2 : a.toNat * (2 ^ 192 % p) * Rinv * Rinv * (x.toNat * Rinv)
      = (a.toNat * x.toNat) * ((2 ^ 192 % p) * Rinv * Rinv * Rinv) := by
    ac_rfl
  rw [e2, Nat.mul_mod, h, e]
  decide

end Wf.F62
