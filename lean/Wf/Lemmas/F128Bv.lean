/-
Bit-level facts about the generated f128 kernels (`Wf.Gen.F128`), each closed by `bv_decide`
(SAT + LRAT certificate; adds one `._native.bv_decide.ax_*` axiom per lemma, listed in the evidence).
All are quantifier-free statements over ALL 64/128-bit inputs and contain additions, subtractions
and comparisons only (no multiplier: the 64x64 products are handled at Nat level in `F128.lean`).
-/
import Wf.Gen.F128
import Std.Tactic.BVDecide
namespace Wf.F128
open Wf.Gen.F128

/-- widen to 129 / 192 bits so that sums cannot wrap -/
abbrev z129 (x : BitVec 128) : BitVec 129 := x.setWidth 129
abbrev z192 (x : BitVec 64) : BitVec 192 := x.setWidth 192
/-- three 64-bit limbs as one 192-bit word -/
def w3 (a0 a1 a2 : BitVec 64) : BitVec 192 := z192 a0 + (z192 a1 <<< 64) + (z192 a2 <<< 128)
/-- two 64-bit limbs as one 128-bit word -/
def w2 (a0 a1 : BitVec 64) : BitVec 128 := a0.setWidth 128 + (a1.setWidth 128 <<< 64)

theorem add_bv (a b : BitVec 128) (ha : a < M) (hb : b < M) :
    add a b < M ∧ (z129 (add a b) = z129 a + z129 b ∨ z129 (add a b) + z129 M = z129 a + z129 b) := by
  unfold add M z129 at *
  bv_decide

theorem sub_bv (a b : BitVec 128) (ha : a < M) (hb : b < M) :
    sub a b < M ∧ (z129 (sub a b) + z129 b = z129 a ∨ z129 (sub a b) + z129 b = z129 a + z129 M) := by
  unfold sub M z129 at *
  bv_decide

/-- `new` on EVERY 128-bit word: at most one subtraction of M is needed because 2M > 2^128 -/
theorem new_bv (v : BitVec 128) :
    new v < M ∧ (z129 (new v) = z129 v ∨ z129 (new v) + z129 M = z129 v) := by
  unfold new M z129 at *
  bv_decide

/-- `sub_192x192` is subtraction modulo 2^192 (borrow chain through bit 127 of the 128-bit temporaries) -/
theorem sub192_bv (a0 a1 a2 b0 b1 b2 : BitVec 64) :
    w3 (sub_192x192 a0 a1 a2 b0 b1 b2).1 (sub_192x192 a0 a1 a2 b0 b1 b2).2.1
        (sub_192x192 a0 a1 a2 b0 b1 b2).2.2
      = w3 a0 a1 a2 - w3 b0 b1 b2 := by
  unfold sub_192x192 w3 z192
  bv_decide

/-- `sub_modulus` is subtraction of M modulo 2^128 -/
theorem sub_modulus_bv (lo hi : BitVec 64) :
    w2 (sub_modulus lo hi).1 (sub_modulus lo hi).2 = w2 lo hi - M := by
  unfold sub_modulus w2 M
  bv_decide

/-- the limb-wise comparison at the end of `mul` is `M ≤ z` on the 128-bit value -/
theorem final_cond_bv (z0 z1 : BitVec 64) :
    ((z1 == (BitVec.setWidth 64 ((M >>> 64)))) && (BitVec.ule ((BitVec.setWidth 64 M)) z0))
      = BitVec.ule M (w2 z0 z1) := by
  unfold M w2
  bv_decide

/-- the value returned by `mul`: the two result limbs glued together -/
theorem glue_bv (z0 z1 : BitVec 64) :
    (((BitVec.setWidth 128 z1)) <<< 64) + ((BitVec.setWidth 128 z0)) = w2 z0 z1 := by
  unfold w2
  exact BitVec.add_comm _ _

end Wf.F128
