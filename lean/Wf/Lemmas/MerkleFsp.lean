/- Lemmas for C18: `from_single_proofs (map prove idx) idx = prove_batch idx`. -/
import Wf.Lemmas.MerkleSound
namespace Wf.Merkle

variable {D : Type}

theorem sibs_get (h : Nat → D) : ∀ (k y m : Nat),
    (sibs h k y)[m]? = if m < k then some (h ((y / 2 ^ m) ^^^ 1)) else none
  | 0, y, m => by simp [sibs]
  | k + 1, y, 0 => by simp [sibs]
  | k + 1, y, m + 1 => by
    simp only [sibs, List.getElem?_cons_succ, sibs_get h k (y / 2) m]
    have : y / 2 / 2 ^ m = y / 2 ^ (m + 1) := by
      rw [Nat.div_div_eq_div_mul, Nat.pow_succ, Nat.mul_comm]
    rw [this]
    by_cases hm : m < k
    · simp [hm]
    · simp [hm]

theorem sibs_pos (h : Nat → D) (k y : Nat) (hk : 1 ≤ k) :
    sibs h k y = h (y ^^^ 1) :: sibs h (k - 1) (y / 2) := by
  obtain ⟨k', rfl⟩ : ∃ k', k = k' + 1 := ⟨k - 1, by omega⟩
  rfl

/-- two strictly ascending lists with the same members are equal -/
theorem asc_ext : ∀ (l1 l2 : List Nat), Asc l1 → Asc l2 → (∀ x, x ∈ l1 ↔ x ∈ l2) → l1 = l2
  | [], [], _, _, _ => rfl
  | [], b :: l2, _, _, h => by have := (h b).mpr (by simp); simp at this
  | a :: l1, [], _, _, h => by have := (h a).mp (by simp); simp at this
  | a :: l1, b :: l2, h1, h2, h => by
    have p1 := List.pairwise_cons.mp h1
    have p2 := List.pairwise_cons.mp h2
    have hab : a = b := by
      have ha := (h a).mp (by simp)
      have hb := (h b).mpr (by simp)
      simp only [List.mem_cons] at ha hb
      rcases ha with ha | ha
      · exact ha
      · rcases hb with hb | hb
        · exact hb.symm
        · have := p2.1 a ha; have := p1.1 b hb; omega
    subst hab
    congr 1
    apply asc_ext l1 l2 p1.2 p2.2
    intro x
    constructor
    · intro hx
      have := (h x).mp (by simp [hx])
      simp only [List.mem_cons] at this
      rcases this with rfl | this
      · have := p1.1 x hx; omega
      · exact this
    · intro hx
      have := (h x).mpr (by simp [hx])
      simp only [List.mem_cons] at this
      rcases this with rfl | this
      · have := p2.1 x hx; omega
      · exact this

namespace AMap
variable {α : Type}

theorem insert_append (k : Nat) (v : α) : ∀ (m : AMap α), (∀ k' ∈ keys m, k' < k) →
    insert k v m = m ++ [(k, v)]
  | [], _ => rfl
  | (k', v') :: m, h => by
    have hk : k' < k := h k' (by simp [keys])
    have h1 : ¬ k < k' := by omega
    have h2 : ¬ k = k' := by omega
    simp only [insert, h1, h2, if_false, List.cons_append]
    rw [insert_append k v m (fun x hx => h x (by simp only [keys, List.map_cons, List.mem_cons]; exact Or.inr hx))]

theorem mem_insert (k : Nat) (v : α) : ∀ (m : AMap α) (e : Nat × α),
    e ∈ insert k v m → e = (k, v) ∨ e ∈ m
  | [], e, h => by simp [insert] at h; exact Or.inl h
  | (k', v') :: m, e, h => by
    unfold insert at h
    split at h
    · simp only [List.mem_cons] at h ⊢
      rcases h with h | h | h
      · exact Or.inl h
      · exact Or.inr (Or.inl h)
      · exact Or.inr (Or.inr h)
    · split at h
      · simp only [List.mem_cons] at h ⊢
        rcases h with h | h
        · exact Or.inl h
        · exact Or.inr (Or.inr h)
      · simp only [List.mem_cons] at h ⊢
        rcases h with h | h
        · exact Or.inr (Or.inl h)
        · rcases mem_insert k v m e h with h | h
          · exact Or.inl h
          · exact Or.inr (Or.inr h)
end AMap

section fsp
variable {merge : D → D → D} {t : Tree D} {d : Nat} {h : Nat → D}

/-- the single opening of leaf `i` -/
def opening (h : Nat → D) (d i : Nat) : D × List D := (h (2 ^ d + i), sibs h d (2 ^ d + i))

/-- `ent` (at layer `dd`, position `ent.1`) carries the opening of a leaf below that position -/
def EntOK (h : Nat → D) (d dd : Nat) (ent : Nat × (D × List D)) : Prop :=
  ∃ lf, lf < 2 ^ d ∧ ent.2 = opening h d lf ∧ lf / 2 ^ dd = ent.1

theorem fsZip_spec (h : Nat → D) (d : Nat) : ∀ (idxs : List Nat) (m : AMap (D × List D)),
    fsZip d idxs (idxs.map (opening h d)) m =
      some (idxs.foldl (fun m i => AMap.insert i (opening h d i) m) m)
  | [], m => rfl
  | i :: is, m => by
    simp only [List.map_cons, fsZip, List.foldl_cons]
    have : ¬ (opening h d i).2.length ≠ d := by simp [opening]
    rw [if_neg this]
    exact fsZip_spec h d is _

theorem fold_insert_props (h : Nat → D) (d : Nat) : ∀ (idxs : List Nat) (m : AMap (D × List D)),
    AMap.Sorted m → (∀ e ∈ m, e.2 = opening h d e.1) →
    AMap.Sorted (idxs.foldl (fun m i => AMap.insert i (opening h d i) m) m) ∧
    (∀ e ∈ idxs.foldl (fun m i => AMap.insert i (opening h d i) m) m,
        e.2 = opening h d e.1 ∧ (e.1 ∈ idxs ∨ e.1 ∈ AMap.keys m)) ∧
    (∀ i ∈ idxs, i ∈ AMap.keys (idxs.foldl (fun m i => AMap.insert i (opening h d i) m) m)) ∧
    (∀ k ∈ AMap.keys m, k ∈ AMap.keys (idxs.foldl (fun m i => AMap.insert i (opening h d i) m) m))
  | [], m, hs, hv => ⟨hs, fun e he => ⟨hv e he, Or.inr (List.mem_map.mpr ⟨e, he, rfl⟩)⟩,
      by simp, fun k hk => hk⟩
  | i :: is, m, hs, hv => by
    simp only [List.foldl_cons]
    obtain ⟨a, b, c, e⟩ := fold_insert_props h d is (AMap.insert i (opening h d i) m)
      (AMap.sorted_insert _ _ _ hs)
      (fun e he => by
        rcases AMap.mem_insert _ _ _ e he with rfl | he
        · rfl
        · exact hv e he)
    refine ⟨a, ?_, ?_, ?_⟩
    · intro x hx
      obtain ⟨b1, b2⟩ := b x hx
      refine ⟨b1, ?_⟩
      rcases b2 with b2 | b2
      · exact Or.inl (by simp [b2])
      · rcases (AMap.mem_keys_insert _ _ _ _).mp b2 with b2 | b2
        · exact Or.inl (by simp [b2])
        · exact Or.inr b2
    · intro x hx
      simp only [List.mem_cons] at hx
      rcases hx with rfl | hx
      · exact e _ ((AMap.mem_keys_insert _ _ _ _).mpr (Or.inl rfl))
      · exact c x hx
    · intro k hk
      exact e k ((AMap.mem_keys_insert _ _ _ _).mpr (Or.inr hk))

theorem pow_split (d dd : Nat) (hdd : dd ≤ d) : 2 ^ d = 2 ^ (d - dd) * 2 ^ dd := by
  rw [← Nat.pow_add]; congr 1; omega

/-- heap index of the ancestor `dd` levels above leaf `lf` -/
theorem anc_index (d dd lf : Nat) (hdd : dd ≤ d) : (2 ^ d + lf) / 2 ^ dd = 2 ^ (d - dd) + lf / 2 ^ dd := by
  rw [pow_split d dd hdd, Nat.add_comm, Nat.add_mul_div_right _ _ (Nat.two_pow_pos dd), Nat.add_comm]

/-- both algorithms push the same sibling -/
theorem take_eq (H : Heap merge t d h) (dd : Nat) (h1 : 1 ≤ dd) (h2 : dd < d)
    (acc : List (List D)) (i : Nat) (ent : Nat × (D × List D)) (hok : EntOK h d dd ent)
    (hlt : ent.1 < 2 ^ (d - dd)) :
    fsTake acc i dd ent.2 = pbTake t.nodes acc i (2 ^ (d - dd) + ent.1) := by
  obtain ⟨lf, hlf, hv, hk⟩ := hok
  have hev := pow_even (d - dd) (by omega)
  have hle : 2 ^ (d - dd) * 2 ≤ 2 ^ d := by
    rw [← Nat.pow_succ]; exact Nat.pow_le_pow_right (by omega) (by omega)
  have h2o : 2 ≤ 2 ^ (d - dd) := by
    have : 2 ^ 1 ≤ 2 ^ (d - dd) := Nat.pow_le_pow_right (by omega) (by omega)
    simpa using this
  have hx : 1 ≤ (2 ^ (d - dd) + ent.1) ^^^ 1 ∧ (2 ^ (d - dd) + ent.1) ^^^ 1 < 2 ^ d := by
    rw [xor_one_eq]; split <;> omega
  have hn := H.node _ hx.1 hx.2
  simp only [fsTake, pbTake, hv, opening, sibs_get, h2, if_true, anc_index d dd lf (by omega), hk, hn]

theorem sib_test (off x y : Nat) (hoff : off % 2 = 0) (hxy : x < y) :
    (x % 2 = 0 ∧ y - 1 = x) ↔ off + y = (off + x) ^^^ 1 := by
  rw [xor_one_eq]
  constructor
  · rintro ⟨h1, h2⟩
    have : (off + x) % 2 = 0 := by omega
    simp only [this, if_true]; omega
  · intro h
    split at h <;> omega

/-- one layer: `from_single_proofs` pushes what `prove_batch` pushes and builds the next layer -/
theorem fs_level (H : Heap merge t d h) (dd : Nat) (h1 : 1 ≤ dd) (h2 : dd < d) :
    ∀ (ents : List (Nat × (D × List D))) (i : Nat) (acc : List (List D)) (nm : AMap (D × List D))
      (r : List (List D) × List Nat),
      AMap.Sorted ents → (∀ ent ∈ ents, EntOK h d dd ent ∧ ent.1 < 2 ^ (d - dd)) →
      (∀ k' ∈ AMap.keys nm, ∀ ent ∈ ents, k' < ent.1 / 2) →
      pbLevel t.nodes i (ents.map (fun e => 2 ^ (d - dd) + e.1)) acc = some r →
      ∃ nents, fsLevel dd i ents acc nm = some (r.1, nm ++ nents) ∧
        nents.map (fun e => 2 ^ (d - dd) / 2 + e.1) = r.2 ∧
        (∀ ent ∈ nents, EntOK h d (dd + 1) ent ∧ ent.1 < 2 ^ (d - dd) / 2) ∧
        AMap.Sorted nents ∧ (∀ ent' ∈ nents, ∃ ent ∈ ents, ent'.1 = ent.1 / 2)
  | [], i, acc, nm, r, _, _, _, hpb => by
    simp only [List.map_nil, pbLevel, Option.some.injEq] at hpb
    subst hpb
    exact ⟨[], by simp [fsLevel], rfl, by simp, by simp [AMap.Sorted, AMap.keys], by simp⟩
  | [(x, p)], i, acc, nm, r, _, hok, hnm, hpb => by
    obtain ⟨hoke, hlt⟩ := hok (x, p) (by simp)
    have hev := pow_even (d - dd) (by omega)
    have hte := take_eq H dd h1 h2 acc i (x, p) hoke hlt
    simp only [List.map_cons, List.map_nil, pbLevel] at hpb
    simp only [fsLevel]
    rw [hte]
    split at hpb
    · cases hpb
    · rename_i acc' hacc
      simp only [Option.some.injEq] at hpb
      subst hpb
      simp only at hacc ⊢
      rw [hacc]
      have hins : AMap.insert (x / 2) p nm = nm ++ [(x / 2, p)] :=
        AMap.insert_append _ _ _ (fun k' hk' => hnm k' hk' (x, p) (by simp))
      refine ⟨[(x / 2, p)], by rw [hins], ?_, ?_, by simp [AMap.Sorted, AMap.keys], ?_⟩
      · simp only [List.map_cons, List.map_nil, xor_one_div]
        congr 1; omega
      · intro ent he
        simp only [List.mem_singleton] at he
        subst he
        obtain ⟨lf, hlf, hv, hk⟩ := hoke
        refine ⟨⟨lf, hlf, hv, ?_⟩, by simp only at hlt ⊢; omega⟩
        simp only at hk ⊢
        rw [Nat.pow_succ, ← Nat.div_div_eq_div_mul, hk]
      · intro ent' he
        simp only [List.mem_singleton] at he
        subst he
        exact ⟨(x, p), by simp, rfl⟩
  | (x, p) :: (y, q) :: rest, i, acc, nm, r, hs, hok, hnm, hpb => by
    obtain ⟨hoke, hlt⟩ := hok (x, p) (by simp)
    have hev := pow_even (d - dd) (by omega)
    have hs1 := List.pairwise_cons.mp hs
    have hs2 := List.pairwise_cons.mp hs1.2
    have hxy : x < y := hs1.1 y (by simp [AMap.keys])
    have hrest_gt : ∀ ent ∈ rest, y < ent.1 := fun ent he =>
      hs2.1 ent.1 (List.mem_map.mpr ⟨ent, he, rfl⟩)
    have hst := sib_test (2 ^ (d - dd)) x y hev hxy
    have hnext : EntOK h d (dd + 1) (x / 2, p) ∧ x / 2 < 2 ^ (d - dd) / 2 := by
      obtain ⟨lf, hlf, hv, hk⟩ := hoke
      refine ⟨⟨lf, hlf, hv, ?_⟩, by simp only at hlt; omega⟩
      simp only at hk ⊢
      rw [Nat.pow_succ, ← Nat.div_div_eq_div_mul, hk]
    have hins : AMap.insert (x / 2) p nm = nm ++ [(x / 2, p)] :=
      AMap.insert_append _ _ _ (fun k' hk' => hnm k' hk' (x, p) (by simp))
    simp only [List.map_cons] at hpb
    unfold pbLevel at hpb
    unfold fsLevel
    by_cases hsib : x % 2 = 0 ∧ y - 1 = x
    · -- siblings
      have hsib' := hst.mp hsib
      rw [if_pos hsib]
      rw [if_pos hsib'] at hpb
      split at hpb
      · cases hpb
      · rename_i r' hr'
        simp only [Option.some.injEq] at hpb
        subst hpb
        obtain ⟨nents, e1, e2, e3, e4, e5⟩ := fs_level H dd h1 h2 rest (i + 2) acc
          (AMap.insert (x / 2) p nm) r' hs2.2
          (fun ent he => hok ent (by simp [he]))
          (by
            intro k' hk' ent he
            rw [hins] at hk'
            simp only [AMap.keys, List.map_append, List.map_cons, List.map_nil, List.mem_append,
              List.mem_singleton] at hk'
            rcases hk' with hk' | rfl
            · exact hnm k' (by simpa [AMap.keys] using hk') ent (by simp [he])
            · have := hrest_gt ent he; omega)
          hr'
        refine ⟨(x / 2, p) :: nents, ?_, ?_, ?_, ?_, ?_⟩
        · rw [e1, hins]; simp
        · simp only [List.map_cons, e2, xor_one_div]
          congr 1; omega
        · intro ent he
          simp only [List.mem_cons] at he
          rcases he with rfl | he
          · exact hnext
          · exact e3 ent he
        · refine List.pairwise_cons.mpr ⟨?_, e4⟩
          intro k hk
          obtain ⟨ent', he', rfl⟩ := List.mem_map.mp hk
          obtain ⟨ent, he, hke⟩ := e5 ent' he'
          have := hrest_gt ent he
          rw [hke]; omega
        · intro ent' he'
          simp only [List.mem_cons] at he'
          rcases he' with rfl | he'
          · exact ⟨(x, p), by simp, rfl⟩
          · obtain ⟨ent, he, hke⟩ := e5 ent' he'
            exact ⟨ent, by simp [he], hke⟩
    · have hsib' : ¬ (2 ^ (d - dd) + y = (2 ^ (d - dd) + x) ^^^ 1) := fun hc => hsib (hst.mpr hc)
      rw [if_neg hsib]
      rw [if_neg hsib'] at hpb
      have hte := take_eq H dd h1 h2 acc i (x, p) hoke hlt
      rw [hte]
      split at hpb
      · cases hpb
      · rename_i acc1 hacc
        simp only at hacc ⊢
        rw [hacc]
        split at hpb
        · cases hpb
        · rename_i r' hr'
          simp only [Option.some.injEq] at hpb
          subst hpb
          obtain ⟨nents, e1, e2, e3, e4, e5⟩ := fs_level H dd h1 h2 ((y, q) :: rest) (i + 1) acc1
            (AMap.insert (x / 2) p nm) r' hs1.2
            (fun ent he => hok ent (by simp only [List.mem_cons] at he ⊢; exact Or.inr he))
            (by
              intro k' hk' ent he
              rw [hins] at hk'
              simp only [AMap.keys, List.map_append, List.map_cons, List.map_nil, List.mem_append,
                List.mem_singleton] at hk'
              rcases hk' with hk' | rfl
              · exact hnm k' (by simpa [AMap.keys] using hk') ent
                  (by simp only [List.mem_cons] at he ⊢; exact Or.inr he)
              · have hge : y ≤ ent.1 := by
                  simp only [List.mem_cons] at he
                  rcases he with rfl | he
                  · exact Nat.le_refl _
                  · exact Nat.le_of_lt (hrest_gt ent he)
                omega)
            (by simpa using hr')
          refine ⟨(x / 2, p) :: nents, ?_, ?_, ?_, ?_, ?_⟩
          · simp only []; rw [e1, hins]; simp
          · simp only [List.map_cons, e2, xor_one_div]
            congr 1; omega
          · intro ent he
            simp only [List.mem_cons] at he
            rcases he with rfl | he
            · exact hnext
            · exact e3 ent he
          · refine List.pairwise_cons.mpr ⟨?_, e4⟩
            intro k hk
            obtain ⟨ent', he', rfl⟩ := List.mem_map.mp hk
            obtain ⟨ent, he, hke⟩ := e5 ent' he'
            have hge : y ≤ ent.1 := by
              simp only [List.mem_cons] at he
              rcases he with rfl | he
              · exact Nat.le_refl _
              · exact Nat.le_of_lt (hrest_gt ent he)
            rw [hke]; omega
          · intro ent' he'
            simp only [List.mem_cons] at he'
            rcases he' with rfl | he'
            · exact ⟨(x, p), by simp, rfl⟩
            · obtain ⟨ent, he, hke⟩ := e5 ent' he'
              exact ⟨ent, by simp only [List.mem_cons] at he ⊢; exact Or.inr he, hke⟩

/-- all upper layers -/
theorem fs_levels (H : Heap merge t d h) :
    ∀ (k dd : Nat) (ents : List (Nat × (D × List D))) (acc accF : List (List D)),
      dd + k = d → 1 ≤ dd → AMap.Sorted ents →
      (∀ ent ∈ ents, EntOK h d dd ent ∧ ent.1 < 2 ^ (d - dd)) →
      pbLevels t.nodes k (ents.map (fun e => 2 ^ (d - dd) + e.1)) acc = some accF →
      fsLevels k dd ents acc = some accF
  | 0, dd, ents, acc, accF, _, _, _, _, hpb => by
    simpa [pbLevels, fsLevels] using hpb
  | k + 1, dd, ents, acc, accF, hk, h1, hs, hok, hpb => by
    unfold pbLevels at hpb
    split at hpb
    · cases hpb
    · rename_i r hr
      obtain ⟨nents, e1, e2, e3, e4, _⟩ := fs_level H dd h1 (by omega) ents 0 acc [] r hs hok
        (by simp [AMap.keys]) hr
      have hoff : 2 ^ (d - dd) / 2 = 2 ^ (d - (dd + 1)) := by
        obtain ⟨m, hm⟩ : ∃ m, d - dd = m + 1 := ⟨d - dd - 1, by omega⟩
        have : d - (dd + 1) = m := by omega
        rw [hm, this, Nat.pow_succ]; omega
      simp only [fsLevels, e1, List.nil_append]
      apply fs_levels H k (dd + 1) nents r.1 accF (by omega) (by omega) e4
      · intro ent he
        have := e3 ent he
        rw [hoff] at this; exact this
      · rw [← hoff, e2]; exact hpb

/-- the first loop of `from_single_proofs` over the sorted openings -/
theorem fsFirst_spec (H : Heap merge t d h) (idxs : List Nat) :
    ∀ (ents : List (Nat × (D × List D))) (nm : AMap (D × List D)) (B : Nat),
      AMap.Sorted ents →
      (∀ ent ∈ ents, ent.1 ∈ idxs ∧ ent.2 = opening h d ent.1 ∧ ent.1 < 2 ^ d) →
      (∀ z ∈ idxs, z ∈ AMap.keys ents ∨ z < B) → (∀ ent ∈ ents, B ≤ ent.1 - ent.1 % 2) →
      (∀ k' ∈ AMap.keys nm, ∀ ent ∈ ents, k' < ent.1 / 2) →
      ∃ reps nents, fsFirst ents nm =
          some (reps.map (fun e => miss h (2 ^ d) idxs e ++ miss h (2 ^ d) idxs (e + 1)), nm ++ nents) ∧
        nents.map (·.1) = reps.map (· / 2) ∧
        (∀ ent ∈ nents, EntOK h d 1 ent) ∧
        Asc reps ∧ (∀ e ∈ reps, B ≤ e ∧ e % 2 = 0 ∧ e + 1 < 2 ^ d) ∧
        (∀ e, e ∈ reps ↔ ∃ x ∈ AMap.keys ents, e = x - x % 2)
  | [], nm, B, _, _, _, _, _ =>
    ⟨[], [], by simp [fsFirst], rfl, by simp, List.Pairwise.nil, by simp, by simp [AMap.keys]⟩
  | [(x, p)], nm, B, hs, hok, hcov, hB, hnm => by
    obtain ⟨hxi, hp, hxlt⟩ := hok (x, p) (by simp)
    simp only at hxi hp hxlt
    have hev := pow_even d H.dpos
    have hp2 : p.2 = h ((2 ^ d + x) ^^^ 1) :: sibs h (d - 1) ((2 ^ d + x) / 2) := by
      rw [hp]; exact sibs_pos h d _ H.dpos
    have hBx := hB (x, p) (by simp)
    simp only at hBx
    have hins : AMap.insert (x / 2) p nm = nm ++ [(x / 2, p)] :=
      AMap.insert_append _ _ _ (fun k' hk' => hnm k' hk' (x, p) (by simp))
    -- the other leaf of the pair is not opened
    have hother : (x ^^^ 1) ∉ idxs := by
      intro hm
      rcases hcov _ hm with hk | hk
      · simp only [AMap.keys, List.map_cons, List.map_nil, List.mem_singleton] at hk
        rw [xor_one_eq] at hk; split at hk <;> omega
      · rw [xor_one_eq] at hk; split at hk <;> omega
    have hmiss : miss h (2 ^ d) idxs (x - x % 2) ++ miss h (2 ^ d) idxs (x - x % 2 + 1) =
        [h ((2 ^ d + x) ^^^ 1)] := by
      rw [add_xor_one _ _ hev]
      by_cases hpar : x % 2 = 0
      · have e1 : x - x % 2 = x := by omega
        have e2 : x ^^^ 1 = x + 1 := xor_one_even x hpar
        rw [e2] at hother ⊢
        simp [miss, e1, hxi, hother]
      · have e1 : x - x % 2 + 1 = x := by omega
        have e2 : x ^^^ 1 = x - x % 2 := by rw [xor_one_odd x (by omega)]; omega
        rw [e2] at hother ⊢
        simp [miss, e1, hxi, hother]
    refine ⟨[x - x % 2], [(x / 2, p)], ?_, ?_, ?_, by simp, ?_, ?_⟩
    · simp only [fsFirst, hp2, hins, List.map_cons, List.map_nil, hmiss]
    · simp only [List.map_cons, List.map_nil]; congr 1; omega
    · intro ent he
      simp only [List.mem_singleton] at he
      subst he
      exact ⟨x, hxlt, hp, by simp⟩
    · intro e he
      simp only [List.mem_singleton] at he
      subst he
      exact ⟨hBx, by omega, by omega⟩
    · intro e
      simp [AMap.keys]
  | (x, p) :: (y, q) :: rest, nm, B, hs, hok, hcov, hB, hnm => by
    obtain ⟨hxi, hp, hxlt⟩ := hok (x, p) (by simp)
    obtain ⟨hyi, hq, hylt⟩ := hok (y, q) (by simp)
    simp only at hxi hp hxlt hyi hq hylt
    have hev := pow_even d H.dpos
    have hp2 : p.2 = h ((2 ^ d + x) ^^^ 1) :: sibs h (d - 1) ((2 ^ d + x) / 2) := by
      rw [hp]; exact sibs_pos h d _ H.dpos
    have hBx := hB (x, p) (by simp)
    simp only at hBx
    have hs1 := List.pairwise_cons.mp hs
    have hs2 := List.pairwise_cons.mp hs1.2
    have hxy : x < y := hs1.1 y (by simp [AMap.keys])
    have hrest_gt : ∀ ent ∈ rest, y < ent.1 := fun ent he =>
      hs2.1 ent.1 (List.mem_map.mpr ⟨ent, he, rfl⟩)
    unfold fsFirst
    simp only [hp2]
    by_cases hsib : x % 2 = 0 ∧ y - 1 = x
    · -- both leaves of the pair are opened
      rw [if_pos hsib]
      have hy1 : y = x + 1 := by omega
      have hins : AMap.insert (y / 2) q nm = nm ++ [(y / 2, q)] :=
        AMap.insert_append _ _ _ (fun k' hk' => hnm k' hk' (y, q) (by simp))
      obtain ⟨reps, nents, e1, e2, e3, e4, e5, e6⟩ := fsFirst_spec H idxs rest
        (AMap.insert (y / 2) q nm) (x + 2) hs2.2
        (fun ent he => hok ent (by simp [he]))
        (by
          intro z hz
          rcases hcov z hz with hk | hk
          · simp only [AMap.keys, List.map_cons, List.mem_cons] at hk
            rcases hk with rfl | rfl | hk
            · right; omega
            · right; omega
            · left; exact hk
          · right; omega)
        (by intro ent he; have := hrest_gt ent he; omega)
        (by
          intro k' hk' ent he
          rw [hins] at hk'
          simp only [AMap.keys, List.map_append, List.map_cons, List.map_nil, List.mem_append,
            List.mem_singleton] at hk'
          rcases hk' with hk' | rfl
          · exact hnm k' (by simpa [AMap.keys] using hk') ent (by simp [he])
          · have := hrest_gt ent he; omega)
      have hmiss : miss h (2 ^ d) idxs x ++ miss h (2 ^ d) idxs (x + 1) = [] := by
        rw [hy1] at hyi; simp [miss, hxi, hyi]
      refine ⟨x :: reps, (y / 2, q) :: nents, ?_, ?_, ?_, ?_, ?_, ?_⟩
      · rw [e1, hins]; simp [hmiss]
      · simp only [List.map_cons, e2]; congr 1; omega
      · intro ent he
        simp only [List.mem_cons] at he
        rcases he with rfl | he
        · exact ⟨y, hylt, hq, by simp⟩
        · exact e3 ent he
      · exact List.pairwise_cons.mpr ⟨fun e he => by have := (e5 e he).1; omega, e4⟩
      · intro e he
        simp only [List.mem_cons] at he
        rcases he with rfl | he
        · exact ⟨by omega, hsib.1, by omega⟩
        · have := e5 e he; exact ⟨by omega, this.2.1, this.2.2⟩
      · intro e
        simp only [List.mem_cons, e6, AMap.keys, List.map_cons, exists_eq_or_imp]
        constructor
        · rintro (rfl | hr)
          · left; omega
          · right; right; exact hr
        · rintro (hr | hr | hr)
          · left; omega
          · left; omega
          · right; exact hr
    · -- only `x` of its pair is opened
      rw [if_neg hsib]
      have hins : AMap.insert (x / 2) p nm = nm ++ [(x / 2, p)] :=
        AMap.insert_append _ _ _ (fun k' hk' => hnm k' hk' (x, p) (by simp))
      have hge : ∀ ent ∈ (y, q) :: rest, y ≤ ent.1 := by
        intro ent he
        simp only [List.mem_cons] at he
        rcases he with rfl | he
        · exact Nat.le_refl _
        · exact Nat.le_of_lt (hrest_gt ent he)
      have hother : (x ^^^ 1) ∉ idxs := by
        intro hm
        rcases hcov _ hm with hk | hk
        · simp only [AMap.keys, List.map_cons, List.mem_cons] at hk
          rcases hk with hk | hk | hk
          · rw [xor_one_eq] at hk; split at hk <;> omega
          · rw [xor_one_eq] at hk; split at hk <;> omega
          · obtain ⟨ent, he, hke⟩ := List.mem_map.mp hk
            have := hrest_gt ent he
            rw [xor_one_eq] at hke; split at hke <;> omega
        · rw [xor_one_eq] at hk; split at hk <;> omega
      have hmiss : miss h (2 ^ d) idxs (x - x % 2) ++
          miss h (2 ^ d) idxs (x - x % 2 + 1) = [h ((2 ^ d + x) ^^^ 1)] := by
        rw [add_xor_one _ _ hev]
        by_cases hpar : x % 2 = 0
        · have e1 : x - x % 2 = x := by omega
          have e2 : x ^^^ 1 = x + 1 := xor_one_even x hpar
          rw [e2] at hother ⊢
          simp [miss, e1, hxi, hother]
        · have e1 : x - x % 2 + 1 = x := by omega
          have e2 : x ^^^ 1 = x - x % 2 := by rw [xor_one_odd x (by omega)]; omega
          rw [e2] at hother ⊢
          simp [miss, e1, hxi, hother]
      obtain ⟨reps, nents, e1, e2, e3, e4, e5, e6⟩ := fsFirst_spec H idxs ((y, q) :: rest)
        (AMap.insert (x / 2) p nm) (x - x % 2 + 2) hs1.2
        (fun ent he => hok ent (by simp only [List.mem_cons] at he ⊢; exact Or.inr he))
        (by
          intro z hz
          rcases hcov z hz with hk | hk
          · simp only [AMap.keys, List.map_cons, List.mem_cons] at hk
            rcases hk with rfl | hk
            · right; omega
            · left; simpa [AMap.keys] using hk
          · right; omega)
        (by intro ent he; have := hge ent he; omega)
        (by
          intro k' hk' ent he
          rw [hins] at hk'
          simp only [AMap.keys, List.map_append, List.map_cons, List.map_nil, List.mem_append,
            List.mem_singleton] at hk'
          rcases hk' with hk' | rfl
          · exact hnm k' (by simpa [AMap.keys] using hk') ent
              (by simp only [List.mem_cons] at he ⊢; exact Or.inr he)
          · have := hge ent he; omega)
      refine ⟨(x - x % 2) :: reps, (x / 2, p) :: nents, ?_, ?_, ?_, ?_, ?_, ?_⟩
      · rw [e1, hins]; simp [hmiss]
      · simp only [List.map_cons, e2]; congr 1; omega
      · intro ent he
        simp only [List.mem_cons] at he
        rcases he with rfl | he
        · exact ⟨x, hxlt, hp, by simp⟩
        · exact e3 ent he
      · exact List.pairwise_cons.mpr ⟨fun e he => by have := (e5 e he).1; omega, e4⟩
      · intro e he
        simp only [List.mem_cons] at he
        rcases he with rfl | he
        · exact ⟨hBx, by omega, by omega⟩
        · have := e5 e he; exact ⟨by omega, this.2.1, this.2.2⟩
      · intro e
        simp only [List.mem_cons, e6, AMap.keys, List.map_cons, exists_eq_or_imp]

/-- `from_single_proofs (map prove idx) idx` is the proof `prove_batch idx` returns -/
theorem fromSingleProofs_eq [Inhabited D] (H : Heap merge t d h) (hd : d < 64) (idxs : List Nat)
    (hne : idxs ≠ []) (hnd : idxs.Nodup) (hr : ∀ i ∈ idxs, i < 2 ^ d) :
    ∃ lv p, t.proveBatch idxs = .ok (lv, p) ∧
      fromSingleProofs (idxs.map (opening h d)) idxs = .ok p := by
  obtain ⟨p, hpb, hdep, _, _, _, hlev⟩ := proveBatch_getRoot H hd idxs hne hnd hr
  refine ⟨_, p, hpb, ?_⟩
  obtain ⟨i0, rest0, rfl⟩ : ∃ i0 rest0, idxs = i0 :: rest0 := by
    cases idxs with
    | nil => exact absurd rfl hne
    | cons a b => exact ⟨a, b, rfl⟩
  -- the sorted map of openings
  have hz := fsZip_spec h d (i0 :: rest0) []
  obtain ⟨hsorted, hent, hkeys, _⟩ := fold_insert_props h d (i0 :: rest0) []
    (by simp [AMap.Sorted, AMap.keys]) (by simp)
  generalize hpm : (i0 :: rest0).foldl (fun m i => AMap.insert i (opening h d i) m) [] = pm at *
  obtain ⟨reps, nents, e1, e2, e3, e4, e5, e6⟩ := fsFirst_spec H (i0 :: rest0) pm [] 0 hsorted
    (fun ent he => by
      obtain ⟨a, b⟩ := hent ent he
      have hm : ent.1 ∈ i0 :: rest0 := by
        rcases b with b | b
        · exact b
        · simp [AMap.keys] at b
      exact ⟨hm, a, hr _ hm⟩)
    (fun z hz => Or.inl (hkeys z hz)) (fun _ _ => Nat.zero_le _) (by simp [AMap.keys])
  have hreps : reps = normalize (i0 :: rest0) := by
    apply asc_ext _ _ e4 (sorted_normalize _)
    intro e
    rw [e6, mem_normalize]
    constructor
    · rintro ⟨x, hx, rfl⟩
      obtain ⟨ent, he, rfl⟩ := List.mem_map.mp hx
      obtain ⟨_, b⟩ := hent ent he
      rcases b with b | b
      · exact ⟨ent.1, b, rfl⟩
      · simp [AMap.keys] at b
    · rintro ⟨i, hi, rfl⟩
      exact ⟨i, hkeys i hi, rfl⟩
  subst hreps
  -- upper layers
  have hd1 := H.dpos
  have hsn : AMap.Sorted nents := by
    show List.Pairwise _ (List.map Prod.fst nents)
    rw [show List.map Prod.fst nents = List.map (·.1) nents from rfl, e2]
    apply List.pairwise_map.mpr
    exact List.Pairwise.imp_of_mem (fun {a b} ha hb hab => by
      have := (e5 a ha).2.1; have := (e5 b hb).2.1; show a / 2 < b / 2; omega) e4
  have hhalf : 2 ^ (d - 1) * 2 = 2 ^ d := by
    obtain ⟨k, rfl⟩ : ∃ k, d = k + 1 := ⟨d - 1, by omega⟩
    simp [Nat.pow_succ]
  have hnx : nents.map (fun e => 2 ^ (d - 1) + e.1) =
      (normalize (i0 :: rest0)).map (fun e => (e + 2 ^ d) / 2) := by
    have : nents.map (fun e => 2 ^ (d - 1) + e.1) = (nents.map (·.1)).map (fun k => 2 ^ (d - 1) + k) := by
      rw [List.map_map]; rfl
    rw [this, e2, List.map_map]
    apply List.map_congr_left
    intro e he
    have := (e5 e he).2.1
    simp only [Function.comp]; omega
  have hlt : ∀ ent ∈ nents, EntOK h d 1 ent ∧ ent.1 < 2 ^ (d - 1) := by
    intro ent he
    refine ⟨e3 ent he, ?_⟩
    have hm : ent.1 ∈ nents.map (·.1) := List.mem_map.mpr ⟨ent, he, rfl⟩
    rw [e2] at hm
    obtain ⟨e, hem, hee⟩ := List.mem_map.mp hm
    have := (e5 e hem).2.2
    omega
  have hfl := fs_levels H (d - 1) 1 nents _ p.nodes (by omega) (Nat.le_refl _) hsn hlt
    (by rw [hnx]; exact hlev)
  have hlen0 : (opening h d i0).2.length = d := by simp [opening]
  have hl2 : ¬ (List.map (opening h d) (i0 :: rest0)).length ≠ (i0 :: rest0).length := by simp
  simp only [List.nil_append] at e1
  have hz' : fsZip d (i0 :: rest0) (opening h d i0 :: List.map (opening h d) rest0) [] = some pm := by
    simpa using hz
  simp only [fromSingleProofs, List.map_cons, hlen0] at hl2 ⊢
  rw [if_neg hl2, hz']
  simp only [e1, hfl]
  congr 1
  have : d % 256 = d := by omega
  cases p
  simp_all

end fsp
end Wf.Merkle
