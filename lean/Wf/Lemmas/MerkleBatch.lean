/- Lemmas for C18/C19 (Merkle batch proofs): no panics on arbitrary input; `get_root ∘ prove_batch`. -/
import Wf.Lemmas.Merkle
namespace Wf.Merkle

variable {D : Type}

/-! ## The batch entry points never panic (arbitrary proof, indexes, leaves) -/

theorem grPair_noabort (imap : AMap Nat) (lv : List D) (pn : List (List D)) (i e : Nat)
    (h : i < pn.length) : grPair imap lv pn i e ≠ .abort := by
  obtain ⟨x, hx⟩ : ∃ x, pn[i]? = some x := ⟨pn[i], by simp [h]⟩
  unfold grPair
  repeat' split
  all_goals simp_all

theorem grFirst_shape (merge : D → D → D) (imap : AMap Nat) (lv : List D) (pn : List (List D))
    (off : Nat) : ∀ (rest : List Nat) (i : Nat) (v : AMap D) (log : List (Nat × D)),
      i + rest.length ≤ pn.length →
      grFirst merge imap lv pn off i rest v log ≠ .abort ∧
      ∀ r, grFirst merge imap lv pn off i rest v log = .ok r →
        r.1.ptrs.length = rest.length ∧ r.2.length = rest.length
  | [], i, v, log, _ => by simp [grFirst]
  | e :: rest, i, v, log, hlen => by
    simp only [List.length_cons] at hlen
    have hp := grPair_noabort imap lv pn i e (by omega)
    unfold grFirst
    split
    · simp
    · rename_i hh; exact absurd hh hp
    · rename_i b hb
      have ih := grFirst_shape merge imap lv pn off rest (i + 1)
        (AMap.insert ((off + e) / 2) (merge b.1 b.2.1) v)
        (((off + e) / 2, merge b.1 b.2.1) :: ((off + e) ^^^ 1, b.2.1) :: (off + e, b.1) :: log)
        (by omega)
      split
      · simp
      · rename_i hh; exact absurd hh ih.1
      · rename_i r hr
        refine ⟨by simp, ?_⟩
        intro r' hr'
        simp only [Res.ok.injEq] at hr'
        subst hr'
        have := ih.2 r hr
        simp [this.1, this.2]

theorem grSibling_shape (pn : List (List D)) (ptrs : List Nat) (i : Nat)
    (h1 : i < ptrs.length) (h2 : i < pn.length) :
    grSibling pn ptrs i ≠ .abort ∧ ∀ r, grSibling pn ptrs i = .ok r → r.2.length = ptrs.length := by
  obtain ⟨x, hx⟩ : ∃ x, pn[i]? = some x := ⟨pn[i], by simp [h2]⟩
  obtain ⟨p, hp⟩ : ∃ p, ptrs[i]? = some p := ⟨ptrs[i], by simp [h1]⟩
  simp only [grSibling, hx, hp]
  split
  · simp
  · refine ⟨by simp, ?_⟩
    intro r hr
    simp only [Res.ok.injEq] at hr
    subst hr; simp

theorem grNode_shape (merge : D → D → D) (v : AMap D) (log : List (Nat × D)) (x : Nat) (s : D) :
    grNode merge v log x s ≠ .abort := by
  unfold grNode; split <;> simp

theorem grLevel_shape (merge : D → D → D) (pn : List (List D)) :
    ∀ (idxs : List Nat) (i : Nat) (st : GSt D),
      i + idxs.length ≤ st.ptrs.length → st.ptrs.length ≤ pn.length →
      grLevel merge pn i idxs st ≠ .abort ∧
      ∀ r, grLevel merge pn i idxs st = .ok r →
        r.1.ptrs.length = st.ptrs.length ∧ r.2.length ≤ idxs.length
  | [], i, st, _, _ => by simp [grLevel]
  | [x], i, st, h1, h2 => by
    simp only [List.length_cons, List.length_nil] at h1
    have hs := grSibling_shape pn st.ptrs i (by omega) (by omega)
    unfold grLevel
    split
    · simp
    · rename_i hh; exact absurd hh hs.1
    · rename_i sp hsp
      have hn := grNode_shape merge st.v st.log x sp.1
      split
      · simp
      · rename_i hh; exact absurd hh hn
      · refine ⟨by simp, ?_⟩
        intro r hr
        simp only [Res.ok.injEq] at hr
        subst hr
        simp [hs.2 sp hsp]
  | x :: y :: rest, i, st, h1, h2 => by
    simp only [List.length_cons] at h1
    unfold grLevel
    split
    · -- siblings
      split
      · simp
      · rename_i s hs
        have hn := grNode_shape merge st.v st.log x s
        split
        · simp
        · rename_i hh; exact absurd hh hn
        · rename_i vl hvl
          have ih := grLevel_shape merge pn rest (i + 2) ⟨vl.1, st.ptrs, vl.2⟩
            (by simp only []; omega) (by simpa using h2)
          split
          · simp
          · rename_i hh; exact absurd hh ih.1
          · rename_i r hr
            refine ⟨by simp, ?_⟩
            intro r' hr'
            simp only [Res.ok.injEq] at hr'
            subst hr'
            have := ih.2 r hr
            simp only [List.length_cons]
            exact ⟨this.1, by omega⟩
    · have hs := grSibling_shape pn st.ptrs i (by omega) (by omega)
      split
      · simp
      · rename_i hh; exact absurd hh hs.1
      · rename_i sp hsp
        have hn := grNode_shape merge st.v st.log x sp.1
        have hl := hs.2 sp hsp
        split
        · simp
        · rename_i hh; exact absurd hh hn
        · rename_i vl hvl
          have ih := grLevel_shape merge pn (y :: rest) (i + 1) ⟨vl.1, sp.2, vl.2⟩
            (by simp only [List.length_cons]; omega) (by simp only []; omega)
          split
          · simp
          · rename_i hh; exact absurd hh ih.1
          · rename_i r hr
            refine ⟨by simp, ?_⟩
            intro r' hr'
            simp only [Res.ok.injEq] at hr'
            subst hr'
            have := ih.2 r hr
            simp only [List.length_cons] at this ⊢
            exact ⟨by omega, by omega⟩

theorem grLevels_noabort (merge : D → D → D) (pn : List (List D)) :
    ∀ (k : Nat) (idxs : List Nat) (st : GSt D),
      idxs.length ≤ st.ptrs.length → st.ptrs.length ≤ pn.length →
      grLevels merge pn k idxs st ≠ .abort
  | 0, _, _, _, _ => by simp [grLevels]
  | k + 1, idxs, st, h1, h2 => by
    have hl := grLevel_shape merge pn idxs 0 st (by omega) h2
    unfold grLevels
    split
    · simp
    · rename_i hh; exact absurd hh hl.1
    · rename_i r hr
      have := hl.2 r hr
      exact grLevels_noabort merge pn k r.2 r.1 (by omega) (by omega)

theorem mapIndexes_noabort (idxs : List Nat) (d : Nat) : mapIndexes idxs d ≠ .abort := by
  unfold mapIndexes; split
  · simp
  · split <;> simp

theorem grRun_noabort (merge : D → D → D) (p : BatchProof D) (idxs : List Nat) (lv : List D) :
    grRun merge p idxs lv ≠ .abort := by
  unfold grRun
  split
  · simp
  · rename_i hh; exact absurd hh (mapIndexes_noabort _ _)
  · rename_i imap _
    split
    · simp
    · rename_i hlen
      have hlen' : (normalize idxs).length = p.nodes.length := by
        simpa using hlen
      have hf := grFirst_shape merge imap lv p.nodes (pow2usize p.depth) (normalize idxs) 0 [] []
        (by omega)
      split
      · simp
      · rename_i hh; exact absurd hh hf.1
      · rename_i r hr
        have := hf.2 r hr
        exact grLevels_noabort merge p.nodes _ r.2 r.1 (by omega) (by omega)

theorem getRoot_noabort (merge : D → D → D) (p : BatchProof D) (idxs : List Nat) (lv : List D) :
    p.getRoot merge idxs lv ≠ .abort := by
  unfold BatchProof.getRoot
  split
  · simp
  · split
    · simp
    · split
      · simp
      · rename_i hh; exact absurd hh (grRun_noabort merge p idxs lv)
      · split
        · simp
        · split <;> simp

/-! ### the consumption check of `get_root` (fix f1ad895) -/

/-- the check passes iff every pointer equals the length of the vector at the same position -/
theorem unusedNodes_false_iff : ∀ (ptrs : List Nat) (pn : List (List D)),
    unusedNodes ptrs pn = false ↔
      ∀ (i q : Nat) (ns : List D), ptrs[i]? = some q → pn[i]? = some ns → q = ns.length
  | [], pn => by simp [unusedNodes]
  | q :: ptrs, [] => by simp [unusedNodes]
  | q :: ptrs, ns :: pn => by
    have ih := unusedNodes_false_iff ptrs pn
    simp only [unusedNodes, List.zip_cons_cons, List.any_cons, Bool.or_eq_false_iff] at ih ⊢
    rw [ih]
    constructor
    · rintro ⟨h0, hr⟩ i q' ms hq hm
      cases i with
      | zero =>
        simp only [List.getElem?_cons_zero, Option.some.injEq] at hq hm
        subst hq hm; simpa using h0
      | succ i =>
        simp only [List.getElem?_cons_succ] at hq hm
        exact hr i q' ms hq hm
    · intro hall
      refine ⟨by simpa using hall 0 q ns rfl rfl, fun i q' ms hq hm => hall (i + 1) q' ms ?_ ?_⟩
      · simpa using hq
      · simpa using hm

/-- pointers that are exactly the vector lengths pass the check -/
theorem unusedNodes_map_length (pn : List (List D)) : unusedNodes (pn.map List.length) pn = false := by
  rw [unusedNodes_false_iff]
  intro i q ns hq hn
  rw [List.getElem?_map, hn] at hq
  exact (Option.some.inj hq).symm

/-- with as many pointers as vectors, the check passes iff the pointers ARE the vector lengths -/
theorem unusedNodes_false_eq (ptrs : List Nat) (pn : List (List D)) (hl : ptrs.length = pn.length)
    (h : unusedNodes ptrs pn = false) : ptrs = pn.map List.length := by
  rw [unusedNodes_false_iff] at h
  apply List.ext_getElem?
  intro i
  rw [List.getElem?_map]
  by_cases hi : i < ptrs.length
  · obtain ⟨q, hq⟩ : ∃ q, ptrs[i]? = some q := ⟨ptrs[i], by simp [hi]⟩
    obtain ⟨ns, hn⟩ : ∃ ns, pn[i]? = some ns := ⟨pn[i], by simp [← hl, hi]⟩
    rw [hq, hn, h i q ns hq hn]; rfl
  · rw [List.getElem?_eq_none (by omega), List.getElem?_eq_none (by omega)]; rfl

theorem grLevels_ptrs_length (merge : D → D → D) (pn : List (List D)) :
    ∀ (k : Nat) (idxs : List Nat) (st st' : GSt D),
      idxs.length ≤ st.ptrs.length → st.ptrs.length ≤ pn.length →
      grLevels merge pn k idxs st = .ok st' → st'.ptrs.length = st.ptrs.length
  | 0, _, st, st', _, _, h => by
    simp only [grLevels, Res.ok.injEq] at h; subst h; rfl
  | k + 1, idxs, st, st', h1, h2, h => by
    have hl := grLevel_shape merge pn idxs 0 st (by omega) h2
    unfold grLevels at h
    split at h
    · cases h
    · cases h
    · rename_i r hr
      have := hl.2 r hr
      rw [grLevels_ptrs_length merge pn k r.2 r.1 st' (by omega) (by omega) h]
      exact this.1

/-- a successful common run leaves one pointer per node vector -/
theorem grRun_ptrs_length (merge : D → D → D) (p : BatchProof D) (idxs : List Nat) (lv : List D)
    (st : GSt D) (h : grRun merge p idxs lv = .ok st) : st.ptrs.length = p.nodes.length := by
  unfold grRun at h
  split at h
  · cases h
  · cases h
  · rename_i imap _
    split at h
    · cases h
    · rename_i hlen
      have hlen' : (normalize idxs).length = p.nodes.length := by simpa using hlen
      have hf := grFirst_shape merge imap lv p.nodes (pow2usize p.depth) (normalize idxs) 0 [] []
        (by omega)
      split at h
      · cases h
      · cases h
      · rename_i r hr
        have := hf.2 r hr
        rw [grLevels_ptrs_length merge p.nodes _ r.2 r.1 st (by omega) (by omega) h]
        omega

theorem verifyBatch_noabort [DecidableEq D] (merge : D → D → D) (root : D) (p : BatchProof D)
    (idxs : List Nat) (lv : List D) : verifyBatch merge root idxs lv p ≠ .abort := by
  unfold verifyBatch
  split
  · simp
  · rename_i hh; exact absurd hh (getRoot_noabort merge p idxs lv)
  · split <;> simp

theorem getProof_noabort (pt : AMap D) (i d : Nat) : getProof pt i d ≠ .abort := by
  unfold getProof; split <;> simp

theorem mapRes_noabort {α β} (f : α → Res β) (hf : ∀ a, f a ≠ .abort) :
    ∀ l : List α, mapRes f l ≠ .abort
  | [] => by simp [mapRes]
  | a :: as => by
    unfold mapRes
    split
    · simp
    · rename_i hh; exact absurd hh (hf a)
    · split
      · simp
      · rename_i hh; exact absurd hh (mapRes_noabort f hf as)
      · simp

theorem intoOpenings_noabort (merge : D → D → D) (p : BatchProof D) (idxs : List Nat)
    (lv : List D) : p.intoOpenings merge lv idxs ≠ .abort := by
  unfold BatchProof.intoOpenings
  split
  · simp
  · split
    · simp
    · split
      · simp
      · rename_i hh; exact absurd hh (grRun_noabort merge p idxs lv)
      · exact mapRes_noabort _ (fun a => getProof_noabort _ _ _) _

/-! ## BTreeMap / BTreeSet model -/

namespace AMap
variable {α : Type}

theorem get_insert (k : Nat) (v : α) : ∀ (m : AMap α) (j : Nat),
    get (insert k v m) j = if j = k then some v else get m j
  | [], j => by simp [insert, get]
  | (k', v') :: m, j => by
    unfold insert
    split
    · simp [get]
    · split
      · rename_i h; subst h
        by_cases hj : j = k <;> simp [get, hj]
      · rename_i h1 h2
        by_cases hj : j = k'
        · subst hj
          have : ¬ j = k := fun e => h2 e.symm
          simp [get, this]
        · simp [get, hj, get_insert k v m j]

def keys (m : AMap α) : List Nat := m.map Prod.fst
def Sorted (m : AMap α) : Prop := (keys m).Pairwise (· < ·)

theorem mem_keys_insert (k : Nat) (v : α) : ∀ (m : AMap α) (x : Nat),
    x ∈ keys (insert k v m) ↔ x = k ∨ x ∈ keys m
  | [], x => by simp [insert, keys]
  | (k', v') :: m, x => by
    unfold insert
    split
    · simp [keys]
    · split
      · rename_i h; subst h; simp [keys]
      · have ih := mem_keys_insert k v m x
        simp only [keys, List.map_cons, List.mem_cons] at ih ⊢
        rw [ih]
        constructor
        · rintro (h | h | h) <;> simp [h]
        · rintro (h | h | h) <;> simp [h]

theorem sorted_insert (k : Nat) (v : α) : ∀ (m : AMap α), Sorted m → Sorted (insert k v m)
  | [], _ => by simp [insert, Sorted, keys]
  | (k', v') :: m, hs => by
    have hs' := hs
    simp only [Sorted, keys, List.map_cons, List.pairwise_cons] at hs
    unfold insert
    split
    · rename_i hlt
      simp only [Sorted, keys, List.map_cons, List.pairwise_cons, List.mem_cons]
      refine ⟨?_, hs.1, hs.2⟩
      rintro a (rfl | ha)
      · exact hlt
      · exact Nat.lt_trans hlt (hs.1 a ha)
    · split
      · rename_i h; subst h
        simp only [Sorted, keys, List.map_cons, List.pairwise_cons]
        exact hs
      · rename_i h1 h2
        have ih := sorted_insert k v m hs.2
        simp only [Sorted, keys, List.map_cons, List.pairwise_cons]
        refine ⟨?_, ih⟩
        intro a ha
        have := (mem_keys_insert k v m a).mp ha
        rcases this with rfl | h
        · omega
        · exact hs.1 a h

theorem get_isSome_iff : ∀ (m : AMap α) (k : Nat), (get m k).isSome ↔ k ∈ keys m
  | [], k => by simp [get, keys]
  | (k', v') :: m, k => by
    have ih := get_isSome_iff m k
    by_cases h : k = k'
    · simp [get, keys, h]
    · simp only [get, h, if_false, keys, List.map_cons, List.mem_cons, false_or] at ih ⊢
      exact ih

theorem length_insert_new (k : Nat) (v : α) : ∀ (m : AMap α), k ∉ keys m →
    (insert k v m).length = m.length + 1
  | [], _ => by simp [insert]
  | (k', v') :: m, h => by
    simp only [keys, List.map_cons, List.mem_cons, not_or] at h
    unfold insert
    split
    · simp
    · split
      · rename_i e; exact absurd e h.1
      · simp [length_insert_new k v m h.2]

theorem length_insert_old (k : Nat) (v : α) : ∀ (m : AMap α), Sorted m → k ∈ keys m →
    (insert k v m).length = m.length
  | [], _, h => by simp [keys] at h
  | (k', v') :: m, hs, h => by
    simp only [Sorted, keys, List.map_cons, List.pairwise_cons] at hs
    simp only [keys, List.map_cons, List.mem_cons] at h
    unfold insert
    split
    · rename_i hlt
      rcases h with rfl | h
      · omega
      · have := hs.1 k h; omega
    · split
      · simp
      · rename_i h1 h2
        rcases h with rfl | h
        · exact absurd rfl h2
        · simp [length_insert_old k v m hs.2 h]

end AMap

theorem mem_sinsert (k : Nat) : ∀ (s : List Nat) (x : Nat), x ∈ sinsert k s ↔ x = k ∨ x ∈ s
  | [], x => by simp [sinsert]
  | k' :: s, x => by
    unfold sinsert
    split
    · simp
    · split
      · rename_i h; subst h; simp
      · have ih := mem_sinsert k s x
        simp only [List.mem_cons]
        rw [ih]
        constructor
        · rintro (h | h | h) <;> simp [h]
        · rintro (h | h | h) <;> simp [h]

theorem length_sinsert_le (k : Nat) : ∀ (s : List Nat), (sinsert k s).length ≤ s.length + 1
  | [] => by simp [sinsert]
  | k' :: s => by
    unfold sinsert
    split
    · simp
    · split
      · simp
      · have := length_sinsert_le k s
        simp only [List.length_cons]; omega

theorem mem_norm_fold : ∀ (idxs s : List Nat) (e : Nat),
    e ∈ idxs.foldl (fun s i => sinsert (i - i % 2) s) s ↔ e ∈ s ∨ ∃ i ∈ idxs, e = i - i % 2
  | [], s, e => by simp
  | i :: idxs, s, e => by
    simp only [List.foldl_cons]
    rw [mem_norm_fold idxs _ e, mem_sinsert]
    constructor
    · rintro ((h | h) | ⟨j, hj, he⟩)
      · exact Or.inr ⟨i, by simp, h⟩
      · exact Or.inl h
      · exact Or.inr ⟨j, by simp [hj], he⟩
    · rintro (h | ⟨j, hj, he⟩)
      · exact Or.inl (Or.inr h)
      · simp only [List.mem_cons] at hj
        rcases hj with rfl | hj
        · exact Or.inl (Or.inl he)
        · exact Or.inr ⟨j, hj, he⟩

theorem mem_normalize (idxs : List Nat) (e : Nat) :
    e ∈ normalize idxs ↔ ∃ i ∈ idxs, e = i - i % 2 := by
  unfold normalize; rw [mem_norm_fold]; simp

/-! ## `map_indexes` -/

structure MInv (m : AMap Nat) (pre : List Nat) : Prop where
  sorted : AMap.Sorted m
  has : ∀ x, x ∈ pre → ∃ j, AMap.get m x = some j
  pos : ∀ x j, AMap.get m x = some j → pre[j]? = some x
  le : m.length ≤ pre.length
  eq : m.length = pre.length ↔ pre.Nodup

theorem MInv.step {m : AMap Nat} {pre : List Nat} (I : MInv m pre) (index : Nat) :
    MInv (AMap.insert index pre.length m) (pre ++ [index]) := by
  have hkey : index ∈ AMap.keys m ↔ index ∈ pre := by
    rw [← AMap.get_isSome_iff]
    constructor
    · intro h
      obtain ⟨j, hj⟩ := Option.isSome_iff_exists.mp h
      exact List.mem_of_getElem? (I.pos _ _ hj)
    · intro h
      obtain ⟨j, hj⟩ := I.has _ h
      simp [hj]
  refine ⟨AMap.sorted_insert _ _ _ I.sorted, ?_, ?_, ?_, ?_⟩
  · intro x hx
    rw [AMap.get_insert]
    by_cases hxi : x = index
    · simp [hxi]
    · simp only [hxi, if_false]
      simp only [List.mem_append, List.mem_singleton, hxi, or_false] at hx
      exact I.has x hx
  · intro x j hj
    rw [AMap.get_insert] at hj
    by_cases hxi : x = index
    · simp only [hxi, if_true, Option.some.injEq] at hj
      subst hj; subst hxi; simp
    · simp only [hxi, if_false] at hj
      have := I.pos x j hj
      have hlt : j < pre.length := (List.getElem?_eq_some_iff.mp this).1
      rw [List.getElem?_append_left hlt]; exact this
  · by_cases hin : index ∈ pre
    · rw [AMap.length_insert_old _ _ _ I.sorted (hkey.mpr hin)]
      have := I.le; simp; omega
    · rw [AMap.length_insert_new _ _ _ (fun h => hin (hkey.mp h))]
      have := I.le; simp; omega
  · by_cases hin : index ∈ pre
    · rw [AMap.length_insert_old _ _ _ I.sorted (hkey.mpr hin)]
      have hle := I.le
      constructor
      · intro h; simp at h; omega
      · intro h
        rw [List.nodup_append] at h
        exact absurd rfl (h.2.2 index hin index (by simp))
    · rw [AMap.length_insert_new _ _ _ (fun h => hin (hkey.mp h))]
      simp only [List.length_append, List.length_cons, List.length_nil, Nat.zero_add,
        Nat.add_right_cancel_iff]
      rw [I.eq, List.nodup_append]
      constructor
      · intro h
        refine ⟨h, by simp, ?_⟩
        intro a ha b hb
        simp only [List.mem_singleton] at hb
        subst hb; exact fun e => hin (e ▸ ha)
      · intro h; exact h.1

theorem mapLoop_ok (N : Nat) : ∀ (rest pre : List Nat) (m : AMap Nat), MInv m pre →
    (∀ i ∈ rest, i < N) →
    ∃ m', mapIndexesLoop N pre.length rest m = .ok m' ∧ MInv m' (pre ++ rest)
  | [], pre, m, I, _ => ⟨m, rfl, by simpa using I⟩
  | index :: rest, pre, m, I, hr => by
    have h1 : ¬ index ≥ N := by have := hr index (by simp); omega
    simp only [mapIndexesLoop, h1, if_false]
    have := mapLoop_ok N rest (pre ++ [index]) _ (I.step index)
      (fun i hi => hr i (by simp [hi]))
    simpa using this

theorem mapLoop_oob (N : Nat) : ∀ (rest : List Nat) (i : Nat) (m : AMap Nat),
    (∃ x ∈ rest, N ≤ x) → mapIndexesLoop N i rest m = .error .oob
  | [], _, _, h => by simp at h
  | index :: rest, i, m, h => by
    unfold mapIndexesLoop
    by_cases h1 : index ≥ N
    · simp [h1]
    · simp only [h1, if_false]
      apply mapLoop_oob N rest
      obtain ⟨x, hx, hN⟩ := h
      simp only [List.mem_cons] at hx
      rcases hx with rfl | hx
      · exact absurd hN h1
      · exact ⟨x, hx, hN⟩

theorem MInv.nil : MInv ([] : AMap Nat) [] :=
  ⟨by simp [AMap.Sorted, AMap.keys], by simp, by simp [AMap.get], by simp, by simp⟩

theorem pow2usize_lt (d : Nat) (hd : d < 64) : pow2usize d = 2 ^ d := by
  unfold pow2usize
  exact Nat.mod_eq_of_lt (Nat.pow_lt_pow_right (by omega) hd)

/-- valid index lists: `map_indexes` gives the position map -/
theorem mapIndexes_ok (idxs : List Nat) (d : Nat) (hd : d < 64) (hnd : idxs.Nodup)
    (hr : ∀ i ∈ idxs, i < 2 ^ d) :
    ∃ imap, mapIndexes idxs d = .ok imap ∧ imap.length = idxs.length ∧
      ∀ x j, AMap.get imap x = some j ↔ idxs[j]? = some x := by
  obtain ⟨m, hm, I⟩ := mapLoop_ok (2 ^ d) idxs [] [] MInv.nil hr
  simp only [List.nil_append, List.length_nil] at hm I
  have hlen : m.length = idxs.length := I.eq.mpr hnd
  refine ⟨m, ?_, hlen, ?_⟩
  · simp [mapIndexes, pow2usize_lt d hd, hm, hlen]
  · intro x j
    constructor
    · exact I.pos x j
    · intro h
      obtain ⟨j', hj'⟩ := I.has x (List.mem_of_getElem? h)
      have h2 := I.pos x j' hj'
      obtain ⟨l1, e1⟩ := List.getElem?_eq_some_iff.mp h
      obtain ⟨l2, e2⟩ := List.getElem?_eq_some_iff.mp h2
      have : j = j' := (List.getElem_inj hnd).mp (e1.trans e2.symm)
      rw [this]; exact hj'

/-- an out-of-range index is refused -/
theorem mapIndexes_oob (idxs : List Nat) (d : Nat) (h : ∃ i ∈ idxs, pow2usize d ≤ i) :
    mapIndexes idxs d = .err .oob := by
  simp [mapIndexes, mapLoop_oob _ idxs 0 [] h]

/-- a duplicate (with every index in range) is refused -/
theorem mapIndexes_dup (idxs : List Nat) (d : Nat) (hr : ∀ i ∈ idxs, i < pow2usize d)
    (hnd : ¬ idxs.Nodup) : mapIndexes idxs d = .err .dup := by
  obtain ⟨m, hm, I⟩ := mapLoop_ok (pow2usize d) idxs [] [] MInv.nil hr
  simp only [List.nil_append, List.length_nil] at hm I
  have hne : idxs.length ≠ m.length := fun e => hnd (I.eq.mp e.symm)
  simp [mapIndexes, hm, hne]

end Wf.Merkle
