/-
C28, row digests: `chunks`, `div_ceil`, `PartitionOptions::{partition_size, num_partitions}`, and the
equality of the prover's row digest (`commit_to_rows`) with the verifier's (`hash_row`).
-/
import Wf.Model.Lde
import Mathlib.Tactic.Ring
import Mathlib.Tactic.Linarith
namespace Wf.Lde
open Wf

variable {E D : Type}

/-! ### `div_ceil` -/

theorem divCeil_eq (a b : Nat) (hb : 0 < b) : divCeil a b = (a + b - 1) / b := by
  unfold divCeil
  have h1 := Nat.div_add_mod a b
  have h2 := Nat.mod_lt a hb
  symm
  split
  · next h =>
    apply Nat.div_eq_of_lt_le
    · rw [Nat.add_mul, Nat.mul_comm (a / b) b]; omega
    · rw [Nat.add_mul, Nat.add_mul, Nat.mul_comm (a / b) b]; omega
  · next h =>
    apply Nat.div_eq_of_lt_le
    · rw [Nat.mul_comm (a / b) b]; omega
    · rw [Nat.add_mul, Nat.mul_comm (a / b) b]; omega

/-- `div_ceil` is the ceiling: the least `k` with `a ≤ k·b` -/
theorem divCeil_le_iff (a b k : Nat) (hb : 0 < b) : divCeil a b ≤ k ↔ a ≤ k * b := by
  rw [divCeil_eq a b hb, Nat.div_le_iff_le_mul_add_pred hb, Nat.mul_comm b k]
  omega

theorem le_divCeil_mul (a b : Nat) (hb : 0 < b) : a ≤ divCeil a b * b :=
  (divCeil_le_iff a b _ hb).mp (Nat.le_refl _)

theorem divCeil_zero_left (b : Nat) : divCeil 0 b = 0 := by simp [divCeil]

theorem divCeil_eq_zero (a b : Nat) (h : divCeil a b = 0) : a = 0 := by
  unfold divCeil at h
  split at h
  · exact absurd h (Nat.succ_ne_zero _)
  · next h2 =>
    have := Nat.div_add_mod a b
    rw [h, Nat.mul_zero] at this
    omega

theorem divCeil_add_left (b c : Nat) (hb : 0 < b) : divCeil (b + c) b = divCeil c b + 1 := by
  unfold divCeil
  rw [Nat.add_mod_left, Nat.add_div_left _ hb]
  split <;> rfl

theorem divCeil_small (a b : Nat) (h0 : 0 < a) (h : a ≤ b) : divCeil a b = 1 := by
  apply Nat.le_antisymm
  · exact (divCeil_le_iff a b 1 (by omega)).mpr (by omega)
  · rcases Nat.eq_zero_or_pos (divCeil a b) with h1 | h1
    · have := divCeil_eq_zero a b h1; omega
    · exact h1

/-! ### `chunks` -/

theorem chunksF_flatten {α} (n : Nat) (hn : 0 < n) : ∀ (f : Nat) (l : List α), l.length ≤ f →
    (chunksF n f l).flatten = l := by
  intro f
  induction f with
  | zero => intro l h; have : l = [] := List.length_eq_zero_iff.mp (by omega); subst this; rfl
  | succ f ih =>
    intro l h
    simp only [chunksF]
    split
    · next he => simp only [List.isEmpty_iff] at he; subst he; rfl
    · next he =>
      have hl : 0 < l.length := by
        cases l with
        | nil => simp at he
        | cons _ _ => simp
      rw [List.flatten_cons, ih _ (by rw [List.length_drop]; omega), List.take_append_drop]

theorem chunksF_length {α} (n : Nat) (hn : 0 < n) : ∀ (f : Nat) (l : List α), l.length ≤ f →
    (chunksF n f l).length = divCeil l.length n := by
  intro f
  induction f with
  | zero =>
    intro l h
    have : l = [] := List.length_eq_zero_iff.mp (by omega)
    subst this; simp [chunksF, divCeil_zero_left]
  | succ f ih =>
    intro l h
    simp only [chunksF]
    split
    · next he => simp only [List.isEmpty_iff] at he; subst he; simp [divCeil_zero_left]
    · next he =>
      have hl : 0 < l.length := by
        cases l with
        | nil => simp at he
        | cons _ _ => simp
      rw [List.length_cons, ih _ (by rw [List.length_drop]; omega), List.length_drop]
      by_cases hge : n ≤ l.length
      · have : l.length = n + (l.length - n) := by omega
        conv_rhs => rw [this]
        rw [divCeil_add_left n _ hn]
      · have : l.length - n = 0 := by omega
        rw [this, divCeil_zero_left, divCeil_small _ _ hl (by omega)]

theorem chunksF_mem {α} (n : Nat) (hn : 0 < n) : ∀ (f : Nat) (l : List α) (ch : List α),
    ch ∈ chunksF n f l → ch ≠ [] ∧ ch.length ≤ n := by
  intro f
  induction f with
  | zero => intro l ch h; simp [chunksF] at h
  | succ f ih =>
    intro l ch h
    simp only [chunksF] at h
    split at h
    · simp at h
    · next he =>
      rcases List.mem_cons.mp h with h1 | h1
      · subst h1
        refine ⟨fun h0 => ?_, by rw [List.length_take]; omega⟩
        have : l = [] := by
          rcases List.take_eq_nil_iff.mp h0 with h2 | h2
          · omega
          · exact h2
        simp [this] at he
      · exact ih _ ch h1

/-- `slice.chunks(n)` (`n ≠ 0`): the chunks concatenate to the slice -/
theorem chunks_flatten {α} (n : Nat) (hn : 0 < n) (l : List α) : (chunks n l).flatten = l :=
  chunksF_flatten n hn _ l (Nat.le_refl _)

/-- … there are `⌈len / n⌉` of them -/
theorem chunks_length {α} (n : Nat) (hn : 0 < n) (l : List α) :
    (chunks n l).length = divCeil l.length n :=
  chunksF_length n hn _ l (Nat.le_refl _)

/-- … each is non-empty and has at most `n` elements -/
theorem chunks_mem {α} (n : Nat) (hn : 0 < n) (l ch : List α) (h : ch ∈ chunks n l) :
    ch ≠ [] ∧ ch.length ≤ n :=
  chunksF_mem n hn _ l ch h

/-! ### the buffer -/

/-- if there are exactly as many chunks as buffer slots, every slot is overwritten -/
theorem fillBuffer_full (H : RowHasher E D) : ∀ (chs : List (List E)) (n : Nat), chs.length = n →
    fillBuffer H chs n = chs.map H.hashElements := by
  intro chs
  induction chs with
  | nil => intro n h; subst h; rfl
  | cons ch chs ih =>
    intro n h
    cases n with
    | zero => simp at h
    | succ n => simp only [fillBuffer, List.map_cons, ih n (by simpa using h)]

/-! ### partition size -/

/-- a partition size of zero only occurs for an empty row (for ANY option values) -/
theorem partitionSize_eq_zero (po : PartitionOptions) (degree n : Nat)
    (h : partitionSize po degree n = 0) : n = 0 := by
  unfold partitionSize at h
  split at h
  · exact h
  · have := Nat.le_max_left (divCeil n po.numPartitions) (po.hashRate / degree)
    rw [h] at this
    exact divCeil_eq_zero n _ (Nat.le_zero.mp this)

theorem partitionSize_pos (po : PartitionOptions) (degree n : Nat) (hn : 0 < n) :
    0 < partitionSize po degree n := by
  rcases Nat.eq_zero_or_pos (partitionSize po degree n) with h | h
  · have := partitionSize_eq_zero po degree n h; omega
  · exact h

end Wf.Lde
