/-
Helper lemmas for C14 (batch field utilities): equation lemmas for the model functions of
`Wf/Model/BatchUtils.lean`, projections of the `ringOps` bridge, the running-product invariant of
batch inversion, the chunk-partition lemmas for `batch_iter_mut!`, power-series closed forms and
list lemmas for grouping / transposition.
-/
import Wf.Model.BatchUtils
import Wf.Lemmas.RingOps
import Mathlib.Algebra.Field.Basic
import Mathlib.Data.List.Basic
namespace Wf.BatchUtils
open Wf

theorem invFwd_cons {F} (ops : FieldOps F) (v : F) (vs : List F) (last : F) :
    invFwd ops (v :: vs) last =
      (last :: (invFwd ops vs (if ops.beq v ops.zero then last else ops.mul last v)).1,
       (invFwd ops vs (if ops.beq v ops.zero then last else ops.mul last v)).2) := rfl

theorem invBwd_cons {F} (ops : FieldOps F) (v r : F) (vs rs : List F) (last : F) :
    invBwd ops (v :: vs) (r :: rs) last =
      if ops.beq v ops.zero then (ops.zero :: (invBwd ops vs rs last).1, (invBwd ops vs rs last).2)
      else (ops.mul r (invBwd ops vs rs last).2 :: (invBwd ops vs rs last).1,
            ops.mul (invBwd ops vs rs last).2 v) := by
  simp only [invBwd]

theorem serialBatchInversion_def {F} (ops : FieldOps F) (vs : List F) :
    serialBatchInversion ops vs =
      (invBwd ops vs (invFwd ops vs ops.one).1 (ops.inv (invFwd ops vs ops.one).2)).1 := rfl

section proj
variable {R : Type} [CommRing R] [DecidableEq R] (inv : R → R)
@[simp] theorem ringOps_zero : (ringOps R inv).zero = 0 := rfl
@[simp] theorem ringOps_one : (ringOps R inv).one = 1 := rfl
@[simp] theorem ringOps_add (a b : R) : (ringOps R inv).add a b = a + b := rfl
@[simp] theorem ringOps_sub (a b : R) : (ringOps R inv).sub a b = a - b := rfl
@[simp] theorem ringOps_mul (a b : R) : (ringOps R inv).mul a b = a * b := rfl
@[simp] theorem ringOps_neg (a : R) : (ringOps R inv).neg a = -a := rfl
@[simp] theorem ringOps_inv (a : R) : (ringOps R inv).inv a = inv a := rfl
@[simp] theorem ringOps_beq (a b : R) : (ringOps R inv).beq a b = decide (a = b) := rfl
end proj

section inv
variable {K : Type} [Field K] [DecidableEq K] (inv : K → K)

/-- product of the non-zero elements -/
def nzProd : List K → K
  | [] => 1
  | v :: vs => (if v = 0 then 1 else v) * nzProd vs

theorem nzProd_ne_zero (vs : List K) : nzProd vs ≠ 0 := by
  induction vs with
  | nil => simp [nzProd]
  | cons v vs ih =>
    by_cases h : v = 0 <;> simp [nzProd, h, ih]

theorem invFwd_snd (vs : List K) (p : K) :
    (invFwd (ringOps K inv) vs p).2 = p * nzProd vs := by
  induction vs generalizing p with
  | nil => simp [invFwd, nzProd]
  | cons v vs ih =>
    rw [invFwd_cons]
    by_cases h : v = 0
    · simp [h, nzProd, ih]
    · simp [h, nzProd, ih, mul_assoc]

theorem invBwd_spec (vs : List K) (p l : K) (hp : p ≠ 0) (hl : l * (p * nzProd vs) = 1) :
    invBwd (ringOps K inv) vs (invFwd (ringOps K inv) vs p).1 l = (vs.map (·⁻¹), l * nzProd vs) := by
  induction vs generalizing p with
  | nil => simp [invBwd, nzProd]
  | cons v vs ih =>
    rw [invFwd_cons, invBwd_cons]
    by_cases h : v = 0
    · have := ih p hp (by simpa [nzProd, h] using hl)
      simp [h, nzProd] at this ⊢
      simp [this]
    · have := ih (p * v) (mul_ne_zero hp h) (by rw [← hl]; simp only [nzProd, if_neg h]; ring)
      simp [h, nzProd] at this ⊢
      simp [this]
      constructor
      · apply eq_inv_of_mul_eq_one_left
        rw [← hl]; simp only [nzProd, if_neg h]; ring
      · ring

theorem serialBatchInversion_eq (hinv : ∀ x : K, x ≠ 0 → x * inv x = 1) (vs : List K) :
    serialBatchInversion (ringOps K inv) vs = vs.map (·⁻¹) := by
  have hne : (1 : K) * nzProd vs ≠ 0 := by simpa using nzProd_ne_zero vs
  have := invBwd_spec inv vs 1 (inv (1 * nzProd vs)) one_ne_zero (by rw [mul_comm]; exact hinv _ hne)
  rw [serialBatchInversion_def]
  rw [ringOps_one, ringOps_inv, invFwd_snd, this]
end inv

/-! ### chunking -/

/-- consecutive `bs`-sized pieces (the last one cut at the end of the list) concatenate to a prefix -/
theorem flatten_pieces {α} (xs : List α) (bs : Nat) (k : Nat) :
    ((List.range k).map (fun i => (xs.drop (i * bs)).take (min bs (xs.length - i * bs)))).flatten
      = xs.take (k * bs) := by
  induction k with
  | zero => simp
  | succ k ih =>
    rw [List.range_succ, List.map_append, List.flatten_append, ih]
    simp only [List.map_cons, List.map_nil, List.flatten_cons, List.flatten_nil, List.append_nil]
    rw [Nat.succ_mul, List.take_add]
    congr 1
    rw [List.take_eq_take_iff]
    simp [List.length_drop]

theorem lt_ceil_iff (len bs i : Nat) (hbs : 0 < bs) :
    i < (len + bs - 1) / bs ↔ i * bs < len := by
  rw [Nat.lt_iff_add_one_le, Nat.le_div_iff_mul_le hbs, Nat.add_mul]
  omega

theorem ceil_mul_ge (len bs : Nat) (hbs : 0 < bs) : len ≤ (len + bs - 1) / bs * bs := by
  have := Nat.lt_irrefl ((len + bs - 1) / bs)
  rw [lt_ceil_iff len bs _ hbs] at this
  omega


theorem mapM_some_of_forall {α β} (f : α → Option β) (g : α → β) (l : List α)
    (h : ∀ a ∈ l, f a = some (g a)) : l.mapM f = some (l.map g) := by
  induction l with
  | nil => rfl
  | cons a l ih =>
    have h1 := h a (List.mem_cons_self ..)
    have h2 := ih (fun b hb => h b (List.mem_cons_of_mem _ hb))
    simp [List.mapM_cons, h1, h2]

theorem batchApply_of_pieces {F} (cs : List (Nat × Nat)) (c : Nat → Nat → Option (List F))
    (whole : List F) (h : ∀ p ∈ cs, c p.1 p.2 = some ((whole.drop p.1).take p.2))
    (hcov : (cs.map (fun p => (whole.drop p.1).take p.2)).flatten = whole) :
    batchApply cs c = some whole := by
  unfold batchApply
  rw [mapM_some_of_forall _ (fun p => (whole.drop p.1).take p.2) cs h]
  simp [hcov]

theorem chunkPlan_partition (len threads m : Nat) (hm : 0 < m) :
    ∃ cs bs, chunkPlan len threads m = some cs ∧ cs ≠ [] ∧
      (∀ i (h : i < cs.length), cs[i] = (i * bs, min bs (len - i * bs))) ∧
      (0 < len → ∀ c ∈ cs, 0 < c.2) ∧ (∀ c ∈ cs, c.1 + c.2 ≤ len) ∧
      (∀ {α : Type} (xs : List α), xs.length = len →
        (cs.map (fun c => (xs.drop c.1).take c.2)).flatten = xs) := by
  unfold chunkPlan
  generalize hbs : len / Nat.nextPowerOfTwo threads = bs
  by_cases h1 : bs < m
  · refine ⟨[(0, len)], len, by simp [h1], by simp, ?_, ?_, ?_, ?_⟩
    · intro i h
      have : i = 0 := by simpa using h
      subst this; simp
    · intro hl c hc
      simp at hc; subst hc; exact hl
    · intro c hc
      simp at hc; subst hc; simp
    · intro α xs hx
      simp [← hx]
  · have hpos : 0 < bs := by omega
    have hne : bs ≠ 0 := by omega
    refine ⟨(List.range ((len + bs - 1) / bs)).map (fun i => (i * bs, min bs (len - i * bs))), bs,
      by simp only [if_neg h1, if_neg hne], ?_, ?_, ?_, ?_, ?_⟩
    · have : 0 < (len + bs - 1) / bs := by
        rw [lt_ceil_iff len bs 0 hpos]
        have := Nat.div_mul_le_self len (Nat.nextPowerOfTwo threads)
        have hp := Nat.pos_of_isPowerOfTwo (Nat.isPowerOfTwo_nextPowerOfTwo threads)
        rw [hbs] at this
        have : bs * 1 ≤ bs * Nat.nextPowerOfTwo threads := Nat.mul_le_mul_left _ hp
        omega
      apply List.ne_nil_of_length_pos
      rw [List.length_map, List.length_range]
      exact this
    · intro i h
      simp
    · intro hl c hc
      simp only [List.mem_map, List.mem_range] at hc
      obtain ⟨i, hi, rfl⟩ := hc
      rw [lt_ceil_iff len bs i hpos] at hi
      simp only
      omega
    · intro c hc
      simp only [List.mem_map, List.mem_range] at hc
      obtain ⟨i, hi, rfl⟩ := hc
      rw [lt_ceil_iff len bs i hpos] at hi
      simp only
      omega
    · intro α xs hx
      have := flatten_pieces xs bs ((len + bs - 1) / bs)
      rw [List.map_map]
      simp only [Function.comp_def]
      rw [hx] at this
      rw [this, List.take_of_length_le]
      rw [hx]; exact ceil_mul_ge len bs hpos

theorem chunkPlan_none_iff (len threads m : Nat) :
    chunkPlan len threads m = none ↔ m = 0 ∧ len / Nat.nextPowerOfTwo threads = 0 := by
  unfold chunkPlan
  generalize len / Nat.nextPowerOfTwo threads = bs
  by_cases h1 : bs < m
  · simp [h1]; omega
  · by_cases h2 : bs = 0
    · simp [h2]
    · simp [h1, h2]

/-- `batch_inversion` for every thread count (used by C13's interpolation lemmas) -/
theorem batchInversion_eq {K : Type} [Field K] [DecidableEq K] (inv : K → K)
    (hinv : ∀ x : K, x ≠ 0 → x * inv x = 1) (threads : Nat) (vs : List K) :
    batchInversion (ringOps K inv) threads vs = some (vs.map (fun v => v⁻¹)) := by
  obtain ⟨cs, bs, hplan, _, _, _, _, hcov⟩ := chunkPlan_partition vs.length threads 1024 (by decide)
  unfold batchInversion
  rw [hplan]
  apply batchApply_of_pieces
  · intro p _
    rw [serialBatchInversion_eq inv hinv]
    simp [List.map_take, List.map_drop]
  · exact hcov _ (by simp)

/-! ### power series -/


theorem drop_take_range_map {β} (f : Nat → β) (n o l : Nat) (h : o + l ≤ n) :
    (((List.range n).map f).drop o).take l = (List.range l).map (fun i => f (o + i)) := by
  apply List.ext_getElem
  · simp; omega
  · intro i h1 h2
    simp

section pow
variable {R : Type} [CommRing R] [DecidableEq R] (inv : R → R)

theorem fillTail_eq (b : R) (k : Nat) (prev : R) :
    fillTail (ringOps R inv) b k prev = (List.range k).map (fun i => prev * b ^ (i + 1)) := by
  induction k generalizing prev with
  | zero => rfl
  | succ k ih =>
    rw [fillTail, ih, List.range_succ_eq_map]
    simp only [ringOps_mul, List.map_cons, List.map_map, Function.comp_def]
    congr 1
    · ring
    · apply List.map_congr_left
      intro i _
      simp only [Nat.succ_eq_add_one]
      ring

theorem fillPowerSeries_eq (b s : R) (l : Nat) :
    fillPowerSeries (ringOps R inv) l b s = some ((List.range l).map (fun i => s * b ^ i)) := by
  cases l with
  | zero => rfl
  | succ k =>
    simp only [fillPowerSeries, fillTail_eq]
    rw [List.range_succ_eq_map]
    simp [Function.comp_def]
end pow

/-! ### element-wise updates -/

theorem zipAdd_eq_zipWith {F} (ops : FieldOps F) (a b : List F) (h : a.length = b.length) :
    zipAdd ops a b = List.zipWith ops.add a b := by
  induction a generalizing b with
  | nil => cases b <;> simp [zipAdd]
  | cons x xs ih =>
    cases b with
    | nil => simp at h
    | cons y ys => simp [zipAdd, ih ys (by simpa using h)]

theorem zipMulAcc_eq_zipWith {F B} (ops : FieldOps F) (mb : F → B → F) (c : F) (a : List F)
    (b : List B) (h : a.length = b.length) :
    zipMulAcc ops mb c a b = List.zipWith (fun x y => ops.add x (mb c y)) a b := by
  induction a generalizing b with
  | nil => cases b <;> simp [zipMulAcc]
  | cons x xs ih =>
    cases b with
    | nil => simp at h
    | cons y ys => simp [zipMulAcc, ih ys (by simpa using h)]

/-! ### grouping / flattening / transposition -/

theorem flatten_chunksOf {α} (xs : List α) (n k : Nat) :
    (chunksOf n xs k).flatten = xs.take (k * n) := by
  unfold chunksOf
  induction k with
  | zero => simp
  | succ k ih =>
    rw [List.range_succ, List.map_append, List.flatten_append, ih]
    simp only [List.map_cons, List.map_nil, List.flatten_cons, List.flatten_nil, List.append_nil]
    rw [Nat.succ_mul, List.take_add]

theorem drop_flatten_uniform {α} (n : Nat) (xss : List (List α)) (i : Nat)
    (h : ∀ a ∈ xss, a.length = n) : xss.flatten.drop (i * n) = (xss.drop i).flatten := by
  induction xss generalizing i with
  | nil => simp
  | cons a rest ih =>
    cases i with
    | zero => simp
    | succ i =>
      have ha : a.length = n := h a (List.mem_cons_self ..)
      subst ha
      rw [List.flatten_cons, Nat.succ_mul, Nat.add_comm (i * a.length) a.length, List.drop_append,
        List.drop_eq_nil_of_le (Nat.le_add_right _ _), List.nil_append, Nat.add_sub_cancel_left]
      simpa using ih i (fun b hb => h b (List.mem_cons_of_mem _ hb))

theorem length_flatten_uniform {α} (n : Nat) (xss : List (List α))
    (h : ∀ a ∈ xss, a.length = n) : xss.flatten.length = xss.length * n := by
  induction xss with
  | nil => simp
  | cons a rest ih =>
    have ha : a.length = n := h a (List.mem_cons_self ..)
    rw [List.flatten_cons, List.length_append, ih (fun b hb => h b (List.mem_cons_of_mem _ hb)), ha,
      List.length_cons, Nat.succ_mul, Nat.add_comm]

theorem chunksOf_flatten {α} (n : Nat) (xss : List (List α)) (h : ∀ a ∈ xss, a.length = n) :
    chunksOf n xss.flatten xss.length = xss := by
  unfold chunksOf
  apply List.ext_getElem
  · simp
  · intro i h1 h2
    simp only [List.getElem_map, List.getElem_range]
    rw [drop_flatten_uniform n xss i h]
    have hi : i < xss.length := h2
    rw [List.drop_eq_getElem_cons hi, List.flatten_cons]
    have : xss[i].length = n := h _ (List.getElem_mem hi)
    subst this
    simp

theorem mapM_option_spec {α β} (f : α → Option β) (l : List α) (h : ∀ a ∈ l, (f a).isSome) :
    ∃ bs, l.mapM f = some bs ∧ bs.length = l.length ∧
      ∀ i (hi : i < l.length), bs[i]? = f l[i] := by
  induction l with
  | nil => exact ⟨[], rfl, rfl, fun i hi => by simp at hi⟩
  | cons a l ih =>
    obtain ⟨bs, h1, h2, h3⟩ := ih (fun b hb => h b (List.mem_cons_of_mem _ hb))
    obtain ⟨b, hb⟩ := Option.isSome_iff_exists.mp (h a (List.mem_cons_self ..))
    refine ⟨b :: bs, by simp [List.mapM_cons, hb, h1], by simp [h2], ?_⟩
    intro i hi
    cases i with
    | zero => simp [hb]
    | succ i => simpa using h3 i (by simpa using hi)

end Wf.BatchUtils
